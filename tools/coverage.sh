#!/bin/bash
# Which functions of the crate does the harness never execute? (development aid; not part of any check)
# Builds the harness with -C instrument-coverage on the nightly toolchain in a scratch directory OUTSIDE /verif,
# runs every stream once (quick sizes), merges the profiles and lists the crate functions with zero executions.
set -e
S=${1:-/tmp/verif_cov}
rm -rf "$S"; mkdir -p "$S"
B=$(rustc +nightly --print sysroot)/lib/rustlib/x86_64-unknown-linux-gnu/bin
(cd /verif/harness && RUSTFLAGS="-C instrument-coverage" CARGO_NET_OFFLINE=true CARGO_TARGET_DIR="$S/target" cargo +nightly build --release --offline 2>/dev/null)
i=0
for s in values:300 lexvalues:300 surface:100 malformed:400 foldarb:600 foldtable:1 pairs:600 seqs:150 api:800 mutators:1500 ctor:1500 grammar:400 small:1 corpus:1; do
  i=$((i+1)); LLVM_PROFILE_FILE="$S/p$i.profraw" VERIF_CORPUS=/verif/corpus/ops.txt "$S/target/release/harness" gen ${s%:*} 1 ${s#*:} > /dev/null 2>&1 || true
done
LLVM_PROFILE_FILE="$S/pd.profraw" "$S/target/release/harness" dump-tables > /dev/null
"$B/llvm-profdata" merge -sparse "$S"/*.profraw -o "$S/all.profdata"
"$B/llvm-cov" report "$S/target/release/harness" -instr-profile="$S/all.profdata" --ignore-filename-regex='(registry|rustc|/verif/)' 2>/dev/null | tail -1
"$B/llvm-cov" export "$S/target/release/harness" -instr-profile="$S/all.profdata" --ignore-filename-regex='(registry|rustc|/verif/)' -format=text 2>/dev/null > "$S/cov.json"
python3 - "$S/cov.json" <<'PY'
import json,sys
from collections import defaultdict
d=json.load(open(sys.argv[1]))
g=defaultdict(int)
for f in d['data'][0]['functions']:
    file=f['filenames'][0]
    if file.startswith('/repo/src'):
        g[(file.replace('/repo/src/',''), f['regions'][0][0])]+=f['count']
src={}
for (file,line),cnt in sorted(g.items()):
    if cnt==0:
        if file not in src: src[file]=open('/repo/src/'+file,encoding='utf-8').read().split("\n")
        sig=src[file][line-1].strip()
        for k in range(line-1, max(line-6,0), -1):
            if 'fn ' in src[file][k]: sig=src[file][k].strip(); break
        print(f"never executed: {file}:{line}: {sig[:100]}")
PY
rm -rf "$S"
