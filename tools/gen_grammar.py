#!/usr/bin/env python3
"""Translate the ```pest block of /repo/README.md (the published CommonNarsese grammar) into a Lean PEG AST.

usage: gen_grammar.py <README.md> <out_dir> [<README.en.md>]     → <out_dir>/ReadmeGrammar.lean
The Unicode classes the grammar names (PUNCTUATION|SYMBOL, LETTER|NUMBER, WHITE_SPACE, ASCII_DIGIT) are
emitted as range tables computed with python's unicodedata.
"""
import sys, os, re, unicodedata

def extract(readme):
    text = open(readme, encoding="utf-8").read()
    m = re.search(r"```pest\n(.*?)```", text, re.S)
    if not m:
        raise SystemExit("no ```pest block in " + readme)
    return m.group(1)

# ---------- tokenizer ----------
TOK = re.compile(r'''\s+|//[^\n]*|(?P<str>"(?:[^"\\]|\\.)*")|(?P<id>[A-Za-z_][A-Za-z_0-9]*)|(?P<sym>[=~|*+?!(){}@_$&])''')

def tokenize(src):
    pos, out = 0, []
    while pos < len(src):
        m = TOK.match(src, pos)
        if not m:
            raise SystemExit("grammar: cannot tokenize at %r" % src[pos:pos + 30])
        pos = m.end()
        if m.group("str"):
            s = m.group("str")[1:-1]
            s = s.replace('\\"', '"').replace("\\\\", "\\")
            out.append(("str", s))
        elif m.group("id"):
            out.append(("id", m.group("id")))
        elif m.group("sym"):
            out.append(("sym", m.group("sym")))
    return out

# ---------- parser (pest expression grammar: choice > sequence > prefix > postfix > primary) ----------
class P:
    def __init__(self, toks):
        self.t, self.i = toks, 0
    def peek(self, k=0):
        return self.t[self.i + k] if self.i + k < len(self.t) else (None, None)
    def eat(self, kind, val=None):
        k, v = self.peek()
        if k != kind or (val is not None and v != val):
            raise SystemExit("grammar: expected %s %r, got %s %r at token %d" % (kind, val, k, v, self.i))
        self.i += 1
        return v
    def rules(self):
        rs = []
        while self.peek()[0] is not None:
            name = self.eat("id")
            self.eat("sym", "=")
            mod = "normal"
            if self.peek() in (("sym", "_"), ("id", "_")):
                self.i += 1; mod = "silent"
            elif self.peek() == ("sym", "@"):
                self.eat("sym"); mod = "atomic"
            elif self.peek() == ("sym", "$"):
                self.eat("sym"); mod = "compound"
            self.eat("sym", "{")
            body = self.choice()
            self.eat("sym", "}")
            rs.append((name, mod, body))
        return rs
    def choice(self):
        if self.peek() == ("sym", "|"):
            self.eat("sym")
        a = self.seq()
        while self.peek() == ("sym", "|"):
            self.eat("sym")
            a = ("alt", a, self.seq())
        return a
    def seq(self):
        a = self.prefix()
        while self.peek() == ("sym", "~"):
            self.eat("sym")
            a = ("seq", a, self.prefix())
        return a
    def prefix(self):
        if self.peek() == ("sym", "!"):
            self.eat("sym")
            return ("neg", self.prefix())
        if self.peek() == ("sym", "&"):
            self.eat("sym")
            return ("neg", ("neg", self.prefix()))
        return self.postfix()
    def postfix(self):
        a = self.primary()
        while self.peek()[0] == "sym" and self.peek()[1] in "*+?":
            op = self.eat("sym")
            a = ({"*": "star", "+": "plus", "?": "opt"}[op], a)
        return a
    def primary(self):
        k, v = self.peek()
        if k == "str":
            self.eat("str")
            return ("lit", v)
        if k == "id":
            self.eat("id")
            return ("ref", v)
        if (k, v) == ("sym", "("):
            self.eat("sym")
            a = self.choice()
            self.eat("sym", ")")
            return a
        raise SystemExit("grammar: unexpected token %s %r" % (k, v))

BUILTIN = {"ANY", "ASCII_DIGIT", "LETTER", "NUMBER", "PUNCTUATION", "SYMBOL", "WHITE_SPACE"}

def lstr(s):
    return "[" + ", ".join("Char.ofNat %d" % ord(c) for c in s) + "]"

def lean(e, rules):
    k = e[0]
    if k == "lit":
        return "(.lit %s)" % lstr(e[1])
    if k == "ref":
        if e[1] in BUILTIN and e[1] not in rules:
            return "(.cls \"%s\")" % e[1]
        return "(.ref \"%s\")" % e[1]
    if k in ("seq", "alt"):
        return "(.%s %s %s)" % (k, lean(e[1], rules), lean(e[2], rules))
    return "(.%s %s)" % (k, lean(e[1], rules))

def ranges(pred):
    out, cur = [], None
    for n in range(0x110000):
        if 0xD800 <= n <= 0xDFFF:
            ok = False
        else:
            ok = pred(chr(n))
        if ok:
            cur = (cur[0], n) if cur else (n, n)
        elif cur:
            out.append(cur); cur = None
    if cur:
        out.append(cur)
    return "[" + ", ".join("(%d, %d)" % r for r in out) + "]"

WS = [0x9, 0xA, 0xB, 0xC, 0xD, 0x20, 0x85, 0xA0, 0x1680] + list(range(0x2000, 0x200B)) + [0x2028, 0x2029, 0x202F, 0x205F, 0x3000]

def main():
    readme, out_dir = sys.argv[1], sys.argv[2]
    readme_en = sys.argv[3] if len(sys.argv) > 3 else None
    rules = P(tokenize(extract(readme))).rules()
    names = {r[0] for r in rules}
    o = ["/- GENERATED by tools/gen_grammar.py from the ```pest block of README.md. DO NOT EDIT. -/",
         "import NarseseModel.Peg", "set_option autoImplicit false", "set_option maxRecDepth 100000",
         "namespace Narsese.Gen", ""]
    o.append("def readmeRules : List Peg.Rule := [")
    o.append(",\n".join("  { name := \"%s\", mod := .%s, body := %s }" % (n, m, lean(b, names)) for n, m, b in rules))
    o.append("]")
    # the English README publishes the same grammar: translated separately, compared in Props/C11c.lean
    en_rules, en_err = [], ""
    if readme_en is not None:
        try:
            en_rules = P(tokenize(extract(readme_en))).rules()
        except SystemExit as e:
            en_rules, en_err = [], str(e)
    en_names = {r[0] for r in en_rules}
    o.append("/-- the ```pest block of README.en.md (empty when it is not a well-formed pest grammar) -/")
    o.append("def readmeRulesEn : List Peg.Rule := [")
    o.append(",\n".join("  { name := \"%s\", mod := .%s, body := %s }" % (n, m, lean(b, en_names)) for n, m, b in en_rules))
    o.append("]")
    o.append("def readmeEnError : String := %s" % ('"' + en_err.replace("\\", "\\\\").replace('"', '\\"') + '"'))
    cat = unicodedata.category
    o.append("def clsPunctSym : List (Nat × Nat) := " + ranges(lambda c: cat(c)[0] in "PS"))
    o.append("def clsLetterNum : List (Nat × Nat) := " + ranges(lambda c: cat(c)[0] in "LN"))
    o.append("def clsLetter : List (Nat × Nat) := " + ranges(lambda c: cat(c)[0] == "L"))
    o.append("def clsNumber : List (Nat × Nat) := " + ranges(lambda c: cat(c)[0] == "N"))
    o.append("def clsPunct : List (Nat × Nat) := " + ranges(lambda c: cat(c)[0] == "P"))
    o.append("def clsSymbol : List (Nat × Nat) := " + ranges(lambda c: cat(c)[0] == "S"))
    o.append("def clsWhite : List (Nat × Nat) := " + ranges(lambda c: ord(c) in WS))
    o.append("")
    o.append("def readmeClasses : List (String × List (Nat × Nat)) :=")
    o.append("  [(\"LETTER\", clsLetter), (\"NUMBER\", clsNumber), (\"PUNCTUATION\", clsPunct), (\"SYMBOL\", clsSymbol),")
    o.append("   (\"WHITE_SPACE\", clsWhite), (\"ASCII_DIGIT\", [(48, 57)]), (\"ANY\", [(0, 1114111)])]")
    o.append("")
    o.append("def readmeGrammar : Peg.Grammar where")
    o.append("  rules := readmeRules")
    o.append("  classes := readmeClasses")
    o.append("")
    o.append("def readmeGrammarEn : Peg.Grammar where")
    o.append("  rules := readmeRulesEn")
    o.append("  classes := readmeClasses")
    o.append("")
    o.append("end Narsese.Gen")
    text = "\n".join(o) + "\n"
    os.makedirs(out_dir, exist_ok=True)
    path = os.path.join(out_dir, "ReadmeGrammar.lean")
    old = open(path, encoding="utf-8").read() if os.path.exists(path) else None
    if old != text:
        open(path, "w", encoding="utf-8").write(text)
        print("gen_grammar: wrote", path)
    else:
        print("gen_grammar: unchanged", path)
    if en_err:
        print("gen_grammar: README.en.md block is not a well-formed pest grammar:", en_err)

main()
