#!/usr/bin/env python3
"""Seed corpus and dictionary for the differential fuzzer (harness/fuzz/fuzz_targets/diff.rs).

usage: fuzz_seed.py <harness-bin> <tables.json> <out_corpus_dir> <out_dict>
corpus: one file per (op, format, text) taken from the harness's own streams (formatter outputs, spaced and
sugared spellings, malformed inputs); dictionary: every keyword of the three formats (both table families).
"""
import sys, os, json, subprocess, hashlib

OPS = ["eparse", "lparse", "lfold", "echars", "etruth", "ebudget", "estamp", "epunct", "lparseterm", "emid"]
FMTS = ["ascii", "latex", "han"]


def unhs(h):
    return "" if h in ("", "-") else "".join(chr(int(x, 16)) for x in h.split("."))


def main():
    hbin, tables, outdir, outdict = sys.argv[1:5]
    os.makedirs(outdir, exist_ok=True)
    n = 0
    for stream, cnt in (("surface", 40), ("malformed", 120), ("values", 40), ("lexvalues", 40)):
        p = subprocess.run([hbin, "gen", stream, "7", str(cnt)], capture_output=True, text=True, timeout=300)
        for line in p.stdout.split("\n"):
            c = line.split("\t")
            if len(c) < 4 or c[0] not in OPS or c[1] not in FMTS:
                continue
            text = unhs(c[2])
            if len(text.encode()) > 150:
                continue
            data = bytes([OPS.index(c[0]), FMTS.index(c[1])]) + text.encode()
            open(os.path.join(outdir, hashlib.sha1(data).hexdigest()[:16]), "wb").write(data)
            n += 1
    kws = set()

    def walk(o):
        if isinstance(o, str):
            if 0 < len(o) <= 24:
                kws.add(o)
        elif isinstance(o, dict):
            for v in o.values():
                walk(v)
        elif isinstance(o, list):
            for v in o:
                walk(v)
    walk(json.load(open(tables, encoding="utf-8")))
    with open(outdict, "w", encoding="ascii") as f:
        for k in sorted(kws):
            esc = "".join("\\x%02x" % b for b in k.encode())
            f.write('"%s"\n' % esc)
    print("fuzz_seed: %d corpus files, %d dictionary entries" % (n, len(kws)))


main()
