#!/usr/bin/env python3
"""Minimise a text input on which the real crate (harness `exec`) and the Lean model (driver) disagree.

The payload of the text-taking ops is a dot-separated list of hexadecimal code points (`-` for the empty string).
Delta debugging over the characters: remove chunks (halves, quarters, … single characters) as long as the two
programs still give different answers for the same (op, format, payload) line. All candidates of one round are
evaluated in ONE run of each program (both read many lines), so a minimisation costs a few dozen process starts.

usage (stand-alone): shrink.py <harness-bin> <driver-bin> <op> <fmt> <payload>
"""
import subprocess, sys

# (`peg` / `pegen` are NOT here: for them the two programs are different things — the library's parser and the published
# grammar — which are only required to agree on formatter outputs; a shrunk string is no longer one)
TEXT_OPS = {"eparse", "echars", "etruth", "ebudget", "estamp", "epunct", "lparse", "lparseterm", "lfold", "emid"}


def _run(cmd, lines, timeout=120):
    try:
        p = subprocess.run(cmd, input="".join(l + "\n" for l in lines), capture_output=True, text=True, timeout=timeout)
    except subprocess.TimeoutExpired:
        return None
    out = p.stdout.split("\n")
    return out[:len(lines)] if len(out) >= len(lines) else None


def decode(payload):
    return [] if payload in ("", "-") else payload.split(".")


def encode(chars):
    return ".".join(chars) if chars else "-"


def differs_batch(hbin, drv, op, fmt, cands):
    """for each candidate character list: do the two programs differ? (None = could not be decided)"""
    lines = ["%s\t%s\t%s" % (op, fmt, encode(c)) for c in cands]
    a = _run([hbin, "exec"], lines)
    b = _run([drv], lines)
    if a is None or b is None:
        return [None] * len(cands)
    return [x != y for x, y in zip(a, b)]


def shrink(hbin, drv, op, fmt, payload, max_rounds=60):
    """returns (minimised payload, number of candidate evaluations); the input itself if nothing smaller differs"""
    if op not in TEXT_OPS:
        return payload, 0
    cur = decode(payload)
    evals = 0
    first = differs_batch(hbin, drv, op, fmt, [cur])
    evals += 1
    if first != [True]:
        return payload, evals          # not reproducible in isolation (state-dependent): leave it alone
    n = 2
    rounds = 0
    while len(cur) >= 2 and rounds < max_rounds:
        rounds += 1
        size = max(1, len(cur) // n)
        cands = []
        for i in range(0, len(cur), size):
            cands.append(cur[:i] + cur[i + size:])
        res = differs_batch(hbin, drv, op, fmt, cands)
        evals += len(cands)
        hit = next((c for c, r in zip(cands, res) if r), None)
        if hit is not None:
            cur = hit
            n = max(n - 1, 2)
        elif size == 1:
            break
        else:
            n = min(len(cur), n * 2)
    return encode(cur), evals


if __name__ == "__main__":
    hbin, drv, op, fmt, payload = sys.argv[1:6]
    out, k = shrink(hbin, drv, op, fmt, payload)
    txt = "".join(chr(int(x, 16)) for x in decode(out))
    print("minimised after %d evaluations: %s  %r" % (k, out, txt))
