#!/bin/bash
# usage: try_mutant.sh <worktree> <prop> [more props...]  — confirm a seeded change, then run the checks against it
set -u
WT=$1; shift
export CARGO_NET_OFFLINE=true CARGO_TARGET_DIR=$WT/target
cd $WT
echo "== confirm: suite with change"
git diff --stat -- src | tail -1
cargo test --workspace --no-fail-fast --offline 2>&1 | grep -E "^test result|FAILED|panicked" | grep -v demo | head -5
echo "== confirm: demo with change (expect FAIL)"
cargo test --offline --test demo 2>&1 | grep -E "^test result|error" | head -3
echo "== confirm: demo without change (expect ok)"
git apply -R mutant/patch.diff && cargo test --offline --test demo 2>&1 | grep -E "^test result|error" | head -3; git apply mutant/patch.diff
echo "== run checks on /repo with the change applied"
cd /verif
unset CARGO_TARGET_DIR
git -C /repo apply $WT/mutant/patch.diff || { echo "patch does not apply to /repo"; exit 1; }
for p in "$@"; do ./check $p 2>&1 | grep -v "^KNOWN-FINDING" | tail -4; done
git -C /repo checkout -- .
git -C /repo status --short | head -3
