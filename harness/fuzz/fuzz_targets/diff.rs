//! Coverage-guided DIFFERENTIAL fuzzing of the real crate against the Lean model (thorough tier only).
//!
//! input bytes: [op selector][format selector][UTF-8 text …]  →  one protocol line `op \t fmt \t payload`,
//! executed in-process by the real crate (`exec::exec`, the same function the harness uses) and by the model
//! driver (a child process fed through a pipe, started once). Any difference in the canonical outputs aborts:
//! libFuzzer then keeps the input. This is a SEARCH for inputs on which model and code differ (or the code
//! panics); it proves nothing, it widens what the correspondence sees beyond the hand-written generators.
#![no_main]
#[path = "../../src/exec.rs"]
#[allow(dead_code)]
mod exec;
#[path = "../../src/ser.rs"]
#[allow(dead_code)]
mod ser;

use libfuzzer_sys::fuzz_target;
use std::io::{BufRead, BufReader, Write};
use std::process::{Child, ChildStdin, ChildStdout, Command, Stdio};
use std::sync::Mutex;

const OPS: [&str; 10] = ["eparse", "lparse", "lfold", "echars", "etruth", "ebudget", "estamp", "epunct", "lparseterm", "emid"];
const FMTS: [&str; 3] = ["ascii", "latex", "han"];

struct Driver {
    _child: Child,
    stdin: ChildStdin,
    stdout: BufReader<ChildStdout>,
}

static DRIVER: Mutex<Option<Driver>> = Mutex::new(None);

fn model(line: &str) -> String {
    let mut g = DRIVER.lock().unwrap();
    if g.is_none() {
        let path = std::env::var("VERIF_DRIVER").unwrap_or_else(|_| "/verif/lean/.lake/build/bin/narsese_driver".into());
        let mut child = Command::new(path).stdin(Stdio::piped()).stdout(Stdio::piped()).stderr(Stdio::null()).spawn().expect("model driver");
        let stdin = child.stdin.take().unwrap();
        let stdout = BufReader::new(child.stdout.take().unwrap());
        *g = Some(Driver { _child: child, stdin, stdout });
    }
    let d = g.as_mut().unwrap();
    writeln!(d.stdin, "{line}").unwrap();
    d.stdin.flush().unwrap();
    let mut out = String::new();
    d.stdout.read_line(&mut out).unwrap();
    out.trim_end_matches('\n').to_string()
}

fuzz_target!(|data: &[u8]| {
    if data.len() < 3 || data.len() > 160 {
        return;
    }
    let op = OPS[(data[0] as usize) % OPS.len()];
    let fmt = FMTS[(data[1] as usize) % FMTS.len()];
    let text = match std::str::from_utf8(&data[2..]) {
        Ok(t) => t,
        Err(_) => return,
    };
    let payload = ser::hs(text);
    std::panic::set_hook(Box::new(|_| {}));
    let real = exec::exec(op, fmt, &payload).unwrap_or_else(|e| format!("bad-op {e}"));
    let line = format!("{op}\t{fmt}\t{payload}");
    let m = model(&line);
    if real != m {
        // the message is what the check reads back from the libFuzzer log
        eprintln!("DIFF\t{line}\t{real}\t{m}");
        std::process::abort();
    }
});
