//! Line-protocol serialisation of enum and lexical Narsese values (writer and reader).
//!
//! Strings: hex code points joined by '.', empty string = "-".
//! S-expressions: tokens separated by single spaces, parentheses are tokens of their own.
//! Floats: `<bits hex>:<Display text as string>`.

use narsese::enum_narsese::*;
use narsese::lexical as lx;

pub fn hs(s: &str) -> String {
    if s.is_empty() {
        return "-".into();
    }
    s.chars()
        .map(|c| format!("{:x}", c as u32))
        .collect::<Vec<_>>()
        .join(".")
}

pub fn unhs(s: &str) -> Result<String, String> {
    if s == "-" {
        return Ok(String::new());
    }
    let mut out = String::new();
    for p in s.split('.') {
        let n = u32::from_str_radix(p, 16).map_err(|e| format!("bad hex {p:?}: {e}"))?;
        out.push(char::from_u32(n).ok_or(format!("bad scalar {n:x}"))?);
    }
    Ok(out)
}

pub fn fl(x: f64) -> String {
    format!("{:x}:{}", x.to_bits(), hs(&x.to_string()))
}
pub fn fl_bits(x: f64) -> String {
    format!("{:x}", x.to_bits())
}

/// order of unordered components
#[derive(Clone, Copy, PartialEq)]
pub enum Mode {
    /// iteration order as the container yields it (for printers whose output depends on it)
    Raw,
    /// sorted by canonical text (NOT de-duplicated: a set holding two semantically equal elements is
    /// a defect of the implementation and must stay visible); symmetric operands sorted; floats as bits
    Canon,
    /// as `Canon` but de-duplicated: the harness' own notion of the semantic value (oracle side)
    CanonDedup,
}

pub fn term(t: &Term, m: Mode) -> String {
    use Term::*;
    let set = |n: &str, s: &std::collections::HashSet<Term>| {
        let mut v: Vec<String> = s.iter().map(|x| term(x, m)).collect();
        if m != Mode::Raw {
            v.sort();
        }
        if m == Mode::CanonDedup {
            v.dedup();
        }
        if v.is_empty() {
            format!("( {n} )")
        } else {
            format!("( {n} {} )", v.join(" "))
        }
    };
    let seq = |n: &str, s: &Vec<Term>| {
        if s.is_empty() {
            format!("( {n} )")
        } else {
            format!(
                "( {n} {} )",
                s.iter().map(|x| term(x, m)).collect::<Vec<_>>().join(" ")
            )
        }
    };
    let b = |n: &str, a: &Term, c: &Term| format!("( {n} {} {} )", term(a, m), term(c, m));
    let sb = |n: &str, a: &Term, c: &Term| {
        let (x, y) = (term(a, m), term(c, m));
        if m == Mode::Raw || x <= y {
            format!("( {n} {x} {y} )")
        } else {
            format!("( {n} {y} {x} )")
        }
    };
    match t {
        Word(n) => format!("( Word {} )", hs(n)),
        Placeholder => "( Placeholder )".into(),
        VariableIndependent(n) => format!("( VariableIndependent {} )", hs(n)),
        VariableDependent(n) => format!("( VariableDependent {} )", hs(n)),
        VariableQuery(n) => format!("( VariableQuery {} )", hs(n)),
        Interval(i) => format!("( Interval {i} )"),
        Operator(n) => format!("( Operator {} )", hs(n)),
        SetExtension(s) => set("SetExtension", s),
        SetIntension(s) => set("SetIntension", s),
        IntersectionExtension(s) => set("IntersectionExtension", s),
        IntersectionIntension(s) => set("IntersectionIntension", s),
        Conjunction(s) => set("Conjunction", s),
        Disjunction(s) => set("Disjunction", s),
        ConjunctionParallel(s) => set("ConjunctionParallel", s),
        Product(v) => seq("Product", v),
        ConjunctionSequential(v) => seq("ConjunctionSequential", v),
        ImageExtension(i, v) => seq(&format!("ImageExtension {i}"), v),
        ImageIntension(i, v) => seq(&format!("ImageIntension {i}"), v),
        Negation(a) => format!("( Negation {} )", term(a, m)),
        DifferenceExtension(a, c) => b("DifferenceExtension", a, c),
        DifferenceIntension(a, c) => b("DifferenceIntension", a, c),
        Inheritance(a, c) => b("Inheritance", a, c),
        Implication(a, c) => b("Implication", a, c),
        ImplicationPredictive(a, c) => b("ImplicationPredictive", a, c),
        ImplicationConcurrent(a, c) => b("ImplicationConcurrent", a, c),
        ImplicationRetrospective(a, c) => b("ImplicationRetrospective", a, c),
        EquivalencePredictive(a, c) => b("EquivalencePredictive", a, c),
        Similarity(a, c) => sb("Similarity", a, c),
        Equivalence(a, c) => sb("Equivalence", a, c),
        EquivalenceConcurrent(a, c) => sb("EquivalenceConcurrent", a, c),
    }
}

fn num(x: f64, m: Mode) -> String {
    match m {
        Mode::Raw => fl(x),
        _ => fl_bits(x),
    }
}

pub fn truth(t: &Truth, m: Mode) -> String {
    match t {
        Truth::Empty => "( Truth )".into(),
        Truth::Single(f) => format!("( Truth {} )", num(*f, m)),
        Truth::Double(f, c) => format!("( Truth {} {} )", num(*f, m), num(*c, m)),
    }
}
pub fn budget(b: &Budget, m: Mode) -> String {
    match b {
        Budget::Empty => "( Budget )".into(),
        Budget::Single(p) => format!("( Budget {} )", num(*p, m)),
        Budget::Double(p, d) => format!("( Budget {} {} )", num(*p, m), num(*d, m)),
        Budget::Triple(p, d, q) => {
            format!("( Budget {} {} {} )", num(*p, m), num(*d, m), num(*q, m))
        }
    }
}
pub fn stamp(s: &Stamp) -> String {
    match s {
        Stamp::Eternal => "( Eternal )".into(),
        Stamp::Past => "( Past )".into(),
        Stamp::Present => "( Present )".into(),
        Stamp::Future => "( Future )".into(),
        Stamp::Fixed(t) => format!("( Fixed {t} )"),
    }
}
pub fn punct(p: &Punctuation) -> String {
    match p {
        Punctuation::Judgement => "Judgement",
        Punctuation::Goal => "Goal",
        Punctuation::Question => "Question",
        Punctuation::Quest => "Quest",
    }
    .into()
}
pub fn sentence(s: &Sentence, m: Mode) -> String {
    let (p, t, tr, st) = match s {
        Sentence::Judgement(t, tr, st) => ("Judgement", t, tr.clone(), st),
        Sentence::Goal(t, tr, st) => ("Goal", t, tr.clone(), st),
        Sentence::Question(t, st) => ("Question", t, Truth::Empty, st),
        Sentence::Quest(t, st) => ("Quest", t, Truth::Empty, st),
    };
    format!(
        "( Sentence {p} {} {} {} )",
        term(t, m),
        truth(&tr, m),
        stamp(st)
    )
}
pub fn task(k: &Task, m: Mode) -> String {
    format!("( Task {} {} )", budget(&k.1, m), sentence(&k.0, m))
}
pub fn narsese(n: &Narsese, m: Mode) -> String {
    match n {
        Narsese::Term(t) => format!("( NTerm {} )", term(t, m)),
        Narsese::Sentence(s) => format!("( NSentence {} )", sentence(s, m)),
        Narsese::Task(k) => format!("( NTask {} )", task(k, m)),
    }
}

// ---------------- lexical ----------------

pub fn lterm(t: &lx::Term) -> String {
    match t {
        lx::Term::Atom { prefix, name } => format!("( LAtom {} {} )", hs(prefix), hs(name)),
        lx::Term::Compound { connecter, terms } => {
            let mut s = format!("( LCompound {}", hs(connecter));
            for t in terms {
                s.push(' ');
                s.push_str(&lterm(t));
            }
            s.push_str(" )");
            s
        }
        lx::Term::Set {
            left_bracket,
            terms,
            right_bracket,
        } => {
            let mut s = format!("( LSet {} {}", hs(left_bracket), hs(right_bracket));
            for t in terms {
                s.push(' ');
                s.push_str(&lterm(t));
            }
            s.push_str(" )");
            s
        }
        lx::Term::Statement {
            copula,
            subject,
            predicate,
        } => format!(
            "( LStatement {} {} {} )",
            hs(copula),
            lterm(subject),
            lterm(predicate)
        ),
    }
}
fn strs(tag: &str, v: &[String]) -> String {
    let mut s = format!("( {tag}");
    for x in v {
        s.push(' ');
        s.push_str(&hs(x));
    }
    s.push_str(" )");
    s
}
pub fn lsentence(s: &lx::Sentence) -> String {
    format!(
        "( LSentence {} {} {} {} )",
        lterm(&s.term),
        hs(&s.punctuation),
        hs(&s.stamp),
        strs("LT", &s.truth)
    )
}
pub fn ltask(k: &lx::Task) -> String {
    format!("( LTask {} {} )", strs("LB", &k.budget), lsentence(&k.sentence))
}
pub fn lnarsese(n: &lx::Narsese) -> String {
    match n {
        lx::Narsese::Term(t) => format!("( LNTerm {} )", lterm(t)),
        lx::Narsese::Sentence(s) => format!("( LNSentence {} )", lsentence(s)),
        lx::Narsese::Task(k) => format!("( LNTask {} )", ltask(k)),
    }
}

// ---------------- reader ----------------

pub struct Rd<'a> {
    toks: Vec<&'a str>,
    pos: usize,
}
type R<T> = Result<T, String>;

impl<'a> Rd<'a> {
    pub fn new(s: &'a str) -> Self {
        Rd {
            toks: s.split(' ').filter(|t| !t.is_empty()).collect(),
            pos: 0,
        }
    }
    pub fn peek(&self) -> Option<&'a str> {
        self.toks.get(self.pos).copied()
    }
    pub fn next(&mut self) -> R<&'a str> {
        let t = self.toks.get(self.pos).copied().ok_or("unexpected end")?;
        self.pos += 1;
        Ok(t)
    }
    pub fn expect(&mut self, t: &str) -> R<()> {
        let x = self.next()?;
        if x == t {
            Ok(())
        } else {
            Err(format!("expected {t:?}, got {x:?}"))
        }
    }
    pub fn done(&self) -> bool {
        self.pos >= self.toks.len()
    }
    pub fn string(&mut self) -> R<String> {
        unhs(self.next()?)
    }
    pub fn float(&mut self) -> R<f64> {
        let t = self.next()?;
        let bits = t.split(':').next().unwrap();
        Ok(f64::from_bits(
            u64::from_str_radix(bits, 16).map_err(|e| e.to_string())?,
        ))
    }
    fn terms_until_close(&mut self) -> R<Vec<Term>> {
        let mut v = vec![];
        while self.peek() != Some(")") {
            v.push(self.term()?);
        }
        self.expect(")")?;
        Ok(v)
    }
    pub fn term(&mut self) -> R<Term> {
        self.expect("(")?;
        let tag = self.next()?;
        let t = match tag {
            "Word" => Term::Word(self.string()?),
            "VariableIndependent" => Term::VariableIndependent(self.string()?),
            "VariableDependent" => Term::VariableDependent(self.string()?),
            "VariableQuery" => Term::VariableQuery(self.string()?),
            "Operator" => Term::Operator(self.string()?),
            "Placeholder" => Term::Placeholder,
            "Interval" => Term::Interval(self.next()?.parse().map_err(|e| format!("{e}"))?),
            "SetExtension" => return Ok(Term::new_set_extension(self.terms_until_close()?)),
            "SetIntension" => return Ok(Term::new_set_intension(self.terms_until_close()?)),
            "IntersectionExtension" => {
                return Ok(Term::new_intersection_extension(self.terms_until_close()?))
            }
            "IntersectionIntension" => {
                return Ok(Term::new_intersection_intension(self.terms_until_close()?))
            }
            "Conjunction" => return Ok(Term::new_conjunction(self.terms_until_close()?)),
            "Disjunction" => return Ok(Term::new_disjunction(self.terms_until_close()?)),
            "ConjunctionParallel" => {
                return Ok(Term::new_conjunction_parallel(self.terms_until_close()?))
            }
            "Product" => return Ok(Term::Product(self.terms_until_close()?)),
            "ConjunctionSequential" => {
                return Ok(Term::ConjunctionSequential(self.terms_until_close()?))
            }
            "ImageExtension" => {
                let i = self.next()?.parse().map_err(|e| format!("{e}"))?;
                // built directly: the reader must be able to represent ill-formed indexes too
                return Ok(Term::ImageExtension(i, self.terms_until_close()?));
            }
            "ImageIntension" => {
                let i = self.next()?.parse().map_err(|e| format!("{e}"))?;
                return Ok(Term::ImageIntension(i, self.terms_until_close()?));
            }
            "Negation" => Term::new_negation(self.term()?),
            _ => {
                let a = self.term()?;
                let b = self.term()?;
                let (a, b) = (Box::new(a), Box::new(b));
                match tag {
                    "DifferenceExtension" => Term::DifferenceExtension(a, b),
                    "DifferenceIntension" => Term::DifferenceIntension(a, b),
                    "Inheritance" => Term::Inheritance(a, b),
                    "Similarity" => Term::Similarity(a, b),
                    "Implication" => Term::Implication(a, b),
                    "Equivalence" => Term::Equivalence(a, b),
                    "ImplicationPredictive" => Term::ImplicationPredictive(a, b),
                    "ImplicationConcurrent" => Term::ImplicationConcurrent(a, b),
                    "ImplicationRetrospective" => Term::ImplicationRetrospective(a, b),
                    "EquivalencePredictive" => Term::EquivalencePredictive(a, b),
                    "EquivalenceConcurrent" => Term::EquivalenceConcurrent(a, b),
                    _ => return Err(format!("unknown term tag {tag:?}")),
                }
            }
        };
        self.expect(")")?;
        Ok(t)
    }
    fn floats_until_close(&mut self) -> R<Vec<f64>> {
        let mut v = vec![];
        while self.peek() != Some(")") {
            v.push(self.float()?);
        }
        self.expect(")")?;
        Ok(v)
    }
    /// built directly from the variants (no validation): the reader represents what is written
    pub fn truth(&mut self) -> R<Truth> {
        self.expect("(")?;
        self.expect("Truth")?;
        let v = self.floats_until_close()?;
        Ok(match v.len() {
            0 => Truth::Empty,
            1 => Truth::Single(v[0]),
            2 => Truth::Double(v[0], v[1]),
            _ => return Err("truth arity".into()),
        })
    }
    pub fn budget(&mut self) -> R<Budget> {
        self.expect("(")?;
        self.expect("Budget")?;
        let v = self.floats_until_close()?;
        Ok(match v.len() {
            0 => Budget::Empty,
            1 => Budget::Single(v[0]),
            2 => Budget::Double(v[0], v[1]),
            3 => Budget::Triple(v[0], v[1], v[2]),
            _ => return Err("budget arity".into()),
        })
    }
    pub fn stamp(&mut self) -> R<Stamp> {
        self.expect("(")?;
        let s = match self.next()? {
            "Eternal" => Stamp::Eternal,
            "Past" => Stamp::Past,
            "Present" => Stamp::Present,
            "Future" => Stamp::Future,
            "Fixed" => Stamp::Fixed(self.next()?.parse().map_err(|e| format!("{e}"))?),
            x => return Err(format!("unknown stamp {x:?}")),
        };
        self.expect(")")?;
        Ok(s)
    }
    pub fn punct(&mut self) -> R<Punctuation> {
        Ok(match self.next()? {
            "Judgement" => Punctuation::Judgement,
            "Goal" => Punctuation::Goal,
            "Question" => Punctuation::Question,
            "Quest" => Punctuation::Quest,
            x => return Err(format!("unknown punctuation {x:?}")),
        })
    }
    pub fn sentence(&mut self) -> R<Sentence> {
        self.expect("(")?;
        self.expect("Sentence")?;
        let p = self.punct()?;
        let t = self.term()?;
        let tr = self.truth()?;
        let st = self.stamp()?;
        self.expect(")")?;
        Ok(Sentence::from_punctuation(t, p, st, tr))
    }
    pub fn task(&mut self) -> R<Task> {
        self.expect("(")?;
        self.expect("Task")?;
        let b = self.budget()?;
        let s = self.sentence()?;
        self.expect(")")?;
        Ok(Task(s, b))
    }
    pub fn narsese(&mut self) -> R<Narsese> {
        self.expect("(")?;
        let n = match self.next()? {
            "NTerm" => Narsese::Term(self.term()?),
            "NSentence" => Narsese::Sentence(self.sentence()?),
            "NTask" => Narsese::Task(self.task()?),
            x => return Err(format!("unknown narsese tag {x:?}")),
        };
        self.expect(")")?;
        Ok(n)
    }
    fn lterms_until_close(&mut self) -> R<Vec<lx::Term>> {
        let mut v = vec![];
        while self.peek() != Some(")") {
            v.push(self.lterm()?);
        }
        self.expect(")")?;
        Ok(v)
    }
    pub fn lterm(&mut self) -> R<lx::Term> {
        self.expect("(")?;
        match self.next()? {
            "LAtom" => {
                let p = self.string()?;
                let n = self.string()?;
                self.expect(")")?;
                Ok(lx::Term::new_atom(p, n))
            }
            "LCompound" => {
                let c = self.string()?;
                Ok(lx::Term::new_compound(c, self.lterms_until_close()?))
            }
            "LSet" => {
                let l = self.string()?;
                let r = self.string()?;
                Ok(lx::Term::new_set(l, self.lterms_until_close()?, r))
            }
            "LStatement" => {
                let c = self.string()?;
                let s = self.lterm()?;
                let p = self.lterm()?;
                self.expect(")")?;
                Ok(lx::Term::new_statement(c, s, p))
            }
            x => Err(format!("unknown lexical term tag {x:?}")),
        }
    }
    fn strs(&mut self, tag: &str) -> R<Vec<String>> {
        self.expect("(")?;
        self.expect(tag)?;
        let mut v = vec![];
        while self.peek() != Some(")") {
            v.push(self.string()?);
        }
        self.expect(")")?;
        Ok(v)
    }
    pub fn lsentence(&mut self) -> R<lx::Sentence> {
        self.expect("(")?;
        self.expect("LSentence")?;
        let t = self.lterm()?;
        let p = self.string()?;
        let s = self.string()?;
        let tr = self.strs("LT")?;
        self.expect(")")?;
        Ok(lx::Sentence::new(t, p, s, tr))
    }
    pub fn ltask(&mut self) -> R<lx::Task> {
        self.expect("(")?;
        self.expect("LTask")?;
        let b = self.strs("LB")?;
        let s = self.lsentence()?;
        self.expect(")")?;
        Ok(lx::Task {
            budget: b,
            sentence: s,
        })
    }
    pub fn lnarsese(&mut self) -> R<lx::Narsese> {
        self.expect("(")?;
        let n = match self.next()? {
            "LNTerm" => lx::Narsese::Term(self.lterm()?),
            "LNSentence" => lx::Narsese::Sentence(self.lsentence()?),
            "LNTask" => lx::Narsese::Task(self.ltask()?),
            x => return Err(format!("unknown lexical narsese tag {x:?}")),
        };
        self.expect(")")?;
        Ok(n)
    }
}
