//! Generators: every random choice comes from one xorshift state seeded by the caller.

use narsese::conversion::string::impl_enum::NarseseFormat as EF;
use narsese::conversion::string::impl_lexical::NarseseFormat as LF;
use narsese::enum_narsese::*;
use narsese::lexical as lx;
use nar_dev_utils::{PrefixMatch, SuffixMatch};

pub struct Rng(pub u64);
impl Rng {
    pub fn new(seed: u64) -> Self {
        Rng(seed.wrapping_mul(0x9E3779B97F4A7C15) | 1)
    }
    pub fn next(&mut self) -> u64 {
        self.0 ^= self.0 << 13;
        self.0 ^= self.0 >> 7;
        self.0 ^= self.0 << 17;
        self.0.wrapping_mul(0x2545F4914F6CDD1D)
    }
    pub fn below(&mut self, n: usize) -> usize {
        (self.next() % (n as u64)) as usize
    }
    pub fn chance(&mut self, num: usize, den: usize) -> bool {
        self.below(den) < num
    }
    pub fn pick<'a, T>(&mut self, v: &'a [T]) -> &'a T {
        &v[self.below(v.len())]
    }
    pub fn pick_str<'a, S: AsRef<str>>(&mut self, v: &'a [S]) -> &'a str {
        v[self.below(v.len())].as_ref()
    }
}

/// benign names valid in every format (no Han keyword characters, no leading `_`, no edge `-`)
pub const NAMES_COMMON: [&str; 28] = [
    "a", "b", "c", "x1", "SELF", "go-to", "a_b", "9", "007", "w0rd", "Z", "ball", "left", "q",
    "名", "词项", "格点-4-5", "😀", "🔑k", "é", "ß9", "x_",
    // `_` and `-` next to each other without forming the README grammar's `punct "-" punct` copula pattern (K3)
    "a_-b", "p-_q", "k_9-z",
    // numerics that are not ASCII digits (superscript, full-width, fraction): alphanumeric for both name alphabets
    "x²", "词１", "a½b",
];

pub fn name(r: &mut Rng) -> String {
    r.pick(&NAMES_COMMON).to_string()
}

pub const FLOATS: [f64; 14] = [
    0.0,
    1.0,
    0.5,
    0.9,
    0.75,
    0.4,
    0.1,
    5e-324,
    0.30000000000000004,
    0.9999999999999999,
    1e-7,
    0.123456789,
    2.2250738585072014e-308,
    0.3333333333333333,
];
pub fn float01(r: &mut Rng) -> f64 {
    if r.chance(3, 4) {
        *r.pick(&FLOATS)
    } else {
        // uniform-ish in [0,1)
        (r.next() >> 11) as f64 / (1u64 << 53) as f64
    }
}

pub struct TermCfg {
    pub max_depth: usize,
    pub max_arity: usize,
}

pub fn atom(r: &mut Rng) -> Term {
    match r.below(8) {
        0 => Term::new_variable_independent(name(r)),
        1 => Term::new_variable_dependent(name(r)),
        2 => Term::new_variable_query(name(r)),
        3 => Term::new_interval(match r.below(4) {
            0 => 0,
            1 => r.below(1000),
            2 => usize::MAX,
            _ => r.next() as usize,
        }),
        4 => Term::new_operator(name(r)),
        _ => Term::new_word(name(r)),
    }
}

/// ANY value of the `Term` type, built with the raw variants (no constructor checks): placeholders as components,
/// empty or one-element component lists, image indices anywhere up to the length, equal neighbours. For the
/// properties that quantify over all terms (equality, hashing, accessors, mutators) — not for the round trips.
pub fn wild_term(r: &mut Rng, d: usize) -> Term {
    use Term::*;
    if d == 0 || r.chance(1, 4) {
        if r.chance(1, 8) {
            // names the parsers never produce: a blank at an edge (another name than the trimmed one)
            let n = format!("{}{}", r.pick(&[" ", "\u{3000}", ""]), name(r));
            let n = if r.chance(1, 2) { format!("{n} ") } else { n };
            return match r.below(5) { 0 => Word(n), 1 => VariableIndependent(n), 2 => VariableDependent(n), 3 => VariableQuery(n), _ => Operator(n) };
        }
        return if r.chance(1, 5) { Placeholder } else { atom(r) };
    }
    let kids = |r: &mut Rng| -> Vec<Term> {
        let n = match r.below(6) { 0 => 0, 1 => 1, 5 => 5 + r.below(5), k => k };
        let mut ks: Vec<Term> = (0..n).map(|_| wild_term(r, d - 1)).collect();
        if !ks.is_empty() && r.chance(1, 4) {
            let i = r.below(ks.len());
            let dup = ks[i].clone();
            ks.insert(i, dup);
        }
        ks
    };
    let bx = |r: &mut Rng| Box::new(wild_term(r, d - 1));
    match r.below(29) {
        0 => SetExtension(kids(r).into_iter().collect()),
        1 => SetIntension(kids(r).into_iter().collect()),
        2 => IntersectionExtension(kids(r).into_iter().collect()),
        3 => IntersectionIntension(kids(r).into_iter().collect()),
        4 => DifferenceExtension(bx(r), bx(r)),
        5 => DifferenceIntension(bx(r), bx(r)),
        6 => Product(kids(r)),
        7 | 8 => { let v = kids(r); let i = r.below(v.len() + 1); ImageExtension(i, v) }
        9 | 10 => { let v = kids(r); let i = r.below(v.len() + 1); ImageIntension(i, v) }
        11 => Conjunction(kids(r).into_iter().collect()),
        12 => Disjunction(kids(r).into_iter().collect()),
        13 => Negation(bx(r)),
        14 => ConjunctionSequential(kids(r)),
        15 => ConjunctionParallel(kids(r).into_iter().collect()),
        16 => Inheritance(bx(r), bx(r)),
        17 => Similarity(bx(r), bx(r)),
        18 => Implication(bx(r), bx(r)),
        19 => Equivalence(bx(r), bx(r)),
        20 => ImplicationPredictive(bx(r), bx(r)),
        21 => ImplicationConcurrent(bx(r), bx(r)),
        22 => ImplicationRetrospective(bx(r), bx(r)),
        23 => EquivalencePredictive(bx(r), bx(r)),
        24 => EquivalenceConcurrent(bx(r), bx(r)),
        // the same components in a symmetric statement, both ways round, inside something hashed
        25 => { let (a, b) = (wild_term(r, d - 1), wild_term(r, d - 1)); SetExtension([Similarity(Box::new(a.clone()), Box::new(b.clone())), Similarity(Box::new(b), Box::new(a))].into_iter().collect()) }
        26 => Negation(Box::new(Negation(bx(r)))),
        27 => Product(vec![Placeholder, wild_term(r, d - 1), Placeholder]),
        _ => Interval(*r.pick(&[0usize, 1, usize::MAX, usize::MAX - 1, 1 << 31, 1 << 32])),
    }
}

/// a well-formed term: every constructor, images placeholder-free with every index 0..=n
pub fn term(r: &mut Rng, cfg: &TermCfg, d: usize) -> Term {
    if d == 0 || r.chance(1, 5) {
        return atom(r);
    }
    let kids = |r: &mut Rng| -> Vec<Term> {
        // now and then a long component list (hash tables behave differently beyond a handful of entries)
        let n = if d <= 2 && r.chance(1, 15) { 5 + r.below(6) } else { 1 + r.below(cfg.max_arity) };
        let mut ks: Vec<Term> = (0..n).map(|_| term(r, cfg, d - 1)).collect();
        // a repeated component: unordered constructors drop it, ordered ones keep it
        if r.chance(1, 6) {
            let i = r.below(ks.len());
            let dup = ks[i].clone();
            ks.insert(i, dup);
        }
        ks
    };
    let k = r.below(23);
    let bin = |r: &mut Rng| (term(r, cfg, d - 1), term(r, cfg, d - 1));
    match k {
        0 => Term::new_set_extension(kids(r)),
        1 => Term::new_set_intension(kids(r)),
        2 => Term::new_intersection_extension(kids(r)),
        3 => Term::new_intersection_intension(kids(r)),
        4 => {
            let (a, b) = bin(r);
            Term::new_difference_extension(a, b)
        }
        5 => {
            let (a, b) = bin(r);
            Term::new_difference_intension(a, b)
        }
        6 => Term::new_product(kids(r)),
        7 => {
            let k = kids(r);
            let i = r.below(k.len() + 1);
            Term::new_image_extension(i, k)
        }
        8 => {
            let k = kids(r);
            let i = r.below(k.len() + 1);
            Term::new_image_intension(i, k)
        }
        9 => Term::new_conjunction(kids(r)),
        10 => Term::new_disjunction(kids(r)),
        11 => Term::new_negation(term(r, cfg, d - 1)),
        12 => Term::new_conjunction_sequential(kids(r)),
        13 => Term::new_conjunction_parallel(kids(r)),
        14 => {
            let (a, b) = bin(r);
            Term::new_inheritance(a, b)
        }
        15 => {
            let (a, b) = bin(r);
            Term::new_similarity(a, b)
        }
        16 => {
            let (a, b) = bin(r);
            Term::new_implication(a, b)
        }
        17 => {
            let (a, b) = bin(r);
            Term::new_equivalence(a, b)
        }
        18 => {
            let (a, b) = bin(r);
            Term::new_implication_predictive(a, b)
        }
        19 => {
            let (a, b) = bin(r);
            Term::new_implication_concurrent(a, b)
        }
        20 => {
            let (a, b) = bin(r);
            Term::new_implication_retrospective(a, b)
        }
        21 => {
            let (a, b) = bin(r);
            Term::new_equivalence_predictive(a, b)
        }
        _ => {
            let (a, b) = bin(r);
            Term::new_equivalence_concurrent(a, b)
        }
    }
}

pub fn stamp(r: &mut Rng) -> Stamp {
    match r.below(10) {
        0 => Stamp::Past,
        1 => Stamp::Present,
        2 => Stamp::Future,
        3 => Stamp::Fixed(r.next() as isize),
        4 => Stamp::Fixed(isize::MIN),
        5 => Stamp::Fixed(isize::MAX),
        6 => Stamp::Fixed(0),
        7 => Stamp::Fixed(-1),
        _ => Stamp::Eternal,
    }
}
pub fn truth(r: &mut Rng) -> Truth {
    match r.below(3) {
        0 => Truth::Empty,
        1 => Truth::Single(float01(r)),
        _ => Truth::Double(float01(r), float01(r)),
    }
}
pub fn budget(r: &mut Rng) -> Budget {
    match r.below(4) {
        0 => Budget::Empty,
        1 => Budget::Single(float01(r)),
        2 => Budget::Double(float01(r), float01(r)),
        _ => Budget::Triple(float01(r), float01(r), float01(r)),
    }
}
pub fn sentence(r: &mut Rng, t: Term) -> Sentence {
    let st = stamp(r);
    let tr = truth(r);
    match r.below(4) {
        0 => Sentence::Judgement(t, tr, st),
        1 => Sentence::Goal(t, tr, st),
        2 => Sentence::Question(t, st),
        _ => Sentence::Quest(t, st),
    }
}

/// the K1 class (known finding): the whole term is `$`+ASCII digits; excluded from generation
pub fn is_k1(t: &Term) -> bool {
    matches!(t, Term::VariableIndependent(n) if !n.is_empty() && n.chars().all(|c| c.is_ascii_digit()))
}

pub fn narsese(r: &mut Rng, cfg: &TermCfg) -> Narsese {
    let d = r.below(cfg.max_depth + 1);
    let mut t = term(r, cfg, d);
    while is_k1(&t) {
        t = term(r, cfg, d);
    }
    match r.below(3) {
        0 => Narsese::Term(t),
        1 => Narsese::Sentence(sentence(r, t)),
        _ => {
            let s = sentence(r, t);
            Narsese::Task(Task(s, budget(r)))
        }
    }
}

// ---------------------------------------------------------------------------------------------
// surface token streams (an independent, token-level printer)

#[derive(Clone, Debug)]
pub struct Tok {
    pub text: String,
    /// what the real formatter puts before this token
    pub gap: String,
}

pub struct Surface<'a> {
    pub f: &'a EF<&'a str>,
    /// Some(rng) → use derived copulas / sugar where the value allows it
    pub sugar: bool,
    pub toks: Vec<Tok>,
    pending_gap: String,
}

impl<'a> Surface<'a> {
    pub fn new(f: &'a EF<&'a str>, sugar: bool) -> Self {
        Surface {
            f,
            sugar,
            toks: vec![],
            pending_gap: String::new(),
        }
    }
    fn push(&mut self, text: &str, gap: &str) {
        self.pending_gap.push_str(gap);
        if text.is_empty() {
            return;
        }
        let gap = std::mem::take(&mut self.pending_gap);
        self.toks.push(Tok {
            text: text.to_string(),
            gap,
        });
    }
    fn components(&mut self, r: &mut Rng, comps: &[&Term]) {
        let (sep, sp) = (self.f.compound.separator, self.f.space.format_terms);
        for (i, c) in comps.iter().enumerate() {
            if i != 0 {
                self.push(sep, "");
                self.term_gap(r, c, sp);
            } else {
                self.term_gap(r, c, "");
            }
        }
    }
    fn compound(&mut self, r: &mut Rng, connecter: &str, comps: &[&Term]) {
        let f = self.f;
        self.push(f.compound.brackets.0, "");
        self.push(connecter, "");
        self.push(f.compound.separator, "");
        // first component carries the template's space
        let sp = f.space.format_terms;
        for (i, c) in comps.iter().enumerate() {
            if i != 0 {
                self.push(f.compound.separator, "");
            }
            self.term_gap(r, c, sp);
        }
        if comps.is_empty() {
            self.pending_gap.push_str(sp);
        }
        self.push(f.compound.brackets.1, "");
    }
    fn statement(&mut self, r: &mut Rng, a: &Term, cop: &str, b: &Term) {
        let f = self.f;
        let sp = f.space.format_terms;
        self.push(f.statement.brackets.0, "");
        self.term_gap(r, a, "");
        self.push(cop, sp);
        self.term_gap(r, b, sp);
        self.push(f.statement.brackets.1, "");
    }
    fn term_gap(&mut self, r: &mut Rng, t: &Term, gap: &str) {
        self.pending_gap.push_str(gap);
        self.term(r, t);
    }
    pub fn term(&mut self, r: &mut Rng, t: &Term) {
        use Term::*;
        let f = self.f;
        let st = &f.statement;
        let co = &f.compound;
        match t {
            Word(n) => self.push(&format!("{}{}", f.atom.prefix_word, n), ""),
            Placeholder => {
                // sugar: anything after the placeholder prefix is ignored
                let extra = if self.sugar && r.chance(1, 3) { "x9" } else { "" };
                self.push(&format!("{}{}", f.atom.prefix_placeholder, extra), "")
            }
            VariableIndependent(n) => {
                self.push(&format!("{}{}", f.atom.prefix_variable_independent, n), "")
            }
            VariableDependent(n) => {
                self.push(&format!("{}{}", f.atom.prefix_variable_dependent, n), "")
            }
            VariableQuery(n) => self.push(&format!("{}{}", f.atom.prefix_variable_query, n), ""),
            Interval(i) => {
                let zeros = if self.sugar && r.chance(1, 3) { "00" } else { "" };
                self.push(&format!("{}{}{}", f.atom.prefix_interval, zeros, i), "")
            }
            Operator(n) => self.push(&format!("{}{}", f.atom.prefix_operator, n), ""),
            SetExtension(_) | SetIntension(_) => {
                let (l, rr) = if matches!(t, SetExtension(_)) {
                    co.brackets_set_extension
                } else {
                    co.brackets_set_intension
                };
                let comps = t.get_components();
                self.push(l, "");
                self.components(r, &comps);
                self.push(rr, "");
            }
            IntersectionExtension(_) => {
                self.compound(r, co.connecter_intersection_extension, &t.get_components())
            }
            IntersectionIntension(_) => {
                self.compound(r, co.connecter_intersection_intension, &t.get_components())
            }
            DifferenceExtension(..) => {
                self.compound(r, co.connecter_difference_extension, &t.get_components())
            }
            DifferenceIntension(..) => {
                self.compound(r, co.connecter_difference_intension, &t.get_components())
            }
            Product(_) => self.compound(r, co.connecter_product, &t.get_components()),
            ImageExtension(..) => self.compound(
                r,
                co.connecter_image_extension,
                &t.get_components_including_placeholder(),
            ),
            ImageIntension(..) => self.compound(
                r,
                co.connecter_image_intension,
                &t.get_components_including_placeholder(),
            ),
            Conjunction(_) => self.compound(r, co.connecter_conjunction, &t.get_components()),
            Disjunction(_) => self.compound(r, co.connecter_disjunction, &t.get_components()),
            Negation(_) => self.compound(r, co.connecter_negation, &t.get_components()),
            ConjunctionSequential(_) => {
                self.compound(r, co.connecter_conjunction_sequential, &t.get_components())
            }
            ConjunctionParallel(_) => {
                self.compound(r, co.connecter_conjunction_parallel, &t.get_components())
            }
            Inheritance(a, b) => {
                // derived copulas: {S} --> P  ==  S {-- P ; S --> [P] == S --] P ; both == S {-] P
                let single = |x: &Term| -> Option<Term> {
                    match x {
                        SetExtension(s) | SetIntension(s) if s.len() == 1 => s.iter().next().cloned(),
                        _ => None,
                    }
                };
                let a1 = if matches!(**a, SetExtension(_)) { single(a) } else { None };
                let b1 = if matches!(**b, SetIntension(_)) { single(b) } else { None };
                if self.sugar && r.chance(2, 3) {
                    match (a1, b1) {
                        (Some(s), Some(p)) if r.chance(1, 2) => {
                            return self.statement(r, &s, st.copula_instance_property, &p)
                        }
                        (Some(s), _) if r.chance(1, 2) => {
                            return self.statement(r, &s, st.copula_instance, b)
                        }
                        (_, Some(p)) => return self.statement(r, a, st.copula_property, &p),
                        (Some(s), None) => return self.statement(r, &s, st.copula_instance, b),
                        _ => {}
                    }
                }
                self.statement(r, a, st.copula_inheritance, b)
            }
            Similarity(a, b) => self.statement(r, a, st.copula_similarity, b),
            Implication(a, b) => self.statement(r, a, st.copula_implication, b),
            Equivalence(a, b) => self.statement(r, a, st.copula_equivalence, b),
            ImplicationPredictive(a, b) => {
                self.statement(r, a, st.copula_implication_predictive, b)
            }
            ImplicationConcurrent(a, b) => {
                self.statement(r, a, st.copula_implication_concurrent, b)
            }
            ImplicationRetrospective(a, b) => {
                self.statement(r, a, st.copula_implication_retrospective, b)
            }
            EquivalencePredictive(a, b) => {
                if self.sugar && r.chance(1, 2) {
                    // retrospective equivalence: operands swapped
                    self.statement(r, b, st.copula_equivalence_retrospective, a)
                } else {
                    self.statement(r, a, st.copula_equivalence_predictive, b)
                }
            }
            EquivalenceConcurrent(a, b) => {
                self.statement(r, a, st.copula_equivalence_concurrent, b)
            }
        }
    }
    fn floats(&mut self, l: &str, rb: &str, sep: &str, xs: &[f64], gap: &str) {
        self.push(l, gap);
        for (i, x) in xs.iter().enumerate() {
            if i != 0 {
                self.push(sep, "");
            }
            self.push(&x.to_string(), "");
        }
        self.push(rb, "");
    }
    pub fn sentence(&mut self, r: &mut Rng, s: &Sentence) {
        use narsese::api::{GetPunctuation, GetStamp, GetTerm, GetTruth};
        let f = self.f;
        let se = &f.sentence;
        self.term(r, s.get_term());
        let p = match s.get_punctuation() {
            Punctuation::Judgement => se.punctuation_judgement,
            Punctuation::Goal => se.punctuation_goal,
            Punctuation::Question => se.punctuation_question,
            Punctuation::Quest => se.punctuation_quest,
        };
        self.push(p, "");
        let sp = f.space.format_terms;
        match s.get_stamp() {
            Stamp::Eternal => {}
            st => {
                self.push(se.stamp_brackets.0, sp);
                match st {
                    Stamp::Past => self.push(se.stamp_past, ""),
                    Stamp::Present => self.push(se.stamp_present, ""),
                    Stamp::Future => self.push(se.stamp_future, ""),
                    Stamp::Fixed(t) => {
                        self.push(se.stamp_fixed, "");
                        self.push(&t.to_string(), "");
                    }
                    Stamp::Eternal => {}
                }
                self.push(se.stamp_brackets.1, "");
            }
        }
        match s.get_truth() {
            Some(Truth::Single(a)) => {
                self.floats(se.truth_brackets.0, se.truth_brackets.1, se.truth_separator, &[*a], sp)
            }
            Some(Truth::Double(a, b)) => self.floats(
                se.truth_brackets.0,
                se.truth_brackets.1,
                se.truth_separator,
                &[*a, *b],
                sp,
            ),
            _ => {}
        }
    }
    pub fn narsese(&mut self, r: &mut Rng, n: &Narsese) {
        match n {
            Narsese::Term(t) => self.term(r, t),
            Narsese::Sentence(s) => self.sentence(r, s),
            Narsese::Task(k) => {
                let f = self.f;
                let xs: Vec<f64> = match &k.1 {
                    Budget::Empty => vec![],
                    Budget::Single(p) => vec![*p],
                    Budget::Double(p, d) => vec![*p, *d],
                    Budget::Triple(p, d, q) => vec![*p, *d, *q],
                };
                self.floats(
                    f.task.budget_brackets.0,
                    f.task.budget_brackets.1,
                    f.task.budget_separator,
                    &xs,
                    "",
                );
                self.pending_gap.push_str(f.space.format_items);
                self.sentence(r, &k.0);
            }
        }
    }
    pub fn canonical(&self) -> String {
        let mut s = String::new();
        for t in &self.toks {
            s.push_str(&t.gap);
            s.push_str(&t.text);
        }
        s
    }
    pub fn nospace(&self) -> String {
        self.toks.iter().map(|t| t.text.as_str()).collect()
    }
    /// 0..=3 separator strings at every token boundary (also before the first / after the last token)
    pub fn spaced(&self, r: &mut Rng, ws: &[&str]) -> String {
        let mut s = String::new();
        for t in &self.toks {
            for _ in 0..r.below(4) {
                s.push_str(r.pick_str(ws));
            }
            s.push_str(&t.text);
        }
        for _ in 0..r.below(3) {
            s.push_str(r.pick_str(ws));
        }
        s
    }
}

// ---------------------------------------------------------------------------------------------
// lexical values

pub struct LexVocab {
    pub prefixes: Vec<String>,
    pub connecters: Vec<String>,
    pub sets: Vec<(String, String)>,
    pub copulas: Vec<String>,
    pub puncts: Vec<String>,
    pub stamps: Vec<(String, String)>,
    /// the placeholder prefix (an enum-format notion): the only atom that normally has an empty name
    pub placeholder: String,
}
pub fn vocab(f: &LF, placeholder: &str) -> LexVocab {
    LexVocab {
        placeholder: placeholder.to_string(),
        prefixes: f.atom.prefixes.prefix_terms().cloned().collect(),
        connecters: f.compound.connecters.prefix_terms().cloned().collect(),
        sets: PrefixMatch::prefix_terms(&f.compound.set_brackets).cloned().collect(),
        copulas: f.statement.copulas.prefix_terms().cloned().collect(),
        puncts: f.sentence.punctuations.suffix_terms().cloned().collect(),
        stamps: f.sentence.stamp_brackets.suffix_terms().cloned().collect(),
    }
}

pub fn lterm(r: &mut Rng, v: &LexVocab, d: usize, max_arity: usize) -> lx::Term {
    if d == 0 || r.chance(1, 4) {
        let p = r.pick(&v.prefixes).clone();
        // names are non-empty identifiers; the placeholder is normally written with an empty name
        let n = if p == v.placeholder && !p.is_empty() && r.chance(1, 2) { String::new() } else { name(r) };
        return lx::Term::new_atom(p, n);
    }
    let kids = |r: &mut Rng| -> Vec<lx::Term> {
        let n = 1 + r.below(max_arity);
        let mut ks: Vec<lx::Term> = (0..n).map(|_| lterm(r, v, d - 1, max_arity)).collect();
        // equal components next to each other (the lexical model keeps them, sets included)
        if r.chance(1, 5) {
            let i = r.below(ks.len());
            let dup = ks[i].clone();
            ks.insert(i, dup);
        }
        ks
    };
    match r.below(3) {
        0 => lx::Term::new_compound(r.pick(&v.connecters).clone(), kids(r)),
        1 => {
            let (l, rr) = r.pick(&v.sets).clone();
            lx::Term::new_set(l, kids(r), rr)
        }
        _ => lx::Term::new_statement(
            r.pick(&v.copulas).clone(),
            lterm(r, v, d - 1, max_arity),
            lterm(r, v, d - 1, max_arity),
        ),
    }
}
const NUMSTRS: [&str; 10] = ["0", "1", "0.5", "0.9", ".5", "1.", "00", "0.30000000000000004", "7", "12.75"];
pub fn lnums(r: &mut Rng, max: usize) -> Vec<String> {
    (0..r.below(max + 1)).map(|_| r.pick(&NUMSTRS).to_string()).collect()
}
pub fn lstamp(r: &mut Rng, v: &LexVocab) -> String {
    if r.chance(1, 3) {
        return String::new();
    }
    let (l, rr) = r.pick(&v.stamps).clone();
    if l.is_empty() {
        // enumerated form
        format!("{l}{rr}")
    } else {
        let c = *r.pick(&["-1", "0", "+5", "137", "-9223372036854775808", "42"]);
        format!("{l}{c}{rr}")
    }
}
pub fn lnarsese(r: &mut Rng, v: &LexVocab, max_depth: usize, max_arity: usize) -> lx::Narsese {
    let d = r.below(max_depth + 1);
    let t = lterm(r, v, d, max_arity);
    match r.below(3) {
        0 => lx::Narsese::Term(t),
        k => {
            let s = lx::Sentence::new(t, r.pick(&v.puncts).clone(), lstamp(r, v), lnums(r, 4));
            if k == 1 {
                lx::Narsese::Sentence(s)
            } else {
                lx::Narsese::Task(lx::Task {
                    budget: lnums(r, 4),
                    sentence: s,
                })
            }
        }
    }
}

/// arbitrary strings in every field (for fold totality)
pub fn junk_string(r: &mut Rng, pool: &[String]) -> String {
    match r.below(6) {
        0 => String::new(),
        1 | 2 => r.pick(pool).clone(),
        3 => name(r),
        4 => r.pick(&["1.5", "-0", "nan", "inf", "1e-3", "+", "-", "18446744073709551616", "0x1", " 1", "１", "0.5.5"]).to_string(),
        _ => {
            let n = 1 + r.below(4);
            (0..n).map(|_| char::from_u32(r.below(0x3000) as u32 + 1).unwrap_or('?')).collect()
        }
    }
}
pub fn junk_lterm(r: &mut Rng, pool: &[String], d: usize) -> lx::Term {
    if d == 0 || r.chance(1, 3) {
        return lx::Term::new_atom(junk_string(r, pool), junk_string(r, pool));
    }
    let kids = |r: &mut Rng| -> Vec<lx::Term> {
        (0..r.below(4)).map(|_| junk_lterm(r, pool, d - 1)).collect()
    };
    match r.below(3) {
        0 => lx::Term::new_compound(junk_string(r, pool), kids(r)),
        1 => lx::Term::new_set(junk_string(r, pool), kids(r), junk_string(r, pool)),
        _ => lx::Term::new_statement(
            junk_string(r, pool),
            junk_lterm(r, pool, d - 1),
            junk_lterm(r, pool, d - 1),
        ),
    }
}
pub fn junk_lnarsese(r: &mut Rng, pool: &[String]) -> lx::Narsese {
    let d = r.below(4);
    let t = junk_lterm(r, pool, d);
    let strs = |r: &mut Rng| -> Vec<String> { (0..r.below(5)).map(|_| junk_string(r, pool)).collect() };
    match r.below(3) {
        0 => lx::Narsese::Term(t),
        k => {
            let s = lx::Sentence::new(t, junk_string(r, pool), junk_string(r, pool), strs(r));
            if k == 1 {
                lx::Narsese::Sentence(s)
            } else {
                lx::Narsese::Task(lx::Task { budget: strs(r), sentence: s })
            }
        }
    }
}

/// numeric-looking strings `str::parse::<f64>` accepts or nearly accepts
pub const NUM_EDGE: [&str; 24] = [
    "NaN", "nan", "-NaN", "+nan", "inf", "-inf", "infinity", "1.5", "-0.1", "-0", "+1", "+0.5", "1e-3", "1E0", "1e400",
    "1e-400", "0x1", "1_0", "", ".", "0.5.5", " 1", "１", "1.0000000000000002",
];

/// a vocabulary-consistent lexical value with ONE field replaced by junk (mostly-valid inputs reach the
/// later folding stages; all-junk values die at the first field)
pub fn nearly_valid_lnarsese(r: &mut Rng, v: &LexVocab, pool: &[String]) -> lx::Narsese {
    let mut n = lnarsese(r, v, 3, 3);
    // make sure there is something to mutate
    if let lx::Narsese::Term(t) = &n {
        if r.chance(2, 3) {
            let s = lx::Sentence::new(t.clone(), r.pick(&v.puncts).clone(), lstamp(r, v), lnums(r, 3));
            n = if r.chance(1, 2) { lx::Narsese::Sentence(s) } else { lx::Narsese::Task(lx::Task { budget: lnums(r, 4), sentence: s }) };
        }
    }
    let edge = |r: &mut Rng| -> String {
        if r.chance(3, 4) { r.pick(&NUM_EDGE).to_string() } else { junk_string(r, pool) }
    };
    fn mutate_strs(r: &mut Rng, xs: &mut Vec<String>, s: String) {
        if xs.is_empty() || r.chance(1, 4) {
            let at = r.below(xs.len() + 1);
            xs.insert(at, s);
        } else {
            let at = r.below(xs.len());
            xs[at] = s;
        }
    }
    fn mutate_term(r: &mut Rng, t: &mut lx::Term, pool: &[String]) {
        match t {
            lx::Term::Atom { prefix, name } => {
                if r.chance(1, 2) { *prefix = junk_string(r, pool) } else { *name = if r.chance(1, 2) { r.pick(&NUM_EDGE).to_string() } else { junk_string(r, pool) } }
            }
            lx::Term::Compound { connecter, terms } => match r.below(4) {
                0 => *connecter = junk_string(r, pool),
                1 => terms.clear(),
                2 => { let at = r.below(terms.len() + 1); terms.insert(at, lx::Term::new_atom(junk_string(r, pool), "")) }
                _ => if !terms.is_empty() { let i = r.below(terms.len()); mutate_term(r, &mut terms[i], pool) },
            },
            lx::Term::Set { left_bracket, terms, right_bracket } => match r.below(4) {
                0 => *left_bracket = junk_string(r, pool),
                1 => *right_bracket = junk_string(r, pool),
                2 => terms.clear(),
                _ => if !terms.is_empty() { let i = r.below(terms.len()); mutate_term(r, &mut terms[i], pool) },
            },
            lx::Term::Statement { copula, subject, predicate } => match r.below(3) {
                0 => *copula = junk_string(r, pool),
                1 => mutate_term(r, subject, pool),
                _ => mutate_term(r, predicate, pool),
            },
        }
    }
    match &mut n {
        lx::Narsese::Term(t) => mutate_term(r, t, pool),
        lx::Narsese::Sentence(s) => match r.below(5) {
            0 => mutate_term(r, &mut s.term, pool),
            1 => s.punctuation = junk_string(r, pool),
            2 => s.stamp = if r.chance(1, 2) { junk_string(r, pool) } else { format!("{}{}", r.pick_str(pool), r.pick_str(&NUM_EDGE)) },
            _ => { let e = edge(r); mutate_strs(r, &mut s.truth, e) }
        },
        lx::Narsese::Task(k) => match r.below(7) {
            0 => mutate_term(r, &mut k.sentence.term, pool),
            1 => k.sentence.punctuation = junk_string(r, pool),
            2 => k.sentence.stamp = junk_string(r, pool),
            3 | 4 => { let e = edge(r); mutate_strs(r, &mut k.sentence.truth, e) }
            _ => { let e = edge(r); mutate_strs(r, &mut k.budget, e) }
        },
    }
    n
}

/// every keyword of an enum format (for keyword soup and junk pools)
pub fn keywords(f: &EF<&str>) -> Vec<String> {
    let mut v: Vec<&str> = vec![
        f.space.parse,
        f.atom.prefix_placeholder,
        f.atom.prefix_variable_independent,
        f.atom.prefix_variable_dependent,
        f.atom.prefix_variable_query,
        f.atom.prefix_interval,
        f.atom.prefix_operator,
        f.compound.brackets.0,
        f.compound.brackets.1,
        f.compound.separator,
        f.compound.brackets_set_extension.0,
        f.compound.brackets_set_extension.1,
        f.compound.brackets_set_intension.0,
        f.compound.brackets_set_intension.1,
        f.compound.connecter_intersection_extension,
        f.compound.connecter_intersection_intension,
        f.compound.connecter_difference_extension,
        f.compound.connecter_difference_intension,
        f.compound.connecter_product,
        f.compound.connecter_image_extension,
        f.compound.connecter_image_intension,
        f.compound.connecter_conjunction,
        f.compound.connecter_disjunction,
        f.compound.connecter_negation,
        f.compound.connecter_conjunction_sequential,
        f.compound.connecter_conjunction_parallel,
        f.statement.brackets.0,
        f.statement.brackets.1,
        f.sentence.punctuation_judgement,
        f.sentence.punctuation_goal,
        f.sentence.punctuation_question,
        f.sentence.punctuation_quest,
        f.sentence.stamp_brackets.0,
        f.sentence.stamp_brackets.1,
        f.sentence.stamp_past,
        f.sentence.stamp_present,
        f.sentence.stamp_future,
        f.sentence.stamp_fixed,
        f.sentence.truth_brackets.0,
        f.sentence.truth_brackets.1,
        f.sentence.truth_separator,
        f.task.budget_brackets.0,
        f.task.budget_brackets.1,
        f.task.budget_separator,
    ];
    v.extend(f.copulas());
    v.into_iter().filter(|s| !s.is_empty()).map(|s| s.to_string()).collect()
}

/// malformed / adversarial strings for a format, derived from a valid string `base`
pub fn malformed(r: &mut Rng, kws: &[String], base: &str) -> String {
    let chars: Vec<char> = base.chars().collect();
    let s: String = match r.below(10) {
        // prefix (unterminated brackets)
        0 | 1 => chars[..r.below(chars.len() + 1)].iter().collect(),
        // suffix
        2 => chars[r.below(chars.len() + 1)..].iter().collect(),
        // delete a span
        3 => {
            let a = r.below(chars.len() + 1);
            let b = (a + r.below(6)).min(chars.len());
            chars[..a].iter().chain(chars[b..].iter()).collect()
        }
        // duplicate a span
        4 => {
            let a = r.below(chars.len() + 1);
            let b = (a + r.below(8)).min(chars.len());
            chars[..b].iter().chain(chars[a..].iter()).collect()
        }
        // insert a keyword somewhere
        5 => {
            let a = r.below(chars.len() + 1);
            let mut s: String = chars[..a].iter().collect();
            s.push_str(r.pick_str(kws));
            s.extend(chars[a..].iter());
            s
        }
        // keyword soup
        6 => {
            let n = 1 + r.below(12);
            let mut s = String::new();
            for _ in 0..n {
                if r.chance(1, 4) {
                    s.push_str(&name(r));
                } else if r.chance(1, 6) {
                    s.push_str(r.pick_str(&["0.5", "1", "1.5", "-1", "99999999999999999999", "0.0.1", ".", "+", "-"]));
                } else {
                    s.push_str(r.pick_str(kws));
                }
            }
            s
        }
        // deep unterminated nesting of one opener
        7 => {
            let open = r.pick(kws).clone();
            let n = 1 + r.below(64);
            let mut s = open.repeat(n);
            s.push_str(&name(r));
            s
        }
        // truncated multi-char keyword at the end
        8 => {
            let mut s: String = chars[..r.below(chars.len() + 1)].iter().collect();
            let k: Vec<char> = r.pick(kws).chars().collect();
            s.extend(k[..r.below(k.len() + 1)].iter());
            s
        }
        // unicode junk char replaced in
        _ => {
            let mut c = chars.clone();
            if !c.is_empty() {
                let i = r.below(c.len());
                c[i] = *r.pick(&['\u{0}', '\t', '\n', '\u{3000}', '\u{200b}', '\u{301}', '"', '\\', '\u{10FFFF}', '１', 'ǅ']);
            }
            c.into_iter().collect()
        }
    };
    s.chars().take(512).collect()
}
