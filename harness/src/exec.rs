//! Executes one protocol operation against the REAL crate (in-process, under `catch_unwind`).

use crate::ser::{self, Mode, Rd};
use narsese::api::*;
use narsese::conversion::inter_type::lexical_fold::TryFoldInto;
use narsese::conversion::string::impl_enum::format_instances as ef;
use narsese::conversion::string::impl_enum::NarseseFormat as EF;
use narsese::conversion::string::impl_lexical::format_instances as lf;
use narsese::conversion::string::impl_lexical::NarseseFormat as LF;
use narsese::conversion::string::typst_formatter::FormatterTypst;
use narsese::enum_narsese::*;
use narsese::lexical as lx;
use std::panic::{catch_unwind, AssertUnwindSafe};

pub fn efmt(name: &str) -> Result<&'static EF<&'static str>, String> {
    match name {
        "ascii" => Ok(&ef::FORMAT_ASCII),
        "latex" => Ok(&ef::FORMAT_LATEX),
        "han" => Ok(&ef::FORMAT_HAN),
        _ => Err(format!("unknown format {name:?}")),
    }
}
pub fn lfmt(name: &str) -> Result<&'static LF, String> {
    match name {
        "ascii" => Ok(&lf::FORMAT_ASCII),
        "latex" => Ok(&lf::FORMAT_LATEX),
        "han" => Ok(&lf::FORMAT_HAN),
        _ => Err(format!("unknown format {name:?}")),
    }
}
pub const FORMATS: [&str; 3] = ["ascii", "latex", "han"];

/// run `f` catching panics: `Ok(Ok(x))` = `ok`, `Ok(Err(()))` = `err`, `Err(())` = `panic`
pub fn guard<T>(f: impl FnOnce() -> Result<T, ()>) -> Result<Result<T, ()>, ()> {
    catch_unwind(AssertUnwindSafe(f)).map_err(|_| ())
}
fn show<T>(r: Result<Result<T, ()>, ()>, p: impl Fn(&T) -> String) -> String {
    match r {
        Ok(Ok(v)) => format!("ok {}", p(&v)),
        Ok(Err(())) => "err".into(),
        Err(()) => "panic".into(),
    }
}

pub fn eparse_out(f: &EF<&str>, s: &str) -> String {
    show(
        guard(|| {
            f.parse::<Narsese>(s).map_err(|e| {
                let _ = e.to_string(); // the error must be displayable (C04)
            })
        }),
        |v| ser::narsese(v, Mode::Canon),
    )
}

fn category(c: TermCategory) -> &'static str {
    match c {
        TermCategory::Atom => "atom",
        TermCategory::Compound => "compound",
        TermCategory::Statement => "statement",
    }
}
fn capacity(c: TermCapacity) -> &'static str {
    match c {
        TermCapacity::Atom => "atom",
        TermCapacity::Unary => "unary",
        TermCapacity::BinaryVec => "binaryVec",
        TermCapacity::BinarySet => "binarySet",
        TermCapacity::Vec => "vec",
        TermCapacity::Set => "set",
    }
}
fn list(v: Vec<String>) -> String {
    if v.is_empty() {
        "[ ]".into()
    } else {
        format!("[ {} ]", v.join(" "))
    }
}
fn b(x: bool) -> &'static str {
    if x {
        "1"
    } else {
        "0"
    }
}

/// `api` on a term already built (so that the caller controls the iteration order it serialised)
pub fn api_out(t: &Term) -> String {
    let cat = t.get_category();
    let cap = t.get_capacity();
    let preds = format!(
        "{}{}{} {}{}{}{}{}{}{}{}",
        b(t.is_atom()),
        b(t.is_compound()),
        b(t.is_statement()),
        b(t.is_capacity_atom()),
        b(t.is_capacity_unary()),
        b(t.is_capacity_binary()),
        b(t.is_capacity_binary_vec()),
        b(t.is_capacity_binary_set()),
        b(t.is_capacity_multi()),
        b(t.is_capacity_vec()),
        b(t.is_capacity_set())
    );
    let comps = list(
        t.get_components()
            .iter()
            .map(|x| ser::term(x, Mode::Raw))
            .collect(),
    );
    let compsph = list(
        t.get_components_including_placeholder()
            .iter()
            .map(|x| ser::term(x, Mode::Raw))
            .collect(),
    );
    let cc = match t.get_compound_components() {
        Some(v) => format!(
            "some {}",
            list(v.iter().map(|x| ser::term(x, Mode::Raw)).collect())
        ),
        None => "none".into(),
    };
    let name = match t.get_atom_name() {
        Some(n) => format!("some {}", ser::hs(&n)),
        None => "none".into(),
    };
    // consuming extraction on a clone: a clone of a HashSet iterates in the same order as the original
    let ext = match catch_unwind(AssertUnwindSafe(|| t.clone().extract_terms_to_vec())) {
        Ok(v) => format!(
            "ok {}",
            list(v.iter().map(|x| ser::term(x, Mode::Raw)).collect())
        ),
        Err(_) => "panic".into(),
    };
    format!(
        "cat={} cap={} preds={} comps={} compsph={} cc={} name={} extract={}",
        category(cat),
        capacity(cap),
        preds,
        comps,
        compsph,
        cc,
        name,
        ext
    )
}

/// `efmt` on a value already built (its serialisation must have been taken from the same instance,
/// because the text depends on the iteration order of its hash sets)
pub fn efmt_out(f: &EF<&str>, v: &Narsese) -> String {
    match catch_unwind(AssertUnwindSafe(|| f.format_narsese(v))) {
        Ok(s) => format!("s {}", ser::hs(&s)),
        Err(_) => "panic".into(),
    }
}

pub fn typst_out(n: &Narsese) -> String {
    match catch_unwind(AssertUnwindSafe(|| FormatterTypst.format(n))) {
        Ok(s) => format!("s {}", ser::hs(&s)),
        Err(_) => "panic".into(),
    }
}

/// C16: the stand-alone Typst renderings (`FormatTo<&FormatterTypst>` of a term, punctuation, stamp, truth, budget)
/// of the parts of a value: `s <term> [<punct> <stamp> <truth> [<budget>]]`
pub fn typstparts_out(n: &Narsese) -> String {
    let r = catch_unwind(AssertUnwindSafe(|| {
        let f = &FormatterTypst;
        let mut parts = vec![f.format(n.get_term())];
        let sentence = match n {
            Narsese::Term(_) => None,
            Narsese::Sentence(s) => Some(s),
            Narsese::Task(k) => Some(k.get_sentence()),
        };
        if let Some(s) = sentence {
            parts.push(f.format(s.get_punctuation()));
            parts.push(f.format(s.get_stamp()));
            parts.push(f.format(s.get_truth().unwrap_or(&Truth::Empty)));
        }
        if let Narsese::Task(k) = n {
            parts.push(f.format(k.get_budget()));
        }
        parts
    }));
    match r {
        Ok(parts) => format!("s {}", parts.iter().map(|p| ser::hs(p)).collect::<Vec<_>>().join(" ")),
        Err(_) => "panic".into(),
    }
}

pub fn lapi_out(t: &lx::Term) -> String {
    format!(
        "cat={} cap={} extract={}",
        category(t.get_category()),
        capacity(t.get_capacity()),
        list(
            t.clone()
                .extract_terms_to_vec()
                .iter()
                .map(ser::lterm)
                .collect()
        )
    )
}

fn opt_res<T>(r: std::thread::Result<T>, p: impl Fn(&T) -> String) -> String {
    match r {
        Ok(v) => format!("ok {}", p(&v)),
        Err(_) => "panic".into(),
    }
}

pub fn tctor_out(xs: &[f64]) -> String {
    let tf = show(
        guard(|| Truth::try_from_floats(xs.iter().copied()).map_err(|_| ())),
        |t| ser::truth(t, Mode::Canon),
    );
    let s1 = if xs.len() >= 1 {
        opt_res(catch_unwind(|| Truth::new_single(xs[0])), |t| {
            ser::truth(t, Mode::Canon)
        })
    } else {
        "na".into()
    };
    let s2 = if xs.len() >= 2 {
        opt_res(catch_unwind(|| Truth::new_double(xs[0], xs[1])), |t| {
            ser::truth(t, Mode::Canon)
        })
    } else {
        "na".into()
    };
    // accessors on the variant built directly from the first min(2,len) numbers
    let direct = match xs.len() {
        0 => Truth::Empty,
        1 => Truth::Single(xs[0]),
        _ => Truth::Double(xs[0], xs[1]),
    };
    let f = opt_res(catch_unwind(|| direct.f()), |x| ser::fl_bits(*x));
    let c = opt_res(catch_unwind(|| direct.c()), |x| ser::fl_bits(*x));
    format!("try={tf} ; single={s1} ; double={s2} ; f={f} ; c={c}")
}

pub fn bctor_out(xs: &[f64]) -> String {
    let tf = show(
        guard(|| Budget::try_from_floats(xs.iter().copied()).map_err(|_| ())),
        |t| ser::budget(t, Mode::Canon),
    );
    let s1 = if xs.len() >= 1 {
        opt_res(catch_unwind(|| Budget::new_single(xs[0])), |t| {
            ser::budget(t, Mode::Canon)
        })
    } else {
        "na".into()
    };
    let s2 = if xs.len() >= 2 {
        opt_res(catch_unwind(|| Budget::new_double(xs[0], xs[1])), |t| {
            ser::budget(t, Mode::Canon)
        })
    } else {
        "na".into()
    };
    let s3 = if xs.len() >= 3 {
        opt_res(
            catch_unwind(|| Budget::new_triple(xs[0], xs[1], xs[2])),
            |t| ser::budget(t, Mode::Canon),
        )
    } else {
        "na".into()
    };
    let direct = match xs.len() {
        0 => Budget::Empty,
        1 => Budget::Single(xs[0]),
        2 => Budget::Double(xs[0], xs[1]),
        _ => Budget::Triple(xs[0], xs[1], xs[2]),
    };
    let p = opt_res(catch_unwind(|| direct.p()), |x| ser::fl_bits(*x));
    let d = opt_res(catch_unwind(|| direct.d()), |x| ser::fl_bits(*x));
    let q = opt_res(catch_unwind(|| direct.q()), |x| ser::fl_bits(*x));
    format!("try={tf} ; single={s1} ; double={s2} ; triple={s3} ; p={p} ; d={d} ; q={q}")
}

/// `is_valid`, `try_validate`, `validate` of the float evidence-number API
pub fn evn_out(x: f64) -> String {
    let iv = EvidentNumber::is_valid(&x);
    let tv = EvidentNumber::try_validate(&x).is_ok();
    let v = catch_unwind(|| {
        let _ = EvidentNumber::validate(&x);
    })
    .is_ok();
    format!("valid={} try={} validate={}", b(iv), b(tv), if v { "ok" } else { "panic" })
}

pub fn cast_out(n: &Narsese) -> String {
    let kind = if n.is_term() {
        0
    } else if n.is_sentence() {
        1
    } else {
        2
    };
    let flags = format!("{}{}{}", b(n.is_term()), b(n.is_sentence()), b(n.is_task()));
    let it = match n.clone().try_into_term() {
        Ok(t) => format!("ok {}", ser::term(&t, Mode::Canon)),
        Err(_) => "err".into(),
    };
    let is = match n.clone().try_into_sentence() {
        Ok(t) => format!("ok {}", ser::sentence(&t, Mode::Canon)),
        Err(_) => "err".into(),
    };
    let ik = match n.clone().try_into_task() {
        Ok(t) => format!("ok {}", ser::task(&t, Mode::Canon)),
        Err(_) => "err".into(),
    };
    let tc = match n.clone().try_into_task_compatible() {
        Ok(t) => format!("ok {}", ser::task(&t, Mode::Canon)),
        Err(_) => "err".into(),
    };
    let cs = match n.clone().try_cast_to_sentence() {
        Ok(v) => format!("ok {}", ser::narsese(&v, Mode::Canon)),
        Err(v) => format!("err {}", ser::narsese(&v, Mode::Canon)),
    };
    format!("kind={kind} flags={flags} term={it} ; sentence={is} ; task={ik} ; compat={tc} ; cast={cs}")
}

pub fn lcast_out(n: &lx::Narsese) -> String {
    let kind = if n.is_term() {
        0
    } else if n.is_sentence() {
        1
    } else {
        2
    };
    let it = match n.clone().try_into_term() {
        Ok(t) => format!("ok {}", ser::lterm(&t)),
        Err(_) => "err".into(),
    };
    let is = match n.clone().try_into_sentence() {
        Ok(t) => format!("ok {}", ser::lsentence(&t)),
        Err(_) => "err".into(),
    };
    let ik = match n.clone().try_into_task() {
        Ok(t) => format!("ok {}", ser::ltask(&t)),
        Err(_) => "err".into(),
    };
    let tc = match n.clone().try_into_task_compatible() {
        Ok(t) => format!("ok {}", ser::ltask(&t)),
        Err(_) => "err".into(),
    };
    let cs = match n.clone().try_cast_to_sentence() {
        Ok(v) => format!("ok {}", ser::lnarsese(&v)),
        Err(v) => format!("err {}", ser::lnarsese(&v)),
    };
    format!("kind={kind} term={it} ; sentence={is} ; task={ik} ; compat={tc} ; cast={cs}")
}

/// Execute an op line's (op, fmt, payload); the value-taking ops rebuild the value from the payload.
/// no operation may take the harness down: a panic anywhere in the crate's code is an answer (`panic`)
pub fn exec(op: &str, fmt: &str, payload: &str) -> Result<String, String> {
    match catch_unwind(AssertUnwindSafe(|| exec_inner(op, fmt, payload))) {
        Ok(r) => r,
        Err(_) => Ok("panic".into()),
    }
}

fn exec_inner(op: &str, fmt: &str, payload: &str) -> Result<String, String> {
    let mut rd = Rd::new(payload);
    Ok(match op {
        "efmt" => {
            let f = efmt(fmt)?;
            let v = rd.narsese()?;
            match catch_unwind(AssertUnwindSafe(|| f.format_narsese(&v))) {
                Ok(s) => format!("s {}", ser::hs(&s)),
                Err(_) => "panic".into(),
            }
        }
        "eparse" => eparse_out(efmt(fmt)?, &rd.string()?),
        "echars" => {
            let f = efmt(fmt)?;
            let s = rd.string()?;
            show(
                guard(|| {
                    f.parse_chars::<Narsese>(s.chars().collect()).map_err(|e| {
                        let _ = e.to_string();
                    })
                }),
                |v| ser::narsese(v, Mode::Canon),
            )
        }
        "emacro" => {
            // the `enum_nse!` path: strip all whitespace, then `parse_chars`
            let f = efmt(fmt)?;
            let s = rd.string()?;
            show(
                guard(|| {
                    f.parse_chars::<Narsese>(s.chars().filter(|c| !c.is_whitespace()).collect())
                        .map_err(|e| {
                            let _ = e.to_string();
                        })
                }),
                |v| ser::narsese(v, Mode::Canon),
            )
        }
        "emulti" => {
            let f = efmt(fmt)?;
            let mut inputs = vec![];
            while !rd.done() {
                inputs.push(rd.string()?);
            }
            match catch_unwind(AssertUnwindSafe(|| {
                f.parse_multi(inputs.iter().map(|s| s.as_str()))
                    .into_iter()
                    .map(|r| match r {
                        Ok(v) => format!("ok {}", ser::narsese(&v, Mode::Canon)),
                        Err(e) => {
                            let _ = e.to_string();
                            "err".into()
                        }
                    })
                    .collect::<Vec<String>>()
            })) {
                Ok(v) => v.join(" | "),
                Err(_) => "panic".into(),
            }
        }
        "etruth" => {
            let f = efmt(fmt)?;
            let s = rd.string()?;
            show(
                guard(|| {
                    f.parse::<Truth>(&s).map_err(|e| {
                        let _ = e.to_string();
                    })
                }),
                |v| ser::truth(v, Mode::Canon),
            )
        }
        "emid" => {
            // the fifth side door: the filled slots themselves, and how `NarseseOptions` classifies them
            type Mid = narsese::api::NarseseOptions<Budget, Term, Punctuation, Stamp, Truth>;
            let f = efmt(fmt)?;
            let s = rd.string()?;
            show(
                guard(|| {
                    f.parse::<Mid>(&s).map_err(|e| {
                        let _ = e.to_string();
                    })
                }),
                |m| {
                    let o = |x: Option<String>| x.unwrap_or_else(|| "-".into());
                    let mut m2 = m.clone();
                    let mut m3 = m.clone();
                    format!(
                        "{} {} {} {} {} hs={} ht={} ts={} tt={}",
                        o(m.budget.as_ref().map(|b| ser::budget(b, Mode::Canon))),
                        o(m.term.as_ref().map(|t| ser::term(t, Mode::Canon))),
                        o(m.punctuation.as_ref().map(ser::punct)),
                        o(m.stamp.as_ref().map(ser::stamp)),
                        o(m.truth.as_ref().map(|t| ser::truth(t, Mode::Canon))),
                        b(m.has_sentence()),
                        b(m.has_task()),
                        b(m2.take_sentence().is_some()),
                        b(m3.take_task().is_some()),
                    )
                },
            )
        }
        "ebudget" => {
            let f = efmt(fmt)?;
            let s = rd.string()?;
            show(
                guard(|| {
                    f.parse::<Budget>(&s).map_err(|e| {
                        let _ = e.to_string();
                    })
                }),
                |v| ser::budget(v, Mode::Canon),
            )
        }
        "estamp" => {
            let f = efmt(fmt)?;
            let s = rd.string()?;
            show(
                guard(|| {
                    f.parse::<Stamp>(&s).map_err(|e| {
                        let _ = e.to_string();
                    })
                }),
                ser::stamp,
            )
        }
        "epunct" => {
            let f = efmt(fmt)?;
            let s = rd.string()?;
            show(
                guard(|| {
                    f.parse::<Punctuation>(&s).map_err(|e| {
                        let _ = e.to_string();
                    })
                }),
                ser::punct,
            )
        }
        "lfmt" => {
            let f = lfmt(fmt)?;
            let v = rd.lnarsese()?;
            match catch_unwind(AssertUnwindSafe(|| f.format_narsese(&v))) {
                Ok(s) => format!("s {}", ser::hs(&s)),
                Err(_) => "panic".into(),
            }
        }
        "lparse" => {
            let f = lfmt(fmt)?;
            let s = rd.string()?;
            show(
                guard(|| {
                    f.parse(&s).map_err(|e| {
                        let _ = e.to_string();
                    })
                }),
                ser::lnarsese,
            )
        }
        "peg" => {
            // C11: what the library's ASCII lexical parser returns for the text (the driver answers with
            // what the published README grammar derives)
            let f = lfmt("ascii")?;
            let s = rd.string()?;
            show(
                guard(|| {
                    f.parse(&s).map_err(|e| {
                        let _ = e.to_string();
                    })
                }),
                ser::lnarsese,
            )
        }
        "lparseterm" => {
            let f = lfmt(fmt)?;
            let s = rd.string()?;
            show(
                guard(|| {
                    f.parse_term(&s).map_err(|e| {
                        let _ = e.to_string();
                    })
                }),
                ser::lterm,
            )
        }
        "lfold" => {
            // lexical parse, then fold with the same-named enum format
            let f = efmt(fmt)?;
            let l = lfmt(fmt)?;
            let s = rd.string()?;
            show(
                guard(|| {
                    let v = l.parse(&s).map_err(|e| {
                        let _ = e.to_string();
                    })?;
                    v.try_fold_into(f).map_err(|_| ())
                }),
                |v| ser::narsese(v, Mode::Canon),
            )
        }
        "fold" => {
            let f = efmt(fmt)?;
            let v = rd.lnarsese()?;
            show(guard(|| v.try_fold_into(f).map_err(|_| ())), |v| {
                ser::narsese(v, Mode::Canon)
            })
        }
        "eq" => {
            let a = rd.term()?;
            let c = rd.term()?;
            format!("b {}", b(a == c))
        }
        "roundtrip" => {
            // property C01 evaluated directly: parse(format(v)) is Ok with the same canonical form
            let f = efmt(fmt)?;
            let v = rd.narsese()?;
            let text = f.format_narsese(&v);
            let back = eparse_out(f, &text);
            format!("b {}", b(back == format!("ok {}", ser::narsese(&v, Mode::Canon))))
        }
        "agree" => {
            // property C03 evaluated directly: both pipelines succeed and give the same value
            let s = rd.string()?;
            let e = exec("eparse", fmt, &ser::hs(&s))?;
            let l = exec("lfold", fmt, &ser::hs(&s))?;
            format!("b {}", b(e == l && e.starts_with("ok ")))
        }
        "hasheq" => {
            use std::hash::{BuildHasher, Hash, Hasher};
            let a = rd.term()?;
            let c = rd.term()?;
            let h = |t: &Term, mut st: Box<dyn Hasher>| -> u64 {
                struct W<'a>(&'a mut dyn Hasher);
                impl<'a> Hasher for W<'a> {
                    fn finish(&self) -> u64 { self.0.finish() }
                    fn write(&mut self, b: &[u8]) { self.0.write(b) }
                }
                t.hash(&mut W(st.as_mut()));
                st.finish()
            };
            let mut same = h(&a, Box::new(std::collections::hash_map::DefaultHasher::new()))
                == h(&c, Box::new(std::collections::hash_map::DefaultHasher::new()));
            for _ in 0..3 {
                let rs = std::collections::hash_map::RandomState::new();
                same &= h(&a, Box::new(rs.build_hasher())) == h(&c, Box::new(rs.build_hasher()));
            }
            format!("b {}", b(same))
        }
        "typst" => typst_out(&rd.narsese()?),
        "typstparts" => typstparts_out(&rd.narsese()?),
        "api" => api_out(&rd.term()?),
        "lapi" => lapi_out(&rd.lterm()?),
        "setname" => {
            let mut t = rd.term()?;
            let n = rd.string()?;
            let ok = t.set_atom_name(&n).is_ok();
            format!(
                "{} {} name={}",
                if ok { "ok" } else { "err" },
                ser::term(&t, Mode::Canon),
                match catch_unwind(AssertUnwindSafe(|| t.get_atom_name())) {
                    Ok(Some(n)) => format!("some {}", ser::hs(&n)),
                    Ok(None) => "none".into(),
                    Err(_) => "panic".into(),
                }
            )
        }
        "push" => {
            let mut t = rd.term()?;
            let mut cs = vec![];
            while !rd.done() {
                cs.push(rd.term()?);
            }
            let ok = t.push_components(cs).is_ok();
            format!(
                "{} {}",
                if ok { "ok" } else { "err" },
                ser::term(&t, Mode::Canon)
            )
        }
        "tctor" => {
            let mut xs = vec![];
            while !rd.done() {
                xs.push(rd.float()?);
            }
            tctor_out(&xs)
        }
        "bctor" => {
            let mut xs = vec![];
            while !rd.done() {
                xs.push(rd.float()?);
            }
            bctor_out(&xs)
        }
        "evn" => evn_out(rd.float()?),
        "cast" => cast_out(&rd.narsese()?),
        "lcast" => lcast_out(&rd.lnarsese()?),
        _ => return Err(format!("unknown op {op:?}")),
    })
}
