//! Streams: generated operations with the real outputs + the properties evaluated on the real code.

use crate::exec::{self, efmt, lfmt, FORMATS};
use crate::gen::{self, Rng, Surface, TermCfg};
use crate::ser::{self, Mode};
use narsese::api::*;
use narsese::conversion::inter_type::lexical_fold::TryFoldInto;
use narsese::conversion::string::impl_enum::NarseseFormat as EF;
use narsese::conversion::string::typst_formatter::FormatterTypst;
use narsese::enum_narsese::*;
use narsese::lexical as lx;
use std::collections::{BTreeMap, HashMap, HashSet};
use std::hash::{Hash, Hasher};
use std::io::Write;
use std::panic::{catch_unwind, AssertUnwindSafe};
use std::sync::atomic::{AtomicU64, Ordering};
use std::sync::Mutex;

// ---------------- watchdog (hang detection) ----------------
static TICK: AtomicU64 = AtomicU64::new(0);
static CURRENT: Mutex<String> = Mutex::new(String::new());
pub fn tick(what: &str) {
    TICK.fetch_add(1, Ordering::SeqCst);
    if let Ok(mut c) = CURRENT.lock() {
        c.clear();
        c.push_str(what);
    }
}
pub fn watchdog() {
    std::thread::spawn(|| {
        let mut last = TICK.load(Ordering::SeqCst);
        let mut stale = 0;
        loop {
            std::thread::sleep(std::time::Duration::from_millis(500));
            let now = TICK.load(Ordering::SeqCst);
            if now == last && now != 0 {
                stale += 1;
                if stale >= 40 {
                    let cur = CURRENT.lock().map(|c| c.clone()).unwrap_or_default();
                    // on stderr: the main thread holds the stdout lock for the whole run (a `println!` here would
                    // wait for it forever — which is how a hang once went unreported)
                    eprintln!("!hang\t{cur}");
                    std::process::exit(3);
                }
            } else {
                stale = 0;
                last = now;
            }
        }
    });
}

// ---------------- output helpers ----------------
pub struct Out<'a, W: Write> {
    w: &'a mut W,
    pub ops: usize,
    pub oracle_checks: BTreeMap<String, usize>,
    pub oracle_fails: usize,
    pub hist: BTreeMap<String, usize>,
    pub distinct: HashSet<u64>,
}
impl<'a, W: Write> Out<'a, W> {
    fn op(&mut self, op: &str, fmt: &str, payload: &str, expected: &str) {
        writeln!(self.w, "{op}\t{fmt}\t{payload}\t{expected}").unwrap();
        self.ops += 1;
        let mut h = std::collections::hash_map::DefaultHasher::new();
        (op, fmt, payload).hash(&mut h);
        self.distinct.insert(h.finish());
    }
    /// run an op through `exec` (so generation and replay share one code path)
    fn run(&mut self, op: &str, fmt: &str, payload: &str) -> String {
        tick(payload);
        let r = exec::exec(op, fmt, payload).unwrap_or_else(|e| format!("bad-op {e}"));
        self.op(op, fmt, payload, &r);
        if op == "eparse" {
            self.mid_door(fmt, payload, &r);
        }
        r
    }
    /// every text given to the whole-value enum parser also goes through the slot door
    /// (`parse::<NarseseOptions<…>>`): it must not panic (C04), and the kind the whole-value parser returns is the
    /// kind `has_task` / `has_sentence` / `take_*` read off the slots (C15)
    fn mid_door(&mut self, fmt: &str, payload: &str, whole: &str) {
        let m = exec::exec("emid", fmt, payload).unwrap_or_else(|e| format!("bad-op {e}"));
        self.op("emid", fmt, payload, &m);
        self.checked("C04");
        if m.starts_with("panic") {
            self.fail("C04", fmt, "parse::<NarseseOptions<..>> (the slot door) panics", &format!("text={payload}"));
            return;
        }
        if let Some(rest) = whole.strip_prefix("ok ( ") {
            self.checked("C15");
            let kind = rest.split(' ').next().unwrap_or("");
            let flag = |k: &str| m.split(' ').find_map(|x| x.strip_prefix(k)).unwrap_or("?").to_string();
            let (hs, ht, ts, tt) = (flag("hs="), flag("ht="), flag("ts="), flag("tt="));
            let want = match kind { "NTask" => ("1", "1"), "NSentence" => ("1", "0"), "NTerm" => ("0", "0"), _ => ("?", "?") };
            if !m.starts_with("ok ") || (hs.as_str(), ht.as_str()) != want || ts != hs || tt != ht {
                self.fail("C15", fmt, "the kind returned by parse is not the kind has_sentence / has_task / take_* read off the parsed slots",
                    &format!("text={payload} parse={} slots={m}", &whole[..whole.len().min(60)]));
            }
        }
    }
    /// order-sensitive printers: the expected text comes from the SAME instance that was serialised
    fn efmt(&mut self, f: &str, raw: &str, v: &Narsese) -> String {
        tick(raw);
        let r = exec::efmt_out(efmt(f).unwrap(), v);
        self.op("efmt", f, raw, &r);
        r
    }
    fn typst(&mut self, raw: &str, v: &Narsese) -> String {
        tick(raw);
        let r = exec::typst_out(v);
        self.op("typst", "-", raw, &r);
        r
    }
    fn typstparts(&mut self, raw: &str, v: &Narsese) -> String {
        tick(raw);
        let r = exec::typstparts_out(v);
        self.op("typstparts", "-", raw, &r);
        r
    }
    fn checked(&mut self, prop: &str) {
        *self.oracle_checks.entry(prop.to_string()).or_insert(0) += 1;
    }
    fn fail(&mut self, prop: &str, fmt: &str, what: &str, detail: &str) {
        writeln!(self.w, "!oracle\t{prop}\t{fmt}\t{what}\t{detail}").unwrap();
        self.oracle_fails += 1;
    }
    fn count(&mut self, key: &str) {
        *self.hist.entry(key.to_string()).or_insert(0) += 1;
    }
}

fn term_hist<W: Write>(o: &mut Out<W>, t: &Term) {
    let s = ser::term(t, Mode::Raw);
    for tok in s.split(' ') {
        if tok.chars().next().map(|c| c.is_ascii_uppercase()).unwrap_or(false) {
            o.count(&format!("ctor.{tok}"));
        }
    }
}
fn depth(t: &Term) -> usize {
    if t.is_atom() {
        0
    } else {
        1 + t.get_components().iter().map(|c| depth(c)).max().unwrap_or(0)
    }
}

// ---------------- well-formedness of outputs (C12), computed here, not by the crate ----------------
fn in01(x: f64) -> bool {
    x >= 0.0 && x <= 1.0
}
fn wf_term(t: &Term, parser_output: bool) -> Result<(), String> {
    use Term::*;
    match t {
        Word(n) | VariableIndependent(n) | VariableDependent(n) | VariableQuery(n) | Operator(n) => {
            if n.is_empty() && parser_output {
                return Err("empty atom name".into());
            }
        }
        ImageExtension(i, v) | ImageIntension(i, v) => {
            if *i > v.len() {
                return Err(format!("image index {i} > {}", v.len()));
            }
        }
        _ => {}
    }
    if !t.is_atom() {
        let cs = t.get_components();
        // an image's own placeholder counts as written content: `(/, _)` is not "empty"
        if parser_output && t.get_components_including_placeholder().is_empty() {
            return Err("empty compound".into());
        }
        for c in cs {
            wf_term(c, parser_output)?;
        }
    }
    Ok(())
}
fn wf_narsese(n: &Narsese, parser_output: bool) -> Result<(), String> {
    wf_term(n.get_term(), parser_output)?;
    let (tr, bu): (Option<&Truth>, Option<&Budget>) = match n {
        Narsese::Term(_) => (None, None),
        Narsese::Sentence(s) => (s.get_truth(), None),
        Narsese::Task(k) => (k.get_truth(), Some(k.get_budget())),
    };
    let nums: Vec<f64> = match tr {
        Some(Truth::Single(a)) => vec![*a],
        Some(Truth::Double(a, b)) => vec![*a, *b],
        _ => vec![],
    }
    .into_iter()
    .chain(match bu {
        Some(Budget::Single(a)) => vec![*a],
        Some(Budget::Double(a, b)) => vec![*a, *b],
        Some(Budget::Triple(a, b, c)) => vec![*a, *b, *c],
        _ => vec![],
    })
    .collect();
    for x in nums {
        if !in01(x) {
            return Err(format!("number {x} outside [0,1]"));
        }
    }
    Ok(())
}
/// all three printers and Typst must not panic on a value (C12)
fn printers_ok(n: &Narsese) -> Result<(), String> {
    for f in FORMATS {
        let ff = efmt(f).unwrap();
        if catch_unwind(AssertUnwindSafe(|| ff.format_narsese(n))).is_err() {
            return Err(format!("format_{f} panicked"));
        }
    }
    if catch_unwind(AssertUnwindSafe(|| FormatterTypst.format(n))).is_err() {
        return Err("typst panicked".into());
    }
    Ok(())
}

fn typst_normal(s: &str) -> bool {
    let cs: Vec<char> = s.chars().collect();
    if cs.first().map(|c| c.is_whitespace()).unwrap_or(false) {
        return false;
    }
    if cs.last().map(|c| c.is_whitespace()).unwrap_or(false) {
        return false;
    }
    cs.windows(2).all(|w| !(w[0].is_whitespace() && w[1].is_whitespace()))
}

fn canon_dedup(n: &Narsese) -> String {
    ser::narsese(n, Mode::CanonDedup)
}

// ---------------- the streams ----------------

pub fn run<W: Write>(stream: &str, seed: u64, n: usize, w: &mut W) -> Result<(), String> {
    let mut r = Rng::new(seed ^ fxhash(stream));
    let mut o = Out {
        w,
        ops: 0,
        oracle_checks: BTreeMap::new(),
        oracle_fails: 0,
        hist: BTreeMap::new(),
        distinct: HashSet::new(),
    };
    let deep = std::env::var("VERIF_TIER").map(|t| t == "thorough").unwrap_or(false);
    let cfg = TermCfg {
        max_depth: if deep { 7 } else { 4 },
        max_arity: if deep { 5 } else { 3 },
    };
    match stream {
        "values" => values(&mut r, &cfg, n, &mut o),
        "lexvalues" => lexvalues(&mut r, &cfg, n, &mut o),
        "surface" => surface(&mut r, &cfg, n, &mut o),
        "malformed" => malformed(&mut r, &cfg, n, &mut o),
        "foldarb" => foldarb(&mut r, n, &mut o),
        "foldtable" => foldtable(&mut o),
        "pairs" => pairs(&mut r, &cfg, n, &mut o),
        "seqs" => seqs(&mut r, &cfg, n, &mut o),
        "api" => api(&mut r, &cfg, n, &mut o),
        "mutators" => mutators(&mut r, &cfg, n, &mut o),
        "ctor" => ctor(&mut r, n, &mut o),
        "small" => small(n, &mut o),
        "corpus" => corpus(&mut o),
        "grammar" => grammar(&mut r, &cfg, n, &mut o),
        _ => return Err(format!("unknown stream {stream:?}")),
    }
    let hist = o
        .hist
        .iter()
        .map(|(k, v)| format!("\"{k}\":{v}"))
        .collect::<Vec<_>>()
        .join(",");
    let checks = o
        .oracle_checks
        .iter()
        .map(|(k, v)| format!("\"{k}\":{v}"))
        .collect::<Vec<_>>()
        .join(",");
    writeln!(
        o.w,
        "#stats\t{{\"stream\":\"{stream}\",\"seed\":{seed},\"n\":{n},\"ops\":{},\"distinct_ops\":{},\"oracle_checks\":{{{checks}}},\"oracle_fails\":{},\"hist\":{{{hist}}}}}",
        o.ops,
        o.distinct.len(),
        o.oracle_fails
    )
    .unwrap();
    Ok(())
}

fn fxhash(s: &str) -> u64 {
    let mut h = 0xcbf29ce484222325u64;
    for b in s.bytes() {
        h ^= b as u64;
        h = h.wrapping_mul(0x100000001b3);
    }
    h
}

fn kind_name(n: &Narsese) -> &'static str {
    match n {
        Narsese::Term(_) => "term",
        Narsese::Sentence(_) => "sentence",
        Narsese::Task(_) => "task",
    }
}

/// C01 / C15(kind) / C12(printers) / C16: format, parse back, Typst, casts
fn values<W: Write>(r: &mut Rng, cfg: &TermCfg, n: usize, o: &mut Out<W>) {
    let mut typst_seen: HashMap<String, String> = HashMap::new();
    for _ in 0..n {
        let v = gen::narsese(r, cfg);
        term_hist(o, v.get_term());
        o.count(&format!("kind.{}", kind_name(&v)));
        o.count(&format!("depth.{}", depth(v.get_term())));
        let raw = ser::narsese(&v, Mode::Raw);
        let canon = ser::narsese(&v, Mode::Canon);
        for f in FORMATS {
            let out = o.efmt(f, &raw, &v);
            if let Some(hs) = out.strip_prefix("s ") {
                let back = o.run("eparse", f, hs);
                o.checked("C01");
                if back != format!("ok {canon}") {
                    o.fail("C01", f, "parse(format(v)) != v", &format!("value={raw} text={hs} got={back}"));
                }
                // the lexical pipeline on the enum formatter's own output (C03)
                let lf = o.run("lfold", f, hs);
                o.checked("C03");
                if lf != back || !lf.starts_with("ok ") {
                    o.fail("C03", f, "enum parse != fold(lexical parse) on the enum formatter's output", &format!("value={raw} text={hs} enum={back} lexfold={lf}"));
                }
                o.checked("C15");
                // every public formatting entry point — the dedicated methods, `FORMAT.format(&x)`, `x.format_to(&FORMAT)`,
                // on the value and on what it wraps — prints the same text (so all of them round-trip and keep the kind)
                let text = ser::unhs(hs).unwrap();
                let ff = efmt(f).unwrap();
                let mut others: Vec<(&str, String)> = vec![("Narsese::format_to", v.format_to(ff)), ("format(&Narsese)", ff.format(&v))];
                match &v {
                    Narsese::Term(t) => {
                        others.push(("format_term", ff.format_term(t)));
                        others.push(("format(&Term)", ff.format(t)));
                        others.push(("Term::format_to", t.format_to(ff)));
                    }
                    Narsese::Sentence(s) => {
                        others.push(("format_sentence", ff.format_sentence(s)));
                        others.push(("format(&Sentence)", ff.format(s)));
                        others.push(("Sentence::format_to", s.format_to(ff)));
                    }
                    Narsese::Task(k) => {
                        others.push(("format_task", ff.format_task(k)));
                        others.push(("format(&Task)", ff.format(k)));
                        others.push(("Task::format_to", k.format_to(ff)));
                    }
                }
                for (entry, s) in others {
                    if s != text {
                        // a different text is only a violation if it does not read back as the value
                        let b2 = o.run("eparse", f, &ser::hs(&s));
                        if b2 == format!("ok {canon}") {
                            o.count("entrypoint.differs_but_reads_back");
                            continue;
                        }
                        let kind_of = |x: &str| x.split(' ').nth(2).unwrap_or("").to_string();
                        let prop = if kind_of(&b2) != kind_of(&back) { "C15" } else { "C01" };
                        o.fail(prop, f, &format!("the formatting entry point {entry} prints a text that does not read back as the value (format_narsese does)"),
                            &format!("value={raw} text={} got={b2}", ser::hs(&s)));
                    }
                }
            } else {
                o.checked("C12");
                o.fail("C12", f, "formatter panicked", &raw);
            }
        }
        // Typst: normal form and collisions (C16)
        let t = o.typst(&raw, &v);
        o.checked("C16");
        match t.strip_prefix("s ") {
            Some(hs) => {
                let text = ser::unhs(hs).unwrap();
                if !typst_normal(&text) {
                    o.fail("C16", "-", "typst output not whitespace-normalised", &format!("value={raw} text={hs}"));
                }
                let cd = canon_dedup(&v);
                // compare on a canonical ordering of unordered components: render the canonical value
                let key = typst_canonical_text(&v);
                if let Some(prev) = typst_seen.get(&key) {
                    if *prev != cd {
                        o.fail("C16", "-", "two semantically different values render to the same Typst text", &format!("a={prev} b={cd} text={}", ser::hs(&key)));
                    }
                } else {
                    typst_seen.insert(key, cd);
                }
            }
            None => o.fail("C16", "-", "typst panicked", &raw),
        }
        // the stand-alone renderings of the parts (term, punctuation, stamp, truth, budget): total, normalised,
        // and unambiguous per kind of item (C16 names each of them)
        let tp = o.typstparts(&raw, &v);
        o.checked("C16");
        match tp.strip_prefix("s ") {
            Some(rest) => {
                let kinds = ["term", "punctuation", "stamp", "truth", "budget"];
                let sent = match &v { Narsese::Term(_) => None, Narsese::Sentence(s) => Some(s.clone()), Narsese::Task(k) => Some(k.get_sentence().clone()) };
                for (i, hs) in rest.split(' ').enumerate() {
                    let text = ser::unhs(hs).unwrap_or_default();
                    if !typst_normal(&text) {
                        o.fail("C16", "-", &format!("stand-alone typst {} not whitespace-normalised", kinds[i]), &format!("value={raw} text={hs}"));
                    }
                    // canonical description of the item (for the term: the order-insensitive serialisation)
                    let canon = match (i, &sent) {
                        (0, _) => ser::term(v.get_term(), Mode::CanonDedup),
                        (1, Some(s)) => ser::punct(s.get_punctuation()),
                        (2, Some(s)) => ser::stamp(s.get_stamp()),
                        (3, Some(s)) => ser::truth(s.get_truth().unwrap_or(&Truth::Empty), Mode::Canon),
                        (4, _) => match &v { Narsese::Task(k) => ser::budget(k.get_budget(), Mode::Canon), _ => continue },
                        _ => continue,
                    };
                    if i == 0 {
                        continue; // terms: covered by the whole-value collision table (set order makes texts differ)
                    }
                    let key = format!("{}\u{1}{}", kinds[i], text);
                    if let Some(prev) = typst_seen.get(&key) {
                        if *prev != canon {
                            o.fail("C16", "-", &format!("two different {} values render to the same stand-alone Typst text", kinds[i]), &format!("a={prev} b={canon} text={hs}"));
                        }
                    } else {
                        typst_seen.insert(key, canon);
                    }
                }
            }
            None => o.fail("C16", "-", "stand-alone typst rendering of a part panicked", &raw),
        }
        // a twin differing only by a tiny change of one number must render differently (C16)
        if let Some(tw) = perturb(r, &v) {
            o.checked("C16");
            if let (Ok(a), Ok(b)) = (catch_unwind(AssertUnwindSafe(|| FormatterTypst.format(&v))), catch_unwind(AssertUnwindSafe(|| FormatterTypst.format(&tw)))) {
                if a == b && canon_dedup(&v) != canon_dedup(&tw) {
                    o.fail("C16", "-", "two values differing in one number render to the same Typst text", &format!("a={} b={} text={}", ser::narsese(&v, Mode::Raw), ser::narsese(&tw, Mode::Raw), ser::hs(&a)));
                }
            }
        }
        // a structurally close twin (moved placeholder, swapped operands, other constructor / punctuation / stamp)
        // that is not semantically equal must render differently (C16) — and print differently in every format
        if let Some(tw) = twist(r, &v) {
            if canon_dedup(&v) != canon_dedup(&tw) && v != tw {
                o.checked("C16");
                if let (Ok(a), Ok(b)) = (catch_unwind(AssertUnwindSafe(|| FormatterTypst.format(&v))), catch_unwind(AssertUnwindSafe(|| FormatterTypst.format(&tw)))) {
                    if a == b {
                        o.fail("C16", "-", "two structurally close but different values render to the same Typst text", &format!("a={} b={} text={}", ser::narsese(&v, Mode::Raw), ser::narsese(&tw, Mode::Raw), ser::hs(&a)));
                    }
                }
            }
        }
        o.run("cast", "-", &raw);
        cast_oracle(o, &v);
        // the stand-alone item printers and the stand-alone item parsers (side doors): every public way of printing a
        // truth / budget / stamp / punctuation gives a text its own parser reads back as that item
        let sent = match &v { Narsese::Term(_) => None, Narsese::Sentence(s) => Some(s.clone()), Narsese::Task(k) => Some(k.get_sentence().clone()) };
        if let Some(s) = sent {
            for f in FORMATS {
                let ff = efmt(f).unwrap();
                let mut cases: Vec<(&str, &str, Vec<String>, String)> = vec![];
                if let Some(tr) = s.get_truth() {
                    cases.push(("etruth", "truth", vec![ff.format_truth(tr), ff.format(tr), tr.format_to(ff)], ser::truth(tr, Mode::Canon)));
                }
                let st = s.get_stamp();
                cases.push(("estamp", "stamp", vec![ff.format_stamp(st), ff.format(st), st.format_to(ff)], ser::stamp(st)));
                let pu = s.get_punctuation();
                cases.push(("epunct", "punctuation", vec![ff.format_punctuation(pu), ff.format(pu), pu.format_to(ff)], ser::punct(pu)));
                if let Narsese::Task(k) = &v {
                    let bu = k.get_budget();
                    cases.push(("ebudget", "budget", vec![ff.format_budget(bu), ff.format(bu), bu.format_to(ff)], ser::budget(bu, Mode::Canon)));
                }
                for (door, what, texts, canon) in cases {
                    for (i, text) in texts.iter().enumerate() {
                        if i > 0 && *text == texts[0] {
                            continue;
                        }
                        let back = o.run(door, f, &ser::hs(text));
                        o.checked("C01");
                        if back != format!("ok {canon}") {
                            o.fail("C01", f, &format!("a stand-alone {what} printed by {} is not read back by its own parser", ["format_*", "format(&x)", "x.format_to"][i]),
                                &format!("item={canon} text={} got={back}", ser::hs(text)));
                        }
                    }
                }
            }
        }
    }
}

/// a structurally close but DIFFERENT term: a moved image placeholder, two swapped components of an ordered
/// compound, swapped operands of an asymmetric statement / difference, the extensional constructor for the
/// intensional one, another atom kind, the next interval — applied at the root or inside a random component
fn twist_term(r: &mut Rng, t: &Term) -> Option<Term> {
    use Term::*;
    let b = |x: &Term| Box::new(x.clone());
    // descend into a component half of the time
    if r.chance(1, 2) {
        let inner = |r: &mut Rng, v: &Vec<Term>| -> Option<Vec<Term>> {
            if v.is_empty() {
                return None;
            }
            let i = r.below(v.len());
            let mut w = v.clone();
            w[i] = twist_term(r, &v[i])?;
            Some(w)
        };
        let inner_set = |r: &mut Rng, s: &TermSetType| -> Option<Vec<Term>> {
            let v: Vec<Term> = s.iter().cloned().collect();
            inner(r, &v)
        };
        let got = match t {
            SetExtension(s) => inner_set(r, s).map(Term::new_set_extension),
            SetIntension(s) => inner_set(r, s).map(Term::new_set_intension),
            IntersectionExtension(s) => inner_set(r, s).map(Term::new_intersection_extension),
            IntersectionIntension(s) => inner_set(r, s).map(Term::new_intersection_intension),
            Conjunction(s) => inner_set(r, s).map(Term::new_conjunction),
            Disjunction(s) => inner_set(r, s).map(Term::new_disjunction),
            ConjunctionParallel(s) => inner_set(r, s).map(Term::new_conjunction_parallel),
            Product(v) => inner(r, v).map(Product),
            ConjunctionSequential(v) => inner(r, v).map(ConjunctionSequential),
            ImageExtension(i, v) => inner(r, v).map(|w| ImageExtension(*i, w)),
            ImageIntension(i, v) => inner(r, v).map(|w| ImageIntension(*i, w)),
            Negation(x) => twist_term(r, x).map(|y| Negation(Box::new(y))),
            Inheritance(x, y) => if r.chance(1, 2) { twist_term(r, x).map(|z| Inheritance(Box::new(z), b(y))) } else { twist_term(r, y).map(|z| Inheritance(b(x), Box::new(z))) },
            Implication(x, y) => if r.chance(1, 2) { twist_term(r, x).map(|z| Implication(Box::new(z), b(y))) } else { twist_term(r, y).map(|z| Implication(b(x), Box::new(z))) },
            _ => None,
        };
        if got.is_some() {
            return got;
        }
    }
    Some(match t {
        Word(n) => if r.chance(1, 2) { Operator(n.clone()) } else { VariableQuery(n.clone()) },
        VariableIndependent(n) => VariableDependent(n.clone()),
        VariableDependent(n) => VariableQuery(n.clone()),
        VariableQuery(n) => VariableIndependent(n.clone()),
        Operator(n) => Word(n.clone()),
        Interval(n) => Interval(n.wrapping_add(1)),
        Placeholder => return None,
        SetExtension(s) => SetIntension(s.clone()),
        SetIntension(s) => SetExtension(s.clone()),
        IntersectionExtension(s) => IntersectionIntension(s.clone()),
        IntersectionIntension(s) => IntersectionExtension(s.clone()),
        Conjunction(s) => if r.chance(1, 2) { Disjunction(s.clone()) } else { ConjunctionParallel(s.clone()) },
        Disjunction(s) => Conjunction(s.clone()),
        ConjunctionParallel(s) => Conjunction(s.clone()),
        DifferenceExtension(x, y) => if x != y && r.chance(1, 2) { DifferenceExtension(y.clone(), x.clone()) } else { DifferenceIntension(x.clone(), y.clone()) },
        DifferenceIntension(x, y) => if x != y && r.chance(1, 2) { DifferenceIntension(y.clone(), x.clone()) } else { DifferenceExtension(x.clone(), y.clone()) },
        Product(v) | ConjunctionSequential(v) => {
            let seq = matches!(t, ConjunctionSequential(_));
            let pos: Vec<usize> = (0..v.len().saturating_sub(1)).filter(|&i| v[i] != v[i + 1]).collect();
            if pos.is_empty() {
                if seq { Product(v.clone()) } else { ConjunctionSequential(v.clone()) }
            } else {
                let i = *r.pick(&pos);
                let mut w = v.clone();
                w.swap(i, i + 1);
                if seq { ConjunctionSequential(w) } else { Product(w) }
            }
        }
        ImageExtension(i, v) | ImageIntension(i, v) => {
            let ext = matches!(t, ImageExtension(..));
            // move the placeholder to another slot (the point of C16-c), or switch the image kind
            let slots: Vec<usize> = (0..=v.len()).filter(|j| j != i).collect();
            if !slots.is_empty() && r.chance(3, 4) {
                let j = *r.pick(&slots);
                if ext { ImageExtension(j, v.clone()) } else { ImageIntension(j, v.clone()) }
            } else if ext { ImageIntension(*i, v.clone()) } else { ImageExtension(*i, v.clone()) }
        }
        Negation(x) => (**x).clone(),
        Inheritance(x, y) => if x != y { Inheritance(y.clone(), x.clone()) } else { Similarity(x.clone(), y.clone()) },
        Similarity(x, y) => Inheritance(x.clone(), y.clone()),
        Implication(x, y) => if x != y { Implication(y.clone(), x.clone()) } else { Equivalence(x.clone(), y.clone()) },
        Equivalence(x, y) => Implication(x.clone(), y.clone()),
        ImplicationPredictive(x, y) => if x != y && r.chance(1, 2) { ImplicationPredictive(y.clone(), x.clone()) } else { ImplicationRetrospective(x.clone(), y.clone()) },
        ImplicationConcurrent(x, y) => if x != y { ImplicationConcurrent(y.clone(), x.clone()) } else { ImplicationPredictive(x.clone(), y.clone()) },
        ImplicationRetrospective(x, y) => if x != y && r.chance(1, 2) { ImplicationRetrospective(y.clone(), x.clone()) } else { ImplicationPredictive(x.clone(), y.clone()) },
        EquivalencePredictive(x, y) => if x != y { EquivalencePredictive(y.clone(), x.clone()) } else { EquivalenceConcurrent(x.clone(), y.clone()) },
        EquivalenceConcurrent(x, y) => EquivalencePredictive(x.clone(), y.clone()),
    })
}

/// a close but different value: a twisted term, another punctuation mark, another stamp
fn twist(r: &mut Rng, n: &Narsese) -> Option<Narsese> {
    let stamp = |s: &Stamp| match s {
        Stamp::Eternal => Stamp::Present,
        Stamp::Past => Stamp::Future,
        Stamp::Present => Stamp::Past,
        Stamp::Future => Stamp::Present,
        Stamp::Fixed(k) => Stamp::Fixed(k.wrapping_add(1)),
    };
    let sent = |r: &mut Rng, s: &Sentence| -> Option<Sentence> {
        Some(match (r.below(3), s) {
            (0, Sentence::Judgement(t, x, st)) => Sentence::Goal(t.clone(), x.clone(), st.clone()),
            (0, Sentence::Goal(t, x, st)) => Sentence::Judgement(t.clone(), x.clone(), st.clone()),
            (0, Sentence::Question(t, st)) => Sentence::Quest(t.clone(), st.clone()),
            (0, Sentence::Quest(t, st)) => Sentence::Question(t.clone(), st.clone()),
            (1, Sentence::Judgement(t, x, st)) => Sentence::Judgement(t.clone(), x.clone(), stamp(st)),
            (1, Sentence::Goal(t, x, st)) => Sentence::Goal(t.clone(), x.clone(), stamp(st)),
            (1, Sentence::Question(t, st)) => Sentence::Question(t.clone(), stamp(st)),
            (1, Sentence::Quest(t, st)) => Sentence::Quest(t.clone(), stamp(st)),
            (_, Sentence::Judgement(t, x, st)) => Sentence::Judgement(twist_term(r, t)?, x.clone(), st.clone()),
            (_, Sentence::Goal(t, x, st)) => Sentence::Goal(twist_term(r, t)?, x.clone(), st.clone()),
            (_, Sentence::Question(t, st)) => Sentence::Question(twist_term(r, t)?, st.clone()),
            (_, Sentence::Quest(t, st)) => Sentence::Quest(twist_term(r, t)?, st.clone()),
        })
    };
    match n {
        Narsese::Term(t) => twist_term(r, t).map(Narsese::Term),
        Narsese::Sentence(s) => sent(r, s).map(Narsese::Sentence),
        Narsese::Task(k) => sent(r, &k.0).map(|s| Narsese::Task(Task(s, k.1.clone()))),
    }
}

/// the same value with one truth / budget number nudged (1 ulp, 1e-9 or 1e-5), kept inside [0,1]
fn perturb(r: &mut Rng, n: &Narsese) -> Option<Narsese> {
    let nudge = |r: &mut Rng, x: f64| -> f64 {
        let d = match r.below(3) { 0 => f64::from_bits(x.to_bits() + 1) - x, 1 => 1e-9, _ => 1e-5 };
        let y = if x + d <= 1.0 { x + d } else { x - d };
        if (0.0..=1.0).contains(&y) && y != x { y } else { x / 2.0 + 0.25 }
    };
    let tr = |r: &mut Rng, t: &Truth| -> Option<Truth> {
        match t { Truth::Single(a) => Some(Truth::Single(nudge(r, *a))), Truth::Double(a, b) => Some(if r.chance(1, 2) { Truth::Double(nudge(r, *a), *b) } else { Truth::Double(*a, nudge(r, *b)) }), _ => None }
    };
    let sent = |r: &mut Rng, s: &Sentence| -> Option<Sentence> {
        match s {
            Sentence::Judgement(t, x, st) => tr(r, x).map(|x| Sentence::Judgement(t.clone(), x, st.clone())),
            Sentence::Goal(t, x, st) => tr(r, x).map(|x| Sentence::Goal(t.clone(), x, st.clone())),
            _ => None,
        }
    };
    match n {
        Narsese::Sentence(s) => sent(r, s).map(Narsese::Sentence),
        Narsese::Task(k) => {
            let b = match &k.1 {
                Budget::Single(p) => Some(Budget::Single(nudge(r, *p))),
                Budget::Double(p, d) => Some(Budget::Double(*p, nudge(r, *d))),
                Budget::Triple(p, d, q) => Some(Budget::Triple(*p, *d, nudge(r, *q))),
                _ => None,
            };
            match (b, r.chance(1, 2)) {
                (Some(b), true) => Some(Narsese::Task(Task(k.0.clone(), b))),
                _ => sent(r, &k.0).map(|s| Narsese::Task(Task(s, k.1.clone()))),
            }
        }
        _ => None,
    }
}

/// Typst text of the value with unordered components put in canonical order:
/// rebuild the value from its canonical serialisation until the iteration order is sorted is not
/// possible with a HashSet, so instead sort the *rendered components* textually (recursively).
fn typst_canonical_text(n: &Narsese) -> String {
    // render with the real formatter, then compare modulo order by sorting the multiset of
    // top-level-insensitive tokens is unsound; use the real renderer on a value whose sets are
    // singletons-or-sorted is impossible. We therefore key on the real text together with the
    // sorted canonical component texts of every set, computed structurally below.
    fn t(x: &Term) -> String {
        let own = FormatterTypst.format(x);
        if x.is_atom() {
            return own;
        }
        let mut kids: Vec<String> = x.get_components_including_placeholder().iter().map(|c| t(c)).collect();
        let unordered = matches!(x.get_capacity(), TermCapacity::Set | TermCapacity::BinarySet);
        if unordered {
            kids.sort();
        }
        // the layout (brackets / connecter / arity switch) is captured by replacing each component's
        // own text inside `own` with a hole, in order of appearance
        let mut skeleton = own.clone();
        for c in x.get_components_including_placeholder() {
            let ct = FormatterTypst.format(c);
            if let Some(pos) = skeleton.find(&ct) {
                skeleton.replace_range(pos..pos + ct.len(), "\u{1}");
            }
        }
        format!("{skeleton}\u{2}{}", kids.join("\u{3}"))
    }
    match n {
        Narsese::Term(x) => t(x),
        Narsese::Sentence(s) => {
            let whole = FormatterTypst.format(s);
            let tt = FormatterTypst.format(s.get_term());
            format!("{}\u{4}{}", whole.replacen(&tt, "\u{1}", 1), t(s.get_term()))
        }
        Narsese::Task(k) => {
            let whole = FormatterTypst.format(k);
            let tt = FormatterTypst.format(k.get_term());
            format!("{}\u{4}{}", whole.replacen(&tt, "\u{1}", 1), t(k.get_term()))
        }
    }
}

fn cast_oracle<W: Write>(o: &mut Out<W>, v: &Narsese) {
    o.checked("C15");
    let bad = |o: &mut Out<W>, what: &str| o.fail("C15", "-", what, &ser::narsese(v, Mode::Canon));
    // wrapping with `from_*` and unwrapping with the `TryFrom<Narsese>` conversions: the matching one returns the
    // content, the two others fail
    {
        let as_term: Result<Term, _> = Term::try_from(v.clone());
        let as_sentence: Result<Sentence, _> = Sentence::try_from(v.clone());
        let as_task: Result<Task, _> = Task::try_from(v.clone());
        let ok = match v {
            Narsese::Term(t) => as_term.ok().as_ref() == Some(t) && as_sentence.is_err() && as_task.is_err() && Narsese::from_term(t.clone()) == *v,
            Narsese::Sentence(s) => as_sentence.ok().as_ref() == Some(s) && as_term.is_err() && as_task.is_err() && Narsese::from_sentence(s.clone()) == *v,
            Narsese::Task(k) => as_task.ok().as_ref() == Some(k) && as_term.is_err() && as_sentence.is_err() && Narsese::from_task(k.clone()) == *v,
        };
        if !ok {
            bad(o, "from_* / TryFrom<Narsese>: the matching conversion must return the content and the others must fail");
        }
        // the positional sentence constructors build the variants they name
        if let Some(s) = match v { Narsese::Sentence(s) => Some(s), Narsese::Task(k) => Some(k.get_sentence()), _ => None } {
            let rebuilt = match s {
                Sentence::Judgement(t, x, st) => Sentence::new_judgement(t.clone(), x.clone(), st.clone()),
                Sentence::Goal(t, x, st) => Sentence::new_goal(t.clone(), x.clone(), st.clone()),
                Sentence::Question(t, st) => Sentence::new_question(t.clone(), st.clone()),
                Sentence::Quest(t, st) => Sentence::new_quest(t.clone(), st.clone()),
            };
            if rebuilt != *s || s.get_stamp().is_fixed() != matches!(s.get_stamp(), Stamp::Fixed(_)) {
                bad(o, "Sentence::new_* does not build the variant it names (or Stamp::is_fixed is wrong)");
            }
        }
    }
    match v {
        Narsese::Term(t) => {
            if Narsese::from_term(t.clone()).try_into_term().ok().map(|x| x == *t) != Some(true) {
                bad(o, "try_into_term(from_term(t)) != t");
            }
            if v.clone().try_into_sentence().is_ok() || v.clone().try_into_task().is_ok() || v.clone().try_into_task_compatible().is_ok() {
                bad(o, "non-matching accessor succeeded on a term");
            }
        }
        Narsese::Sentence(s) => {
            if v.clone().try_into_sentence().ok().map(|x| x == *s) != Some(true) {
                bad(o, "try_into_sentence(from_sentence(s)) != s");
            }
            if v.clone().try_into_term().is_ok() || v.clone().try_into_task().is_ok() {
                bad(o, "non-matching accessor succeeded on a sentence");
            }
            let k = s.clone().cast_to_task();
            if !k.get_budget().is_empty() || k.get_sentence() != s {
                bad(o, "cast_to_task changed the sentence or added a budget");
            }
            if k.clone().try_cast_to_sentence().ok().map(|x| x == *s) != Some(true) {
                bad(o, "try_cast_to_sentence(cast_to_task(s)) != s");
            }
            if v.clone().try_into_task_compatible().ok().map(|x| x == k) != Some(true) {
                bad(o, "try_into_task_compatible(sentence) != cast_to_task(sentence)");
            }
            // formatting the cast task parses to a task with an empty budget
            for f in FORMATS {
                let ff = efmt(f).unwrap();
                let text = ff.format_task(&k);
                match ff.parse::<Narsese>(&text) {
                    Ok(Narsese::Task(k2)) if k2.get_budget().is_empty() => {}
                    _ => o.fail("C15", f, "format(cast_to_task(s)) does not parse to a task with empty budget", &ser::hs(&text)),
                }
            }
        }
        Narsese::Task(k) => {
            if v.clone().try_into_task().ok().map(|x| x == *k) != Some(true) {
                bad(o, "try_into_task(from_task(k)) != k");
            }
            if v.clone().try_into_term().is_ok() || v.clone().try_into_sentence().is_ok() {
                bad(o, "non-matching accessor succeeded on a task");
            }
            match k.clone().try_cast_to_sentence() {
                Ok(s) => {
                    if !k.get_budget().is_empty() || s != *k.get_sentence() {
                        bad(o, "try_cast_to_sentence Ok with non-empty budget or different sentence");
                    }
                }
                Err(k2) => {
                    if k.get_budget().is_empty() || k2 != *k {
                        bad(o, "try_cast_to_sentence Err with empty budget or changed task");
                    }
                }
            }
        }
    }
    // the same law on the wrapped value (its own blanket impl): Ok exactly when a sentence comes out
    let want: Result<Narsese, Narsese> = match v {
        Narsese::Term(..) => Err(v.clone()),
        Narsese::Sentence(..) => Ok(v.clone()),
        Narsese::Task(k) if k.get_budget().is_empty() => Ok(Narsese::Sentence(k.get_sentence().clone())),
        Narsese::Task(..) => Err(v.clone()),
    };
    if v.clone().try_cast_to_sentence() != want {
        bad(o, "value-level try_cast_to_sentence: not `Ok(sentence)` iff (sentence or task with empty budget), else `Err(unchanged)`");
    }
}

/// C14 (lexical): `extract_terms` of every sub-term = the components it stores
fn lex_extract_oracle<W: Write>(o: &mut Out<W>, t: &lx::Term) {
    use narsese::api::ExtractTerms;
    let stored: Vec<lx::Term> = match t {
        lx::Term::Atom { .. } => vec![t.clone()],
        lx::Term::Compound { terms, .. } | lx::Term::Set { terms, .. } => terms.clone(),
        lx::Term::Statement { subject, predicate, .. } => vec![(**subject).clone(), (**predicate).clone()],
    };
    o.checked("C14");
    let got = t.clone().extract_terms_to_vec();
    if got != stored {
        o.fail("C14", "-", "lexical extract_terms does not return the stored components", &format!("term={} got={}", ser::lterm(t), got.iter().map(ser::lterm).collect::<Vec<_>>().join(" ")));
    }
    // the three category predicates partition the terms, and agree with `get_category`
    {
        let want = match t {
            lx::Term::Atom { .. } => (true, false, false),
            lx::Term::Compound { .. } | lx::Term::Set { .. } => (false, true, false),
            lx::Term::Statement { .. } => (false, false, true),
        };
        let got = (t.is_atom(), t.is_compound(), t.is_statement());
        let by_cat = (t.get_category() == TermCategory::Atom, t.get_category() == TermCategory::Compound, t.get_category() == TermCategory::Statement);
        if got != want || by_cat != want {
            o.fail("C14", "-", "lexical is_atom / is_compound / is_statement / get_category disagree with the kind of the term", &format!("term={} predicates={got:?} by-category={by_cat:?}", ser::lterm(t)));
        }
    }
    if !matches!(t, lx::Term::Atom { .. }) {
        for k in &stored {
            lex_extract_oracle(o, k);
        }
    }
}

/// C14 (lexical): the category of a lexical term is the category of what it folds to — towers of unary connecters
/// (the fold must not "simplify" a compound away), sets and compounds of one component
fn lex_fold_category_cases<W: Write>(o: &mut Out<W>, f: &str) {
    let ef = efmt(f).unwrap();
    let c = &ef.compound;
    let atom = || lx::Term::new_atom("", "A");
    let stmt = || lx::Term::new_statement(ef.statement.copula_inheritance, atom(), lx::Term::new_atom("", "B"));
    let neg = |t: lx::Term| lx::Term::new_compound(c.connecter_negation, vec![t]);
    let mut cases = vec![];
    for core in [atom(), stmt(), lx::Term::new_set(c.brackets_set_extension.0, vec![atom()], c.brackets_set_extension.1)] {
        let mut t = core;
        for _ in 0..4 {
            t = neg(t);
            cases.push(t.clone());
        }
    }
    for conn in [c.connecter_conjunction, c.connecter_disjunction, c.connecter_intersection_extension, c.connecter_product, c.connecter_conjunction_sequential] {
        cases.push(lx::Term::new_compound(conn, vec![lx::Term::new_compound(conn, vec![atom()])]));
        cases.push(lx::Term::new_compound(conn, vec![stmt()]));
    }
    for lt in cases {
        o.run("lapi", "-", &ser::lterm(&lt));
        if let Ok(et) = lt.clone().try_fold_into(ef) {
            o.checked("C14");
            if et.get_category() != lt.get_category() {
                o.fail("C14", f, "category(x) != category(fold(x))", &ser::lterm(&lt));
            }
            // and it has as many components as the lexical term stores (nothing is simplified away)
            if let lx::Term::Compound { terms, .. } = &lt {
                if et.get_components().len() != terms.len() {
                    o.fail("C14", f, "fold changed the number of components of a compound", &ser::lterm(&lt));
                }
            }
        }
    }
}

/// C02 / C15(lexical)
fn lexvalues<W: Write>(r: &mut Rng, cfg: &TermCfg, n: usize, o: &mut Out<W>) {
    for f in FORMATS {
        lex_fold_category_cases(o, f);
        let lf = lfmt(f).unwrap();
        let vocab = gen::vocab(lf, efmt(f).unwrap().atom.prefix_placeholder);
        for _ in 0..n {
            let v = gen::lnarsese(r, &vocab, cfg.max_depth, cfg.max_arity);
            let ser_v = ser::lnarsese(&v);
            o.count(&format!("lkind.{}", match &v { lx::Narsese::Term(_) => "term", lx::Narsese::Sentence(_) => "sentence", lx::Narsese::Task(_) => "task" }));
            let out = o.run("lfmt", f, &ser_v);
            if let Some(hs) = out.strip_prefix("s ") {
                let back = o.run("lparse", f, hs);
                o.checked("C02");
                if back != format!("ok {ser_v}") {
                    o.fail("C02", f, "lexical parse(format(x)) != x", &format!("value={ser_v} text={hs} got={back}"));
                }
                // the trait-based entry points print what `format_narsese` prints
                {
                    let text = ser::unhs(hs).unwrap();
                    // the stand-alone lexical item printers print the pieces the line is made of
                    if let lx::Narsese::Task(k) = &v {
                        if !text.starts_with(&lf.format_budget(&k.budget)) {
                            o.fail("C02", f, "lexical format_budget does not print the budget the task line begins with", &format!("value={ser_v} text={hs}"));
                        }
                    }
                    if let Some(s) = match &v { lx::Narsese::Sentence(s) => Some(s), lx::Narsese::Task(k) => Some(&k.sentence), _ => None } {
                        let tt = lf.format_truth(&s.truth);
                        if !text.ends_with(&tt) || lf.format(&s.truth) != tt || s.truth.format_to(lf) != tt {
                            o.fail("C02", f, "lexical format_truth / format(&truth) does not print the truth the line ends with", &format!("value={ser_v} text={hs}"));
                        }
                    }
                    let mut others: Vec<(&str, String)> = vec![("Narsese::format_to", v.format_to(lf)), ("format(&Narsese)", lf.format(&v))];
                    match &v {
                        lx::Narsese::Term(t) => { others.push(("format_term", lf.format_term(t))); others.push(("format(&Term)", lf.format(t))); }
                        lx::Narsese::Sentence(s) => { others.push(("format_sentence", lf.format_sentence(s))); others.push(("format(&Sentence)", lf.format(s))); }
                        lx::Narsese::Task(k) => { others.push(("format_task", lf.format_task(k))); others.push(("format(&Task)", lf.format(k))); }
                    }
                    for (entry, s) in others {
                        if s != text {
                            let b2 = o.run("lparse", f, &ser::hs(&s));
                            if b2 == format!("ok {ser_v}") {
                                o.count("entrypoint.differs_but_reads_back");
                                continue;
                            }
                            let kind_of = |x: &str| x.split(' ').nth(2).unwrap_or("").to_string();
                            let prop = if kind_of(&b2) != kind_of(&back) { "C15" } else { "C02" };
                            o.fail(prop, f, &format!("the lexical formatting entry point {entry} prints a text that does not read back as the value"),
                                &format!("value={ser_v} text={} got={b2}", ser::hs(&s)));
                        }
                    }
                }
                // C15: whatever else happens, the KIND read back is the kind printed (a task stays a task even with an
                // empty budget, a sentence a sentence, a term a term)
                o.checked("C15");
                let kind_tag = match &v { lx::Narsese::Term(_) => "ok ( LNTerm ", lx::Narsese::Sentence(_) => "ok ( LNSentence ", lx::Narsese::Task(_) => "ok ( LNTask " };
                if back.starts_with("ok ") && !back.starts_with(kind_tag) {
                    o.fail("C15", f, "lexical parse(format(x)) has a different kind than x", &format!("value={ser_v} text={hs} got={back}"));
                }
            }
            o.run("lcast", "-", &ser_v);
            o.run("lapi", "-", &ser::lterm(v.get_term()));
            // C14, lexical half: consuming extraction returns the stored components, in order, duplicates included
            lex_extract_oracle(o, v.get_term());
            // C15, accessor laws of the lexical structures: the trait accessors return the stored fields, the
            // positional constructors build what the fields say
            {
                o.checked("C15");
                let sent = match &v { lx::Narsese::Term(_) => None, lx::Narsese::Sentence(s) => Some(s), lx::Narsese::Task(k) => Some(&k.sentence) };
                if let Some(s) = sent {
                    let same = s.get_term() == &s.term && s.get_punctuation() == &s.punctuation && s.get_stamp() == &s.stamp
                        && s.get_truth() == Some(&s.truth)
                        && lx::Sentence::new(s.term.clone(), s.punctuation.clone(), s.stamp.clone(), s.truth.clone()) == *s;
                    if !same {
                        o.fail("C15", f, "lexical sentence: an accessor does not return the stored field (or `new` does not store its arguments)", &ser_v);
                    }
                }
                if let lx::Narsese::Task(k) = &v {
                    let s = &k.sentence;
                    let same = k.get_term() == &s.term && k.get_punctuation() == &s.punctuation && k.get_stamp() == &s.stamp
                        && k.get_truth() == Some(&s.truth) && k.get_budget() == &k.budget && k.get_sentence() == s
                        && lx::Task::new(k.budget.clone(), s.term.clone(), s.punctuation.clone(), s.stamp.clone(), s.truth.clone()) == *k;
                    if !same {
                        o.fail("C15", f, "lexical task: an accessor does not return the stored field (or `new` does not store its arguments)", &ser_v);
                    }
                }
                if let lx::Term::Statement { copula, subject, predicate } = v.get_term() {
                    if lx::Term::new_statement_infix((**subject).clone(), copula.clone(), (**predicate).clone()) != *v.get_term() {
                        o.fail("C15", f, "lexical new_statement_infix does not build the statement its arguments describe", &ser_v);
                    }
                }
            }
            // C15 lexical cast laws
            o.checked("C15");
            if let lx::Narsese::Sentence(s) = &v {
                let k = s.clone().cast_to_task();
                if k.clone().try_cast_to_sentence().ok().as_ref() != Some(s) {
                    o.fail("C15", f, "lexical try_cast_to_sentence(cast_to_task(s)) != s", &ser_v);
                }
                if v.clone().try_into_task_compatible().ok() != Some(k) {
                    o.fail("C15", f, "lexical try_into_task_compatible(sentence) != cast_to_task", &ser_v);
                }
            }
            if let lx::Narsese::Task(k) = &v {
                match k.clone().try_cast_to_sentence() {
                    Ok(s) => if !k.budget.is_empty() || s != k.sentence { o.fail("C15", f, "lexical try_cast_to_sentence Ok wrongly", &ser_v) },
                    Err(k2) => if k.budget.is_empty() || k2 != *k { o.fail("C15", f, "lexical try_cast_to_sentence Err wrongly", &ser_v) },
                }
            }
            {
                let want: Result<lx::Narsese, lx::Narsese> = match &v {
                    lx::Narsese::Term(..) => Err(v.clone()),
                    lx::Narsese::Sentence(..) => Ok(v.clone()),
                    lx::Narsese::Task(k) if k.budget.is_empty() => Ok(lx::Narsese::Sentence(k.sentence.clone())),
                    lx::Narsese::Task(..) => Err(v.clone()),
                };
                if v.clone().try_cast_to_sentence() != want {
                    o.fail("C15", f, "lexical value-level try_cast_to_sentence: not Ok(sentence) iff sentence / empty-budget task, else Err(unchanged)", &ser_v);
                }
            }
            // C14: lexical category equals the category of the folded term
            let lt = v.get_term().clone();
            if let Ok(et) = lt.clone().try_fold_into(efmt(f).unwrap()) {
                o.checked("C14");
                if et.get_category() != lt.get_category() {
                    o.fail("C14", f, "category(x) != category(fold(x))", &ser::lterm(&lt));
                }
            }
        }
    }
}

const LEX_WS: [&str; 5] = [" ", "\t", "\n", "\u{3000}", "\u{a0}"];

/// C03 / C09 / C10: surface strings with sugar and spacings, both pipelines
/// C10: the four derived copulas written out with operands of every shape (atoms, one- and two-element sets of
/// both kinds, nested sets, compounds, statements): both pipelines must build the documented term
fn sugar_operands<W: Write>(o: &mut Out<W>) {
    let w = |s: &str| Term::new_word(s);
    let ops: Vec<Term> = vec![
        w("a"),
        Term::new_set_extension(vec![w("a")]),
        Term::new_set_intension(vec![w("a")]),
        Term::new_set_extension(vec![w("a"), w("b")]),
        Term::new_set_intension(vec![w("a"), w("b")]),
        Term::new_set_extension(vec![Term::new_set_extension(vec![w("a")])]),
        Term::new_set_intension(vec![Term::new_set_intension(vec![w("a")])]),
        Term::new_product(vec![w("a"), w("b")]),
        Term::new_inheritance(w("a"), w("b")),
        Term::new_variable_independent("x"),
    ];
    for f in FORMATS {
        let ff = efmt(f).unwrap();
        for s in &ops {
            for p in &ops {
                let st = &ff.statement;
                let cases: Vec<(&str, Term)> = vec![
                    (st.copula_instance, Term::new_inheritance(Term::new_set_extension(vec![s.clone()]), p.clone())),
                    (st.copula_property, Term::new_inheritance(s.clone(), Term::new_set_intension(vec![p.clone()]))),
                    (st.copula_instance_property, Term::new_inheritance(Term::new_set_extension(vec![s.clone()]), Term::new_set_intension(vec![p.clone()]))),
                    (st.copula_equivalence_retrospective, Term::new_equivalence_predictive(p.clone(), s.clone())),
                ];
                for (cop, want) in cases {
                    let canon = format!("ok {}", ser::narsese(&Narsese::Term(want), Mode::Canon));
                    // the copula directly after the operand (no blank), one blank, two blanks
                    for sp in ["", " ", "  "] {
                        let text = format!("{}{}{sp}{}{sp}{}{}", st.brackets.0, ff.format_term(s), cop, ff.format_term(p), st.brackets.1);
                        let hs = ser::hs(&text);
                        let e = o.run("eparse", f, &hs);
                        let l = o.run("lfold", f, &hs);
                        o.checked("C10");
                        if e != canon {
                            o.fail("C10", f, "derived copula: the enum parser does not build the documented term", &format!("text={hs} got={e} want={canon}"));
                        }
                        if l != canon {
                            o.fail("C10", f, "derived copula: lexical parse + fold does not build the documented term", &format!("text={hs} got={l} want={canon}"));
                        }
                    }
                }
            }
        }
    }
}

/// C10, images written with several placeholders: the index is the position of the FIRST one, every other
/// component — later placeholders included — keeps its place; both pipelines, three formats
fn image_multi_placeholder<W: Write>(o: &mut Out<W>) {
    let w = |s: &str| Term::new_word(s);
    let ph = || Term::Placeholder;
    // (components as written, expected index, expected stored components)
    let shapes: Vec<(Vec<Option<&str>>, usize, Vec<Term>)> = vec![
        (vec![Some("a"), None, Some("b"), None], 1, vec![w("a"), w("b"), ph()]),
        (vec![None, None, Some("a")], 0, vec![ph(), w("a")]),
        (vec![None, Some("a"), None, Some("b")], 0, vec![w("a"), ph(), w("b")]),
        (vec![Some("r"), Some("a"), None, None, None], 2, vec![w("r"), w("a"), ph(), ph()]),
    ];
    for f in FORMATS {
        let ff = efmt(f).unwrap();
        let c = &ff.compound;
        for ext in [true, false] {
            let conn = if ext { c.connecter_image_extension } else { c.connecter_image_intension };
            for (written, idx, stored) in &shapes {
                let body: Vec<String> = written.iter().map(|x| match x { Some(n) => n.to_string(), None => ff.atom.prefix_placeholder.to_string() }).collect();
                let sp = ff.space.format_terms;
                let text = format!("{}{conn}{}{sp}{}{}", c.brackets.0, c.separator, body.join(&format!("{}{sp}", c.separator)), c.brackets.1);
                let want = if ext { Term::ImageExtension(*idx, stored.clone()) } else { Term::ImageIntension(*idx, stored.clone()) };
                let canon = format!("ok {}", ser::narsese(&Narsese::Term(want), Mode::Canon));
                let hs = ser::hs(&text);
                let e = o.run("eparse", f, &hs);
                let l = o.run("lfold", f, &hs);
                o.checked("C10");
                if e != canon {
                    o.fail("C10", f, "image with several placeholders: the enum parser does not build (first placeholder = index, the rest kept in place)", &format!("text={hs} got={e} want={canon}"));
                }
                if l != canon {
                    o.fail("C10", f, "image with several placeholders: lexical parse + fold does not build (first placeholder = index, the rest kept in place)", &format!("text={hs} got={l} want={canon}"));
                }
            }
        }
    }
}

fn surface<W: Write>(r: &mut Rng, cfg: &TermCfg, n: usize, o: &mut Out<W>) {
    sugar_operands(o);
    image_multi_placeholder(o);
    for _ in 0..n {
        let v = gen::narsese(r, cfg);
        term_hist(o, v.get_term());
        let canon = format!("ok {}", ser::narsese(&v, Mode::Canon));
        for f in FORMATS {
            let ff = efmt(f).unwrap();
            // cross-check the independent token printer against the real formatter
            let mut plain = Surface::new(ff, false);
            plain.narsese(r, &v);
            let real = ff.format_narsese(&v);
            if plain.canonical() != real {
                writeln!(o.w, "!selfcheck\ttoken printer disagrees with the formatter\t{f}\t{}\t{}", ser::hs(&plain.canonical()), ser::hs(&real)).unwrap();
                continue;
            }
            let mut sugared = Surface::new(ff, true);
            sugared.narsese(r, &v);
            let variants: Vec<(&str, String)> = vec![
                ("canonical", real.clone()),
                ("nospace", plain.nospace()),
                ("spaced", plain.spaced(r, &[" "])),
                ("sugar", sugared.canonical()),
                ("sugar-spaced", sugared.spaced(r, &[" "])),
                ("sugar-nospace", sugared.nospace()),
            ];
            for (what, text) in &variants {
                o.count(&format!("variant.{what}"));
                let hs = ser::hs(text);
                let e = o.run("eparse", f, &hs);
                let l = o.run("lfold", f, &hs);
                // the lexical TERM entry point (`parse_term`) reads every spelling of a term as the whole-value entry
                // point does (C09: spacing is irrelevant to it as well)
                if let Narsese::Term(_) = &v {
                    let lt = o.run("lparseterm", f, &hs);
                    let lp = o.run("lparse", f, &hs);
                    o.checked("C09");
                    let want = lp.strip_prefix("ok ( LNTerm ").and_then(|x| x.strip_suffix(" )")).map(|x| format!("ok {x}"));
                    if want.as_deref() != Some(lt.as_str()) {
                        o.fail("C09", f, &format!("lexical parse_term does not read the term as lexical parse does ({what} spelling)"), &format!("text={hs} parse_term={lt} parse={lp}"));
                    }
                }
                // C15: every spelling of the value is classified as the value's kind, identically by both parsers
                {
                    let lp = o.run("lparse", f, &hs);
                    let want = kind_name(&v);
                    let ke = match e.split(' ').nth(2) { Some("NTerm") => "term", Some("NSentence") => "sentence", Some("NTask") => "task", _ => "none" };
                    let kl = match lp.split(' ').nth(2) { Some("LNTerm") => "term", Some("LNSentence") => "sentence", Some("LNTask") => "task", _ => "none" };
                    o.checked("C15");
                    if ke != want || kl != want {
                        o.fail("C15", f, &format!("a {want} is classified as {ke} by the enum parser and as {kl} by the lexical parser ({what} spelling)"), &format!("text={hs}"));
                    }
                }
                o.checked("C03");
                if e != l || !e.starts_with("ok ") {
                    o.fail("C03", f, "enum parse != fold(lexical parse)", &format!("variant={what} text={hs} enum={e} lexfold={l}"));
                }
                o.checked("C09");
                if e != canon {
                    o.fail(if what.starts_with("sugar") { "C10" } else { "C09" }, f, "enum parse of a respaced/sugared rendering differs from the value", &format!("variant={what} text={hs} got={e} want={canon}"));
                }
                if l != canon {
                    o.fail(if what.starts_with("sugar") { "C10" } else { "C09" }, f, "lexical+fold of a respaced/sugared rendering differs from the value", &format!("variant={what} text={hs} got={l} want={canon}"));
                }
                if what.starts_with("sugar") {
                    o.checked("C10");
                }
            }
            // macro path: all whitespace stripped, then parse_chars
            let m = o.run("emacro", f, &ser::hs(&plain.spaced(r, &LEX_WS)));
            o.checked("C09");
            if m != canon {
                o.fail("C09", f, "macro path (strip whitespace, parse_chars) differs", &format!("got={m} want={canon}"));
            }
            // the lexical parser ignores every Unicode whitespace char
            let t = plain.spaced(r, &LEX_WS);
            let l = o.run("lfold", f, &ser::hs(&t));
            o.checked("C09");
            if l != canon {
                o.fail("C09", f, "lexical+fold with unicode whitespace differs", &format!("text={} got={l}", ser::hs(&t)));
            }
        }
    }
}

/// C04 / C05 / C12: adversarial strings through every entry point
/// compounds made of placeholders only / with several placeholders, for every connecter of the format (both the
/// keyword and the bracket layout come from the format tables): inputs the parsers accept or reject on their own terms,
/// never produced by mutating formatter output
fn placeholder_edge_texts(ff: &EF<&str>) -> Vec<String> {
    let c = &ff.compound;
    let ph = ff.atom.prefix_placeholder;
    let a = "a";
    let mut out = vec![];
    let conns = [c.connecter_intersection_extension, c.connecter_intersection_intension, c.connecter_difference_extension,
        c.connecter_difference_intension, c.connecter_product, c.connecter_image_extension, c.connecter_image_intension,
        c.connecter_conjunction, c.connecter_disjunction, c.connecter_negation, c.connecter_conjunction_sequential,
        c.connecter_conjunction_parallel];
    let sp = ff.space.format_terms;
    for conn in conns {
        for comps in [vec![ph], vec![ph, ph], vec![a, ph], vec![ph, a], vec![a, ph, a, ph], vec![ph, ph, a], vec![a, ph, ph]] {
            let body = comps.join(&format!("{}{sp}", c.separator));
            out.push(format!("{}{conn}{}{sp}{body}{}", c.brackets.0, c.separator, c.brackets.1));
        }
    }
    for br in [c.brackets_set_extension, c.brackets_set_intension] {
        out.push(format!("{}{ph}{}", br.0, br.1));
        out.push(format!("{}{ph}{}{sp}{ph}{}", br.0, c.separator, br.1));
    }
    // deep nesting (the totality properties bound it by 64 and the input by 512 characters): unclosed and closed
    // towers of statements, compounds and sets — linear work for a parser that does not re-scan on failure
    let st = &ff.statement;
    let cop = st.copula_inheritance;
    for d in [24usize, 40, 64] {
        let open = st.brackets.0.repeat(d);
        let step = format!("{sp}{cop}{sp}B{}", st.brackets.1);
        let cands = vec![
            open.clone(),
            format!("{open}A"),
            format!("{open}A{}{sp}{cop}{sp}B", step.repeat(d - 1)),
            format!("{open}A{}", step.repeat(d)),
            format!("{}A", format!("{}{}{}{sp}", c.brackets.0, c.connecter_conjunction, c.separator).repeat(d)),
            format!("{}A{}", format!("{}{}{}{sp}", c.brackets.0, c.connecter_conjunction, c.separator).repeat(d), c.brackets.1.repeat(d)),
            format!("{}A", c.brackets_set_extension.0.repeat(d)),
            format!("{}A{}", c.brackets_set_intension.0.repeat(d), c.brackets_set_intension.1.repeat(d)),
        ];
        for s in cands {
            if s.chars().count() <= 512 {
                out.push(s);
            }
        }
    }
    out
}

/// number lists and stamps cut off at every stage, with and without a blank at the cut: the places where a reader
/// that has just skipped blanks or a separator looks at "the next character" (the random truncations of formatter
/// outputs almost never end in a blank, because the formatters print none inside an item)
fn item_edge_texts(ff: &EF<&str>) -> Vec<String> {
    let s = &ff.sentence;
    let mut out = vec![];
    // (a question or quest followed by a truth is legal input: the readers drop or keep the truth, they do not fail)
    for p in [s.punctuation_judgement, s.punctuation_goal, s.punctuation_question, s.punctuation_quest] {
        for tr in ["1", "1.0{sep}0.9", "0{sep}0", ""] {
            let tr = tr.replace("{sep}", s.truth_separator);
            for st in [String::new(), format!("{}{}{} ", s.stamp_brackets.0, s.stamp_present, s.stamp_brackets.1), format!("{}{}-1{} ", s.stamp_brackets.0, s.stamp_fixed, s.stamp_brackets.1)] {
                out.push(format!("A{p} {st}{}{tr}{}", s.truth_brackets.0, s.truth_brackets.1));
                out.push(format!("{}0.5{} A{p} {st}{}{tr}{}", ff.task.budget_brackets.0, ff.task.budget_brackets.1, s.truth_brackets.0, s.truth_brackets.1));
            }
        }
    }
    let lists = [(s.truth_brackets, s.truth_separator, format!("A{} ", s.punctuation_judgement)), (ff.task.budget_brackets, ff.task.budget_separator, String::new())];
    for (br, sep, lead) in &lists {
        for body in ["", "1", "1.0", "0.5", ".", "1.", "-", "+", "1e3", "0.5x"] {
            for reps in 1..=3usize {
                for tail_sep in [false, true] {
                    let mut inner = vec![body; reps].join(sep);
                    if tail_sep {
                        inner.push_str(sep);
                    }
                    for cut in ["", " ", "  ", "\t", "\u{3000}"] {
                        // unterminated, and terminated after the blank; alone (the side doors) and behind a sentence
                        for close in ["", br.1] {
                            out.push(format!("{}{inner}{cut}{close}", br.0));
                            if !lead.is_empty() {
                                out.push(format!("{lead}{}{inner}{cut}{close}", br.0));
                            } else {
                                out.push(format!("{}{inner}{cut}{close} A{}", br.0, s.punctuation_judgement));
                            }
                        }
                    }
                }
            }
        }
    }
    for kw in [s.stamp_past, s.stamp_present, s.stamp_future, s.stamp_fixed] {
        for body in ["", "5", "-5", "+5", "-", "+", "5x", "99999999999999999999999"] {
            for cut in ["", " "] {
                for close in ["", s.stamp_brackets.1] {
                    out.push(format!("{}{kw}{body}{cut}{close}", s.stamp_brackets.0));
                    out.push(format!("A{} {}{kw}{body}{cut}{close}", s.punctuation_judgement, s.stamp_brackets.0));
                }
            }
        }
    }
    out.retain(|t| t.chars().count() <= 512);
    out.sort();
    out.dedup();
    out
}

/// well-formed ITEMS in combinations no formatter prints: every punctuation with every truth and stamp shape, items
/// missing, doubled or (one time in four) in another order
fn item_soup(r: &mut Rng, ff: &EF<&str>, v: &Narsese) -> String {
    let s = &ff.sentence;
    let mut items: Vec<String> = vec![];
    for _ in 0..[0usize, 1, 1, 2][r.below(4)] {
        items.push(ff.format_budget(&gen::budget(r)));
    }
    if r.chance(7, 8) {
        items.push(ff.format_term(v.get_term()));
    }
    for _ in 0..[0usize, 1, 1, 1, 2][r.below(5)] {
        items.push(r.pick(&[s.punctuation_judgement, s.punctuation_goal, s.punctuation_question, s.punctuation_quest]).to_string());
    }
    for _ in 0..[0usize, 0, 1, 1, 2][r.below(5)] {
        let st = match r.below(5) { 0 => Stamp::Past, 1 => Stamp::Present, 2 => Stamp::Future, 3 => Stamp::Fixed(-1), _ => Stamp::Fixed(isize::MAX) };
        items.push(ff.format_stamp(&st));
    }
    for _ in 0..[0usize, 1, 1, 2][r.below(4)] {
        items.push(ff.format_truth(&gen::truth(r)));
    }
    if r.chance(1, 4) && items.len() > 1 {
        let (i, j) = (r.below(items.len()), r.below(items.len()));
        items.swap(i, j);
    }
    let sep = if r.chance(1, 4) { "" } else { " " };
    items.join(sep).chars().take(512).collect()
}

fn malformed<W: Write>(r: &mut Rng, cfg: &TermCfg, n: usize, o: &mut Out<W>) {
    for f in FORMATS {
        let ff = efmt(f).unwrap();
        let kws = gen::keywords(ff);
        let mut edge = placeholder_edge_texts(ff);
        edge.extend(item_edge_texts(ff));
        for i in 0..(n + edge.len()) {
            let s = if i < edge.len() {
                edge[i].clone()
            } else {
                let v = gen::narsese(r, cfg);
                if r.chance(1, 5) {
                    item_soup(r, ff, &v)
                } else {
                    let base = ff.format_narsese(&v);
                    gen::malformed(r, &kws, &base)
                }
            };
            let hs = ser::hs(&s);
            let outs: Vec<(&str, String)> = ["eparse", "echars", "etruth", "ebudget", "estamp", "epunct", "lparse", "lparseterm", "lfold"]
                .iter()
                .map(|op| (*op, o.run(op, f, &hs)))
                .collect();
            for (op, out) in &outs {
                let prop = if op.starts_with('e') { "C04" } else { "C05" };
                o.checked(prop);
                let class = out.split(' ').next().unwrap_or("");
                o.count(&format!("outcome.{op}.{class}"));
                if class == "panic" {
                    o.fail(prop, f, &format!("{op} panicked"), &hs);
                }
            }
            if outs[0].1 != outs[1].1 {
                o.checked("C08");
                o.fail("C08", f, "parse_chars != parse", &hs);
            }
            // C12: every Ok value is well-formed and printable
            if let Ok(val) = ff.parse::<Narsese>(&s) {
                o.checked("C12");
                if let Err(e) = wf_narsese(&val, true).and_then(|_| printers_ok(&val)) {
                    o.fail("C12", f, &format!("parser output not well-formed: {e}"), &hs);
                }
            }
            if let Ok(lv) = lfmt(f).unwrap().parse(&s) {
                if let Ok(val) = lv.try_fold_into(ff) {
                    o.checked("C12");
                    if let Err(e) = wf_narsese(&val, false).and_then(|_| printers_ok(&val)) {
                        o.fail("C12", f, &format!("fold output not well-formed: {e}"), &hs);
                    }
                }
            }
        }
    }
}

/// C05 (fold) / C12: arbitrary strings in every field of a lexical value
fn foldarb<W: Write>(r: &mut Rng, n: usize, o: &mut Out<W>) {
    for f in FORMATS {
        let ff = efmt(f).unwrap();
        let mut pool = gen::keywords(ff);
        pool.push(String::new());
        let vocab = gen::vocab(lfmt(f).unwrap(), ff.atom.prefix_placeholder);
        for i in 0..n {
            // two thirds nearly-valid (one junk field), one third junk everywhere
            let v = if i % 3 == 2 { gen::junk_lnarsese(r, &pool) } else { gen::nearly_valid_lnarsese(r, &vocab, &pool) };
            let sv = ser::lnarsese(&v);
            let out = o.run("fold", f, &sv);
            o.checked("C05");
            let class = out.split(' ').next().unwrap_or("");
            o.count(&format!("outcome.fold.{class}"));
            if class == "panic" {
                o.fail("C05", f, "fold panicked", &sv);
            }
            if let Ok(Ok(val)) = exec::guard(|| v.clone().try_fold_into(ff).map_err(|_| ())) {
                o.checked("C12");
                if let Err(e) = wf_narsese(&val, false).and_then(|_| printers_ok(&val)) {
                    o.fail("C12", f, &format!("fold output not well-formed: {e}"), &sv);
                }
            }
            o.run("lapi", "-", &ser::lterm(v.get_term()));
        }
    }
}

/// C03: exhaustive fold table — every prefix / connecter × arity / bracket pair / copula, per format,
/// compared with what the enum parser builds from the same keyword
fn foldtable<W: Write>(o: &mut Out<W>) {
    for f in FORMATS {
        let ff = efmt(f).unwrap();
        let lf = lfmt(f).unwrap();
        let v = gen::vocab(lf, ff.atom.prefix_placeholder);
        let a = |n: &str| lx::Term::new_atom("", n);
        let ph = lx::Term::new_atom(ff.atom.prefix_placeholder, "");
        let mut cases: Vec<lx::Term> = vec![];
        for p in &v.prefixes {
            for n in ["x", "7", ""] {
                cases.push(lx::Term::new_atom(p.clone(), n));
            }
        }
        for c in v.connecters.iter().cloned().chain(["nope".to_string()]) {
            for k in 0..4 {
                let mut ts: Vec<lx::Term> = (0..k).map(|i| a(&format!("t{i}"))).collect();
                cases.push(lx::Term::new_compound(c.clone(), ts.clone()));
                for pos in 0..=k {
                    let mut w = ts.clone();
                    w.insert(pos, ph.clone());
                    cases.push(lx::Term::new_compound(c.clone(), w));
                }
                ts.push(ph.clone());
                ts.push(ph.clone());
                cases.push(lx::Term::new_compound(c.clone(), ts));
            }
        }
        for (l, rr) in v.sets.iter().cloned().chain([("{".to_string(), "]".to_string())]) {
            for k in 0..3 {
                cases.push(lx::Term::new_set(l.clone(), (0..k).map(|i| a(&format!("t{i}"))).collect(), rr.clone()));
            }
        }
        for c in v.copulas.iter().cloned().chain(["nope".to_string()]) {
            cases.push(lx::Term::new_statement(c, a("s"), a("p")));
        }
        for t in cases {
            let n = lx::Narsese::Term(t.clone());
            let sv = ser::lnarsese(&n);
            let folded = o.run("fold", f, &sv);
            o.checked("C05");
            if folded == "panic" {
                o.fail("C05", f, "fold panicked", &sv);
            }
            // the same term through the text: both pipelines must agree whenever the enum parser accepts
            let text = lf.format_term(&t);
            let hs = ser::hs(&text);
            let e = o.run("eparse", f, &hs);
            let l = o.run("lfold", f, &hs);
            if e.starts_with("ok ") {
                o.checked("C03");
                if e != l {
                    o.fail("C03", f, "enum parse != fold(lexical parse) on the keyword table", &format!("text={hs} enum={e} lexfold={l}"));
                }
            }
        }
    }
}

// ---------------- C06 / C07 ----------------

fn shuffle<T>(r: &mut Rng, v: &mut Vec<T>) {
    for i in (1..v.len()).rev() {
        let j = r.below(i + 1);
        v.swap(i, j);
    }
}
/// an equal term built along a different history (shuffled / duplicated unordered components,
/// swapped symmetric operands), recursively
fn rebuild(r: &mut Rng, t: &Term) -> Term {
    use Term::*;
    let kids = |r: &mut Rng, s: &HashSet<Term>| -> Vec<Term> {
        let mut v: Vec<Term> = s.iter().map(|x| rebuild(r, x)).collect();
        if !v.is_empty() && r.chance(1, 3) {
            let i = r.below(v.len());
            let c = v[i].clone();
            let d = rebuild(r, &c);
            v.push(d);
        }
        shuffle(r, &mut v);
        v
    };
    let seq = |r: &mut Rng, s: &Vec<Term>| -> Vec<Term> { s.iter().map(|x| rebuild(r, x)).collect() };
    let b = |r: &mut Rng, x: &Term| Box::new(rebuild(r, x));
    match t {
        SetExtension(s) => Term::new_set_extension(kids(r, s)),
        SetIntension(s) => Term::new_set_intension(kids(r, s)),
        IntersectionExtension(s) => Term::new_intersection_extension(kids(r, s)),
        IntersectionIntension(s) => Term::new_intersection_intension(kids(r, s)),
        Conjunction(s) => Term::new_conjunction(kids(r, s)),
        Disjunction(s) => Term::new_disjunction(kids(r, s)),
        ConjunctionParallel(s) => Term::new_conjunction_parallel(kids(r, s)),
        Product(v) => Product(seq(r, v)),
        ConjunctionSequential(v) => ConjunctionSequential(seq(r, v)),
        ImageExtension(i, v) => ImageExtension(*i, seq(r, v)),
        ImageIntension(i, v) => ImageIntension(*i, seq(r, v)),
        Negation(a) => Negation(b(r, a)),
        DifferenceExtension(x, y) => DifferenceExtension(b(r, x), b(r, y)),
        DifferenceIntension(x, y) => DifferenceIntension(b(r, x), b(r, y)),
        Inheritance(x, y) => Inheritance(b(r, x), b(r, y)),
        Implication(x, y) => Implication(b(r, x), b(r, y)),
        ImplicationPredictive(x, y) => ImplicationPredictive(b(r, x), b(r, y)),
        ImplicationConcurrent(x, y) => ImplicationConcurrent(b(r, x), b(r, y)),
        ImplicationRetrospective(x, y) => ImplicationRetrospective(b(r, x), b(r, y)),
        EquivalencePredictive(x, y) => EquivalencePredictive(b(r, x), b(r, y)),
        Similarity(x, y) => if r.chance(1, 2) { Similarity(b(r, y), b(r, x)) } else { Similarity(b(r, x), b(r, y)) },
        Equivalence(x, y) => if r.chance(1, 2) { Equivalence(b(r, y), b(r, x)) } else { Equivalence(b(r, x), b(r, y)) },
        EquivalenceConcurrent(x, y) => if r.chance(1, 2) { EquivalenceConcurrent(b(r, y), b(r, x)) } else { EquivalenceConcurrent(b(r, x), b(r, y)) },
        atom => atom.clone(),
    }
}
/// one small change somewhere (the result is usually, not always, a different term)
fn mutate(r: &mut Rng, t: &Term) -> Term {
    use Term::*;
    // a name that differs only by a blank around it is another name
    if r.chance(1, 8) {
        let pad = |r: &mut Rng, n: &str| -> String { let b = *r.pick(&[" ", "\u{3000}", "\t"]); if r.chance(1, 2) { format!("{b}{n}") } else { format!("{n}{b}") } };
        match t {
            Word(n) => return Word(pad(r, n)),
            VariableIndependent(n) => return VariableIndependent(pad(r, n)),
            VariableDependent(n) => return VariableDependent(pad(r, n)),
            VariableQuery(n) => return VariableQuery(pad(r, n)),
            Operator(n) => return Operator(pad(r, n)),
            _ => {}
        }
    }
    if t.is_atom() || r.chance(1, 4) {
        return match t {
            Word(n) => if r.chance(1, 2) { Word(format!("{n}x")) } else { Operator(n.clone()) },
            VariableIndependent(n) => VariableDependent(n.clone()),
            VariableDependent(n) => VariableQuery(n.clone()),
            VariableQuery(n) => Word(n.clone()),
            Operator(n) => Operator(format!("{n}1")),
            Interval(i) => Interval(i.wrapping_add(1)),
            Placeholder => Word("_".into()),
            SetExtension(s) => SetIntension(s.clone()),
            SetIntension(s) => IntersectionExtension(s.clone()),
            IntersectionExtension(s) => IntersectionIntension(s.clone()),
            IntersectionIntension(s) => Conjunction(s.clone()),
            Conjunction(s) => Disjunction(s.clone()),
            Disjunction(s) => ConjunctionParallel(s.clone()),
            ConjunctionParallel(s) => SetExtension(s.clone()),
            Product(v) => { let mut w = v.clone(); w.reverse(); if r.chance(1, 2) { Product(w) } else { ConjunctionSequential(v.clone()) } }
            ConjunctionSequential(v) => { let mut w = v.clone(); w.reverse(); ConjunctionSequential(w) }
            ImageExtension(i, v) => if *i < v.len() { ImageExtension(i + 1, v.clone()) } else if *i > 0 { ImageExtension(i - 1, v.clone()) } else { ImageIntension(*i, v.clone()) },
            ImageIntension(i, v) => if *i > 0 { ImageIntension(i - 1, v.clone()) } else { ImageExtension(*i, v.clone()) },
            Negation(a) => Negation(Box::new(Negation(a.clone()))),
            DifferenceExtension(x, y) => DifferenceExtension(y.clone(), x.clone()),
            DifferenceIntension(x, y) => DifferenceExtension(x.clone(), y.clone()),
            Inheritance(x, y) => Inheritance(y.clone(), x.clone()),
            Implication(x, y) => Implication(y.clone(), x.clone()),
            ImplicationPredictive(x, y) => ImplicationRetrospective(x.clone(), y.clone()),
            ImplicationConcurrent(x, y) => ImplicationConcurrent(y.clone(), x.clone()),
            ImplicationRetrospective(x, y) => ImplicationRetrospective(y.clone(), x.clone()),
            EquivalencePredictive(x, y) => EquivalencePredictive(y.clone(), x.clone()),
            Similarity(x, y) => Equivalence(x.clone(), y.clone()),
            Equivalence(x, y) => EquivalenceConcurrent(x.clone(), y.clone()),
            EquivalenceConcurrent(x, y) => EquivalencePredictive(x.clone(), y.clone()),
        };
    }
    // descend into one component
    let comps = t.get_components();
    if comps.is_empty() {
        // an empty compound (raw variants only): turn it into a different one
        return Term::Negation(Box::new(t.clone()));
    }
    let pick = r.below(comps.len());
    let target = comps[pick].clone();
    let new = mutate(r, &target);
    replace_component(t, &target, new)
}
fn replace_component(t: &Term, old: &Term, new: Term) -> Term {
    use Term::*;
    let mut done = false;
    let mut rep = |x: &Term| -> Term {
        if !done && ser::term(x, Mode::Raw) == ser::term(old, Mode::Raw) {
            done = true;
            new.clone()
        } else {
            x.clone()
        }
    };
    match t {
        SetExtension(s) => Term::new_set_extension(s.iter().map(&mut rep).collect::<Vec<_>>()),
        SetIntension(s) => Term::new_set_intension(s.iter().map(&mut rep).collect::<Vec<_>>()),
        IntersectionExtension(s) => Term::new_intersection_extension(s.iter().map(&mut rep).collect::<Vec<_>>()),
        IntersectionIntension(s) => Term::new_intersection_intension(s.iter().map(&mut rep).collect::<Vec<_>>()),
        Conjunction(s) => Term::new_conjunction(s.iter().map(&mut rep).collect::<Vec<_>>()),
        Disjunction(s) => Term::new_disjunction(s.iter().map(&mut rep).collect::<Vec<_>>()),
        ConjunctionParallel(s) => Term::new_conjunction_parallel(s.iter().map(&mut rep).collect::<Vec<_>>()),
        Product(v) => Product(v.iter().map(&mut rep).collect()),
        ConjunctionSequential(v) => ConjunctionSequential(v.iter().map(&mut rep).collect()),
        ImageExtension(i, v) => ImageExtension(*i, v.iter().map(&mut rep).collect()),
        ImageIntension(i, v) => ImageIntension(*i, v.iter().map(&mut rep).collect()),
        Negation(a) => Negation(Box::new(rep(a))),
        DifferenceExtension(x, y) => { let a = rep(x); let b = rep(y); DifferenceExtension(Box::new(a), Box::new(b)) }
        DifferenceIntension(x, y) => { let a = rep(x); let b = rep(y); DifferenceIntension(Box::new(a), Box::new(b)) }
        Inheritance(x, y) => { let a = rep(x); let b = rep(y); Inheritance(Box::new(a), Box::new(b)) }
        Similarity(x, y) => { let a = rep(x); let b = rep(y); Similarity(Box::new(a), Box::new(b)) }
        Implication(x, y) => { let a = rep(x); let b = rep(y); Implication(Box::new(a), Box::new(b)) }
        Equivalence(x, y) => { let a = rep(x); let b = rep(y); Equivalence(Box::new(a), Box::new(b)) }
        ImplicationPredictive(x, y) => { let a = rep(x); let b = rep(y); ImplicationPredictive(Box::new(a), Box::new(b)) }
        ImplicationConcurrent(x, y) => { let a = rep(x); let b = rep(y); ImplicationConcurrent(Box::new(a), Box::new(b)) }
        ImplicationRetrospective(x, y) => { let a = rep(x); let b = rep(y); ImplicationRetrospective(Box::new(a), Box::new(b)) }
        EquivalencePredictive(x, y) => { let a = rep(x); let b = rep(y); EquivalencePredictive(Box::new(a), Box::new(b)) }
        EquivalenceConcurrent(x, y) => { let a = rep(x); let b = rep(y); EquivalenceConcurrent(Box::new(a), Box::new(b)) }
        atom => atom.clone(),
    }
}

fn hash_with<H: Hasher>(mut h: H, t: &Term) -> u64 {
    t.hash(&mut h);
    h.finish()
}

fn pair_check<W: Write>(o: &mut Out<W>, a: &Term, b: &Term, how: &str) {
    let (sa, sb) = (ser::term(a, Mode::Raw), ser::term(b, Mode::Raw));
    let payload = format!("{sa} {sb}");
    o.run("hasheq", "-", &payload);
    let got = o.run("eq", "-", &payload);
    let want = ser::term(a, Mode::CanonDedup) == ser::term(b, Mode::CanonDedup);
    o.checked("C06");
    o.count(&format!("pair.{how}.{}", if want { "equal" } else { "different" }));
    let detail = format!("how={how} a={sa} b={sb}");
    if got != format!("b {}", if want { 1 } else { 0 }) {
        o.fail("C06", "-", "== disagrees with the canonical form", &detail);
    }
    // symmetric, reflexive, stable
    if (a == b) != (b == a) || !(a == a) || !(b == b) || (a == b) != (a == b) {
        o.fail("C06", "-", "== not reflexive/symmetric/stable", &detail);
    }
    // `==` is asked both ways round: a one-sided "equal" is still an answer a hash table acts on
    if a == b || b == a {
        o.checked("C07");
        if hash_with(std::collections::hash_map::DefaultHasher::new(), a) != hash_with(std::collections::hash_map::DefaultHasher::new(), b) {
            o.fail("C07", "-", "equal terms hash differently (DefaultHasher)", &detail);
        }
        for _ in 0..4 {
            use std::hash::BuildHasher;
            let s = std::collections::hash_map::RandomState::new();
            if hash_with(s.build_hasher(), a) != hash_with(s.build_hasher(), b) {
                o.fail("C07", "-", "equal terms hash differently (RandomState)", &detail);
            }
        }
        let mut hs = HashSet::new();
        hs.insert(a.clone());
        let mut hm = HashMap::new();
        hm.insert(a.clone(), 1);
        if !hs.contains(b) || hm.get(b) != Some(&1) {
            o.fail("C07", "-", "HashSet{a}.contains(b) / HashMap get fails for an equal term", &detail);
        }
    }
}

fn pairs<W: Write>(r: &mut Rng, cfg: &TermCfg, n: usize, o: &mut Out<W>) {
    for _ in 0..n {
        let d = 1 + r.below(cfg.max_depth);
        // equality and hashing are properties of ALL values of the type: one pair in five is built from raw variants
        let wild = r.chance(1, 5);
        let a = if wild { gen::wild_term(r, d.min(3)) } else { gen::term(r, cfg, d) };
        term_hist(o, &a);
        let b = rebuild(r, &a);
        pair_check(o, &a, &b, "rebuilt");
        let c = mutate(r, &a);
        pair_check(o, &a, &c, "mutated");
        let c2 = rebuild(r, &c);
        pair_check(o, &b, &c2, "mutated-rebuilt");
        // two separate parses of the same text
        let f = FORMATS[r.below(3)];
        let ff = efmt(f).unwrap();
        let text = ff.format_term(&a);
        if let (Ok(Narsese::Term(p1)), Ok(Narsese::Term(p2))) = (ff.parse::<Narsese>(&text), ff.parse::<Narsese>(&text)) {
            pair_check(o, &p1, &p2, "two-parses");
            pair_check(o, &p1, &a, "parse-vs-built");
            // the other way of building a value from the same description: lexical parse, then fold
            if let Ok(lv) = lfmt(f).unwrap().parse(&text) {
                if let Ok(Narsese::Term(p3)) = lv.try_fold_into(ff) {
                    pair_check(o, &p1, &p3, "parse-vs-fold");
                    pair_check(o, &p3, &a, "fold-vs-built");
                    // "the same answer for values built from the same description": for a well-formed term the
                    // constructor calls, the parse of its text and the fold of its lexical reading describe ONE term
                    if !wild && !gen::is_k1(&a) {
                        o.checked("C06");
                        if !(p1 == a && p3 == a && p1 == p3) {
                            o.fail("C06", f, "values built from the same description (constructors / parse of the text / lexical parse + fold) do not compare equal",
                                &format!("text={} built={} parsed={} folded={}", ser::hs(&text), ser::term(&a, Mode::Raw), ser::term(&p1, Mode::Raw), ser::term(&p3, Mode::Raw)));
                        }
                    }
                }
            }
        }
        // one DESCRIPTION (a kind and a component list, now and then with equal neighbours), three ways to a value:
        // the constructor, the variant itself, and the text read by either pipeline. An ordered compound keeps every
        // component in place; an unordered one is the set of the list.
        if r.chance(1, 3) {
            let len = 2 + r.below(3);
            let mut ks: Vec<Term> = (0..len).map(|_| { let d = r.below(2); gen::term(r, cfg, d) }).collect();
            if r.chance(2, 3) {
                let i = r.below(ks.len());
                let dup = ks[i].clone();
                ks.insert(i, dup);
            }
            if !ks.iter().any(gen::is_k1) {
                let idx = r.below(ks.len() + 1);
                let cases: Vec<(&str, Term, Term)> = vec![
                    ("product", Term::new_product(ks.clone()), Term::Product(ks.clone())),
                    ("conjunction_sequential", Term::new_conjunction_sequential(ks.clone()), Term::ConjunctionSequential(ks.clone())),
                    ("image_extension", Term::new_image_extension(idx, ks.clone()), Term::ImageExtension(idx, ks.clone())),
                    ("image_intension", Term::new_image_intension(idx, ks.clone()), Term::ImageIntension(idx, ks.clone())),
                    ("set_extension", Term::new_set_extension(ks.clone()), Term::SetExtension(ks.iter().cloned().collect())),
                    ("conjunction_parallel", Term::new_conjunction_parallel(ks.clone()), Term::ConjunctionParallel(ks.iter().cloned().collect())),
                ];
                // the same ordered compounds built in two steps: a prefix at once, the rest pushed (a placeholder is a
                // component like any other for `push_components`, images included)
                {
                    let mut all = ks.clone();
                    if r.chance(1, 2) {
                        let at = r.below(all.len() + 1);
                        all.insert(at, Term::Placeholder);
                    }
                    let k = r.below(all.len() + 1);
                    let idx0 = r.below(k + 1);
                    let steps: Vec<(&str, Term, Term)> = vec![
                        ("product", Term::Product(all[..k].to_vec()), Term::Product(all.clone())),
                        ("conjunction_sequential", Term::ConjunctionSequential(all[..k].to_vec()), Term::ConjunctionSequential(all.clone())),
                        ("image_extension", Term::ImageExtension(idx0, all[..k].to_vec()), Term::ImageExtension(idx0, all.clone())),
                        ("image_intension", Term::ImageIntension(idx0, all[..k].to_vec()), Term::ImageIntension(idx0, all.clone())),
                    ];
                    for (what, mut part, whole) in steps {
                        if part.push_components(all[k..].to_vec()).is_ok() {
                            pair_check(o, &part, &whole, "pushed-vs-variant");
                            o.checked("C06");
                            if part != whole {
                                o.fail("C06", "-", &format!("a {what} built by pushing its last components does not equal the term built at once"),
                                    &format!("prefix={} pushed={} got={} want={}", k, all[k..].iter().map(|x| ser::term(x, Mode::Raw)).collect::<Vec<_>>().join(" "), ser::term(&part, Mode::Raw), ser::term(&whole, Mode::Raw)));
                            }
                        }
                    }
                }
                for (what, built, raw) in cases {
                    pair_check(o, &built, &raw, "ctor-vs-variant");
                    o.checked("C06");
                    if built != raw {
                        o.fail("C06", "-", &format!("new_{what}(components) does not equal the term these components describe"),
                            &format!("components={} built={}", ks.iter().map(|k| ser::term(k, Mode::Raw)).collect::<Vec<_>>().join(" "), ser::term(&built, Mode::Raw)));
                    }
                    let text = ff.format_term(&raw);
                    let p = ff.parse::<Narsese>(&text).ok();
                    let l = lfmt(f).unwrap().parse(&text).ok().and_then(|lv| lv.try_fold_into(ff).ok());
                    if let (Some(Narsese::Term(p)), Some(Narsese::Term(l))) = (p, l) {
                        pair_check(o, &p, &raw, "parse-vs-variant");
                        pair_check(o, &l, &raw, "fold-vs-variant");
                        if !(p == raw && l == raw) {
                            o.fail("C06", f, "the text of a term with repeated components, read by either pipeline, does not equal the term",
                                &format!("text={} variant={} parsed={} folded={}", ser::hs(&text), ser::term(&raw, Mode::Raw), ser::term(&p, Mode::Raw), ser::term(&l, Mode::Raw)));
                        }
                    }
                }
            }
        }
        // images that are WRITTEN the same but stored differently: a component list with two or more placeholders can
        // be split at any of them; different index / stored components = different terms (C06), and whatever `==`
        // says the hashes must follow (C07). Also nested inside a set, where the comparison goes through the hash.
        if r.chance(1, 4) {
            let len = 3 + r.below(3);
            let mut written: Vec<Term> = (0..len).map(|_| gen::term(r, cfg, 0)).collect();
            let (p1, p2) = (r.below(len), r.below(len));
            written[p1] = Term::Placeholder;
            written[p2] = Term::Placeholder;
            let split = |i: usize| -> Vec<Term> { written.iter().enumerate().filter(|(k, _)| *k != i).map(|(_, t)| t.clone()).collect() };
            let ext = r.chance(1, 2);
            let mk = |i: usize| if ext { Term::ImageExtension(i, split(i)) } else { Term::ImageIntension(i, split(i)) };
            let (ia, ib) = (mk(p1), mk(p2));
            pair_check(o, &ia, &ib, "same-written-images");
            pair_check(o, &Term::new_set_extension(vec![ia.clone(), a.clone()]), &Term::new_set_extension(vec![a.clone(), ib.clone()]), "same-written-images-in-set");
            let other = if ext { Term::ImageIntension(p1, split(p1)) } else { Term::ImageExtension(p1, split(p1)) };
            pair_check(o, &ia, &other, "ext-vs-int-image");
        }
        // transitivity on a triple of rebuilt copies
        let b2 = rebuild(r, &b);
        o.checked("C06");
        if a == b && b == b2 && !(a == b2) {
            o.fail("C06", "-", "== not transitive", &ser::term(&a, Mode::Raw));
        }
    }
}

// ---------------- C08 ----------------
fn seqs<W: Write>(r: &mut Rng, cfg: &TermCfg, n: usize, o: &mut Out<W>) {
    for f in FORMATS {
        let ff = efmt(f).unwrap();
        let kws = gen::keywords(ff);
        for _ in 0..n {
            let len = 1 + r.below(8);
            let mut inputs: Vec<String> = vec![];
            for _ in 0..len {
                let v = gen::narsese(r, cfg);
                let full = ff.format_narsese(&v);
                let s = match r.below(8) {
                    0 | 1 => full,
                    2 => ff.format_term(v.get_term()),
                    // budget-only fragment followed by a term
                    3 => format!("{} {}", ff.format_budget(&gen::budget(r)), ff.format_term(v.get_term())),
                    4 => ff.format_budget(&gen::budget(r)),
                    // truth-only / stamp-only fragments
                    5 => ff.format_truth(&gen::truth(r)),
                    6 => format!("{}{} {}", ff.format_term(v.get_term()), ff.sentence.punctuation_judgement, r.pick(&kws)),
                    _ => gen::malformed(r, &kws, &full),
                };
                inputs.push(s);
            }
            let payload = inputs.iter().map(|s| ser::hs(s)).collect::<Vec<_>>().join(" ");
            let multi = o.run("emulti", f, &payload);
            let parts: Vec<&str> = multi.split(" | ").collect();
            o.checked("C08");
            if multi == "panic" {
                o.fail("C04", f, "parse_multi panicked", &payload);
                // C08: the batch must behave like its inputs parsed alone
                let singles: Vec<String> = inputs.iter().map(|s| exec::eparse_out(ff, s)).collect();
                if singles.iter().all(|x| x != "panic") {
                    o.fail("C08", f, "parse_multi panics although every input parsed alone returns Ok or Err", &format!("inputs={payload} singles={}", singles.join(" | ")));
                }
                continue;
            }
            for (i, s) in inputs.iter().enumerate() {
                // (the watchdog measures the time between two ticks: one per parse, not one per batch — a 25 000-character
                // LaTeX term takes seconds to read, and a batch reads each input some twenty times)
                tick(s);
                let single = exec::eparse_out(ff, s);
                tick(s);
                let again = exec::eparse_out(ff, s);
                // C15: the kind of a parsed input depends on the items IT carries (budget ⇒ task, ...)
                o.checked("C15");
                let kind = |x: &str| x.split(' ').nth(2).unwrap_or("").to_string();
                if let Some(pm) = parts.get(i) {
                    if pm.starts_with("ok ") && single.starts_with("ok ") && kind(pm) != kind(&single) {
                        o.fail("C15", f, &format!("parse_multi[{i}] classifies the input as {} but parsed alone it is {}", kind(pm), kind(&single)), &format!("inputs={payload}"));
                    }
                }
                if parts.get(i).copied() != Some(single.as_str()) {
                    o.fail("C08", f, &format!("parse_multi[{i}] differs from parsing the input alone"), &format!("inputs={payload} multi={} single={single}", parts.get(i).unwrap_or(&"<missing>")));
                }
                if single != again {
                    o.fail("C08", f, "parsing the same input twice gives different results", &ser::hs(s));
                }
            }
            // no history at all: the same inputs on a fresh thread (thread-local caches start empty there), in another order
            // (history effects do not need long inputs: the extra readings are limited to inputs of at most 4 000 characters)
            let inputs_all = inputs;
            let inputs: Vec<String> = inputs_all.iter().filter(|s| s.chars().count() <= 4000).cloned().collect();
            {
                let here: Vec<String> = inputs.iter().map(|s| { tick(s); exec::eparse_out(ff, s) }).collect();
                let lhere: Vec<String> = inputs.iter().map(|s| { tick(s); exec::exec("lparse", f, &ser::hs(s)).unwrap_or_default() }).collect();
                let (inp, fname) = (inputs.clone(), f);
                let fresh = std::thread::spawn(move || {
                    let ff = efmt(fname).unwrap();
                    let mut e: Vec<String> = inp.iter().rev().map(|s| { tick(s); exec::eparse_out(ff, s) }).collect();
                    let mut l: Vec<String> = inp.iter().rev().map(|s| { tick(s); exec::exec("lparse", fname, &ser::hs(s)).unwrap_or_default() }).collect();
                    e.reverse();
                    l.reverse();
                    (e, l)
                }).join();
                if let Ok((e, l)) = fresh {
                    for (i, s) in inputs.iter().enumerate() {
                        o.checked("C08");
                        if e[i] != here[i] {
                            o.fail("C08", f, "the enum parser's result depends on what this thread parsed before (a fresh thread gives another result)", &format!("text={} here={} fresh-thread={}", ser::hs(s), here[i], e[i]));
                        }
                        if l[i] != lhere[i] {
                            o.fail("C08", f, "the lexical parser's result depends on what this thread parsed before (a fresh thread gives another result)", &format!("text={} here={} fresh-thread={}", ser::hs(s), lhere[i], l[i]));
                        }
                    }
                }
            }
            // the same TEXT read by another format right afterwards: the result must be that of the other format alone
            // (on a thread that has parsed nothing else)
            for s in inputs.iter().take(3) {
                for g in FORMATS {
                    if g == f {
                        continue;
                    }
                    let hs = ser::hs(s);
                    tick(s);
                    let _ = (exec::eparse_out(ff, s), exec::exec("lparse", f, &hs));
                    tick(s);
                    let e_after = exec::eparse_out(efmt(g).unwrap(), s);
                    let l_after = exec::exec("lparse", g, &hs).unwrap_or_default();
                    let (s2, hs2) = (s.clone(), hs.clone());
                    if let Ok((e_alone, l_alone)) = std::thread::spawn(move || (exec::eparse_out(efmt(g).unwrap(), &s2), exec::exec("lparse", g, &hs2).unwrap_or_default())).join() {
                        o.checked("C08");
                        if e_after != e_alone {
                            o.fail("C08", g, &format!("the enum parser's result for this text depends on a preceding {f} parse of the same text"), &format!("text={hs} after={e_after} alone={e_alone}"));
                        }
                        if l_after != l_alone {
                            o.fail("C08", g, &format!("the lexical parser's result for this text depends on a preceding {f} parse of the same text"), &format!("text={hs} after={l_after} alone={l_alone}"));
                        }
                    }
                }
            }
            // lexical parser reused on the shared static instance
            let lf = lfmt(f).unwrap();
            for s in &inputs {
                tick(s);
                let a = lf.parse(s).map_err(|_| ());
                let b = lf.parse(s).map_err(|_| ());
                if a != b {
                    o.fail("C08", f, "lexical parser: two parses differ", &ser::hs(s));
                }
            }
        }
    }
}

/// the same binary constructor applied to other components
fn rebuild_binary(t: &Term, a: Term, b: Term) -> Option<Term> {
    Some(match t {
        Term::DifferenceExtension(..) => Term::new_difference_extension(a, b),
        Term::DifferenceIntension(..) => Term::new_difference_intension(a, b),
        Term::Inheritance(..) => Term::new_inheritance(a, b),
        Term::Similarity(..) => Term::new_similarity(a, b),
        Term::Implication(..) => Term::new_implication(a, b),
        Term::Equivalence(..) => Term::new_equivalence(a, b),
        Term::ImplicationPredictive(..) => Term::new_implication_predictive(a, b),
        Term::ImplicationConcurrent(..) => Term::new_implication_concurrent(a, b),
        Term::ImplicationRetrospective(..) => Term::new_implication_retrospective(a, b),
        Term::EquivalencePredictive(..) => Term::new_equivalence_predictive(a, b),
        Term::EquivalenceConcurrent(..) => Term::new_equivalence_concurrent(a, b),
        _ => return None,
    })
}

// ---------------- C14 ----------------
fn api<W: Write>(r: &mut Rng, cfg: &TermCfg, n: usize, o: &mut Out<W>) {
    let mut check = |o: &mut Out<W>, t: &Term| {
        let raw = ser::term(t, Mode::Raw);
        // NOTE: the op line serialises `t` in ITS iteration order and `exec` rebuilds it, possibly with
        // another order; the api op prints component lists, so build the expected text from `t` itself.
        tick(&raw);
        let expected = exec::api_out(t);
        o.op("api", "-", &raw, &expected);
        o.checked("C14");
        let with_ph: Vec<String> = t.get_components_including_placeholder().iter().map(|x| ser::term(x, Mode::Raw)).collect();
        let without: Vec<String> = t.get_components().iter().map(|x| ser::term(x, Mode::Raw)).collect();
        let extracted: Vec<String> = match catch_unwind(AssertUnwindSafe(|| t.clone().extract_terms_to_vec())) {
            Ok(v) => v.iter().map(|x| ser::term(x, Mode::Raw)).collect(),
            Err(_) => { o.fail("C14", "-", "extract_terms_to_vec panicked", &raw); return; }
        };
        let unordered = matches!(t.get_capacity(), TermCapacity::Set);
        let same = if unordered {
            let mut a = extracted.clone(); a.sort();
            let mut b = with_ph.clone(); b.sort();
            a == b
        } else { extracted == with_ph };
        if !same {
            o.fail("C14", "-", "extract != components_including_placeholder", &raw);
        }
        if let Term::ImageExtension(i, v) | Term::ImageIntension(i, v) = t {
            if with_ph.len() != v.len() + 1 || with_ph.get(*i).map(|s| s.as_str()) != Some("( Placeholder )") {
                o.fail("C14", "-", "image placeholder not at its recorded index", &raw);
            }
            let mut w = with_ph.clone();
            w.remove(*i);
            if w != without {
                o.fail("C14", "-", "components != components_including_placeholder minus the placeholder", &raw);
            }
        } else if with_ph != without {
            o.fail("C14", "-", "non-image: the two accessors differ", &raw);
        }
        // the compound accessor is the placeholder-free accessor, for compounds only
        match (t.is_compound(), t.get_compound_components()) {
            (true, Some(cc)) => {
                if cc != t.get_components() {
                    o.fail("C14", "-", "get_compound_components differs from the placeholder-free accessor", &raw);
                }
            }
            (false, None) => {}
            _ => o.fail("C14", "-", "get_compound_components is Some exactly for compounds", &raw),
        }
        // the name accessor answers for every term: the name of an atom, nothing (and no panic) otherwise
        match catch_unwind(AssertUnwindSafe(|| t.get_atom_name())) {
            Ok(name) => {
                if name.is_some() != t.is_atom() {
                    o.fail("C17", "-", "get_atom_name is Some exactly for atoms", &raw);
                }
            }
            Err(_) => o.fail("C17", "-", "get_atom_name panicked", &raw),
        }
        let cats = [t.is_atom(), t.is_compound(), t.is_statement()].iter().filter(|x| **x).count();
        if cats != 1 {
            o.fail("C14", "-", "category predicates do not partition", &raw);
        }
        let cnt = without.len();
        let cap_ok = match t.get_capacity() {
            TermCapacity::Atom => t.is_atom() && cnt == 1,
            TermCapacity::Unary => cnt == 1 && !t.is_atom(),
            TermCapacity::BinaryVec | TermCapacity::BinarySet => cnt == 2,
            TermCapacity::Vec | TermCapacity::Set => !t.is_atom() && !t.is_statement(),
        };
        if !cap_ok {
            o.fail("C14", "-", "capacity class does not match the component count", &raw);
        }
        // the capacity PREDICATES: exactly one of atom / unary / binary / multi, each the disjunction of its two
        // refinements, all of them the answer `get_capacity` gives
        let cap = t.get_capacity();
        let preds = [t.is_capacity_atom(), t.is_capacity_unary(), t.is_capacity_binary(), t.is_capacity_multi()];
        let want = [cap == TermCapacity::Atom, cap == TermCapacity::Unary,
            matches!(cap, TermCapacity::BinaryVec | TermCapacity::BinarySet), matches!(cap, TermCapacity::Vec | TermCapacity::Set)];
        if preds != want || preds.iter().filter(|x| **x).count() != 1
            || t.is_capacity_binary() != (t.is_capacity_binary_vec() ^ t.is_capacity_binary_set())
            || t.is_capacity_multi() != (t.is_capacity_vec() ^ t.is_capacity_set())
            || t.is_capacity_binary_vec() != (cap == TermCapacity::BinaryVec) || t.is_capacity_binary_set() != (cap == TermCapacity::BinarySet)
            || t.is_capacity_vec() != (cap == TermCapacity::Vec) || t.is_capacity_set() != (cap == TermCapacity::Set)
        {
            o.fail("C14", "-", "capacity predicates do not partition / do not agree with get_capacity and the arity", &raw);
        }
        // the capacity class must match the ordered / unordered nature: swapping two DIFFERENT components
        // gives an equal term exactly for the unordered classes
        if let TermCapacity::BinaryVec | TermCapacity::BinarySet = t.get_capacity() {
            let comps = t.get_components();
            if comps.len() == 2 && comps[0] != comps[1] {
                let (a, b) = (comps[0].clone(), comps[1].clone());
                let swapped = rebuild_binary(t, b, a);
                if let Some(sw) = swapped {
                    let unordered = matches!(t.get_capacity(), TermCapacity::BinarySet);
                    if (sw == *t) != unordered {
                        o.fail("C14", "-", "capacity class (ordered/unordered binary) contradicts equality under swapping the components", &raw);
                    }
                }
            }
        }
    };
    for _ in 0..n {
        let d = r.below(cfg.max_depth + 1);
        let t = if r.chance(1, 40) { Term::Placeholder } else { gen::term(r, cfg, d) };
        term_hist(o, &t);
        check(o, &t);
        // every image index over the same components
        if let Term::ImageExtension(_, v) | Term::ImageIntension(_, v) = &t {
            for i in 0..=v.len() {
                check(o, &Term::new_image_extension(i, v.clone()));
                check(o, &Term::new_image_intension(i, v.clone()));
            }
        }
    }
    check(o, &Term::new_placeholder());
    check(o, &Term::new_image_extension(0, vec![]));
    check(o, &Term::new_image_intension(1, vec![Term::new_word("a")]));
}

// ---------------- C17 ----------------
const NAME_ARGS: [&str; 36] = [
    "x", "", "7", "+7", "007", "+", "-", "-0", "-1", "18446744073709551615", "18446744073709551616",
    "+18446744073709551615", "1 ", " 1", "１", "1_0", "0x10", "a b", "名", "++1", "1e3", "99999999999999999999999",
    // "verbatim" means verbatim: names that look like prefixes, keywords or padded text must come back unchanged
    "^op", "^", "^^x", "$x", "#y", "?q", "_", "__a", "-->", "<a>", " x ", "X\u{0}Y", "操作", "+-1",
];
fn mutators<W: Write>(r: &mut Rng, cfg: &TermCfg, n: usize, o: &mut Out<W>) {
    for _ in 0..n {
        let d = r.below(3);
        // (the generator only puts placeholders inside images; as a term of its own it is an atom like the others)
        let t = if r.chance(1, 12) { Term::Placeholder } else if r.chance(1, 6) { gen::wild_term(r, d) } else { gen::term(r, cfg, d) };
        term_hist(o, &t);
        let raw = ser::term(&t, Mode::Raw);
        let arg = if r.chance(3, 4) { r.pick(&NAME_ARGS).to_string() } else { gen::name(r) };
        let out = o.run("setname", "-", &format!("{raw} {}", ser::hs(&arg)));
        o.checked("C17");
        // direct statement of the property on the real value
        let mut t2 = t.clone();
        let ok = t2.set_atom_name(&arg).is_ok();
        let named = matches!(t, Term::Word(_) | Term::VariableIndependent(_) | Term::VariableDependent(_) | Term::VariableQuery(_) | Term::Operator(_));
        let unsigned_ok = {
            let ds = arg.strip_prefix('+').unwrap_or(&arg);
            !ds.is_empty() && ds.chars().all(|c| c.is_ascii_digit()) && ds.trim_start_matches('0').len() <= 20
                && ds.parse::<u128>().map(|v| v <= usize::MAX as u128).unwrap_or(false)
        };
        let detail = format!("term={raw} name={} out={out}", ser::hs(&arg));
        // observing the term afterwards must always be possible: the name accessor answers for every term
        let name_after = match catch_unwind(AssertUnwindSafe(|| t2.get_atom_name())) {
            Ok(n) => n,
            Err(_) => {
                o.fail("C17", "-", "get_atom_name panicked on the term after set_atom_name", &detail);
                continue;
            }
        };
        if named {
            if !ok || name_after.as_deref() != Some(arg.as_str()) {
                o.fail("C17", "-", "renaming a named atom failed or is not reported back verbatim", &detail);
            }
        } else if let Term::Interval(old) = &t {
            if ok != unsigned_ok {
                o.fail("C17", "-", "interval rename outcome != (name is an unsigned machine-word decimal)", &detail);
            }
            if ok {
                let ds = arg.strip_prefix('+').unwrap_or(&arg);
                if t2 != Term::Interval(ds.parse::<usize>().unwrap()) {
                    o.fail("C17", "-", "interval rename set the wrong value", &detail);
                }
            } else if t2 != Term::Interval(*old) {
                o.fail("C17", "-", "failed interval rename changed the term", &detail);
            }
        } else if matches!(t, Term::Placeholder) {
            if !ok || t2 != Term::Placeholder {
                o.fail("C17", "-", "placeholder rename must succeed and change nothing", &detail);
            }
        } else if ok || ser::term(&t2, Mode::CanonDedup) != ser::term(&t, Mode::CanonDedup) {
            o.fail("C17", "-", "rename of a compound/statement must fail and change nothing", &detail);
        }
        // push_components
        let k = r.below(4);
        // (a placeholder is a term like any other for `push_components`)
        let cs: Vec<Term> = (0..k).map(|_| if r.chance(1, 6) { Term::Placeholder } else { let dd = r.below(2); gen::term(r, cfg, dd) }).collect();
        let payload = std::iter::once(raw.clone()).chain(cs.iter().map(|c| ser::term(c, Mode::Raw))).collect::<Vec<_>>().join(" ");
        let out = o.run("push", "-", &payload);
        o.checked("C17");
        let mut t3 = t.clone();
        let ok = t3.push_components(cs.clone()).is_ok();
        let detail = format!("payload={payload} out={out}");
        use Term::*;
        match &t {
            Product(v) | ConjunctionSequential(v) | ImageExtension(_, v) | ImageIntension(_, v) => {
                let mut w = v.clone();
                w.extend(cs.clone());
                let got: Vec<String> = t3.get_components().iter().map(|x| ser::term(x, Mode::CanonDedup)).collect();
                let want: Vec<String> = w.iter().map(|x| ser::term(x, Mode::CanonDedup)).collect();
                if !ok || got != want {
                    o.fail("C17", "-", "push onto an ordered compound must append in order", &detail);
                }
            }
            SetExtension(_) | SetIntension(_) | IntersectionExtension(_) | IntersectionIntension(_) | Conjunction(_) | Disjunction(_) | ConjunctionParallel(_) => {
                let mut want: Vec<String> = t.get_components().iter().map(|x| ser::term(x, Mode::CanonDedup)).chain(cs.iter().map(|x| ser::term(x, Mode::CanonDedup))).collect();
                want.sort();
                want.dedup();
                let mut got: Vec<String> = t3.get_components().iter().map(|x| ser::term(x, Mode::CanonDedup)).collect();
                got.sort();
                let same_ctor = std::mem::discriminant(&t) == std::mem::discriminant(&t3);
                if !ok || got != want || !same_ctor {
                    o.fail("C17", "-", "push onto an unordered compound must unite the components", &detail);
                }
            }
            _ => {
                if ok || ser::term(&t3, Mode::CanonDedup) != ser::term(&t, Mode::CanonDedup) {
                    o.fail("C17", "-", "push onto a fixed-arity term must fail and change nothing", &detail);
                }
            }
        }
    }
}

// ---------------- C13 ----------------
fn special_floats() -> Vec<f64> {
    vec![
        f64::NEG_INFINITY, -1.0, -f64::MIN_POSITIVE, -5e-324, -0.0, 0.0, 5e-324, f64::MIN_POSITIVE, 1e-7, 0.5,
        0.9999999999999999, 1.0, 1.0000000000000002, 1.5, f64::MAX, f64::INFINITY, f64::NAN, -f64::NAN, 0.1 + 0.2, 0.3,
    ]
}
fn ctor<W: Write>(r: &mut Rng, n: usize, o: &mut Out<W>) {
    let sp = special_floats();
    let pickf = |r: &mut Rng| -> f64 {
        if r.chance(2, 3) { *r.pick(&sp) } else { f64::from_bits(r.next()) }
    };
    for x in &sp {
        o.run("evn", "-", &ser::fl(*x));
    }
    for _ in 0..n {
        let k = r.below(6);
        let xs: Vec<f64> = (0..k).map(|_| pickf(r)).collect();
        let payload = xs.iter().map(|x| ser::fl(*x)).collect::<Vec<_>>().join(" ");
        o.run("tctor", "-", &payload);
        o.run("bctor", "-", &payload);
        let x = pickf(r);
        o.run("evn", "-", &ser::fl(x));
        // the property, stated directly on f64
        o.checked("C13");
        let ok = |x: f64| x >= 0.0 && x <= 1.0;
        let t = match catch_unwind(AssertUnwindSafe(|| Truth::try_from_floats(xs.iter().copied()))) {
            Ok(t) => t,
            Err(_) => { o.fail("C13", "-", "Truth::try_from_floats panicked (the fallible constructor must return Err)", &payload); continue; }
        };
        let want_t = xs.iter().take(2).all(|x| ok(*x));
        if t.is_ok() != want_t {
            o.fail("C13", "-", "Truth::try_from_floats outcome != all consumed components in [0,1]", &payload);
        }
        if let Ok(t) = &t {
            let arity = match t { Truth::Empty => 0, Truth::Single(_) => 1, Truth::Double(..) => 2 };
            if arity != xs.len().min(2) {
                o.fail("C13", "-", "truth arity != min(2, supplied)", &payload);
            }
            if arity >= 1 && t.f().to_bits() != xs[0].to_bits() { o.fail("C13", "-", "truth f() != stored", &payload); }
            if arity >= 2 && t.c().to_bits() != xs[1].to_bits() { o.fail("C13", "-", "truth c() != stored", &payload); }
            if arity < 2 && catch_unwind(AssertUnwindSafe(|| t.c())).is_ok() { o.fail("C13", "-", "c() on a truth without confidence did not panic", &payload); }
            if arity < 1 && catch_unwind(AssertUnwindSafe(|| t.f())).is_ok() { o.fail("C13", "-", "f() on an empty truth did not panic", &payload); }
            // the trait accessors (`EvidentValue`) are the same accessors under other names
            if arity >= 1 && (t.get_frequency().to_bits() != xs[0].to_bits() || t.frequency().to_bits() != xs[0].to_bits()) {
                o.fail("C13", "-", "truth get_frequency() / frequency() != stored", &payload);
            }
            if arity >= 2 {
                let (f2, c2) = t.get_frequency_confidence();
                if t.get_confidence().to_bits() != xs[1].to_bits() || t.confidence().to_bits() != xs[1].to_bits()
                    || f2.to_bits() != xs[0].to_bits() || c2.to_bits() != xs[1].to_bits() {
                    o.fail("C13", "-", "truth get_confidence() / confidence() / get_frequency_confidence() != stored", &payload);
                }
            }
            if arity < 2 && catch_unwind(AssertUnwindSafe(|| t.get_confidence())).is_ok() { o.fail("C13", "-", "get_confidence() on a truth without confidence did not panic", &payload); }
        }
        let b = match catch_unwind(AssertUnwindSafe(|| Budget::try_from_floats(xs.iter().copied()))) {
            Ok(b) => b,
            Err(_) => { o.fail("C13", "-", "Budget::try_from_floats panicked (the fallible constructor must return Err)", &payload); continue; }
        };
        let want_b = xs.iter().take(3).all(|x| ok(*x));
        if b.is_ok() != want_b {
            o.fail("C13", "-", "Budget::try_from_floats outcome != all consumed components in [0,1]", &payload);
        }
        if let Ok(b) = &b {
            let arity = match b { Budget::Empty => 0, Budget::Single(_) => 1, Budget::Double(..) => 2, Budget::Triple(..) => 3 };
            if arity != xs.len().min(3) { o.fail("C13", "-", "budget arity != min(3, supplied)", &payload); }
            if arity >= 1 && b.p().to_bits() != xs[0].to_bits() { o.fail("C13", "-", "budget p() != stored", &payload); }
            if arity >= 2 && b.d().to_bits() != xs[1].to_bits() { o.fail("C13", "-", "budget d() != stored", &payload); }
            if arity >= 3 && b.q().to_bits() != xs[2].to_bits() { o.fail("C13", "-", "budget q() != stored", &payload); }
            if arity < 3 && catch_unwind(AssertUnwindSafe(|| b.q())).is_ok() { o.fail("C13", "-", "q() on a budget without quality did not panic", &payload); }
        }
        // panicking constructors panic exactly when the fallible ones fail
        if xs.len() >= 1 {
            let p = catch_unwind(|| Truth::new_single(xs[0])).is_err();
            if p != catch_unwind(|| Truth::try_from_floats([xs[0]].into_iter()).is_err()).unwrap_or(true) { o.fail("C13", "-", "Truth::new_single panics != try_from_floats Err", &payload); }
            let p = catch_unwind(|| Budget::new_single(xs[0])).is_err();
            if p != Budget::try_from_floats([xs[0]].into_iter()).is_err() { o.fail("C13", "-", "Budget::new_single panics != try_from_floats Err", &payload); }
        }
        if xs.len() >= 2 {
            let p = catch_unwind(|| Truth::new_double(xs[0], xs[1])).is_err();
            if p != Truth::try_from_floats([xs[0], xs[1]].into_iter()).is_err() { o.fail("C13", "-", "Truth::new_double panics != try_from_floats Err", &payload); }
            let p = catch_unwind(|| Budget::new_double(xs[0], xs[1])).is_err();
            if p != Budget::try_from_floats([xs[0], xs[1]].into_iter()).is_err() { o.fail("C13", "-", "Budget::new_double panics != try_from_floats Err", &payload); }
        }
        if xs.len() >= 3 {
            let p = catch_unwind(|| Budget::new_triple(xs[0], xs[1], xs[2])).is_err();
            if p != Budget::try_from_floats([xs[0], xs[1], xs[2]].into_iter()).is_err() { o.fail("C13", "-", "Budget::new_triple panics != try_from_floats Err", &payload); }
        }
        // evidence-number API
        let iv = EvidentNumber::is_valid(&x);
        let tv = EvidentNumber::try_validate(&x).is_ok();
        let vv = catch_unwind(|| { let _ = EvidentNumber::validate(&x); }).is_ok();
        if iv != ok(x) || tv != iv || vv != iv {
            o.fail("C13", "-", "is_valid / try_validate / validate disagree with 0<=x<=1", &ser::fl(x));
        }
        if iv {
            // small degrees, and the degrees at which a conversion of `n` to a narrower or signed type would go wrong
            const EDGE_N: [usize; 10] = [0, 1, 2, (1 << 31) - 1, 1 << 31, (1 << 32) - 1, 1 << 32, usize::MAX / 2, usize::MAX / 2 + 1, usize::MAX];
            let nroot = if r.chance(1, 3) { *r.pick(&EDGE_N) } else { 1 + r.below(9) };
            let y = EvidentNumber::root(x, nroot);
            if !EvidentNumber::is_valid(&y) {
                o.fail("C13", "-", "n-th root of a valid number is not valid", &format!("{} n={nroot}", ser::fl(x)));
            }
        }
        if <f64 as EvidentNumber>::zero() != 0.0 || <f64 as EvidentNumber>::one() != 1.0 {
            o.fail("C13", "-", "zero()/one() wrong", "");
        }
    }
}

// ---------------- exhaustive small scope ----------------
fn small_terms(depth: usize) -> Vec<Term> {
    let atoms: Vec<Term> = vec![
        Term::new_word("a"),
        Term::new_word("b"),
        Term::new_variable_independent("x"),
        Term::new_variable_dependent("y"),
        Term::new_variable_query("z"),
        Term::new_interval(7),
        Term::new_operator("op"),
    ];
    if depth == 0 {
        return atoms;
    }
    let sub = small_terms(depth - 1);
    // keep the branching manageable: components drawn from a small prefix of the previous level
    let base: Vec<Term> = sub.iter().take(if depth == 1 { 3 } else { 12 }).cloned().collect();
    let mut out = atoms;
    let lists: Vec<Vec<Term>> = {
        let mut l = vec![];
        for a in &base {
            l.push(vec![a.clone()]);
            for b in base.iter().take(3) {
                l.push(vec![a.clone(), b.clone()]);
            }
        }
        l.push(vec![base[0].clone(), base[1].clone(), base[2 % base.len()].clone()]);
        l
    };
    for l in &lists {
        out.push(Term::new_set_extension(l.clone()));
        out.push(Term::new_set_intension(l.clone()));
        out.push(Term::new_intersection_extension(l.clone()));
        out.push(Term::new_intersection_intension(l.clone()));
        out.push(Term::new_product(l.clone()));
        out.push(Term::new_conjunction(l.clone()));
        out.push(Term::new_disjunction(l.clone()));
        out.push(Term::new_conjunction_sequential(l.clone()));
        out.push(Term::new_conjunction_parallel(l.clone()));
        for i in 0..=l.len() {
            out.push(Term::new_image_extension(i, l.clone()));
            out.push(Term::new_image_intension(i, l.clone()));
        }
    }
    for a in &base {
        out.push(Term::new_negation(a.clone()));
        for b in base.iter().take(3) {
            let (a, b) = (a.clone(), b.clone());
            out.push(Term::new_difference_extension(a.clone(), b.clone()));
            out.push(Term::new_difference_intension(a.clone(), b.clone()));
            out.push(Term::new_inheritance(a.clone(), b.clone()));
            out.push(Term::new_similarity(a.clone(), b.clone()));
            out.push(Term::new_implication(a.clone(), b.clone()));
            out.push(Term::new_equivalence(a.clone(), b.clone()));
            out.push(Term::new_implication_predictive(a.clone(), b.clone()));
            out.push(Term::new_implication_concurrent(a.clone(), b.clone()));
            out.push(Term::new_implication_retrospective(a.clone(), b.clone()));
            out.push(Term::new_equivalence_predictive(a.clone(), b.clone()));
            out.push(Term::new_equivalence_concurrent(a, b));
        }
    }
    out
}

fn deep_towers() -> Vec<Term> {
    let mut out = vec![];
    for d in [63usize, 64, 65, 70, 100] {
        let mut neg = Term::new_word("a");
        let mut subj = Term::new_word("a");
        let mut pred = Term::new_word("a");
        let mut set = Term::new_word("a");
        for _ in 0..d {
            neg = Term::new_negation(neg);
            subj = Term::new_inheritance(subj, Term::new_word("b"));
            pred = Term::new_implication(Term::new_word("b"), pred);
            set = Term::new_set_extension(vec![set]);
        }
        out.extend([neg, subj, pred, set]);
    }
    out
}

fn small<W: Write>(n: usize, o: &mut Out<W>) {
    // n = depth (1 or 2)
    let depth = n.clamp(1, 2);
    let mut terms = small_terms(depth);
    // names that BEGIN WITH a keyword of another item class (Han / LaTeX tense words have no brackets, so they are
    // ordinary identifier characters): as the whole term of a value they are read as names because the term is tried
    // first. Top level only — inside other terms such names fall under the recorded finding K2.
    for w in ["现在", "过去", "将来的事", "现在a", "过去9", "Leftarrow", "downarrow1"] {
        terms.push(Term::new_word(w));
    }
    // "any nesting depth": towers deeper than anything the random generators build (and deeper than the 64 levels
    // the totality properties bound malformed input by)
    terms.extend(deep_towers());
    let stamps = [Stamp::Eternal, Stamp::Past, Stamp::Present, Stamp::Future, Stamp::Fixed(-1)];
    let truths = [Truth::Empty, Truth::Single(1.0), Truth::Double(1.0, 0.9)];
    let budgets = [Budget::Empty, Budget::Single(0.5), Budget::Double(0.5, 0.75), Budget::Triple(0.5, 0.75, 0.4)];
    let mut idx = 0usize;
    for t in &terms {
        term_hist(o, t);
        idx += 1;
        let mut vals = vec![Narsese::Term(t.clone())];
        // rotate through item shapes deterministically so every shape meets every constructor class
        let st = stamps[idx % 5].clone();
        let tr = truths[idx % 3].clone();
        let s = match idx % 4 {
            0 => Sentence::Judgement(t.clone(), tr, st),
            1 => Sentence::Goal(t.clone(), tr, st),
            2 => Sentence::Question(t.clone(), st),
            _ => Sentence::Quest(t.clone(), st),
        };
        vals.push(Narsese::Sentence(s.clone()));
        vals.push(Narsese::Task(Task(s, budgets[idx % 4].clone())));
        for v in vals {
            if gen::is_k1(v.get_term()) {
                continue;
            }
            let raw = ser::narsese(&v, Mode::Raw);
            let canon = format!("ok {}", ser::narsese(&v, Mode::Canon));
            for f in FORMATS {
                let out = o.efmt(f, &raw, &v);
                if let Some(hs) = out.strip_prefix("s ") {
                    let e = o.run("eparse", f, hs);
                    let l = o.run("lfold", f, hs);
                    o.checked("C01");
                    if e != canon {
                        o.fail("C01", f, "parse(format(v)) != v", &format!("value={raw} text={hs} got={e}"));
                    }
                    o.checked("C03");
                    if l != e {
                        o.fail("C03", f, "enum parse != fold(lexical parse)", &format!("text={hs} enum={e} lexfold={l}"));
                    }
                }
            }
        }
    }
}

/// C11: ASCII formatter outputs (enum and lexical) against the published grammar.
/// names restricted to letters, digits, '_' and inner '-' as the property says
fn grammar_safe(text: &str) -> bool {
    text.chars().all(|c| (c as u32) <= 0x1f2ff)
}
/// C11, last sentence: "the ASCII keywords used are exactly those of the OpenNARS-compatible lexicon". The published
/// grammar accepts `:\:` and `:/:` alike, so a keyword that drifts to another keyword OF THE SAME CLASS (formatter and
/// parser together) is invisible to it; the theorem `enum_lexicon_is_opennars` notices, and this oracle supplies the
/// concrete value: one smallest value per keyword, spelt by hand in the OpenNARS lexicon (layout blanks removed).
fn lexicon_oracle<W: Write>(o: &mut Out<W>) {
    let ff = efmt("ascii").unwrap();
    let a = || Term::new_word("a");
    let b = || Term::new_word("b");
    let j = |st: Stamp, tr: Truth| Narsese::Sentence(Sentence::Judgement(a(), tr, st));
    let table: Vec<(Narsese, &str)> = vec![
        (Narsese::Term(a()), "a"),
        (Narsese::Term(Term::new_variable_independent("x")), "$x"),
        (Narsese::Term(Term::new_variable_dependent("y")), "#y"),
        (Narsese::Term(Term::new_variable_query("z")), "?z"),
        (Narsese::Term(Term::new_interval(7)), "+7"),
        (Narsese::Term(Term::new_operator("op")), "^op"),
        (Narsese::Term(Term::new_set_extension(vec![a()])), "{a}"),
        (Narsese::Term(Term::new_set_intension(vec![a()])), "[a]"),
        (Narsese::Term(Term::new_intersection_extension(vec![a()])), "(&,a)"),
        (Narsese::Term(Term::new_intersection_intension(vec![a()])), "(|,a)"),
        (Narsese::Term(Term::new_difference_extension(a(), b())), "(-,a,b)"),
        (Narsese::Term(Term::new_difference_intension(a(), b())), "(~,a,b)"),
        (Narsese::Term(Term::new_product(vec![a(), b()])), "(*,a,b)"),
        (Narsese::Term(Term::new_image_extension(1, vec![a(), b()])), "(/,a,_,b)"),
        (Narsese::Term(Term::new_image_intension(1, vec![a(), b()])), "(\\,a,_,b)"),
        (Narsese::Term(Term::new_conjunction(vec![a()])), "(&&,a)"),
        (Narsese::Term(Term::new_disjunction(vec![a()])), "(||,a)"),
        (Narsese::Term(Term::new_negation(a())), "(--,a)"),
        (Narsese::Term(Term::new_conjunction_sequential(vec![a(), b()])), "(&/,a,b)"),
        (Narsese::Term(Term::new_conjunction_parallel(vec![a()])), "(&|,a)"),
        (Narsese::Term(Term::new_inheritance(a(), b())), "<a-->b>"),
        (Narsese::Term(Term::new_similarity(a(), a())), "<a<->a>"),
        (Narsese::Term(Term::new_implication(a(), b())), "<a==>b>"),
        (Narsese::Term(Term::new_equivalence(a(), a())), "<a<=>a>"),
        (Narsese::Term(Term::new_implication_predictive(a(), b())), "<a=/>b>"),
        (Narsese::Term(Term::new_implication_concurrent(a(), b())), "<a=|>b>"),
        (Narsese::Term(Term::new_implication_retrospective(a(), b())), "<a=\\>b>"),
        (Narsese::Term(Term::new_equivalence_predictive(a(), b())), "<a</>b>"),
        (Narsese::Term(Term::new_equivalence_concurrent(a(), a())), "<a<|>a>"),
        (j(Stamp::Eternal, Truth::Empty), "a."),
        (Narsese::Sentence(Sentence::Goal(a(), Truth::Empty, Stamp::Eternal)), "a!"),
        (Narsese::Sentence(Sentence::Question(a(), Stamp::Eternal)), "a?"),
        (Narsese::Sentence(Sentence::Quest(a(), Stamp::Eternal)), "a@"),
        (j(Stamp::Past, Truth::Empty), "a.:\\:"),
        (j(Stamp::Present, Truth::Empty), "a.:|:"),
        (j(Stamp::Future, Truth::Empty), "a.:/:"),
        (j(Stamp::Fixed(-1), Truth::Empty), "a.:!-1:"),
        (j(Stamp::Eternal, Truth::Single(0.5)), "a.%0.5%"),
        (j(Stamp::Eternal, Truth::Double(0.5, 0.9)), "a.%0.5;0.9%"),
        (Narsese::Task(Task(Sentence::Judgement(a(), Truth::Empty, Stamp::Eternal), Budget::Empty)), "$$a."),
        (Narsese::Task(Task(Sentence::Judgement(a(), Truth::Empty, Stamp::Eternal), Budget::Single(0.5))), "$0.5$a."),
        (Narsese::Task(Task(Sentence::Judgement(a(), Truth::Empty, Stamp::Eternal), Budget::Triple(0.5, 0.75, 0.4))), "$0.5;0.75;0.4$a."),
    ];
    for (v, want) in table {
        let text = ff.format_narsese(&v);
        let bare: String = text.chars().filter(|c| !c.is_whitespace()).collect();
        o.checked("C11");
        if bare != want {
            o.fail(
                "C11",
                "ascii",
                "the enum ASCII formatter does not spell this value with the keywords of the OpenNARS lexicon",
                &format!("value={} text={} wanted(blanks removed)={}", ser::narsese(&v, Mode::Raw), ser::hs(&text), want),
            );
        }
    }
}
fn grammar<W: Write>(r: &mut Rng, cfg: &TermCfg, n: usize, o: &mut Out<W>) {
    lexicon_oracle(o);
    let ff = efmt("ascii").unwrap();
    let lf = lfmt("ascii").unwrap();
    let vocab = gen::vocab(lf, ff.atom.prefix_placeholder);
    let towers = deep_towers();
    for i in 0..(n + 2 * towers.len()) {
        let text = if i % 2 == 0 {
            let v = if i / 2 < towers.len() {
                let t = towers[i / 2].clone();
                match i % 3 { 0 => Narsese::Term(t), 1 => Narsese::Sentence(Sentence::Judgement(t, Truth::Double(1.0, 0.9), Stamp::Present)), _ => Narsese::Task(Task(Sentence::Question(t, Stamp::Eternal), Budget::Single(0.5))) }
            } else {
                gen::narsese(r, cfg)
            };
            o.count(&format!("kind.{}", kind_name(&v)));
            // recorded so that the check can evaluate the hypotheses of `ascii_conforms_enum` on this value
            let raw = ser::narsese(&v, Mode::Raw);
            o.efmt("ascii", &raw, &v);
            ff.format_narsese(&v)
        } else {
            let v = gen::lnarsese(r, &vocab, cfg.max_depth, cfg.max_arity);
            // the placeholder has no name in the published grammar (`"_"+`): a lexical placeholder atom
            // carrying a name is outside the property's quantifier
            let sv = ser::lnarsese(&v);
            if sv.split("( LAtom 5f ").skip(1).any(|rest| !rest.starts_with("- ")) {
                o.count("skipped.named-placeholder");
                continue;
            }
            // recorded so that the check can evaluate the hypotheses of `ascii_conforms_wf` on this value
            o.run("lfmt", "ascii", &sv);
            lf.format_narsese(&v)
        };
        if !grammar_safe(&text) {
            o.count("skipped.non-letter-name");
            continue;
        }
        o.checked("C11");
        let out = o.run("peg", "ascii", &ser::hs(&text));
        if !out.starts_with("ok ") {
            o.fail("C11", "ascii", "the library's own ASCII lexical parser rejects the formatter's output", &ser::hs(&text));
        }
    }
}

/// minimised past failures and the witnesses of the repaired defects: run first, every time
fn corpus<W: Write>(o: &mut Out<W>) {
    let path = std::env::var("VERIF_CORPUS").unwrap_or_else(|_| "/verif/corpus/ops.txt".into());
    let text = std::fs::read_to_string(&path).unwrap_or_default();
    for line in text.lines() {
        if line.is_empty() || line.starts_with('#') {
            continue;
        }
        let cols: Vec<&str> = line.split('\t').collect();
        if cols.len() < 3 {
            continue;
        }
        let out = o.run(cols[0], cols[1], cols[2]);
        // a corpus line may carry the property it guards and the outcome class that would be a violation
        // `op fmt payload prop forbidden-substring`
        if cols.len() >= 5 {
            o.checked(cols[3]);
            if out.contains(cols[4]) {
                o.fail(cols[3], cols[1], &format!("corpus case: outcome contains {:?}", cols[4]), &format!("op={} payload={} out={out}", cols[0], cols[2]));
            }
        }
    }
}
