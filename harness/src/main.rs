//! Verification harness for Narsese.rs: links the crate at /repo, dumps its tables, generates
//! protocol operations with the REAL outputs, and evaluates each property directly on the real code.
//!
//! usage:
//!   harness dump-tables
//!   harness gen <stream> <seed> <n>      → lines `op \t fmt \t payload \t expected`,
//!                                           `!oracle \t prop \t fmt \t what \t detail`, `#stats \t json`
//!   harness exec                          → reads `op \t fmt \t payload` lines on stdin, prints outputs

mod dump;
mod exec;
mod gen;
mod ser;
mod streams;

use std::io::{BufRead, Write};

fn main() {
    std::panic::set_hook(Box::new(|_| {}));
    let args: Vec<String> = std::env::args().collect();
    let out = std::io::stdout();
    let mut out = std::io::BufWriter::new(out.lock());
    match args.get(1).map(|s| s.as_str()) {
        Some("dump-tables") => match dump::dump() {
            Ok(s) => writeln!(out, "{s}").unwrap(),
            Err(e) => {
                eprintln!("dump-tables failed: {e}");
                std::process::exit(2);
            }
        },
        Some("gen") => {
            let stream = args.get(2).expect("stream");
            let seed: u64 = args.get(3).map(|s| s.parse().expect("seed")).unwrap_or(1);
            let n: usize = args.get(4).map(|s| s.parse().expect("n")).unwrap_or(100);
            streams::watchdog();
            if let Err(e) = streams::run(stream, seed, n, &mut out) {
                eprintln!("gen failed: {e}");
                std::process::exit(2);
            }
        }
        Some("exec") => {
            streams::watchdog();
            let stdin = std::io::stdin();
            for line in stdin.lock().lines() {
                let line = line.unwrap();
                if line.starts_with('#') || line.starts_with('!') || line.is_empty() {
                    continue;
                }
                let cols: Vec<&str> = line.split('\t').collect();
                if cols.len() < 3 {
                    writeln!(out, "bad-line").unwrap();
                    continue;
                }
                streams::tick(&line);
                match exec::exec(cols[0], cols[1], cols[2]) {
                    Ok(s) => writeln!(out, "{s}").unwrap(),
                    Err(e) => writeln!(out, "bad-op {e}").unwrap(),
                }
            }
        }
        _ => {
            eprintln!("usage: harness dump-tables | gen <stream> <seed> <n> | exec");
            std::process::exit(2);
        }
    }
}
