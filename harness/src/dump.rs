//! `dump-tables`: everything the Lean model takes from the compiled crate as data.

use nar_dev_utils::{PrefixMatch, SuffixMatch};
use narsese::conversion::string::impl_enum::format_instances as ef;
use narsese::conversion::string::impl_enum::NarseseFormat as EF;
use narsese::conversion::string::impl_lexical::format_instances as lf;
use narsese::conversion::string::impl_lexical::NarseseFormat as LF;
use narsese::conversion::string::typst_formatter as ty;

fn js(s: &str) -> String {
    // JSON string with \u escapes for everything non-ASCII-printable
    let mut o = String::from("\"");
    for c in s.chars() {
        match c {
            '"' => o.push_str("\\\""),
            '\\' => o.push_str("\\\\"),
            c if (c as u32) >= 0x20 && (c as u32) < 0x7f => o.push(c),
            c => {
                let mut buf = [0u16; 2];
                for u in c.encode_utf16(&mut buf) {
                    o.push_str(&format!("\\u{:04x}", u));
                }
            }
        }
    }
    o.push('"');
    o
}

fn ranges(f: impl Fn(char) -> bool) -> String {
    let mut out: Vec<(u32, u32)> = vec![];
    let mut cur: Option<(u32, u32)> = None;
    for n in 0..=0x10FFFFu32 {
        let ok = match char::from_u32(n) {
            Some(c) => f(c),
            None => false,
        };
        match (ok, cur) {
            (true, None) => cur = Some((n, n)),
            (true, Some((a, _))) => cur = Some((a, n)),
            (false, Some(r)) => {
                out.push(r);
                cur = None
            }
            (false, None) => {}
        }
    }
    if let Some(r) = cur {
        out.push(r);
    }
    format!(
        "[{}]",
        out.iter()
            .map(|(a, b)| format!("[{a},{b}]"))
            .collect::<Vec<_>>()
            .join(",")
    )
}

fn kv(k: &str, v: String) -> String {
    format!("{}:{}", js(k), v)
}
fn obj(items: Vec<String>) -> String {
    format!("{{{}}}", items.join(","))
}
fn arr(items: Vec<String>) -> String {
    format!("[{}]", items.join(","))
}

fn enum_format(f: &EF<&str>) -> String {
    let s = |k: &str, v: &str| kv(k, js(v));
    obj(vec![
        kv("isNameTbl", ranges(f.is_valid_atom_name)),
        s("spaceParse", f.space.parse),
        s("spaceTerms", f.space.format_terms),
        s("spaceItems", f.space.format_items),
        s("preWord", f.atom.prefix_word),
        s("prePlaceholder", f.atom.prefix_placeholder),
        s("preIVar", f.atom.prefix_variable_independent),
        s("preDVar", f.atom.prefix_variable_dependent),
        s("preQVar", f.atom.prefix_variable_query),
        s("preInterval", f.atom.prefix_interval),
        s("preOperator", f.atom.prefix_operator),
        s("compL", f.compound.brackets.0),
        s("compR", f.compound.brackets.1),
        s("separator", f.compound.separator),
        s("extSetL", f.compound.brackets_set_extension.0),
        s("extSetR", f.compound.brackets_set_extension.1),
        s("intSetL", f.compound.brackets_set_intension.0),
        s("intSetR", f.compound.brackets_set_intension.1),
        s("cExtInt", f.compound.connecter_intersection_extension),
        s("cIntInt", f.compound.connecter_intersection_intension),
        s("cExtDiff", f.compound.connecter_difference_extension),
        s("cIntDiff", f.compound.connecter_difference_intension),
        s("cProduct", f.compound.connecter_product),
        s("cExtImg", f.compound.connecter_image_extension),
        s("cIntImg", f.compound.connecter_image_intension),
        s("cConj", f.compound.connecter_conjunction),
        s("cDisj", f.compound.connecter_disjunction),
        s("cNeg", f.compound.connecter_negation),
        s("cSeqConj", f.compound.connecter_conjunction_sequential),
        s("cParConj", f.compound.connecter_conjunction_parallel),
        s("stmtL", f.statement.brackets.0),
        s("stmtR", f.statement.brackets.1),
        s("copInh", f.statement.copula_inheritance),
        s("copSim", f.statement.copula_similarity),
        s("copImpl", f.statement.copula_implication),
        s("copEquiv", f.statement.copula_equivalence),
        s("copInstance", f.statement.copula_instance),
        s("copProperty", f.statement.copula_property),
        s("copInstProp", f.statement.copula_instance_property),
        s("copImplPred", f.statement.copula_implication_predictive),
        s("copImplConc", f.statement.copula_implication_concurrent),
        s("copImplRetro", f.statement.copula_implication_retrospective),
        s("copEquivPred", f.statement.copula_equivalence_predictive),
        s("copEquivConc", f.statement.copula_equivalence_concurrent),
        s("copEquivRetro", f.statement.copula_equivalence_retrospective),
        s("pJudgement", f.sentence.punctuation_judgement),
        s("pGoal", f.sentence.punctuation_goal),
        s("pQuestion", f.sentence.punctuation_question),
        s("pQuest", f.sentence.punctuation_quest),
        s("stampL", f.sentence.stamp_brackets.0),
        s("stampR", f.sentence.stamp_brackets.1),
        s("stampPast", f.sentence.stamp_past),
        s("stampPresent", f.sentence.stamp_present),
        s("stampFuture", f.sentence.stamp_future),
        s("stampFixed", f.sentence.stamp_fixed),
        s("truthL", f.sentence.truth_brackets.0),
        s("truthR", f.sentence.truth_brackets.1),
        s("truthSep", f.sentence.truth_separator),
        s("budgetL", f.task.budget_brackets.0),
        s("budgetR", f.task.budget_brackets.1),
        s("budgetSep", f.task.budget_separator),
        // the order `copulas()` yields them (used by the atom look-ahead)
        kv(
            "copulasOrder",
            arr(f.copulas().iter().map(|c| js(c)).collect()),
        ),
    ])
}

fn lex_format(f: &LF) -> String {
    let s = |k: &str, v: &str| kv(k, js(v));
    let pair = |p: &(String, String)| arr(vec![js(&p.0), js(&p.1)]);
    obj(vec![
        kv("isWsTbl", ranges(f.space.is_for_parse)),
        kv(
            "removeSpaces",
            format!("{}", f.space.remove_spaces_before_parse),
        ),
        s("spaceTerms", &f.space.format_terms),
        s("spaceItems", &f.space.format_items),
        kv(
            "atomPrefixes",
            arr(f.atom.prefixes.prefix_terms().map(|x| js(x)).collect()),
        ),
        kv("isIdentTbl", ranges(f.atom.is_identifier)),
        // iteration order of the PREFIX view of the bracket dictionary
        kv(
            "setBrackets",
            arr(PrefixMatch::prefix_terms(&f.compound.set_brackets)
                .map(pair)
                .collect()),
        ),
        kv(
            "setBracketsSuffixOrder",
            arr(SuffixMatch::suffix_terms(&f.compound.set_brackets)
                .map(pair)
                .collect()),
        ),
        s("compL", &f.compound.brackets.0),
        s("compR", &f.compound.brackets.1),
        s("separator", &f.compound.separator),
        kv(
            "connecters",
            arr(f.compound.connecters.prefix_terms().map(|x| js(x)).collect()),
        ),
        s("stmtL", &f.statement.brackets.0),
        s("stmtR", &f.statement.brackets.1),
        kv(
            "copulas",
            arr(f.statement.copulas.prefix_terms().map(|x| js(x)).collect()),
        ),
        kv(
            "punctuations",
            arr(f
                .sentence
                .punctuations
                .suffix_terms()
                .map(|x| js(x))
                .collect()),
        ),
        s("truthL", &f.sentence.truth_brackets.0),
        s("truthR", &f.sentence.truth_brackets.1),
        s("truthSep", &f.sentence.truth_separator),
        kv("isTruthTbl", ranges(f.sentence.is_truth_content)),
        kv(
            "stampBrackets",
            arr(f.sentence.stamp_brackets.suffix_terms().map(pair).collect()),
        ),
        kv("isStampTbl", ranges(f.sentence.is_stamp_content)),
        s("budgetL", &f.task.budget_brackets.0),
        s("budgetR", &f.task.budget_brackets.1),
        s("budgetSep", &f.task.budget_separator),
        kv("isBudgetTbl", ranges(f.task.is_budget_content)),
    ])
}

/// `<str as Debug>` escapes each char independently; classify every scalar value.
fn debug_classes() -> Result<(String, String), String> {
    let mut specials: Vec<String> = vec![];
    let ident = |c: char| format!("{:?}", c.to_string()) == format!("\"{c}\"");
    for n in 0..=0x10FFFFu32 {
        if let Some(c) = char::from_u32(n) {
            let d = format!("{:?}", c.to_string());
            let inner = &d[1..d.len() - 1];
            if inner == c.to_string() {
                continue;
            }
            let uni = format!("\\u{{{:x}}}", n);
            if inner == uni {
                continue;
            }
            if inner.len() == 2 && inner.starts_with('\\') {
                specials.push(arr(vec![format!("{n}"), js(inner)]));
                continue;
            }
            return Err(format!(
                "char U+{n:04X}: Debug gives {d:?}, not one of the three modelled classes"
            ));
        }
    }
    // independence of the per-char escaping: spot-check two-char strings
    for (a, b) in [('a', '\u{301}'), ('\u{301}', 'a'), ('"', '\\'), ('\n', 'x'), ('名', '\u{200d}')] {
        let s: String = [a, b].iter().collect();
        let d = format!("{s:?}");
        let da = format!("{:?}", a.to_string());
        let db = format!("{:?}", b.to_string());
        let expect = format!("\"{}{}\"", &da[1..da.len() - 1], &db[1..db.len() - 1]);
        if d != expect {
            return Err(format!("Debug of {s:?} is not char-wise: {d} vs {expect}"));
        }
    }
    Ok((ranges(ident), arr(specials)))
}

fn typst() -> Result<String, String> {
    let s = |k: &str, v: &str| kv(k, js(v));
    let p = |k: &str, v: (&str, &str)| kv(k, arr(vec![js(v.0), js(v.1)]));
    let (ident, specials) = debug_classes()?;
    Ok(obj(vec![
        kv("isWsTbl", ranges(char::is_whitespace)),
        kv("dbgIdentTbl", ident),
        kv("dbgSpecial", specials),
        s("preWord", ty::TERM_PREFIX_WORD),
        s("prePlaceholder", ty::TERM_PREFIX_PLACEHOLDER),
        s("preIVar", ty::TERM_PREFIX_I_VAR),
        s("preDVar", ty::TERM_PREFIX_D_VAR),
        s("preQVar", ty::TERM_PREFIX_Q_VAR),
        s("preInterval", ty::TERM_PREFIX_INTERVAL),
        s("preOperator", ty::TERM_PREFIX_OPERATOR),
        p("brCompound", ty::BRACKETS_COMPOUND),
        p("brExtSet", ty::BRACKETS_EXT_SET),
        p("brIntSet", ty::BRACKETS_INT_SET),
        p("brStatement", ty::BRACKETS_STATEMENT),
        p("brTruth", ty::BRACKETS_TRUTH),
        p("brBudget", ty::BRACKETS_BUDGET),
        s("sepCompound", ty::SEPARATOR_COMPOUND),
        s("sepStatement", ty::SEPARATOR_STATEMENT),
        s("sepItem", ty::SEPARATOR_ITEM),
        s("sepTruth", ty::SEPARATOR_TRUTH),
        s("sepBudget", ty::SEPARATOR_BUDGET),
        s("cExtInt", ty::CONNECTER_EXT_INTERSECT),
        s("cIntInt", ty::CONNECTER_INT_INTERSECT),
        s("cExtDiff", ty::CONNECTER_EXT_DIFFERENCE),
        s("cIntDiff", ty::CONNECTER_INT_DIFFERENCE),
        s("cProduct", ty::CONNECTER_PRODUCT),
        s("cExtImg", ty::CONNECTER_EXT_IMAGE),
        s("cIntImg", ty::CONNECTER_INT_IMAGE),
        s("cConj", ty::CONNECTER_CONJUNCTION),
        s("cDisj", ty::CONNECTER_DISJUNCTION),
        s("cNeg", ty::CONNECTER_NEGATION),
        s("cSeqConj", ty::CONNECTER_SEQ_CONJUNCTION),
        s("cParConj", ty::CONNECTER_PAR_CONJUNCTION),
        s("copInh", ty::COPULA_INHERITANCE),
        s("copSim", ty::COPULA_SIMILARITY),
        s("copImpl", ty::COPULA_IMPLICATION),
        s("copEquiv", ty::COPULA_EQUIVALENCE),
        s("copImplPred", ty::COPULA_IMPLICATION_PREDICTIVE),
        s("copImplConc", ty::COPULA_IMPLICATION_CONCURRENT),
        s("copImplRetro", ty::COPULA_IMPLICATION_RETROSPECTIVE),
        s("copEquivPred", ty::COPULA_EQUIVALENCE_PREDICTIVE),
        s("copEquivConc", ty::COPULA_EQUIVALENCE_CONCURRENT),
        s("stampEternal", ty::STAMP_ETERNAL),
        s("stampPast", ty::STAMP_PAST),
        s("stampPresent", ty::STAMP_PRESENT),
        s("stampFuture", ty::STAMP_FUTURE),
        s("stampFixed", ty::STAMP_FIXED),
        s("pJudgement", ty::PUNCTUATION_JUDGEMENT),
        s("pGoal", ty::PUNCTUATION_GOAL),
        s("pQuestion", ty::PUNCTUATION_QUESTION),
        s("pQuest", ty::PUNCTUATION_QUEST),
    ]))
}

pub fn dump() -> Result<String, String> {
    Ok(obj(vec![
        kv(
            "enum",
            obj(vec![
                kv("ascii", enum_format(&ef::FORMAT_ASCII)),
                kv("latex", enum_format(&ef::FORMAT_LATEX)),
                kv("han", enum_format(&ef::FORMAT_HAN)),
            ]),
        ),
        kv(
            "lexical",
            obj(vec![
                kv("ascii", lex_format(&lf::FORMAT_ASCII)),
                kv("latex", lex_format(&lf::FORMAT_LATEX)),
                kv("han", lex_format(&lf::FORMAT_HAN)),
            ]),
        ),
        kv("typst", typst()?),
        kv("usizeBits", format!("{}", usize::BITS)),
    ]))
}
