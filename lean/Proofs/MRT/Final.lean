/-
  Master round trip, part 12: `idealize_env` on a spelling, the lexical parser on it, and the final
  statements: both pipelines agree on every spelling (C03) and the spacing is irrelevant (C09).
-/
import Proofs.MRT.Lex
set_option autoImplicit false

namespace Narsese
open EFormat

def stampNumFree (L : LFormat) : Stamp → Bool
  | .fixed t => wsFree L (showInt t)
  | _ => true

/-- no token of the spelling contains a whitespace character -/
def wsFreeSent (F : EFormat) (L : LFormat) (s : SSentence) : Bool :=
  wsFreeST F L s.term && wsFree L (F.fmtPunct s.punct) &&
  wsFree L F.stampL && wsFree L F.stampR && wsFree L (stampKw F (denStamp s.stamp)) &&
  stampNumFree L (denStamp s.stamp) &&
  (truthTexts s.truth).all (wsFree L)

def wsFreeSV (F : EFormat) (L : LFormat) : SValue → Bool
  | .term _ st _ => wsFreeST F L st
  | .sentence _ s => wsFreeSent F L s
  | .task _ k => wsFreeSent F L k.sent && (k.bitems.map (·.x.text)).all (wsFree L)

structure LexSide (F : EFormat) (L : LFormat) : Prop where
  agree : Agree F L
  ws : lWsOKB L = true
  space : spaceWsB F L = true
  brackets : wsFree L F.extSetL = true ∧ wsFree L F.extSetR = true ∧ wsFree L F.intSetL = true ∧ wsFree L F.intSetR = true

def lexSideB (F : EFormat) (L : LFormat) : Bool :=
  agreeB F L && lWsOKB L && spaceWsB F L &&
  (wsFree L F.extSetL && wsFree L F.extSetR && wsFree L F.intSetL && wsFree L F.intSetR)

theorem lexSide_of_bool {F : EFormat} {L : LFormat} (h : lexSideB F L = true) : LexSide F L := by
  simp only [lexSideB, Bool.and_eq_true] at h
  exact ⟨agree_of_bool h.1.1.1, h.1.1.2, h.1.2, h.2.1.1.1, h.2.1.1.2, h.2.1.2, h.2.2⟩

section
variable {F : EFormat} {L : LFormat} (hX : LexSide F L)
include hX

theorem ideal_ws' (n : Nat) : L.idealize (ws F n) = [] := ideal_ws hX.agree hX.ws hX.space hX.brackets n

theorem ideal_snum (s : SNum) (h : wsFree L s.x.text = true) : L.idealize (SNum.txt F s) = s.x.text := by
  simp only [SNum.txt, ideal_append hX.ws, ideal_ws' hX, ideal_free hX.ws _ h, List.nil_append, List.append_nil]

theorem ideal_snums (sep : Str) (hsep : L.idealize sep = sep) (items : List SNum)
    (h : (items.map (·.x.text)).all (wsFree L) = true) :
    L.idealize (joinWith sep (items.map (SNum.txt F))) = joinWith sep (items.map (·.x.text)) := by
  have hj := ideal_join hX.ws sep [] hsep (ideal_nil hX.ws) (items.map (SNum.txt F))
  rw [List.append_nil] at hj
  rw [hj, List.map_map]
  congr 1
  apply List.map_congr_left
  intro s hs
  simp only [Function.comp]
  apply ideal_snum hX
  simp only [List.all_eq_true, List.mem_map] at h
  exact h _ ⟨s, hs, rfl⟩

theorem ideal_sstamp (st : Stamp) (hst : st ≠ .eternal) (a b c : Nat) (h1 : wsFree L F.stampL = true)
    (h2 : wsFree L F.stampR = true) (h3 : wsFree L (stampKw F st) = true)
    (h4 : stampNumFree L st = true) :
    L.idealize (sstampTxt F st a b c) = F.fmtStamp st := by
  simp only [sstampTxt, ideal_append hX.ws, ideal_ws' hX, ideal_free hX.ws _ h1, ideal_free hX.ws _ h2,
    ideal_free hX.ws _ h3, List.nil_append]
  cases st with
  | eternal => exact absurd rfl hst
  | past => simp [stampNum, fmtStamp, stampKw, ideal_nil hX.ws]
  | present => simp [stampNum, fmtStamp, stampKw, ideal_nil hX.ws]
  | future => simp [stampNum, fmtStamp, stampKw, ideal_nil hX.ws]
  | fixed t =>
    simp only [stampNumFree] at h4
    simp only [stampNum, ideal_append hX.ws, ideal_ws' hX, ideal_free hX.ws _ h4, List.nil_append, fmtStamp, stampKw,
      List.append_assoc]

theorem ideal_sentTxt (s : SSentence) (hwf : wfSSent F s = true) (hws : wsFreeSent F L s = true)
    (tr : Truth) (hdtr : denTruth s.truth = some tr) :
    L.idealize (sentTxt F s) = (noSp L).fmtSentence (eraseS F s) := by
  have hA := hX.agree
  simp only [wfSSent, Bool.and_eq_true] at hwf
  simp only [wsFreeSent, Bool.and_eq_true] at hws
  obtain ⟨⟨⟨⟨⟨⟨w1, w2⟩, w3⟩, w4⟩, w5⟩, w6⟩, w7⟩ := hws
  have hterm := ideal_stxt hA hX.ws hX.space hX.brackets s.term hwf.1.1 w1
  -- stamp
  have hstamp : L.idealize (stampPart F s.stamp) = F.fmtStamp (denStamp s.stamp) := by
    cases hs : s.stamp with
    | none => simp [stampPart, denStamp, fmtStamp, ideal_nil hX.ws]
    | some ss =>
      have hwst := hwf.1.2
      rw [hs] at hwst w5 w6
      simp only [wfSStamp, Bool.and_eq_true, Bool.not_eq_true', beq_eq_false_iff_ne, ne_eq] at hwst
      simp only [denStamp] at w5 w6 ⊢
      simp only [stampPart, ideal_append hX.ws, ideal_ws' hX, List.nil_append]
      exact ideal_sstamp hX ss.st hwst.1.1 ss.a ss.b ss.c w3 w4 w5 w6
  -- truth
  have htruth : L.idealize (truthPart F s.truth) = truTxt L (truthTexts s.truth) := by
    cases ht : s.truth with
    | none => simp [truthPart, truthTexts, truTxt, ideal_nil hX.ws]
    | some ts =>
      rw [ht] at hdtr w7
      simp only [denTruth] at hdtr
      obtain ⟨_, hne, _, _⟩ := mkTruth_spec hdtr
      have hine : ts.items ≠ [] := by intro h0; rw [h0] at hne; simp at hne
      have htl : L.idealize F.truthL = F.truthL := by rw [← hA.truthL]; exact ideal_kw hX.ws (by simp)
      have htr : L.idealize F.truthR = F.truthR := by rw [← hA.truthR]; exact ideal_kw hX.ws (by simp)
      have hts : L.idealize F.truthSep = F.truthSep := by rw [← hA.truthSep]; exact ideal_kw hX.ws (by simp)
      simp only [truthTexts] at w7 ⊢
      simp only [truthPart, struthTxt, ideal_append hX.ws, ideal_ws' hX, htl, htr, ideal_snums hX _ hts ts.items w7,
        List.nil_append]
      have : (ts.items.map (·.x.text)).isEmpty = false := by
        cases hi : ts.items with
        | nil => exact absurd hi hine
        | cons a as => simp
      simp only [truTxt, this, Bool.false_eq_true, if_false, hA.truthL, hA.truthR, hA.truthSep, List.append_assoc]
  rw [noSp_fmtSentence]
  simp only [sentTxt, ssentTail, ideal_append hX.ws, ideal_ws' hX, hterm, hstamp, htruth, ideal_free hX.ws _ w2,
    ideal_nil hX.ws, eraseS, List.nil_append, List.append_nil, List.append_assoc]

theorem ideal_svalTxt (hI : ItemsOK F) (sv : SValue) (hwf : wfV F sv = true) (hws : wsFreeSV F L sv = true) (v : Narsese)
    (hden : denVal F sv = some v) : L.idealize (svalTxt F sv) = (noSp L).fmtNarsese (eraseV F sv) := by
  have hA := hX.agree
  cases sv with
  | term lead st trail =>
    simp only [wfV] at hwf
    simp only [wsFreeSV] at hws
    simp only [svalTxt, eraseV, LFormat.fmtNarsese, ideal_append hX.ws, ideal_ws' hX,
      ideal_stxt hA hX.ws hX.space hX.brackets st hwf hws, List.nil_append, List.append_nil]
  | sentence lead s =>
    simp only [wfV] at hwf
    simp only [wsFreeSV] at hws
    simp only [denVal, denSent] at hden
    cases hdt : den F s.term with
    | none => simp [hdt] at hden
    | some t =>
      cases hdtr : denTruth s.truth with
      | none => simp [hdt, hdtr] at hden
      | some tr =>
        simp only [svalTxt, eraseV, LFormat.fmtNarsese, ideal_append hX.ws, ideal_ws' hX,
          ideal_sentTxt hX s hwf hws tr hdtr, List.nil_append]
  | task lead k =>
    simp only [wfV, Bool.and_eq_true] at hwf
    simp only [wsFreeSV, Bool.and_eq_true] at hws
    simp only [denVal, denSent] at hden
    cases hdb : mkBudget (k.bitems.map (·.x)) with
    | none => simp [hdb] at hden
    | some b =>
      cases hdt : den F k.sent.term with
      | none => simp [hdb, hdt] at hden
      | some t =>
        cases hdtr : denTruth k.sent.truth with
        | none => simp [hdb, hdt, hdtr] at hden
        | some tr =>
          have hs := ideal_sentTxt hX k.sent hwf.1 hws.1 tr hdtr
          have hbl : L.idealize F.budgetL = F.budgetL := by rw [← hA.budgetL]; exact ideal_kw hX.ws (by simp)
          have hbr : L.idealize F.budgetR = F.budgetR := by rw [← hA.budgetR]; exact ideal_kw hX.ws (by simp)
          have hbs : L.idealize F.budgetSep = F.budgetSep := by rw [← hA.budgetSep]; exact ideal_kw hX.ws (by simp)
          have hbud : L.idealize (sbudgetTxt F k.e k.bitems) = L.fmtBudget (k.bitems.map (·.x.text)) := by
            simp only [sbudgetTxt, snumsTxt, ideal_append hX.ws, hbl, hbr, LFormat.fmtBudget, hA.budgetL, hA.budgetR,
              hA.budgetSep, List.append_assoc]
            by_cases he : k.bitems = []
            · simp [he, ideal_ws' hX, joinWith]
            · simp only [nonempty_isEmpty he, Bool.false_eq_true, if_false, ideal_snums hX _ hbs k.bitems hws.2]
          have hne : ((noSp L).fmtSentence (eraseS F k.sent)).isEmpty = false := by
            rw [noSp_fmtSentence]
            have hp := (hI.punct (fmtPunct_mem k.sent.punct)).1
            cases hpp : F.fmtPunct k.sent.punct with
            | nil => exact absurd hpp hp
            | cons c cs => simp [eraseS, hpp]
          simp only [svalTxt, taskTxt, eraseV, LFormat.fmtNarsese, ideal_append hX.ws, ideal_ws' hX, hbud, hs,
            List.nil_append]
          rw [noSp_fmtTask]
          simp only [hne, Bool.false_eq_true, if_false]

end

end Narsese

namespace Narsese
open EFormat

/-- decidable criterion for `topSOK` -/
def topSB (F : EFormat) (st : STerm) : Bool :=
  incompat F.budgetL (stxt F st) ||
  (match st with
   | .atom t => topOKB F t
   | _ => false)

theorem topSOK_of_B {F : EFormat} (hI : ItemsOK F) (st : STerm) (hwf : wfS F st = true) (h : topSB F st = true) :
    topSOK F st := by
  simp only [topSB, Bool.or_eq_true] at h
  rcases h with h | h
  · exact .inl (fun X => not_isPre_of_incompat h X)
  · match st, hwf, h with
    | .atom t, hwf, h =>
      simp only [wfS, Bool.and_eq_true] at hwf
      simp only at h
      have := topOK_of_B hI t hwf.2 h
      simpa [topSOK, topOK, stxt] using this

def topVB (F : EFormat) : SValue → Bool
  | .term _ st _ => topSB F st
  | .sentence _ s => topSB F s.term
  | .task _ _ => true

theorem topV_of_B {F : EFormat} (hI : ItemsOK F) (sv : SValue) (hwf : wfV F sv = true) (h : topVB F sv = true) :
    topV F sv := by
  cases sv with
  | term lead st trail => exact topSOK_of_B hI st hwf h
  | sentence lead s =>
    simp only [wfV, wfSSent, Bool.and_eq_true] at hwf
    exact topSOK_of_B hI s.term hwf.1.1 h
  | task lead k => trivial

/-- the lexical parser on any spelling returns the erased value -/
theorem lparse_svalTxt {F : EFormat} {L : LFormat} (hX : LexSide F L) (hI : ItemsOK F) (hLI : LItemsOK L)
    (sv : SValue) (hwf : wfV F sv = true) (hws : wsFreeSV F L sv = true) (v : Narsese)
    (hden : denVal F sv = some v) (hlv : wfLN L (eraseV F sv)) :
    L.lparse (svalTxt F sv) = .ok (eraseV F sv) := by
  unfold LFormat.lparse
  rw [ideal_svalTxt hX hI sv hwf hws v hden]
  have := parse_noSp hLI (eraseV F sv) hlv
  cases hr : L.parseItems ((noSp L).fmtNarsese (eraseV F sv)) with
  | ok m =>
    rw [hr] at this
    simp only [Res.map, Res.ok.injEq] at this
    simp [this, Res.ofOption]
  | err => rw [hr] at this; simp [Res.map] at this
  | panic => rw [hr] at this; simp [Res.map] at this
  | fuel => rw [hr] at this; simp [Res.map] at this

/-- **C03, every spelling**: on any spacing of any surface value — derived copulas included — the enum
parser and the lexical parser followed by folding both succeed and return the same value, the denotation -/
theorem pipelines_agree_surface {F : EFormat} {L : LFormat} (hV : SurfaceItemsOK F) (hO : FoldOK F)
    (hX : LexSide F L) (hLI : LItemsOK L) (sv : SValue) (hwf : wfV F sv = true) (htop : topVB F sv = true)
    (hws : wsFreeSV F L sv = true) (v : Narsese) (hden : denVal F sv = some v) (hlv : wfLN L (eraseV F sv)) :
    F.eparse (svalTxt F sv) = .ok v ∧ (L.lparse (svalTxt F sv)).bind F.foldNarsese = .ok v := by
  refine ⟨eparse_svalTxt hV sv hwf (topV_of_B hV.items sv hwf htop) v hden, ?_⟩
  rw [lparse_svalTxt hX hV.items hLI sv hwf hws v hden hlv]
  exact fold_eraseV hV.items hO sv hwf v hden

/-- **C09**: two spellings of the same token sequence parse to the same value, in both pipelines -/
theorem spacing_irrelevant {F : EFormat} {L : LFormat} (hV : SurfaceItemsOK F) (hO : FoldOK F)
    (hX : LexSide F L) (hLI : LItemsOK L) (sv sw : SValue) (hsame : eraseV F sv = eraseV F sw)
    (hwf : wfV F sv = true) (hwf' : wfV F sw = true) (htop : topVB F sv = true) (htop' : topVB F sw = true)
    (hws : wsFreeSV F L sv = true) (hws' : wsFreeSV F L sw = true)
    (hd : (denVal F sv).isSome = true) (hd' : (denVal F sw).isSome = true) (hlv : wfLN L (eraseV F sv)) :
    F.eparse (svalTxt F sv) = F.eparse (svalTxt F sw) ∧
    (L.lparse (svalTxt F sv)).bind F.foldNarsese = (L.lparse (svalTxt F sw)).bind F.foldNarsese ∧
    F.eparse (svalTxt F sv) = (L.lparse (svalTxt F sv)).bind F.foldNarsese := by
  obtain ⟨v, hv⟩ := Option.isSome_iff_exists.mp hd
  obtain ⟨w, hw⟩ := Option.isSome_iff_exists.mp hd'
  have h1 := pipelines_agree_surface hV hO hX hLI sv hwf htop hws v hv hlv
  have h2 := pipelines_agree_surface hV hO hX hLI sw hwf' htop' hws' w hw (hsame ▸ hlv)
  have e1 := fold_eraseV hV.items hO sv hwf v hv
  have e2 := fold_eraseV hV.items hO sw hwf' w hw
  rw [hsame, e2] at e1
  have hvw : w = v := Res.ok.inj e1
  subst hvw
  exact ⟨h1.1.trans h2.1.symm, h1.2.trans h2.2.symm, h1.1.trans h1.2.symm⟩

/-- any spelling of the token sequence of a well-formed enum value parses to that value -/
theorem respaced_value {F : EFormat} {L : LFormat} (hV : SurfaceItemsOK F) (hO : FoldOK F)
    (hX : LexSide F L) (hLI : LItemsOK L) (v : Narsese) (hv : wfN F v = true) (sv : SValue)
    (hsame : eraseV F sv = toLexN F v) (hwf : wfV F sv = true) (htop : topVB F sv = true)
    (hws : wsFreeSV F L sv = true) (hd : (denVal F sv).isSome = true) (hlv : wfLN L (eraseV F sv)) :
    F.eparse (svalTxt F sv) = .ok v ∧ (L.lparse (svalTxt F sv)).bind F.foldNarsese = .ok v := by
  obtain ⟨w, hw⟩ := Option.isSome_iff_exists.mp hd
  have e1 := fold_eraseV hV.items hO sv hwf w hw
  rw [hsame, fold_toLexN hV.items hO v hv] at e1
  have : v = w := Res.ok.inj e1
  subst this
  exact pipelines_agree_surface hV hO hX hLI sv hwf htop hws v hw hlv

end Narsese
