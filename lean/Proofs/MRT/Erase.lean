/-
  Master round trip, part 4: the lexical tree of a surface tree (`erase`), folding it gives the denotation,
  and `idealize_env` maps the surface string to the space-less lexical text of that tree.
-/
import Proofs.MRT.Main
import Proofs.C03.FoldValue
import Props.C03a
set_option autoImplicit false

namespace Narsese
open EFormat

mutual
  /-- forget the spacing: the lexical term a surface tree is a spelling of -/
  def erase (F : EFormat) : STerm → LTerm
    | .atom t => toLex F t
    | .set ext _ first items _ => .set (F.setL ext) (.cons (erase F first) (erases F items)) (F.setR ext)
    | .compound _ j items _ => .compound (F.connAt j).1 (erases F items)
    | .stmt _ s _ j _ p _ => .stmt (F.copAt j).1 (erase F s) (erase F p)
  def erases (F : EFormat) : SItems → LTerms
    | .nil => .nil
    | .cons _ _ t ts => .cons (erase F t) (erases F ts)
end

/-! ### fold ∘ erase = den -/

theorem extract_shape : ∀ (l : List Term) (i : Nat) (ts' : List Term), extractPlaceholder l = some (i, ts') →
    ∃ pre post, l = pre ++ .placeholder :: post ∧ Props.C10.noPlaceholder pre ∧ i = pre.length ∧ ts' = pre ++ post
  | [], i, ts', h => by simp [extractPlaceholder] at h
  | t :: ts, i, ts', h => by
    unfold extractPlaceholder at h
    split at h
    · next ht =>
      simp only [Option.some.injEq, Prod.mk.injEq] at h
      exact ⟨[], ts, by simp [ht], by intro x hx; simp at hx, by simp [h.1], by simp [h.2]⟩
    · next ht =>
      cases hr : extractPlaceholder ts with
      | none => simp [hr] at h
      | some p =>
        obtain ⟨i', l'⟩ := p
        simp only [hr, Option.map_some, Option.some.injEq, Prod.mk.injEq] at h
        obtain ⟨pre, post, e1, e2, e3, e4⟩ := extract_shape ts i' l' hr
        refine ⟨t :: pre, post, by simp [e1], ?_, by simp [← h.1, e3], by simp [← h.2, e4]⟩
        intro x hx
        simp only [List.mem_cons] at hx
        rcases hx with rfl | hx
        · exact ht
        · exact e2 x hx

/-- whatever the parser's compound tail builds, fold builds too -/
theorem buildCompound_of_finishT (ck : ConnK) (l : List Term) (t : Term) (h : finishT ck l = some t) :
    buildCompound ck l = .ok t := by
  unfold finishT at h
  cases ck with
  | neg =>
    match l, h with
    | [x], h => simp only [Option.some.injEq] at h; simp [buildCompound, h]
  | diff k =>
    match l, h with
    | [a, b], h => simp only [Option.some.injEq] at h; simp [buildCompound, h]
  | img k =>
    simp only at h
    cases he : extractPlaceholder l with
    | none => simp [he] at h
    | some p =>
      obtain ⟨i, ts'⟩ := p
      simp only [he, Option.some.injEq] at h
      obtain ⟨pre, post, e1, e2, e3, e4⟩ := extract_shape l i ts' he
      have := (Props.C10.image_both_pipelines k pre post e2).1
      rw [e1, this, ← h, e3, e4]
  | seq k => simp only [Option.some.injEq] at h; simp [buildCompound, h]
  | set k => simp only [Option.some.injEq] at h; simp [buildCompound, h]
  | operatorUnsupported => simp at h

section
variable {F : EFormat} (hO : FoldOK F)
include hO

mutual
  theorem fold_erase : ∀ (st : STerm), wfS F st = true → ∀ t, den F st = some t → F.foldTerm (erase F st) = .ok t
    | .atom t0, hwf, t, hd => by
      simp only [wfS, Bool.and_eq_true] at hwf
      simp only [den, Option.some.injEq] at hd
      rw [← hd]
      exact fold_toLex hO t0 hwf.2
    | .set ext a first items c, hwf, t, hd => by
      simp only [wfS, Bool.and_eq_true] at hwf
      cases hdf : den F first with
      | none => simp [den, hdf] at hd
      | some f =>
        cases hdl : dens F items with
        | none => simp [den, hdf, hdl] at hd
        | some l =>
          simp only [den, hdf, hdl, Option.some.injEq] at hd
          have h1 := fold_erase first hwf.1 f hdf
          have h2 := folds_erase items hwf.2 l hdl
          simp only [erase, foldTerm, foldTerms, h1, h2]
          rw [← hd]
          cases ext
          · simp only [setL, setR, setK, Bool.false_eq_true, if_false]; exact foldSet_int hO _
          · simp only [setL, setR, setK, if_true]; exact foldSet_ext hO _
    | .compound a j items c, hwf, t, hd => by
      simp only [wfS, Bool.and_eq_true, decide_eq_true_eq, Bool.not_eq_true', beq_eq_false_iff_ne, ne_eq] at hwf
      obtain ⟨⟨⟨hj, hop⟩, _⟩, hwi⟩ := hwf
      cases hdl : dens F items with
      | none => simp [den, hdl] at hd
      | some l =>
        simp only [den, hdl] at hd
        have hmem : F.connAt j ∈ F.connecters := by
          simp only [connAt]
          rw [List.getElem?_eq_getElem hj]; exact List.getElem_mem hj
        have hf := Props.C03.connecter_tables_agree' F _ hmem hop
        simp only [erase, foldTerm, folds_erase items hwi l hdl]
        rw [foldCompound_hit hO (F.connAt j).1 (F.connAt j).2 l hf]
        exact buildCompound_of_finishT _ l t hd
    | .stmt a s b j c p d, hwf, t, hd => by
      simp only [wfS, Bool.and_eq_true, decide_eq_true_eq] at hwf
      obtain ⟨⟨hj, hws⟩, hwp⟩ := hwf
      cases hds : den F s with
      | none => simp [den, hds] at hd
      | some s' =>
        cases hdp : den F p with
        | none => simp [den, hds, hdp] at hd
        | some p' =>
          simp only [den, hds, hdp, Option.some.injEq] at hd
          have hmem : F.copAt j ∈ F.copulaTable := by
            simp only [copAt]
            rw [List.getElem?_eq_getElem hj]; exact List.getElem_mem hj
          simp only [erase, foldTerm, fold_erase s hws s' hds, fold_erase p hwp p' hdp]
          rw [foldStatement_hit hO (F.copAt j).1 (F.copAt j).2 s' p' hmem, hd]
  theorem folds_erase : ∀ (items : SItems), wfSs F items = true → ∀ l, dens F items = some l →
      F.foldTerms (erases F items) = .ok l
    | .nil, _, l, hd => by
      simp only [dens, Option.some.injEq] at hd
      simp [erases, foldTerms, hd]
    | .cons b a t ts, hwf, l, hd => by
      simp only [wfSs, Bool.and_eq_true] at hwf
      cases hdt : den F t with
      | none => simp [dens, hdt] at hd
      | some t' =>
        cases hdl : dens F ts with
        | none => simp [dens, hdt, hdl] at hd
        | some l' =>
          simp only [dens, hdt, hdl, Option.some.injEq] at hd
          simp only [erases, foldTerms, fold_erase t hwf.1 t' hdt, folds_erase ts hwf.2 l' hdl, hd]
end

end

/-! ### `idealize_env` on a surface string -/

/-- the enum parse-space consists of characters the lexical parser deletes -/
def spaceWsB (F : EFormat) (L : LFormat) : Bool := F.spaceParse.all L.isWs

mutual
  /-- the atoms' texts contain no whitespace -/
  def wsFreeST (F : EFormat) (L : LFormat) : STerm → Bool
    | .atom t => wsFreeT L (toLex F t)
    | .set _ _ first items _ => wsFreeST F L first && wsFreeSs F L items
    | .compound _ j items _ => wsFree L (F.connAt j).1 && wsFreeSs F L items
    | .stmt _ s _ j _ p _ => wsFree L (F.copAt j).1 && wsFreeST F L s && wsFreeST F L p
  def wsFreeSs (F : EFormat) (L : LFormat) : SItems → Bool
    | .nil => true
    | .cons _ _ t ts => wsFreeST F L t && wsFreeSs F L ts
end

section
variable {F : EFormat} {L : LFormat} (hA : Agree F L) (hW : lWsOKB L = true) (hSp : spaceWsB F L = true)
  (hB : wsFree L F.extSetL = true ∧ wsFree L F.extSetR = true ∧ wsFree L F.intSetL = true ∧ wsFree L F.intSetR = true)
include hA hW hSp hB

theorem ideal_ws (n : Nat) : L.idealize (ws F n) = [] := by
  induction n with
  | zero => exact ideal_nil hW
  | succ n ih =>
    simp only [ws, ideal_append hW, ih, List.append_nil]
    apply ideal_space hW
    simpa [spaceWsB, List.all_eq_true] using hSp

theorem ideal_setL (ext : Bool) : L.idealize (F.setL ext) = F.setL ext := by
  cases ext
  · exact ideal_free hW _ hB.2.2.1
  · exact ideal_free hW _ hB.1

theorem ideal_setR (ext : Bool) : L.idealize (F.setR ext) = F.setR ext := by
  cases ext
  · exact ideal_free hW _ hB.2.2.2
  · exact ideal_free hW _ hB.2.1

mutual
  theorem ideal_stxt : ∀ (st : STerm), wfS F st = true → wsFreeST F L st = true →
      L.idealize (stxt F st) = (noSp L).fmtTerm (erase F st)
    | .atom t, _, h => by
      simp only [wsFreeST] at h
      simp only [stxt, erase]
      rw [← fmt_toLex hA t]
      exact ideal_term hW _ h
    | .set ext a first items c, hwf, h => by
      simp only [wsFreeST, Bool.and_eq_true] at h
      simp only [wfS, Bool.and_eq_true] at hwf
      have h1 := ideal_stxt first hwf.1 h.1
      have h2 := ideal_items items hwf.2 h.2
      simp only [stxt, erase, ideal_append hW, ideal_ws hA hW hSp hB, ideal_setL hA hW hSp hB, ideal_setR hA hW hSp hB,
        h1, h2, List.nil_append]
      simp only [LFormat.fmtTerm, LFormat.fmtTerms, LFormat.joinComponents, noSp, List.append_nil,
        joinWith_cons_tail, List.append_assoc, hA.separator]
    | .compound a j items c, hwf, h => by
      simp only [wsFreeST, Bool.and_eq_true] at h
      simp only [wfS, Bool.and_eq_true, decide_eq_true_eq, Bool.not_eq_true', beq_eq_false_iff_ne, ne_eq] at hwf
      have h2 := ideal_items items hwf.2 h.2
      have hcl : L.idealize F.compL = F.compL := by rw [← hA.compL]; exact ideal_kw hW (by simp)
      have hcr : L.idealize F.compR = F.compR := by rw [← hA.compR]; exact ideal_kw hW (by simp)
      simp only [stxt, erase, ideal_append hW, ideal_ws hA hW hSp hB, hcl, hcr, ideal_free hW _ h.1, h2,
        List.nil_append]
      cases items with
      | nil => simp at hwf
      | cons b' a' t' ts' =>
        simp only [erases, LFormat.fmtTerm, LFormat.fmtTerms, LFormat.joinComponents, noSp, List.append_nil,
          joinWith_cons_tail, tailL, List.append_assoc, hA.compL, hA.compR, hA.separator]
    | .stmt a s b j c p d, hwf, h => by
      simp only [wsFreeST, Bool.and_eq_true] at h
      simp only [wfS, Bool.and_eq_true, decide_eq_true_eq] at hwf
      have hsl : L.idealize F.stmtL = F.stmtL := by rw [← hA.stmtL]; exact ideal_kw hW (by simp)
      have hsr : L.idealize F.stmtR = F.stmtR := by rw [← hA.stmtR]; exact ideal_kw hW (by simp)
      simp only [stxt, erase, ideal_append hW, ideal_ws hA hW hSp hB, hsl, hsr, ideal_free hW _ h.1.1,
        ideal_stxt s hwf.1.2 h.1.2, ideal_stxt p hwf.2 h.2, List.nil_append]
      simp only [LFormat.fmtTerm, noSp, List.append_nil, List.append_assoc, hA.stmtL, hA.stmtR]
  /-- the items: each preceded by the separator -/
  theorem ideal_items : ∀ (items : SItems), wfSs F items = true → wsFreeSs F L items = true →
      L.idealize (itemsTxt F items) = tailL F.separator (LFormat.fmtTerms (noSp L) (erases F items))
    | .nil, _, _ => by simp only [itemsTxt, erases, LFormat.fmtTerms, tailL]; exact ideal_nil hW
    | .cons b a t ts, hwf, h => by
      simp only [wsFreeSs, Bool.and_eq_true] at h
      simp only [wfSs, Bool.and_eq_true] at hwf
      have hsep : L.idealize F.separator = F.separator := by rw [← hA.separator]; exact ideal_kw hW (by simp)
      simp only [itemsTxt, erases, LFormat.fmtTerms, tailL, ideal_append hW, ideal_ws hA hW hSp hB, hsep,
        ideal_stxt t hwf.1 h.1, ideal_items ts hwf.2 h.2, List.nil_append, List.append_assoc]
end

end

end Narsese
