/-
  Master round trip, part 13: an executable family of spellings of an enum value — the formatter's token
  sequence with `σ`-many spaces at every token boundary, optionally written with the derived copulas.
  Used by the driver to produce instances of the master theorem that are then run on the real crate.
-/
import Proofs.MRT.Final
set_option autoImplicit false

namespace Narsese
open EFormat

def connIdxSet : SetK → Nat
  | .conj => 1 | .disj => 2 | .parConj => 5 | .extInt => 6 | .intInt => 7 | _ => 0
def connIdxSeq : SeqK → Nat
  | .seqConj => 4 | .product => 10
def connIdxImg : ImgK → Nat
  | .ext => 11 | .int => 12
def copIdx : BinK → Nat
  | .inh => 0 | .sim => 1 | .impl => 2 | .equiv => 3 | .implPred => 7 | .implConc => 8 | .implRetro => 9
  | .equivPred => 10 | .equivConc => 11 | .extDiff => 8 | .intDiff => 9

mutual
  /-- spelling of a term: `σ` gives the number of spaces at each boundary (indexed by a path code `i`);
  `sugar` writes `inh({s}, p)`, `inh(s, [p])`, `inh({s}, [p])` and predictive equivalence with the derived copulas -/
  def toS (σ : Nat → Nat) (sugar : Bool) : Nat → Term → STerm
    | _, .atom k n => .atom (.atom k n)
    | _, .placeholder => .atom .placeholder
    | _, .interval n => .atom (.interval n)
    | i, .setlike k ts =>
      match k, ts with
      | .extSet, .cons t ts' => .set true (σ i) (toS σ sugar (5 * i + 1) t) (toSItems σ sugar (5 * i + 2) ts') (σ (i + 1))
      | .intSet, .cons t ts' => .set false (σ i) (toS σ sugar (5 * i + 1) t) (toSItems σ sugar (5 * i + 2) ts') (σ (i + 1))
      | k, ts => .compound (σ i) (connIdxSet k) (toSItems σ sugar (5 * i + 2) ts) (σ (i + 1))
    | i, .seqlike k ts => .compound (σ i) (connIdxSeq k) (toSItems σ sugar (5 * i + 2) ts) (σ (i + 1))
    | i, .image k idx ts => .compound (σ i) (connIdxImg k) (toSImage σ sugar idx (5 * i + 2) 0 ts) (σ (i + 1))
    | i, .neg t => .compound (σ i) 3 (.cons (σ (i + 2)) (σ (i + 3)) (toS σ sugar (5 * i + 1) t) .nil) (σ (i + 1))
    | i, .bin k a b =>
      if k.isStatement then
        let plain := STerm.stmt (σ i) (toS σ sugar (5 * i + 1) a) (σ (i + 1)) (copIdx k) (σ (i + 2))
          (toS σ sugar (5 * i + 2) b) (σ (i + 3))
        if sugar then
          match k, a, b with
          | .inh, .setlike .extSet (.cons s .nil), .setlike .intSet (.cons p .nil) =>
            .stmt (σ i) (toS σ sugar (5 * i + 1) s) (σ (i + 1)) 6 (σ (i + 2)) (toS σ sugar (5 * i + 2) p) (σ (i + 3))
          | .inh, .setlike .extSet (.cons s .nil), p =>
            .stmt (σ i) (toS σ sugar (5 * i + 1) s) (σ (i + 1)) 4 (σ (i + 2)) (toS σ sugar (5 * i + 2) p) (σ (i + 3))
          | .inh, s, .setlike .intSet (.cons p .nil) =>
            .stmt (σ i) (toS σ sugar (5 * i + 1) s) (σ (i + 1)) 5 (σ (i + 2)) (toS σ sugar (5 * i + 2) p) (σ (i + 3))
          | .equivPred, s, p =>
            .stmt (σ i) (toS σ sugar (5 * i + 2) p) (σ (i + 1)) 12 (σ (i + 2)) (toS σ sugar (5 * i + 1) s) (σ (i + 3))
          | _, _, _ => plain
        else plain
      else
        .compound (σ i) (copIdx k) (.cons (σ (i + 2)) (σ (i + 3)) (toS σ sugar (5 * i + 1) a)
          (.cons (σ (i + 4)) (σ (i + 5)) (toS σ sugar (5 * i + 2) b) .nil)) (σ (i + 1))
  def toSItems (σ : Nat → Nat) (sugar : Bool) : Nat → Terms → SItems
    | _, .nil => .nil
    | i, .cons t ts => .cons (σ (i + 6)) (σ (i + 7)) (toS σ sugar (5 * i + 3) t) (toSItems σ sugar (5 * i + 4) ts)
  def toSImage (σ : Nat → Nat) (sugar : Bool) (idx : Nat) : Nat → Nat → Terms → SItems
    | i, now, .nil => if now = idx then .cons (σ (i + 6)) (σ (i + 7)) (.atom .placeholder) .nil else .nil
    | i, now, .cons t ts =>
      if now = idx then
        .cons (σ (i + 6)) (σ (i + 7)) (.atom .placeholder)
          (.cons (σ (i + 8)) (σ (i + 9)) (toS σ sugar (5 * i + 3) t) (toSImage σ sugar idx (5 * i + 4) (now + 2) ts))
      else .cons (σ (i + 6)) (σ (i + 7)) (toS σ sugar (5 * i + 3) t) (toSImage σ sugar idx (5 * i + 4) (now + 1) ts)
end

def toSNums (σ : Nat → Nat) (i : Nat) : List Num → List SNum
  | [] => []
  | x :: xs => { pre := σ (i + 1), x := x, post := σ (i + 2) } :: toSNums σ (3 * i + 1) xs

def toSSent (F : EFormat) (σ : Nat → Nat) (sugar : Bool) (s : Sentence) : SSentence :=
  { term := toS σ sugar 1 s.term, n1 := σ 100, punct := s.punct,
    stamp := if s.stamp = .eternal then none
      else some { n := σ 101, a := if F.stampL.isEmpty then 0 else σ 102, b := σ 103, c := σ 104, st := s.stamp },
    truth := if s.truthOrEmpty = .empty then none
      else some { n := σ 105, items := toSNums σ 106 s.truthOrEmpty.components },
    trail := σ 107 }

/-- a spelling of a whole value -/
def spell (F : EFormat) (σ : Nat → Nat) (sugar : Bool) : Narsese → SValue
  | .term t => .term (σ 200) (toS σ sugar 1 t) (σ 201)
  | .sentence s => .sentence (σ 200) (toSSent F σ sugar s)
  | .task k =>
    let st : STask := { e := σ 202, bitems := toSNums σ 203 k.budget.components, n0 := σ 204, sent := toSSent F σ sugar k.sentence }
    .task (σ 200) st

/-- all decidable hypotheses of `pipelines_agree_surface` for a spelling, and that it denotes `v` -/
def spellOK (F : EFormat) (L : LFormat) (sv : SValue) (v : Narsese) : Bool :=
  wfV F sv && topVB F sv && wsFreeSV F L sv && wfLNB L (eraseV F sv) && (denVal F sv == some v)

end Narsese
