/-
  Master round trip (surface strings with arbitrary spacing and derived copulas), part 1:
  runs of spaces.
-/
import Proofs.RT.Top
set_option autoImplicit false

namespace Narsese
open EFormat

/-- `n` parse-spaces -/
def ws (F : EFormat) : Nat → Str
  | 0 => []
  | n + 1 => F.spaceParse ++ ws F n

/-- more fuel than the text is long changes nothing -/
theorem skipSpAux_succ (sp : Str) (hsp : sp ≠ []) : ∀ (k : Nat) (t : Str), t.length ≤ k →
    skipSpAux sp (k + 1) t = skipSpAux sp k t
  | 0, t, h => by
    have : t = [] := List.length_eq_zero_iff.mp (by omega)
    subst this
    cases sp with
    | nil => exact absurd rfl hsp
    | cons a as => simp [skipSpAux, strip]
  | k + 1, t, h => by
    rw [skipSpAux, skipSpAux]
    cases hs : strip sp t with
    | none => rfl
    | some r =>
      have hlen := strip_length _ _ _ hs
      have := ne_nil_length hsp
      exact skipSpAux_succ sp hsp k r (by omega)

theorem skipSpAux_more (sp : Str) (hsp : sp ≠ []) (t : Str) : ∀ (d : Nat), skipSpAux sp (t.length + d) t = skipSpAux sp t.length t
  | 0 => rfl
  | d + 1 => by
    rw [← Nat.add_assoc, skipSpAux_succ sp hsp _ t (by omega)]
    exact skipSpAux_more sp hsp t d

section
variable {F : EFormat} (hF : FormatOK F) (len : Nat)
include hF

theorem skipSpaces_ws (n : Nat) (s : Str) (h : isPre F.spaceParse s = false) :
    F.skipSpaces (mk len (ws F n ++ s)) = mk len s := by
  induction n with
  | zero => simpa [ws] using skipSpaces_noprefix F len s h
  | succ n ih =>
    have hspne : F.spaceParse ≠ [] := hF.sane.space_ne
    have hl : 1 ≤ F.spaceParse.length := ne_nil_length hspne
    simp only [ws, List.append_assoc]
    simp only [skipSpaces, mk, beq_self_eq_true, if_true] at ih ⊢
    have e : (F.spaceParse ++ (ws F n ++ s)).length = (F.spaceParse.length - 1 + (ws F n ++ s).length) + 1 := by
      simp only [List.length_append]; omega
    rw [e, skipSpAux, strip_append]
    simp only
    have key : skipSpAux F.spaceParse (F.spaceParse.length - 1 + (ws F n ++ s).length) (ws F n ++ s) =
        skipSpAux F.spaceParse (ws F n ++ s).length (ws F n ++ s) := by
      rw [Nat.add_comm]; exact skipSpAux_more _ hspne _ _
    rw [key]
    have := congrArg Cur.rest ih
    simpa using this

theorem ws_no_space_after (n : Nat) (s : Str) (h : isPre F.spaceParse s = false) :
    (n = 0 → isPre F.spaceParse (ws F n ++ s) = false) := by
  intro h0; subst h0; simpa [ws] using h

theorem skipAndSpaces_ws (k : Str) (n : Nat) (s : Str) (h : isPre F.spaceParse s = false) :
    F.skipAndSpaces (mk len (k ++ (ws F n ++ s))) k = mk len s := by
  simp only [skipAndSpaces, mk_skip, skipSpaces_ws hF len n s h]

theorem skipAfterSpaces_ws (k : Str) (n : Nat) (s : Str) (h : isPre F.spaceParse (k ++ s) = false) :
    F.skipAfterSpaces (mk len (ws F n ++ (k ++ s))) k = mk len s := by
  simp only [skipAfterSpaces, skipSpaces_ws hF len n _ h, mk_skip]

/-- what follows a term when spaces come next -/
theorem stop_ws (n : Nat) (Y : Str) (hY : Stop F Y) : Stop F (ws F n ++ Y) := by
  cases n with
  | zero => simpa [ws] using hY
  | succ n =>
    obtain ⟨hne, hh⟩ := terminator_parts hF (hF.terminator (x := F.spaceParse) (by simp))
    simp only [ws, List.append_assoc]
    exact stop_of_kw F _ _ hne hh

/-- the component loop skips a run of spaces -/
theorem loop_ws {rb : Str} (Y : Str) (acc : List Term) (res : List Term × Cur)
    (cont : ∀ fuel', R (F.parseTerms fuel' rb (mk len Y) acc) res) :
    ∀ (n fuel : Nat), R (F.parseTerms fuel rb (mk len (ws F n ++ Y)) acc) res
  | 0, fuel => by simpa [ws] using cont fuel
  | n + 1, 0 => R_fuel _
  | n + 1, fuel + 1 => by
    have hspne : F.spaceParse ≠ [] := hF.sane.space_ne
    have hc : (F.spaceParse ++ (ws F n ++ Y)).isEmpty = false := by cases hs : F.spaceParse <;> simp_all
    simp only [ws, List.append_assoc]
    unfold parseTerms
    simp only [mk_canConsume, hc, mk_startsWith, isPre_append, Bool.not_false, Bool.false_eq_true, if_false, if_true,
      mk_skip]
    exact loop_ws Y acc res cont n fuel

/-- the component loop skips a separator -/
theorem loop_sep {rb : Str} (Y : Str) (acc : List Term) (res : List Term × Cur)
    (cont : ∀ fuel', R (F.parseTerms fuel' rb (mk len Y) acc) res) (fuel : Nat) :
    R (F.parseTerms fuel rb (mk len (F.separator ++ Y)) acc) res := by
  cases fuel with
  | zero => exact R_fuel _
  | succ fuel =>
    obtain ⟨hsne, _⟩ := terminator_parts hF (hF.terminator (x := F.separator) (by simp))
    have e1 : isPre F.spaceParse (F.separator ++ Y) = false := not_isPre_of_incompat hF.sp_sep Y
    have hc : (F.separator ++ Y).isEmpty = false := by cases hs : F.separator <;> simp_all
    unfold parseTerms
    simp only [mk_canConsume, hc, mk_startsWith, e1, isPre_append, Bool.not_false, Bool.false_eq_true, if_false,
      if_true, mk_skip]
    exact cont fuel

end

end Narsese
