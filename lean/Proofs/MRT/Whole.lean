/-
  Master round trip, part 10: the enum entry point on whole surface values.
-/
import Proofs.MRT.Value
set_option autoImplicit false

namespace Narsese
open EFormat

theorem transform_line (c : Cur) (ob : Option Budget) (t : Term) (p : Punct) (st : Stamp) (tr : Truth) :
    transformMid c (withTruth (withStamp { budget := ob, term := some t, punct := some p } st) tr) =
      .ok (match ob with
        | some b => .task { sentence := Sentence.fromPunctuation t p st tr, budget := b }
        | none => .sentence (Sentence.fromPunctuation t p st tr), {}) := by
  by_cases h1 : st = .eternal <;> by_cases h2 : tr = .empty <;> cases ob <;>
    simp [transformMid, withTruth, withStamp, h1, h2]

/-- the whole-value condition on the term in front (only for values without a budget) -/
def topV (F : EFormat) : SValue → Prop
  | .term _ st _ => topSOK F st
  | .sentence _ s => topSOK F s.term
  | .task _ _ => True

def wfV (F : EFormat) : SValue → Bool
  | .term _ st _ => wfS F st
  | .sentence _ s => wfSSent F s
  | .task _ k => wfSSent F k.sent && k.bitems.all (fun i => i.x.ok)

section
variable {F : EFormat} (hV : SurfaceItemsOK F)
include hV

theorem sentTxt_facts (s : SSentence) (hwf : wfSSent F s = true) (X : Str) :
    isPre F.spaceParse (sentTxt F s ++ X) = false ∧ sentTxt F s ≠ [] := by
  simp only [wfSSent, Bool.and_eq_true] at hwf
  have hst := stxt_starts hV.surf s.term hwf.1.1
  constructor
  · simp only [sentTxt, List.append_assoc]
    exact starts_no_space hV.items.base (hst _)
  · intro h0
    have := hst (ssentTail F s)
    simp only [sentTxt] at h0
    rw [h0] at this
    rcases this with ⟨k, hk, hp⟩ | ⟨c, cs, h2, _⟩
    · have hk0 : k = [] := by
        obtain ⟨r, hr⟩ := (isPre_iff k _).mp hp
        cases k with
        | nil => rfl
        | cons a as => simp at hr
      subst hk0
      simp only [starters, List.mem_append] at hk
      rcases hk with hk | hk
      · exact (hV.items.base.opener hk).1 rfl
      · exact hV.items.base.prefix_ne hk rfl
    · simp at h2

/-- **master theorem, enum side**: the entry point on any spelling of a value returns its denotation -/
theorem eparse_svalTxt (sv : SValue) (hwf : wfV F sv = true) (htop : topV F sv) (v : Narsese)
    (hden : denVal F sv = some v) : F.eparse (svalTxt F sv) = .ok v := by
  have hI := hV.items
  cases sv with
  | term lead st trail =>
    simp only [wfV] at hwf
    simp only [denVal] at hden
    cases hdt : den F st with
    | none => simp [hdt] at hden
    | some t =>
      simp only [hdt, Option.map_some, Option.some.injEq] at hden
      subst hden
      let len := (svalTxt F (.term lead st trail)).length
      have hstop : Stop F (ws F trail) := by
        have := stop_ws hI.base trail [] (stop_nil F)
        simpa using this
      have hns := starts_no_space hI.base (stxt_starts hV.surf st hwf (ws F trail))
      have hterm := parseTerm_stxt hV.surf len st hwf t hdt (ws F trail) hstop
        (termFuel (mk len (stxt F st ++ ws F trail))) (by simp [termFuel, mk]; omega)
      have h1 := consumeOne_term hI len {} rfl (stxt F st ++ ws F trail) (ws F trail) t hns
        (by
          rcases htop with hb | hb
          · exact .inr (.inl (hb _))
          · exact .inr (.inr (hb len _)))
        hterm
      have hne : stxt F st ++ ws F trail ≠ [] := by
        have := (sentTxt_facts hV { term := st, n1 := 0, punct := .judgement, stamp := none, truth := none, trail := 0 }
          (by simp [wfSSent, hwf, wfSStamp, wfSTruth]) []).2
        intro h0
        apply this
        simp only [sentTxt]
        have : stxt F st = [] := (List.append_eq_nil_iff.mp h0).1
        -- a well-formed term's text is never empty
        exact absurd this (by
          intro h00
          have hs := stxt_starts hV.surf st hwf []
          rw [h00] at hs
          rcases hs with ⟨k, hk, hp⟩ | ⟨c, cs, h2, _⟩
          · have hk0 : k = [] := by
              obtain ⟨r, hr⟩ := (isPre_iff k _).mp hp
              cases k with
              | nil => rfl
              | cons a as => simp at hr
            subst hk0
            simp only [starters, List.mem_append] at hk
            rcases hk with hk | hk
            · exact (hI.base.opener hk).1 rfl
            · exact hI.base.prefix_ne hk rfl
          · simp at h2)
      refine runState_of_R hI.base.sane (svalTxt F (.term lead st trail)) { term := some t } (.term t) _ ?_ rfl
      exact bm_step len _ _ _ _ _ _ (lands_ws hV len lead _ hns hne) h1 (bm_end_ws hV len _ trail)
  | sentence lead s =>
    simp only [wfV] at hwf
    simp only [denVal, denSent] at hden
    cases hdt : den F s.term with
    | none => simp [hdt] at hden
    | some t =>
      cases hdtr : denTruth s.truth with
      | none => simp [hdt, hdtr] at hden
      | some tr =>
        simp only [hdt, hdtr, Option.map_some, Option.some.injEq] at hden
        subst hden
        let len := (svalTxt F (.sentence lead s)).length
        obtain ⟨hns, hne⟩ := sentTxt_facts hV s hwf []
        rw [List.append_nil] at hns
        refine runState_of_R hI.base.sane (svalTxt F (.sentence lead s)) _ _ {} ?_
          (transform_line (mk len []) none t s.punct (denStamp s.stamp) tr)
        exact bm_sentenceW hV len {} rfl rfl rfl rfl s hwf t hdt tr hdtr (.inr htop) _
          (lands_ws hV len lead _ hns hne)
  | task lead k =>
    simp only [wfV, Bool.and_eq_true, List.all_eq_true] at hwf
    simp only [denVal, denSent] at hden
    cases hdb : mkBudget (k.bitems.map (·.x)) with
    | none => simp [hdb] at hden
    | some b =>
      cases hdt : den F k.sent.term with
      | none => simp [hdb, hdt] at hden
      | some t =>
        cases hdtr : denTruth k.sent.truth with
        | none => simp [hdb, hdt, hdtr] at hden
        | some tr =>
          simp only [hdb, hdt, hdtr, Option.some.injEq] at hden
          subst hden
          let len := (svalTxt F (.task lead k)).length
          obtain ⟨hns, hne⟩ := sentTxt_facts hV k.sent hwf.1 []
          rw [List.append_nil] at hns
          obtain ⟨_, hbne, hbsp⟩ := hI.budgetList
          have h1 := consumeOne_budgetW hI len {} rfl k.e k.bitems hwf.2 b hdb (ws F k.n0 ++ sentTxt F k.sent)
          have hLb : Lands F len (mk len (ws F lead ++ taskTxt F k)) (taskTxt F k) :=
            lands_ws hV len lead _ (by
              simp only [taskTxt, sbudgetTxt, List.append_assoc]; exact not_isPre_of_incompat hbsp _)
              (by simp [taskTxt, sbudgetTxt, hbne])
          refine runState_of_R hI.base.sane (svalTxt F (.task lead k)) _ _ {} ?_
            (transform_line (mk len []) (some b) t k.sent.punct (denStamp k.sent.stamp) tr)
          refine bm_step len _ _ _ _ _ _ hLb h1 ?_
          exact bm_sentenceW hV len { budget := some b } rfl rfl rfl rfl k.sent hwf.1 t hdt tr hdtr (.inl rfl) _
            (lands_ws hV len k.n0 _ hns hne)

end

end Narsese
