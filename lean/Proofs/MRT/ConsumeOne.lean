/-
  Master round trip, part 8: `consume_one` on the spaced truth and budget.
-/
import Proofs.MRT.Stamp
set_option autoImplicit false

namespace Narsese
open EFormat

def mkTruth : List Num → Option Truth
  | [f] => some (.single f)
  | [f, c] => some (.double f c)
  | _ => none

def mkBudget : List Num → Option Budget
  | [] => some .empty
  | [p] => some (.single p)
  | [p, d] => some (.double p d)
  | [p, d, q] => some (.triple p d q)
  | _ => none

theorem mkTruth_spec {xs : List Num} {tr : Truth} (h : mkTruth xs = some tr) :
    tr.components = xs ∧ xs ≠ [] ∧ xs.length ≤ 2 ∧ tr ≠ .empty := by
  match xs, h with
  | [f], h => simp only [mkTruth, Option.some.injEq] at h; subst h; simp [Truth.components]
  | [f, c], h => simp only [mkTruth, Option.some.injEq] at h; subst h; simp [Truth.components]

theorem mkBudget_spec {xs : List Num} {b : Budget} (h : mkBudget xs = some b) :
    b.components = xs ∧ xs.length ≤ 3 := by
  match xs, h with
  | [], h => simp only [mkBudget, Option.some.injEq] at h; subst h; simp [Budget.components]
  | [p], h => simp only [mkBudget, Option.some.injEq] at h; subst h; simp [Budget.components]
  | [p, d], h => simp only [mkBudget, Option.some.injEq] at h; subst h; simp [Budget.components]
  | [p, d, q], h => simp only [mkBudget, Option.some.injEq] at h; subst h; simp [Budget.components]

section
variable {F : EFormat} (hI : ItemsOK F) (len : Nat)
include hI

theorem consumeOne_budgetW (m : Mid) (hm : m.budget = none) (e : Nat) (items : List SNum)
    (hok : ∀ s ∈ items, s.x.ok = true) (b : Budget) (hb : mkBudget (items.map (·.x)) = some b) (Y : Str) :
    F.consumeOne (mk len (sbudgetTxt F e items ++ Y)) m = .ok (mk len Y, { m with budget := some b }) := by
  obtain ⟨_, hne, hsp⟩ := hI.budgetList
  obtain ⟨hcomp, hlen⟩ := mkBudget_spec hb
  have hns : isPre F.spaceParse (sbudgetTxt F e items ++ Y) = false := by
    simp only [sbudgetTxt, List.append_assoc]; exact not_isPre_of_incompat hsp _
  unfold consumeOne
  simp only [mk_startsWith, hns, Bool.false_eq_true, if_false]
  refine alt_hit _ _ _ _ _ ?_ ?_
  · simp [hm, sbudgetTxt, isPre_append]
  · rw [consumeBudget_spaced hI len e items (by simpa using hlen) hok Y b hcomp]; rfl

theorem consumeOne_truthW (m : Mid) (t : Term) (p : Punct) (hm : m.term = some t) (hp : m.punct = some p)
    (htr : m.truth = none) (items : List SNum) (hok : ∀ s ∈ items, s.x.ok = true) (tr : Truth)
    (hmk : mkTruth (items.map (·.x)) = some tr) (Y : Str) :
    F.consumeOne (mk len (struthTxt F items ++ Y)) m = .ok (mk len Y, { m with truth := some tr }) := by
  obtain ⟨_, hlne, hsp⟩ := hI.truthList
  obtain ⟨hcomp, hne0, hlen, _⟩ := mkTruth_spec hmk
  have hine : items ≠ [] := by intro h0; rw [h0] at hne0; simp at hne0
  have e : struthTxt F items ++ Y =
      F.truthL ++ (joinWith F.truthSep (items.map (SNum.txt F)) ++ F.truthR ++ Y) := by
    simp [struthTxt, List.append_assoc]
  have hns : isPre F.spaceParse (struthTxt F items ++ Y) = false := by
    rw [e]; exact not_isPre_of_incompat hsp _
  have hnb : isPre F.budgetL (struthTxt F items ++ Y) = false := by
    rw [e]; exact not_isPre_of_incompat hI.split.2.2.2.2.2.2.2.2.2.2 _
  have hfin : ∀ now : Cur, now = mk len (struthTxt F items ++ Y) →
      alt (fun now => now.startsWith F.truthL && m.truth.isNone)
        (liftStep (F.consumeTruth (mk len (struthTxt F items ++ Y))) (fun t => { m with truth := some t }))
        (fun now => raise now) now = .ok (mk len Y, { m with truth := some tr }) := by
    intro now hnow
    refine alt_hit _ _ _ _ _ ?_ ?_
    · simp [hnow, htr, e, isPre_append]
    · rw [consumeTruth_spaced hI len items hine (by simpa using hlen) hok Y tr hcomp]; rfl
  unfold consumeOne
  simp only [mk_startsWith, hns, Bool.false_eq_true, if_false]
  refine (alt_skip _ _ _ _ ?_).trans ?_
  · simp [hnb]
  refine (alt_skip _ _ _ _ ?_).trans ?_
  · simp [hm]
  refine (alt_skip _ _ _ _ ?_).trans ?_
  · simp [hp]
  by_cases hg : ((mk len (struthTxt F items ++ Y)).startsWith F.stampL && m.stamp.isNone) = true
  · have hl : F.stampL = [] := by
      by_cases hl : F.stampL = []
      · exact hl
      · have := hI.split.2.2.2.2.2.1
        simp only [nonempty_isEmpty hl, Bool.false_or, Bool.and_eq_true] at this
        simp [e, not_isPre_of_incompat this.2 _] at hg
    refine (alt_err _ _ _ _ (mk len (struthTxt F items ++ Y)) hg ?_).trans (hfin _ rfl)
    rw [e, consumeStamp_on_truth hI len hl]; rfl
  · exact (alt_skip _ _ _ _ (Bool.eq_false_iff.mpr hg)).trans (hfin _ rfl)

end

end Narsese
