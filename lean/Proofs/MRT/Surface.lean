/-
  Master round trip, part 2: surface syntax trees — the token structure of a Narsese term together with the
  number of spaces at every token boundary and the copula / connecter actually written (so the derived
  copulas are included) — their text, and what they denote.
-/
import Proofs.MRT.Ws
set_option autoImplicit false

namespace Narsese
open EFormat

mutual
  inductive STerm where
    /-- an atomic enum term, printed as the formatter prints it -/
    | atom (t : Term)
    /-- `l ␣ᵃ first items ␣ᶜ r` with the extension (`true`) or intension brackets -/
    | set (ext : Bool) (a : Nat) (first : STerm) (items : SItems) (c : Nat)
    /-- `( ␣ᵃ connecter items ␣ᶜ )`, connecter = entry `j` of the parser's connecter table -/
    | compound (a : Nat) (j : Nat) (items : SItems) (c : Nat)
    /-- `< ␣ᵃ s ␣ᵇ copula ␣ᶜ p ␣ᵈ >`, copula = entry `j` of the parser's copula table (derived ones included) -/
    | stmt (a : Nat) (s : STerm) (b : Nat) (j : Nat) (c : Nat) (p : STerm) (d : Nat)
  inductive SItems where
    | nil
    /-- `␣ᵇ separator ␣ᵃ t` -/
    | cons (b a : Nat) (t : STerm) (ts : SItems)
end

namespace EFormat

def connAt (F : EFormat) (j : Nat) : Str × ConnK := (F.connecters[j]?).getD ([], .operatorUnsupported)
def copAt (F : EFormat) (j : Nat) : Str × CopK := (F.copulaTable[j]?).getD ([], .plain .inh)
def setL (F : EFormat) (ext : Bool) : Str := if ext then F.extSetL else F.intSetL
def setR (F : EFormat) (ext : Bool) : Str := if ext then F.extSetR else F.intSetR
def setK (ext : Bool) : SetK := if ext then .extSet else .intSet

end EFormat

mutual
  /-- the surface string -/
  def stxt (F : EFormat) : STerm → Str
    | .atom t => F.fmtTerm t
    | .set ext a first items c =>
      F.setL ext ++ (ws F a ++ (stxt F first ++ (itemsTxt F items ++ (ws F c ++ F.setR ext))))
    | .compound a j items c =>
      F.compL ++ (ws F a ++ ((F.connAt j).1 ++ (itemsTxt F items ++ (ws F c ++ F.compR))))
    | .stmt a s b j c p d =>
      F.stmtL ++ (ws F a ++ (stxt F s ++ (ws F b ++ ((F.copAt j).1 ++ (ws F c ++ (stxt F p ++ (ws F d ++ F.stmtR)))))))
  def itemsTxt (F : EFormat) : SItems → Str
    | .nil => []
    | .cons b a t ts => ws F b ++ (F.separator ++ (ws F a ++ (stxt F t ++ itemsTxt F ts)))
end

/-- what the kind-specific tail of `parse_compound` builds, when it builds something -/
def finishT (ck : ConnK) (ts : List Term) : Option Term :=
  match ck with
  | .neg =>
    match ts with
    | [t] => some (.neg t)
    | _ => none
  | .diff k =>
    match ts with
    | [a, b] => some (.bin k a b)
    | _ => none
  | .img k =>
    match extractPlaceholder ts with
    | some (i, ts') => some (.image k i (Terms.ofList ts'))
    | none => none
  | .seq k => some (.seqlike k (Terms.ofList ts))
  | .set k => some (.setlike k (Terms.ofList (mkSetSem ts)))
  | .operatorUnsupported => none

mutual
  /-- the denotation of a surface tree (what both pipelines must return) -/
  def den (F : EFormat) : STerm → Option Term
    | .atom t => some t
    | .set ext _ first items _ =>
      match den F first, dens F items with
      | some f, some l => some (.setlike (EFormat.setK ext) (Terms.ofList (mkSetSem (f :: l))))
      | _, _ => none
    | .compound _ j items _ =>
      match dens F items with
      | some l => finishT (F.connAt j).2 l
      | none => none
    | .stmt _ s _ j _ p _ =>
      match den F s, den F p with
      | some s', some p' => some ((F.copAt j).2.build s' p')
      | _, _ => none
  def dens (F : EFormat) : SItems → Option (List Term)
    | .nil => some []
    | .cons _ _ t ts =>
      match den F t, dens F ts with
      | some t', some l => some (t' :: l)
      | _, _ => none
end

mutual
  /-- well-formed surface trees -/
  def wfS (F : EFormat) : STerm → Bool
    | .atom t => isAtomic t && wfT F t
    | .set _ _ first items _ => wfS F first && wfSs F items
    | .compound _ j items _ =>
      decide (j < F.connecters.length) && !((F.connAt j).2 == .operatorUnsupported) &&
      !(match items with | .nil => true | _ => false) && wfSs F items
    | .stmt _ s _ j _ p _ => decide (j < F.copulaTable.length) && wfS F s && wfS F p
  def wfSs (F : EFormat) : SItems → Bool
    | .nil => true
    | .cons _ _ t ts => wfS F t && wfSs F ts
end

/-- decidable side condition for surface strings: a connecter followed by a SPACE is still the first match
of the ordered connecter table -/
def surfaceOKB (F : EFormat) : Bool :=
  (List.range F.connecters.length).all (fun j =>
    (List.range j).all (fun i =>
      match F.connecters[i]?, F.connecters[j]? with
      | some e, some c => !compat e.1 (c.1 ++ F.spaceParse)
      | _, _ => true))

structure SurfaceOK (F : EFormat) : Prop where
  base : FormatOK F
  conn_space : surfaceOKB F = true

end Narsese
