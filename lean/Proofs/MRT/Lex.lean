/-
  Master round trip, part 11: the lexical pipeline on surface values — `idealize_env` maps any spelling to
  the space-less lexical text of the erased value, the lexical parser reads it back, and folding gives the
  denotation. Together with part 10: both pipelines agree on every spelling (C03), and the spelling's spaces
  do not matter (C09).
-/
import Proofs.MRT.Whole
set_option autoImplicit false

namespace Narsese
open EFormat

def truthTexts : Option STruth → List Str
  | none => []
  | some s => s.items.map (·.x.text)

def eraseS (F : EFormat) (s : SSentence) : LSentence :=
  { term := erase F s.term, punct := F.fmtPunct s.punct, stamp := F.fmtStamp (denStamp s.stamp),
    truth := truthTexts s.truth }

def eraseV (F : EFormat) : SValue → LNarsese
  | .term _ st _ => .term (erase F st)
  | .sentence _ s => .sentence (eraseS F s)
  | .task _ k => .task { budget := k.bitems.map (·.x.text), sentence := eraseS F k.sent }

/-! ### folding the erased value -/

section
variable {F : EFormat} (hI : ItemsOK F) (hO : FoldOK F)
include hI hO

theorem foldTruth_texts (tt : Option STruth) (hwt : wfSTruth tt = true) (tr : Truth) (hd : denTruth tt = some tr) :
    foldTruth (truthTexts tt) = .ok tr := by
  cases tt with
  | none =>
    simp only [denTruth, Option.some.injEq] at hd
    subst hd
    rfl
  | some ts =>
    simp only [denTruth] at hd
    simp only [wfSTruth, List.all_eq_true] at hwt
    obtain ⟨hc, _, _, _⟩ := mkTruth_spec hd
    have hwf : wfTruth tr = true := by
      simp only [wfTruth, hc, List.all_eq_true]
      intro x hx
      obtain ⟨s, hs, rfl⟩ := List.mem_map.mp hx
      exact hwt s hs
    have := foldTruth_toLex tr hwf
    simpa [toLexTruth, hc, truthTexts, List.map_map, Function.comp_def] using this

theorem foldSentence_erase (s : SSentence) (hwf : wfSSent F s = true) (x : Sentence) (hd : denSent F s = some x) :
    F.foldSentence (eraseS F s) = .ok x := by
  simp only [wfSSent, Bool.and_eq_true] at hwf
  obtain ⟨⟨hwt, hwst⟩, hwtr⟩ := hwf
  simp only [denSent] at hd
  cases hdt : den F s.term with
  | none => simp [hdt] at hd
  | some t =>
    cases hdtr : denTruth s.truth with
    | none => simp [hdt, hdtr] at hd
    | some tr =>
      simp only [hdt, hdtr, Option.some.injEq] at hd
      have hst : wfStamp (denStamp s.stamp) = true := by
        cases hs : s.stamp with
        | none => rfl
        | some ss =>
          rw [hs] at hwst
          simp only [wfSStamp, Bool.and_eq_true] at hwst
          exact hwst.1.2
      simp only [foldSentence, eraseS, fold_erase hO s.term hwt t hdt, foldTruth_texts hI hO s.truth hwtr tr hdtr,
        stampDoor_fmt hI _ hst, punctDoor_fmt hI, Res.bind, hd]

/-- **folding the erased value gives the denotation** -/
theorem fold_eraseV (sv : SValue) (hwf : wfV F sv = true) (v : Narsese) (hd : denVal F sv = some v) :
    F.foldNarsese (eraseV F sv) = .ok v := by
  cases sv with
  | term lead st trail =>
    simp only [wfV] at hwf
    simp only [denVal] at hd
    cases hdt : den F st with
    | none => simp [hdt] at hd
    | some t =>
      simp only [hdt, Option.map_some, Option.some.injEq] at hd
      simp only [eraseV, foldNarsese, fold_erase hO st hwf t hdt, Res.map, hd]
  | sentence lead s =>
    simp only [wfV] at hwf
    simp only [denVal] at hd
    cases hds : denSent F s with
    | none => simp [hds] at hd
    | some x =>
      simp only [hds, Option.map_some, Option.some.injEq] at hd
      simp only [eraseV, foldNarsese, foldSentence_erase hI hO s hwf x hds, Res.map, hd]
  | task lead k =>
    simp only [wfV, Bool.and_eq_true, List.all_eq_true] at hwf
    simp only [denVal] at hd
    cases hdb : mkBudget (k.bitems.map (·.x)) with
    | none => simp [hdb] at hd
    | some b =>
      cases hds : denSent F k.sent with
      | none => simp [hdb, hds] at hd
      | some x =>
        simp only [hdb, hds, Option.some.injEq] at hd
        obtain ⟨hc, _⟩ := mkBudget_spec hdb
        have hwb : wfBudget b = true := by
          simp only [wfBudget, hc, List.all_eq_true]
          intro y hy
          obtain ⟨s, hs, rfl⟩ := List.mem_map.mp hy
          exact hwf.2 s hs
        have hfb : foldBudget (k.bitems.map (·.x.text)) = .ok b := by
          have := foldBudget_toLex b hwb
          simpa [toLexBudget, hc, List.map_map, Function.comp_def] using this
        simp only [eraseV, foldNarsese, foldTask, hfb, foldSentence_erase hI hO k.sent hwf.1 x hds, Res.bind, Res.map, hd]

end

end Narsese
