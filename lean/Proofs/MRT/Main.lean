/-
  Master round trip, part 3: `parse_term (surface string ++ rest) = (denotation, rest)` for every
  well-formed surface tree — any nesting, any number of spaces at every token boundary, any copula of the
  table (derived ones included).
-/
import Proofs.MRT.Surface
set_option autoImplicit false

namespace Narsese
open EFormat

theorem finishCompound_of_finishT (F : EFormat) (ck : ConnK) (l : List Term) (t : Term) (c3 : Cur)
    (h : finishT ck l = some t) : F.finishCompound ck l c3 = .ok (t, F.skipAfterSpaces c3 F.compR) := by
  unfold finishT at h
  unfold finishCompound
  cases ck with
  | neg =>
    match l, h with
    | [x], h => simp only [Option.some.injEq] at h; simp [h]
  | diff k =>
    match l, h with
    | [a, b], h => simp only [Option.some.injEq] at h; simp [h]
  | img k =>
    simp only at h ⊢
    cases he : extractPlaceholder l with
    | none => simp [he] at h
    | some p => obtain ⟨i, ts'⟩ := p; simp only [he, Option.some.injEq] at h; simp [h]
  | seq k => simp only [Option.some.injEq] at h; simp [h]
  | set k => simp only [Option.some.injEq] at h; simp [h]
  | operatorUnsupported => simp at h

section
variable {F : EFormat} (hS : SurfaceOK F) (len : Nat)
include hS

/-- every surface string starts like a term -/
theorem stxt_starts (st : STerm) (hwf : wfS F st = true) (X : Str) : Starts F (stxt F st ++ X) := by
  have pre : ∀ k ∈ starters F, ∀ Y, Starts F (k ++ Y) := fun k hk Y => .inl ⟨k, hk, isPre_append k Y⟩
  cases st with
  | atom t =>
    simp only [wfS, Bool.and_eq_true] at hwf
    exact fmtTerm_starts hS.base t hwf.2 X
  | set ext a first items c =>
    simp only [stxt, List.append_assoc]
    cases ext
    · exact pre _ (mem_starters_opener (by simp [openers, setL])) _
    · exact pre _ (mem_starters_opener (by simp [openers, setL])) _
  | compound a j items c =>
    simp only [stxt, List.append_assoc]; exact pre _ (mem_starters_opener (by simp [openers])) _
  | stmt a s b j c p d =>
    simp only [stxt, List.append_assoc]; exact pre _ (mem_starters_opener (by simp [openers])) _

theorem setR_closer (ext : Bool) : F.setR ext ∈ closers F := by cases ext <;> simp [closers, setR]

/-- what follows a component inside brackets stops the name scanner -/
theorem items_stop (items : SItems) (c : Nat) {rb : Str} (hrb : rb ∈ closers F) (rest : Str) :
    Stop F (itemsTxt F items ++ (ws F c ++ (rb ++ rest))) := by
  cases items with
  | nil =>
    simp only [itemsTxt, List.nil_append]
    apply stop_ws hS.base
    obtain ⟨hne, hh⟩ := terminator_parts hS.base (closer_terminator hS.base hrb)
    exact stop_of_kw F rb rest hne hh
  | cons b a t ts =>
    simp only [itemsTxt, List.append_assoc]
    apply stop_ws hS.base
    obtain ⟨hne, hh⟩ := terminator_parts hS.base (hS.base.terminator (x := F.separator) (by simp))
    exact stop_of_kw F _ _ hne hh

/-- the written connecter is the first match of the ordered table, whether a separator or a space follows -/
theorem conn_findW (j : Nat) (e : Str × ConnK) (he : F.connecters[j]? = some e) (items : SItems)
    (hne : items ≠ .nil) (Y : Str) :
    F.connecters.find? (fun p => (mk len (e.1 ++ (itemsTxt F items ++ Y))).startsWith p.1) = some e := by
  apply find?_at _ _ j e he
  · simp only [mk_startsWith, isPre_append]
  · intro i hi y hy
    simp only [mk_startsWith]
    cases items with
    | nil => exact absurd rfl hne
    | cons b a t ts =>
      cases b with
      | zero =>
        have := hS.base.conn_order i j hi y e hy he (ws F a ++ (stxt F t ++ itemsTxt F ts) ++ Y)
        simpa [itemsTxt, ws, List.append_assoc] using this
      | succ b =>
        have h := hS.conn_space
        simp only [surfaceOKB, List.all_eq_true, List.mem_range] at h
        have hj : j < F.connecters.length := (List.getElem?_eq_some_iff.mp he).1
        have h2 := h j hj i hi
        simp only [hy, he, Bool.not_eq_true'] at h2
        have := not_isPre_of_not_compat h2 (ws F b ++ (F.separator ++ (ws F a ++ (stxt F t ++ itemsTxt F ts))) ++ Y)
        simpa [itemsTxt, ws, List.append_assoc] using this

mutual
  theorem mrt_term : ∀ (st : STerm), wfS F st = true → ∀ (t : Term), den F st = some t →
      ∀ (fuel : Nat) (rest : Str), Stop F rest →
      R (F.parseTerm fuel (mk len (stxt F st ++ rest))) (t, mk len rest)
    | .atom t0, hwf, t, hden, fuel, rest, hst => by
      simp only [wfS, Bool.and_eq_true] at hwf
      simp only [den, Option.some.injEq] at hden
      rw [← hden]
      exact atom_R hS.base len t0 hwf.1 hwf.2 fuel rest hst
    | .set ext a first items c, hwf, t, hden, fuel, rest, _ => by
      simp only [wfS, Bool.and_eq_true] at hwf
      cases hdf : den F first with
      | none => simp [den, hdf] at hden
      | some f =>
        cases hdl : dens F items with
        | none => simp [den, hdf, hdl] at hden
        | some l =>
          simp only [den, hdf, hdl, Option.some.injEq] at hden
          cases fuel with
          | zero => exact R_fuel _
          | succ fuel =>
            have hrb := setR_closer hS ext
            have hbody : Starts F (stxt F first ++ (itemsTxt F items ++ (ws F c ++ (F.setR ext ++ rest)))) :=
              stxt_starts hS first hwf.1 _
            have hloop : ∀ g, R (F.parseTerms g (F.setR ext)
                (mk len (stxt F first ++ (itemsTxt F items ++ (ws F c ++ (F.setR ext ++ rest))))) [])
                ([] ++ [f] ++ l, mk len (F.setR ext ++ rest)) := fun f' =>
              loop_elem hS.base len hrb (stxt F first) _ f [] _ hbody
                (fun f'' => mrt_term first hwf.1 f hdf f'' _ (items_stop hS items c hrb rest))
                (fun f'' => mrt_items items hwf.2 l hdl c (F.setR ext) hrb rest ([] ++ [f]) f'') f'
            have key : R (F.parseTermSet fuel (setK ext) (F.setL ext) (F.setR ext)
                (mk len (F.setL ext ++ (ws F a ++ (stxt F first ++ (itemsTxt F items ++ (ws F c ++ (F.setR ext ++ rest))))))))
                (t, mk len rest) := by
              cases fuel with
              | zero => exact R_fuel _
              | succ fuel =>
                rw [parseTermSet, skipAndSpaces_ws hS.base len _ a _ (starts_no_space hS.base hbody)]
                rcases hloop fuel with h | h
                · simp [h, R]
                · simp only [h, skipAfterSpaces_mk hS.base len (F.setR ext) rest (closer_no_space hS.base hrb rest)]
                  simp only [List.nil_append, List.singleton_append, List.isEmpty_cons, Bool.false_eq_true, if_false]
                  rw [← hden]
                  exact R_ok _
            have e : stxt F (.set ext a first items c) ++ rest =
                F.setL ext ++ (ws F a ++ (stxt F first ++ (itemsTxt F items ++ (ws F c ++ (F.setR ext ++ rest))))) := by
              simp only [stxt, List.append_assoc]
            rw [e]
            cases ext
            · simp only [setL, setR, setK, Bool.false_eq_true, if_false] at key ⊢
              rw [dispatch_intSet hS.base len]; exact key
            · simp only [setL, setR, setK, if_true] at key ⊢
              rw [dispatch_extSet hS.base len]; exact key
    | .compound a j items c, hwf, t, hden, fuel, rest, _ => by
      simp only [wfS, Bool.and_eq_true, decide_eq_true_eq, Bool.not_eq_true', beq_eq_false_iff_ne, ne_eq] at hwf
      obtain ⟨⟨⟨hj, hop⟩, hne⟩, hwi⟩ := hwf
      cases hdl : dens F items with
      | none => simp [den, hdl] at hden
      | some l =>
        simp only [den, hdl] at hden
        have he : F.connecters[j]? = some (F.connAt j) := by
          simp only [connAt]
          rw [List.getElem?_eq_getElem hj]; rfl
        have hine : items ≠ .nil := by
          intro h0; rw [h0] at hne; simp at hne
        have hl : l ≠ [] := by
          cases items with
          | nil => exact absurd rfl hine
          | cons b' a' t' ts' =>
            simp only [dens] at hdl
            cases h1 : den F t' <;> cases h2 : dens F ts' <;> simp [h1, h2] at hdl
            rw [← hdl]; simp
        cases fuel with
        | zero => exact R_fuel _
        | succ fuel =>
          have hcr : F.compR ∈ closers F := by simp [closers]
          obtain ⟨hcne, hcsp⟩ := hS.base.connecter (conn_mem hS.base j _ he)
          have e : stxt F (.compound a j items c) ++ rest =
              F.compL ++ (ws F a ++ ((F.connAt j).1 ++ (itemsTxt F items ++ (ws F c ++ (F.compR ++ rest))))) := by
            simp only [stxt, List.append_assoc]
          rw [e, dispatch_comp hS.base len]
          cases fuel with
          | zero => exact R_fuel _
          | succ fuel =>
            rw [parseCompound, skipAndSpaces_ws hS.base len F.compL a _ (not_isPre_of_incompat hcsp _)]
            simp only
            rw [conn_findW hS len j _ he items hine]
            simp only [hop, if_false, mk_skip]
            rcases mrt_items items hwi l hdl c F.compR hcr rest [] fuel with h | h
            · simp [h, R]
            · simp only [h, List.nil_append, nonempty_isEmpty hl, Bool.false_eq_true, if_false]
              rw [finishCompound_of_finishT F _ l t _ hden,
                skipAfterSpaces_mk hS.base len F.compR rest (closer_no_space hS.base hcr rest)]
              exact R_ok _
    | .stmt a s b j c p d, hwf, t, hden, fuel, rest, _ => by
      simp only [wfS, Bool.and_eq_true, decide_eq_true_eq] at hwf
      obtain ⟨⟨hj, hws⟩, hwp⟩ := hwf
      cases hds : den F s with
      | none => simp [den, hds] at hden
      | some s' =>
        cases hdp : den F p with
        | none => simp [den, hds, hdp] at hden
        | some p' =>
          simp only [den, hds, hdp, Option.some.injEq] at hden
          have he : F.copulaTable[j]? = some (F.copAt j) := by
            simp only [copAt]
            rw [List.getElem?_eq_getElem hj]; rfl
          have hsr : F.stmtR ∈ closers F := by simp [closers]
          obtain ⟨hcne, hcsp, _⟩ := hS.base.copula (copula_mem hS.base j _ he)
          have e : stxt F (.stmt a s b j c p d) ++ rest =
              F.stmtL ++ (ws F a ++ (stxt F s ++ (ws F b ++ ((F.copAt j).1 ++ (ws F c ++ (stxt F p ++
                (ws F d ++ (F.stmtR ++ rest)))))))) := by
            simp only [stxt, List.append_assoc]
          cases fuel with
          | zero => exact R_fuel _
          | succ fuel =>
            rw [e, dispatch_stmt hS.base len]
            cases fuel with
            | zero => exact R_fuel _
            | succ fuel =>
              have hs1 : Starts F (stxt F s ++ (ws F b ++ ((F.copAt j).1 ++ (ws F c ++ (stxt F p ++
                  (ws F d ++ (F.stmtR ++ rest))))))) := stxt_starts hS s hws _
              have hs2 : Starts F (stxt F p ++ (ws F d ++ (F.stmtR ++ rest))) := stxt_starts hS p hwp _
              have hstop1 : Stop F (ws F b ++ ((F.copAt j).1 ++ (ws F c ++ (stxt F p ++ (ws F d ++ (F.stmtR ++ rest)))))) := by
                apply stop_ws hS.base
                have hm := copula_mem hS.base j _ he
                exact stop_of_copula F _ _ (by rw [hS.base.copulas_eq]; exact hm) hcne
              have hstop2 : Stop F (ws F d ++ (F.stmtR ++ rest)) := by
                apply stop_ws hS.base
                obtain ⟨hne, hh⟩ := terminator_parts hS.base (closer_terminator hS.base hsr)
                exact stop_of_kw F _ _ hne hh
              rw [parseStatement, skipAndSpaces_ws hS.base len F.stmtL a _ (starts_no_space hS.base hs1)]
              rcases mrt_term s hws s' hds fuel _ hstop1 with h | h
              · simp [h, R]
              · simp only [h]
                rw [skipSpaces_ws hS.base len b _ (not_isPre_of_incompat hcsp _), copula_find hS.base len j _ he]
                simp only
                rw [mk_skip, skipSpaces_ws hS.base len c _ (starts_no_space hS.base hs2)]
                rcases mrt_term p hwp p' hdp fuel _ hstop2 with h2 | h2
                · simp [h2, R]
                · simp only [h2, skipAfterSpaces_ws hS.base len F.stmtR d rest (closer_no_space hS.base hsr rest)]
                  rw [← hden]
                  exact R_ok _

  theorem mrt_items : ∀ (items : SItems), wfSs F items = true → ∀ (l : List Term), dens F items = some l →
      ∀ (c : Nat) (rb : Str), rb ∈ closers F → ∀ (rest : Str) (acc : List Term) (fuel : Nat),
      R (F.parseTerms fuel rb (mk len (itemsTxt F items ++ (ws F c ++ (rb ++ rest)))) acc)
        (acc ++ l, mk len (rb ++ rest))
    | .nil, _, l, hd, c, rb, hrb, rest, acc, fuel => by
      simp only [dens, Option.some.injEq] at hd
      rw [← hd]
      simp only [itemsTxt, List.nil_append, List.append_nil]
      exact loop_ws hS.base len _ acc _ (fun f => loop_end hS.base len hrb f rest acc) c fuel
    | .cons b a t ts, hwf, l, hd, c, rb, hrb, rest, acc, fuel => by
      simp only [wfSs, Bool.and_eq_true] at hwf
      cases hdt : den F t with
      | none => simp [dens, hdt] at hd
      | some t' =>
        cases hdl : dens F ts with
        | none => simp [dens, hdt, hdl] at hd
        | some l' =>
          simp only [dens, hdt, hdl, Option.some.injEq] at hd
          rw [← hd]
          simp only [itemsTxt, List.append_assoc]
          refine loop_ws hS.base len _ acc _ (fun f1 => loop_sep hS.base len _ acc _ (fun f2 =>
            loop_ws hS.base len _ acc _ (fun f3 =>
              loop_elem hS.base len hrb (stxt F t) _ t' acc _ (stxt_starts hS t hwf.1 _)
                (fun f4 => mrt_term t hwf.1 t' hdt f4 _ (items_stop hS ts c hrb rest))
                (fun f4 => by
                  have := mrt_items ts hwf.2 l' hdl c rb hrb rest (acc ++ [t']) f4
                  simpa [List.append_assoc] using this) f3) a f2) f1) b fuel
end

end

/-- **master term theorem, fuel discharged** -/
theorem parseTerm_stxt {F : EFormat} (hS : SurfaceOK F) (len : Nat) (st : STerm) (hwf : wfS F st = true)
    (t : Term) (hden : den F st = some t) (rest : Str) (hst : Stop F rest) (fuel : Nat)
    (hfuel : 3 * (stxt F st ++ rest).length + 2 ≤ fuel) :
    F.parseTerm fuel (mk len (stxt F st ++ rest)) = .ok (t, mk len rest) := by
  rcases mrt_term hS len st hwf t hden fuel rest hst with h | h
  · exact absurd h ((parseTerm_good F hS.base.sane.toSane fuel (mk len (stxt F st ++ rest))).2.2
      (by simpa [mk, Cur.n] using hfuel))
  · exact h

end Narsese
