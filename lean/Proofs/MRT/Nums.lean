/-
  Master round trip, part 5: bracketed number lists with spaces anywhere between the tokens.
-/
import Proofs.MRT.Erase
set_option autoImplicit false

namespace Narsese
open EFormat

/-- a number with spaces before and after it -/
structure SNum where
  pre : Nat
  x : Num
  post : Nat

def SNum.txt (F : EFormat) (s : SNum) : Str := ws F s.pre ++ (s.x.text ++ ws F s.post)
def SNum.cost (s : SNum) : Nat := s.pre + s.x.text.length + s.post

/-- the inside of the brackets: the numbers joined by the separator, or just spaces when there is none -/
def snumsTxt (F : EFormat) (sep : Str) (e : Nat) (items : List SNum) : Str :=
  if items.isEmpty then ws F e else joinWith sep (items.map (SNum.txt F))

def snumsCost : List SNum → Nat
  | [] => 0
  | s :: r => s.cost + 1 + snumsCost r

theorem ws_length (F : EFormat) (hsp : F.spaceParse ≠ []) (n : Nat) : n ≤ (ws F n).length := by
  induction n with
  | zero => simp [ws]
  | succ n ih => have := ne_nil_length hsp; simp only [ws, List.length_append]; omega

section
variable {F : EFormat} (len : Nat)

/-- the number-list loop over a run of spaces (the buffer is untouched) -/
theorem parseFloats_ws (N : Nat) (sep rb : Str) (hsp : F.spaceParse ≠ []) :
    ∀ (n k : Nat) (Z buf : Str) (acc : List Num), acc.length < N →
      F.parseFloats N sep rb (k + n) (mk len (ws F n ++ Z)) buf acc = F.parseFloats N sep rb k (mk len Z) buf acc
  | 0, k, Z, buf, acc, _ => by simp [ws]
  | n + 1, k, Z, buf, acc, hacc => by
    have e : k + (n + 1) = (k + n) + 1 := by omega
    obtain ⟨c, cs, hc⟩ : ∃ c cs, F.spaceParse = c :: cs := by
      cases h : F.spaceParse with
      | nil => exact absurd h hsp
      | cons c cs => exact ⟨c, cs, rfl⟩
    have hne : (ws F (n + 1) ++ Z).isEmpty = false := by simp [ws, hc]
    have hrest : ws F (n + 1) ++ Z = c :: (cs ++ (ws F n ++ Z)) := by simp [ws, hc, List.append_assoc]
    have hpre : isPre F.spaceParse (ws F (n + 1) ++ Z) = true := by
      simp only [ws, List.append_assoc]; exact isPre_append _ _
    rw [e, parseFloats]
    simp only [mk_canConsume, hne, Bool.not_false, hacc, decide_true, Bool.and_self, Bool.not_true,
      Bool.false_eq_true, if_false, mk_rest]
    rw [hrest]
    simp only
    rw [← hrest]
    simp only [mk_startsWith, hpre, if_true]
    have : (mk len (ws F (n + 1) ++ Z)).skip F.spaceParse = mk len (ws F n ++ Z) := by
      simp only [ws, List.append_assoc]; exact mk_skip len _ _
    rw [this]
    exact parseFloats_ws N sep rb hsp n k Z buf acc hacc

/-- **a spaced number list reads back** -/
theorem parseFloats_slist (N : Nat) (sep rb : Str) (hL : ListOK F sep rb) :
    ∀ (items : List SNum), items ≠ [] → (∀ s ∈ items, s.x.ok = true) → ∀ (acc : List Num),
      acc.length + items.length ≤ N → ∀ (Y : Str) (k : Nat), snumsCost items + 1 ≤ k →
      F.parseFloats N sep rb k (mk len (joinWith sep (items.map (SNum.txt F)) ++ (rb ++ Y))) [] acc =
        .ok (acc ++ items.map (·.x), mk len (rb ++ Y))
  | [], h, _, _, _, _, _, _ => absurd rfl h
  | [s], _, hok, acc, hlen, Y, k, hk => by
    have hx := hok s (by simp)
    obtain ⟨_, hch⟩ := num_chars s.x hx
    have hacc : acc.length < N := by simp at hlen; omega
    simp only [List.map_cons, List.map_nil, joinWith, SNum.txt, List.append_assoc]
    simp only [snumsCost, SNum.cost] at hk
    obtain ⟨k', rfl⟩ : ∃ k', k = (((k' + 1) + s.post) + s.x.text.length) + s.pre :=
      ⟨k - 1 - s.post - s.x.text.length - s.pre, by omega⟩
    rw [parseFloats_ws len N sep rb hL.sp_ne s.pre _ _ [] acc hacc,
      parseFloats_digits len N sep rb hL.sp_ne hL.sp_num s.x.text hch _ _ [] acc hacc, List.nil_append,
      parseFloats_ws len N sep rb hL.sp_ne s.post _ _ s.x.text acc hacc,
      parseFloats_close len N sep rb hL k' Y s.x.text acc hacc, readNum_ok s.x hx]
  | s :: s2 :: r, _, hok, acc, hlen, Y, k, hk => by
    have hx := hok s (by simp)
    obtain ⟨_, hch⟩ := num_chars s.x hx
    have hacc : acc.length < N := by simp at hlen; omega
    have e : joinWith sep ((s :: s2 :: r).map (SNum.txt F)) ++ (rb ++ Y) =
        ws F s.pre ++ (s.x.text ++ (ws F s.post ++ (sep ++ (joinWith sep ((s2 :: r).map (SNum.txt F)) ++ (rb ++ Y))))) := by
      simp [joinWith, SNum.txt, List.append_assoc]
    simp only [snumsCost, SNum.cost] at hk
    obtain ⟨k', rfl⟩ : ∃ k', k = (((k' + 1) + s.post) + s.x.text.length) + s.pre :=
      ⟨k - 1 - s.post - s.x.text.length - s.pre, by omega⟩
    rw [e, parseFloats_ws len N sep rb hL.sp_ne s.pre _ _ [] acc hacc,
      parseFloats_digits len N sep rb hL.sp_ne hL.sp_num s.x.text hch _ _ [] acc hacc, List.nil_append,
      parseFloats_ws len N sep rb hL.sp_ne s.post _ _ s.x.text acc hacc,
      parseFloats_sep len N sep rb hL k' _ s.x hx acc hacc]
    have ih := parseFloats_slist N sep rb hL (s2 :: r) (by simp) (fun z hz => hok z (by simp [hz])) (acc ++ [s.x])
      (by simp at hlen ⊢; omega) Y k' (by simp only [snumsCost, SNum.cost]; omega)
    simpa [List.append_assoc] using ih

/-- an empty list with spaces between the brackets -/
theorem parseFloats_sempty (N : Nat) (hN : 0 < N) (sep rb : Str) (hL : ListOK F sep rb) (e : Nat) (Y : Str) (k : Nat)
    (hk : e + 1 ≤ k) :
    F.parseFloats N sep rb k (mk len (ws F e ++ (rb ++ Y))) [] [] = .ok ([], mk len (rb ++ Y)) := by
  obtain ⟨k', rfl⟩ : ∃ k', k = (k' + 1) + e := ⟨k - 1 - e, by omega⟩
  rw [parseFloats_ws len N sep rb hL.sp_ne e _ _ [] [] (by simpa using hN),
    parseFloats_close len N sep rb hL k' Y [] [] (by simpa using hN), readNum_nil]

end

/-- the cost of a list is at most its length (one iteration per space, per digit, per separator) -/
theorem snumsCost_le (F : EFormat) (hsp : F.spaceParse ≠ []) (sep : Str) (hsep : sep ≠ []) :
    ∀ (items : List SNum), items ≠ [] → snumsCost items ≤ (joinWith sep (items.map (SNum.txt F))).length + 1
  | [], h => absurd rfl h
  | [s], _ => by
    have h1 := ws_length F hsp s.pre
    have h2 := ws_length F hsp s.post
    simp only [snumsCost, SNum.cost, List.map_cons, List.map_nil, joinWith, SNum.txt, List.length_append]
    omega
  | s :: s2 :: r, _ => by
    have h1 := ws_length F hsp s.pre
    have h2 := ws_length F hsp s.post
    have h3 := ne_nil_length hsep
    have ih := snumsCost_le F hsp sep hsep (s2 :: r) (by simp)
    simp only [snumsCost, SNum.cost, List.map_cons, joinWith, SNum.txt, List.length_append] at ih ⊢
    omega

end Narsese
