/-
  Master round trip, part 6: truth, budget and stamp with spaces between their tokens.
-/
import Proofs.MRT.Nums
set_option autoImplicit false

namespace Narsese
open EFormat

section
variable {F : EFormat} (hI : ItemsOK F) (len : Nat)
include hI

theorem joinWith_first_pre (sep : Str) (s : SNum) (r : List SNum) :
    joinWith sep ((s :: r).map (SNum.txt F)) =
      ws F s.pre ++ joinWith sep (({ s with pre := 0 } :: r).map (SNum.txt F)) := by
  cases r with
  | nil => simp [joinWith, SNum.txt, ws]
  | cons y r' => simp [joinWith, SNum.txt, ws, List.append_assoc]

/-- the bracket opener is skipped together with the spaces behind it, then the list reads back -/
theorem floats_spaced (N : Nat) (lb sep rb : Str) (hL : ListOK F sep rb) (items : List SNum) (hne : items ≠ [])
    (hok : ∀ s ∈ items, s.x.ok = true) (hlen : items.length ≤ N) (Y : Str) :
    ∃ c1, F.skipAndSpaces (mk len (lb ++ (joinWith sep (items.map (SNum.txt F)) ++ (rb ++ Y)))) lb = c1 ∧
      F.parseFloats N sep rb (c1.rest.length + 1) c1 [] [] = .ok (items.map (·.x), mk len (rb ++ Y)) := by
  obtain ⟨s, r, rfl⟩ : ∃ s r, items = s :: r := by
    cases items with
    | nil => exact absurd rfl hne
    | cons s r => exact ⟨s, r, rfl⟩
  have hx := hok s (by simp)
  have hns : isPre F.spaceParse (joinWith sep (({ s with pre := 0 } :: r).map (SNum.txt F)) ++ (rb ++ Y)) = false := by
    cases r with
    | nil =>
      have := num_no_space hI s.x hx (ws F s.post ++ (rb ++ Y))
      simpa [joinWith, SNum.txt, ws, List.append_assoc] using this
    | cons y r' =>
      have := num_no_space hI s.x hx (ws F s.post ++ (sep ++ (joinWith sep ((y :: r').map (SNum.txt F)) ++ (rb ++ Y))))
      simpa [joinWith, SNum.txt, ws, List.append_assoc] using this
  refine ⟨mk len (joinWith sep (({ s with pre := 0 } :: r).map (SNum.txt F)) ++ (rb ++ Y)), ?_, ?_⟩
  · rw [joinWith_first_pre hI sep s r, List.append_assoc]
    exact skipAndSpaces_ws hI.base len lb s.pre _ hns
  · have hcost := snumsCost_le F hL.sp_ne sep hL.sep_ne ({ s with pre := 0 } :: r) (by simp)
    have hrbl := ne_nil_length hL.rb_ne
    have := parseFloats_slist len N sep rb hL ({ s with pre := 0 } :: r) (by simp)
      (fun z hz => by
        simp only [List.mem_cons] at hz
        rcases hz with rfl | hz
        · exact hx
        · exact hok z (by simp [hz]))
      [] (by simpa using hlen) Y
      ((mk len (joinWith sep (({ s with pre := 0 } :: r).map (SNum.txt F)) ++ (rb ++ Y))).rest.length + 1)
      (by simp only [mk_rest, List.length_append]; omega)
    simpa using this

/-- text of a spaced, non-empty truth -/
def struthTxt (F : EFormat) (items : List SNum) : Str :=
  F.truthL ++ (joinWith F.truthSep (items.map (SNum.txt F)) ++ F.truthR)

theorem consumeTruth_spaced (items : List SNum) (hne : items ≠ []) (hlen : items.length ≤ 2)
    (hok : ∀ s ∈ items, s.x.ok = true) (Y : Str) (tr : Truth) (htr : tr.components = items.map (·.x)) :
    F.consumeTruth (mk len (struthTxt F items ++ Y)) = .ok (tr, mk len Y) := by
  obtain ⟨hL, _, _⟩ := hI.truthList
  have hin : (items.map (·.x)).all Num.in01 = true := by
    rw [List.all_eq_true]; intro x hx
    obtain ⟨s, hs, rfl⟩ := List.mem_map.mp hx
    have := hok s hs
    simp only [Num.ok, Bool.and_eq_true] at this
    exact this.1.1.1
  obtain ⟨c1, h1, h2⟩ := floats_spaced hI len 2 F.truthL F.truthSep F.truthR hL items hne hok hlen Y
  unfold consumeTruth
  simp only [struthTxt, List.append_assoc]
  rw [h1, h2]
  simp only [hin, Bool.not_true, Bool.false_eq_true, if_false]
  have hrb : isPre F.spaceParse (F.truthR ++ Y) = false := not_isPre_of_incompat hL.rb_sp Y
  have vok : ∀ x ∈ items.map (·.x), validate Num.in01 x = .ok x := by
    intro x hx
    rw [List.all_eq_true] at hin
    simp [validate, hin x hx]
  match items, tr, htr, vok, hne, hlen with
  | [s], .single g, h, vok, _, _ =>
    simp only [Truth.components, List.map_cons, List.map_nil, List.cons.injEq, and_true] at h
    subst h
    simp [GTruth.newSingle, vok s.x (by simp), Res.bind, Res.map, liftRes, Truth.ofG,
      skipAfterSpaces_mk hI.base len F.truthR Y hrb]
  | [s, s2], .double g d, h, vok, _, _ =>
    simp only [Truth.components, List.map_cons, List.map_nil, List.cons.injEq, and_true] at h
    obtain ⟨e1, e2⟩ := h
    subst e1; subst e2
    simp [GTruth.newDouble, vok s.x (by simp), vok s2.x (by simp), Res.bind, Res.map, liftRes, Truth.ofG,
      skipAfterSpaces_mk hI.base len F.truthR Y hrb]
  | [], _, _, _, hne, _ => exact absurd rfl hne
  | [_], .empty, h, _, _, _ => simp [Truth.components] at h
  | [_], .double _ _, h, _, _, _ => simp [Truth.components] at h
  | [_, _], .empty, h, _, _, _ => simp [Truth.components] at h
  | [_, _], .single _, h, _, _, _ => simp [Truth.components] at h
  | _ :: _ :: _ :: _, _, _, _, _, hlen => simp at hlen

/-- text of a spaced budget (possibly empty: just `e` spaces between the brackets) -/
def sbudgetTxt (F : EFormat) (e : Nat) (items : List SNum) : Str :=
  F.budgetL ++ (snumsTxt F F.budgetSep e items ++ F.budgetR)

theorem consumeBudget_spaced (e : Nat) (items : List SNum) (hlen : items.length ≤ 3)
    (hok : ∀ s ∈ items, s.x.ok = true) (Y : Str) (b : Budget) (hb : b.components = items.map (·.x)) :
    F.consumeBudget (mk len (sbudgetTxt F e items ++ Y)) = .ok (b, mk len Y) := by
  obtain ⟨hL, _, _⟩ := hI.budgetList
  have hrb : isPre F.spaceParse (F.budgetR ++ Y) = false := not_isPre_of_incompat hL.rb_sp Y
  by_cases hemp : items = []
  · subst hemp
    have hb0 : b = .empty := by cases b <;> simp_all [Budget.components]
    subst hb0
    unfold consumeBudget
    simp only [sbudgetTxt, snumsTxt, List.isEmpty_nil, if_true, List.append_assoc]
    rw [skipAndSpaces_ws hI.base len F.budgetL e _ hrb]
    simp only [mk_rest]
    rw [parseFloats_empty len 3 (by decide) F.budgetSep F.budgetR hL Y _]
    simp [liftRes, skipAfterSpaces_mk hI.base len F.budgetR Y hrb]
  · have hin : (items.map (·.x)).all Num.in01 = true := by
      rw [List.all_eq_true]; intro x hx
      obtain ⟨s, hs, rfl⟩ := List.mem_map.mp hx
      have := hok s hs
      simp only [Num.ok, Bool.and_eq_true] at this
      exact this.1.1.1
    obtain ⟨c1, h1, h2⟩ := floats_spaced hI len 3 F.budgetL F.budgetSep F.budgetR hL items hemp hok hlen Y
    unfold consumeBudget
    simp only [sbudgetTxt, snumsTxt, nonempty_isEmpty hemp, Bool.false_eq_true, if_false, List.append_assoc]
    rw [h1, h2]
    simp only [hin, Bool.not_true, Bool.false_eq_true, if_false]
    have vok : ∀ x ∈ items.map (·.x), validate Num.in01 x = .ok x := by
      intro x hx
      rw [List.all_eq_true] at hin
      simp [validate, hin x hx]
    match items, b, hb, vok, hemp, hlen with
    | [s], .single g, h, vok, _, _ =>
      simp only [Budget.components, List.map_cons, List.map_nil, List.cons.injEq, and_true] at h
      subst h
      simp [GBudget.newSingle, vok s.x (by simp), Res.bind, Res.map, liftRes, Budget.ofG,
        skipAfterSpaces_mk hI.base len F.budgetR Y hrb]
    | [s, s2], .double g d, h, vok, _, _ =>
      simp only [Budget.components, List.map_cons, List.map_nil, List.cons.injEq, and_true] at h
      obtain ⟨e1, e2⟩ := h
      subst e1; subst e2
      simp [GBudget.newDouble, vok s.x (by simp), vok s2.x (by simp), Res.bind, Res.map, liftRes, Budget.ofG,
        skipAfterSpaces_mk hI.base len F.budgetR Y hrb]
    | [s, s2, s3], .triple g d q, h, vok, _, _ =>
      simp only [Budget.components, List.map_cons, List.map_nil, List.cons.injEq, and_true] at h
      obtain ⟨e1, e2, e3⟩ := h
      subst e1; subst e2; subst e3
      simp [GBudget.newTriple, vok s.x (by simp), vok s2.x (by simp), vok s3.x (by simp), Res.bind, Res.map, liftRes,
        Budget.ofG, skipAfterSpaces_mk hI.base len F.budgetR Y hrb]
    | [], _, _, _, hemp, _ => exact absurd rfl hemp
    | [_], .empty, h, _, _, _ => simp [Budget.components] at h
    | [_], .double _ _, h, _, _, _ => simp [Budget.components] at h
    | [_], .triple _ _ _, h, _, _, _ => simp [Budget.components] at h
    | [_, _], .empty, h, _, _, _ => simp [Budget.components] at h
    | [_, _], .single _, h, _, _, _ => simp [Budget.components] at h
    | [_, _], .triple _ _ _, h, _, _, _ => simp [Budget.components] at h
    | [_, _, _], .empty, h, _, _, _ => simp [Budget.components] at h
    | [_, _, _], .single _, h, _, _, _ => simp [Budget.components] at h
    | [_, _, _], .double _ _, h, _, _, _ => simp [Budget.components] at h
    | _ :: _ :: _ :: _ :: _, _, _, _, _, hlen => simp at hlen

end

end Narsese
