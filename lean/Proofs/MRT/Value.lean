/-
  Master round trip, part 9: whole surface values (term / sentence / task with spaces anywhere between
  tokens) through `build_mid_result`.
-/
import Proofs.MRT.ConsumeOne
set_option autoImplicit false

namespace Narsese
open EFormat

structure SStamp where
  n : Nat
  a : Nat
  b : Nat
  c : Nat
  st : Stamp

structure STruth where
  n : Nat
  items : List SNum

structure SSentence where
  term : STerm
  n1 : Nat
  punct : Punct
  stamp : Option SStamp
  truth : Option STruth
  trail : Nat

structure STask where
  e : Nat
  bitems : List SNum
  n0 : Nat
  sent : SSentence

inductive SValue where
  | term (lead : Nat) (st : STerm) (trail : Nat)
  | sentence (lead : Nat) (s : SSentence)
  | task (lead : Nat) (k : STask)

def stampPart (F : EFormat) : Option SStamp → Str
  | none => []
  | some s => ws F s.n ++ sstampTxt F s.st s.a s.b s.c
def truthPart (F : EFormat) : Option STruth → Str
  | none => []
  | some s => ws F s.n ++ struthTxt F s.items

def ssentTail (F : EFormat) (s : SSentence) : Str :=
  ws F s.n1 ++ (F.fmtPunct s.punct ++ (stampPart F s.stamp ++ (truthPart F s.truth ++ ws F s.trail)))
def sentTxt (F : EFormat) (s : SSentence) : Str := stxt F s.term ++ ssentTail F s
def taskTxt (F : EFormat) (k : STask) : Str := sbudgetTxt F k.e k.bitems ++ (ws F k.n0 ++ sentTxt F k.sent)
def svalTxt (F : EFormat) : SValue → Str
  | .term lead st trail => ws F lead ++ (stxt F st ++ ws F trail)
  | .sentence lead s => ws F lead ++ sentTxt F s
  | .task lead k => ws F lead ++ taskTxt F k

def denStamp : Option SStamp → Stamp
  | none => .eternal
  | some s => s.st
def denTruth : Option STruth → Option Truth
  | none => some .empty
  | some s => mkTruth (s.items.map (·.x))
def denSent (F : EFormat) (s : SSentence) : Option Sentence :=
  match den F s.term, denTruth s.truth with
  | some t, some tr => some (Sentence.fromPunctuation t s.punct (denStamp s.stamp) tr)
  | _, _ => none
def denVal (F : EFormat) : SValue → Option Narsese
  | .term _ st _ => (den F st).map .term
  | .sentence _ s => (denSent F s).map .sentence
  | .task _ k =>
    match mkBudget (k.bitems.map (·.x)), denSent F k.sent with
    | some b, some s => some (.task { sentence := s, budget := b })
    | _, _ => none

def wfSStamp (F : EFormat) : Option SStamp → Bool
  | none => true
  | some s => !(s.st == .eternal) && wfStamp s.st && (!F.stampL.isEmpty || s.a == 0)
def wfSTruth : Option STruth → Bool
  | none => true
  | some s => s.items.all (fun i => i.x.ok)
def wfSSent (F : EFormat) (s : SSentence) : Bool := wfS F s.term && wfSStamp F s.stamp && wfSTruth s.truth

/-- the budget reader does not take the beginning of the term for a budget -/
def topSOK (F : EFormat) (st : STerm) : Prop :=
  (∀ X, isPre F.budgetL (stxt F st ++ X) = false) ∨
  (∀ len X, ∃ e, F.consumeBudget (mk len (stxt F st ++ X)) = .err e)

section
variable {F : EFormat} (hV : SurfaceItemsOK F) (len : Nat)
include hV

theorem bm_end_ws (m : Mid) : ∀ (n fuel : Nat), R (F.buildMid fuel (mk len (ws F n)) m) (mk len [], m)
  | _, 0 => R_fuel _
  | 0, f + 1 => by simp [buildMid, ws, R]
  | n + 1, f + 1 => by
    have hne : (ws F (n + 1)).isEmpty = false := by
      have := hV.items.base.sane.space_ne
      cases hs : F.spaceParse with
      | nil => exact absurd hs this
      | cons c cs => simp [ws, hs]
    have hsk : F.skipSpaces (mk len (ws F (n + 1))) = mk len [] := by
      have := skipSpaces_ws hV.items.base len (n + 1) [] (by
        cases hs : F.spaceParse with
        | nil => exact absurd hs hV.items.base.sane.space_ne
        | cons c cs => rfl)
      simpa using this
    rw [buildMid]
    simp [hne, hsk, R]

theorem lands_ws (n : Nat) (T : Str) (hns : isPre F.spaceParse T = false) (hne : T ≠ []) :
    Lands F len (mk len (ws F n ++ T)) T :=
  ⟨by simp [hne], skipSpaces_ws hV.items.base len n T hns, hne⟩

theorem headNotIn_ws (n : Nat) (Z cs : Str) (hsp : headNotIn F.spaceParse cs = true)
    (hz : n = 0 → headNotIn Z cs = true) : headNotIn (ws F n ++ Z) cs = true := by
  cases n with
  | zero => simpa [ws] using hz rfl
  | succ n =>
    simp only [ws, List.append_assoc]
    exact headNotIn_app _ hV.items.base.sane.space_ne hsp _

theorem stampEndW_lands (c n : Nat) (T : Str) (hns : isPre F.spaceParse T = false) (hne : T ≠ []) :
    Lands F len (stampEndW F len c (ws F n ++ T)) T := by
  unfold stampEndW
  by_cases hr : F.stampR = []
  · simp only [hr, List.nil_append, skipAfterSpaces, cur_skip_nil]
    rw [← List.append_assoc, ws_add, skipSpaces_ws hV.items.base len _ T hns]
    exact lands_self len T hns hne
  · have := hV.items.split.2.2.2.2.2.2.2.1
    simp only [nonempty_isEmpty hr, Bool.false_eq_true, if_false, Bool.and_eq_true] at this
    rw [skipAfterSpaces_ws hV.items.base len F.stampR c _ (not_isPre_of_incompat this.2 _)]
    exact lands_ws hV len n T hns hne

theorem stampEndW_trail (c n : Nat) : ∃ k, stampEndW F len c (ws F n) = mk len (ws F k) := by
  unfold stampEndW
  have hnil : isPre F.spaceParse [] = false := by
    cases hs : F.spaceParse with
    | nil => exact absurd hs hV.items.base.sane.space_ne
    | cons c cs => rfl
  by_cases hr : F.stampR = []
  · refine ⟨0, ?_⟩
    simp only [hr, List.nil_append, skipAfterSpaces, cur_skip_nil, ws_add, ws]
    have := skipSpaces_ws hV.items.base len (c + n) [] hnil
    simpa using this
  · have := hV.items.split.2.2.2.2.2.2.2.1
    simp only [nonempty_isEmpty hr, Bool.false_eq_true, if_false, Bool.and_eq_true] at this
    exact ⟨n, skipAfterSpaces_ws hV.items.base len F.stampR c _ (not_isPre_of_incompat this.2 _)⟩

theorem struthTxt_facts (items : List SNum) (Y : Str) :
    isPre F.spaceParse (struthTxt F items ++ Y) = false ∧ struthTxt F items ++ Y ≠ [] ∧
    headNotIn (struthTxt F items ++ Y) signChars = true := by
  obtain ⟨_, hne, hsp⟩ := hV.items.truthList
  refine ⟨?_, ?_, ?_⟩
  · simp only [struthTxt, List.append_assoc]; exact not_isPre_of_incompat hsp _
  · simp [struthTxt, hne]
  · simp only [struthTxt, List.append_assoc]; exact headNotIn_app _ hne hV.truth_sign _

/-- what follows the number of a fixed stamp is not part of the number -/
theorem stamp_followW (c : Nat) (Y : Str)
    (hY : Y = [] ∨ (∃ n Z, Y = ws F n ++ Z ∧ (n = 0 → headNotIn Z signChars = true))) :
    headNotIn (ws F c ++ (F.stampR ++ Y)) signChars = true := by
  have hsp := hV.items.split.2.2.2.2.2.2.1
  apply headNotIn_ws hV c _ _ hsp
  intro _
  have h8 := hV.items.split.2.2.2.2.2.2.2.1
  by_cases hr : F.stampR = []
  · rw [hr, List.nil_append]
    rcases hY with rfl | ⟨n, Z, rfl, hz⟩
    · simp [headNotIn]
    · exact headNotIn_ws hV n Z _ hsp hz
  · simp only [nonempty_isEmpty hr, Bool.false_eq_true, if_false, Bool.and_eq_true] at h8
    exact headNotIn_app _ hr h8.1 Y

/-- the optional stamp and truth, then trailing spaces -/
theorem bm_tailW (m : Mid) (t : Term) (p : Punct) (hm : m.term = some t) (hp : m.punct = some p)
    (hs : m.stamp = none) (htr : m.truth = none) (ss : Option SStamp) (hws : wfSStamp F ss = true)
    (tt : Option STruth) (hwt : wfSTruth tt = true) (tr : Truth) (hden : denTruth tt = some tr) (trail : Nat) :
    ∀ fuel, R (F.buildMid fuel (mk len (stampPart F ss ++ (truthPart F tt ++ ws F trail))) m)
      (mk len [], withTruth (withStamp m (denStamp ss)) tr) := by
  have hbs : F.stampL ≠ [] → incompat F.budgetL F.stampL = true := hV.budget_stamp
  cases ss with
  | none =>
    simp only [stampPart, denStamp, withStamp, if_true, List.nil_append]
    cases tt with
    | none =>
      simp only [denTruth, Option.some.injEq] at hden
      subst hden
      simp only [truthPart, List.nil_append, withTruth, if_true]
      exact bm_end_ws hV len m trail
    | some ts =>
      simp only [denTruth] at hden
      simp only [wfSTruth, List.all_eq_true] at hwt
      obtain ⟨_, _, _, hne⟩ := mkTruth_spec hden
      obtain ⟨hns, hne', _⟩ := struthTxt_facts hV ts.items (ws F trail)
      simp only [truthPart, List.append_assoc, withTruth, hne, if_false]
      have h1 := consumeOne_truthW hV.items len m t p hm hp htr ts.items hwt tr hden (ws F trail)
      exact bm_step len _ _ m _ _ _ (lands_ws hV len ts.n _ hns hne') h1 (bm_end_ws hV len _ trail)
  | some s =>
    simp only [wfSStamp, Bool.and_eq_true, Bool.not_eq_true', beq_eq_false_iff_ne, ne_eq, Bool.or_eq_true,
      List.isEmpty_eq_false_iff, beq_iff_eq] at hws
    obtain ⟨⟨hst, hwst⟩, ha⟩ := hws
    have ha' : F.stampL = [] → s.a = 0 := fun h => ha.resolve_left (fun hn => hn h)
    have hm3 : withStamp m (denStamp (some s)) = { m with stamp := some s.st } := by simp [withStamp, denStamp, hst]
    rw [hm3]
    have hstamp_ns : ∀ Y, isPre F.spaceParse (sstampTxt F s.st s.a s.b s.c ++ Y) = false ∧
        sstampTxt F s.st s.a s.b s.c ++ Y ≠ [] := by
      intro Y
      obtain ⟨hkne, hksp, _, _⟩ := hV.items.stampKw (stampKw_mem s.st hst)
      constructor
      · simp only [sstampTxt, List.append_assoc]
        by_cases hl : F.stampL = []
        · rw [hl, ha' hl]; simp only [ws, List.nil_append]; exact not_isPre_of_incompat hksp _
        · have := hV.items.split.2.2.2.2.2.1
          simp only [nonempty_isEmpty hl, Bool.false_or, Bool.and_eq_true] at this
          exact not_isPre_of_incompat this.1 _
      · simp [sstampTxt, hkne]
    cases tt with
    | none =>
      simp only [denTruth, Option.some.injEq] at hden
      subst hden
      simp only [stampPart, truthPart, List.nil_append, List.append_assoc, withTruth, if_true]
      have hY := stamp_followW hV s.c (ws F trail) (.inr ⟨trail, [], by simp, fun _ => by simp [headNotIn]⟩)
      have h1 := consumeOne_stampW hV.items len m t p hm hp hs s.st hst hwst s.a s.b s.c ha' hbs (ws F trail) hY
      obtain ⟨k, hk⟩ := stampEndW_trail hV len s.c trail
      rw [hk] at h1
      obtain ⟨hns, hne⟩ := hstamp_ns (ws F trail)
      exact bm_step len _ _ m _ _ _ (lands_ws hV len s.n _ hns hne) h1 (bm_end_ws hV len _ k)
    | some ts =>
      simp only [denTruth] at hden
      simp only [wfSTruth, List.all_eq_true] at hwt
      obtain ⟨_, _, _, hne⟩ := mkTruth_spec hden
      obtain ⟨htns, htne, htsign⟩ := struthTxt_facts hV ts.items (ws F trail)
      simp only [stampPart, truthPart, List.append_assoc, withTruth, hne, if_false]
      have hY := stamp_followW hV s.c (ws F ts.n ++ (struthTxt F ts.items ++ ws F trail))
        (.inr ⟨ts.n, _, rfl, fun _ => htsign⟩)
      have h1 := consumeOne_stampW hV.items len m t p hm hp hs s.st hst hwst s.a s.b s.c ha' hbs _ hY
      obtain ⟨hns, hne2⟩ := hstamp_ns (ws F ts.n ++ (struthTxt F ts.items ++ ws F trail))
      refine bm_step len _ _ m _ _ _ (lands_ws hV len s.n _ hns hne2) h1 ?_
      have h2 := consumeOne_truthW hV.items len { m with stamp := some s.st } t p hm hp htr ts.items hwt tr hden (ws F trail)
      exact bm_step len _ _ _ _ _ _ (stampEndW_lands hV len s.c ts.n _ htns htne) h2 (bm_end_ws hV len _ trail)

/-- `build_mid_result` over a spaced sentence line, from any state whose sentence slots are empty -/
theorem bm_sentenceW (m : Mid) (hm : m.term = none) (hp : m.punct = none) (hs : m.stamp = none)
    (htr : m.truth = none) (s : SSentence) (hwf : wfSSent F s = true) (t : Term) (hdt : den F s.term = some t)
    (tr : Truth) (hdtr : denTruth s.truth = some tr)
    (hb : m.budget.isSome = true ∨ topSOK F s.term) (c : Cur) (hL : Lands F len c (sentTxt F s)) :
    ∀ fuel, R (F.buildMid fuel c m)
      (mk len [], withTruth (withStamp { m with term := some t, punct := some s.punct } (denStamp s.stamp)) tr) := by
  simp only [wfSSent, Bool.and_eq_true] at hwf
  obtain ⟨⟨hwt, hwst⟩, hwtr⟩ := hwf
  have hI := hV.items
  obtain ⟨hpne, hph, hpsp, _⟩ := hI.punct (fmtPunct_mem s.punct)
  have hstop : Stop F (ssentTail F s) := by
    simp only [ssentTail]
    apply stop_ws hI.base
    exact stop_of_kw F _ _ hpne hph
  have hns := starts_no_space hI.base (stxt_starts hV.surf s.term hwt (ssentTail F s))
  have hterm := parseTerm_stxt hV.surf len s.term hwt t hdt (ssentTail F s) hstop
    (termFuel (mk len (stxt F s.term ++ ssentTail F s))) (by simp [termFuel, mk]; omega)
  have h1 := consumeOne_term hI len m hm (stxt F s.term ++ ssentTail F s) (ssentTail F s) t hns
    (by
      rcases hb with hb | hb | hb
      · exact .inl hb
      · exact .inr (.inl (hb _))
      · exact .inr (.inr (hb len _)))
    hterm
  refine bm_step len c _ m _ _ _ hL h1 ?_
  have h2 := consumeOne_punct hI len { m with term := some t } t rfl hp s.punct
    (stampPart F s.stamp ++ (truthPart F s.truth ++ ws F s.trail))
  have hL2 : Lands F len (mk len (ssentTail F s))
      (F.fmtPunct s.punct ++ (stampPart F s.stamp ++ (truthPart F s.truth ++ ws F s.trail))) :=
    lands_ws hV len s.n1 _ (not_isPre_of_incompat hpsp _) (by simp [hpne])
  refine bm_step len _ _ _ _ _ _ hL2 h2 ?_
  exact bm_tailW hV len { m with term := some t, punct := some s.punct } t s.punct rfl rfl hs htr s.stamp hwst
    s.truth hwtr tr hdtr s.trail

end

end Narsese
