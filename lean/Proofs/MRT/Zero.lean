/-
  Master round trip, part 14: the inline-macro path. The macros delete every whitespace character from the
  literal and then call the enum parser on the characters. Deleting all whitespace from ANY spelling gives
  the spelling with zero spaces everywhere, which the master theorem covers.
-/
import Proofs.MRT.Spell
set_option autoImplicit false

namespace Narsese
open EFormat

mutual
  /-- the same tokens with no spaces at all -/
  def zeroT : STerm → STerm
    | .atom t => .atom t
    | .set ext _ first items _ => .set ext 0 (zeroT first) (zeroItems items) 0
    | .compound _ j items _ => .compound 0 j (zeroItems items) 0
    | .stmt _ s _ j _ p _ => .stmt 0 (zeroT s) 0 j 0 (zeroT p) 0
  def zeroItems : SItems → SItems
    | .nil => .nil
    | .cons _ _ t ts => .cons 0 0 (zeroT t) (zeroItems ts)
end

def zeroNums (items : List SNum) : List SNum := items.map (fun s => { s with pre := 0, post := 0 })

def zeroSent (s : SSentence) : SSentence :=
  { term := zeroT s.term, n1 := 0, punct := s.punct,
    stamp := s.stamp.map (fun ss => { ss with n := 0, a := 0, b := 0, c := 0 }),
    truth := s.truth.map (fun ts => { n := 0, items := zeroNums ts.items }), trail := 0 }

def zeroV : SValue → SValue
  | .term _ st _ => .term 0 (zeroT st) 0
  | .sentence _ s => .sentence 0 (zeroSent s)
  | .task _ k => .task 0 { e := 0, bitems := zeroNums k.bitems, n0 := 0, sent := zeroSent k.sent }

mutual
  theorem erase_zeroT (F : EFormat) : ∀ st : STerm, erase F (zeroT st) = erase F st
    | .atom t => rfl
    | .set ext a first items c => by simp only [zeroT, erase, erase_zeroT F first, erases_zeroItems F items]
    | .compound a j items c => by simp only [zeroT, erase, erases_zeroItems F items]
    | .stmt a s b j c p d => by simp only [zeroT, erase, erase_zeroT F s, erase_zeroT F p]
  theorem erases_zeroItems (F : EFormat) : ∀ items : SItems, erases F (zeroItems items) = erases F items
    | .nil => rfl
    | .cons b a t ts => by simp only [zeroItems, erases, erase_zeroT F t, erases_zeroItems F ts]
end

mutual
  theorem den_zeroT (F : EFormat) : ∀ st : STerm, den F (zeroT st) = den F st
    | .atom t => rfl
    | .set ext a first items c => by simp only [zeroT, den, den_zeroT F first, dens_zeroItems F items]
    | .compound a j items c => by simp only [zeroT, den, dens_zeroItems F items]
    | .stmt a s b j c p d => by simp only [zeroT, den, den_zeroT F s, den_zeroT F p]
  theorem dens_zeroItems (F : EFormat) : ∀ items : SItems, dens F (zeroItems items) = dens F items
    | .nil => rfl
    | .cons b a t ts => by simp only [zeroItems, dens, den_zeroT F t, dens_zeroItems F ts]
end

mutual
  theorem wfS_zeroT (F : EFormat) : ∀ st : STerm, wfS F (zeroT st) = wfS F st
    | .atom t => rfl
    | .set ext a first items c => by simp only [zeroT, wfS, wfS_zeroT F first, wfSs_zeroItems F items]
    | .compound a j items c => by
      simp only [zeroT, wfS, wfSs_zeroItems F items]
      cases items <;> rfl
    | .stmt a s b j c p d => by simp only [zeroT, wfS, wfS_zeroT F s, wfS_zeroT F p]
  theorem wfSs_zeroItems (F : EFormat) : ∀ items : SItems, wfSs F (zeroItems items) = wfSs F items
    | .nil => rfl
    | .cons b a t ts => by simp only [zeroItems, wfSs, wfS_zeroT F t, wfSs_zeroItems F ts]
end

mutual
  theorem wsFree_zeroT (F : EFormat) (L : LFormat) : ∀ st : STerm, wsFreeST F L (zeroT st) = wsFreeST F L st
    | .atom t => rfl
    | .set ext a first items c => by simp only [zeroT, wsFreeST, wsFree_zeroT F L first, wsFree_zeroItems F L items]
    | .compound a j items c => by simp only [zeroT, wsFreeST, wsFree_zeroItems F L items]
    | .stmt a s b j c p d => by simp only [zeroT, wsFreeST, wsFree_zeroT F L s, wsFree_zeroT F L p]
  theorem wsFree_zeroItems (F : EFormat) (L : LFormat) : ∀ items : SItems,
      wsFreeSs F L (zeroItems items) = wsFreeSs F L items
    | .nil => rfl
    | .cons b a t ts => by simp only [zeroItems, wsFreeSs, wsFree_zeroT F L t, wsFree_zeroItems F L ts]
end

theorem stxt_zeroT_head (F : EFormat) (st : STerm) (X : Str) : ∃ Y, stxt F (zeroT st) = stxt F (zeroT st) ∧ Y = X :=
  ⟨X, rfl, rfl⟩

theorem zeroNums_x (items : List SNum) : (zeroNums items).map (·.x) = items.map (·.x) := by
  simp [zeroNums, List.map_map, Function.comp_def]

theorem zeroNums_ok (items : List SNum) (h : ∀ s ∈ items, s.x.ok = true) : ∀ s ∈ zeroNums items, s.x.ok = true := by
  intro s hs
  simp only [zeroNums, List.mem_map] at hs
  obtain ⟨s', hs', rfl⟩ := hs
  exact h s' hs'

end Narsese

namespace Narsese
open EFormat

section
variable {F : EFormat} {L : LFormat} (hA : Agree F L)
include hA

theorem ws_zero : ws F 0 = [] := rfl

mutual
  /-- the zero-space spelling IS the space-less lexical text of the erased tree -/
  theorem stxt_zeroT : ∀ st : STerm, wfS F st = true → stxt F (zeroT st) = (noSp L).fmtTerm (erase F st)
    | .atom t, h => by
      simp only [wfS, Bool.and_eq_true] at h
      simp only [zeroT, stxt, erase]
      rw [← fmt_toLex hA t]
      cases t <;> simp_all [isAtomic, toLex, LFormat.fmtTerm]
    | .set ext a first items c, h => by
      simp only [wfS, Bool.and_eq_true] at h
      simp only [zeroT, stxt, erase, ws, List.nil_append, stxt_zeroT first h.1, itemsTxt_zero items h.2, txt_set,
        hA.separator]
    | .compound a j items c, h => by
      simp only [wfS, Bool.and_eq_true, decide_eq_true_eq, Bool.not_eq_true', beq_eq_false_iff_ne, ne_eq] at h
      cases items with
      | nil => simp at h
      | cons b' a' t' ts' =>
        have := itemsTxt_zero (.cons b' a' t' ts') h.2
        simp only [zeroT, stxt, erase, ws, List.nil_append, this, erases, txt_compound, hA.compL, hA.compR, hA.separator]
    | .stmt a s b j c p d, h => by
      simp only [wfS, Bool.and_eq_true, decide_eq_true_eq] at h
      simp only [zeroT, stxt, erase, ws, List.nil_append, stxt_zeroT s h.1.2, stxt_zeroT p h.2, txt_stmt, hA.stmtL,
        hA.stmtR]
  theorem itemsTxt_zero : ∀ items : SItems, wfSs F items = true →
      itemsTxt F (zeroItems items) = tailL F.separator (LFormat.fmtTerms (noSp L) (erases F items))
    | .nil, _ => rfl
    | .cons b a t ts, h => by
      simp only [wfSs, Bool.and_eq_true] at h
      simp only [zeroItems, itemsTxt, erases, LFormat.fmtTerms, tailL, ws, List.nil_append, stxt_zeroT t h.1,
        itemsTxt_zero ts h.2, List.append_assoc]
end

theorem snumsTxt_zero (sep : Str) (items : List SNum) :
    joinWith sep ((zeroNums items).map (SNum.txt F)) = joinWith sep (items.map (·.x.text)) := by
  congr 1
  simp [zeroNums, List.map_map, Function.comp_def, SNum.txt, ws]

theorem sentTxt_zero (s : SSentence) (hwf : wfSSent F s = true) (tr : Truth) (hdtr : denTruth s.truth = some tr) :
    sentTxt F (zeroSent s) = (noSp L).fmtSentence (eraseS F s) := by
  simp only [wfSSent, Bool.and_eq_true] at hwf
  have hstamp : stampPart F ((s.stamp).map (fun ss => { ss with n := 0, a := 0, b := 0, c := 0 })) =
      F.fmtStamp (denStamp s.stamp) := by
    cases hs : s.stamp with
    | none => simp [stampPart, denStamp, fmtStamp]
    | some ss =>
      have hw := hwf.1.2
      rw [hs] at hw
      simp only [wfSStamp, Bool.and_eq_true, Bool.not_eq_true', beq_eq_false_iff_ne, ne_eq] at hw
      simp only [Option.map_some, stampPart, denStamp, sstampTxt, ws, List.nil_append]
      cases hst : ss.st <;> simp_all [stampKw, stampNum, fmtStamp, ws]
  have htruth : truthPart F ((s.truth).map (fun ts => ({ n := 0, items := zeroNums ts.items } : STruth))) =
      truTxt L (truthTexts s.truth) := by
    cases ht : s.truth with
    | none => simp [truthPart, truthTexts, truTxt]
    | some ts =>
      rw [ht] at hdtr
      simp only [denTruth] at hdtr
      obtain ⟨_, hne, _, _⟩ := mkTruth_spec hdtr
      have hine : ts.items ≠ [] := by intro h0; rw [h0] at hne; simp at hne
      have : (ts.items.map (·.x.text)).isEmpty = false := by
        cases hi : ts.items with
        | nil => exact absurd hi hine
        | cons a as => simp
      simp only [Option.map_some, truthPart, struthTxt, ws, List.nil_append, snumsTxt_zero hA, truthTexts, truTxt, this,
        Bool.false_eq_true, if_false, hA.truthL, hA.truthR, hA.truthSep, List.append_assoc]
  rw [noSp_fmtSentence]
  simp only [sentTxt, ssentTail, zeroSent, ws, List.nil_append, List.append_nil, stxt_zeroT hA s.term hwf.1.1, hstamp,
    htruth, eraseS, List.append_assoc]

theorem svalTxt_zero (hI : ItemsOK F) (sv : SValue) (hwf : wfV F sv = true) (v : Narsese) (hden : denVal F sv = some v) :
    svalTxt F (zeroV sv) = (noSp L).fmtNarsese (eraseV F sv) := by
  cases sv with
  | term lead st trail =>
    simp only [wfV] at hwf
    simp only [zeroV, svalTxt, ws, List.nil_append, List.append_nil, eraseV, LFormat.fmtNarsese, stxt_zeroT hA st hwf]
  | sentence lead s =>
    simp only [wfV] at hwf
    simp only [denVal, denSent] at hden
    cases hdt : den F s.term with
    | none => simp [hdt] at hden
    | some t =>
      cases hdtr : denTruth s.truth with
      | none => simp [hdt, hdtr] at hden
      | some tr =>
        simp only [zeroV, svalTxt, ws, List.nil_append, eraseV, LFormat.fmtNarsese, sentTxt_zero hA s hwf tr hdtr]
  | task lead k =>
    simp only [wfV, Bool.and_eq_true] at hwf
    simp only [denVal, denSent] at hden
    cases hdb : mkBudget (k.bitems.map (·.x)) with
    | none => simp [hdb] at hden
    | some b =>
      cases hdt : den F k.sent.term with
      | none => simp [hdb, hdt] at hden
      | some t =>
        cases hdtr : denTruth k.sent.truth with
        | none => simp [hdb, hdt, hdtr] at hden
        | some tr =>
          have hs := sentTxt_zero hA k.sent hwf.1 tr hdtr
          have hne : ((noSp L).fmtSentence (eraseS F k.sent)).isEmpty = false := by
            rw [noSp_fmtSentence]
            have hp := (hI.punct (fmtPunct_mem k.sent.punct)).1
            cases hpp : F.fmtPunct k.sent.punct with
            | nil => exact absurd hpp hp
            | cons c cs => simp [eraseS, hpp]
          have hbud : sbudgetTxt F 0 (zeroNums k.bitems) = L.fmtBudget (k.bitems.map (·.x.text)) := by
            simp only [sbudgetTxt, snumsTxt, LFormat.fmtBudget, hA.budgetL, hA.budgetR, hA.budgetSep, List.append_assoc]
            by_cases he : k.bitems = []
            · simp [he, zeroNums, ws, joinWith]
            · have : (zeroNums k.bitems).isEmpty = false := by
                cases hb : k.bitems with
                | nil => exact absurd hb he
                | cons a as => simp [zeroNums]
              simp only [this, Bool.false_eq_true, if_false, snumsTxt_zero hA]
          simp only [zeroV, svalTxt, taskTxt, ws, List.nil_append, eraseV, LFormat.fmtNarsese, hbud, hs]
          rw [noSp_fmtTask]
          simp only [hne, Bool.false_eq_true, if_false]

end

/-- **the inline-macro path**: delete every whitespace character of any spelling, then parse: the value -/
theorem macro_path {F : EFormat} {L : LFormat} (hV : SurfaceItemsOK F) (hX : LexSide F L) (sv : SValue)
    (hwf : wfV F sv = true) (hws : wsFreeSV F L sv = true) (htop0 : topVB F (zeroV sv) = true) (v : Narsese)
    (hden : denVal F sv = some v) : F.eparse (L.idealize (svalTxt F sv)) = .ok v := by
  rw [ideal_svalTxt hX hV.items sv hwf hws v hden, ← svalTxt_zero hX.agree hV.items sv hwf v hden]
  -- the zero spelling is well-formed and denotes the same value
  have hwf0 : wfV F (zeroV sv) = true := by
    cases sv with
    | term lead st trail => simpa [zeroV, wfV, wfS_zeroT] using hwf
    | sentence lead s =>
      simp only [wfV, wfSSent, Bool.and_eq_true] at hwf
      simp only [zeroV, wfV, wfSSent, zeroSent, wfS_zeroT, Bool.and_eq_true]
      refine ⟨⟨hwf.1.1, ?_⟩, ?_⟩
      · cases hs : s.stamp with
        | none => rfl
        | some ss => have := hwf.1.2; rw [hs] at this; simp_all [wfSStamp]
      · cases ht : s.truth with
        | none => rfl
        | some ts =>
          have := hwf.2; rw [ht] at this
          simp only [wfSTruth, List.all_eq_true] at this
          simp only [Option.map_some, wfSTruth, List.all_eq_true]
          exact zeroNums_ok ts.items this
    | task lead k =>
      simp only [wfV, wfSSent, Bool.and_eq_true, List.all_eq_true] at hwf
      simp only [zeroV, wfV, wfSSent, zeroSent, wfS_zeroT, Bool.and_eq_true, List.all_eq_true]
      refine ⟨⟨⟨hwf.1.1.1, ?_⟩, ?_⟩, zeroNums_ok k.bitems hwf.2⟩
      · cases hs : k.sent.stamp with
        | none => rfl
        | some ss => have := hwf.1.1.2; rw [hs] at this; simp_all [wfSStamp]
      · cases ht : k.sent.truth with
        | none => rfl
        | some ts =>
          have := hwf.1.2; rw [ht] at this
          simp only [wfSTruth, List.all_eq_true] at this
          simp only [Option.map_some, wfSTruth, List.all_eq_true]
          exact zeroNums_ok ts.items this
  have hden0 : denVal F (zeroV sv) = some v := by
    rw [← hden]
    cases sv with
    | term lead st trail => simp [zeroV, denVal, den_zeroT]
    | sentence lead s =>
      simp only [zeroV, denVal, denSent, zeroSent, den_zeroT]
      cases hs : s.stamp <;> cases ht : s.truth <;> simp [denStamp, denTruth, zeroNums_x]
    | task lead k =>
      simp only [zeroV, denVal, denSent, zeroSent, den_zeroT, zeroNums_x]
      cases hs : k.sent.stamp <;> cases ht : k.sent.truth <;> simp [denStamp, denTruth, zeroNums_x]
  exact eparse_svalTxt hV (zeroV sv) hwf0 (topV_of_B hV.items _ hwf0 htop0) v hden0

end Narsese
