/-
  Master round trip, part 7: the stamp with spaces between its tokens; `consume_one` on the spaced items.
-/
import Proofs.MRT.Items
set_option autoImplicit false

namespace Narsese
open EFormat

/-- the number of a fixed stamp, preceded by `b` spaces -/
def stampNum (F : EFormat) (b : Nat) : Stamp → Str
  | .fixed t => ws F b ++ showInt t
  | _ => []

/-- `stampL ␣ᵃ keyword [␣ᵇ number] ␣ᶜ stampR` -/
def sstampTxt (F : EFormat) (st : Stamp) (a b c : Nat) : Str :=
  F.stampL ++ (ws F a ++ (stampKw F st ++ (stampNum F b st ++ (ws F c ++ F.stampR))))

/-- what the stamp reader leaves behind -/
def stampEndW (F : EFormat) (len c : Nat) (Y : Str) : Cur :=
  F.skipAfterSpaces (mk len (ws F c ++ (F.stampR ++ Y))) F.stampR

theorem ws_add (F : EFormat) (a b : Nat) : ws F a ++ ws F b = ws F (a + b) := by
  induction a with
  | zero => simp [ws]
  | succ a ih => simp only [ws, List.append_assoc, ih, Nat.succ_add]

/-- decidable additions to the side conditions for spaced sentence lines -/
def surfaceItemsOKB (F : EFormat) : Bool :=
  headNotIn F.truthL signChars && (F.stampL.isEmpty || incompat F.budgetL F.stampL)

structure SurfaceItemsOK (F : EFormat) : Prop where
  surf : SurfaceOK F
  items : ItemsOK F
  more : surfaceItemsOKB F = true

theorem SurfaceItemsOK.truth_sign {F : EFormat} (h : SurfaceItemsOK F) : headNotIn F.truthL signChars = true := by
  have := h.more; simp only [surfaceItemsOKB, Bool.and_eq_true] at this; exact this.1

theorem SurfaceItemsOK.budget_stamp {F : EFormat} (h : SurfaceItemsOK F) (hl : F.stampL ≠ []) :
    incompat F.budgetL F.stampL = true := by
  have := h.more
  simp only [surfaceItemsOKB, Bool.and_eq_true, Bool.or_eq_true, List.isEmpty_iff] at this
  exact this.2.resolve_left hl

section
variable {F : EFormat} (hI : ItemsOK F) (len : Nat)
include hI

theorem consumeStamp_spaced (st : Stamp) (hst : st ≠ .eternal) (hwf : wfStamp st = true) (a b c : Nat)
    (ha : F.stampL = [] → a = 0) (Y : Str) (hY : headNotIn (ws F c ++ (F.stampR ++ Y)) signChars = true) :
    F.consumeStamp (mk len (sstampTxt F st a b c ++ Y)) = .ok (st, stampEndW F len c Y) := by
  obtain ⟨h12, h13, h14, h23, h24, h34⟩ := hI.stamp_pairs
  have hsp := fun k hk => (hI.stampKw (k := k) hk).2.1
  have hkw : isPre F.spaceParse (stampKw F st ++ (stampNum F b st ++ (ws F c ++ (F.stampR ++ Y)))) = false :=
    not_isPre_of_incompat (hsp _ (stampKw_mem st hst)) _
  have e : sstampTxt F st a b c ++ Y =
      F.stampL ++ (ws F a ++ (stampKw F st ++ (stampNum F b st ++ (ws F c ++ (F.stampR ++ Y))))) := by
    simp only [sstampTxt, List.append_assoc]
  unfold consumeStamp
  rw [e, skipAndSpaces_ws hI.base len F.stampL a _ hkw]
  cases st with
  | eternal => exact absurd rfl hst
  | past =>
    simp only [stampKw, stampNum, List.nil_append, mk_startsWith, isPre_append, not_isPre_of_incompat h12 _,
      Bool.false_eq_true, if_false, if_true, mk_skip, stampEndW]
  | present =>
    simp only [stampKw, stampNum, List.nil_append, mk_startsWith, isPre_append, not_isPre_of_incompat h13 _,
      not_isPre_of_incompat h23 _, Bool.false_eq_true, if_false, if_true, mk_skip, stampEndW]
  | future =>
    simp only [stampKw, stampNum, List.nil_append, mk_startsWith, isPre_append, not_isPre_of_incompat h14 _,
      not_isPre_of_incompat h24 _, not_isPre_of_incompat h34 _, Bool.false_eq_true, if_false, if_true, mk_skip,
      stampEndW]
  | fixed t =>
    simp only [wfStamp, Bool.and_eq_true, decide_eq_true_eq] at hwf
    obtain ⟨hne, hch⟩ := showInt_chars t
    have hns : isPre F.spaceParse (showInt t ++ (ws F c ++ (F.stampR ++ Y))) = false := by
      cases hs : showInt t with
      | nil => exact absurd hs hne
      | cons ch cs =>
        rw [hs] at hch
        exact signChar_not_pre _ hI.base.sane.space_ne hI.split.2.2.2.2.2.2.1 ch _ (hch ch (by simp))
    simp only [stampKw, stampNum, List.append_assoc, mk_startsWith, isPre_append, if_true]
    rw [skipAndSpaces_ws hI.base len F.stampFixed b _ hns,
      parseIsizeAt_showInt len t hwf.1 hwf.2 _ (headNotIn_sign hY)]
    simp only [stampEndW]

/-- the spaced stamp: fourth alternative of `consume_one` -/
theorem consumeOne_stampW (m : Mid) (t : Term) (p : Punct) (hm : m.term = some t) (hp : m.punct = some p)
    (hs : m.stamp = none) (st : Stamp) (hst : st ≠ .eternal) (hwf : wfStamp st = true) (a b c : Nat)
    (ha : F.stampL = [] → a = 0) (hbs : F.stampL ≠ [] → incompat F.budgetL F.stampL = true)
    (Y : Str) (hY : headNotIn (ws F c ++ (F.stampR ++ Y)) signChars = true) :
    F.consumeOne (mk len (sstampTxt F st a b c ++ Y)) m = .ok (stampEndW F len c Y, { m with stamp := some st }) := by
  obtain ⟨hkne, hksp, hkb, _⟩ := hI.stampKw (stampKw_mem st hst)
  have e : sstampTxt F st a b c ++ Y =
      F.stampL ++ (ws F a ++ (stampKw F st ++ (stampNum F b st ++ (ws F c ++ (F.stampR ++ Y))))) := by
    simp only [sstampTxt, List.append_assoc]
  have hns : isPre F.spaceParse (sstampTxt F st a b c ++ Y) = false := by
    rw [e]
    by_cases hl : F.stampL = []
    · rw [hl, ha hl]
      simp only [ws, List.nil_append]
      exact not_isPre_of_incompat hksp _
    · have := hI.split.2.2.2.2.2.1
      simp only [nonempty_isEmpty hl, Bool.false_or, Bool.and_eq_true] at this
      exact not_isPre_of_incompat this.1 _
  have hnb : isPre F.budgetL (sstampTxt F st a b c ++ Y) = false := by
    rw [e]
    by_cases hl : F.stampL = []
    · rw [hl, ha hl]
      simp only [ws, List.nil_append]
      have := not_isPre_of_incompat hkb (stampNum F b st ++ (ws F c ++ (F.stampR ++ Y)))
      simpa [hl] using this
    · exact not_isPre_of_incompat (hbs hl) _
  unfold consumeOne
  simp only [mk_startsWith, hns, Bool.false_eq_true, if_false]
  refine (alt_skip _ _ _ _ ?_).trans ?_
  · simp [hnb]
  refine (alt_skip _ _ _ _ ?_).trans ?_
  · simp [hm]
  refine (alt_skip _ _ _ _ ?_).trans ?_
  · simp [hp]
  refine alt_hit _ _ _ _ _ ?_ ?_
  · simp [hs, e, isPre_append]
  · rw [consumeStamp_spaced hI len st hst hwf a b c ha Y hY]; rfl

end

end Narsese
