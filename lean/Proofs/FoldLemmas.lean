/-
  Helper lemmas about folding (shared by C05 and C12).
-/
import NarseseModel.Fold
import Props.C04
import Props.C13
set_option autoImplicit false

namespace Narsese
open EFormat

theorem toTermsWithImage_inv : ∀ (ts : List Term) (n : Nat) (idx : Option Nat) (acc : List Term),
    (idx = none → acc.length = n) → (∀ j, idx = some j → j ≤ acc.length) →
    ∀ i, (toTermsWithImage ts n idx acc).1 = some i → i ≤ (toTermsWithImage ts n idx acc).2.length
  | [], n, idx, acc, _, h2, i, hi => by
    simp only [toTermsWithImage] at hi ⊢
    exact h2 i hi
  | t :: ts, n, idx, acc, h1, h2, i, hi => by
    simp only [toTermsWithImage] at hi ⊢
    split at hi
    · next hc =>
      simp only [hc, if_true] at ⊢
      simp only [Bool.and_eq_true, decide_eq_true_eq, Option.isNone_iff_eq_none] at hc
      exact toTermsWithImage_inv ts (n + 1) (some n) acc (by simp) (by intro j hj; cases hj; rw [h1 hc.2]; exact Nat.le_refl _) i hi
    · next hc =>
      simp only [hc] at ⊢
      refine toTermsWithImage_inv ts (n + 1) idx (acc ++ [t]) ?_ ?_ i hi
      · intro hn; simp [h1 hn]
      · intro j hj; have := h2 j hj; simp; omega

/-- **image index lemma**: the index found by `to_terms_with_image` never exceeds the number of
remaining components, so `new_image_*` (which panics otherwise) is safe -/
theorem toTermsWithImage_index (ts : List Term) (i : Nat) (ts' : List Term)
    (h : toTermsWithImage ts 0 none [] = (some i, ts')) : i ≤ ts'.length := by
  have := toTermsWithImage_inv ts 0 none [] (by simp) (by simp) i (by rw [h])
  rwa [h] at this

theorem buildCompound_total (ck : ConnK) (ts : List Term) : (buildCompound ck ts).total = true := by
  cases ck with
  | img k =>
    simp only [buildCompound]
    split
    · next i ts' h =>
      have := toTermsWithImage_index ts i ts' h
      simp [newImage, Nat.not_lt.mpr this, Res.total]
    · rfl
  | diff k => simp only [buildCompound]; split <;> rfl
  | neg => simp only [buildCompound]; split <;> rfl
  | _ => rfl

theorem buildAtom_total (hd : AtomHead) (name : Str) : (buildAtom hd name).total = true := by
  cases hd with
  | interval => simp only [buildAtom]; split <;> rfl
  | _ => rfl

theorem foldAtom_total (F : EFormat) (pre name : Str) : (F.foldAtom pre name).total = true := by
  unfold foldAtom; split
  · exact buildAtom_total _ _
  · rfl

theorem foldCompound_total (F : EFormat) (conn : Str) (ts : List Term) : (F.foldCompound conn ts).total = true := by
  unfold foldCompound; split
  · exact buildCompound_total _ _
  · rfl

theorem foldSet_total (F : EFormat) (l r : Str) (ts : List Term) : (F.foldSet l r ts).total = true := by
  unfold foldSet; split <;> rfl

theorem foldStatement_total (F : EFormat) (cop : Str) (s p : Term) : (F.foldStatement cop s p).total = true := by
  unfold foldStatement; split <;> rfl

mutual
  theorem foldTerm_total (F : EFormat) : ∀ x : LTerm, (F.foldTerm x).total = true
    | .atom pre name => by simp only [foldTerm]; exact foldAtom_total F pre name
    | .compound conn ts => by
      have := foldTerms_total F ts
      simp only [foldTerm]
      cases h : F.foldTerms ts <;> simp_all [Res.total]
      exact foldCompound_total F conn _
    | .set l ts r => by
      have := foldTerms_total F ts
      simp only [foldTerm]
      cases h : F.foldTerms ts <;> simp_all [Res.total]
      exact foldSet_total F l r _
    | .stmt cop s p => by
      have h1 := foldTerm_total F s
      have h2 := foldTerm_total F p
      simp only [foldTerm]
      cases hs : F.foldTerm s <;> simp_all [Res.total]
      cases hp : F.foldTerm p <;> simp_all [Res.total]
      exact foldStatement_total F cop _ _
  theorem foldTerms_total (F : EFormat) : ∀ xs : LTerms, (F.foldTerms xs).total = true
    | .nil => rfl
    | .cons t ts => by
      have h1 := foldTerm_total F t
      have h2 := foldTerms_total F ts
      simp only [foldTerms]
      cases ht : F.foldTerm t <;> simp_all [Res.total]
      cases hts : F.foldTerms ts <;> simp_all [Res.total]
end

theorem foldFloats_total : ∀ xs : List Str, (foldFloats xs).total = true
  | [] => rfl
  | s :: ss => by
    simp only [foldFloats]
    split
    · have := foldFloats_total ss
      cases h : foldFloats ss <;> simp_all [Res.total, Res.map]
    · rfl

theorem truth_tryFromFloats_total (xs : List Num) : (Truth.tryFromFloats xs).total = true := by
  have := Props.C13.truth_try_total Num.in01 xs
  unfold Truth.tryFromFloats
  cases h : GTruth.tryFromFloats Num.in01 xs <;> simp_all [Res.total, Res.map]

theorem budget_tryFromFloats_total (xs : List Num) : (Budget.tryFromFloats xs).total = true := by
  have := Props.C13.budget_try_total Num.in01 xs
  unfold Budget.tryFromFloats
  cases h : GBudget.tryFromFloats Num.in01 xs <;> simp_all [Res.total, Res.map]

theorem bind_total {α β : Type} (x : Res α) (f : α → Res β) (hx : x.total = true)
    (hf : ∀ a, (f a).total = true) : (x.bind f).total = true := by
  cases x <;> simp_all [Res.bind, Res.total]

theorem foldTruth_total (xs : List Str) : (foldTruth xs).total = true :=
  bind_total _ _ (foldFloats_total xs) truth_tryFromFloats_total

theorem foldBudget_total (xs : List Str) : (foldBudget xs).total = true :=
  bind_total _ _ (foldFloats_total xs) budget_tryFromFloats_total

theorem foldSentence_total (F : EFormat) (s : LSentence) : (F.foldSentence s).total = true := by
  unfold foldSentence
  refine bind_total _ _ (foldTerm_total F _) fun t => ?_
  refine bind_total _ _ (foldTruth_total _) fun tr => ?_
  refine bind_total _ _ (Props.C04.stampDoor_total F _) fun st => ?_
  refine bind_total _ _ (Props.C04.punctDoor_total F _) fun p => ?_
  rfl

theorem foldTask_total (F : EFormat) (k : LTask) : (F.foldTask k).total = true := by
  unfold foldTask
  refine bind_total _ _ (foldBudget_total _) fun b => ?_
  refine bind_total _ _ (foldSentence_total F _) fun s => ?_
  rfl

theorem map_total {α β : Type} (x : Res α) (f : α → β) (hx : x.total = true) : (x.map f).total = true := by
  cases x <;> simp_all [Res.map, Res.total]

end Narsese
