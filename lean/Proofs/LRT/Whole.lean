/-
  Lexical round trip, part 8: whole values, `idealize_env` on the formatter's output, and
  `parse (format v) = Ok v`.
-/
import Proofs.LRT.Value
set_option autoImplicit false

namespace Narsese
open LFormat

/-! ### well-formed lexical values -/

def SentOK (L : LFormat) (s : LSentence) : Prop :=
  wfLT L s.term = true ∧ s.punct ∈ L.punctuations ∧ (s.stamp = [] ∨ StampOK L s.stamp) ∧
  (∀ x ∈ s.truth, numStrB x = true)

/-- values the lexical parser reads back: vocabulary-consistent terms, a punctuation mark of the format,
a stamp built from a stamp bracket pair, numeric truth / budget strings; a value without budget must not be
taken for one starting with a budget, and a bare term not for a line with right-hand items -/
def wfLN (L : LFormat) : LNarsese → Prop
  | .term t => wfLT L t = true ∧ TermTailOK L ((noSp L).fmtTerm t) ∧ L.segBudget ((noSp L).fmtTerm t) = none
  | .sentence s => SentOK L s ∧ L.segBudget ((noSp L).fmtSentence s) = none
  | .task k => SentOK L k.sentence ∧ ∀ x ∈ k.budget, numStrB x = true

section
variable {L : LFormat} (hI : LItemsOK L)
include hI

omit hI in
theorem noSp_fmtSentence (s : LSentence) :
    (noSp L).fmtSentence s = [] ++ (noSp L).fmtTerm s.term ++ s.punct ++ s.stamp ++ truTxt L s.truth := by
  simp only [fmtSentence, joinLest_nil3, noSp, fmtTruth, truTxt, List.nil_append, List.append_assoc]

theorem parse_sentence_noSp (s : LSentence) (hs : SentOK L s)
    (hnb : L.segBudget ((noSp L).fmtSentence s) = none) :
    (L.parseItems ((noSp L).fmtSentence s)).map LMid.fold = .ok (some (.sentence s)) := by
  obtain ⟨ht, hp, hst, htr⟩ := hs
  rw [noSp_fmtSentence] at hnb ⊢
  rw [parseItems_line hI [] none s.term ht s.punct hp s.stamp hst s.truth htr hnb rfl]
  simp only [Res.map, LMid.fold, Option.map_none, optS_getD, optL_getD]

theorem parse_task_noSp (k : LTask) (hs : SentOK L k.sentence) (hb : ∀ x ∈ k.budget, numStrB x = true) :
    (L.parseItems ((noSp L).fmtTask k)).map LMid.fold = .ok (some (.task k)) := by
  obtain ⟨ht, hp, hst, htr⟩ := hs
  have hne : ((noSp L).fmtSentence k.sentence).isEmpty = false := by
    rw [noSp_fmtSentence]
    have := (hI.split.2.2.2.2.1 _ hp).1
    cases hpp : k.sentence.punct with
    | nil => exact absurd hpp this
    | cons c cs => simp
  have e : (noSp L).fmtTask k = (L.budgetL ++ joinWith L.budgetSep k.budget ++ L.budgetR) ++
      (noSp L).fmtTerm k.sentence.term ++ k.sentence.punct ++ k.sentence.stamp ++ truTxt L k.sentence.truth := by
    simp only [fmtTask, hne, Bool.false_eq_true, if_false]
    rw [noSp_fmtSentence]
    simp only [fmtBudget, noSp, List.nil_append, List.append_nil, List.append_assoc]
  have hbud := segBudget_txt hI k.budget hb
    ((noSp L).fmtTerm k.sentence.term ++ k.sentence.punct ++ k.sentence.stamp ++ truTxt L k.sentence.truth)
  rw [e]
  rw [parseItems_line hI _ (some (k.budget, _)) k.sentence.term ht k.sentence.punct hp k.sentence.stamp hst
    k.sentence.truth htr (by simpa only [List.append_assoc] using hbud) rfl]
  simp only [Res.map, LMid.fold, Option.map_some, optS_getD, optL_getD]

theorem parse_term_noSp (t : LTerm) (ht : wfLT L t = true) (htail : TermTailOK L ((noSp L).fmtTerm t))
    (hnb : L.segBudget ((noSp L).fmtTerm t) = none) :
    (L.parseItems ((noSp L).fmtTerm t)).map LMid.fold = .ok (some (.term t)) := by
  obtain ⟨h1, h2, h3⟩ := htail
  have hterm : L.segTerm (lexFuel ((noSp L).fmtTerm t)) ((noSp L).fmtTerm t) =
      .ok (t, ((noSp L).fmtTerm t).length) := by
    have := segTerm_fmtTerm hI.base t ht [] (stopL_nil L) (lexFuel ((noSp L).fmtTerm t))
      (by simp only [lexFuel, List.append_nil]; omega)
    simpa using this
  have hTne : (noSp L).fmtTerm t ≠ [] := by
    intro h0
    have := (segTerm_good L hI.base.sane (lexFuel ((noSp L).fmtTerm t)) ((noSp L).fmtTerm t)).2.1 t _ hterm
    rw [h0] at this
    simp at this
  have := parseItems_assemble L ((noSp L).fmtTerm t) ((noSp L).fmtTerm t) ((noSp L).fmtTerm t) []
    ((noSp L).fmtTerm t) none none none none t _ hnb rfl h1 rfl (by simp) (Nat.le_refl _) h2 rfl (by simp)
    (Nat.le_refl _) h3 (by simp) (by simp) (by simp) hTne hterm
  rw [this]
  simp [Res.map, LMid.fold]

/-- the parser on the idealized text of a well-formed value -/
theorem parse_noSp (v : LNarsese) (hv : wfLN L v) :
    (L.parseItems ((noSp L).fmtNarsese v)).map LMid.fold = .ok (some v) := by
  cases v with
  | term t => exact parse_term_noSp hI t hv.1 hv.2.1 hv.2.2
  | sentence s => exact parse_sentence_noSp hI s hv.1 hv.2
  | task k => exact parse_task_noSp hI k hv.1 hv.2

end

/-! ### `idealize_env` on the formatter's output -/

/-- no string of the value contains a character that `idealize_env` deletes -/
def wsFree (L : LFormat) (s : Str) : Bool := s.all (fun c => !L.isWs c)

mutual
  def wsFreeT (L : LFormat) : LTerm → Bool
    | .atom pre name => wsFree L pre && wsFree L name
    | .compound conn ts => wsFree L conn && wsFreeTs L ts
    | .set l ts r => wsFree L l && wsFree L r && wsFreeTs L ts
    | .stmt cop s p => wsFree L cop && wsFreeT L s && wsFreeT L p
  def wsFreeTs (L : LFormat) : LTerms → Bool
    | .nil => true
    | .cons t ts => wsFreeT L t && wsFreeTs L ts
end

def wsFreeS (L : LFormat) (s : LSentence) : Bool :=
  wsFreeT L s.term && wsFree L s.punct && wsFree L s.stamp && s.truth.all (wsFree L)

def wsFreeN (L : LFormat) : LNarsese → Bool
  | .term t => wsFreeT L t
  | .sentence s => wsFreeS L s
  | .task k => wsFreeS L k.sentence && k.budget.all (wsFree L)

/-- the formatter's own keywords survive `idealize_env`, its spaces do not -/
def lWsOKB (L : LFormat) : Bool :=
  L.removeSpaces && L.spaceTerms.all L.isWs && L.spaceItems.all L.isWs &&
  [L.compL, L.compR, L.separator, L.stmtL, L.stmtR, L.truthL, L.truthR, L.truthSep,
   L.budgetL, L.budgetR, L.budgetSep].all (wsFree L)

section
variable {L : LFormat} (hW : lWsOKB L = true)
include hW

theorem lWs_split :
    L.removeSpaces = true ∧ (∀ c ∈ L.spaceTerms, L.isWs c = true) ∧ (∀ c ∈ L.spaceItems, L.isWs c = true) ∧
    ∀ k ∈ [L.compL, L.compR, L.separator, L.stmtL, L.stmtR, L.truthL, L.truthR, L.truthSep,
      L.budgetL, L.budgetR, L.budgetSep], wsFree L k = true := by
  simp only [lWsOKB, Bool.and_eq_true, List.all_eq_true] at hW
  exact ⟨hW.1.1.1, hW.1.1.2, hW.1.2, hW.2⟩

theorem ideal_append (a b : Str) : L.idealize (a ++ b) = L.idealize a ++ L.idealize b := by
  simp [idealize, (lWs_split hW).1]

theorem ideal_free (k : Str) (h : wsFree L k = true) : L.idealize k = k := by
  simp only [idealize, (lWs_split hW).1, if_true]
  apply List.filter_eq_self.mpr
  simpa [wsFree, List.all_eq_true] using h

theorem ideal_space (k : Str) (h : ∀ c ∈ k, L.isWs c = true) : L.idealize k = [] := by
  simp only [idealize, (lWs_split hW).1, if_true]
  apply List.filter_eq_nil_iff.mpr
  intro c hc
  simp [h c hc]

theorem ideal_kw {k : Str} (hk : k ∈ [L.compL, L.compR, L.separator, L.stmtL, L.stmtR, L.truthL, L.truthR,
    L.truthSep, L.budgetL, L.budgetR, L.budgetSep]) : L.idealize k = k :=
  ideal_free hW k ((lWs_split hW).2.2.2 k hk)

theorem ideal_join (sep sp : Str) (hsep : L.idealize sep = sep) (hsp : L.idealize sp = []) :
    ∀ xs : List Str, L.idealize (joinWith (sep ++ sp) xs) = joinWith sep (xs.map L.idealize)
  | [] => by simp [joinWith, idealize, (lWs_split hW).1]
  | [x] => by simp [joinWith]
  | x :: y :: r => by
    have ih := ideal_join sep sp hsep hsp (y :: r)
    simp only [joinWith, List.map_cons, ideal_append hW, hsep, hsp, List.append_nil] at ih ⊢
    rw [ih]

mutual
  theorem ideal_term : ∀ t : LTerm, wsFreeT L t = true → L.idealize (L.fmtTerm t) = (noSp L).fmtTerm t
    | .atom pre name, h => by
      simp only [wsFreeT, Bool.and_eq_true] at h
      simp only [fmtTerm, ideal_append hW, ideal_free hW _ h.1, ideal_free hW _ h.2]
    | .compound conn ts, h => by
      simp only [wsFreeT, Bool.and_eq_true] at h
      have hsp := ideal_space hW L.spaceTerms (lWs_split hW).2.1
      have hsep : L.idealize L.separator = L.separator := ideal_kw hW (by simp)
      have hj := ideal_join hW L.separator L.spaceTerms hsep hsp (fmtTerms L ts)
      simp only [fmtTerm, joinComponents, ideal_append hW, ideal_free hW _ h.1, hsp, hsep, hj, ideal_terms ts h.2,
        ideal_kw hW (k := L.compL) (by simp), ideal_kw hW (k := L.compR) (by simp), noSp, List.append_nil]
    | .set l ts r, h => by
      simp only [wsFreeT, Bool.and_eq_true] at h
      have hsp := ideal_space hW L.spaceTerms (lWs_split hW).2.1
      have hsep : L.idealize L.separator = L.separator := ideal_kw hW (by simp)
      have hj := ideal_join hW L.separator L.spaceTerms hsep hsp (fmtTerms L ts)
      simp only [fmtTerm, joinComponents, ideal_append hW, ideal_free hW _ h.1.1, ideal_free hW _ h.1.2, hj,
        ideal_terms ts h.2, noSp, List.append_nil]
    | .stmt cop s p, h => by
      simp only [wsFreeT, Bool.and_eq_true] at h
      have hsp := ideal_space hW L.spaceTerms (lWs_split hW).2.1
      simp only [fmtTerm, ideal_append hW, ideal_free hW _ h.1.1, hsp, ideal_term s h.1.2, ideal_term p h.2,
        ideal_kw hW (k := L.stmtL) (by simp), ideal_kw hW (k := L.stmtR) (by simp), noSp, List.append_nil]
  theorem ideal_terms : ∀ ts : LTerms, wsFreeTs L ts = true →
      (fmtTerms L ts).map L.idealize = fmtTerms (noSp L) ts
    | .nil, _ => by simp [fmtTerms]
    | .cons t ts, h => by
      simp only [wsFreeTs, Bool.and_eq_true] at h
      simp only [fmtTerms, List.map_cons, ideal_term t h.1, ideal_terms ts h.2]
end

omit hW in
theorem wsFree_append (a b : Str) : wsFree L (a ++ b) = (wsFree L a && wsFree L b) := by
  simp [wsFree, List.all_append]

omit hW in
theorem wsFree_join (sep : Str) (hs : wsFree L sep = true) : ∀ xs : List Str, xs.all (wsFree L) = true →
    wsFree L (joinWith sep xs) = true
  | [], _ => by simp [joinWith, wsFree]
  | [x], h => by simpa [joinWith] using h
  | x :: y :: r, h => by
    simp only [List.all_cons, Bool.and_eq_true] at h
    have ih := wsFree_join sep hs (y :: r) (by simp [h.2.1, h.2.2])
    simp only [joinWith, wsFree_append, h.1, hs, ih, Bool.and_self]

theorem ideal_truth (tr : List Str) (h : tr.all (wsFree L) = true) : L.idealize (L.fmtTruth tr) = truTxt L tr := by
  have hk := (lWs_split hW).2.2.2
  unfold fmtTruth truTxt
  split
  · simp [idealize, (lWs_split hW).1]
  · apply ideal_free hW
    simp only [wsFree_append, hk L.truthL (by simp), hk L.truthR (by simp),
      wsFree_join L.truthSep (hk L.truthSep (by simp)) tr h, Bool.and_self]

theorem ideal_budget (b : List Str) (h : b.all (wsFree L) = true) : L.idealize (L.fmtBudget b) = (noSp L).fmtBudget b := by
  have hk := (lWs_split hW).2.2.2
  have : (noSp L).fmtBudget b = L.fmtBudget b := rfl
  rw [this]
  apply ideal_free hW
  simp only [fmtBudget, wsFree_append, hk L.budgetL (by simp), hk L.budgetR (by simp),
    wsFree_join L.budgetSep (hk L.budgetSep (by simp)) b h, Bool.and_self]

omit hW in
theorem joinLest_eq (sp a b c : Str) :
    joinLest sp [a, b, c] = a ++ ((if b.isEmpty then [] else sp ++ b) ++ (if c.isEmpty then [] else sp ++ c)) := by
  simp only [joinLest, List.filter]
  cases b <;> cases c <;> simp

theorem ideal_nil : L.idealize [] = [] := by simp [idealize]

theorem ideal_sepItem (sp b : Str) (hsp : L.idealize sp = []) :
    L.idealize (if b.isEmpty then [] else sp ++ b) = L.idealize b := by
  split
  · next h => rw [List.isEmpty_iff.mp h]
  · rw [ideal_append hW, hsp, List.nil_append]

theorem ideal_sentence (s : LSentence) (h : wsFreeS L s = true) :
    L.idealize (L.fmtSentence s) = (noSp L).fmtSentence s := by
  simp only [wsFreeS, Bool.and_eq_true] at h
  obtain ⟨⟨⟨h1, h2⟩, h3⟩, h4⟩ := h
  have h0 := ideal_space hW L.spaceItems (lWs_split hW).2.2.1
  rw [noSp_fmtSentence]
  unfold fmtSentence
  rw [joinLest_eq, ideal_append hW, ideal_append hW, ideal_append hW, ideal_sepItem hW _ _ h0,
    ideal_sepItem hW _ _ h0, ideal_term hW s.term h1, ideal_free hW _ h2, ideal_free hW _ h3,
    ideal_truth hW s.truth h4]
  simp only [List.nil_append, List.append_assoc]

omit hW in
theorem noSp_fmtTask (k : LTask) :
    (noSp L).fmtTask k = if ((noSp L).fmtSentence k.sentence).isEmpty then L.fmtBudget k.budget
      else L.fmtBudget k.budget ++ ((noSp L).fmtSentence k.sentence) := by
  simp only [fmtTask]
  split
  · rfl
  · show L.fmtBudget k.budget ++ [] ++ _ = _
    simp

theorem ideal_narsese (v : LNarsese) (h : wsFreeN L v = true) :
    L.idealize (L.fmtNarsese v) = (noSp L).fmtNarsese v := by
  cases v with
  | term t => exact ideal_term hW t h
  | sentence s => exact ideal_sentence hW s h
  | task k =>
    simp only [wsFreeN, Bool.and_eq_true] at h
    have hs := ideal_sentence hW k.sentence h.1
    have hb : L.idealize (L.fmtBudget k.budget) = L.fmtBudget k.budget := ideal_budget hW k.budget h.2
    have h0 := ideal_space hW L.spaceItems (lWs_split hW).2.2.1
    show L.idealize (L.fmtTask k) = (noSp L).fmtTask k
    rw [noSp_fmtTask]
    unfold fmtTask
    simp only
    by_cases he : (L.fmtSentence k.sentence).isEmpty = true
    · have e0 : L.fmtSentence k.sentence = [] := List.isEmpty_iff.mp he
      have e1 : (noSp L).fmtSentence k.sentence = [] := by rw [← hs, e0]; exact ideal_nil hW
      simp only [he, if_true, e1, List.isEmpty_nil, hb]
    · simp only [he, Bool.false_eq_true, if_false]
      rw [ideal_append hW, ideal_append hW, hb, h0, hs, List.append_nil]
      split
      · next h1 => rw [List.isEmpty_iff.mp h1, List.append_nil]
      · rfl

end

end Narsese

namespace Narsese
open LFormat

/-- **lexical whole-value round trip**: `parse (format v) = Ok v` -/
theorem lparse_fmtNarsese {L : LFormat} (hI : LItemsOK L) (hW : lWsOKB L = true) (v : LNarsese)
    (hv : wfLN L v) (hws : wsFreeN L v = true) : L.lparse (L.fmtNarsese v) = .ok v := by
  unfold lparse
  rw [ideal_narsese hW v hws]
  have := parse_noSp hI v hv
  cases hr : L.parseItems ((noSp L).fmtNarsese v) with
  | ok m =>
    rw [hr] at this
    simp only [Res.map, Res.ok.injEq] at this
    simp [this, Res.ofOption]
  | err => rw [hr] at this; simp [Res.map] at this
  | panic => rw [hr] at this; simp [Res.map] at this
  | fuel => rw [hr] at this; simp [Res.map] at this

/-- a text that does not begin with the budget opener carries no budget -/
theorem segBudget_none_of_not_pre (L : LFormat) (txt : Str) (h : isPre L.budgetL txt = false) :
    L.segBudget txt = none := by
  simp [segBudget, segBracketsPrefix, strip_none_of_not_isPre h]

end Narsese
