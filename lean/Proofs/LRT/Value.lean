/-
  Lexical round trip, part 7: whole values on the idealized text, `idealize_env` on the formatter's output,
  and `parse (format v) = Ok v`.
-/
import Proofs.LRT.Items
set_option autoImplicit false

namespace Narsese
open LFormat

/-! ### optional items -/

def optS (s : Str) : Option Str := if s.isEmpty then none else some s
def optL (xs : List Str) : Option (List Str) := if xs.isEmpty then none else some xs

theorem optS_getD (s : Str) : (optS s).getD [] = s := by
  unfold optS; cases s <;> simp
theorem optL_getD (xs : List Str) : (optL xs).getD [] = xs := by
  unfold optL; cases xs <;> simp

theorem joinLest_nil3 (a b c : Str) : joinLest [] [a, b, c] = a ++ b ++ c := by
  simp only [joinLest, List.filter]
  cases b <;> cases c <;> simp

/-- the term alone must not be taken for a line with right-hand items -/
def TermTailOK (L : LFormat) (T : Str) : Prop :=
  L.segTruth T = .ok none ∧ L.segStamp T = .ok none ∧ L.segPunct T = none

section
variable {L : LFormat} (hI : LItemsOK L)
include hI

/-- text of a truth in the idealized line -/
def truTxt (L : LFormat) (tr : List Str) : Str :=
  if tr.isEmpty then [] else L.truthL ++ joinWith L.truthSep tr ++ L.truthR

/-- `parse_items` on `budget? ++ term ++ punctuation ++ stamp? ++ truth?` -/
theorem parseItems_line (Bt : Str) (bud : Option (List Str × Nat)) (t : LTerm) (ht : wfLT L t = true)
    (p : Str) (hp : p ∈ L.punctuations) (st : Str) (hst : st = [] ∨ StampOK L st)
    (tr : List Str) (htr : ∀ x ∈ tr, numStrB x = true)
    (hbud : L.segBudget (Bt ++ (noSp L).fmtTerm t ++ p ++ st ++ truTxt L tr) = bud)
    (hb : (bud.map (·.2)).getD 0 = Bt.length) :
    L.parseItems (Bt ++ (noSp L).fmtTerm t ++ p ++ st ++ truTxt L tr) =
      .ok { budget := bud.map (·.1), term := some t, punct := some p, stamp := optS st, truth := optL tr } := by
  obtain ⟨_, _, _, _, hpn, _, _⟩ := hI.split
  have hTne : (noSp L).fmtTerm t ≠ [] := by
    intro h0
    have := (segTerm_good L hI.base.sane (lexFuel []) []).2.1
    have h1 := segTerm_fmtTerm hI.base t ht [] (stopL_nil L) (lexFuel ((noSp L).fmtTerm t ++ []))
      (by simp only [lexFuel]; omega)
    rw [h0] at h1
    have := this t _ h1
    simp at this
  have hterm : L.segTerm (lexFuel ((noSp L).fmtTerm t)) ((noSp L).fmtTerm t) =
      .ok (t, ((noSp L).fmtTerm t).length) := by
    have := segTerm_fmtTerm hI.base t ht [] (stopL_nil L) (lexFuel ((noSp L).fmtTerm t))
      (by simp only [lexFuel, List.append_nil]; omega)
    simpa using this
  -- the three right-hand borders
  let T := (noSp L).fmtTerm t
  let e2 := Bt ++ T ++ p
  let e1 := e2 ++ st
  let env := e1 ++ truTxt L tr
  have henv : Bt ++ (noSp L).fmtTerm t ++ p ++ st ++ truTxt L tr = env := rfl
  rw [henv] at hbud ⊢
  -- truth
  have htru : L.segTruth env = .ok ((optL tr).map (fun x => (x, e1.length))) := by
    by_cases h0 : tr = []
    · subst h0
      simp only [optL, List.isEmpty_nil, if_true, Option.map_none]
      have : env = e1 := by simp [env, truTxt]
      rw [this]
      apply segTruth_none
      rcases hst with hs0 | hs
      · have : e1 = (Bt ++ T) ++ p := by simp [e1, e2, hs0]
        rw [this]
        exact not_isSuf_of_not_sufCompat (hpn p hp).2 _
      · obtain ⟨_, _, _, _, _, _, _, _, _, _, _, hts⟩ := hs
        exact not_isSuf_of_not_sufCompat hts _
    · have : truTxt L tr = L.truthL ++ joinWith L.truthSep tr ++ L.truthR := by
        simp [truTxt, nonempty_isEmpty h0]
      simp only [optL, nonempty_isEmpty h0, Bool.false_eq_true, if_false, Option.map_some]
      simp only [env, this]
      exact segTruth_txt hI tr h0 htr e1
  have hsta : L.segStamp e1 = .ok ((optS st).map (fun x => (x, e2.length))) := by
    rcases hst with hs0 | hs
    · subst hs0
      simp only [optS, List.isEmpty_nil, if_true, Option.map_none]
      have : e1 = (Bt ++ T) ++ p := by simp [e1, e2]
      rw [this]
      exact segStamp_none hI p hp _
    · have hne : st ≠ [] := by obtain ⟨_, _, _, _, _, _, h, _⟩ := hs; exact h
      simp only [optS, nonempty_isEmpty hne, Bool.false_eq_true, if_false, Option.map_some]
      exact segStamp_txt st hs e2
  have hpun : L.segPunct e2 = some (p, (Bt ++ T).length) := segPunct_txt hI p hp (Bt ++ T)
  have hl1 : e1.length ≤ env.length := by simp [env]
  have hl2 : e2.length ≤ env.length := by simp [env, e1]
  have hl3 : (Bt ++ T).length ≤ env.length := by simp [env, e1, e2]
  have he1 : env.take e1.length = e1 := List.take_left
  have he2 : env.take e2.length = e2 := by
    have : env = e2 ++ (st ++ truTxt L tr) := by simp [env, e1, List.append_assoc]
    rw [this]; exact List.take_left
  have he3 : (env.take (Bt ++ T).length).drop Bt.length = T := by
    have : env = (Bt ++ T) ++ (p ++ st ++ truTxt L tr) := by simp [env, e1, e2, List.append_assoc]
    rw [this, List.take_left]; exact List.drop_left
  have h1 : (((optL tr).map (fun x => (x, e1.length))).map (·.2)).getD env.length = e1.length := by
    by_cases h0 : tr = []
    · subst h0; simp [optL, env, truTxt]
    · simp [optL, nonempty_isEmpty h0]
  have h2 : (((optS st).map (fun x => (x, e2.length))).map (·.2)).getD e1.length = e2.length := by
    by_cases h0 : st = []
    · subst h0; simp [optS, e1]
    · simp [optS, nonempty_isEmpty h0]
  have := parseItems_assemble L env e1 e2 Bt T bud _ _ _ t _ hbud hb htru h1 he1 hl1 hsta h2 he2 hl2 hpun
    (by simp) he3 hl3 hTne hterm
  rw [this]
  cases h1 : optS st <;> cases h2 : optL tr <;> simp

end

end Narsese
