/-
  Lexical round trip, part 1: side conditions and well-formedness.
-/
import Proofs.LexItemsTotal
import Proofs.RT.Defs
set_option autoImplicit false

namespace Narsese
open LFormat

/-- the format without formatting spaces: what `idealize_env` leaves of the formatter's output -/
def noSp (L : LFormat) : LFormat := { L with spaceTerms := [], spaceItems := [] }

def lOpeners (L : LFormat) : List Str := L.setBrackets.map (·.1) ++ [L.compL, L.stmtL]
/-- the closers that terminate a component loop -/
def lRights (L : LFormat) : List Str := L.setBrackets.map (·.2) ++ [L.compR]
def headNotIdent (L : LFormat) (k : Str) : Bool := k.head?.all (fun c => !L.isIdent c)

/-- entry `j` of an ordered dictionary is the first one compatible with `txt` -/
def firstAt (dict : List Str) (j : Nat) (txt : Str) : Bool :=
  (List.range j).all (fun i => match dict[i]? with
    | some y => !compat y txt
    | none => true)

/-- decidable side condition on a lexical format for the term level -/
def lFormatOKB (L : LFormat) : Bool :=
  lSaneB L &&
  -- dispatch between set / compound / statement openers, and against atoms
  pairwiseB incompat (lOpeners L) &&
  (lOpeners L).all (fun o => headNotIdent L o && L.atomPrefixes.all (fun p => p.isEmpty || incompat o p)) &&
  -- what may follow a component: separator and closers are non-empty and do not begin with an identifier char
  ([L.separator, L.compR, L.stmtR] ++ L.setBrackets.map (·.2)).all (fun k => !k.isEmpty && headNotIdent L k) &&
  (lRights L).all (fun r => incompat r L.separator) &&
  -- copulas
  pairwiseB incompat L.copulas && L.copulas.all (fun c => !c.isEmpty) &&
  -- connecters: the printed one is the first match on `connecter ++ separator`
  (List.range L.connecters.length).all (fun j =>
    match L.connecters[j]? with
    | some c => firstAt L.connecters j (c ++ L.separator)
    | none => true)

structure LFormatOK (L : LFormat) : Prop where
  ok : lFormatOKB L = true

/-- an atom that reads back: its prefix is the first dictionary entry compatible with its text, the name
consists of identifier characters, no copula begins inside it or straddles its end, and a prefix-less atom
has a name -/
def lAtomOK (L : LFormat) (pre name : Str) : Bool :=
  (List.range L.atomPrefixes.length).any (fun j =>
    L.atomPrefixes[j]? == some pre && firstAt L.atomPrefixes j (pre ++ name)) &&
  name.all L.isIdent &&
  (sufs name).all (fun s => L.copulas.all (fun c => !compat c s)) &&
  (!pre.isEmpty || !name.isEmpty)

mutual
  def wfLT (L : LFormat) : LTerm → Bool
    | .atom pre name => lAtomOK L pre name
    | .compound conn ts => L.connecters.contains conn && !(match ts with | .nil => true | _ => false) && wfLTs L ts
    | .set l ts r => L.setBrackets.contains (l, r) && !(match ts with | .nil => true | _ => false) && wfLTs L ts
    | .stmt cop s p => L.copulas.contains cop && wfLT L s && wfLT L p
  def wfLTs (L : LFormat) : LTerms → Bool
    | .nil => true
    | .cons t ts => wfLT L t && wfLTs L ts
end

/-- what may follow a term: the identifier scanner consumes nothing from it -/
def StopL (L : LFormat) (rest : Str) : Prop := L.scanIdent rest = 0

end Narsese
