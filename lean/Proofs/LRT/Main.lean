/-
  Lexical round trip, part 3: component loop, sets, compounds, statements, and the term theorem.
-/
import Proofs.LRT.Term
set_option autoImplicit false

namespace Narsese
open LFormat

/-- every component preceded by the separator -/
def tailL (sep : Str) : List Str → Str
  | [] => []
  | s :: ss => sep ++ s ++ tailL sep ss

theorem joinWith_cons_tail (sep s : Str) (ss : List Str) : joinWith sep (s :: ss) = s ++ tailL sep ss := by
  induction ss generalizing s with
  | nil => simp [joinWith, tailL]
  | cons x xs ih => simp only [joinWith, tailL, ih x, List.append_assoc]

theorem LTerms.ofList_toList : ∀ ts : LTerms, LTerms.ofList ts.toList = ts
  | .nil => rfl
  | .cons t ts => by simp [LTerms.toList, LTerms.ofList, LTerms.ofList_toList ts]

/-! ### texts of the space-less formatter -/

section
variable (L : LFormat)

theorem txt_compound (conn : Str) (t : LTerm) (ts : LTerms) :
    (noSp L).fmtTerm (.compound conn (.cons t ts)) =
      L.compL ++ (conn ++ (tailL L.separator (fmtTerms (noSp L) (.cons t ts)) ++ L.compR)) := by
  simp only [fmtTerm, fmtTerms, joinComponents, noSp, List.append_nil, joinWith_cons_tail, tailL, List.append_assoc]

theorem txt_set (l r : Str) (t : LTerm) (ts : LTerms) :
    (noSp L).fmtTerm (.set l (.cons t ts) r) =
      l ++ ((noSp L).fmtTerm t ++ (tailL L.separator (fmtTerms (noSp L) ts) ++ r)) := by
  simp only [fmtTerm, fmtTerms, joinComponents, noSp, List.append_nil, joinWith_cons_tail, List.append_assoc]

theorem txt_stmt (cop : Str) (s p : LTerm) :
    (noSp L).fmtTerm (.stmt cop s p) =
      L.stmtL ++ ((noSp L).fmtTerm s ++ (cop ++ ((noSp L).fmtTerm p ++ L.stmtR))) := by
  simp only [fmtTerm, noSp, List.append_nil, List.append_assoc]

end

/-! ### openers -/

section
variable {L : LFormat} (hL : LFormatOK L)
include hL

theorem lOpeners_get_set (i : Nat) (p : Str × Str) (h : L.setBrackets[i]? = some p) :
    (lOpeners L)[i]? = some p.1 := by
  have hi : i < L.setBrackets.length := (List.getElem?_eq_some_iff.mp h).1
  simp only [lOpeners]
  rw [List.getElem?_append_left (by simpa using hi)]
  simp [h]

theorem lOpeners_get_compL : (lOpeners L)[L.setBrackets.length]? = some L.compL := by
  simp only [lOpeners]
  rw [List.getElem?_append_right (by simp)]
  simp

theorem lOpeners_get_stmtL : (lOpeners L)[L.setBrackets.length + 1]? = some L.stmtL := by
  simp only [lOpeners]
  rw [List.getElem?_append_right (by simp)]
  simp

theorem set_compL {p : Str × Str} (hp : p ∈ L.setBrackets) : incompat p.1 L.compL = true := by
  obtain ⟨i, hi⟩ := List.getElem?_of_mem hp
  have hlt : i < L.setBrackets.length := (List.getElem?_eq_some_iff.mp hi).1
  exact pairwiseB_get incompat _ hL.split.2.1 i _ hlt _ _ (lOpeners_get_set hL i p hi) (lOpeners_get_compL hL)

theorem set_stmtL {p : Str × Str} (hp : p ∈ L.setBrackets) : incompat p.1 L.stmtL = true := by
  obtain ⟨i, hi⟩ := List.getElem?_of_mem hp
  have hlt : i < L.setBrackets.length := (List.getElem?_eq_some_iff.mp hi).1
  exact pairwiseB_get incompat _ hL.split.2.1 i _ (by omega) _ _ (lOpeners_get_set hL i p hi) (lOpeners_get_stmtL hL)

theorem compL_stmtL : incompat L.compL L.stmtL = true :=
  pairwiseB_get incompat _ hL.split.2.1 _ _ (Nat.lt_succ_self _) _ _ (lOpeners_get_compL hL) (lOpeners_get_stmtL hL)

theorem matchSet (l r : Str) (hp : (l, r) ∈ L.setBrackets) (X : Str) :
    matchPrefixPair L.setBrackets (l ++ X) = some (l, r) := by
  obtain ⟨j, hj⟩ := List.getElem?_of_mem hp
  unfold matchPrefixPair
  apply find?_at _ _ j (l, r) hj
  · simp [isPre_append]
  · intro i hi y hy
    have := pairwiseB_get incompat _ hL.split.2.1 i j hi _ _ (lOpeners_get_set hL i y hy) (lOpeners_get_set hL j (l, r) hj)
    simpa using not_isPre_of_incompat this X

theorem right_terminator {r : Str} (hr : r ∈ lRights L) : r ≠ [] ∧ headNotIdent L r = true := by
  apply hL.terminator
  simp only [lRights, List.mem_append, List.mem_map, List.mem_cons, List.not_mem_nil, or_false] at hr
  simp only [List.mem_append, List.mem_cons, List.not_mem_nil, or_false, List.mem_map]
  rcases hr with ⟨p, hp, rfl⟩ | rfl
  · exact .inr ⟨p, hp, rfl⟩
  · exact .inl (.inr (.inl rfl))

/-- what follows a component inside brackets stops the identifier scanner -/
theorem tail_stopL {right : Str} (hr : right ∈ lRights L) (ss : List Str) (rest : Str) :
    StopL L (tailL L.separator ss ++ (right ++ rest)) := by
  cases ss with
  | nil =>
    obtain ⟨hne, hh⟩ := right_terminator hL hr
    simpa [tailL] using stopL_of_head L right rest hne hh
  | cons s ss =>
    obtain ⟨hne, hh⟩ := hL.terminator (k := L.separator) (by simp)
    simp only [tailL, List.append_assoc]
    exact stopL_of_head L _ _ hne hh

/-! ### the component loop -/

theorem loopL_end (right rest P env : Str) (acc : List LTerm) (henv : env = P ++ (right ++ rest)) (fuel : Nat) :
    RL (L.segComponents fuel right env P.length acc) (acc, P.length + right.length) := by
  cases fuel with
  | zero => exact .inl (by simp [segComponents])
  | succ f =>
    right
    unfold segComponents
    have hd : env.drop P.length = right ++ rest := by rw [henv]; simp
    rw [sliceFrom_ok env P.length (by rw [henv]; simp)]
    simp only [hd, isPre_append, if_true]

theorem loopL_step {right : Str} (hr : right ∈ lRights L) (P s Z env : Str) (t : LTerm) (acc : List LTerm)
    (x : List LTerm × Nat) (henv : env = P ++ (L.separator ++ (s ++ Z))) (f : Nat)
    (hterm : RL (L.segTerm f (s ++ Z)) (t, s.length))
    (hrest : RL (L.segComponents f right env (P ++ L.separator ++ s).length (acc ++ [t])) x) :
    RL (L.segComponents (f + 1) right env P.length acc) x := by
  unfold segComponents
  have hd : env.drop P.length = L.separator ++ (s ++ Z) := by rw [henv]; simp
  rw [sliceFrom_ok env P.length (by rw [henv]; simp)]
  simp only [hd, not_isPre_of_incompat (hL.right_sep hr) (s ++ Z), Bool.false_eq_true, if_false, isPre_append, if_true]
  have hd2 : env.drop (P.length + L.separator.length) = s ++ Z := by
    rw [henv, ← List.append_assoc, ← List.length_append]; simp
  rw [sliceFrom_ok env _ (by rw [henv]; simp only [List.length_append]; omega)]
  simp only [hd2]
  rcases hterm with h | h
  · simp [h, RL]
  · simp only [h]
    have : P.length + L.separator.length + s.length = (P ++ L.separator ++ s).length := by simp only [List.length_append]
    rw [this]
    exact hrest

/-! ### the three bracketed forms, given their parts -/

theorem lset_rt (l r : Str) (hp : (l, r) ∈ L.setBrackets) (t : LTerm) (ts : List LTerm) (s Z : Str) (b : Nat)
    (f : Nat) (hterm : RL (L.segTerm f (s ++ Z)) (t, s.length))
    (hloop : RL (L.segComponents f r (l ++ (s ++ Z)) (l.length + s.length) [t]) (ts, b)) :
    RL (L.segSet (f + 1) (l ++ (s ++ Z))) (.set l (LTerms.ofList ts) r, b) := by
  unfold segSet
  rw [matchSet hL l r hp]
  simp only [List.drop_left]
  rcases hterm with h | h
  · simp [h, RL]
  · simp only [h]
    rcases hloop with h2 | h2
    · simp [h2, RL]
    · simp [h2, RL]

theorem lcompound_rt (conn : Str) (j : Nat) (hj : L.connecters[j]? = some conn) (ts : List LTerm)
    (Z : Str) (b : Nat) (f : Nat)
    (hloop : RL (L.segComponents f L.compR (L.compL ++ (conn ++ (L.separator ++ Z)))
      (L.compL.length + conn.length) []) (ts, b)) :
    RL (L.segCompound (f + 1) (L.compL ++ (conn ++ (L.separator ++ Z)))) (.compound conn (LTerms.ofList ts), b) := by
  unfold segCompound
  rw [strip_append]
  have hm : matchPrefix L.connecters (conn ++ (L.separator ++ Z)) = some conn := by
    unfold matchPrefix
    apply find?_at _ _ j conn hj
    · simp [isPre_append]
    · intro i hi y hy
      have h8 := hL.split.2.2.2.2.2.2.2
      rw [List.all_eq_true] at h8
      have hjl : j < L.connecters.length := (List.getElem?_eq_some_iff.mp hj).1
      have := h8 j (List.mem_range.mpr hjl)
      simp only [hj] at this
      have := firstAt_spec this i hi y hy Z
      simpa [List.append_assoc] using this
  simp only [hm]
  rcases hloop with h2 | h2
  · simp [h2, RL]
  · simp [h2, RL]

theorem lstatement_rt (cop : Str) (hc : cop ∈ L.copulas) (a b : LTerm) (sa sb rest : Str) (f : Nat)
    (ha : RL (L.segTerm f (sa ++ (cop ++ (sb ++ (L.stmtR ++ rest))))) (a, sa.length))
    (hb : RL (L.segTerm f (sb ++ (L.stmtR ++ rest))) (b, sb.length)) :
    RL (L.segStatement (f + 1) (L.stmtL ++ (sa ++ (cop ++ (sb ++ (L.stmtR ++ rest))))))
      (.stmt cop a b, (L.stmtL ++ (sa ++ (cop ++ (sb ++ L.stmtR)))).length) := by
  unfold segStatement
  rw [strip_append]
  simp only
  rcases ha with h | h
  · simp [h, RL]
  · simp only [h]
    let env := L.stmtL ++ (sa ++ (cop ++ (sb ++ (L.stmtR ++ rest))))
    have hlen : env.length = L.stmtL.length + sa.length + cop.length + sb.length + L.stmtR.length + rest.length := by
      simp [env]; omega
    have hd1 : env.drop (L.stmtL.length + sa.length) = cop ++ (sb ++ (L.stmtR ++ rest)) := by
      have : L.stmtL.length + sa.length = (L.stmtL ++ sa).length := by simp
      rw [this]; simp only [env]; rw [← List.append_assoc]; exact List.drop_left
    rw [sliceFrom_ok _ _ (by show _ ≤ env.length; omega)]
    simp only
    show RL (match matchPrefix L.copulas (env.drop (L.stmtL.length + sa.length)) with
      | none => Res.err
      | some cop' => _) _
    rw [hd1]
    have hm : matchPrefix L.copulas (cop ++ (sb ++ (L.stmtR ++ rest))) = some cop := by
      obtain ⟨j, hj⟩ := List.getElem?_of_mem hc
      unfold matchPrefix
      apply find?_at _ _ j cop hj
      · simp [isPre_append]
      · intro i hi y hy
        have := pairwiseB_get incompat _ hL.split.2.2.2.2.2.1 i j hi y cop hy hj
        simpa using not_isPre_of_incompat this _
    simp only [hm]
    have hd2 : env.drop (L.stmtL.length + sa.length + cop.length) = sb ++ (L.stmtR ++ rest) := by
      have : L.stmtL.length + sa.length + cop.length = (L.stmtL ++ sa ++ cop).length := by simp only [List.length_append]
      rw [this]; simp only [env]
      rw [← List.append_assoc, ← List.append_assoc]; exact List.drop_left
    rw [sliceFrom_ok _ _ (by show _ ≤ env.length; omega)]
    simp only
    show RL (match L.segTerm f (env.drop (L.stmtL.length + sa.length + cop.length)) with
      | .ok (pred, n2) => _
      | .err => Res.err | .panic => Res.panic | .fuel => Res.fuel) _
    rw [hd2]
    rcases hb with h2 | h2
    · simp [h2, RL]
    · simp only [h2]
      have hd3 : env.drop (L.stmtL.length + sa.length + cop.length + sb.length) = L.stmtR ++ rest := by
        have : L.stmtL.length + sa.length + cop.length + sb.length = (L.stmtL ++ sa ++ cop ++ sb).length := by simp only [List.length_append]
        rw [this]; simp only [env]
        rw [← List.append_assoc, ← List.append_assoc, ← List.append_assoc]; exact List.drop_left
      rw [sliceFrom_ok _ _ (by show _ ≤ env.length; omega)]
      simp only
      show RL (if isPre L.stmtR (env.drop (L.stmtL.length + sa.length + cop.length + sb.length)) = true then _ else _) _
      rw [hd3]
      simp only [isPre_append, if_true]
      right
      simp only [List.length_append, Res.ok.injEq, Prod.mk.injEq, true_and]
      omega

end

end Narsese
