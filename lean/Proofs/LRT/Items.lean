/-
  Lexical round trip, part 6: the items of a sentence / task on (idealized) formatter output —
  budget from the left; truth, stamp, punctuation from the right.
-/
import Proofs.LRT.Lists
set_option autoImplicit false

namespace Narsese
open LFormat

/-- suffix-compatibility: one is a suffix of the other -/
def sufCompat (a b : Str) : Bool := compat a.reverse b.reverse

theorem not_isSuf_of_not_sufCompat {a s : Str} (h : sufCompat a s = false) (X : Str) : isSuf a (X ++ s) = false := by
  unfold isSuf
  rw [List.reverse_append]
  exact not_isPre_of_not_compat h _

theorem isSuf_append (k X : Str) : isSuf k (X ++ k) = true := (isSuf_iff k _).mpr ⟨X, rfl⟩

/-- decidable side condition for the sentence / task level of a lexical format -/
def lItemsOKB (L : LFormat) : Bool :=
  L.removeSpaces &&
  listOKB L.truthL L.truthR L.truthSep L.isTruthTbl &&
  listOKB L.budgetL L.budgetR L.budgetSep L.isBudgetTbl &&
  (splitItems L.budgetL L.budgetR L.budgetSep (L.budgetL ++ L.budgetR) == []) &&
  -- punctuation marks: non-empty, the printed one is the first suffix match, never taken for a truth
  L.punctuations.all (fun p => !p.isEmpty && !sufCompat L.truthR p) &&
  pairwiseB (fun a b => !sufCompat a b) L.punctuations &&
  -- a sentence line ending in its punctuation mark is not taken for a stamp
  L.punctuations.all (fun p => L.stampBrackets.all (fun q =>
    if q.2.isEmpty then !q.1.isEmpty && !sufCompat q.1 p && p.getLast?.all (fun c => !inRanges L.isStampTbl c)
    else !sufCompat q.2 p))

structure LItemsOK (L : LFormat) : Prop where
  base : LFormatOK L
  items : lItemsOKB L = true

/-- a stamp string that reads back: `l ++ content ++ r` for a dictionary pair `(l, r)` which is the first
suffix match, content over the stamp alphabet (none for a pair without left bracket), the left bracket
recognisable when scanning leftwards, and the whole not taken for a truth -/
def StampOK (L : LFormat) (st : Str) : Prop :=
  ∃ (j : Nat) (l r content : Str), L.stampBrackets[j]? = some (l, r) ∧ st = l ++ content ++ r ∧ st ≠ [] ∧
    (∀ c ∈ content, inRanges L.isStampTbl c = true) ∧ (l = [] → content = []) ∧
    (∀ c ∈ l.getLast?, inRanges L.isStampTbl c = false) ∧
    (∀ i, i < j → ∀ p, L.stampBrackets[i]? = some p → sufCompat p.2 st = false) ∧
    sufCompat L.truthR st = false

section
variable {L : LFormat} (hI : LItemsOK L)
include hI

theorem LItemsOK.split :
    L.removeSpaces = true ∧ ListOKL L.truthL L.truthR L.truthSep L.isTruthTbl ∧
    ListOKL L.budgetL L.budgetR L.budgetSep L.isBudgetTbl ∧
    splitItems L.budgetL L.budgetR L.budgetSep (L.budgetL ++ L.budgetR) = [] ∧
    (∀ p ∈ L.punctuations, p ≠ [] ∧ sufCompat L.truthR p = false) ∧
    pairwiseB (fun a b => !sufCompat a b) L.punctuations = true ∧
    (∀ p ∈ L.punctuations, ∀ q ∈ L.stampBrackets,
      (if q.2.isEmpty then !q.1.isEmpty && !sufCompat q.1 p && p.getLast?.all (fun c => !inRanges L.isStampTbl c)
       else !sufCompat q.2 p) = true) := by
  have h := hI.items
  simp only [lItemsOKB, Bool.and_eq_true, beq_iff_eq, List.all_eq_true] at h
  obtain ⟨⟨⟨⟨⟨⟨h1, h2⟩, h3⟩, h4⟩, h5⟩, h6⟩, h7⟩ := h
  refine ⟨h1, listOKL_of_bool h2, listOKL_of_bool h3, h4, ?_, h6, h7⟩
  intro p hp
  have := h5 p hp
  simp only [Bool.and_eq_true, Bool.not_eq_true', List.isEmpty_eq_false_iff] at this
  exact this

/-! ### budget -/

theorem segBudget_txt (bs : List Str) (hbs : ∀ x ∈ bs, numStrB x = true) (Z : Str) :
    L.segBudget (L.budgetL ++ joinWith L.budgetSep bs ++ L.budgetR ++ Z) =
      some (bs, (L.budgetL ++ joinWith L.budgetSep bs ++ L.budgetR).length) := by
  obtain ⟨_, _, hO, hempty, _⟩ := hI.split
  have hcc := content_chars L.budgetSep bs hbs
  have hscan := scanToRight_content L.budgetR (inRanges L.isBudgetTbl) hO.r_ne Z (joinWith L.budgetSep bs)
    (by
      intro c hc
      rcases hcc c hc with h | h
      · refine ⟨hO.num_tbl c h, fun y hy heq => ?_⟩
        rw [heq] at hy
        rw [(hO.r_head c hy).1] at h
        exact absurd h (by simp)
      · refine ⟨hO.sep_tbl c h, fun y hy heq => ?_⟩
        rw [heq] at hy
        exact (hO.r_head c hy).2 h)
  unfold segBudget segBracketsPrefix
  have e : L.budgetL ++ joinWith L.budgetSep bs ++ L.budgetR ++ Z =
      L.budgetL ++ (joinWith L.budgetSep bs ++ L.budgetR ++ Z) := by simp only [List.append_assoc]
  rw [e, strip_append]
  simp only []
  rw [hscan]
  simp only [Option.map_some, Option.some.injEq, Prod.mk.injEq]
  have htk : (L.budgetL ++ (joinWith L.budgetSep bs ++ L.budgetR ++ Z)).take
      (L.budgetL.length + ((joinWith L.budgetSep bs).length + L.budgetR.length)) =
      L.budgetL ++ joinWith L.budgetSep bs ++ L.budgetR := by
    have : L.budgetL.length + ((joinWith L.budgetSep bs).length + L.budgetR.length) =
        (L.budgetL ++ joinWith L.budgetSep bs ++ L.budgetR).length := by simp only [List.length_append]; omega
    rw [this, ← e]
    exact List.take_left
  rw [htk]
  refine ⟨?_, by simp only [List.length_append]; omega⟩
  by_cases hb : bs = []
  · subst hb; simpa [joinWith] using hempty
  · exact splitItems_list hO bs hb hbs

/-! ### truth -/

theorem segTruth_txt (ts : List Str) (hne : ts ≠ []) (hts : ∀ x ∈ ts, numStrB x = true) (E : Str) :
    L.segTruth (E ++ (L.truthL ++ joinWith L.truthSep ts ++ L.truthR)) = .ok (some (ts, E.length)) := by
  obtain ⟨_, hO, _⟩ := hI.split
  have hcc := content_chars L.truthSep ts hts
  have e : E ++ (L.truthL ++ joinWith L.truthSep ts ++ L.truthR) =
      (E ++ L.truthL ++ joinWith L.truthSep ts) ++ L.truthR := by simp only [List.append_assoc]
  unfold segTruth
  rw [e, isSuf_append]
  simp only [if_true]
  unfold segBracketsSuffix
  have hle : L.truthR.length ≤ ((E ++ L.truthL ++ joinWith L.truthSep ts) ++ L.truthR).length := by
    simp only [List.length_append]; omega
  simp only [hle, if_true]
  have hcontent : ((E ++ L.truthL ++ joinWith L.truthSep ts) ++ L.truthR).take
      (((E ++ L.truthL ++ joinWith L.truthSep ts) ++ L.truthR).length - L.truthR.length) =
      E ++ L.truthL ++ joinWith L.truthSep ts := by
    have : ((E ++ L.truthL ++ joinWith L.truthSep ts) ++ L.truthR).length - L.truthR.length =
        (E ++ L.truthL ++ joinWith L.truthSep ts).length := by simp only [List.length_append]; omega
    rw [this]; exact List.take_left
  rw [hcontent]
  have hrev : (E ++ L.truthL ++ joinWith L.truthSep ts).reverse =
      (joinWith L.truthSep ts).reverse ++ L.truthL.reverse ++ E.reverse := by simp [List.append_assoc]
  have hscan := scanToLeft_content L.truthL.reverse (inRanges L.isTruthTbl) (by simpa using hO.l_ne) E.reverse
    (joinWith L.truthSep ts).reverse (by
      intro c hc
      have hc' : c ∈ joinWith L.truthSep ts := by simpa using hc
      have hlast : ∀ y ∈ L.truthL.reverse.head?, y ∈ L.truthL.getLast? := by
        intro y hy; rw [List.head?_reverse] at hy; exact hy
      rcases hcc c hc' with h | h
      · refine ⟨hO.num_tbl c h, fun y hy heq => ?_⟩
        rw [heq] at hy
        rw [(hO.l_last c (hlast c hy)).1] at h
        exact absurd h (by simp)
      · refine ⟨hO.sep_tbl c h, fun y hy heq => ?_⟩
        rw [heq] at hy
        exact (hO.l_last c (hlast c hy)).2 h)
  rw [hrev, hscan]
  simp only [Res.map, Option.map_some, List.length_reverse, List.length_append]
  have hlb : E.length + L.truthL.length + (joinWith L.truthSep ts).length -
      ((joinWith L.truthSep ts).length + L.truthL.length) = E.length := by omega
  rw [hlb]
  have hdrop : ((E ++ L.truthL ++ joinWith L.truthSep ts) ++ L.truthR).drop E.length =
      L.truthL ++ joinWith L.truthSep ts ++ L.truthR := by simp [List.append_assoc]
  rw [hdrop, splitItems_list hO ts hne hts]

omit hI in
theorem segTruth_none (env : Str) (h : isSuf L.truthR env = false) : L.segTruth env = .ok none := by
  simp [segTruth, h]

/-! ### stamp -/

omit hI in
theorem cur_take_all (s r : Str) (h : r = []) : s.take (s.length - r.length) = s := by
  subst h; simp

omit hI in
theorem segStamp_txt (st : Str) (hst : StampOK L st) (E : Str) :
    L.segStamp (E ++ st) = .ok (some (st, E.length)) := by
  obtain ⟨j, l, r, content, hj, hst, _, hcont, hl0, hlast, hfirst, _⟩ := hst
  have hm : matchSuffixPair L.stampBrackets (E ++ st) = some (l, r) := by
    unfold matchSuffixPair
    apply find?_at _ _ j (l, r) hj
    · rw [hst]
      exact (isSuf_iff r _).mpr ⟨E ++ (l ++ content), by simp [List.append_assoc]⟩
    · intro i hi p hp
      exact not_isSuf_of_not_sufCompat (hfirst i hi p hp) E
  unfold segStamp
  simp only [hm]
  unfold segBracketsSuffix
  have e : E ++ st = (E ++ l ++ content) ++ r := by rw [hst]; simp only [List.append_assoc]
  have hle : r.length ≤ (E ++ st).length := by rw [e]; simp only [List.length_append]; omega
  simp only [hle, if_true]
  have hcontent : (E ++ st).take ((E ++ st).length - r.length) = E ++ l ++ content := by
    rw [e]
    have : ((E ++ l ++ content) ++ r).length - r.length = (E ++ l ++ content).length := by
      simp only [List.length_append]; omega
    rw [this]; exact List.take_left
  rw [hcontent]
  have hdrop : (E ++ st).drop E.length = st := List.drop_left
  by_cases hl : l = []
  · have hc := hl0 hl
    subst hl; subst hc
    simp only [List.append_nil, List.reverse_nil]
    have : scanToLeft [] (inRanges L.isStampTbl) E.reverse = some 0 := by
      cases E.reverse with
      | nil => simp [scanToLeft]
      | cons c cs => simp [scanToLeft, isPre, strip]
    simp only [this, Nat.sub_zero, hdrop]
  · have hrev : (E ++ l ++ content).reverse = content.reverse ++ l.reverse ++ E.reverse := by
      simp [List.append_assoc]
    have hscan := scanToLeft_content l.reverse (inRanges L.isStampTbl) (by simpa using hl) E.reverse content.reverse (by
      intro c hc
      refine ⟨hcont c (by simpa using hc), fun y hy heq => ?_⟩
      rw [heq, List.head?_reverse] at hy
      have h1 := hlast c hy
      rw [hcont c (by simpa using hc)] at h1
      exact absurd h1 (by simp))
    rw [hrev, hscan]
    simp only [List.length_reverse, List.length_append]
    have hlb : E.length + l.length + content.length - (content.length + l.length) = E.length := by omega
    rw [hlb, hdrop]

/-- a line ending in its punctuation mark carries no stamp -/
theorem segStamp_none (p : Str) (hp : p ∈ L.punctuations) (X : Str) : L.segStamp (X ++ p) = .ok none := by
  obtain ⟨_, _, _, _, hpn, _, hps⟩ := hI.split
  unfold segStamp
  cases hm : matchSuffixPair L.stampBrackets (X ++ p) with
  | none => rfl
  | some q =>
    obtain ⟨l, r⟩ := q
    obtain ⟨hmem, hsuf⟩ := matchSuffixPair_some hm
    have hq := hps p hp (l, r) hmem
    simp only at hsuf hq ⊢
    by_cases hr : r = []
    · subst hr
      simp only [List.isEmpty_nil, if_true, Bool.and_eq_true, Bool.not_eq_true', List.isEmpty_eq_false_iff,
        option_all_iff] at hq
      obtain ⟨⟨hlne, hlp⟩, hlast⟩ := hq
      unfold segBracketsSuffix
      simp only [List.length_nil, Nat.zero_le, if_true, Nat.sub_zero, List.take_length]
      obtain ⟨ds, d, hd⟩ : ∃ ds d, p = ds ++ [d] := by
        rcases List.eq_nil_or_concat p with h0 | ⟨ds, d, e⟩
        · exact absurd h0 (hpn p hp).1
        · exact ⟨ds, d, by simpa using e⟩
      have hrev : (X ++ p).reverse = d :: (ds.reverse ++ X.reverse) := by simp [hd]
      have hnp : isPre l.reverse ((X ++ p).reverse) = false := by
        rw [List.reverse_append]
        exact not_isPre_of_not_compat hlp _
      have hdl : inRanges L.isStampTbl d = false := by
        have := hlast d (by simp [hd])
        simpa using this
      rw [hrev] at hnp ⊢
      simp [scanToLeft, hnp, hdl]
    · simp only [nonempty_isEmpty hr, Bool.false_eq_true, if_false, Bool.not_eq_true'] at hq
      rw [not_isSuf_of_not_sufCompat hq X] at hsuf
      exact absurd hsuf (by simp)

/-! ### punctuation -/

theorem segPunct_txt (p : Str) (hp : p ∈ L.punctuations) (X : Str) :
    L.segPunct (X ++ p) = some (p, X.length) := by
  obtain ⟨_, _, _, _, _, hpp, _⟩ := hI.split
  obtain ⟨j, hj⟩ := List.getElem?_of_mem hp
  have hm : matchSuffix L.punctuations (X ++ p) = some p := by
    unfold matchSuffix
    apply find?_at _ _ j p hj (isSuf_append p X)
    intro i hi y hy
    have := pairwiseB_get _ _ hpp i j hi y p hy hj
    simp only [Bool.not_eq_true'] at this
    exact not_isSuf_of_not_sufCompat this X
  unfold segPunct
  simp [hm]

end

/-! ### assembling `parse_items` -/

theorem parseItems_assemble (L : LFormat) (env e1 e2 Bt T : Str)
    (bud : Option (List Str × Nat)) (tru : Option (List Str × Nat)) (sta pun : Option (Str × Nat))
    (t : LTerm) (n : Nat)
    (hbud : L.segBudget env = bud) (hb : (bud.map (·.2)).getD 0 = Bt.length)
    (htru : L.segTruth env = .ok tru) (h1 : (tru.map (·.2)).getD env.length = e1.length)
    (he1 : env.take e1.length = e1) (hl1 : e1.length ≤ env.length)
    (hsta : L.segStamp e1 = .ok sta) (h2 : (sta.map (·.2)).getD e1.length = e2.length)
    (he2 : env.take e2.length = e2) (hl2 : e2.length ≤ env.length)
    (hpun : L.segPunct e2 = pun) (h3 : (pun.map (·.2)).getD e2.length = (Bt ++ T).length)
    (he3 : (env.take (Bt ++ T).length).drop Bt.length = T) (hl3 : (Bt ++ T).length ≤ env.length)
    (hT : T ≠ []) (hterm : L.segTerm (lexFuel T) T = .ok (t, n)) :
    L.parseItems env = .ok { budget := bud.map (·.1), term := some t, punct := pun.map (·.1),
                             stamp := sta.map (·.1), truth := tru.map (·.1) } := by
  unfold parseItems
  simp only [hbud, hb, htru, h1]
  rw [slice_ok env 0 e1.length (Nat.zero_le _) hl1]
  simp only [List.drop_zero, he1, hsta, h2]
  rw [slice_ok env 0 e2.length (Nat.zero_le _) hl2]
  simp only [List.drop_zero, he2, hpun, h3]
  rw [slice_ok env Bt.length (Bt ++ T).length (by simp) hl3]
  have hlt : Bt.length < (Bt ++ T).length := by
    have := ne_nil_length hT; simp only [List.length_append]; omega
  simp only [he3, hlt, if_true, hterm]

end Narsese
