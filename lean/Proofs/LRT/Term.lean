/-
  Lexical round trip, part 2: `segment_term (format_term t ++ rest) = (t, |format_term t|)`
  for every well-formed lexical term, any nesting, any format satisfying `LFormatOK`.
  (`format_term` of the space-less format `noSp L` = what `idealize_env` leaves of the formatter's output.)
-/
import Proofs.LRT.Defs
import Proofs.RT.Loop
set_option autoImplicit false

namespace Narsese
open LFormat

/-- correct unless the fuel ran out (fuel sufficiency: `segTerm_good`) -/
def RL {α : Type} (r : Res α) (x : α) : Prop := r = .fuel ∨ r = .ok x
theorem RL_fuel {α : Type} (x : α) : RL (Res.fuel : Res α) x := .inl rfl
theorem RL_ok {α : Type} (x : α) : RL (Res.ok x) x := .inr rfl

/-- "this alternative does not apply": `Err`, or out of fuel -/
def Miss {α : Type} (r : Res α) : Prop := r = .fuel ∨ r = .err

theorem strip_none_of_not_isPre {k s : Str} (h : isPre k s = false) : strip k s = none := by
  unfold isPre at h
  cases hs : strip k s with
  | none => rfl
  | some r => simp [hs] at h

theorem strip_append' (k r : Str) : strip k (k ++ r) = some r := strip_append k r

/-! ### facts from the format condition -/

section
variable {L : LFormat} (hL : LFormatOK L)
include hL

theorem LFormatOK.split :
    lSaneB L = true ∧ pairwiseB incompat (lOpeners L) = true ∧
    (lOpeners L).all (fun o => headNotIdent L o && L.atomPrefixes.all (fun p => p.isEmpty || incompat o p)) = true ∧
    ([L.separator, L.compR, L.stmtR] ++ L.setBrackets.map (·.2)).all (fun k => !k.isEmpty && headNotIdent L k) = true ∧
    (lRights L).all (fun r => incompat r L.separator) = true ∧
    pairwiseB incompat L.copulas = true ∧ L.copulas.all (fun c => !c.isEmpty) = true ∧
    (List.range L.connecters.length).all (fun j =>
      match L.connecters[j]? with
      | some c => firstAt L.connecters j (c ++ L.separator)
      | none => true) = true := by
  have h := hL.ok
  simp only [lFormatOKB, Bool.and_eq_true] at h
  obtain ⟨⟨⟨⟨⟨⟨⟨h1, h2⟩, h3⟩, h4⟩, h5⟩, h6⟩, h7⟩, h8⟩ := h
  exact ⟨h1, h2, h3, h4, h5, h6, h7, h8⟩

theorem LFormatOK.sane : LSane L := lSane_of_bool L hL.split.1

theorem LFormatOK.opener {o : Str} (ho : o ∈ lOpeners L) :
    o ≠ [] ∧ headNotIdent L o = true ∧ ∀ p ∈ L.atomPrefixes, p ≠ [] → incompat o p = true := by
  have h := hL.split.2.2.1
  rw [List.all_eq_true] at h
  have := h o ho
  simp only [Bool.and_eq_true, List.all_eq_true, Bool.or_eq_true, List.isEmpty_iff] at this
  refine ⟨?_, this.1, fun p hp hne => (this.2 p hp).resolve_left hne⟩
  have hs := hL.sane
  simp only [lOpeners, List.mem_append, List.mem_map, List.mem_cons, List.not_mem_nil, or_false] at ho
  rcases ho with ⟨p, hp, rfl⟩ | rfl | rfl
  · exact hs.sets_ne p hp
  · exact hs.compL_ne
  · exact hs.stmtL_ne

theorem LFormatOK.terminator {k : Str}
    (hk : k ∈ [L.separator, L.compR, L.stmtR] ++ L.setBrackets.map (·.2)) : k ≠ [] ∧ headNotIdent L k = true := by
  have h := hL.split.2.2.2.1
  rw [List.all_eq_true] at h
  have := h k hk
  simp only [Bool.and_eq_true, Bool.not_eq_true', List.isEmpty_eq_false_iff] at this
  exact this

theorem LFormatOK.right_sep {r : Str} (hr : r ∈ lRights L) : incompat r L.separator = true := by
  have h := hL.split.2.2.2.2.1
  rw [List.all_eq_true] at h
  exact h r hr

theorem LFormatOK.copula_ne {c : Str} (hc : c ∈ L.copulas) : c ≠ [] := by
  have h := hL.split.2.2.2.2.2.2.1
  rw [List.all_eq_true] at h
  have := h c hc
  simpa using this

end

/-! ### stopping the identifier scanner -/

theorem stopL_nil (L : LFormat) : StopL L [] := rfl

theorem stopL_of_head (L : LFormat) (k r : Str) (hne : k ≠ []) (hh : headNotIdent L k = true) : StopL L (k ++ r) := by
  cases k with
  | nil => exact absurd rfl hne
  | cons c cs =>
    simp only [headNotIdent, List.head?_cons, Option.all_some, Bool.not_eq_true'] at hh
    simp [StopL, scanIdent, hh]

theorem stopL_of_copula (L : LFormat) (k r : Str) (hk : k ∈ L.copulas) (hne : k ≠ []) (hfirst : matchPrefix L.copulas (k ++ r) ≠ none) :
    StopL L (k ++ r) := by
  cases hkr : k ++ r with
  | nil => exact stopL_nil L
  | cons c cs =>
    rw [hkr] at hfirst
    unfold StopL scanIdent
    cases hm : matchPrefix L.copulas (c :: cs) with
    | none => exact absurd hm hfirst
    | some x => simp

theorem matchPrefix_none_of {dict : List Str} {s : Str} (h : ∀ k ∈ dict, isPre k s = false) :
    matchPrefix dict s = none := by
  unfold matchPrefix
  rw [List.find?_eq_none]
  intro k hk
  simp [h k hk]

/-- the scanner runs over a name and stops where the name ends -/
theorem scanIdent_name (L : LFormat) (rest : Str) (hst : StopL L rest) :
    ∀ (name : Str), (∀ c ∈ name, L.isIdent c = true) →
      (∀ s ∈ sufs name, ∀ c ∈ L.copulas, compat c s = false) → L.scanIdent (name ++ rest) = name.length
  | [], _, _ => by
    have : L.scanIdent rest = 0 := hst
    simpa using this
  | c :: cs, hid, hcop => by
    have h1 : L.isIdent c = true := hid c (by simp)
    have h2 : matchPrefix L.copulas (c :: (cs ++ rest)) = none := by
      apply matchPrefix_none_of
      intro k hk
      have := hcop (c :: cs) (by simp [sufs]) k hk
      exact not_isPre_of_not_compat this rest
    have ih := scanIdent_name L rest hst cs (fun x hx => hid x (by simp [hx]))
      (fun s hs => hcop s (by simp [sufs, hs]))
    simp only [List.cons_append, scanIdent, h1, h2, Option.isNone_none, Bool.and_self, if_true, ih, List.length_cons]

/-! ### atoms -/

theorem firstAt_spec {dict : List Str} {j : Nat} {txt : Str} (h : firstAt dict j txt = true) (i : Nat) (hi : i < j)
    (y : Str) (hy : dict[i]? = some y) (r : Str) : isPre y (txt ++ r) = false := by
  unfold firstAt at h
  rw [List.all_eq_true] at h
  have := h i (List.mem_range.mpr hi)
  simp only [hy, Bool.not_eq_true'] at this
  exact not_isPre_of_not_compat this r

theorem lAtomOK_split {L : LFormat} {pre name : Str} (h : lAtomOK L pre name = true) :
    (∃ j, L.atomPrefixes[j]? = some pre ∧ firstAt L.atomPrefixes j (pre ++ name) = true) ∧
    (∀ c ∈ name, L.isIdent c = true) ∧ (∀ s ∈ sufs name, ∀ c ∈ L.copulas, compat c s = false) ∧
    (pre ≠ [] ∨ name ≠ []) := by
  simp only [lAtomOK, Bool.and_eq_true, List.any_eq_true, List.mem_range, beq_iff_eq, List.all_eq_true,
    Bool.not_eq_true', Bool.or_eq_true, List.isEmpty_eq_false_iff] at h
  obtain ⟨⟨⟨⟨j, _, hj1, hj2⟩, h2⟩, h3⟩, h4⟩ := h
  exact ⟨⟨j, hj1, hj2⟩, h2, h3, h4⟩

theorem segAtom_rt (L : LFormat) (pre name rest : Str) (h : lAtomOK L pre name = true) (hst : StopL L rest) :
    L.segAtom (pre ++ name ++ rest) = .ok (.atom pre name, (pre ++ name).length) := by
  obtain ⟨⟨j, hj1, hj2⟩, hid, hcop, hne⟩ := lAtomOK_split h
  have hm : matchPrefix L.atomPrefixes (pre ++ name ++ rest) = some pre := by
    unfold matchPrefix
    apply find?_at _ _ j pre hj1
    · simp [List.append_assoc, isPre_append]
    · intro i hi y hy
      simpa using firstAt_spec hj2 i hi y hy rest
  unfold segAtom
  simp only [hm]
  have hd : (pre ++ name ++ rest).drop pre.length = name ++ rest := by simp [List.append_assoc]
  rw [hd, scanIdent_name L rest hst name hid hcop]
  have : ¬ (name.length = 0 ∧ pre.isEmpty = true) := by
    rintro ⟨h1, h2⟩
    rcases hne with hne | hne
    · exact hne (by simpa using h2)
    · exact hne (List.length_eq_zero_iff.mp h1)
  simp only [this, decide_false, Bool.false_eq_true, if_false, Bool.and_eq_true, decide_eq_true_eq]
  simp

/-! ### the alternatives of `segment_term` -/

theorem segSet_miss (L : LFormat) (fuel : Nat) (env : Str) (h : ∀ p ∈ L.setBrackets, isPre p.1 env = false) :
    Miss (L.segSet fuel env) := by
  cases fuel with
  | zero => exact .inl (by simp [segSet])
  | succ f =>
    right
    unfold segSet
    have : matchPrefixPair L.setBrackets env = none := by
      unfold matchPrefixPair
      rw [List.find?_eq_none]
      intro p hp
      simp [h p hp]
    simp [this]

theorem segCompound_miss (L : LFormat) (fuel : Nat) (env : Str) (h : isPre L.compL env = false) :
    Miss (L.segCompound fuel env) := by
  cases fuel with
  | zero => exact .inl (by simp [segCompound])
  | succ f => right; unfold segCompound; simp [strip_none_of_not_isPre h]

theorem segStatement_miss (L : LFormat) (fuel : Nat) (env : Str) (h : isPre L.stmtL env = false) :
    Miss (L.segStatement fuel env) := by
  cases fuel with
  | zero => exact .inl (by simp [segStatement])
  | succ f => right; unfold segStatement; simp [strip_none_of_not_isPre h]

theorem segTerm_via_set (L : LFormat) (fuel : Nat) (env : Str) (x : LTerm × Nat) (h : RL (L.segSet fuel env) x) :
    RL (L.segTerm (fuel + 1) env) x := by
  unfold segTerm
  rcases h with h | h <;> simp [h, RL]

theorem segTerm_via_compound (L : LFormat) (fuel : Nat) (env : Str) (x : LTerm × Nat)
    (h1 : Miss (L.segSet fuel env)) (h : RL (L.segCompound fuel env) x) : RL (L.segTerm (fuel + 1) env) x := by
  unfold segTerm
  rcases h1 with h1 | h1
  · simp [h1, RL]
  · rcases h with h | h <;> simp [h1, h, RL]

theorem segTerm_via_statement (L : LFormat) (fuel : Nat) (env : Str) (x : LTerm × Nat)
    (h1 : Miss (L.segSet fuel env)) (h2 : Miss (L.segCompound fuel env)) (h : RL (L.segStatement fuel env) x) :
    RL (L.segTerm (fuel + 1) env) x := by
  unfold segTerm
  rcases h1 with h1 | h1
  · simp [h1, RL]
  · rcases h2 with h2 | h2
    · simp [h1, h2, RL]
    · rcases h with h | h <;> simp [h1, h2, h, RL]

theorem segTerm_via_atom (L : LFormat) (fuel : Nat) (env : Str) (x : LTerm × Nat)
    (h1 : Miss (L.segSet fuel env)) (h2 : Miss (L.segCompound fuel env)) (h3 : Miss (L.segStatement fuel env))
    (h : L.segAtom env = .ok x) : RL (L.segTerm (fuel + 1) env) x := by
  unfold segTerm
  rcases h1 with h1 | h1
  · simp [h1, RL]
  · rcases h2 with h2 | h2
    · simp [h1, h2, RL]
    · rcases h3 with h3 | h3
      · simp [h1, h2, h3, RL]
      · simp [h1, h2, h3, h, RL]

end Narsese
