/-
  Lexical round trip, part 4: the term theorem (mutual over terms and component lists), fuel discharged.
-/
import Proofs.LRT.Main
set_option autoImplicit false

namespace Narsese
open LFormat

section
variable {L : LFormat} (hL : LFormatOK L)
include hL

/-- no opener is a prefix of the text of a well-formed atom -/
theorem opener_not_pre_atom (pre name rest : Str) (h : lAtomOK L pre name = true) {o : Str} (ho : o ∈ lOpeners L) :
    isPre o (pre ++ name ++ rest) = false := by
  obtain ⟨⟨j, hj1, _⟩, hid, _, hne⟩ := lAtomOK_split h
  obtain ⟨hone, hhead, hinc⟩ := hL.opener ho
  by_cases hp : pre = []
  · rw [hp] at hne ⊢
    have hn : name ≠ [] := by
      rcases hne with h | h
      · exact absurd rfl h
      · exact h
    cases name with
    | nil => exact absurd rfl hn
    | cons c cs =>
      apply not_isPre_head _ hone
      intro y hy heq
      rw [heq] at hy
      have hc := hid c (by simp)
      cases o with
      | nil => exact absurd rfl hone
      | cons z zs =>
        simp only [headNotIdent, List.head?_cons, Option.all_some, Bool.not_eq_true'] at hhead
        simp only [List.head?_cons, Option.mem_def, Option.some.injEq] at hy
        rw [hy] at hhead
        rw [hhead] at hc
        exact absurd hc (by simp)
  · have hmem : pre ∈ L.atomPrefixes := List.mem_of_getElem? hj1
    rw [List.append_assoc]
    exact not_isPre_of_incompat (hinc pre hmem hp) _

theorem copula_stopL {cop : Str} (hc : cop ∈ L.copulas) (r : Str) : StopL L (cop ++ r) := by
  apply stopL_of_copula L cop r hc (hL.copula_ne hc)
  intro h
  unfold matchPrefix at h
  rw [List.find?_eq_none] at h
  have := h cop hc
  simp [isPre_append] at this

mutual
  theorem rt_lterm : ∀ (t : LTerm), wfLT L t = true → ∀ (fuel : Nat) (rest : Str), StopL L rest →
      RL (L.segTerm fuel ((noSp L).fmtTerm t ++ rest)) (t, ((noSp L).fmtTerm t).length)
    | _, _, 0, _, _ => .inl (by simp [segTerm])
    | .atom pre name, ht, f + 1, rest, hst => by
      simp only [wfLT] at ht
      have hs : ∀ p ∈ L.setBrackets, isPre p.1 (pre ++ name ++ rest) = false := fun p hp =>
        opener_not_pre_atom hL pre name rest ht (by simp only [lOpeners, List.mem_append, List.mem_map]; exact .inl ⟨p, hp, rfl⟩)
      have hc := opener_not_pre_atom hL pre name rest ht (o := L.compL) (by simp [lOpeners])
      have hs' := opener_not_pre_atom hL pre name rest ht (o := L.stmtL) (by simp [lOpeners])
      simp only [fmtTerm]
      exact segTerm_via_atom L f _ _ (segSet_miss L f _ hs) (segCompound_miss L f _ hc) (segStatement_miss L f _ hs')
        (segAtom_rt L pre name rest ht hst)
    | .compound conn .nil, ht, f + 1, rest, hst => by simp [wfLT] at ht
    | .compound conn (.cons t ts), ht, f + 1, rest, hst => by
      simp only [wfLT, Bool.and_eq_true, List.contains_eq_mem, decide_eq_true_eq, Bool.not_eq_true'] at ht
      obtain ⟨⟨hconn, _⟩, hts⟩ := ht
      obtain ⟨j, hj⟩ := List.getElem?_of_mem hconn
      have hr : L.compR ∈ lRights L := by simp [lRights]
      have e : (noSp L).fmtTerm (.compound conn (.cons t ts)) ++ rest =
          L.compL ++ (conn ++ (L.separator ++ ((noSp L).fmtTerm t ++
            (tailL L.separator (fmtTerms (noSp L) ts) ++ (L.compR ++ rest))))) := by
        rw [txt_compound]; simp only [fmtTerms, tailL, List.append_assoc]
      have hlen : ((noSp L).fmtTerm (.compound conn (.cons t ts))).length =
          (L.compL ++ conn).length + (tailL L.separator (fmtTerms (noSp L) (.cons t ts))).length + L.compR.length := by
        rw [txt_compound]; simp only [List.length_append]; omega
      rw [e, hlen]
      have hs : ∀ p ∈ L.setBrackets, isPre p.1 (L.compL ++ (conn ++ (L.separator ++ ((noSp L).fmtTerm t ++
            (tailL L.separator (fmtTerms (noSp L) ts) ++ (L.compR ++ rest)))))) = false :=
        fun p hp => not_isPre_of_incompat (set_compL hL hp) _
      refine segTerm_via_compound L f _ _ (segSet_miss L f _ hs) ?_
      cases f with
      | zero => exact .inl (by simp [segCompound])
      | succ f =>
      have hloop := rt_lcomps (.cons t ts) hts L.compR hr rest f (L.compL ++ conn) []
        (L.compL ++ (conn ++ (L.separator ++ ((noSp L).fmtTerm t ++
            (tailL L.separator (fmtTerms (noSp L) ts) ++ (L.compR ++ rest))))))
        (by simp only [fmtTerms, tailL, List.append_assoc])
      have hpl : (L.compL ++ conn).length = L.compL.length + conn.length := by simp
      rw [hpl] at hloop
      have := lcompound_rt hL conn j hj _ _ _ f hloop
      simpa [LTerms.toList, LTerms.ofList, LTerms.ofList_toList, hpl] using this
    | .set l .nil r, ht, f + 1, rest, hst => by simp [wfLT] at ht
    | .set l (.cons t ts) r, ht, f + 1, rest, hst => by
      simp only [wfLT, Bool.and_eq_true, List.contains_eq_mem, decide_eq_true_eq, Bool.not_eq_true'] at ht
      obtain ⟨⟨hp, _⟩, hts⟩ := ht
      simp only [wfLTs, Bool.and_eq_true] at hts
      have hr : r ∈ lRights L := by
        simp only [lRights, List.mem_append, List.mem_map]; exact .inl ⟨(l, r), hp, rfl⟩
      have e : (noSp L).fmtTerm (.set l (.cons t ts) r) ++ rest =
          l ++ ((noSp L).fmtTerm t ++ (tailL L.separator (fmtTerms (noSp L) ts) ++ (r ++ rest))) := by
        rw [txt_set]; simp only [List.append_assoc]
      have hlen : ((noSp L).fmtTerm (.set l (.cons t ts) r)).length =
          (l ++ (noSp L).fmtTerm t).length + (tailL L.separator (fmtTerms (noSp L) ts)).length + r.length := by
        rw [txt_set]; simp only [List.length_append]; omega
      rw [e, hlen]
      refine segTerm_via_set L f _ _ ?_
      cases f with
      | zero => exact .inl (by simp [segSet])
      | succ f =>
      have hterm := rt_lterm t hts.1 f (tailL L.separator (fmtTerms (noSp L) ts) ++ (r ++ rest)) (tail_stopL hL hr _ rest)
      have hloop := rt_lcomps ts hts.2 r hr rest f (l ++ (noSp L).fmtTerm t) [t]
        (l ++ ((noSp L).fmtTerm t ++ (tailL L.separator (fmtTerms (noSp L) ts) ++ (r ++ rest))))
        (by simp only [List.append_assoc])
      have hpl : (l ++ (noSp L).fmtTerm t).length = l.length + ((noSp L).fmtTerm t).length := by simp
      rw [hpl] at hloop
      have := lset_rt hL l r hp t _ _ _ _ f hterm hloop
      simpa [LTerms.toList, LTerms.ofList, LTerms.ofList_toList, hpl] using this
    | .stmt cop a b, ht, f + 1, rest, hst => by
      simp only [wfLT, Bool.and_eq_true, List.contains_eq_mem, decide_eq_true_eq] at ht
      obtain ⟨⟨hc, ha⟩, hb⟩ := ht
      have e : (noSp L).fmtTerm (.stmt cop a b) ++ rest =
          L.stmtL ++ ((noSp L).fmtTerm a ++ (cop ++ ((noSp L).fmtTerm b ++ (L.stmtR ++ rest)))) := by
        rw [txt_stmt]; simp only [List.append_assoc]
      have hlen : ((noSp L).fmtTerm (.stmt cop a b)).length =
          (L.stmtL ++ ((noSp L).fmtTerm a ++ (cop ++ ((noSp L).fmtTerm b ++ L.stmtR)))).length := by
        rw [txt_stmt]
      rw [e, hlen]
      have hs : ∀ p ∈ L.setBrackets, isPre p.1 (L.stmtL ++ ((noSp L).fmtTerm a ++ (cop ++ ((noSp L).fmtTerm b ++
          (L.stmtR ++ rest))))) = false := fun p hp => not_isPre_of_incompat (set_stmtL hL hp) _
      have hcm := not_isPre_of_incompat (compL_stmtL hL) ((noSp L).fmtTerm a ++ (cop ++ ((noSp L).fmtTerm b ++ (L.stmtR ++ rest))))
      refine segTerm_via_statement L f _ _ (segSet_miss L f _ hs) (segCompound_miss L f _ hcm) ?_
      have hstR : StopL L (L.stmtR ++ rest) := by
        obtain ⟨hne, hh⟩ := hL.terminator (k := L.stmtR) (by simp)
        exact stopL_of_head L _ _ hne hh
      cases f with
      | zero => exact .inl (by simp [segStatement])
      | succ f =>
      exact lstatement_rt hL cop hc a b _ _ rest f
        (rt_lterm a ha f _ (copula_stopL hL hc _)) (rt_lterm b hb f _ hstR)

  theorem rt_lcomps : ∀ (ts : LTerms), wfLTs L ts = true → ∀ (right : Str), right ∈ lRights L → ∀ (rest : Str)
      (fuel : Nat) (P : Str) (acc : List LTerm) (env : Str),
      env = P ++ (tailL L.separator (fmtTerms (noSp L) ts) ++ (right ++ rest)) →
      RL (L.segComponents fuel right env P.length acc)
        (acc ++ ts.toList, P.length + (tailL L.separator (fmtTerms (noSp L) ts)).length + right.length)
    | .nil, _, right, _, rest, fuel, P, acc, env, henv => by
      have := loopL_end (L := L) hL right rest P env acc (by simpa [fmtTerms, tailL] using henv) fuel
      simpa [LTerms.toList, fmtTerms, tailL] using this
    | .cons t ts, _, right, _, rest, 0, P, acc, env, _ => .inl (by simp [segComponents])
    | .cons t ts, hts, right, hr, rest, f + 1, P, acc, env, henv => by
      simp only [wfLTs, Bool.and_eq_true] at hts
      have hterm := rt_lterm t hts.1 f (tailL L.separator (fmtTerms (noSp L) ts) ++ (right ++ rest))
        (tail_stopL hL hr _ rest)
      have hrest := rt_lcomps ts hts.2 right hr rest f (P ++ L.separator ++ (noSp L).fmtTerm t) (acc ++ [t]) env
        (by rw [henv]; simp only [fmtTerms, tailL, List.append_assoc])
      have := loopL_step hL hr P ((noSp L).fmtTerm t) (tailL L.separator (fmtTerms (noSp L) ts) ++ (right ++ rest))
        env t acc _ (by rw [henv]; simp only [fmtTerms, tailL, List.append_assoc]) f hterm hrest
      have e : acc ++ (LTerms.cons t ts).toList = acc ++ [t] ++ ts.toList := by simp [LTerms.toList]
      have e2 : P.length + (tailL L.separator (fmtTerms (noSp L) (.cons t ts))).length + right.length =
          (P ++ L.separator ++ (noSp L).fmtTerm t).length + (tailL L.separator (fmtTerms (noSp L) ts)).length + right.length := by
        simp only [fmtTerms, tailL, List.length_append]; omega
      rw [e, e2]
      exact this
end

/-- **lexical term-level round trip, fuel discharged** -/
theorem segTerm_fmtTerm (t : LTerm) (ht : wfLT L t = true) (rest : Str) (hst : StopL L rest) (fuel : Nat)
    (hfuel : 3 * ((noSp L).fmtTerm t ++ rest).length + 2 ≤ fuel) :
    L.segTerm fuel ((noSp L).fmtTerm t ++ rest) = .ok (t, ((noSp L).fmtTerm t).length) := by
  rcases rt_lterm hL t ht fuel rest hst with h | h
  · exact absurd h ((segTerm_good L hL.sane fuel _).2.2 hfuel)
  · exact h

end

end Narsese
