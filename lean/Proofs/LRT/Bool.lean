/-
  Lexical round trip, part 9: decidable versions of the value-level hypotheses (for examples, for the
  three shipped formats, and for the driver which evaluates them on generated values).
-/
import Proofs.LRT.Whole
set_option autoImplicit false

namespace Narsese
open LFormat

def stampOKB (L : LFormat) (st : Str) : Bool :=
  (List.range L.stampBrackets.length).any fun j =>
    match L.stampBrackets[j]? with
    | none => false
    | some (l, r) =>
      let content := (st.drop l.length).take (st.length - l.length - r.length)
      (st == l ++ content ++ r) && !st.isEmpty && content.all (inRanges L.isStampTbl) &&
      (!l.isEmpty || content.isEmpty) && l.getLast?.all (fun c => !inRanges L.isStampTbl c) &&
      (List.range j).all (fun i => match L.stampBrackets[i]? with
        | some p => !sufCompat p.2 st
        | none => true) &&
      !sufCompat L.truthR st

theorem stampOK_of_bool {L : LFormat} {st : Str} (h : stampOKB L st = true) : StampOK L st := by
  simp only [stampOKB, List.any_eq_true, List.mem_range] at h
  obtain ⟨j, _, hj⟩ := h
  cases hb : L.stampBrackets[j]? with
  | none => simp [hb] at hj
  | some q =>
    obtain ⟨l, r⟩ := q
    simp only [hb, Bool.and_eq_true, beq_iff_eq, Bool.not_eq_true', List.isEmpty_eq_false_iff, List.all_eq_true,
      Bool.or_eq_true, List.isEmpty_iff, option_all_iff, List.mem_range] at hj
    obtain ⟨⟨⟨⟨⟨⟨h1, h2⟩, h3⟩, h4⟩, h5⟩, h6⟩, h7⟩ := hj
    refine ⟨j, l, r, _, hb, h1, h2, h3, ?_, ?_, ?_, h7⟩
    · intro hl
      rcases h4 with h4 | h4
      · exact absurd hl h4
      · exact h4
    · intro c hc; simpa using h5 c hc
    · intro i hi p hp
      have := h6 i hi
      simpa [hp] using this

def sentOKB (L : LFormat) (s : LSentence) : Bool :=
  wfLT L s.term && L.punctuations.contains s.punct && (s.stamp.isEmpty || stampOKB L s.stamp) &&
  s.truth.all numStrB

theorem sentOK_of_bool {L : LFormat} {s : LSentence} (h : sentOKB L s = true) : SentOK L s := by
  simp only [sentOKB, Bool.and_eq_true, List.contains_eq_mem, decide_eq_true_eq, Bool.or_eq_true,
    List.isEmpty_iff, List.all_eq_true] at h
  obtain ⟨⟨⟨h1, h2⟩, h3⟩, h4⟩ := h
  exact ⟨h1, h2, h3.imp id stampOK_of_bool, h4⟩

/-- decidable well-formedness of a lexical value (implies `wfLN`) -/
def wfLNB (L : LFormat) : LNarsese → Bool
  | .term t =>
    wfLT L t && (L.segTruth ((noSp L).fmtTerm t) == .ok none) && (L.segStamp ((noSp L).fmtTerm t) == .ok none) &&
    (L.segPunct ((noSp L).fmtTerm t)).isNone && (L.segBudget ((noSp L).fmtTerm t)).isNone
  | .sentence s => sentOKB L s && (L.segBudget ((noSp L).fmtSentence s)).isNone
  | .task k => sentOKB L k.sentence && k.budget.all numStrB

theorem wfLN_of_bool {L : LFormat} {v : LNarsese} (h : wfLNB L v = true) : wfLN L v := by
  cases v with
  | term t =>
    simp only [wfLNB, Bool.and_eq_true, beq_iff_eq, Option.isNone_iff_eq_none] at h
    obtain ⟨⟨⟨⟨h1, h2⟩, h3⟩, h4⟩, h5⟩ := h
    exact ⟨h1, ⟨h2, h3, h4⟩, h5⟩
  | sentence s =>
    simp only [wfLNB, Bool.and_eq_true, Option.isNone_iff_eq_none] at h
    exact ⟨sentOK_of_bool h.1, h.2⟩
  | task k =>
    simp only [wfLNB, Bool.and_eq_true, List.all_eq_true] at h
    exact ⟨sentOK_of_bool h.1, h.2⟩

/-- **lexical round trip, decidable hypotheses** -/
theorem lparse_fmtNarsese_bool {L : LFormat} (hI : LItemsOK L) (hW : lWsOKB L = true) (v : LNarsese)
    (hv : wfLNB L v = true) (hws : wsFreeN L v = true) : L.lparse (L.fmtNarsese v) = .ok v :=
  lparse_fmtNarsese hI hW v (wfLN_of_bool hv) hws

end Narsese
