/-
  Lexical round trip, part 5: bracketed number lists (truth, budget) — scanning to the bracket,
  trimming the brackets, splitting at the separator.
-/
import Proofs.LRT.Final
import Proofs.RT.Items
set_option autoImplicit false

namespace Narsese
open LFormat

def isNumCh (c : Char) : Bool := isDigit c || c == '.'
/-- a numeric string as the lexical model stores it: non-empty, digits and dots -/
def numStrB (s : Str) : Bool := !s.isEmpty && s.all isNumCh

/-- decidable condition on one bracketed list `(l, r, sep)` with content alphabet `tbl` -/
def listOKB (l r sep : Str) (tbl : List (Nat × Nat)) : Bool :=
  !l.isEmpty && !r.isEmpty && !sep.isEmpty &&
  l.head?.all (fun c => !isNumCh c) && l.getLast?.all (fun c => !isNumCh c && !sep.contains c) &&
  r.head?.all (fun c => !isNumCh c && !sep.contains c) && r.getLast?.all (fun c => !isNumCh c) &&
  sep.head?.all (fun c => !isNumCh c) &&
  sep.all (inRanges tbl) && (digitChars ++ ['.']).all (inRanges tbl)

structure ListOKL (l r sep : Str) (tbl : List (Nat × Nat)) : Prop where
  l_ne : l ≠ []
  r_ne : r ≠ []
  sep_ne : sep ≠ []
  l_head : ∀ c ∈ l.head?, isNumCh c = false
  l_last : ∀ c ∈ l.getLast?, isNumCh c = false ∧ c ∉ sep
  r_head : ∀ c ∈ r.head?, isNumCh c = false ∧ c ∉ sep
  r_last : ∀ c ∈ r.getLast?, isNumCh c = false
  sep_head : ∀ c ∈ sep.head?, isNumCh c = false
  sep_tbl : ∀ c ∈ sep, inRanges tbl c = true
  num_tbl : ∀ c, isNumCh c = true → inRanges tbl c = true

theorem option_all_iff {α : Type} (o : Option α) (p : α → Bool) : o.all p = true ↔ ∀ c ∈ o, p c = true := by
  cases o <;> simp

theorem listOKL_of_bool {l r sep : Str} {tbl : List (Nat × Nat)} (h : listOKB l r sep tbl = true) :
    ListOKL l r sep tbl := by
  simp only [listOKB, Bool.and_eq_true, Bool.not_eq_true', List.isEmpty_eq_false_iff, option_all_iff,
    List.all_eq_true, List.contains_eq_mem, decide_eq_false_iff_not] at h
  obtain ⟨⟨⟨⟨⟨⟨⟨⟨⟨h1, h2⟩, h3⟩, h4⟩, h5⟩, h6⟩, h7⟩, h8⟩, h9⟩, h10⟩ := h
  refine ⟨h1, h2, h3, h4, h5, h6, h7, h8, h9, ?_⟩
  intro c hc
  simp only [isNumCh, Bool.or_eq_true, beq_iff_eq] at hc
  apply h10
  simp only [List.mem_append, List.mem_singleton]
  rcases hc with hc | hc
  · exact .inl (isDigit_digitChars c hc)
  · exact .inr hc

/-! ### content of a list -/

theorem content_chars (sep : Str) : ∀ (xs : List Str), (∀ x ∈ xs, numStrB x = true) →
    ∀ c ∈ joinWith sep xs, isNumCh c = true ∨ c ∈ sep
  | [], _, c, hc => by simp [joinWith] at hc
  | [x], h, c, hc => by
    have := h x (by simp)
    simp only [numStrB, Bool.and_eq_true, List.all_eq_true] at this
    simp only [joinWith] at hc
    exact .inl (this.2 c hc)
  | x :: y :: r, h, c, hc => by
    have hx := h x (by simp)
    simp only [numStrB, Bool.and_eq_true, List.all_eq_true] at hx
    simp only [joinWith, List.mem_append] at hc
    rcases hc with (hc | hc) | hc
    · exact .inl (hx.2 c hc)
    · exact .inr hc
    · exact content_chars sep (y :: r) (fun z hz => h z (by simp [hz])) c hc

theorem content_ne (sep : Str) (x : Str) (xs : List Str) (hx : numStrB x = true) : joinWith sep (x :: xs) ≠ [] := by
  simp only [numStrB, Bool.and_eq_true, Bool.not_eq_true', List.isEmpty_eq_false_iff] at hx
  cases xs <;> simp [joinWith, hx.1]

theorem content_head (sep : Str) (x : Str) (xs : List Str) (hx : numStrB x = true) :
    ∃ c cs, joinWith sep (x :: xs) = c :: cs ∧ isNumCh c = true := by
  simp only [numStrB, Bool.and_eq_true, Bool.not_eq_true', List.isEmpty_eq_false_iff, List.all_eq_true] at hx
  cases x with
  | nil => exact absurd rfl hx.1
  | cons c cs =>
    cases xs with
    | nil => exact ⟨c, cs, by simp [joinWith], hx.2 c (by simp)⟩
    | cons y r => exact ⟨c, cs ++ sep ++ joinWith sep (y :: r), by simp [joinWith], hx.2 c (by simp)⟩

theorem content_last (sep : Str) : ∀ (xs : List Str), xs ≠ [] → (∀ x ∈ xs, numStrB x = true) →
    ∃ cs c, joinWith sep xs = cs ++ [c] ∧ isNumCh c = true
  | [], h, _ => absurd rfl h
  | [x], _, h => by
    have hx := h x (by simp)
    simp only [numStrB, Bool.and_eq_true, Bool.not_eq_true', List.isEmpty_eq_false_iff, List.all_eq_true] at hx
    obtain ⟨cs, c, e⟩ : ∃ cs c, x = cs ++ [c] := by
      have := List.eq_nil_or_concat x
      rcases this with h0 | ⟨cs, c, e⟩
      · exact absurd h0 hx.1
      · exact ⟨cs, c, by simpa using e⟩
    exact ⟨cs, c, by simp [joinWith, e], hx.2 c (by simp [e])⟩
  | x :: y :: r, _, h => by
    obtain ⟨cs, c, e, hc⟩ := content_last sep (y :: r) (by simp) (fun z hz => h z (by simp [hz]))
    exact ⟨x ++ sep ++ cs, c, by simp [joinWith, e, List.append_assoc], hc⟩

/-! ### scanning to a bracket over verified content -/

theorem scanToRight_content (right : Str) (verify : Char → Bool) (hne : right ≠ []) (Z : Str) :
    ∀ (content : Str), (∀ c ∈ content, verify c = true ∧ ∀ y ∈ right.head?, y ≠ c) →
      scanToRight right verify (content ++ right ++ Z) = some (content.length + right.length)
  | [], _ => by
    cases hr : right with
    | nil => exact absurd hr hne
    | cons a as =>
      have : isPre (a :: as) ((a :: as) ++ Z) = true := isPre_append _ _
      simp only [List.nil_append, List.cons_append] at this ⊢
      simp [scanToRight, this]
  | c :: cs, h => by
    obtain ⟨hv, hh⟩ := h c (by simp)
    have hnp : isPre right (c :: (cs ++ right ++ Z)) = false := not_isPre_head hh hne
    have ih := scanToRight_content right verify hne Z cs (fun x hx => h x (by simp [hx]))
    simp only [List.cons_append, List.append_assoc] at hnp ih ⊢
    simp only [scanToRight, hnp, Bool.false_eq_true, if_false, hv, if_true, ih, Option.map_some, List.length_cons]
    congr 1; omega

theorem scanToLeft_content (leftRev : Str) (verify : Char → Bool) (hne : leftRev ≠ []) (Z : Str) :
    ∀ (content : Str), (∀ c ∈ content, verify c = true ∧ ∀ y ∈ leftRev.head?, y ≠ c) →
      scanToLeft leftRev verify (content ++ leftRev ++ Z) = some (content.length + leftRev.length)
  | [], _ => by
    cases hr : leftRev with
    | nil => exact absurd hr hne
    | cons a as =>
      have : isPre (a :: as) ((a :: as) ++ Z) = true := isPre_append _ _
      simp only [List.nil_append, List.cons_append] at this ⊢
      simp [scanToLeft, this]
  | c :: cs, h => by
    obtain ⟨hv, hh⟩ := h c (by simp)
    have hnp : isPre leftRev (c :: (cs ++ leftRev ++ Z)) = false := not_isPre_head hh hne
    have ih := scanToLeft_content leftRev verify hne Z cs (fun x hx => h x (by simp [hx]))
    simp only [List.cons_append, List.append_assoc] at hnp ih ⊢
    simp only [scanToLeft, hnp, Bool.false_eq_true, if_false, hv, if_true, ih, Option.map_some, List.length_cons]
    congr 1; omega

/-! ### trimming -/

theorem trimStart_once (l s : Str) (hl : l ≠ []) (h : isPre l s = false) :
    trimStartMatches l (l ++ s).length (l ++ s) = s := by
  have hlen : (l ++ s).length = (l.length - 1 + s.length) + 1 := by
    have := ne_nil_length hl; simp only [List.length_append]; omega
  rw [hlen, trimStartMatches]
  simp only [nonempty_isEmpty hl, Bool.false_eq_true, if_false, strip_append]
  cases hn : l.length - 1 + s.length with
  | zero => rfl
  | succ n =>
    rw [trimStartMatches]
    simp only [nonempty_isEmpty hl, Bool.false_eq_true, if_false, strip_none_of_not_isPre h]

theorem trimEnd_once (r s : Str) (hr : r ≠ []) (h : isSuf r s = false) : trimEndMatches r (s ++ r) = s := by
  unfold trimEndMatches
  have hr' : r.reverse ≠ [] := by simpa using hr
  have : (s ++ r).reverse = r.reverse ++ s.reverse := by simp
  rw [this]
  have hl : (s ++ r).length = (r.reverse ++ s.reverse).length := by simp; omega
  rw [hl, trimStart_once r.reverse s.reverse hr' h]
  simp

/-! ### splitting -/

theorem splitOnAux_run (sep : Str) (hsep : ∀ c ∈ sep.head?, isNumCh c = false) (hne : sep ≠ []) :
    ∀ (x : Str), (∀ c ∈ x, isNumCh c = true) → ∀ (n : Nat) (cur rest : Str),
      splitOnAux sep (n + x.length) cur (x ++ rest) = splitOnAux sep n (x.reverse ++ cur) rest
  | [], _, n, cur, rest => by simp
  | c :: cs, h, n, cur, rest => by
    have hc := h c (by simp)
    have hnp : strip sep (c :: (cs ++ rest)) = none := by
      apply strip_none_of_not_isPre
      apply not_isPre_head _ hne
      intro y hy heq
      rw [heq] at hy
      rw [hsep c hy] at hc
      exact absurd hc (by simp)
    have e : n + (c :: cs).length = (n + cs.length) + 1 := by simp; omega
    rw [e, List.cons_append, splitOnAux]
    simp only [hnp]
    rw [splitOnAux_run sep hsep hne cs (fun y hy => h y (by simp [hy])) n (c :: cur) rest]
    simp

theorem splitOnAux_join (sep : Str) (hsep : ∀ c ∈ sep.head?, isNumCh c = false) (hne : sep ≠ []) :
    ∀ (xs : List Str), (∀ x ∈ xs, numStrB x = true) → ∀ (x : Str), numStrB x = true → ∀ (n : Nat) (cur : Str),
      (joinWith sep (x :: xs)).length + 1 ≤ n →
      splitOnAux sep n cur (joinWith sep (x :: xs)) = (cur.reverse ++ x) :: xs
  | [], _, x, hx, n, cur, hn => by
    simp only [numStrB, Bool.and_eq_true, List.all_eq_true] at hx
    simp only [joinWith] at hn ⊢
    obtain ⟨k, rfl⟩ : ∃ k, n = (k + 1) + x.length := ⟨n - 1 - x.length, by omega⟩
    have := splitOnAux_run sep hsep hne x hx.2 (k + 1) cur []
    rw [List.append_nil] at this
    rw [this, splitOnAux]
    simp
  | y :: ys, h, x, hx, n, cur, hn => by
    have hx' := hx
    simp only [numStrB, Bool.and_eq_true, List.all_eq_true] at hx'
    have e : joinWith sep (x :: y :: ys) = x ++ (sep ++ joinWith sep (y :: ys)) := by simp [joinWith]
    rw [e] at hn ⊢
    simp only [List.length_append] at hn
    obtain ⟨k, rfl⟩ : ∃ k, n = (k + 1) + x.length := ⟨n - 1 - x.length, by omega⟩
    rw [splitOnAux_run sep hsep hne x hx'.2 (k + 1) cur _]
    obtain ⟨a, as, hsa⟩ : ∃ a as, sep = a :: as := by
      cases sep with
      | nil => exact absurd rfl hne
      | cons a as => exact ⟨a, as, rfl⟩
    have hst : strip sep (sep ++ joinWith sep (y :: ys)) = some (joinWith sep (y :: ys)) := strip_append _ _
    have hcons : sep ++ joinWith sep (y :: ys) = a :: (as ++ joinWith sep (y :: ys)) := by simp [hsa]
    rw [hcons, splitOnAux, ← hcons, hst]
    simp only
    have hsl := ne_nil_length hne
    rw [splitOnAux_join sep hsep hne ys (fun z hz => h z (by simp [hz])) y (h y (by simp)) k [] (by omega)]
    simp

theorem splitOn_join (sep : Str) (hsep : ∀ c ∈ sep.head?, isNumCh c = false) (hne : sep ≠ [])
    (xs : List Str) (hxs : xs ≠ []) (h : ∀ x ∈ xs, numStrB x = true) : splitOn sep (joinWith sep xs) = xs := by
  cases xs with
  | nil => exact absurd rfl hxs
  | cons x r =>
    unfold splitOn
    simp only [nonempty_isEmpty hne, Bool.false_eq_true, if_false]
    have := splitOnAux_join sep hsep hne r (fun z hz => h z (by simp [hz])) x (h x (by simp))
      ((joinWith sep (x :: r)).length + 1) [] (Nat.le_refl _)
    simpa using this

/-- **the text of a printed non-empty list splits back into its entries** -/
theorem splitItems_list {l r sep : Str} {tbl : List (Nat × Nat)} (hO : ListOKL l r sep tbl)
    (xs : List Str) (hxs : xs ≠ []) (h : ∀ x ∈ xs, numStrB x = true) :
    splitItems l r sep (l ++ joinWith sep xs ++ r) = xs := by
  obtain ⟨x, r', rfl⟩ : ∃ x r', xs = x :: r' := by
    cases xs with
    | nil => exact absurd rfl hxs
    | cons x r' => exact ⟨x, r', rfl⟩
  obtain ⟨c, cs, hc, hcn⟩ := content_head sep x r' (h x (by simp))
  obtain ⟨ds, d, hd, hdn⟩ := content_last sep (x :: r') (by simp) h
  unfold splitItems
  simp only
  have h1 : isPre l (joinWith sep (x :: r') ++ r) = false := by
    rw [hc]
    apply not_isPre_head _ hO.l_ne
    intro y hy heq
    rw [heq] at hy
    rw [hO.l_head c hy] at hcn
    exact absurd hcn (by simp)
  have h2 : isSuf r (joinWith sep (x :: r')) = false := by
    unfold isSuf
    rw [hd]
    simp only [List.reverse_append, List.reverse_cons, List.reverse_nil, List.nil_append, List.cons_append]
    apply not_isPre_head _ (by simpa using hO.r_ne)
    intro y hy heq
    rw [heq] at hy
    have : d ∈ r.getLast? := by
      rw [List.head?_reverse] at hy; exact hy
    rw [hO.r_last d this] at hdn
    exact absurd hdn (by simp)
  rw [List.append_assoc, trimStart_once l _ hO.l_ne h1, trimEnd_once r _ hO.r_ne h2,
    splitOn_join sep hO.sep_head hO.sep_ne (x :: r') (by simp) h]
  apply List.filter_eq_self.mpr
  intro z hz
  have := h z hz
  simp only [numStrB, Bool.and_eq_true] at this
  exact this.1

end Narsese
