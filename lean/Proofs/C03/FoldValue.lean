/-
  C03, part 4: folding the lexical image of a sentence / task, and the two pipelines on the enum
  formatter's output.
-/
import Proofs.C03.Fold
set_option autoImplicit false

namespace Narsese
open EFormat

theorem foldFloats_texts : ∀ xs : List Num, (∀ x ∈ xs, x.ok = true) → foldFloats (xs.map (·.text)) = .ok xs
  | [], _ => rfl
  | x :: xs, h => by
    simp only [List.map_cons, foldFloats, readNum_ok x (h x (by simp)),
      foldFloats_texts xs (fun y hy => h y (by simp [hy])), Res.map]

theorem in01_of_ok {x : Num} (h : x.ok = true) : x.in01 = true := by
  simp only [Num.ok, Bool.and_eq_true] at h
  exact h.1.1.1

theorem foldTruth_toLex (tr : Truth) (h : wfTruth tr = true) : foldTruth (toLexTruth tr) = .ok tr := by
  have hok : ∀ x ∈ tr.components, x.ok = true := by simpa [wfTruth, List.all_eq_true] using h
  unfold foldTruth toLexTruth
  rw [foldFloats_texts _ hok]
  cases tr with
  | empty => rfl
  | single f =>
    have := in01_of_ok (hok f (by simp [Truth.components]))
    simp [Res.bind, Truth.components, Truth.tryFromFloats, GTruth.tryFromFloats, tryValidate, this, GTruth.newSingle,
      validate, Res.map, Truth.ofG]
  | double f c =>
    have h1 := in01_of_ok (hok f (by simp [Truth.components]))
    have h2 := in01_of_ok (hok c (by simp [Truth.components]))
    simp [Res.bind, Truth.components, Truth.tryFromFloats, GTruth.tryFromFloats, tryValidate, h1, h2,
      GTruth.newDouble, validate, Res.map, Truth.ofG]

theorem foldBudget_toLex (b : Budget) (h : wfBudget b = true) : foldBudget (toLexBudget b) = .ok b := by
  have hok : ∀ x ∈ b.components, x.ok = true := by simpa [wfBudget, List.all_eq_true] using h
  unfold foldBudget toLexBudget
  rw [foldFloats_texts _ hok]
  cases b with
  | empty => rfl
  | single p =>
    have := in01_of_ok (hok p (by simp [Budget.components]))
    simp [Res.bind, Budget.components, Budget.tryFromFloats, GBudget.tryFromFloats, tryValidate, this,
      GBudget.newSingle, validate, Res.map, Budget.ofG]
  | double p d =>
    have h1 := in01_of_ok (hok p (by simp [Budget.components]))
    have h2 := in01_of_ok (hok d (by simp [Budget.components]))
    simp [Res.bind, Budget.components, Budget.tryFromFloats, GBudget.tryFromFloats, tryValidate, h1, h2,
      GBudget.newDouble, validate, Res.map, Budget.ofG]
  | triple p d q =>
    have h1 := in01_of_ok (hok p (by simp [Budget.components]))
    have h2 := in01_of_ok (hok d (by simp [Budget.components]))
    have h3 := in01_of_ok (hok q (by simp [Budget.components]))
    simp [Res.bind, Budget.components, Budget.tryFromFloats, GBudget.tryFromFloats, tryValidate, h1, h2, h3,
      GBudget.newTriple, validate, Res.map, Budget.ofG]

section
variable {F : EFormat} (hI : ItemsOK F)
include hI

/-- the stamp side door reads a printed stamp back -/
theorem stampDoor_fmt (st : Stamp) (hwf : wfStamp st = true) : F.parseStampDoor (F.fmtStamp st) = .ok st := by
  by_cases he : st = .eternal
  · subst he; simp [parseStampDoor, fmtStamp]
  · have hne := fmtStamp_ne hI st he
    have h := consumeStamp_txt hI (F.fmtStamp st).length st he hwf [] (stamp_follow hI [] (.inl rfl))
    rw [List.append_nil] at h
    have hc : Cur.ofEnv (F.fmtStamp st) = mk (F.fmtStamp st).length (F.fmtStamp st) := rfl
    unfold parseStampDoor
    simp only [nonempty_isEmpty hne, Bool.false_eq_true, if_false, hc, h, Props.C04.eagerErr_ok]
    rfl

theorem punctDoor_fmt (p : Punct) : F.parsePunctDoor (F.fmtPunct p) = .ok p := by
  have h := consumePunct_txt hI (F.fmtPunct p).length p []
  rw [List.append_nil] at h
  have hc : Cur.ofEnv (F.fmtPunct p) = mk (F.fmtPunct p).length (F.fmtPunct p) := rfl
  unfold parsePunctDoor
  simp only [hc, h, Props.C04.eagerErr_ok]
  rfl

theorem foldSentence_toLex (hO : FoldOK F) (s : Sentence) (hwf : wfSentence F s = true) :
    F.foldSentence (toLexSentence F s) = .ok s := by
  simp only [wfSentence, Bool.and_eq_true] at hwf
  obtain ⟨⟨ht, hst⟩, htr⟩ := hwf
  simp only [foldSentence, toLexSentence, fold_toLex hO s.term ht, foldTruth_toLex _ htr, stampDoor_fmt hI _ hst,
    punctDoor_fmt hI, Res.bind, fromPunctuation_self]

/-- **folding the lexical image gives the value back** -/
theorem fold_toLexN (hO : FoldOK F) (v : Narsese) (hwf : wfN F v = true) : F.foldNarsese (toLexN F v) = .ok v := by
  cases v with
  | term t => simp only [toLexN, foldNarsese, fold_toLex hO t hwf, Res.map]
  | sentence s => simp only [toLexN, foldNarsese, foldSentence_toLex hI hO s hwf, Res.map]
  | task k =>
    simp only [wfN, wfTask, Bool.and_eq_true] at hwf
    simp only [toLexN, foldNarsese, foldTask, foldBudget_toLex _ hwf.2, foldSentence_toLex hI hO _ hwf.1, Res.bind,
      Res.map]

end

/-- **C03 on everything the enum formatter can emit**: both pipelines succeed on `format v` and give `v` -/
theorem pipelines_agree_on_formatted {F : EFormat} {L : LFormat} (hI : ItemsOK F) (hO : FoldOK F)
    (hA : Agree F L) (hLI : LItemsOK L) (hW : lWsOKB L = true) (v : Narsese)
    (hwf : wfN F v = true) (htop : topN F v = true)
    (hlv : wfLNB L (toLexN F v) = true) (hws : wsFreeN L (toLexN F v) = true) :
    F.eparse (F.fmtNarsese v) = .ok v ∧
    (L.lparse (F.fmtNarsese v)).bind F.foldNarsese = .ok v := by
  refine ⟨eparse_fmtNarsese hI v hwf htop, ?_⟩
  rw [lparse_efmt hA hLI hW v hlv hws]
  exact fold_toLexN hI hO v hwf

end Narsese
