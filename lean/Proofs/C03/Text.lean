/-
  C03, part 2: sentences and tasks — after `idealize_env` the enum formatter's line is the lexical
  formatter's line for the lexical image; hence the lexical parser reads the enum formatter's output back
  as the lexical image.
-/
import Proofs.C03.ToLex
set_option autoImplicit false

namespace Narsese
open EFormat

section
variable {F : EFormat} {L : LFormat} (hA : Agree F L)
include hA

theorem fmtTruth_toLex (tr : Truth) : L.fmtTruth (toLexTruth tr) = F.fmtTruth tr := by
  cases tr <;>
    simp [toLexTruth, Truth.components, LFormat.fmtTruth, EFormat.fmtTruth, fmtFloats, hA.truthL, hA.truthR,
      hA.truthSep]

theorem fmtBudget_toLex (b : Budget) : L.fmtBudget (toLexBudget b) = F.fmtBudget b := by
  simp [toLexBudget, LFormat.fmtBudget, EFormat.fmtBudget, fmtFloats, hA.budgetL, hA.budgetR, hA.budgetSep]

omit hA in
theorem joinLest_eqE (sp a b c : Str) :
    EFormat.joinLest sp [a, b, c] = a ++ ((if b.isEmpty then [] else sp ++ b) ++ (if c.isEmpty then [] else sp ++ c)) := by
  simp only [EFormat.joinLest, List.filter]
  cases b <;> cases c <;> simp

omit hA in
theorem idealE_joinLest (hW : lWsOKB L = true) (sp a b c : Str) (hsp : L.idealize sp = []) :
    L.idealize (EFormat.joinLest sp [a, b, c]) = L.idealize a ++ (L.idealize b ++ L.idealize c) := by
  rw [joinLest_eqE, ideal_append hW, ideal_append hW, ideal_sepItem hW sp b hsp, ideal_sepItem hW sp c hsp]

omit hA in
theorem idealL_joinLest (hW : lWsOKB L = true) (sp a b c : Str) (hsp : L.idealize sp = []) :
    L.idealize (LFormat.joinLest sp [a, b, c]) = L.idealize a ++ (L.idealize b ++ L.idealize c) := by
  rw [joinLest_eq, ideal_append hW, ideal_append hW, ideal_sepItem hW sp b hsp, ideal_sepItem hW sp c hsp]

/-- the two sentence lines differ only in the spaces between the items -/
theorem ideal_fmtSentence (hW : lWsOKB L = true) (s : Sentence) :
    L.idealize (F.fmtSentence s) = L.idealize (L.fmtSentence (toLexSentence F s)) := by
  have h0 := ideal_space hW L.spaceItems (lWs_split hW).2.2.1
  have h1 : L.idealize F.spaceTerms = [] := by
    rw [← hA.spaceTerms]; exact ideal_space hW L.spaceTerms (lWs_split hW).2.1
  unfold EFormat.fmtSentence LFormat.fmtSentence
  rw [ideal_append hW, ideal_append hW, idealE_joinLest hW _ _ _ _ h1, idealL_joinLest hW _ _ _ _ h0]
  simp only [toLexSentence, fmt_toLex hA, fmtTruth_toLex hA]

omit hA in
theorem line_isEmpty (T a b c sp sp' : Str) :
    (T ++ (a ++ ((if b.isEmpty then [] else sp ++ b) ++ (if c.isEmpty then [] else sp ++ c)))).isEmpty =
    (T ++ (a ++ ((if b.isEmpty then [] else sp' ++ b) ++ (if c.isEmpty then [] else sp' ++ c)))).isEmpty := by
  cases sp <;> cases sp' <;> cases T <;> cases a <;> cases b <;> cases c <;> simp

theorem fmtSentence_isEmpty (s : Sentence) :
    (F.fmtSentence s).isEmpty = (L.fmtSentence (toLexSentence F s)).isEmpty := by
  unfold EFormat.fmtSentence LFormat.fmtSentence
  rw [joinLest_eqE, joinLest_eq]
  dsimp only [toLexSentence]
  simp only [fmt_toLex hA, fmtTruth_toLex hA]
  exact line_isEmpty _ _ _ _ _ _

theorem ideal_fmtNarsese (hW : lWsOKB L = true) (v : Narsese) :
    L.idealize (F.fmtNarsese v) = L.idealize (L.fmtNarsese (toLexN F v)) := by
  cases v with
  | term t => simp only [EFormat.fmtNarsese, LFormat.fmtNarsese, toLexN, fmt_toLex hA]
  | sentence s => exact ideal_fmtSentence hA hW s
  | task k =>
    simp only [EFormat.fmtNarsese, LFormat.fmtNarsese, toLexN, EFormat.fmtTask, LFormat.fmtTask]
    rw [fmtSentence_isEmpty hA k.sentence, fmtBudget_toLex hA]
    split
    · rfl
    · simp only [ideal_append hW, ideal_fmtSentence hA hW k.sentence, hA.spaceItems]

/-- **the lexical parser reads the enum formatter's output back as the lexical image** -/
theorem lparse_efmt (hI : LItemsOK L) (hW : lWsOKB L = true) (v : Narsese)
    (hv : wfLNB L (toLexN F v) = true) (hws : wsFreeN L (toLexN F v) = true) :
    L.lparse (F.fmtNarsese v) = .ok (toLexN F v) := by
  have h := lparse_fmtNarsese_bool hI hW (toLexN F v) hv hws
  unfold LFormat.lparse at h ⊢
  rw [ideal_fmtNarsese hA hW v]
  exact h

end

end Narsese
