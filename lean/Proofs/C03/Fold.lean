/-
  C03, part 3: folding the lexical image gives the value back — `fold (toLex v) = Ok v`.
-/
import Proofs.C03.Text
import Props.C10a
set_option autoImplicit false

namespace Narsese
open EFormat

/-- every key of a keyword table is found at its own entry (keys pairwise distinct) -/
def hits {β : Type} [DecidableEq β] (tbl : List (Str × β)) : Bool :=
  tbl.all (fun e => tbl.find? (fun x => decide (e.1 = x.1)) == some e)

theorem hits_spec {β : Type} [DecidableEq β] {tbl : List (Str × β)} (h : hits tbl = true) {e : Str × β}
    (he : e ∈ tbl) : tbl.find? (fun x => decide (e.1 = x.1)) = some e := by
  simp only [hits, List.all_eq_true, beq_iff_eq] at h
  exact h e he

/-- decidable: the fold tables map every keyword to its own constructor -/
def foldOKB (F : EFormat) : Bool :=
  hits F.foldAtomTable && hits F.foldConnTable && hits F.copulaTable &&
  decide ((F.extSetL, F.extSetR) ≠ (F.intSetL, F.intSetR))

structure FoldOK (F : EFormat) : Prop where
  atoms : hits F.foldAtomTable = true
  conns : hits F.foldConnTable = true
  cops : hits F.copulaTable = true
  sets : (F.extSetL, F.extSetR) ≠ (F.intSetL, F.intSetR)

theorem foldOK_of_bool {F : EFormat} (h : foldOKB F = true) : FoldOK F := by
  simp only [foldOKB, Bool.and_eq_true, decide_eq_true_eq] at h
  exact ⟨h.1.1.1, h.1.1.2, h.1.2, h.2⟩

theorem noPh_toList' : ∀ ts : Terms, noPh ts = true → Props.C10.noPlaceholder ts.toList
  | .nil, _ => by intro t ht; simp [Terms.toList] at ht
  | .cons t ts, h => by
    simp only [noPh, Bool.and_eq_true] at h
    intro x hx
    simp only [Terms.toList, List.mem_cons] at hx
    rcases hx with rfl | hx
    · intro he; subst he; simp at h
    · exact noPh_toList' ts h.2 x hx

section
variable {F : EFormat} (hO : FoldOK F)
include hO

theorem foldAtom_hit (pre : Str) (hd : AtomHead) (name : Str) (h : (pre, hd) ∈ F.foldAtomTable) :
    F.foldAtom pre name = buildAtom hd name := by
  have := hits_spec hO.atoms h
  simp only at this
  simp [foldAtom, this]

theorem foldCompound_hit (conn : Str) (ck : ConnK) (ts : List Term) (h : (conn, ck) ∈ F.foldConnTable) :
    F.foldCompound conn ts = buildCompound ck ts := by
  have := hits_spec hO.conns h
  simp only at this
  simp [foldCompound, this]

theorem foldStatement_hit (cop : Str) (ck : CopK) (s p : Term) (h : (cop, ck) ∈ F.copulaTable) :
    F.foldStatement cop s p = .ok (ck.build s p) := by
  have := hits_spec hO.cops h
  simp only at this
  simp [foldStatement, this]

theorem foldSet_ext (ts : List Term) :
    F.foldSet F.extSetL F.extSetR ts = .ok (.setlike .extSet (Terms.ofList (mkSetSem ts))) := by
  simp [foldSet, List.find?]

theorem foldSet_int (ts : List Term) :
    F.foldSet F.intSetL F.intSetR ts = .ok (.setlike .intSet (Terms.ofList (mkSetSem ts))) := by
  have : ¬ ((F.intSetL, F.intSetR) = (F.extSetL, F.extSetR)) := fun h => hO.sets h.symm
  simp only [foldSet, List.find?, this, decide_false, decide_true]

mutual
  theorem fold_toLex : ∀ t : Term, wfT F t = true → F.foldTerm (toLex F t) = .ok t
    | .atom k n, _ => by
      have h : (F.atomPrefix k, AtomHead.named k) ∈ F.foldAtomTable := by
        cases k <;> simp [foldAtomTable, atomPrefix]
      simp only [toLex, foldTerm, foldAtom_hit hO _ _ n h, buildAtom]
    | .placeholder, _ => by
      have h : (F.prePlaceholder, AtomHead.placeholder) ∈ F.foldAtomTable := by simp [foldAtomTable]
      simp only [toLex, foldTerm, foldAtom_hit hO _ _ _ h, buildAtom]
    | .interval n, ht => by
      have h : (F.preInterval, AtomHead.interval) ∈ F.foldAtomTable := by simp [foldAtomTable]
      simp only [wfT, decide_eq_true_eq] at ht
      simp only [toLex, foldTerm, foldAtom_hit hO _ _ _ h, buildAtom, parseUsize_showNat n ht]
    | .setlike k ts, ht => by
      simp only [wfT, Bool.and_eq_true] at ht
      obtain ⟨⟨_, hwf⟩, hnd⟩ := ht
      have hset : mkSetSem ts.toList = ts.toList := mkSetSem_nodup_id _ hnd
      have hts := folds_toLex ts hwf
      cases k with
      | extSet => simp only [toLex, EFormat.setBrackets, foldTerm, hts, foldSet_ext hO, hset, Terms.ofList_toList]
      | intSet => simp only [toLex, EFormat.setBrackets, foldTerm, hts, foldSet_int hO, hset, Terms.ofList_toList]
      | extInt =>
        have h : (F.cExtInt, ConnK.set .extInt) ∈ F.foldConnTable := by simp [foldConnTable]
        simp only [toLex, EFormat.setBrackets, setConnecter, foldTerm, hts, foldCompound_hit hO _ _ _ h, buildCompound,
          hset, Terms.ofList_toList]
      | intInt =>
        have h : (F.cIntInt, ConnK.set .intInt) ∈ F.foldConnTable := by simp [foldConnTable]
        simp only [toLex, EFormat.setBrackets, setConnecter, foldTerm, hts, foldCompound_hit hO _ _ _ h, buildCompound,
          hset, Terms.ofList_toList]
      | conj =>
        have h : (F.cConj, ConnK.set .conj) ∈ F.foldConnTable := by simp [foldConnTable]
        simp only [toLex, EFormat.setBrackets, setConnecter, foldTerm, hts, foldCompound_hit hO _ _ _ h, buildCompound,
          hset, Terms.ofList_toList]
      | disj =>
        have h : (F.cDisj, ConnK.set .disj) ∈ F.foldConnTable := by simp [foldConnTable]
        simp only [toLex, EFormat.setBrackets, setConnecter, foldTerm, hts, foldCompound_hit hO _ _ _ h, buildCompound,
          hset, Terms.ofList_toList]
      | parConj =>
        have h : (F.cParConj, ConnK.set .parConj) ∈ F.foldConnTable := by simp [foldConnTable]
        simp only [toLex, EFormat.setBrackets, setConnecter, foldTerm, hts, foldCompound_hit hO _ _ _ h, buildCompound,
          hset, Terms.ofList_toList]
    | .seqlike k ts, ht => by
      simp only [wfT, Bool.and_eq_true] at ht
      have hts := folds_toLex ts ht.2
      cases k with
      | product =>
        have h : (F.cProduct, ConnK.seq .product) ∈ F.foldConnTable := by simp [foldConnTable]
        simp only [toLex, seqConnecter, foldTerm, hts, foldCompound_hit hO _ _ _ h, buildCompound, Terms.ofList_toList]
      | seqConj =>
        have h : (F.cSeqConj, ConnK.seq .seqConj) ∈ F.foldConnTable := by simp [foldConnTable]
        simp only [toLex, seqConnecter, foldTerm, hts, foldCompound_hit hO _ _ _ h, buildCompound, Terms.ofList_toList]
    | .image k i ts, ht => by
      simp only [wfT, Bool.and_eq_true, decide_eq_true_eq] at ht
      obtain ⟨⟨hi, hwf⟩, hnp⟩ := ht
      have hil : i ≤ ts.toList.length := by simpa [Terms.length_toList] using hi
      have hts := foldImage_toLex i 0 ts hwf
      have hiter : imageIter i 0 ts.toList = ts.toList.take i ++ .placeholder :: ts.toList.drop i := by
        rw [Props.C14.imageIterator_eq_insert i ts.toList hil]; simp
      have hb := (Props.C10.image_both_pipelines k (ts.toList.take i) (ts.toList.drop i)
        (fun t ht => noPh_toList' ts hnp t (List.mem_of_mem_take ht))).1
      rw [← hiter] at hb
      have hlen : (ts.toList.take i).length = i := by simp [hil]
      rw [hlen, List.take_append_drop, Terms.ofList_toList] at hb
      cases k with
      | ext =>
        have h : (F.cExtImg, ConnK.img .ext) ∈ F.foldConnTable := by simp [foldConnTable]
        simp only [toLex, imgConnecter, foldTerm, hts, foldCompound_hit hO _ _ _ h, hb]
      | int =>
        have h : (F.cIntImg, ConnK.img .int) ∈ F.foldConnTable := by simp [foldConnTable]
        simp only [toLex, imgConnecter, foldTerm, hts, foldCompound_hit hO _ _ _ h, hb]
    | .neg t, ht => by
      simp only [wfT] at ht
      have h : (F.cNeg, ConnK.neg) ∈ F.foldConnTable := by simp [foldConnTable]
      simp only [toLex, foldTerm, foldTerms, fold_toLex t ht, foldCompound_hit hO _ _ _ h, buildCompound]
    | .bin k a b, ht => by
      simp only [wfT, Bool.and_eq_true] at ht
      have ha := fold_toLex a ht.1
      have hb := fold_toLex b ht.2
      have diff : ∀ conn, (conn, ConnK.diff k) ∈ F.foldConnTable →
          F.foldTerm (.compound conn (.cons (toLex F a) (.cons (toLex F b) .nil))) = .ok (.bin k a b) := by
        intro conn h
        simp only [foldTerm, foldTerms, ha, hb, foldCompound_hit hO _ _ _ h, buildCompound]
      have stmt : ∀ cop, (cop, CopK.plain k) ∈ F.copulaTable →
          F.foldTerm (.stmt cop (toLex F a) (toLex F b)) = .ok (.bin k a b) := by
        intro cop h
        simp only [foldTerm, ha, hb, foldStatement_hit hO _ _ _ _ h, CopK.build]
      cases k with
      | extDiff => simpa [toLex, BinK.isStatement, binKeyword] using diff _ (by simp [foldConnTable])
      | intDiff => simpa [toLex, BinK.isStatement, binKeyword] using diff _ (by simp [foldConnTable])
      | inh => simpa [toLex, BinK.isStatement, binKeyword] using stmt _ (by simp [copulaTable])
      | sim => simpa [toLex, BinK.isStatement, binKeyword] using stmt _ (by simp [copulaTable])
      | impl => simpa [toLex, BinK.isStatement, binKeyword] using stmt _ (by simp [copulaTable])
      | equiv => simpa [toLex, BinK.isStatement, binKeyword] using stmt _ (by simp [copulaTable])
      | implPred => simpa [toLex, BinK.isStatement, binKeyword] using stmt _ (by simp [copulaTable])
      | implConc => simpa [toLex, BinK.isStatement, binKeyword] using stmt _ (by simp [copulaTable])
      | implRetro => simpa [toLex, BinK.isStatement, binKeyword] using stmt _ (by simp [copulaTable])
      | equivPred => simpa [toLex, BinK.isStatement, binKeyword] using stmt _ (by simp [copulaTable])
      | equivConc => simpa [toLex, BinK.isStatement, binKeyword] using stmt _ (by simp [copulaTable])
  theorem folds_toLex : ∀ ts : Terms, wfTs F ts = true → F.foldTerms (toLexs F ts) = .ok ts.toList
    | .nil, _ => by simp [toLexs, foldTerms, Terms.toList]
    | .cons t ts, h => by
      simp only [wfTs, Bool.and_eq_true] at h
      simp only [toLexs, foldTerms, fold_toLex t h.1, folds_toLex ts h.2, Terms.toList]
  theorem foldImage_toLex (idx : Nat) : ∀ (now : Nat) (ts : Terms), wfTs F ts = true →
      F.foldTerms (toLexImage F idx now ts) = .ok (imageIter idx now ts.toList)
    | now, .nil, _ => by
      have h : (F.prePlaceholder, AtomHead.placeholder) ∈ F.foldAtomTable := by simp [foldAtomTable]
      simp only [toLexImage, imageIter, Terms.toList]
      split
      · simp only [foldTerms, foldTerm, foldAtom_hit hO _ _ _ h, buildAtom]
      · simp only [foldTerms]
    | now, .cons t ts, hwf => by
      have h : (F.prePlaceholder, AtomHead.placeholder) ∈ F.foldAtomTable := by simp [foldAtomTable]
      simp only [wfTs, Bool.and_eq_true] at hwf
      simp only [toLexImage, imageIter, Terms.toList]
      split
      · simp only [foldTerms, foldTerm, foldAtom_hit hO _ _ _ h, buildAtom, fold_toLex t hwf.1,
          foldImage_toLex idx (now + 2) ts hwf.2]
      · simp only [foldTerms, fold_toLex t hwf.1, foldImage_toLex idx (now + 1) ts hwf.2]
end

end

end Narsese
