/-
  C03, part 1: the lexical image of an enum value (`toLex`), and the fact that the enum formatter prints
  exactly what the lexical formatter prints for the image (terms: character for character; sentences and
  tasks: up to the formatting spaces, which `idealize_env` deletes).
-/
import Proofs.LRT.Bool
import Proofs.RT.Top
set_option autoImplicit false

namespace Narsese
open EFormat

/-- the two format records use the same brackets, separators and spaces in their templates -/
def agreeB (F : EFormat) (L : LFormat) : Bool :=
  (L.compL == F.compL && L.compR == F.compR && L.separator == F.separator) &&
  (L.stmtL == F.stmtL && L.stmtR == F.stmtR) &&
  (L.truthL == F.truthL && L.truthR == F.truthR && L.truthSep == F.truthSep) &&
  (L.budgetL == F.budgetL && L.budgetR == F.budgetR && L.budgetSep == F.budgetSep) &&
  (L.spaceTerms == F.spaceTerms && L.spaceItems == F.spaceItems)

structure Agree (F : EFormat) (L : LFormat) : Prop where
  compL : L.compL = F.compL
  compR : L.compR = F.compR
  separator : L.separator = F.separator
  stmtL : L.stmtL = F.stmtL
  stmtR : L.stmtR = F.stmtR
  truthL : L.truthL = F.truthL
  truthR : L.truthR = F.truthR
  truthSep : L.truthSep = F.truthSep
  budgetL : L.budgetL = F.budgetL
  budgetR : L.budgetR = F.budgetR
  budgetSep : L.budgetSep = F.budgetSep
  spaceTerms : L.spaceTerms = F.spaceTerms
  spaceItems : L.spaceItems = F.spaceItems

theorem agree_of_bool {F : EFormat} {L : LFormat} (h : agreeB F L = true) : Agree F L := by
  simp only [agreeB, Bool.and_eq_true, beq_iff_eq] at h
  obtain ⟨⟨⟨⟨⟨⟨a1, a2⟩, a3⟩, ⟨a4, a5⟩⟩, ⟨⟨a6, a7⟩, a8⟩⟩, ⟨⟨a9, a10⟩, a11⟩⟩, ⟨a12, a13⟩⟩ := h
  exact ⟨a1, a2, a3, a4, a5, a6, a7, a8, a9, a10, a11, a12, a13⟩

mutual
  /-- the lexical term the enum formatter's output denotes -/
  def toLex (F : EFormat) : Term → LTerm
    | .atom k n => .atom (F.atomPrefix k) n
    | .placeholder => .atom F.prePlaceholder []
    | .interval n => .atom F.preInterval (showNat n)
    | .setlike k ts =>
      match F.setBrackets k with
      | some (l, r) => .set l (toLexs F ts) r
      | none => .compound (F.setConnecter k) (toLexs F ts)
    | .seqlike k ts => .compound (F.seqConnecter k) (toLexs F ts)
    | .image k i ts => .compound (F.imgConnecter k) (toLexImage F i 0 ts)
    | .neg t => .compound F.cNeg (.cons (toLex F t) .nil)
    | .bin k a b =>
      if k.isStatement then .stmt (F.binKeyword k) (toLex F a) (toLex F b)
      else .compound (F.binKeyword k) (.cons (toLex F a) (.cons (toLex F b) .nil))
  def toLexs (F : EFormat) : Terms → LTerms
    | .nil => .nil
    | .cons t ts => .cons (toLex F t) (toLexs F ts)
  def toLexImage (F : EFormat) (idx : Nat) : Nat → Terms → LTerms
    | now, .nil => if now = idx then .cons (.atom F.prePlaceholder []) .nil else .nil
    | now, .cons t ts =>
      if now = idx then .cons (.atom F.prePlaceholder []) (.cons (toLex F t) (toLexImage F idx (now + 2) ts))
      else .cons (toLex F t) (toLexImage F idx (now + 1) ts)
end

def toLexStamp (F : EFormat) (s : Stamp) : Str := F.fmtStamp s
def toLexTruth (t : Truth) : List Str := t.components.map (·.text)
def toLexBudget (b : Budget) : List Str := b.components.map (·.text)

def toLexSentence (F : EFormat) (s : Sentence) : LSentence :=
  { term := toLex F s.term, punct := F.fmtPunct s.punct, stamp := F.fmtStamp s.stamp,
    truth := toLexTruth s.truthOrEmpty }

def toLexN (F : EFormat) : Narsese → LNarsese
  | .term t => .term (toLex F t)
  | .sentence s => .sentence (toLexSentence F s)
  | .task k => .task { budget := toLexBudget k.budget, sentence := toLexSentence F k.sentence }

section
variable {F : EFormat} {L : LFormat} (hA : Agree F L)
include hA

theorem lex_tplCompound (conn : Str) (cs : List Str) :
    L.compL ++ conn ++ L.separator ++ L.spaceTerms ++ L.joinComponents cs ++ L.compR = F.tplCompound conn cs := by
  simp only [tplCompound, EFormat.joinComponents, LFormat.joinComponents, hA.compL, hA.compR, hA.separator,
    hA.spaceTerms]

mutual
  theorem fmt_toLex : ∀ t : Term, L.fmtTerm (toLex F t) = F.fmtTerm t
    | .atom k n => by simp [toLex, LFormat.fmtTerm, EFormat.fmtTerm]
    | .placeholder => by simp [toLex, LFormat.fmtTerm, EFormat.fmtTerm]
    | .interval n => by simp [toLex, LFormat.fmtTerm, EFormat.fmtTerm]
    | .setlike k ts => by
      simp only [toLex, EFormat.fmtTerm]
      cases hb : F.setBrackets k with
      | some p =>
        obtain ⟨l, r⟩ := p
        simp only [LFormat.fmtTerm, fmts_toLex ts, tplSet, EFormat.joinComponents, LFormat.joinComponents,
          hA.separator, hA.spaceTerms]
      | none =>
        simp only [LFormat.fmtTerm, fmts_toLex ts]
        exact lex_tplCompound hA _ _
    | .seqlike k ts => by
      simp only [toLex, EFormat.fmtTerm, LFormat.fmtTerm, fmts_toLex ts]
      exact lex_tplCompound hA _ _
    | .image k i ts => by
      simp only [toLex, EFormat.fmtTerm, LFormat.fmtTerm, fmtImage_toLex i 0 ts]
      exact lex_tplCompound hA _ _
    | .neg t => by
      simp only [toLex, EFormat.fmtTerm, LFormat.fmtTerm, LFormat.fmtTerms, fmt_toLex t]
      exact lex_tplCompound hA _ _
    | .bin k a b => by
      simp only [toLex, EFormat.fmtTerm]
      split
      · simp only [LFormat.fmtTerm, fmt_toLex a, fmt_toLex b, tplStatement, hA.stmtL, hA.stmtR, hA.spaceTerms]
      · simp only [LFormat.fmtTerm, LFormat.fmtTerms, fmt_toLex a, fmt_toLex b]
        exact lex_tplCompound hA _ _
  theorem fmts_toLex : ∀ ts : Terms, LFormat.fmtTerms L (toLexs F ts) = EFormat.fmtTerms F ts
    | .nil => by simp [toLexs, LFormat.fmtTerms, EFormat.fmtTerms]
    | .cons t ts => by simp [toLexs, LFormat.fmtTerms, EFormat.fmtTerms, fmt_toLex t, fmts_toLex ts]
  theorem fmtImage_toLex (idx : Nat) : ∀ (now : Nat) (ts : Terms),
      LFormat.fmtTerms L (toLexImage F idx now ts) = EFormat.fmtImage F idx now ts
    | now, .nil => by
      simp only [toLexImage, EFormat.fmtImage]
      split <;> simp [LFormat.fmtTerms, LFormat.fmtTerm]
    | now, .cons t ts => by
      simp only [toLexImage, EFormat.fmtImage]
      split
      · simp [LFormat.fmtTerms, LFormat.fmtTerm, fmt_toLex t, fmtImage_toLex idx (now + 2) ts]
      · simp [LFormat.fmtTerms, fmt_toLex t, fmtImage_toLex idx (now + 1) ts]
end

end

end Narsese
