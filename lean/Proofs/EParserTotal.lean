/-
  The term parser of the enum model never panics, always makes progress, and never runs out of fuel
  when given `3·|rest| + 2` units (the termination proof of `parse_term` / `parse_compound_terms`).
-/
import Proofs.CursorLemmas
set_option autoImplicit false

namespace Narsese
open EFormat

/-- the keywords whose emptiness would let a loop of the Rust parser spin without consuming input -/
structure Sane (F : EFormat) : Prop where
  space_ne : F.spaceParse ≠ []
  sep_ne : F.separator ≠ []
  extSetL_ne : F.extSetL ≠ []
  intSetL_ne : F.intSetL ≠ []
  compL_ne : F.compL ≠ []
  stmtL_ne : F.stmtL ≠ []
  ph_ne : F.prePlaceholder ≠ []

/-- no panic; on success the cursor moved (strictly if `strict`); with `bound ≤ fuel` no fuel exhaustion -/
def Good {α : Type} (c : Cur) (r : PRes (α × Cur)) (strict : Bool) (bound fuel : Nat) : Prop :=
  r ≠ .panic ∧
  (∀ a c', r = .ok (a, c') → (if strict then c'.n < c.n else c'.n ≤ c.n)) ∧
  (bound ≤ fuel → r ≠ .fuel)

theorem good_raise {α : Type} (c c0 : Cur) (strict : Bool) (bound fuel : Nat) :
    Good (α := α) c (raise c0) strict bound fuel := by
  simp [Good, Props.C04.raise_never_panics]

theorem ne_nil_length {α : Type} {l : List α} (h : l ≠ []) : 1 ≤ l.length := by
  cases l with
  | nil => exact absurd rfl h
  | cons a as => simp

theorem parseAtom_good (F : EFormat) (hs : Sane F) (c : Cur) (bound fuel : Nat) :
    Good c (F.parseAtom c) true bound fuel := by
  unfold parseAtom
  cases hf : F.atomHeads.find? (fun p => c.startsWith p.1) with
  | none => exact good_raise c c true bound fuel
  | some e =>
    obtain ⟨pre, hd⟩ := e
    have hsw : c.startsWith pre = true := by
      have := List.find?_some hf; simpa using this
    have hmem := List.mem_of_find?_eq_some hf
    have hlen := (startsWith_length c pre hsw).1
    have hc1 : (c.skip pre).n = c.n - pre.length := skip_n c pre
    have hscan := scanName_length F (c.skip pre).rest
    simp only
    generalize hsn : F.scanName (c.skip pre).rest = sn at hscan
    obtain ⟨name, rest'⟩ := sn
    simp only at hscan ⊢
    have hn2 : rest'.length + name.length = c.n - pre.length := by
      have : (c.skip pre).rest.length = c.n - pre.length := hc1
      omega
    cases hd with
    | placeholder =>
      have hpre : pre = F.prePlaceholder := by
        simp only [atomHeads, List.mem_cons, List.mem_nil_iff, or_false, Prod.mk.injEq] at hmem
        rcases hmem with h | h | h | h | h | h | h <;> simp_all
      have : 1 ≤ pre.length := by rw [hpre]; exact ne_nil_length hs.ph_ne
      refine ⟨by simp, ?_, by simp⟩
      intro a c' h
      simp only [PRes.ok.injEq, Prod.mk.injEq] at h
      simp only [if_true, ← h.2, Cur.n]
      simp only [Cur.n] at hn2 hlen
      omega
    | interval =>
      simp only
      split
      · exact good_raise _ _ _ _ _
      · next hne =>
        have : 1 ≤ name.length := by
          cases name with
          | nil => simp at hne
          | cons x xs => simp
        split
        · refine ⟨by simp, ?_, by simp⟩
          intro a c' h
          simp only [PRes.ok.injEq, Prod.mk.injEq] at h
          simp only [if_true, ← h.2, Cur.n]
          simp only [Cur.n] at hn2 hlen
          omega
        · exact good_raise _ _ _ _ _
    | named k =>
      simp only
      split
      · exact good_raise _ _ _ _ _
      · next hne =>
        have : 1 ≤ name.length := by
          cases name with
          | nil => simp at hne
          | cons x xs => simp
        refine ⟨by simp, ?_, by simp⟩
        intro a c' h
        simp only [PRes.ok.injEq, Prod.mk.injEq] at h
        simp only [if_true, ← h.2, Cur.n]
        simp only [Cur.n] at hn2 hlen
        omega

/-- after a keyword that was matched (non-empty) and optional spaces, at least one char is gone -/
theorem skipAndSpaces_lt (F : EFormat) (c : Cur) (k : Str) (hk : k ≠ []) (hsw : c.startsWith k = true) :
    (F.skipAndSpaces c k).n + 1 ≤ c.n := by
  have h1 := skipAndSpaces_n F c k
  have h2 := (startsWith_length c k hsw).1
  have h3 := ne_nil_length hk
  omega

theorem skip_lt (c : Cur) (k : Str) (hk : k ≠ []) (hsw : c.startsWith k = true) : (c.skip k).n + 1 ≤ c.n := by
  have h1 := skip_n c k
  have h2 := (startsWith_length c k hsw).1
  have h3 := ne_nil_length hk
  omega

/-- the tail of `parse_compound` only raises or finishes at/after the cursor it is given -/
theorem finishCompound_good (F : EFormat) (c : Cur) (ck : ConnK) (ts : List Term) (c3 : Cur) (h3 : c3.n + 1 ≤ c.n)
    (bound fuel : Nat) : Good c (F.finishCompound ck ts c3) true bound fuel := by
  have fin_good : ∀ (t : Term), Good c (PRes.ok (t, F.skipAfterSpaces c3 F.compR)) true bound fuel := by
    intro t
    refine ⟨by simp, ?_, by simp⟩
    intro a c' h
    simp only [PRes.ok.injEq, Prod.mk.injEq] at h
    have := skipAfterSpaces_n F c3 F.compR
    simp only [if_true, ← h.2]
    omega
  unfold finishCompound
  cases ck with
  | operatorUnsupported => exact good_raise _ _ _ _ _
  | set k => exact fin_good _
  | seq k => exact fin_good _
  | img k =>
    simp only
    split
    · exact fin_good _
    · exact good_raise _ _ _ _ _
  | neg =>
    simp only
    split
    · exact fin_good _
    · exact good_raise _ _ _ _ _
  | diff k =>
    simp only
    split
    · exact fin_good _
    · exact good_raise _ _ _ _ _

mutual
  theorem parseTerm_good (F : EFormat) (hs : Sane F) : ∀ (fuel : Nat) (c : Cur),
      Good c (F.parseTerm fuel c) true (3 * c.n + 2) fuel
    | 0, c => by simp [parseTerm, Good]
    | fuel + 1, c => by
      unfold parseTerm
      split
      · next h =>
        have := parseTermSet_good F hs fuel .extSet F.extSetL F.extSetR c hs.extSetL_ne h
        exact ⟨this.1, this.2.1, fun hb => this.2.2 (by omega)⟩
      · split
        · next h =>
          have := parseTermSet_good F hs fuel .intSet F.intSetL F.intSetR c hs.intSetL_ne h
          exact ⟨this.1, this.2.1, fun hb => this.2.2 (by omega)⟩
        · split
          · next h =>
            have := parseCompound_good F hs fuel c h
            exact ⟨this.1, this.2.1, fun hb => this.2.2 (by omega)⟩
          · split
            · next h =>
              have := parseStatement_good F hs fuel c h
              exact ⟨this.1, this.2.1, fun hb => this.2.2 (by omega)⟩
            · exact parseAtom_good F hs c _ _

  theorem parseTerms_good (F : EFormat) (hs : Sane F) : ∀ (fuel : Nat) (rb : Str) (c : Cur) (acc : List Term),
      Good c (F.parseTerms fuel rb c acc) false (3 * c.n + 3) fuel
    | 0, rb, c, acc => by simp [parseTerms, Good]
    | fuel + 1, rb, c, acc => by
      unfold parseTerms
      split
      · refine ⟨by simp, ?_, by simp⟩
        intro a c' h; simp only [PRes.ok.injEq, Prod.mk.injEq] at h; simp [← h.2]
      · split
        · next hsw =>
          have ih := parseTerms_good F hs fuel rb (c.skip F.spaceParse) acc
          have hlt := skip_lt c F.spaceParse hs.space_ne hsw
          refine ⟨ih.1, ?_, fun hb => ih.2.2 (by omega)⟩
          intro a c' h
          have := ih.2.1 a c' h
          simp only [Bool.false_eq_true, if_false] at this ⊢
          omega
        · split
          · next hsw =>
            have ih := parseTerms_good F hs fuel rb (c.skip F.separator) acc
            have hlt := skip_lt c F.separator hs.sep_ne hsw
            refine ⟨ih.1, ?_, fun hb => ih.2.2 (by omega)⟩
            intro a c' h
            have := ih.2.1 a c' h
            simp only [Bool.false_eq_true, if_false] at this ⊢
            omega
          · split
            · refine ⟨by simp, ?_, by simp⟩
              intro a c' h; simp only [PRes.ok.injEq, Prod.mk.injEq] at h; simp [← h.2]
            · have it := parseTerm_good F hs fuel c
              cases hr : F.parseTerm fuel c with
              | ok p =>
                obtain ⟨t, c1⟩ := p
                have hlt := it.2.1 t c1 hr
                simp only [if_true] at hlt
                have ih := parseTerms_good F hs fuel rb c1 (acc ++ [t])
                simp only
                refine ⟨ih.1, ?_, fun hb => ih.2.2 (by omega)⟩
                intro a c' h
                have := ih.2.1 a c' h
                simp only [Bool.false_eq_true, if_false] at this ⊢
                omega
              | err h => simp [Good]
              | panic => exact absurd hr it.1
              | fuel =>
                simp only
                refine ⟨by simp, by simp, fun hb => ?_⟩
                exact absurd hr (it.2.2 (by omega))

  theorem parseTermSet_good (F : EFormat) (hs : Sane F) : ∀ (fuel : Nat) (k : SetK) (lb rb : Str) (c : Cur),
      lb ≠ [] → c.startsWith lb = true → Good c (F.parseTermSet fuel k lb rb c) true (3 * c.n + 1) fuel
    | 0, k, lb, rb, c, _, _ => by simp [parseTermSet, Good]
    | fuel + 1, k, lb, rb, c, hlb, hsw => by
      unfold parseTermSet
      have hlt := skipAndSpaces_lt F c lb hlb hsw
      have ih := parseTerms_good F hs fuel rb (F.skipAndSpaces c lb) []
      cases hr : F.parseTerms fuel rb (F.skipAndSpaces c lb) [] with
      | ok p =>
        obtain ⟨ts, c1⟩ := p
        have h1 := ih.2.1 ts c1 hr
        simp only [Bool.false_eq_true, if_false] at h1
        have h2 := skipAfterSpaces_n F c1 rb
        simp only
        split
        · exact good_raise _ _ _ _ _
        · refine ⟨by simp, ?_, by simp⟩
          intro a c' h
          simp only [PRes.ok.injEq, Prod.mk.injEq] at h
          simp only [if_true, ← h.2]
          omega
      | err h => simp [Good]
      | panic => exact absurd hr ih.1
      | fuel =>
        simp only
        refine ⟨by simp, by simp, fun hb => ?_⟩
        exact absurd hr (ih.2.2 (by omega))

  theorem parseCompound_good (F : EFormat) (hs : Sane F) : ∀ (fuel : Nat) (c : Cur),
      c.startsWith F.compL = true → Good c (F.parseCompound fuel c) true (3 * c.n + 1) fuel
    | 0, c, _ => by simp [parseCompound, Good]
    | fuel + 1, c, hsw => by
      unfold parseCompound
      have hlt := skipAndSpaces_lt F c F.compL hs.compL_ne hsw
      simp only
      cases hf : F.connecters.find? (fun p => (F.skipAndSpaces c F.compL).startsWith p.1) with
      | none => exact good_raise _ _ _ _ _
      | some e =>
        obtain ⟨kw, ck⟩ := e
        simp only
        have hc2 : ((F.skipAndSpaces c F.compL).skip kw).n ≤ (F.skipAndSpaces c F.compL).n := by
          rw [skip_n]; omega
        have ih := parseTerms_good F hs fuel F.compR ((F.skipAndSpaces c F.compL).skip kw) []
        split
        · exact good_raise _ _ _ _ _
        · cases hr : F.parseTerms fuel F.compR ((F.skipAndSpaces c F.compL).skip kw) [] with
          | ok p =>
            obtain ⟨ts, c3⟩ := p
            have h3 := ih.2.1 ts c3 hr
            simp only [Bool.false_eq_true, if_false] at h3
            simp only
            split
            · exact good_raise _ _ _ _ _
            · exact finishCompound_good F c ck ts c3 (by omega) _ _
          | err h => simp [Good]
          | panic => exact absurd hr ih.1
          | fuel => simp only; exact ⟨by simp, by simp, fun hb => absurd hr (ih.2.2 (by omega))⟩

  theorem parseStatement_good (F : EFormat) (hs : Sane F) : ∀ (fuel : Nat) (c : Cur),
      c.startsWith F.stmtL = true → Good c (F.parseStatement fuel c) true (3 * c.n + 1) fuel
    | 0, c, _ => by simp [parseStatement, Good]
    | fuel + 1, c, hsw => by
      unfold parseStatement
      have hlt := skipAndSpaces_lt F c F.stmtL hs.stmtL_ne hsw
      have it := parseTerm_good F hs fuel (F.skipAndSpaces c F.stmtL)
      cases hr : F.parseTerm fuel (F.skipAndSpaces c F.stmtL) with
      | ok p =>
        obtain ⟨subj, c1⟩ := p
        have h1 := it.2.1 subj c1 hr
        simp only [if_true] at h1
        simp only
        cases hf : F.copulaTable.find? (fun p => (F.skipSpaces c1).startsWith p.1) with
        | none => exact good_raise _ _ _ _ _
        | some e =>
          obtain ⟨kw, ck⟩ := e
          simp only
          have h2 : (F.skipSpaces ((F.skipSpaces c1).skip kw)).n ≤ c1.n := by
            have a := skipSpaces_n F ((F.skipSpaces c1).skip kw)
            have b := skip_n (F.skipSpaces c1) kw
            have d := skipSpaces_n F c1
            omega
          have it2 := parseTerm_good F hs fuel (F.skipSpaces ((F.skipSpaces c1).skip kw))
          cases hr2 : F.parseTerm fuel (F.skipSpaces ((F.skipSpaces c1).skip kw)) with
          | ok p2 =>
            obtain ⟨pred, c3⟩ := p2
            have h3 := it2.2.1 pred c3 hr2
            simp only [if_true] at h3
            simp only
            refine ⟨by simp, ?_, by simp⟩
            intro a c' h
            simp only [PRes.ok.injEq, Prod.mk.injEq] at h
            have := skipAfterSpaces_n F c3 F.stmtR
            simp only [if_true, ← h.2]
            omega
          | err h => simp [Good]
          | panic => exact absurd hr2 it2.1
          | fuel => simp only; exact ⟨by simp, by simp, fun hb => absurd hr2 (it2.2.2 (by omega))⟩
      | err h => simp [Good]
      | panic => exact absurd hr it.1
      | fuel => simp only; exact ⟨by simp, by simp, fun hb => absurd hr (it.2.2 (by omega))⟩
end

end Narsese
