/-
  C05 — totality of the lexical parser, part 1: term segmentation.
  For every input and every format whose three recursive openers are non-empty: no slice is out of
  range, every successful segmentation consumes at least one and at most `|env|` characters, and
  `3·|env| + 2` fuel is never exhausted.
-/
import NarseseModel.Lex
import Proofs.RT.Strings
set_option autoImplicit false

namespace Narsese
open LFormat

/-- the openers whose consumption drives the recursion are non-empty -/
structure LSane (L : LFormat) : Prop where
  compL_ne : L.compL ≠ []
  stmtL_ne : L.stmtL ≠ []
  sets_ne : ∀ p ∈ L.setBrackets, p.1 ≠ []

def lSaneB (L : LFormat) : Bool :=
  !L.compL.isEmpty && !L.stmtL.isEmpty && L.setBrackets.all (fun p => !p.1.isEmpty)

theorem lSane_of_bool (L : LFormat) (h : lSaneB L = true) : LSane L := by
  simp only [lSaneB, Bool.and_eq_true, Bool.not_eq_true', List.isEmpty_eq_false_iff, List.all_eq_true] at h
  exact ⟨h.1.1, h.1.2, fun p hp => h.2 p hp⟩

/-- no panic; a successful segmentation consumed `1 ≤ n ≤ |env|` characters; `bound` fuel suffices -/
def LGood (env : Str) (r : Res (LTerm × Nat)) (bound fuel : Nat) : Prop :=
  r ≠ .panic ∧ (∀ t n, r = .ok (t, n) → 1 ≤ n ∧ n ≤ env.length) ∧ (bound ≤ fuel → r ≠ .fuel)

/-- the component loop: the border only moves right and stays inside the input -/
def CGood (env : Str) (tb : Nat) (r : Res (List LTerm × Nat)) (fuel : Nat) : Prop :=
  r ≠ .panic ∧ (∀ ts b, r = .ok (ts, b) → tb ≤ b ∧ b ≤ env.length) ∧
  (3 * (env.length - tb) + 3 ≤ fuel → r ≠ .fuel)

theorem strip_eq_drop {k s r : Str} (h : strip k s = some r) : r = s.drop k.length := by
  rw [strip_some h]; simp

theorem matchPrefix_some {dict : List Str} {s k : Str} (h : matchPrefix dict s = some k) :
    k ∈ dict ∧ isPre k s = true := by
  unfold matchPrefix at h
  exact ⟨List.mem_of_find?_eq_some h, by simpa using List.find?_some h⟩

theorem matchPrefixPair_some {dict : List (Str × Str)} {s : Str} {p : Str × Str}
    (h : matchPrefixPair dict s = some p) : p ∈ dict ∧ isPre p.1 s = true := by
  unfold matchPrefixPair at h
  exact ⟨List.mem_of_find?_eq_some h, by simpa using List.find?_some h⟩

theorem scanIdent_le (L : LFormat) : ∀ s : Str, L.scanIdent s ≤ s.length
  | [] => by simp [scanIdent]
  | c :: cs => by
    unfold scanIdent
    split
    · have := scanIdent_le L cs; simp; omega
    · simp

theorem sliceFrom_ok (env : Str) (a : Nat) (h : a ≤ env.length) : sliceFrom env a = .ok (env.drop a) := by
  simp [sliceFrom, h]

theorem segAtom_good (L : LFormat) (env : Str) (bound fuel : Nat) : LGood env (L.segAtom env) bound fuel := by
  unfold segAtom
  cases hm : matchPrefix L.atomPrefixes env with
  | none => simp [LGood]
  | some pre =>
    obtain ⟨_, hp⟩ := matchPrefix_some hm
    have hl := isPre_length _ _ hp
    simp only
    split
    · simp [LGood]
    · next hne =>
      refine ⟨by simp, ?_, by simp⟩
      intro t n h
      simp only [Res.ok.injEq, Prod.mk.injEq] at h
      have hs := scanIdent_le L (env.drop pre.length)
      simp only [List.length_drop] at hs
      rw [← h.2]
      constructor
      · by_cases hp0 : pre = []
        · subst hp0
          have : L.scanIdent (env.drop ([] : Str).length) ≠ 0 := fun h0 => hne (by rw [h0]; rfl)
          omega
        · have := ne_nil_length' hp0; omega
      · omega
where
  ne_nil_length' {l : Str} (h : l ≠ []) : 1 ≤ l.length := by
    cases l with
    | nil => exact absurd rfl h
    | cons a as => simp

mutual
  theorem segTerm_good (L : LFormat) (hs : LSane L) : ∀ (fuel : Nat) (env : Str),
      LGood env (L.segTerm fuel env) (3 * env.length + 2) fuel
    | 0, env => by simp [segTerm, LGood]
    | fuel + 1, env => by
      unfold segTerm
      have h1 := segSet_good L hs fuel env
      cases hr1 : L.segSet fuel env with
      | ok r => simp only; exact ⟨by simp, fun t n h => h1.2.1 t n (by rw [hr1, h]), by simp⟩
      | panic => exact absurd hr1 h1.1
      | fuel => simp only; exact ⟨by simp, by simp, fun hb => absurd hr1 (h1.2.2 (by omega))⟩
      | err =>
        simp only
        have h2 := segCompound_good L hs fuel env
        cases hr2 : L.segCompound fuel env with
        | ok r => simp only; exact ⟨by simp, fun t n h => h2.2.1 t n (by rw [hr2, h]), by simp⟩
        | panic => exact absurd hr2 h2.1
        | fuel => simp only; exact ⟨by simp, by simp, fun hb => absurd hr2 (h2.2.2 (by omega))⟩
        | err =>
          simp only
          have h3 := segStatement_good L hs fuel env
          cases hr3 : L.segStatement fuel env with
          | ok r => simp only; exact ⟨by simp, fun t n h => h3.2.1 t n (by rw [hr3, h]), by simp⟩
          | panic => exact absurd hr3 h3.1
          | fuel => simp only; exact ⟨by simp, by simp, fun hb => absurd hr3 (h3.2.2 (by omega))⟩
          | err => simp only; exact segAtom_good L env _ _

  theorem segComponents_good (L : LFormat) (hs : LSane L) :
      ∀ (fuel : Nat) (right env : Str) (tb : Nat) (acc : List LTerm), tb ≤ env.length →
      CGood env tb (L.segComponents fuel right env tb acc) fuel
    | 0, right, env, tb, acc, _ => by simp [segComponents, CGood]
    | fuel + 1, right, env, tb, acc, htb => by
      unfold segComponents
      rw [sliceFrom_ok env tb htb]
      simp only
      split
      · next hp =>
        have := isPre_length _ _ hp
        simp only [List.length_drop] at this
        refine ⟨by simp, ?_, by simp⟩
        intro ts b h
        simp only [Res.ok.injEq, Prod.mk.injEq] at h
        omega
      · have htb' : (if isPre L.separator (env.drop tb) = true then tb + L.separator.length else tb) ≤ env.length := by
          split
          · next hp => have := isPre_length _ _ hp; simp only [List.length_drop] at this; omega
          · exact htb
        have hge : tb ≤ (if isPre L.separator (env.drop tb) = true then tb + L.separator.length else tb) := by
          split <;> omega
        generalize (if isPre L.separator (env.drop tb) = true then tb + L.separator.length else tb) = tb' at htb' hge
        rw [sliceFrom_ok env tb' htb']
        simp only
        have it := segTerm_good L hs fuel (env.drop tb')
        cases hr : L.segTerm fuel (env.drop tb') with
        | ok p =>
          obtain ⟨t, n⟩ := p
          have hn := it.2.1 t n hr
          simp only [List.length_drop] at hn
          have ih := segComponents_good L hs fuel right env (tb' + n) (acc ++ [t]) (by omega)
          simp only
          refine ⟨ih.1, ?_, fun hb => ih.2.2 (by omega)⟩
          intro ts b h
          have := ih.2.1 ts b h
          omega
        | err => simp [CGood]
        | panic => exact absurd hr it.1
        | fuel =>
          simp only
          refine ⟨by simp, by simp, fun hb => absurd hr (it.2.2 ?_)⟩
          simp only [List.length_drop]; omega

  theorem segSet_good (L : LFormat) (hs : LSane L) : ∀ (fuel : Nat) (env : Str),
      LGood env (L.segSet fuel env) (3 * env.length + 1) fuel
    | 0, env => by simp [segSet, LGood]
    | fuel + 1, env => by
      unfold segSet
      cases hm : matchPrefixPair L.setBrackets env with
      | none => simp [LGood]
      | some p =>
        obtain ⟨l, r⟩ := p
        obtain ⟨hmem, hp⟩ := matchPrefixPair_some hm
        have hl := isPre_length _ _ hp
        have hl1 : 1 ≤ l.length := by
          have := hs.sets_ne _ hmem
          cases l with
          | nil => exact absurd rfl this
          | cons a as => simp
        simp only at hl hp ⊢
        have it := segTerm_good L hs fuel (env.drop l.length)
        cases hr : L.segTerm fuel (env.drop l.length) with
        | ok q =>
          obtain ⟨t, n⟩ := q
          have hn := it.2.1 t n hr
          simp only [List.length_drop] at hn
          have ic := segComponents_good L hs fuel r env (l.length + n) [t] (by omega)
          simp only
          cases hc : L.segComponents fuel r env (l.length + n) [t] with
          | ok q2 =>
            obtain ⟨ts, border⟩ := q2
            have hb := ic.2.1 ts border hc
            simp only
            refine ⟨by simp, ?_, by simp⟩
            intro t' n' h
            simp only [Res.ok.injEq, Prod.mk.injEq] at h
            omega
          | err => simp [LGood]
          | panic => exact absurd hc ic.1
          | fuel => simp only; exact ⟨by simp, by simp, fun hb => absurd hc (ic.2.2 (by omega))⟩
        | err => simp [LGood]
        | panic => exact absurd hr it.1
        | fuel =>
          simp only
          refine ⟨by simp, by simp, fun hb => absurd hr (it.2.2 ?_)⟩
          simp only [List.length_drop]; omega

  theorem segCompound_good (L : LFormat) (hs : LSane L) : ∀ (fuel : Nat) (env : Str),
      LGood env (L.segCompound fuel env) (3 * env.length + 1) fuel
    | 0, env => by simp [segCompound, LGood]
    | fuel + 1, env => by
      unfold segCompound
      cases hst : strip L.compL env with
      | none => simp [LGood]
      | some afterL =>
        have hlen := strip_length _ _ _ hst
        have hl1 : 1 ≤ L.compL.length := by
          have := hs.compL_ne
          cases hc : L.compL with
          | nil => exact absurd hc this
          | cons a as => simp
        simp only
        cases hm : matchPrefix L.connecters afterL with
        | none => simp [LGood]
        | some conn =>
          obtain ⟨_, hp⟩ := matchPrefix_some hm
          have hcl := isPre_length _ _ hp
          have ic := segComponents_good L hs fuel L.compR env (L.compL.length + conn.length) [] (by omega)
          simp only
          cases hc : L.segComponents fuel L.compR env (L.compL.length + conn.length) [] with
          | ok q2 =>
            obtain ⟨ts, border⟩ := q2
            have hb := ic.2.1 ts border hc
            simp only
            refine ⟨by simp, ?_, by simp⟩
            intro t' n' h
            simp only [Res.ok.injEq, Prod.mk.injEq] at h
            omega
          | err => simp [LGood]
          | panic => exact absurd hc ic.1
          | fuel => simp only; exact ⟨by simp, by simp, fun hb => absurd hc (ic.2.2 (by omega))⟩

  theorem segStatement_good (L : LFormat) (hs : LSane L) : ∀ (fuel : Nat) (env : Str),
      LGood env (L.segStatement fuel env) (3 * env.length + 1) fuel
    | 0, env => by simp [segStatement, LGood]
    | fuel + 1, env => by
      unfold segStatement
      cases hst : strip L.stmtL env with
      | none => simp [LGood]
      | some afterL =>
        have hlen := strip_length _ _ _ hst
        have hdrop := strip_eq_drop hst
        have hl1 : 1 ≤ L.stmtL.length := by
          have := hs.stmtL_ne
          cases hc : L.stmtL with
          | nil => exact absurd hc this
          | cons a as => simp
        simp only
        have it := segTerm_good L hs fuel afterL
        cases hr : L.segTerm fuel afterL with
        | ok q =>
          obtain ⟨subj, n1⟩ := q
          have hn1 := it.2.1 subj n1 hr
          simp only
          rw [sliceFrom_ok env (L.stmtL.length + n1) (by omega)]
          simp only
          cases hm : matchPrefix L.copulas (env.drop (L.stmtL.length + n1)) with
          | none => simp [LGood]
          | some cop =>
            obtain ⟨_, hp⟩ := matchPrefix_some hm
            have hcl := isPre_length _ _ hp
            simp only [List.length_drop] at hcl
            simp only
            rw [sliceFrom_ok env (L.stmtL.length + n1 + cop.length) (by omega)]
            simp only
            have it2 := segTerm_good L hs fuel (env.drop (L.stmtL.length + n1 + cop.length))
            cases hr2 : L.segTerm fuel (env.drop (L.stmtL.length + n1 + cop.length)) with
            | ok q2 =>
              obtain ⟨pred, n2⟩ := q2
              have hn2 := it2.2.1 pred n2 hr2
              simp only [List.length_drop] at hn2
              simp only
              rw [sliceFrom_ok env (L.stmtL.length + n1 + cop.length + n2) (by omega)]
              simp only
              split
              · next hpr =>
                have := isPre_length _ _ hpr
                simp only [List.length_drop] at this
                refine ⟨by simp, ?_, by simp⟩
                intro t' n' h
                simp only [Res.ok.injEq, Prod.mk.injEq] at h
                omega
              · simp [LGood]
            | err => simp [LGood]
            | panic => exact absurd hr2 it2.1
            | fuel =>
              simp only
              refine ⟨by simp, by simp, fun hb => absurd hr2 (it2.2.2 ?_)⟩
              simp only [List.length_drop]; omega
        | err => simp [LGood]
        | panic => exact absurd hr it.1
        | fuel =>
          simp only
          exact ⟨by simp, by simp, fun hb => absurd hr (it.2.2 (by omega))⟩
end

/-- **`parse_term` (lexical) is total** -/
theorem lparseTerm_total (L : LFormat) (hs : LSane L) (input : Str) : (L.lparseTerm input).total = true := by
  unfold lparseTerm
  simp only
  have g := segTerm_good L hs (lexFuel (L.idealize input)) (L.idealize input)
  cases hr : L.segTerm (lexFuel (L.idealize input)) (L.idealize input) with
  | ok p => simp [Res.map, Res.total]
  | err => simp [Res.map, Res.total]
  | panic => exact absurd hr g.1
  | fuel => exact absurd hr (g.2.2 (by simp [lexFuel]; omega))

end Narsese
