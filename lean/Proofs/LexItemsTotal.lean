/-
  C05 — totality of the lexical parser, part 2: `parse_items` and the entry points.
  The only slice whose bounds are not obviously ordered is `env[begin_index..right_border]`: the budget
  is segmented from the left, truth / stamp / punctuation from the right, and Rust panics if they cross.
  They cannot cross when the last character of the budget's closing bracket occurs in none of the
  right-hand items (their brackets, their alphabets, the punctuation marks) — a decidable condition on
  the format (`lItemsSaneB`), true for the three shipped formats.
-/
import Proofs.LexTotal
set_option autoImplicit false

namespace Narsese
open LFormat

/-! ### prefix / suffix scanning -/

theorem isSuf_iff (k s : Str) : isSuf k s = true ↔ ∃ A, s = A ++ k := by
  unfold isSuf
  rw [isPre_iff]
  constructor
  · rintro ⟨r, hr⟩
    refine ⟨r.reverse, ?_⟩
    have := congrArg List.reverse hr
    simpa using this
  · rintro ⟨A, rfl⟩
    exact ⟨A.reverse, by simp⟩

theorem isSuf_length {k s : Str} (h : isSuf k s = true) : k.length ≤ s.length := by
  obtain ⟨A, rfl⟩ := (isSuf_iff k s).mp h
  simp

theorem scanToRight_spec (right : Str) (verify : Char → Bool) :
    ∀ (s : Str) (n : Nat), scanToRight right verify s = some n → n ≤ s.length ∧ ∃ A, s.take n = A ++ right
  | [], n, h => by simp [scanToRight] at h
  | c :: cs, n, h => by
    unfold scanToRight at h
    split at h
    · next hp =>
      obtain ⟨r, hr⟩ := (isPre_iff _ _).mp hp
      simp only [Option.some.injEq] at h
      subst h
      exact ⟨isPre_length _ _ hp, [], by rw [hr]; simp⟩
    · split at h
      · cases hrec : scanToRight right verify cs with
        | none => simp [hrec] at h
        | some m =>
          simp only [hrec, Option.map_some, Option.some.injEq] at h
          subst h
          obtain ⟨h1, A, hA⟩ := scanToRight_spec right verify cs m hrec
          exact ⟨by simp; omega, c :: A, by simp [hA]⟩
      · simp at h

theorem scanToLeft_spec (leftRev : Str) (verify : Char → Bool) :
    ∀ (s : Str) (n : Nat), scanToLeft leftRev verify s = some n →
      n ≤ s.length ∧ ∀ c ∈ s.take n, verify c = true ∨ c ∈ leftRev
  | [], n, h => by
    unfold scanToLeft at h
    split at h
    · simp only [Option.some.injEq] at h; subst h; simp
    · simp at h
  | c :: cs, n, h => by
    unfold scanToLeft at h
    split at h
    · next hp =>
      obtain ⟨r, hr⟩ := (isPre_iff _ _).mp hp
      simp only [Option.some.injEq] at h
      subst h
      refine ⟨isPre_length _ _ hp, ?_⟩
      intro x hx
      rw [hr] at hx
      simp at hx
      exact .inr hx
    · split at h
      · next hv =>
        cases hrec : scanToLeft leftRev verify cs with
        | none => simp [hrec] at h
        | some m =>
          simp only [hrec, Option.map_some, Option.some.injEq] at h
          subst h
          obtain ⟨h1, h2⟩ := scanToLeft_spec leftRev verify cs m hrec
          refine ⟨by simp; omega, ?_⟩
          intro x hx
          simp only [List.take_succ_cons, List.mem_cons] at hx
          rcases hx with rfl | hx
          · exact .inl hv
          · exact h2 x hx
      · simp at h

theorem take_add_append (l rest : Str) (n : Nat) : (l ++ rest).take (l.length + n) = l ++ rest.take n := by
  induction l with
  | nil => simp
  | cons a as ih =>
    simp only [List.cons_append, List.length_cons]
    rw [show as.length + 1 + n = (as.length + n) + 1 by omega, List.take_succ_cons, ih]

/-- the left item: its text is `l ++ A ++ r`, ending at `border ≤ |env|` -/
theorem segBracketsPrefix_spec (l r : Str) (verify : Char → Bool) (env txt : Str) (border : Nat)
    (h : segBracketsPrefix l r verify env = some (txt, border)) :
    border ≤ env.length ∧ ∃ A, env.take border = l ++ A ++ r := by
  unfold segBracketsPrefix at h
  cases hs : strip l env with
  | none => simp [hs] at h
  | some rest =>
    simp only [hs] at h
    cases hr : scanToRight r verify rest with
    | none => simp [hr] at h
    | some n =>
      simp only [hr, Option.some.injEq, Prod.mk.injEq] at h
      obtain ⟨h1, A, hA⟩ := scanToRight_spec r verify rest n hr
      have he := strip_some hs
      have hl := strip_length _ _ _ hs
      rw [← h.2]
      refine ⟨by omega, A, ?_⟩
      rw [he, take_add_append, hA, List.append_assoc]

/-- a right item: its left border is inside the input and its text consists of bracket characters and
verified characters only -/
theorem segBracketsSuffix_spec (l r : Str) (verify : Char → Bool) (env : Str) (hsuf : isSuf r env = true) :
    segBracketsSuffix l r verify env ≠ .panic ∧ segBracketsSuffix l r verify env ≠ .fuel ∧
    ∀ txt lb, segBracketsSuffix l r verify env = .ok (some (txt, lb)) →
      lb ≤ env.length ∧ ∀ c ∈ env.drop lb, c ∈ r ∨ verify c = true ∨ c ∈ l := by
  have hlen := isSuf_length hsuf
  obtain ⟨A, hA⟩ := (isSuf_iff r env).mp hsuf
  unfold segBracketsSuffix
  simp only [hlen, if_true]
  have hcontent : env.take (env.length - r.length) = A := by
    rw [hA]; simp
  rw [hcontent]
  cases hs : scanToLeft l.reverse verify A.reverse with
  | none => simp
  | some n =>
    obtain ⟨h1, h2⟩ := scanToLeft_spec l.reverse verify A.reverse n hs
    simp only [List.length_reverse] at h1
    refine ⟨by simp, by simp, ?_⟩
    intro txt lb h
    simp only [Res.ok.injEq, Option.some.injEq, Prod.mk.injEq] at h
    have hAl : A.length ≤ env.length := by rw [hA]; simp
    rw [← h.2]
    refine ⟨by omega, ?_⟩
    intro c hc
    rw [hA, List.drop_append_of_le_length (by omega)] at hc
    simp only [List.mem_append] at hc
    rcases hc with hc | hc
    · -- the scanned part of the content
      have : A.drop (A.length - n) = (A.reverse.take n).reverse := by
        rw [List.reverse_take]
        simp [h1]
      rw [this] at hc
      simp only [List.mem_reverse] at hc
      rcases h2 c hc with hv | hl
      · exact .inr (.inl hv)
      · exact .inr (.inr (by simpa using hl))
    · exact .inl hc

/-! ### the crossing argument -/

/-- if position `B-1` of `env` holds `z` and the suffix `env[lb..]` does not contain `z`, then `B ≤ lb` -/
theorem border_order (env P : Str) (z : Char) (B lb : Nat) (hBle : B ≤ env.length) (hP : env.take B = P ++ [z])
    (hfree : ∀ c ∈ env.drop lb, c ≠ z) : B ≤ lb := by
  apply Classical.byContradiction
  intro hlt
  have hB : B = P.length + 1 := by
    have := congrArg List.length hP
    simp only [List.length_take, List.length_append, List.length_singleton] at this
    omega
  have henv : env = (P ++ [z]) ++ env.drop B := by rw [← hP, List.take_append_drop]
  have hlb : lb ≤ P.length := by omega
  have : z ∈ env.drop lb := by
    rw [henv, List.append_assoc, List.drop_append_of_le_length hlb]
    simp
  exact hfree z this rfl

/-- decidable: the last character of the budget's closing bracket occurs in no right-hand item -/
def lItemsSaneB (L : LFormat) : Bool :=
  match L.budgetR.getLast? with
  | none => false
  | some z =>
    !L.truthL.contains z && !L.truthR.contains z && !inRanges L.isTruthTbl z &&
    L.stampBrackets.all (fun p => !p.1.contains z && !p.2.contains z) && !inRanges L.isStampTbl z &&
    L.punctuations.all (fun p => !p.contains z)

structure LItemsSane (L : LFormat) : Prop where
  term : LSane L
  items : lItemsSaneB L = true

theorem matchSuffix_some {dict : List Str} {s k : Str} (h : matchSuffix dict s = some k) :
    k ∈ dict ∧ isSuf k s = true := by
  unfold matchSuffix at h
  exact ⟨List.mem_of_find?_eq_some h, by simpa using List.find?_some h⟩

theorem matchSuffixPair_some {dict : List (Str × Str)} {s : Str} {p : Str × Str}
    (h : matchSuffixPair dict s = some p) : p ∈ dict ∧ isSuf p.2 s = true := by
  unfold matchSuffixPair at h
  exact ⟨List.mem_of_find?_eq_some h, by simpa using List.find?_some h⟩

theorem slice_ok (env : Str) (a b : Nat) (h1 : a ≤ b) (h2 : b ≤ env.length) :
    slice env a b = .ok ((env.take b).drop a) := by
  simp [slice, h1, h2]

/-- **`parse_items` never panics and never runs out of fuel** -/
theorem parseItems_total (L : LFormat) (hs : LItemsSane L) (env : Str) : (L.parseItems env).total = true := by
  have hz := hs.items
  unfold lItemsSaneB at hz
  cases hzl : L.budgetR.getLast? with
  | none => simp [hzl] at hz
  | some z =>
    simp only [hzl, Bool.and_eq_true, Bool.not_eq_true', List.all_eq_true, List.contains_eq_mem,
      decide_eq_false_iff_not] at hz
    obtain ⟨⟨⟨⟨⟨hz1, hz2⟩, hz3⟩, hz4⟩, hz5⟩, hz6⟩ := hz
    -- the budget's border: position B-1 holds z
    have hbud : ∀ xs B, L.segBudget env = some (xs, B) → B ≤ env.length ∧ ∃ P, env.take B = P ++ [z] := by
      intro xs B h
      unfold segBudget at h
      cases hb : segBracketsPrefix L.budgetL L.budgetR (inRanges L.isBudgetTbl) env with
      | none => simp [hb] at h
      | some p =>
        obtain ⟨txt, border⟩ := p
        simp only [hb, Option.map_some, Option.some.injEq, Prod.mk.injEq] at h
        obtain ⟨h1, A, hA⟩ := segBracketsPrefix_spec _ _ _ _ _ _ hb
        rw [← h.2]
        refine ⟨h1, ?_⟩
        obtain ⟨R', hR'⟩ : ∃ R', L.budgetR = R' ++ [z] := by
          have := List.getLast?_eq_some_iff.mp hzl
          obtain ⟨ys, hys⟩ := this
          exact ⟨ys, hys⟩
        exact ⟨L.budgetL ++ A ++ R', by rw [hA, hR']; simp [List.append_assoc]⟩
    unfold parseItems
    simp only
    -- truth
    have htruth : L.segTruth env ≠ .panic ∧ L.segTruth env ≠ .fuel ∧
        ∀ xs lb, L.segTruth env = .ok (some (xs, lb)) → lb ≤ env.length ∧ ∀ c ∈ env.drop lb, c ≠ z := by
      unfold segTruth
      split
      · next hsuf =>
        obtain ⟨h1, h2, h3⟩ := segBracketsSuffix_spec L.truthL L.truthR (inRanges L.isTruthTbl) env hsuf
        cases hr : segBracketsSuffix L.truthL L.truthR (inRanges L.isTruthTbl) env with
        | ok o =>
          refine ⟨by simp [Res.map], by simp [Res.map], ?_⟩
          intro xs lb h
          cases o with
          | none => simp [Res.map] at h
          | some p =>
            obtain ⟨txt, lb'⟩ := p
            simp only [Res.map, Option.map_some, Res.ok.injEq, Option.some.injEq, Prod.mk.injEq] at h
            obtain ⟨h4, h5⟩ := h3 txt lb' hr
            rw [← h.2]
            refine ⟨h4, ?_⟩
            intro c hc heq
            subst heq
            rcases h5 c hc with h | h | h
            · exact hz2 h
            · rw [hz3] at h; exact absurd h (by simp)
            · exact hz1 h
        | err => simp [Res.map]
        | panic => exact absurd hr h1
        | fuel => exact absurd hr h2
      · simp
    obtain ⟨ht1, ht2, ht3⟩ := htruth
    cases hrt : L.segTruth env with
    | panic => exact absurd hrt ht1
    | fuel => exact absurd hrt ht2
    | err => rfl
    | ok truth =>
      simp only
      -- right border after the truth
      have hrb1 : (truth.map (·.2)).getD env.length ≤ env.length ∧
          ∀ xs B, L.segBudget env = some (xs, B) → B ≤ (truth.map (·.2)).getD env.length := by
        cases truth with
        | none =>
          refine ⟨by simp, ?_⟩
          intro xs B h; simpa using (hbud xs B h).1
        | some p =>
          obtain ⟨xs', lb⟩ := p
          obtain ⟨h4, h5⟩ := ht3 xs' lb hrt
          refine ⟨by simpa using h4, ?_⟩
          intro xs B h
          obtain ⟨_, P, hP⟩ := hbud xs B h
          simpa using border_order env P z B lb (hbud xs B h).1 hP h5
      generalize (truth.map (·.2)).getD env.length = rb1 at hrb1
      obtain ⟨hrb1a, hrb1b⟩ := hrb1
      rw [slice_ok env 0 rb1 (Nat.zero_le _) hrb1a]
      simp only [List.drop_zero]
      -- stamp on e1 = env[..rb1]
      have he1len : (env.take rb1).length = rb1 := by simp [hrb1a]
      have hstamp : L.segStamp (env.take rb1) ≠ .panic ∧ L.segStamp (env.take rb1) ≠ .fuel ∧
          ∀ txt lb, L.segStamp (env.take rb1) = .ok (some (txt, lb)) →
            lb ≤ rb1 ∧ ∀ c ∈ (env.take rb1).drop lb, c ≠ z := by
        unfold segStamp
        cases hm : matchSuffixPair L.stampBrackets (env.take rb1) with
        | none => simp
        | some p =>
          obtain ⟨l, r⟩ := p
          obtain ⟨hmem, hsuf⟩ := matchSuffixPair_some hm
          obtain ⟨h1, h2, h3⟩ := segBracketsSuffix_spec l r (inRanges L.isStampTbl) (env.take rb1) hsuf
          refine ⟨h1, h2, ?_⟩
          intro txt lb h
          obtain ⟨h4, h5⟩ := h3 txt lb h
          rw [he1len] at h4
          refine ⟨h4, ?_⟩
          intro c hc heq
          subst heq
          have hzz := hz4 _ hmem
          rcases h5 c hc with h | h | h
          · exact hzz.2 h
          · rw [hz5] at h; exact absurd h (by simp)
          · exact hzz.1 h
      obtain ⟨hs1, hs2, hs3⟩ := hstamp
      cases hrs : L.segStamp (env.take rb1) with
      | panic => exact absurd hrs hs1
      | fuel => exact absurd hrs hs2
      | err => rfl
      | ok stamp =>
        simp only
        have hrb2 : (stamp.map (·.2)).getD rb1 ≤ rb1 ∧
            ∀ xs B, L.segBudget env = some (xs, B) → B ≤ (stamp.map (·.2)).getD rb1 := by
          cases stamp with
          | none => exact ⟨by simp, fun xs B h => by simpa using hrb1b xs B h⟩
          | some p =>
            obtain ⟨txt, lb⟩ := p
            obtain ⟨h4, h5⟩ := hs3 txt lb hrs
            refine ⟨by simpa using h4, ?_⟩
            intro xs B h
            obtain ⟨_, P, hP⟩ := hbud xs B h
            have hB1 := hrb1b xs B h
            have : (env.take rb1).take B = P ++ [z] := by
              rw [List.take_take, Nat.min_eq_left hB1]; exact hP
            simpa using border_order (env.take rb1) P z B lb (by rw [he1len]; exact hB1) this h5
        generalize (stamp.map (·.2)).getD rb1 = rb2 at hrb2
        obtain ⟨hrb2a, hrb2b⟩ := hrb2
        rw [slice_ok env 0 rb2 (Nat.zero_le _) (by omega)]
        simp only [List.drop_zero]
        have he2len : (env.take rb2).length = rb2 := by simp; omega
        -- punctuation on e2 = env[..rb2]
        have hrb3 : ((L.segPunct (env.take rb2)).map (·.2)).getD rb2 ≤ rb2 ∧
            ∀ xs B, L.segBudget env = some (xs, B) → B ≤ ((L.segPunct (env.take rb2)).map (·.2)).getD rb2 := by
          unfold segPunct
          cases hm : matchSuffix L.punctuations (env.take rb2) with
          | none => exact ⟨by simp, fun xs B h => by simpa using hrb2b xs B h⟩
          | some p =>
            obtain ⟨hmem, hsuf⟩ := matchSuffix_some hm
            obtain ⟨A, hA⟩ := (isSuf_iff _ _).mp hsuf
            simp only [Option.map_some, Option.getD_some, he2len]
            refine ⟨by omega, ?_⟩
            intro xs B h
            obtain ⟨_, P, hP⟩ := hbud xs B h
            have hB2 := hrb2b xs B h
            have htk : (env.take rb2).take B = P ++ [z] := by
              rw [List.take_take, Nat.min_eq_left hB2]; exact hP
            refine border_order (env.take rb2) P z B _ (by rw [he2len]; exact hB2) htk ?_
            intro c hc heq
            subst heq
            have hl : A.length = rb2 - p.length := by
              have := congrArg List.length hA
              simp only [List.length_append, he2len] at this
              omega
            rw [hA, ← hl, List.drop_left] at hc
            exact hz6 p hmem hc
        generalize ((L.segPunct (env.take rb2)).map (·.2)).getD rb2 = rb3 at hrb3
        obtain ⟨hrb3a, hrb3b⟩ := hrb3
        have hbegin : ((L.segBudget env).map (·.2)).getD 0 ≤ rb3 := by
          cases hb : L.segBudget env with
          | none => simp
          | some p => obtain ⟨xs, B⟩ := p; simpa using hrb3b xs B hb
        rw [slice_ok env _ rb3 hbegin (by omega)]
        simp only
        split
        · have g := segTerm_good L hs.term (lexFuel ((env.take rb3).drop (((L.segBudget env).map (·.2)).getD 0)))
            ((env.take rb3).drop (((L.segBudget env).map (·.2)).getD 0))
          cases hr : L.segTerm (lexFuel ((env.take rb3).drop (((L.segBudget env).map (·.2)).getD 0)))
              ((env.take rb3).drop (((L.segBudget env).map (·.2)).getD 0)) with
          | ok p => rfl
          | err => rfl
          | panic => exact absurd hr g.1
          | fuel => exact absurd hr (g.2.2 (by simp only [lexFuel]; omega))
        · rfl

/-- **`lparse_total`**: the lexical whole-value parser returns Ok or Err for every input -/
theorem lparse_total (L : LFormat) (hs : LItemsSane L) (input : Str) : (L.lparse input).total = true := by
  unfold lparse
  have := parseItems_total L hs (L.idealize input)
  cases hr : L.parseItems (L.idealize input) with
  | ok m => simp only; cases m.fold <;> rfl
  | err => rfl
  | panic => rw [hr] at this; exact absurd this (by simp [Res.total])
  | fuel => rw [hr] at this; exact absurd this (by simp [Res.total])

end Narsese
