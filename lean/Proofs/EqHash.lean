/-
  Hash feed respects `sem`, and the hash-set based `==` of the code coincides with `sem`
  on values as hash sets build them (`built`: set-like components are duplicate-free modulo `sem`).
-/
import Proofs.SemLemmas
set_option autoImplicit false

namespace Narsese

/-! ### wrapping sums -/

def sumW : List Nat → Nat
  | [] => 0
  | x :: xs => wrapAdd x (sumW xs)

theorem wrapAdd_comm (a b : Nat) : wrapAdd a b = wrapAdd b a := by simp [wrapAdd, Nat.add_comm]

theorem wrapAdd_assoc (a b c : Nat) : wrapAdd (wrapAdd a b) c = wrapAdd a (wrapAdd b c) := by
  simp only [wrapAdd, Nat.mod_add_mod, Nat.add_mod_mod, Nat.add_assoc]

theorem wrapAdd_left_comm (a b c : Nat) : wrapAdd a (wrapAdd b c) = wrapAdd b (wrapAdd a c) := by
  rw [← wrapAdd_assoc, wrapAdd_comm a b, wrapAdd_assoc]

theorem sumW_middle (l1 l2 : List Nat) (x : Nat) : sumW (l1 ++ x :: l2) = wrapAdd x (sumW (l1 ++ l2)) := by
  induction l1 with
  | nil => rfl
  | cons y ys ih => simp only [List.cons_append, sumW, ih, wrapAdd_left_comm]

/-! ### duplicate-free lists modulo a symmetric, transitive Boolean relation -/

section Pigeon
variable {α : Type} (r : α → α → Bool)

def NoDupR : List α → Prop
  | [] => True
  | a :: as => (∀ b ∈ as, r a b = false) ∧ NoDupR as

theorem NoDupR_remove (l1 l2 : List α) (b : α) (rsymm : ∀ x y, r x y = r y x) (h : NoDupR r (l1 ++ b :: l2)) :
    NoDupR r (l1 ++ l2) ∧ ∀ x ∈ l1 ++ l2, r b x = false := by
  induction l1 with
  | nil =>
    simp only [List.nil_append, NoDupR] at h ⊢
    exact ⟨h.2, h.1⟩
  | cons y ys ih =>
    simp only [List.cons_append, NoDupR] at h ⊢
    obtain ⟨ih1, ih2⟩ := ih h.2
    refine ⟨⟨fun x hx => h.1 x (by simp at hx ⊢; rcases hx with hx | hx <;> simp [hx]), ih1⟩, ?_⟩
    intro x hx
    simp only [List.mem_cons] at hx
    rcases hx with hx | hx
    · subst hx
      rw [rsymm]
      exact h.1 b (by simp)
    · exact ih2 x hx

/-- the core step: remove a matched pair and keep all hypotheses -/
theorem matched_step (rsymm : ∀ x y, r x y = r y x) (rtrans : ∀ x y z, r x y = true → r y z = true → r x z = true)
    (a : α) (as l1 l2 : List α) (b : α)
    (hda : NoDupR r (a :: as)) (hdb : NoDupR r (l1 ++ b :: l2)) (hab : r a b = true)
    (hin : ∀ x ∈ a :: as, ∃ y ∈ l1 ++ b :: l2, r x y = true) :
    NoDupR r (l1 ++ l2) ∧ (∀ x ∈ as, ∃ y ∈ l1 ++ l2, r x y = true) ∧
    ((∀ y ∈ l1 ++ b :: l2, ∃ x ∈ a :: as, r x y = true) → ∀ y ∈ l1 ++ l2, ∃ x ∈ as, r x y = true) := by
  obtain ⟨hd', hb'⟩ := NoDupR_remove r l1 l2 b rsymm hdb
  refine ⟨hd', ?_, ?_⟩
  · intro x hx
    obtain ⟨y, hy, hxy⟩ := hin x (by simp [hx])
    have hy' : y = b ∨ y ∈ l1 ++ l2 := by
      simp only [List.mem_append, List.mem_cons] at hy ⊢
      rcases hy with hy | hy | hy
      · exact .inr (.inl hy)
      · exact .inl hy
      · exact .inr (.inr hy)
    rcases hy' with hy' | hy'
    · subst hy'
      -- r x b and r a b ⇒ r a x, contradicting duplicate-freeness of a :: as
      have : r a x = true := rtrans a y x hab (by rw [rsymm]; exact hxy)
      have := hda.1 x hx
      simp_all
    · exact ⟨y, hy', hxy⟩
  · intro hsur y hy
    obtain ⟨x, hx, hxy⟩ := hsur y (by
      simp only [List.mem_append, List.mem_cons] at hy ⊢
      rcases hy with hy | hy
      · exact .inl hy
      · exact .inr (.inr hy))
    simp only [List.mem_cons] at hx
    rcases hx with hx | hx
    · subst hx
      -- r a y and r a b ⇒ r b y, contradicting duplicate-freeness of bs
      have : r b y = true := rtrans b x y (by rw [rsymm]; exact hab) hxy
      have := hb' y hy
      simp_all
    · exact ⟨x, hx, hxy⟩

/-- mutual inclusion of duplicate-free lists: same length, and any `r`-respecting valuation has the same wrapping sum -/
theorem mutual_incl_sum (rsymm : ∀ x y, r x y = r y x) (rtrans : ∀ x y z, r x y = true → r y z = true → r x z = true)
    (f : α → Nat) : ∀ (as bs : List α), NoDupR r as → NoDupR r bs →
    (∀ x ∈ as, ∃ y ∈ bs, r x y = true) → (∀ y ∈ bs, ∃ x ∈ as, r x y = true) →
    (∀ x ∈ as, ∀ y ∈ bs, r x y = true → f x = f y) →
    as.length = bs.length ∧ sumW (as.map f) = sumW (bs.map f)
  | [], bs, _, _, _, hsur, _ => by
    cases bs with
    | nil => exact ⟨rfl, rfl⟩
    | cons b bs => obtain ⟨x, hx, _⟩ := hsur b (by simp); simp at hx
  | a :: as, bs, hda, hdb, hin, hsur, hf => by
    obtain ⟨b, hb, hab⟩ := hin a (by simp)
    obtain ⟨l1, l2, hsplit⟩ := List.append_of_mem hb
    subst hsplit
    obtain ⟨hd', hin', hsur'⟩ := matched_step r rsymm rtrans a as l1 l2 b hda hdb hab hin
    have ih := mutual_incl_sum rsymm rtrans f as (l1 ++ l2) hda.2 hd' hin' (hsur' hsur)
      (fun x hx y hy => hf x (by simp [hx]) y (by
        simp only [List.mem_append, List.mem_cons] at hy ⊢
        rcases hy with hy | hy
        · exact .inl hy
        · exact .inr (.inr hy)))
    constructor
    · simp only [List.length_cons, List.length_append] at ih ⊢; omega
    · simp only [List.map_append, List.map_cons, sumW] at ih ⊢
      rw [sumW_middle, ← ih.2, hf a (by simp) b (by simp) hab]

/-- pigeonhole: an inclusion between duplicate-free lists of equal length is onto -/
theorem incl_onto (rsymm : ∀ x y, r x y = r y x) (rtrans : ∀ x y z, r x y = true → r y z = true → r x z = true) :
    ∀ (as bs : List α), NoDupR r as → NoDupR r bs → as.length = bs.length →
    (∀ x ∈ as, ∃ y ∈ bs, r x y = true) → ∀ y ∈ bs, ∃ x ∈ as, r x y = true
  | [], bs, _, _, hl, _ => by
    cases bs with
    | nil => simp
    | cons b bs => simp at hl
  | a :: as, bs, hda, hdb, hl, hin => by
    obtain ⟨b, hb, hab⟩ := hin a (by simp)
    obtain ⟨l1, l2, hsplit⟩ := List.append_of_mem hb
    subst hsplit
    obtain ⟨hd', hin', _⟩ := matched_step r rsymm rtrans a as l1 l2 b hda hdb hab hin
    have hl' : as.length = (l1 ++ l2).length := by
      simp only [List.length_cons, List.length_append] at hl ⊢; omega
    have ih := incl_onto rsymm rtrans as (l1 ++ l2) hda.2 hd' hl' hin'
    intro y hy
    simp only [List.mem_append, List.mem_cons] at hy
    rcases hy with hy | hy | hy
    · obtain ⟨x, hx, hxy⟩ := ih y (by simp [hy]); exact ⟨x, by simp [hx], hxy⟩
    · subst hy; exact ⟨a, by simp, hab⟩
    · obtain ⟨x, hx, hxy⟩ := ih y (by simp [hy]); exact ⟨x, by simp [hx], hxy⟩

end Pigeon

/-! ### values as hash sets build them -/

def nodupSem : List Term → Bool
  | [] => true
  | a :: as => as.all (fun b => !sem a b) && nodupSem as

mutual
  /-- every set-like component list is duplicate-free modulo `sem` (what `HashSet` insertion guarantees) -/
  def built : Term → Bool
    | .setlike _ ts => builts ts && nodupSem ts.toList
    | .seqlike _ ts | .image _ _ ts => builts ts
    | .neg t => built t
    | .bin _ a b => built a && built b
    | _ => true
  def builts : Terms → Bool
    | .nil => true
    | .cons t ts => built t && builts ts
end

theorem nodupSem_iff (l : List Term) : nodupSem l = true ↔ NoDupR sem l := by
  induction l with
  | nil => simp [nodupSem, NoDupR]
  | cons a as ih => simp [nodupSem, NoDupR, ih]

theorem builts_mem : ∀ (ts : Terms) (t : Term), builts ts = true → t ∈ ts.toList → built t = true
  | .nil, _, _, h => by simp [Terms.toList] at h
  | .cons a as, t, hb, h => by
    simp only [builts, Bool.and_eq_true] at hb
    simp only [Terms.toList, List.mem_cons] at h
    rcases h with h | h
    · rw [h]; exact hb.1
    · exact builts_mem as t hb.2 h

theorem feedSum_eq (h0 : List Tok → Nat) : ∀ ts : Terms, feedSum h0 ts = sumW (ts.toList.map (fun t => h0 (feed h0 t)))
  | .nil => rfl
  | .cons t ts => by simp [feedSum, Terms.toList, sumW, feedSum_eq h0 ts]

theorem feedCat_eq (h0 : List Tok → Nat) : ∀ ts : Terms, feedCat h0 ts = (ts.toList.map (feed h0)).flatten
  | .nil => rfl
  | .cons t ts => by simp [feedCat, Terms.toList, feedCat_eq h0 ts]

theorem all2_map_eq {α β : Type} {R : α → α → Prop} (f : α → β) : ∀ {as bs : List α},
    (∀ a ∈ as, ∀ b ∈ bs, R a b → f a = f b) → All2 R as bs → as.map f = bs.map f
  | _, _, _, .nil => rfl
  | _, _, h, .cons r rest => by
    simp only [List.map_cons]
    rw [h _ (by simp) _ (by simp) r, all2_map_eq f (fun a ha b hb => h a (by simp [ha]) b (by simp [hb])) rest]

theorem all2_mem_right {α β : Type} {R : α → β → Prop} : ∀ {as : List α} {bs : List β}, All2 R as bs →
    ∀ a ∈ as, ∃ b ∈ bs, R a b
  | _, _, .nil, _, h => by simp at h
  | _, _, .cons r rest, a, h => by
    simp only [List.mem_cons] at h
    rcases h with h | h
    · subst h; exact ⟨_, by simp, r⟩
    · obtain ⟨b, hb, hab⟩ := all2_mem_right rest a h; exact ⟨b, by simp [hb], hab⟩

mutual
  /-- **C07 core**: semantically equal (built) terms produce the same hasher input, for EVERY element hasher `h0` -/
  theorem feed_respects_sem (h0 : List Tok → Nat) : ∀ (a b : Term), built a = true → built b = true →
      sem a b = true → feed h0 a = feed h0 b
    | .atom k n, b, _, _, h => by
      cases b <;> simp [sem] at h
      simp [feed, h.2]
    | .placeholder, b, _, _, h => by cases b <;> simp [sem] at h; rfl
    | .interval n, b, _, _, h => by
      cases b <;> simp [sem] at h
      simp [feed, h]
    | .setlike k as, b, ha, hb, h => by
      cases b with
      | setlike k' bs =>
        rw [sem_set_iff] at h
        simp only [built, Bool.and_eq_true] at ha hb
        have key := mutual_incl_sum sem sem_symm sem_trans (fun t => h0 (feed h0 t)) as.toList bs.toList
          ((nodupSem_iff _).mp ha.2) ((nodupSem_iff _).mp hb.2) h.2.1 h.2.2
          (fun x hx y hy hxy => by
            have := feeds_respects_sem h0 as x hx y (builts_mem as x ha.1 hx) (builts_mem bs y hb.1 hy) hxy
            simp [this])
        simp only [feed, feedSum_eq, ← Terms.length_toList, key.1, key.2]
      | _ => simp [sem] at h
    | .seqlike k as, b, ha, hb, h => by
      cases b with
      | seqlike k' bs =>
        rw [sem_seq_iff] at h
        simp only [built] at ha hb
        simp only [feed, feedCat_eq]
        rw [all2_map_eq (feed h0) (fun x hx y hy hxy =>
          feeds_respects_sem h0 as x hx y (builts_mem as x ha hx) (builts_mem bs y hb hy) hxy) h.2]
      | _ => simp [sem] at h
    | .image k i as, b, ha, hb, h => by
      cases b with
      | image k' j bs =>
        rw [sem_img_iff] at h
        simp only [built] at ha hb
        simp only [feed, feedCat_eq, h.2.1]
        rw [all2_map_eq (feed h0) (fun x hx y hy hxy =>
          feeds_respects_sem h0 as x hx y (builts_mem as x ha hx) (builts_mem bs y hb hy) hxy) h.2.2]
      | _ => simp [sem] at h
    | .neg a, b, ha, hb, h => by
      cases b with
      | neg b => simp only [sem] at h; simp only [built] at ha hb; simp only [feed]; exact feed_respects_sem h0 a b ha hb h
      | _ => simp [sem] at h
    | .bin k a b, x, ha, hb, h => by
      cases x with
      | bin k' c d =>
        simp only [sem, Bool.and_eq_true, beq_iff_eq] at h
        obtain ⟨hk, h⟩ := h
        subst hk
        simp only [built, Bool.and_eq_true] at ha hb
        cases hs : k.symmetric
        · simp only [hs, Bool.false_eq_true, if_false, Bool.and_eq_true] at h
          simp only [feed, hs, Bool.false_eq_true, if_false,
            feed_respects_sem h0 a c ha.1 hb.1 h.1, feed_respects_sem h0 b d ha.2 hb.2 h.2]
        · simp only [hs, if_true, Bool.or_eq_true, Bool.and_eq_true] at h
          simp only [feed, hs, if_true]
          rcases h with h | h
          · rw [feed_respects_sem h0 a c ha.1 hb.1 h.1, feed_respects_sem h0 b d ha.2 hb.2 h.2]
          · rw [feed_respects_sem h0 a d ha.1 hb.2 h.1, feed_respects_sem h0 b c ha.2 hb.1 h.2,
              wrapAdd_left_comm]
      | _ => simp [sem] at h
  theorem feeds_respects_sem (h0 : List Tok → Nat) : ∀ (as : Terms) (a : Term), a ∈ as.toList → ∀ b,
      built a = true → built b = true → sem a b = true → feed h0 a = feed h0 b
    | .nil, a, h, _, _, _, _ => by simp [Terms.toList] at h
    | .cons t ts, a, h, b, ha, hb, hs => by
      simp only [Terms.toList, List.mem_cons] at h
      rcases h with h | h
      · rw [h] at ha hs ⊢; exact feed_respects_sem h0 t b ha hb hs
      · exact feeds_respects_sem h0 ts a h b ha hb hs
end

/-! ### the code's `==` (hash-set lookup) is `sem` on built values -/

theorem allFound_iff (h0 : List Tok → Nat) : ∀ (as : Terms) (bs : List Term), allFound h0 as bs = true ↔
    ∀ a ∈ as.toList, ∃ b ∈ bs, feed h0 a = feed h0 b ∧ eqImpl h0 a b = true
  | .nil, bs => by simp [allFound, Terms.toList]
  | .cons a as, bs => by simp [allFound, Terms.toList, allFound_iff h0 as bs]

theorem eqZip_iff (h0 : List Tok → Nat) : ∀ (as : Terms) (bs : List Term), eqZip h0 as bs = true ↔
    All2 (fun a b => eqImpl h0 a b = true) as.toList bs
  | .nil, [] => by simp [eqZip, Terms.toList]; exact .nil
  | .nil, _ :: _ => by simp [eqZip, Terms.toList]; intro h; cases h
  | .cons _ _, [] => by simp [eqZip, Terms.toList]; intro h; cases h
  | .cons a as, b :: bs => by
      simp only [eqZip, Terms.toList, Bool.and_eq_true, eqZip_iff h0 as bs]
      constructor
      · rintro ⟨h1, h2⟩; exact .cons h1 h2
      · intro h; cases h with | cons h1 h2 => exact ⟨h1, h2⟩

theorem all2_congr {α : Type} {R S : α → α → Prop} : ∀ {as bs : List α},
    (∀ a ∈ as, ∀ b ∈ bs, R a b ↔ S a b) → (All2 R as bs ↔ All2 S as bs)
  | [], [], _ => ⟨fun _ => .nil, fun _ => .nil⟩
  | [], _ :: _, _ => ⟨(fun h => nomatch h), (fun h => nomatch h)⟩
  | _ :: _, [], _ => ⟨(fun h => nomatch h), (fun h => nomatch h)⟩
  | a :: as, b :: bs, h => by
    have ih := all2_congr (R := R) (S := S) (as := as) (bs := bs) (fun x hx y hy => h x (by simp [hx]) y (by simp [hy]))
    constructor
    · intro h'; cases h' with | cons r rest => exact .cons ((h a (by simp) b (by simp)).mp r) (ih.mp rest)
    · intro h'; cases h' with | cons r rest => exact .cons ((h a (by simp) b (by simp)).mpr r) (ih.mpr rest)

mutual
  /-- **C06 core**: on values as hash sets build them, the hand-written `PartialEq` (with `HashSet ==`
  looking elements up by hash) decides exactly semantic equality -/
  theorem eqImpl_eq_sem (h0 : List Tok → Nat) : ∀ (a b : Term), built a = true → built b = true →
      eqImpl h0 a b = sem a b
    | .atom k n, b, _, _ => by cases b <;> simp [eqImpl, sem]
    | .placeholder, b, _, _ => by cases b <;> simp [eqImpl, sem]
    | .interval n, b, _, _ => by cases b <;> simp [eqImpl, sem]
    | .setlike k as, b, ha, hb => by
      cases b with
      | setlike k' bs =>
        simp only [built, Bool.and_eq_true] at ha hb
        have ih : ∀ x ∈ as.toList, ∀ y ∈ bs.toList, eqImpl h0 x y = sem x y := fun x hx y hy =>
          eqImpls_eq_sem h0 as x hx y (builts_mem as x ha.1 hx) (builts_mem bs y hb.1 hy)
        apply Bool.eq_iff_iff.mpr
        rw [sem_set_iff]
        simp only [eqImpl, Bool.and_eq_true, beq_iff_eq, allFound_iff, ← Terms.length_toList]
        constructor
        · rintro ⟨hk, hl, hf⟩
          have hin : ∀ x ∈ as.toList, ∃ y ∈ bs.toList, sem x y = true := fun x hx => by
            obtain ⟨y, hy, _, he⟩ := hf x hx
            exact ⟨y, hy, by rw [← ih x hx y hy]; exact he⟩
          refine ⟨hk, hin, ?_⟩
          exact incl_onto sem sem_symm sem_trans as.toList bs.toList ((nodupSem_iff _).mp ha.2)
            ((nodupSem_iff _).mp hb.2) hl hin
        · rintro ⟨hk, h1, h2⟩
          have key := mutual_incl_sum sem sem_symm sem_trans (fun _ => 0) as.toList bs.toList
            ((nodupSem_iff _).mp ha.2) ((nodupSem_iff _).mp hb.2) h1 h2 (fun _ _ _ _ _ => rfl)
          refine ⟨hk, key.1, fun x hx => ?_⟩
          obtain ⟨y, hy, hxy⟩ := h1 x hx
          exact ⟨y, hy, feeds_respects_sem h0 as x hx y (builts_mem as x ha.1 hx) (builts_mem bs y hb.1 hy) hxy,
            by rw [ih x hx y hy]; exact hxy⟩
      | _ => simp [eqImpl, sem]
    | .seqlike k as, b, ha, hb => by
      cases b with
      | seqlike k' bs =>
        simp only [built] at ha hb
        apply Bool.eq_iff_iff.mpr
        rw [sem_seq_iff]
        simp only [eqImpl, Bool.and_eq_true, beq_iff_eq, eqZip_iff]
        rw [all2_congr (fun x hx y hy => by
          rw [eqImpls_eq_sem h0 as x hx y (builts_mem as x ha hx) (builts_mem bs y hb hy)])]
      | _ => simp [eqImpl, sem]
    | .image k i as, b, ha, hb => by
      cases b with
      | image k' j bs =>
        simp only [built] at ha hb
        apply Bool.eq_iff_iff.mpr
        rw [sem_img_iff]
        simp only [eqImpl, Bool.and_eq_true, beq_iff_eq, eqZip_iff]
        rw [all2_congr (fun x hx y hy => by
          rw [eqImpls_eq_sem h0 as x hx y (builts_mem as x ha hx) (builts_mem bs y hb hy)])]
      | _ => simp [eqImpl, sem]
    | .neg a, b, ha, hb => by
      cases b with
      | neg b => simp only [built] at ha hb; simp only [eqImpl, sem]; exact eqImpl_eq_sem h0 a b ha hb
      | _ => simp [eqImpl, sem]
    | .bin k a b, x, ha, hb => by
      cases x with
      | bin k' c d =>
        simp only [built, Bool.and_eq_true] at ha hb
        simp only [eqImpl, sem, eqImpl_eq_sem h0 a c ha.1 hb.1, eqImpl_eq_sem h0 b d ha.2 hb.2,
          eqImpl_eq_sem h0 a d ha.1 hb.2, eqImpl_eq_sem h0 b c ha.2 hb.1]
      | _ => simp [eqImpl, sem]
  theorem eqImpls_eq_sem (h0 : List Tok → Nat) : ∀ (as : Terms) (a : Term), a ∈ as.toList → ∀ b,
      built a = true → built b = true → eqImpl h0 a b = sem a b
    | .nil, a, h, _, _, _ => by simp [Terms.toList] at h
    | .cons t ts, a, h, b, ha, hb => by
      simp only [Terms.toList, List.mem_cons] at h
      rcases h with h | h
      · rw [h] at ha ⊢; exact eqImpl_eq_sem h0 t b ha hb
      · exact eqImpls_eq_sem h0 ts a h b ha hb
end

/-! ### building sets: insertion order and duplicates do not matter -/

theorem lookupSet_eq (h0 : List Tok → Nat) (s : List Term) (x : Term)
    (hs : ∀ y ∈ s, built y = true) (hx : built x = true) :
    lookupSet h0 s x = s.any (fun y => sem y x) := by
  unfold lookupSet
  apply Bool.eq_iff_iff.mpr
  simp only [List.any_eq_true, Bool.and_eq_true, decide_eq_true_eq]
  constructor
  · rintro ⟨y, hy, _, he⟩; exact ⟨y, hy, by rw [← eqImpl_eq_sem h0 y x (hs y hy) hx]; exact he⟩
  · rintro ⟨y, hy, he⟩
    exact ⟨y, hy, feed_respects_sem h0 y x (hs y hy) hx he, by rw [eqImpl_eq_sem h0 y x (hs y hy) hx]; exact he⟩

end Narsese
