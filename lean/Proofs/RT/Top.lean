/-
  Round-trip development, part 15: when is a top-level term safe from the lenient budget reader?
  (`topOK`), as decidable criteria.
-/
import Proofs.RT.Whole
set_option autoImplicit false

namespace Narsese
open EFormat

def isIVar : Term → Bool
  | .atom .ivar _ => true
  | _ => false

/-- keywords a term other than an independent variable can begin with -/
def startersNoIVar (F : EFormat) : List Str :=
  openers F ++ [F.prePlaceholder, F.preDVar, F.preQVar, F.preInterval, F.preOperator]

/-- format-level criterion: the budget opener is not a name character and can only be confused with the
prefix of the independent variable (true for ASCII and LaTeX, false for Han whose keywords are name chars) -/
def topFmtOKB (F : EFormat) : Bool :=
  !F.budgetL.isEmpty && F.budgetL.head?.all (fun c => !F.isName c) &&
  (startersNoIVar F).all (fun k => incompat F.budgetL k)

/-- per-term criterion: the printed term and the budget opener are incompatible, or the term is an
independent variable `$name` sharing the budget opener, whose name does not begin with a digit, in a
format where the budget reader backs off at a name character -/
def topOKB (F : EFormat) (t : Term) : Bool :=
  incompat F.budgetL (F.fmtTerm t) ||
  (backoffOKB F && F.budgetL == F.preIVar &&
    match t with
    | .atom .ivar (c :: _) => !isDigit c
    | _ => false)

theorem fmtTerm_starts_noIVar {F : EFormat} (hF : FormatOK F) (t : Term) (ht : wfT F t = true)
    (hn : isIVar t = false) (X : Str) :
    (∃ k ∈ startersNoIVar F, isPre k (F.fmtTerm t ++ X) = true) ∨
    (∃ c cs, F.fmtTerm t ++ X = c :: cs ∧ F.isName c = true) := by
  have pre : ∀ k ∈ startersNoIVar F, ∀ Y, (∃ k' ∈ startersNoIVar F, isPre k' (k ++ Y) = true) ∨
      (∃ c cs, k ++ Y = c :: cs ∧ F.isName c = true) := fun k hk Y => .inl ⟨k, hk, isPre_append k Y⟩
  have op : ∀ k ∈ openers F, k ∈ startersNoIVar F := fun k hk => by simp [startersNoIVar, hk]
  cases t with
  | atom k n =>
    simp only [wfT] at ht
    cases k with
    | word =>
      obtain ⟨c, cs, rfl, hc⟩ := nameOK_head ht
      simp only [fmtTerm, atomPrefix, hF.preWord, List.nil_append]
      exact .inr ⟨c, cs ++ X, rfl, hc⟩
    | ivar => simp [isIVar] at hn
    | dvar => simp only [fmtTerm, atomPrefix, List.append_assoc]; refine pre _ ?_ _; simp [startersNoIVar]
    | qvar => simp only [fmtTerm, atomPrefix, List.append_assoc]; refine pre _ ?_ _; simp [startersNoIVar]
    | op => simp only [fmtTerm, atomPrefix, List.append_assoc]; refine pre _ ?_ _; simp [startersNoIVar]
  | placeholder => simp only [fmtTerm]; refine pre _ ?_ _; simp [startersNoIVar]
  | interval n => simp only [fmtTerm, List.append_assoc]; refine pre _ ?_ _; simp [startersNoIVar]
  | setlike k ts =>
    cases k <;> simp only [fmtTerm, setBrackets, tplSet, tplCompound, List.append_assoc]
    · refine pre _ (op _ ?_) _; simp [openers]
    · refine pre _ (op _ ?_) _; simp [openers]
    all_goals refine pre _ (op _ ?_) _; simp [openers]
  | seqlike k ts =>
    simp only [fmtTerm, tplCompound, List.append_assoc]; refine pre _ (op _ ?_) _; simp [openers]
  | image k i ts =>
    simp only [fmtTerm, tplCompound, List.append_assoc]; refine pre _ (op _ ?_) _; simp [openers]
  | neg t =>
    simp only [fmtTerm, tplCompound, List.append_assoc]; refine pre _ (op _ ?_) _; simp [openers]
  | bin k a b =>
    simp only [fmtTerm]
    split
    · simp only [tplStatement, List.append_assoc]; refine pre _ (op _ ?_) _; simp [openers]
    · simp only [tplCompound, List.append_assoc]; refine pre _ (op _ ?_) _; simp [openers]

/-- **format-level criterion**: every well-formed term that is not an independent variable is safe -/
theorem topOK_of_notIVar {F : EFormat} (hF : FormatOK F) (hT : topFmtOKB F = true) (t : Term)
    (ht : wfT F t = true) (hn : isIVar t = false) : topOK F t := by
  simp only [topFmtOKB, Bool.and_eq_true, Bool.not_eq_true', List.isEmpty_eq_false_iff, List.all_eq_true] at hT
  obtain ⟨⟨hne, hhead⟩, hinc⟩ := hT
  refine .inl (fun X => ?_)
  rcases fmtTerm_starts_noIVar hF t ht hn X with ⟨k, hk, hp⟩ | ⟨c, cs, e, hc⟩
  · obtain ⟨r, hr⟩ := (isPre_iff k _).mp hp
    rw [hr]
    exact not_isPre_of_incompat (hinc k hk) r
  · rw [e]
    apply not_isPre_head _ hne
    intro y hy heq
    subst heq
    cases hb : F.budgetL with
    | nil => exact absurd hb hne
    | cons z zs =>
      rw [hb] at hhead hy
      simp only [List.head?_cons, Option.all_some, Bool.not_eq_true', Option.mem_def, Option.some.injEq] at hhead hy
      subst hy
      rw [hc] at hhead
      exact absurd hhead (by simp)

/-- the lenient budget reader backs off at a name character that is not a digit -/
theorem consumeBudget_backoff {F : EFormat} (hI : ItemsOK F) (hB : backoffOKB F = true) (len : Nat)
    (c : Char) (cs : Str) (hc : F.isName c = true) (hd : isDigit c = false) :
    ∃ e, F.consumeBudget (mk len (F.budgetL ++ (c :: cs))) = .err e := by
  obtain ⟨hL, _, _⟩ := hI.budgetList
  simp only [backoffOKB, Bool.and_eq_true, Bool.not_eq_true'] at hB
  obtain ⟨⟨hdot, hsep⟩, hrb⟩ := hB
  have nohead : ∀ k : Str, k ≠ [] → k.head?.all (fun x => !F.isName x) = true → isPre k (c :: cs) = false := by
    intro k hk hh
    apply not_isPre_head _ hk
    intro y hy heq
    subst heq
    cases k with
    | nil => exact absurd rfl hk
    | cons z zs =>
      simp only [List.head?_cons, Option.all_some, Bool.not_eq_true', Option.mem_def, Option.some.injEq] at hh hy
      subst hy
      rw [hc] at hh
      exact absurd hh (by simp)
  obtain ⟨hspne, hsph⟩ := terminator_parts hI.base (hI.base.terminator (x := F.spaceParse) (by simp))
  have hns := nohead _ hspne hsph
  have hnsep := nohead _ hL.sep_ne hsep
  have hnrb := nohead _ hL.rb_ne hrb
  have hcd : (c = '.' || isDigit c) = false := by
    have : c ≠ '.' := by
      intro h; rw [h, hdot] at hc; exact absurd hc (by simp)
    simp [this, hd]
  refine ⟨mk len (c :: cs), ?_⟩
  unfold consumeBudget
  rw [skipAndSpaces_mk hI.base len F.budgetL _ hns]
  simp only [mk_rest, List.length_cons]
  rw [parseFloats]
  simp only [mk_canConsume, List.isEmpty_cons, Bool.not_false, List.length_nil, Nat.zero_lt_succ, decide_true,
    Bool.and_self, Bool.not_true, Bool.false_eq_true, if_false, mk_rest, mk_startsWith, hns, hcd, hnsep, hnrb,
    Props.C04.raise_never_panics]

/-- **per-term criterion** -/
theorem topOK_of_B {F : EFormat} (hI : ItemsOK F) (t : Term) (ht : wfT F t = true) (h : topOKB F t = true) :
    topOK F t := by
  simp only [topOKB, Bool.or_eq_true, Bool.and_eq_true, beq_iff_eq] at h
  rcases h with h | ⟨⟨hB, hpre⟩, hm⟩
  · exact .inl (fun X => not_isPre_of_incompat h X)
  · match t, ht, hm with
    | .atom .ivar (c :: cs), ht, hm =>
      simp only [Bool.not_eq_true'] at hm
      simp only [wfT] at ht
      obtain ⟨c', cs', e, hc⟩ := nameOK_head ht
      simp only [List.cons.injEq] at e
      obtain ⟨rfl, rfl⟩ := e
      refine .inr (fun len X => ?_)
      have := consumeBudget_backoff hI hB len c (cs ++ X) hc hm
      simpa [fmtTerm, atomPrefix, hpre, List.append_assoc] using this

/-! ### whole values -/

def wfN (F : EFormat) : Narsese → Bool
  | .term t => wfT F t
  | .sentence s => wfSentence F s
  | .task k => wfTask F k

/-- the top-level condition only concerns values without a budget in front -/
def topN (F : EFormat) : Narsese → Bool
  | .term t => topOKB F t || (topFmtOKB F && !isIVar t)
  | .sentence s => topOKB F s.term || (topFmtOKB F && !isIVar s.term)
  | .task _ => true

theorem topOK_of_topN {F : EFormat} (hI : ItemsOK F) (t : Term) (ht : wfT F t = true)
    (h : (topOKB F t || (topFmtOKB F && !isIVar t)) = true) : topOK F t := by
  simp only [Bool.or_eq_true, Bool.and_eq_true, Bool.not_eq_true'] at h
  rcases h with h | ⟨h1, h2⟩
  · exact topOK_of_B hI t ht h
  · exact topOK_of_notIVar hI.base h1 t ht h2

/-- **C01, enum half, whole values**: for every format satisfying the decidable side conditions, every
well-formed Narsese value — any term depth, any of the three kinds — reads back as itself -/
theorem eparse_fmtNarsese {F : EFormat} (hI : ItemsOK F) (v : Narsese) (hwf : wfN F v = true)
    (htop : topN F v = true) : F.eparse (F.fmtNarsese v) = .ok v := by
  cases v with
  | term t => exact eparse_fmt_term hI t hwf (topOK_of_topN hI t hwf htop)
  | sentence s =>
    have hwt : wfT F s.term = true := by
      simp only [wfN, wfSentence, Bool.and_eq_true] at hwf; exact hwf.1.1
    exact eparse_fmt_sentence hI s hwf (topOK_of_topN hI s.term hwt htop)
  | task k => exact eparse_fmt_task hI k hwf

end Narsese
