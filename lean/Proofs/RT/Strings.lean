/-
  Round-trip development, part 1: keyword / string lemmas and cursor facts on well-positioned cursors.
-/
import Proofs.CursorLemmas
set_option autoImplicit false

namespace Narsese
open EFormat

theorem strip_append (k r : Str) : strip k (k ++ r) = some r := by
  induction k with
  | nil => rfl
  | cons a k ih => simp [strip, ih]

theorem isPre_append (k r : Str) : isPre k (k ++ r) = true := by simp [isPre, strip_append]

theorem strip_some {k s r : Str} (h : strip k s = some r) : s = k ++ r := by
  induction k generalizing s with
  | nil => simp [strip] at h; simp [h]
  | cons a k ih =>
    cases s with
    | nil => simp [strip] at h
    | cons c cs =>
      simp only [strip] at h
      split at h
      · next hh => subst hh; simp [ih h]
      · simp at h

theorem isPre_iff (k s : Str) : isPre k s = true ↔ ∃ r, s = k ++ r := by
  unfold isPre
  constructor
  · intro h
    cases hs : strip k s with
    | none => simp [hs] at h
    | some r => exact ⟨r, strip_some hs⟩
  · rintro ⟨r, rfl⟩; simp [strip_append]

/-- if `a` and `b` are prefix-incompatible, `a` is not a prefix of anything starting with `b` -/
theorem not_isPre_of_incompat {a b : Str} (h : incompat a b = true) (r : Str) : isPre a (b ++ r) = false := by
  induction a generalizing b with
  | nil => simp [incompat, isPre, strip] at h
  | cons x a ih =>
    cases b with
    | nil => simp [incompat, isPre, strip] at h
    | cons y b =>
      simp only [List.cons_append, isPre, strip]
      split
      · next hxy =>
        subst hxy
        have : incompat a b = true := by simpa [incompat, isPre, strip] using h
        have := ih this
        simpa [isPre] using this
      · rfl

theorem isPre_app_compat {a s r : Str} (h : isPre a (s ++ r) = true) : compat a s = true := by
  induction a generalizing s with
  | nil => simp [compat, isPre, strip]
  | cons y a ih =>
    cases s with
    | nil => simp [compat, isPre, strip]
    | cons z s =>
      simp only [List.cons_append, isPre, strip] at h
      split at h
      · next hyz =>
        subst hyz
        have := ih (s := s) (by simpa [isPre] using h)
        simpa [compat, isPre, strip] using this
      · simp at h

theorem not_isPre_of_not_compat {a s : Str} (h : compat a s = false) (r : Str) : isPre a (s ++ r) = false := by
  cases hp : isPre a (s ++ r) with
  | false => rfl
  | true => rw [isPre_app_compat hp] at h; simp at h

/-- a keyword whose first char differs from the first char of the text is not a prefix -/
theorem not_isPre_head {k : Str} {c : Char} {cs : Str} (h : ∀ x ∈ k.head?, x ≠ c) (hk : k ≠ []) :
    isPre k (c :: cs) = false := by
  cases k with
  | nil => exact absurd rfl hk
  | cons x k =>
    have : x ≠ c := h x (by simp)
    simp [isPre, strip, this]

/-- `e` no longer than `s` and not a prefix of `s` is not a prefix of any extension of `s` -/
theorem not_isPre_extend {e s : Str} (h1 : isPre e s = false) (h2 : e.length ≤ s.length) (r : Str) :
    isPre e (s ++ r) = false := by
  induction e generalizing s with
  | nil => simp [isPre, strip] at h1
  | cons x e ih =>
    cases s with
    | nil => simp at h2
    | cons y s =>
      simp only [List.cons_append, isPre, strip] at h1 ⊢
      split
      · next hxy =>
        subst hxy
        simp only [if_true] at h1
        have := ih (s := s) (by simpa [isPre] using h1) (by simpa using h2)
        simpa [isPre] using this
      · rfl

/-! ### cursors placed inside the input (`over = 0`) -/

def mk (len : Nat) (s : Str) : Cur := { rest := s, over := 0, len := len }

@[simp] theorem mk_startsWith (len : Nat) (s k : Str) : (mk len s).startsWith k = isPre k s := by
  simp [mk, Cur.startsWith]

theorem mk_skip (len : Nat) (k r : Str) : (mk len (k ++ r)).skip k = mk len r := by
  simp [mk, Cur.skip, Cur.skipN]

@[simp] theorem mk_canConsume (len : Nat) (s : Str) : (mk len s).canConsume = !s.isEmpty := rfl

theorem skipSpAux_noprefix (sp s : Str) (n : Nat) (h : isPre sp s = false) : skipSpAux sp n s = s := by
  cases n with
  | zero => rfl
  | succ n =>
    simp only [skipSpAux]
    cases hs : strip sp s with
    | none => rfl
    | some r => simp [isPre, hs] at h

theorem skipSpaces_noprefix (F : EFormat) (len : Nat) (s : Str) (h : isPre F.spaceParse s = false) :
    F.skipSpaces (mk len s) = mk len s := by
  simp [skipSpaces, mk, skipSpAux_noprefix _ _ _ h]

/-- one leading space is skipped when what follows does not start with a space -/
theorem skipSpaces_one (F : EFormat) (len : Nat) (s : Str) (h : isPre F.spaceParse s = false) :
    F.skipSpaces (mk len (F.spaceParse ++ s)) = mk len s := by
  by_cases hsp : F.spaceParse = []
  · rw [hsp]; simpa [hsp] using skipSpaces_noprefix F len s h
  · have hlen : 1 ≤ F.spaceParse.length := by cases hx : F.spaceParse <;> simp_all
    simp only [skipSpaces, mk, beq_self_eq_true, if_true]
    have : (F.spaceParse ++ s).length = (F.spaceParse.length - 1 + s.length) + 1 := by simp; omega
    rw [this, skipSpAux, strip_append]
    simp only
    rw [skipSpAux_noprefix _ _ _ h]

/-- the formatter's term space is the parse space or nothing: skipping spaces after it lands on the text -/
def spOK (F : EFormat) : Prop := F.spaceTerms = F.spaceParse ∨ F.spaceTerms = []

theorem skipSpaces_sp (F : EFormat) (hsp : spOK F) (len : Nat) (s : Str) (h : isPre F.spaceParse s = false) :
    F.skipSpaces (mk len (F.spaceTerms ++ s)) = mk len s := by
  rcases hsp with h1 | h1
  · rw [h1]; exact skipSpaces_one F len s h
  · rw [h1]; simpa using skipSpaces_noprefix F len s h

end Narsese
