/-
  Round-trip development, part 2: the decidable side condition on a format (`FormatOK`), well-formed
  values (`wfT`), what may follow a term (`Stop`), and the atom-level lemmas.
-/
import Proofs.RT.Strings
import Proofs.EParseTotal
import Proofs.EqHash
import Proofs.NumLemmas
import NarseseModel.EFormatter
set_option autoImplicit false

namespace Narsese
open EFormat

def openers (F : EFormat) : List Str := [F.extSetL, F.intSetL, F.compL, F.stmtL]
def closers (F : EFormat) : List Str := [F.extSetR, F.intSetR, F.compR, F.stmtR]
/-- the six non-empty atom prefixes, in the order `parse_atom` tries them -/
def prefixes6 (F : EFormat) : List Str :=
  [F.prePlaceholder, F.preIVar, F.preDVar, F.preQVar, F.preInterval, F.preOperator]
/-- keywords a term's text can begin with -/
def starters (F : EFormat) : List Str := openers F ++ prefixes6 F

/-- suffixes of a string -/
def sufs : Str → List Str
  | [] => []
  | c :: cs => (c :: cs) :: sufs cs

/-- all pairs (earlier, later) of a list satisfy `p` -/
def pairwiseB {α : Type} (p : α → α → Bool) : List α → Bool
  | [] => true
  | x :: xs => xs.all (p x) && pairwiseB p xs

theorem pairwiseB_get {α : Type} (p : α → α → Bool) : ∀ (l : List α), pairwiseB p l = true →
    ∀ (i j : Nat), i < j → ∀ a b, l[i]? = some a → l[j]? = some b → p a b = true
  | [], _, i, j, _, a, b, ha, _ => by simp at ha
  | x :: xs, h, 0, j + 1, _, a, b, ha, hb => by
    simp only [pairwiseB, Bool.and_eq_true, List.all_eq_true] at h
    simp only [List.getElem?_cons_zero, Option.some.injEq] at ha
    simp only [List.getElem?_cons_succ] at hb
    subst ha
    exact h.1 b (List.mem_of_getElem? hb)
  | x :: xs, h, i + 1, j + 1, hij, a, b, ha, hb => by
    simp only [pairwiseB, Bool.and_eq_true] at h
    simp only [List.getElem?_cons_succ] at ha hb
    exact pairwiseB_get p xs h.2 i j (by omega) a b ha hb
  | x :: xs, _, _, 0, hij, _, _, _, _ => by omega

/-- a keyword that terminates a term: non-empty, does not begin with a name char, and cannot be
mistaken for the beginning of a term -/
def terminatorOK (F : EFormat) (x : Str) : Bool :=
  !x.isEmpty && (x.head?.all (fun c => !F.isName c)) && (starters F).all (fun k => incompat x k)

def digitChars : Str := (List.range 10).map digitChar

/-- The decidable side condition under which the formatter's output is read back unambiguously. -/
def formatOKB (F : EFormat) : Bool :=
  saneAllB F &&
  (F.spaceTerms == F.spaceParse || F.spaceTerms == []) &&
  F.preWord.isEmpty &&
  -- dispatch between the four bracket openers
  pairwiseB incompat (openers F) &&
  (openers F).all (fun o => o.head?.all (fun c => !F.isName c) && (prefixes6 F).all (fun p => incompat o p)) &&
  -- atom prefixes
  (prefixes6 F).all (fun p => !p.isEmpty) && pairwiseB incompat (prefixes6 F) &&
  -- terminators
  ([F.spaceParse, F.separator] ++ closers F).all (terminatorOK F) &&
  (closers F).all (fun r => incompat F.spaceParse r && incompat F.separator r) && incompat F.spaceParse F.separator &&
  -- copulas
  pairwiseB incompat (F.copulaTable.map (·.1)) &&
  (F.copulaTable.map (·.1)).all (fun c => !c.isEmpty && incompat F.spaceParse c &&
      c.head?.all (fun x => !digitChars.contains x)) &&
  F.copulas == F.copulaTable.map (·.1) &&
  digitChars.all F.isName &&
  -- connecters: the intended entry is the first match on `connecter ++ separator`
  (F.connecters.map (·.1)).all (fun c => !c.isEmpty && incompat F.spaceParse c) &&
  (List.range F.connecters.length).all (fun j =>
    (List.range j).all (fun i =>
      match F.connecters[i]?, F.connecters[j]? with
      | some e, some c => !compat e.1 (c.1 ++ F.separator)
      | _, _ => true))

structure FormatOK (F : EFormat) : Prop where
  ok : formatOKB F = true

/-- an atom name that reads back as itself: non-empty, name characters only, contains no copula and no
suffix of it is the beginning of one, and it neither starts with an atom prefix nor is the beginning of one -/
def nameOK (F : EFormat) (n : Str) : Bool :=
  !n.isEmpty && n.all F.isName &&
  (sufs n).all (fun s => F.copulas.all (fun c => !compat c s)) &&
  (prefixes6 F).all (fun p => !compat p n)

mutual
  /-- well-formed terms (the hypotheses of the round trip) -/
  def wfT (F : EFormat) : Term → Bool
    | .atom _ n => nameOK F n
    | .placeholder => true
    | .interval n => decide (n < 2 ^ 64)
    | .setlike _ ts => !ts.isEmpty && wfTs F ts && nodupSem ts.toList
    | .seqlike _ ts => !ts.isEmpty && wfTs F ts
    | .image _ i ts => decide (i ≤ ts.length) && wfTs F ts && noPh ts
    | .neg t => wfT F t
    | .bin _ a b => wfT F a && wfT F b
  def wfTs (F : EFormat) : Terms → Bool
    | .nil => true
    | .cons t ts => wfT F t && wfTs F ts
  /-- the components of an image are placeholder-free (the placeholder is the index) -/
  def noPh : Terms → Bool
    | .nil => true
    | .cons t ts => (match t with | .placeholder => false | _ => true) && noPh ts
end

/-- what may follow a term: the name scanner consumes nothing from it -/
def Stop (F : EFormat) (rest : Str) : Prop := F.scanName rest = ([], rest)

theorem stop_nil (F : EFormat) : Stop F [] := rfl

theorem stop_of_head (F : EFormat) (c : Char) (cs : Str) (h : F.isName c = false) : Stop F (c :: cs) := by
  unfold Stop scanName
  split
  · rfl
  · simp [h]

theorem stop_of_copula (F : EFormat) (k r : Str) (hk : k ∈ F.copulas) (hne : k ≠ []) : Stop F (k ++ r) := by
  cases hkr : k ++ r with
  | nil => exact stop_nil F
  | cons c cs =>
    unfold Stop scanName
    have : F.copulaAt (c :: cs) = true := by
      rw [← hkr]; unfold copulaAt; rw [List.any_eq_true]; exact ⟨k, hk, isPre_append k r⟩
    simp [this]

/-- a keyword that is non-empty and does not begin with a name char stops the scanner, whatever follows -/
theorem stop_of_kw (F : EFormat) (k r : Str) (hne : k ≠ []) (hh : k.head?.all (fun c => !F.isName c) = true) :
    Stop F (k ++ r) := by
  cases k with
  | nil => exact absurd rfl hne
  | cons c cs =>
    apply stop_of_head
    simpa using hh

theorem copulaAt_false {F : EFormat} {s r : Str} (h : ∀ c ∈ F.copulas, compat c s = false) :
    F.copulaAt (s ++ r) = false := by
  unfold copulaAt
  rw [List.any_eq_false]
  intro c hc
  simp [not_isPre_of_not_compat (h c hc) r]

theorem scanName_app (F : EFormat) (n rest : Str)
    (hch : ∀ c ∈ n, F.isName c = true)
    (hnc : ∀ s ∈ sufs n, ∀ c ∈ F.copulas, compat c s = false)
    (hst : Stop F rest) : F.scanName (n ++ rest) = (n, rest) := by
  induction n with
  | nil => exact hst
  | cons c n ih =>
    have h1 : F.copulaAt ((c :: n) ++ rest) = false := copulaAt_false (hnc (c :: n) (by simp [sufs]))
    have h2 : F.isName c = true := hch c (by simp)
    have ih' := ih (fun d hd => hch d (by simp [hd])) (fun s hs => hnc s (by simp [sufs, hs]))
    simp only [List.cons_append] at h1 ⊢
    simp [scanName, h1, h2, ih']

theorem nameOK_scan (F : EFormat) (n rest : Str) (h : nameOK F n = true) (hst : Stop F rest) :
    F.scanName (n ++ rest) = (n, rest) := by
  simp only [nameOK, Bool.and_eq_true, List.all_eq_true, Bool.not_eq_true'] at h
  exact scanName_app F n rest h.1.1.2 (fun s hs c hc => h.1.2 s hs c hc) hst

end Narsese
