/-
  Round-trip development, part 9: the items of a sentence / task (numbers, budget, punctuation, stamp,
  truth) on the formatter's own text.
-/
import Proofs.RT.Final
set_option autoImplicit false

namespace Narsese
open EFormat

def signChars : Str := digitChars ++ ['+', '-']
def numChars : Str := digitChars ++ ['.']

/-- head of a keyword is not among the given characters (vacuous for the empty keyword) -/
def headNotIn (k : Str) (cs : Str) : Bool := k.head?.all (fun c => !cs.contains c)

def stampKws (F : EFormat) : List Str := [F.stampFixed, F.stampPast, F.stampPresent, F.stampFuture]
def punctKws (F : EFormat) : List Str := [F.pJudgement, F.pGoal, F.pQuestion, F.pQuest]

/-- decidable side condition for the sentence / task level -/
def itemsOKB (F : EFormat) : Bool :=
  (F.spaceItems == F.spaceParse) &&
  -- punctuation
  pairwiseB incompat (punctKws F) &&
  (punctKws F).all (fun p => !p.isEmpty && p.head?.all (fun c => !F.isName c) && incompat F.spaceParse p &&
      incompat F.budgetL p) &&
  -- stamp keywords (tried in this order)
  pairwiseB incompat (stampKws F) &&
  (stampKws F).all (fun k => !k.isEmpty && incompat F.spaceParse k && incompat F.budgetL (F.stampL ++ k) &&
      incompat k F.truthL) &&
  (F.stampL.isEmpty || (incompat F.spaceParse F.stampL && incompat F.stampL F.truthL)) &&
  -- what follows the number of a fixed stamp is not part of the number
  headNotIn F.spaceParse signChars &&
  (if F.stampR.isEmpty then headNotIn (F.spaceTerms ++ F.truthL) signChars
   else headNotIn F.stampR signChars && incompat F.spaceParse F.stampR) &&
  -- truth and budget number lists
  [(F.truthL, F.truthSep, F.truthR), (F.budgetL, F.budgetSep, F.budgetR)].all (fun q =>
      !q.1.isEmpty && incompat F.spaceParse q.1 &&
      !q.2.1.isEmpty && incompat F.spaceParse q.2.1 && headNotIn q.2.1 numChars &&
      !q.2.2.isEmpty && incompat F.spaceParse q.2.2 && headNotIn q.2.2 numChars && incompat q.2.1 q.2.2) &&
  headNotIn F.spaceParse numChars &&
  incompat F.budgetL F.truthL

/-- when a top-level independent variable shares the budget bracket (`$x`), the lenient budget reader
must back off at the first character of the name: that character is a name character, so it must be
neither part of a number nor the start of the budget separator / closer -/
def backoffOKB (F : EFormat) : Bool :=
  !F.isName '.' && F.budgetSep.head?.all (fun c => !F.isName c) && F.budgetR.head?.all (fun c => !F.isName c)

structure ItemsOK (F : EFormat) : Prop where
  base : FormatOK F
  items : itemsOKB F = true

/-! ### reading printed numbers -/

theorem readNum_ok (x : Num) (h : x.ok = true) : readNum x.text = some x := by
  simp only [Num.ok, Bool.and_eq_true, beq_iff_eq] at h
  simp [readNum, h.2]

theorem num_chars (x : Num) (h : x.ok = true) : x.text ≠ [] ∧ ∀ c ∈ x.text, isDigit c = true ∨ c = '.' := by
  simp only [Num.ok, Bool.and_eq_true, Bool.not_eq_true', List.isEmpty_eq_false_iff, List.all_eq_true,
    Bool.or_eq_true, beq_iff_eq] at h
  exact ⟨h.1.1.2, h.1.2⟩

theorem isDigit_digitChars (c : Char) (h : isDigit c = true) : c ∈ digitChars := by
  simp only [isDigit, Bool.and_eq_true, decide_eq_true_eq] at h
  have h1 : 48 ≤ c.toNat := h.1
  have h2 : c.toNat ≤ 57 := h.2
  have : c = digitChar (c.toNat - 48) := by
    apply Char.ext
    apply UInt32.toNat_inj.mp
    have e : ('0'.toNat + (c.toNat - 48)) = c.toNat := by
      show 48 + (c.toNat - 48) = c.toNat; omega
    simp only [digitChar, e]
    show c.val.toNat = (Char.ofNat c.toNat).val.toNat
    rw [Char.ofNat_toNat]
  rw [this]
  exact digit_mem _ (by omega)

/-- a char that is a digit or '.' cannot start a keyword whose head is not a number char -/
theorem numChar_not_pre (k : Str) (hk : k ≠ []) (hh : headNotIn k numChars = true) (c : Char) (cs : Str)
    (hc : isDigit c = true ∨ c = '.') : isPre k (c :: cs) = false := by
  apply not_isPre_head _ hk
  intro y hy heq
  subst heq
  cases k with
  | nil => exact absurd rfl hk
  | cons z zs =>
    simp only [headNotIn, List.head?_cons, Option.all_some, Bool.not_eq_true', List.contains_eq_mem,
      decide_eq_false_iff_not] at hh
    simp only [List.head?_cons, Option.mem_def, Option.some.injEq] at hy
    subst hy
    apply hh
    simp only [numChars, List.mem_append, List.mem_singleton]
    rcases hc with hc | hc
    · exact .inl (isDigit_digitChars _ hc)
    · exact .inr hc

@[simp] theorem mk_rest (len : Nat) (s : Str) : (mk len s).rest = s := rfl

section
variable {F : EFormat} (len : Nat)

/-- the number-list loop over the characters of one printed number -/
theorem parseFloats_digits (N : Nat) (sep rb : Str)
    (hsp : F.spaceParse ≠ []) (hspn : headNotIn F.spaceParse numChars = true) :
    ∀ (ds : Str), (∀ c ∈ ds, isDigit c = true ∨ c = '.') → ∀ (k : Nat) (Z buf : Str) (acc : List Num),
      acc.length < N →
      F.parseFloats N sep rb (k + ds.length) (mk len (ds ++ Z)) buf acc =
        F.parseFloats N sep rb k (mk len Z) (buf ++ ds) acc
  | [], _, k, Z, buf, acc, _ => by simp
  | d :: ds, hds, k, Z, buf, acc, hacc => by
    have hd := hds d (by simp)
    have e : k + (d :: ds).length = (k + ds.length) + 1 := by simp; omega
    rw [e, parseFloats]
    have hns : isPre F.spaceParse (d :: (ds ++ Z)) = false := numChar_not_pre _ hsp hspn d _ hd
    have hdd : (d = '.' || isDigit d) = true := by
      rcases hd with h | h
      · simp [h]
      · simp [h]
    have hsk : (mk len (d :: (ds ++ Z))).skipN 1 = mk len (ds ++ Z) := by simp [Cur.skipN, mk]
    simp only [List.cons_append, mk_canConsume, List.isEmpty_cons, Bool.not_false, hacc, decide_true, Bool.and_self,
      Bool.not_true, Bool.false_eq_true, if_false, mk_rest, mk_startsWith, hns, hdd, if_true, hsk]
    have ih := parseFloats_digits N sep rb hsp hspn ds (fun c hc => hds c (by simp [hc])) k Z (buf ++ [d]) acc hacc
    simpa [List.append_assoc] using ih

/-- conditions on one bracketed number list (truth or budget) -/
structure ListOK (F : EFormat) (sep rb : Str) : Prop where
  sp_ne : F.spaceParse ≠ []
  sp_num : headNotIn F.spaceParse numChars = true
  sep_ne : sep ≠ []
  sep_sp : incompat F.spaceParse sep = true
  sep_num : headNotIn sep numChars = true
  rb_ne : rb ≠ []
  rb_sp : incompat F.spaceParse rb = true
  rb_num : headNotIn rb numChars = true
  sep_rb : incompat sep rb = true

theorem nonempty_isEmpty {α : Type} {l : List α} (h : l ≠ []) : l.isEmpty = false := by
  cases l <;> simp_all

/-- the loop at the closing bracket -/
theorem parseFloats_close (N : Nat) (sep rb : Str) (hL : ListOK F sep rb) (k : Nat) (Y buf : Str)
    (acc : List Num) (hacc : acc.length < N) :
    F.parseFloats N sep rb (k + 1) (mk len (rb ++ Y)) buf acc =
      .ok (match readNum buf with | some v => acc ++ [v] | none => acc, mk len (rb ++ Y)) := by
  obtain ⟨c, cs, hrb⟩ : ∃ c cs, rb = c :: cs := by
    cases hr : rb with
    | nil => exact absurd hr hL.rb_ne
    | cons c cs => exact ⟨c, cs, rfl⟩
  have hns : isPre F.spaceParse (rb ++ Y) = false := not_isPre_of_incompat hL.rb_sp Y
  have hnsep : isPre sep (rb ++ Y) = false := not_isPre_of_incompat hL.sep_rb Y
  have hnd : (c = '.' || isDigit c) = false := by
    have := hL.rb_num
    rw [hrb] at this
    simp only [headNotIn, List.head?_cons, Option.all_some, Bool.not_eq_true', List.contains_eq_mem,
      decide_eq_false_iff_not, numChars, List.mem_append, List.mem_singleton, not_or] at this
    cases hd : isDigit c with
    | true => exact absurd (isDigit_digitChars c hd) this.1
    | false => simp [this.2]
  rw [parseFloats]
  have hc : (rb ++ Y).isEmpty = false := by rw [hrb]; rfl
  simp only [mk_canConsume, hc, Bool.not_false, hacc, decide_true, Bool.and_self, Bool.not_true,
    Bool.false_eq_true, if_false]
  have hrest : rb ++ Y = c :: (cs ++ Y) := by simp [hrb]
  simp only [mk_rest]
  rw [hrest]
  simp only
  rw [← hrest]
  simp only [mk_startsWith, hns, hnd, hnsep, isPre_append, Bool.false_eq_true, if_false, if_true]
  cases readNum buf <;> rfl

/-- the loop at a separator (the buffer holds a printed number) -/
theorem parseFloats_sep (N : Nat) (sep rb : Str) (hL : ListOK F sep rb) (k : Nat) (Z : Str) (x : Num)
    (hx : x.ok = true) (acc : List Num) (hacc : acc.length < N) :
    F.parseFloats N sep rb (k + 1) (mk len (sep ++ Z)) x.text acc =
      F.parseFloats N sep rb k (mk len Z) [] (acc ++ [x]) := by
  obtain ⟨c, cs, hsep⟩ : ∃ c cs, sep = c :: cs := by
    cases hr : sep with
    | nil => exact absurd hr hL.sep_ne
    | cons c cs => exact ⟨c, cs, rfl⟩
  have hns : isPre F.spaceParse (sep ++ Z) = false := not_isPre_of_incompat hL.sep_sp Z
  have hnd : (c = '.' || isDigit c) = false := by
    have := hL.sep_num
    rw [hsep] at this
    simp only [headNotIn, List.head?_cons, Option.all_some, Bool.not_eq_true', List.contains_eq_mem,
      decide_eq_false_iff_not, numChars, List.mem_append, List.mem_singleton, not_or] at this
    cases hd : isDigit c with
    | true => exact absurd (isDigit_digitChars c hd) this.1
    | false => simp [this.2]
  rw [parseFloats]
  have hc : (sep ++ Z).isEmpty = false := by rw [hsep]; rfl
  simp only [mk_canConsume, hc, Bool.not_false, hacc, decide_true, Bool.and_self, Bool.not_true,
    Bool.false_eq_true, if_false]
  have hrest : sep ++ Z = c :: (cs ++ Z) := by simp [hsep]
  simp only [mk_rest]
  rw [hrest]
  simp only
  rw [← hrest]
  simp only [mk_startsWith, hns, hnd, isPre_append, Bool.false_eq_true, if_false, if_true, readNum_ok x hx, mk_skip]

/-- text of a number list without brackets -/
def numsTxt (sep : Str) (xs : List Num) : Str := joinWith sep (xs.map (·.text))

/-- **a printed number list reads back**: non-empty list, at most `N` numbers in total -/
theorem parseFloats_list (N : Nat) (sep rb : Str) (hL : ListOK F sep rb) :
    ∀ (xs : List Num), xs ≠ [] → (∀ x ∈ xs, x.ok = true) → ∀ (acc : List Num), acc.length + xs.length ≤ N →
      ∀ (Y : Str) (k : Nat), (numsTxt sep xs ++ (rb ++ Y)).length + 1 ≤ k →
      F.parseFloats N sep rb k (mk len (numsTxt sep xs ++ (rb ++ Y))) [] acc = .ok (acc ++ xs, mk len (rb ++ Y))
  | [], h, _, _, _, _, _, _ => absurd rfl h
  | [x], _, hok, acc, hlen, Y, k, hk => by
    have hx := hok x (by simp)
    obtain ⟨_, hch⟩ := num_chars x hx
    simp only [numsTxt, List.map_cons, List.map_nil, joinWith] at hk ⊢
    have hacc : acc.length < N := by simp at hlen; omega
    obtain ⟨k', rfl⟩ : ∃ k', k = (k' + 1) + x.text.length := ⟨k - 1 - x.text.length, by simp at hk; omega⟩
    rw [parseFloats_digits len N sep rb hL.sp_ne hL.sp_num x.text hch (k' + 1) _ [] acc hacc]
    rw [List.nil_append, parseFloats_close len N sep rb hL k' Y x.text acc hacc, readNum_ok x hx]
  | x :: y :: r, _, hok, acc, hlen, Y, k, hk => by
    have hx := hok x (by simp)
    obtain ⟨_, hch⟩ := num_chars x hx
    have hacc : acc.length < N := by simp at hlen; omega
    have e : numsTxt sep (x :: y :: r) ++ (rb ++ Y) = x.text ++ (sep ++ (numsTxt sep (y :: r) ++ (rb ++ Y))) := by
      simp [numsTxt, joinWith, List.append_assoc]
    rw [e] at hk ⊢
    obtain ⟨k', rfl⟩ : ∃ k', k = (k' + 1) + x.text.length := ⟨k - 1 - x.text.length, by simp at hk; omega⟩
    rw [parseFloats_digits len N sep rb hL.sp_ne hL.sp_num x.text hch (k' + 1) _ [] acc hacc]
    rw [List.nil_append, parseFloats_sep len N sep rb hL k' _ x hx acc hacc]
    have ih := parseFloats_list N sep rb hL (y :: r) (by simp) (fun z hz => hok z (by simp [hz])) (acc ++ [x])
      (by simp at hlen ⊢; omega) Y k' (by
        have hs := ne_nil_length hL.sep_ne
        simp only [List.length_append] at hk ⊢; omega)
    simpa [List.append_assoc] using ih

theorem readNum_nil : readNum [] = none := by decide

/-- an empty list (the empty budget `$$`) -/
theorem parseFloats_empty (N : Nat) (hN : 0 < N) (sep rb : Str) (hL : ListOK F sep rb) (Y : Str) (k : Nat) :
    F.parseFloats N sep rb (k + 1) (mk len (rb ++ Y)) [] [] = .ok ([], mk len (rb ++ Y)) := by
  rw [parseFloats_close len N sep rb hL k Y [] [] (by simpa using hN), readNum_nil]

end

end Narsese
