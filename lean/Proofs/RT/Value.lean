/-
  Round-trip development, part 13: `build_mid_result` over the items of a printed term / sentence / task,
  and the whole-value round trip `parse (format v) = Ok v`.
-/
import Proofs.RT.ConsumeOne
set_option autoImplicit false

namespace Narsese
open EFormat

/-- an optional item of the sentence line: preceded by the term space when present -/
def sepItem (F : EFormat) (X : Str) : Str := if X.isEmpty then [] else F.spaceTerms ++ X

theorem fmtSentence_eq (F : EFormat) (s : Sentence) :
    F.fmtSentence s = F.fmtTerm s.term ++ (F.fmtPunct s.punct ++
      (sepItem F (F.fmtStamp s.stamp) ++ sepItem F (F.fmtTruth s.truthOrEmpty))) := by
  simp only [fmtSentence, joinLest, sepItem, List.filter]
  by_cases h1 : (F.fmtStamp s.stamp).isEmpty = true <;> by_cases h2 : (F.fmtTruth s.truthOrEmpty).isEmpty = true <;>
    simp [h1, h2, List.append_assoc]

theorem fromPunctuation_self (s : Sentence) :
    Sentence.fromPunctuation s.term s.punct s.stamp s.truthOrEmpty = s := by
  cases s <;> rfl

def withStamp (m : Mid) (st : Stamp) : Mid := if st = .eternal then m else { m with stamp := some st }
def withTruth (m : Mid) (tr : Truth) : Mid := if tr = .empty then m else { m with truth := some tr }

def wfSentence (F : EFormat) (s : Sentence) : Bool := wfT F s.term && wfStamp s.stamp && wfTruth s.truthOrEmpty
def wfTask (F : EFormat) (k : Task) : Bool := wfSentence F k.sentence && wfBudget k.budget

/-- the whole-value parser tries the budget first: the text of a top-level term must not be taken for a
budget — either it cannot begin with the budget opener, or the lenient budget reader backs off on it -/
def topOK (F : EFormat) (t : Term) : Prop :=
  (∀ X, isPre F.budgetL (F.fmtTerm t ++ X) = false) ∨
  (∀ len X, ∃ e, F.consumeBudget (mk len (F.fmtTerm t ++ X)) = .err e)

/-- the cursor is in front of the item text `T` (possibly behind spaces) -/
def Lands (F : EFormat) (len : Nat) (c : Cur) (T : Str) : Prop :=
  c.canConsume = true ∧ F.skipSpaces c = mk len T ∧ T ≠ []

theorem cur_skip_nil (c : Cur) : c.skip [] = c := by
  simp [Cur.skip, Cur.skipN]

section
variable {F : EFormat} (hI : ItemsOK F) (len : Nat)
include hI

omit hI in
theorem bm_end (m : Mid) : ∀ fuel, R (F.buildMid fuel (mk len []) m) (mk len [], m)
  | 0 => R_fuel _
  | f + 1 => by simp [buildMid, R]

omit hI in
theorem bm_step (c : Cur) (T : Str) (m m2 : Mid) (c2 : Cur) (x : Cur × Mid) (hL : Lands F len c T)
    (hone : F.consumeOne (mk len T) m = .ok (c2, m2)) (hrest : ∀ f, R (F.buildMid f c2 m2) x) :
    ∀ fuel, R (F.buildMid fuel c m) x
  | 0 => R_fuel _
  | f + 1 => by
    rw [buildMid]
    simp only [hL.1, hL.2.1, mk_canConsume, nonempty_isEmpty hL.2.2, Bool.not_true, Bool.not_false,
      Bool.false_eq_true, if_false, hone]
    exact hrest f

omit hI in
theorem lands_self (T : Str) (hns : isPre F.spaceParse T = false) (hne : T ≠ []) : Lands F len (mk len T) T :=
  ⟨by simp [nonempty_isEmpty hne], skipSpaces_noprefix F len T hns, hne⟩

theorem lands_sp (T : Str) (hns : isPre F.spaceParse T = false) (hne : T ≠ []) :
    Lands F len (mk len (F.spaceTerms ++ T)) T :=
  ⟨by simp [hne], skipSpaces_sp F hI.base.sp len T hns, hne⟩

theorem lands_items (T : Str) (hns : isPre F.spaceParse T = false) (hne : T ≠ []) :
    Lands F len (mk len (F.spaceItems ++ T)) T :=
  ⟨by simp [hne], by rw [hI.spaceItems]; exact skipSpaces_one F len T hns, hne⟩

/-! ### texts of the items -/

theorem fmtTruth_eq (tr : Truth) (h : tr ≠ .empty) : F.fmtTruth tr = truthTxt F tr.components := by
  cases tr with
  | empty => exact absurd rfl h
  | single f => simp [fmtTruth, fmtFloats, truthTxt, numsTxt, List.append_assoc]
  | double f c => simp [fmtTruth, fmtFloats, truthTxt, numsTxt, List.append_assoc]

omit hI in
theorem fmtBudget_eq (b : Budget) : F.fmtBudget b = budgetTxt F b.components := by
  simp [fmtBudget, fmtFloats, budgetTxt, numsTxt, List.append_assoc]

theorem truthTxt_ne (xs : List Num) : truthTxt F xs ≠ [] := by
  obtain ⟨_, hne, _⟩ := hI.truthList
  simp [truthTxt, hne]

theorem truthTxt_no_space (xs : List Num) (Y : Str) : isPre F.spaceParse (truthTxt F xs ++ Y) = false := by
  obtain ⟨_, _, hsp⟩ := hI.truthList
  simp only [truthTxt, List.append_assoc]
  exact not_isPre_of_incompat hsp _

theorem fmtStamp_shape (st : Stamp) (hst : st ≠ .eternal) :
    ∃ Z, F.fmtStamp st = F.stampL ++ (stampKw F st ++ Z) := by
  cases st with
  | eternal => exact absurd rfl hst
  | past => exact ⟨F.stampR, by simp [fmtStamp, stampKw]⟩
  | present => exact ⟨F.stampR, by simp [fmtStamp, stampKw]⟩
  | future => exact ⟨F.stampR, by simp [fmtStamp, stampKw]⟩
  | fixed t => exact ⟨showInt t ++ F.stampR, by simp [fmtStamp, stampKw]⟩

theorem fmtStamp_ne (st : Stamp) (hst : st ≠ .eternal) : F.fmtStamp st ≠ [] := by
  obtain ⟨Z, e⟩ := fmtStamp_shape hI st hst
  obtain ⟨hkne, _⟩ := hI.stampKw (stampKw_mem st hst)
  rw [e]
  simp [hkne]

theorem fmtStamp_no_space (st : Stamp) (hst : st ≠ .eternal) (Y : Str) :
    isPre F.spaceParse (F.fmtStamp st ++ Y) = false := by
  obtain ⟨Z, e⟩ := fmtStamp_shape hI st hst
  obtain ⟨_, hksp, _, _⟩ := hI.stampKw (stampKw_mem st hst)
  rw [e]
  by_cases hl : F.stampL = []
  · rw [hl]
    simp only [List.nil_append, List.append_assoc]
    exact not_isPre_of_incompat hksp _
  · have := hI.split.2.2.2.2.2.1
    simp only [nonempty_isEmpty hl, Bool.false_or, Bool.and_eq_true] at this
    simp only [List.append_assoc]
    exact not_isPre_of_incompat this.1 _

/-! ### the tail of a sentence line: optional stamp, optional truth -/

theorem bm_truth (m : Mid) (t : Term) (p : Punct) (hm : m.term = some t) (hp : m.punct = some p)
    (htr : m.truth = none) (tr : Truth) (hne : tr ≠ .empty) (hwf : wfTruth tr = true) (c : Cur)
    (hL : Lands F len c (truthTxt F tr.components)) :
    ∀ fuel, R (F.buildMid fuel c m) (mk len [], { m with truth := some tr }) := by
  have h1 := consumeOne_truth hI len m t p hm hp htr tr hne hwf []
  rw [List.append_nil] at h1
  exact bm_step len c _ m _ _ _ hL h1 (bm_end len _)

theorem stampEnd_nil : stampEnd F len [] = mk len [] := by
  unfold stampEnd
  by_cases hr : F.stampR = []
  · simp only [hr, List.append_nil, skipAfterSpaces, cur_skip_nil]
    exact skipSpaces_noprefix F len [] (by
      cases hs : F.spaceParse with
      | nil => exact absurd hs hI.base.sane.space_ne
      | cons c cs => rfl)
  · have := hI.split.2.2.2.2.2.2.2.1
    simp only [nonempty_isEmpty hr, Bool.false_eq_true, if_false, Bool.and_eq_true] at this
    exact skipAfterSpaces_mk hI.base len F.stampR [] (by
      have := not_isPre_of_incompat this.2 []
      simpa using this)

theorem stampEnd_lands (T : Str) (hns : isPre F.spaceParse T = false) (hne : T ≠ []) :
    Lands F len (stampEnd F len (F.spaceTerms ++ T)) T := by
  unfold stampEnd
  by_cases hr : F.stampR = []
  · simp only [hr, List.nil_append, skipAfterSpaces, cur_skip_nil]
    rw [skipSpaces_sp F hI.base.sp len T hns]
    exact lands_self len T hns hne
  · have := hI.split.2.2.2.2.2.2.2.1
    simp only [nonempty_isEmpty hr, Bool.false_eq_true, if_false, Bool.and_eq_true] at this
    rw [skipAfterSpaces_mk hI.base len F.stampR _ (not_isPre_of_incompat this.2 _)]
    exact lands_sp hI len T hns hne

/-- what follows the number of a fixed stamp is not part of the number -/
theorem stamp_follow (Y : Str) (hY : Y = [] ∨ ∃ Z, Y = F.spaceTerms ++ (F.truthL ++ Z)) :
    headNotIn (F.stampR ++ Y) signChars = true := by
  have := hI.split.2.2.2.2.2.2.2.1
  by_cases hr : F.stampR = []
  · simp only [hr, List.isEmpty_nil, if_true] at this
    rcases hY with rfl | ⟨Z, rfl⟩
    · simp [hr, headNotIn]
    · obtain ⟨_, hne, _⟩ := hI.truthList
      rw [hr, List.nil_append, ← List.append_assoc]
      exact headNotIn_app _ (by simp [hne]) this Z
  · simp only [nonempty_isEmpty hr, Bool.false_eq_true, if_false, Bool.and_eq_true] at this
    exact headNotIn_app _ hr this.1 Y

theorem bm_tail (m : Mid) (t : Term) (p : Punct) (hm : m.term = some t) (hp : m.punct = some p)
    (hs : m.stamp = none) (htr : m.truth = none) (st : Stamp) (hwst : wfStamp st = true)
    (tr : Truth) (hwtr : wfTruth tr = true) :
    ∀ fuel, R (F.buildMid fuel (mk len (sepItem F (F.fmtStamp st) ++ sepItem F (F.fmtTruth tr))) m)
      (mk len [], withTruth (withStamp m st) tr) := by
  by_cases hst : st = .eternal
  · subst hst
    by_cases hte : tr = .empty
    · subst hte
      simpa [sepItem, fmtStamp, fmtTruth, withTruth, withStamp] using bm_end (F := F) len m
    · have e : sepItem F (F.fmtStamp .eternal) ++ sepItem F (F.fmtTruth tr) =
          F.spaceTerms ++ truthTxt F tr.components := by
        simp [sepItem, fmtStamp, fmtTruth_eq hI tr hte, nonempty_isEmpty (truthTxt_ne hI tr.components)]
      rw [e]
      simp only [withStamp, withTruth, hte, if_true, if_false]
      have hns := truthTxt_no_space hI tr.components []
      rw [List.append_nil] at hns
      exact bm_truth hI len m t p hm hp htr tr hte hwtr _ (lands_sp hI len _ hns (truthTxt_ne hI _))
  · have hsne := fmtStamp_ne hI st hst
    have e : sepItem F (F.fmtStamp st) ++ sepItem F (F.fmtTruth tr) =
        F.spaceTerms ++ (F.fmtStamp st ++ sepItem F (F.fmtTruth tr)) := by
      simp [sepItem, nonempty_isEmpty hsne]
    rw [e]
    have hm3 : withStamp m st = { m with stamp := some st } := by simp [withStamp, hst]
    rw [hm3]
    by_cases hte : tr = .empty
    · subst hte
      have hY := stamp_follow hI [] (.inl rfl)
      have h1 := consumeOne_stamp hI len m t p hm hp hs st hst hwst [] hY
      rw [stampEnd_nil hI len] at h1
      simp only [withTruth, if_true, sepItem, fmtTruth, List.isEmpty_nil]
      have hns := fmtStamp_no_space hI st hst []
      exact bm_step len _ _ m _ _ _ (lands_sp hI len _ hns (by simpa using hsne)) h1 (bm_end len _)
    · have e2 : sepItem F (F.fmtTruth tr) = F.spaceTerms ++ truthTxt F tr.components := by
        simp [sepItem, fmtTruth_eq hI tr hte, nonempty_isEmpty (truthTxt_ne hI tr.components)]
      rw [e2]
      simp only [withTruth, hte, if_false]
      have hY := stamp_follow hI (F.spaceTerms ++ truthTxt F tr.components)
        (.inr ⟨numsTxt F.truthSep tr.components ++ F.truthR, by simp [truthTxt]⟩)
      have h1 := consumeOne_stamp hI len m t p hm hp hs st hst hwst _ hY
      have hns := fmtStamp_no_space hI st hst (F.spaceTerms ++ truthTxt F tr.components)
      have hnt := truthTxt_no_space hI tr.components []
      rw [List.append_nil] at hnt
      refine bm_step len _ _ m _ _ _ (lands_sp hI len _ hns (by simp [hsne])) h1 ?_
      exact bm_truth hI len { m with stamp := some st } t p hm hp htr tr hte hwtr _ (stampEnd_lands hI len _ hnt (truthTxt_ne hI _))

/-! ### term, then punctuation, then the tail -/

theorem fmtTerm_ne (t : Term) (ht : wfT F t = true) : F.fmtTerm t ≠ [] := by
  intro h
  have hs := fmtTerm_starts hI.base t ht []
  rw [h] at hs
  rcases hs with ⟨k, hk, hp⟩ | ⟨c, cs, h2, _⟩
  · have hk0 : k = [] := by
      obtain ⟨r, hr⟩ := (isPre_iff k _).mp hp
      cases k with
      | nil => rfl
      | cons a as => simp at hr
    subst hk0
    simp only [starters, List.mem_append] at hk
    rcases hk with hk | hk
    · exact (hI.base.opener hk).1 rfl
    · exact hI.base.prefix_ne hk rfl
  · simp at h2

end

end Narsese
