/-
  Round-trip development, part 5: the component loop (`parse_compound_terms`) on formatter output.
-/
import Proofs.RT.Atom
set_option autoImplicit false

namespace Narsese
open EFormat

/-- "correct unless the fuel ran out" — fuel sufficiency is proved separately (`parseTerm_good`) -/
def R {α : Type} (r : PRes α) (x : α) : Prop := r = .fuel ∨ r = .ok x

theorem R_fuel {α : Type} (x : α) : R (PRes.fuel : PRes α) x := .inl rfl
theorem R_ok {α : Type} (x : α) : R (PRes.ok x) x := .inr rfl

/-- every component preceded by `separator ++ space` -/
def tailTxt (F : EFormat) : List Str → Str
  | [] => []
  | s :: ss => F.separator ++ F.spaceTerms ++ s ++ tailTxt F ss

theorem joinComponents_cons (F : EFormat) (s : Str) (ss : List Str) :
    F.joinComponents (s :: ss) = s ++ tailTxt F ss := by
  induction ss generalizing s with
  | nil => simp [joinComponents, joinWith, tailTxt]
  | cons x xs ih =>
    have := ih x
    simp only [joinComponents] at this ⊢
    simp only [joinWith, tailTxt, this, List.append_assoc]

theorem find?_at {α : Type} (p : α → Bool) : ∀ (l : List α) (j : Nat) (x : α), l[j]? = some x → p x = true →
    (∀ i, i < j → ∀ y, l[i]? = some y → p y = false) → l.find? p = some x
  | [], j, x, h, _, _ => by simp at h
  | a :: l, 0, x, h, hp, _ => by
    simp only [List.getElem?_cons_zero, Option.some.injEq] at h
    subst h; simp [List.find?, hp]
  | a :: l, j + 1, x, h, hp, hlt => by
    have ha : p a = false := hlt 0 (by omega) a (by simp)
    simp only [List.find?, ha]
    exact find?_at p l j x (by simpa using h) hp (fun i hi y hy => hlt (i + 1) (by omega) y (by simpa using hy))

theorem FormatOK.conn_order {F : EFormat} (hF : FormatOK F) (i j : Nat) (hij : i < j) (e c : Str × ConnK)
    (he : F.connecters[i]? = some e) (hc : F.connecters[j]? = some c) (Y : Str) :
    isPre e.1 (c.1 ++ F.separator ++ Y) = false := by
  have h := hF.split.2.2.2.2.2.2.2.2.2.2.2.2.2.2.2
  rw [List.all_eq_true] at h
  have hj : j < F.connecters.length := by
    cases hl : F.connecters[j]? with
    | none => rw [hl] at hc; simp at hc
    | some v => exact (List.getElem?_eq_some_iff.mp hl).1
  have h1 := h j (List.mem_range.mpr hj)
  rw [List.all_eq_true] at h1
  have h2 := h1 i (List.mem_range.mpr hij)
  simp only [he, hc, Bool.not_eq_true'] at h2
  exact not_isPre_of_not_compat h2 Y

theorem dedupSem_nodup_id : ∀ (xs acc : List Term), NoDupR sem (acc ++ xs) → dedupSem acc xs = acc ++ xs
  | [], acc, _ => by simp [dedupSem]
  | x :: xs, acc, h => by
    have hx : acc.any (fun y => sem y x) = false := by
      rw [List.any_eq_false]
      intro y hy
      -- y ∈ acc precedes x in `acc ++ x :: xs`
      have : ∀ (a : List Term), NoDupR sem (a ++ x :: xs) → ∀ y ∈ a, sem y x = false := by
        intro a
        induction a with
        | nil => intro _ y hy; simp at hy
        | cons z zs ih =>
          intro hnd y hy
          simp only [List.cons_append, NoDupR] at hnd
          simp only [List.mem_cons] at hy
          rcases hy with rfl | hy
          · exact hnd.1 x (by simp)
          · exact ih hnd.2 y hy
      simp [this acc h y hy]
    simp only [dedupSem, hx, Bool.false_eq_true, if_false]
    have := dedupSem_nodup_id xs (acc ++ [x]) (by simpa using h)
    simpa using this

theorem mkSetSem_nodup_id (ts : List Term) (h : nodupSem ts = true) : mkSetSem ts = ts := by
  have := dedupSem_nodup_id ts [] (by simpa using (nodupSem_iff ts).mp h)
  simpa [mkSetSem] using this

section
variable {F : EFormat} (hF : FormatOK F) (len : Nat)
include hF

theorem closer_terminator {rb : Str} (hrb : rb ∈ closers F) : terminatorOK F rb = true :=
  hF.terminator (by simp only [List.mem_append]; exact .inr hrb)

theorem terminator_parts {x : Str} (hx : terminatorOK F x = true) :
    x ≠ [] ∧ x.head?.all (fun c => !F.isName c) = true := by
  simp only [terminatorOK, Bool.and_eq_true, Bool.not_eq_true', List.isEmpty_eq_false_iff] at hx
  exact ⟨hx.1.1, hx.1.2⟩

/-- what follows a component inside brackets stops the name scanner -/
theorem tail_stop (ss : List Str) {rb : Str} (hrb : rb ∈ closers F) (rest : Str) :
    Stop F (tailTxt F ss ++ rb ++ rest) := by
  cases ss with
  | nil =>
    obtain ⟨hne, hh⟩ := terminator_parts hF (closer_terminator hF hrb)
    simpa [tailTxt] using stop_of_kw F rb rest hne hh
  | cons s ss =>
    obtain ⟨hne, hh⟩ := terminator_parts hF (hF.terminator (x := F.separator) (by simp))
    simp only [tailTxt, List.append_assoc]
    exact stop_of_kw F F.separator _ hne hh

/-- at the closing bracket the loop stops and leaves the cursor on the bracket -/
theorem loop_end {rb : Str} (hrb : rb ∈ closers F) (fuel : Nat) (rest : Str) (acc : List Term) :
    R (F.parseTerms fuel rb (mk len (rb ++ rest)) acc) (acc, mk len (rb ++ rest)) := by
  cases fuel with
  | zero => exact R_fuel _
  | succ fuel =>
    obtain ⟨hne, _⟩ := terminator_parts hF (closer_terminator hF hrb)
    obtain ⟨h1, h2⟩ := hF.closer hrb
    have e1 : isPre F.spaceParse (rb ++ rest) = false := not_isPre_of_incompat h1 rest
    have e2 : isPre F.separator (rb ++ rest) = false := not_isPre_of_incompat h2 rest
    have hc : (rb ++ rest).isEmpty = false := by cases rb <;> simp_all
    unfold parseTerms
    simp only [mk_canConsume, hc, mk_startsWith, e1, e2, isPre_append]
    exact R_ok _

/-- one component WITHOUT a leading separator (first element of a set) -/
theorem loop_elem {rb : Str} (hrb : rb ∈ closers F) (txt X : Str) (t : Term) (acc : List Term)
    (res : List Term × Cur)
    (hstart : Starts F (txt ++ X))
    (hpt : ∀ fuel', R (F.parseTerm fuel' (mk len (txt ++ X))) (t, mk len X))
    (cont : ∀ fuel', R (F.parseTerms fuel' rb (mk len X) (acc ++ [t])) res) (fuel : Nat) :
    R (F.parseTerms fuel rb (mk len (txt ++ X)) acc) res := by
  cases fuel with
  | zero => exact R_fuel _
  | succ fuel =>
    have e1 : isPre F.spaceParse (txt ++ X) = false :=
      terminator_not_pre (hF.terminator (x := F.spaceParse) (by simp)) hstart
    have e2 : isPre F.separator (txt ++ X) = false :=
      terminator_not_pre (hF.terminator (x := F.separator) (by simp)) hstart
    have e3 : isPre rb (txt ++ X) = false := terminator_not_pre (closer_terminator hF hrb) hstart
    have hc : (txt ++ X).isEmpty = false := by
      rcases hstart with ⟨k, hk, hp⟩ | ⟨c, cs, he, _⟩
      · have hkne : k ≠ [] := by
          simp only [starters, List.mem_append] at hk
          rcases hk with hk | hk
          · exact (hF.opener hk).1
          · exact hF.prefix_ne hk
        obtain ⟨r, hr⟩ := (isPre_iff k _).mp hp
        rw [hr]; cases k <;> simp_all
      · rw [he]; rfl
    unfold parseTerms
    simp only [mk_canConsume, hc, mk_startsWith, e1, e2, e3]
    rcases hpt fuel with h | h
    · simp [h, R]
    · simp only [h]
      exact cont fuel

/-- one component preceded by `separator ++ space` -/
theorem loop_step {rb : Str} (hrb : rb ∈ closers F) (txt X : Str) (t : Term) (acc : List Term)
    (res : List Term × Cur)
    (hstart : Starts F (txt ++ X))
    (hpt : ∀ fuel', R (F.parseTerm fuel' (mk len (txt ++ X))) (t, mk len X))
    (cont : ∀ fuel', R (F.parseTerms fuel' rb (mk len X) (acc ++ [t])) res) (fuel : Nat) :
    R (F.parseTerms fuel rb (mk len (F.separator ++ F.spaceTerms ++ txt ++ X)) acc) res := by
  have hsepT := hF.terminator (x := F.separator) (by simp)
  obtain ⟨hsne, _⟩ := terminator_parts hF hsepT
  have e1 : ∀ Y, isPre F.spaceParse (F.separator ++ Y) = false := fun Y => not_isPre_of_incompat hF.sp_sep Y
  have elem := loop_elem hF len hrb txt X t acc res hstart hpt cont
  have espace : isPre F.spaceParse (txt ++ X) = false :=
    terminator_not_pre (hF.terminator (x := F.spaceParse) (by simp)) hstart
  simp only [List.append_assoc]
  cases fuel with
  | zero => exact R_fuel _
  | succ fuel =>
    unfold parseTerms
    have hc : (F.separator ++ (F.spaceTerms ++ (txt ++ X))).isEmpty = false := by cases hs : F.separator <;> simp_all
    simp only [mk_canConsume, hc, mk_startsWith, e1, isPre_append]
    simp only [Bool.not_false, Bool.false_eq_true, if_false, if_true, mk_skip]
    -- now at `space ++ txt ++ X`
    rcases hF.sp with hsp | hsp
    · rw [hsp]
      cases fuel with
      | zero => exact R_fuel _
      | succ fuel =>
        unfold parseTerms
        have hspne : F.spaceParse ≠ [] := hF.sane.space_ne
        have hc2 : (F.spaceParse ++ (txt ++ X)).isEmpty = false := by cases hs : F.spaceParse <;> simp_all
        simp only [mk_canConsume, hc2, mk_startsWith, isPre_append]
        simp only [Bool.not_false, Bool.false_eq_true, if_false, if_true, mk_skip]
        exact elem fuel
    · rw [hsp]
      exact elem fuel

end

end Narsese
