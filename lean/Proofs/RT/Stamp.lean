/-
  Round-trip development, part 11: punctuation and time stamps on the formatter's own text.
-/
import Proofs.RT.Sentence
set_option autoImplicit false

namespace Narsese
open EFormat

/-! ### signed integers -/

theorem spanSigned_app : ∀ (ds Z : Str), (∀ c ∈ ds, (isDigit c || c = '+' || c = '-') = true) →
    (∀ c ∈ Z.head?, (isDigit c || c = '+' || c = '-') = false) → spanSigned (ds ++ Z) = (ds, Z)
  | [], Z, _, hz => by
    cases Z with
    | nil => rfl
    | cons z zs =>
      have := hz z (by simp)
      simp only [List.nil_append, spanSigned, this, Bool.false_eq_true, if_false]
  | d :: ds, Z, hd, hz => by
    have h1 := hd d (by simp)
    have ih := spanSigned_app ds Z (fun c hc => hd c (by simp [hc])) hz
    simp only [List.cons_append, spanSigned, h1, if_true, ih]

theorem showInt_chars (t : Int) :
    showInt t ≠ [] ∧ ∀ c ∈ showInt t, (isDigit c || c = '+' || c = '-') = true := by
  cases t with
  | ofNat n =>
    obtain ⟨_, _, c, r, h, _⟩ := showNat_spec n
    refine ⟨by simp [showInt, h], ?_⟩
    intro c hc
    obtain ⟨d, hd, rfl⟩ := showNat_chars n c (by simpa [showInt] using hc)
    simp [isDigit_digitChar d hd]
  | negSucc n =>
    refine ⟨by simp [showInt], ?_⟩
    intro c hc
    simp only [showInt, List.mem_cons] at hc
    rcases hc with rfl | hc
    · simp
    · obtain ⟨d, hd, rfl⟩ := showNat_chars (n + 1) c hc
      simp [isDigit_digitChar d hd]

theorem headNotIn_sign {k : Str} (h : headNotIn k signChars = true) :
    ∀ c ∈ k.head?, (isDigit c || c = '+' || c = '-') = false := by
  intro c hc
  cases k with
  | nil => simp at hc
  | cons z zs =>
    simp only [List.head?_cons, Option.mem_def, Option.some.injEq] at hc
    subst hc
    simp only [headNotIn, List.head?_cons, Option.all_some, Bool.not_eq_true', List.contains_eq_mem,
      decide_eq_false_iff_not, signChars, List.mem_append, List.mem_cons, List.not_mem_nil, or_false, not_or] at h
    cases hd : isDigit z with
    | true => exact absurd (isDigit_digitChars z hd) h.1
    | false => simp [h.2.1, h.2.2]

theorem headNotIn_app {k : Str} (cs : Str) (hk : k ≠ []) (h : headNotIn k cs = true) (Y : Str) :
    headNotIn (k ++ Y) cs = true := by
  cases k with
  | nil => exact absurd rfl hk
  | cons z zs => simpa [headNotIn] using h

/-- a text starting with a sign or digit does not start with a keyword whose head is neither -/
theorem signChar_not_pre (k : Str) (hk : k ≠ []) (hh : headNotIn k signChars = true) (c : Char) (cs : Str)
    (hc : (isDigit c || c = '+' || c = '-') = true) : isPre k (c :: cs) = false := by
  apply not_isPre_head _ hk
  intro y hy heq
  subst heq
  have := headNotIn_sign hh y hy
  rw [this] at hc
  exact absurd hc (by simp)

theorem parseIsizeAt_showInt (len : Nat) (t : Int) (h1 : -(2 ^ 63 : Int) ≤ t) (h2 : t < 2 ^ 63) (Z : Str)
    (hZ : ∀ c ∈ Z.head?, (isDigit c || c = '+' || c = '-') = false) :
    parseIsizeAt (mk len (showInt t ++ Z)) = .ok (t, mk len Z) := by
  obtain ⟨hne, hch⟩ := showInt_chars t
  unfold parseIsizeAt
  simp only [mk_rest, spanSigned_app _ _ hch hZ, nonempty_isEmpty hne, Bool.false_eq_true, if_false,
    parseIsize_showInt t h1 h2]
  rfl

/-! ### values the formatter prints in a form that reads back -/

def wfStamp : Stamp → Bool
  | .fixed t => decide (-(2 ^ 63 : Int) ≤ t) && decide (t < 2 ^ 63)
  | _ => true
def wfTruth (tr : Truth) : Bool := tr.components.all Num.ok
def wfBudget (b : Budget) : Bool := b.components.all Num.ok

section
variable {F : EFormat} (hI : ItemsOK F) (len : Nat)
include hI

/-! ### punctuation -/

theorem ItemsOK.punct_pairs :
    incompat F.pJudgement F.pGoal = true ∧ incompat F.pJudgement F.pQuestion = true ∧
    incompat F.pJudgement F.pQuest = true ∧ incompat F.pGoal F.pQuestion = true ∧
    incompat F.pGoal F.pQuest = true ∧ incompat F.pQuestion F.pQuest = true := by
  have h := hI.split.2.1
  simp only [pairwiseB, punctKws, List.all_cons, List.all_nil, Bool.and_true, Bool.and_eq_true] at h
  obtain ⟨⟨a, b, c⟩, ⟨d, e⟩, f⟩ := h
  exact ⟨a, b, c, d, e, f⟩

omit hI in
theorem fmtPunct_mem (p : Punct) : F.fmtPunct p ∈ punctKws F := by
  cases p <;> simp [fmtPunct, punctKws]

theorem consumePunct_txt (p : Punct) (Y : Str) :
    F.consumePunct (mk len (F.fmtPunct p ++ Y)) = .ok (p, mk len Y) := by
  obtain ⟨h12, h13, h14, h23, h24, h34⟩ := hI.punct_pairs
  unfold consumePunct
  cases p with
  | judgement => simp only [fmtPunct, mk_startsWith, isPre_append, if_true, mk_skip]
  | goal =>
    simp only [fmtPunct, mk_startsWith, isPre_append, not_isPre_of_incompat h12 Y, Bool.false_eq_true, if_false,
      if_true, mk_skip]
  | question =>
    simp only [fmtPunct, mk_startsWith, isPre_append, not_isPre_of_incompat h13 Y, not_isPre_of_incompat h23 Y,
      Bool.false_eq_true, if_false, if_true, mk_skip]
  | quest =>
    simp only [fmtPunct, mk_startsWith, isPre_append, not_isPre_of_incompat h14 Y, not_isPre_of_incompat h24 Y,
      not_isPre_of_incompat h34 Y, Bool.false_eq_true, if_false, if_true, mk_skip]

/-! ### stamps -/

theorem ItemsOK.stamp_pairs :
    incompat F.stampFixed F.stampPast = true ∧ incompat F.stampFixed F.stampPresent = true ∧
    incompat F.stampFixed F.stampFuture = true ∧ incompat F.stampPast F.stampPresent = true ∧
    incompat F.stampPast F.stampFuture = true ∧ incompat F.stampPresent F.stampFuture = true := by
  have h := hI.split.2.2.2.1
  simp only [pairwiseB, stampKws, List.all_cons, List.all_nil, Bool.and_true, Bool.and_eq_true] at h
  obtain ⟨⟨a, b, c⟩, ⟨d, e⟩, f⟩ := h
  exact ⟨a, b, c, d, e, f⟩

/-- the keyword a non-eternal stamp is printed with -/
def stampKw (F : EFormat) : Stamp → Str
  | .eternal => []
  | .past => F.stampPast | .present => F.stampPresent | .future => F.stampFuture | .fixed _ => F.stampFixed

omit hI in
theorem stampKw_mem (st : Stamp) (h : st ≠ .eternal) : stampKw F st ∈ stampKws F := by
  cases st <;> simp_all [stampKw, stampKws]

/-- what the stamp reader leaves behind: the closing bracket is skipped *after* spaces -/
def stampEnd (F : EFormat) (len : Nat) (Y : Str) : Cur := F.skipAfterSpaces (mk len (F.stampR ++ Y)) F.stampR

theorem consumeStamp_txt (st : Stamp) (hst : st ≠ .eternal) (hwf : wfStamp st = true) (Y : Str)
    (hY : headNotIn (F.stampR ++ Y) signChars = true) :
    F.consumeStamp (mk len (F.fmtStamp st ++ Y)) = .ok (st, stampEnd F len Y) := by
  obtain ⟨h12, h13, h14, h23, h24, h34⟩ := hI.stamp_pairs
  have hsp := fun k hk => (hI.stampKw (k := k) hk).2.1
  unfold consumeStamp
  cases st with
  | eternal => exact absurd rfl hst
  | past =>
    have e : F.fmtStamp .past ++ Y = F.stampL ++ (F.stampPast ++ (F.stampR ++ Y)) := by simp [fmtStamp]
    rw [e, skipAndSpaces_mk hI.base len F.stampL _ (not_isPre_of_incompat (hsp _ (by simp [stampKws])) _)]
    simp only [mk_startsWith, isPre_append, not_isPre_of_incompat h12 _, Bool.false_eq_true, if_false,
      if_true, mk_skip, stampEnd]
  | present =>
    have e : F.fmtStamp .present ++ Y = F.stampL ++ (F.stampPresent ++ (F.stampR ++ Y)) := by simp [fmtStamp]
    rw [e, skipAndSpaces_mk hI.base len F.stampL _ (not_isPre_of_incompat (hsp _ (by simp [stampKws])) _)]
    simp only [mk_startsWith, isPre_append, not_isPre_of_incompat h13 _, not_isPre_of_incompat h23 _,
      Bool.false_eq_true, if_false, if_true, mk_skip, stampEnd]
  | future =>
    have e : F.fmtStamp .future ++ Y = F.stampL ++ (F.stampFuture ++ (F.stampR ++ Y)) := by simp [fmtStamp]
    rw [e, skipAndSpaces_mk hI.base len F.stampL _ (not_isPre_of_incompat (hsp _ (by simp [stampKws])) _)]
    simp only [mk_startsWith, isPre_append, not_isPre_of_incompat h14 _, not_isPre_of_incompat h24 _,
      not_isPre_of_incompat h34 _, Bool.false_eq_true, if_false, if_true, mk_skip, stampEnd]
  | fixed t =>
    simp only [wfStamp, Bool.and_eq_true, decide_eq_true_eq] at hwf
    obtain ⟨hne, hch⟩ := showInt_chars t
    have e : F.fmtStamp (.fixed t) ++ Y = F.stampL ++ (F.stampFixed ++ (showInt t ++ (F.stampR ++ Y))) := by
      simp [fmtStamp]
    have hns : isPre F.spaceParse (showInt t ++ (F.stampR ++ Y)) = false := by
      cases hs : showInt t with
      | nil => exact absurd hs hne
      | cons c cs =>
        rw [hs] at hch
        exact signChar_not_pre _ hI.base.sane.space_ne hI.split.2.2.2.2.2.2.1 c _ (hch c (by simp))
    rw [e, skipAndSpaces_mk hI.base len F.stampL _ (not_isPre_of_incompat (hsp _ (by simp [stampKws])) _)]
    simp only [mk_startsWith, isPre_append, if_true]
    rw [skipAndSpaces_mk hI.base len F.stampFixed _ hns,
      parseIsizeAt_showInt len t hwf.1 hwf.2 _ (headNotIn_sign hY)]
    simp only [stampEnd]

end

end Narsese
