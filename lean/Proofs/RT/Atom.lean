/-
  Round-trip development, part 4: atoms.
-/
import Proofs.RT.Facts
set_option autoImplicit false

namespace Narsese
open EFormat

/-- well-formed ATOMIC terms -/
def isAtomic : Term → Bool
  | .atom _ _ | .placeholder | .interval _ => true
  | _ => false

theorem digit_mem (d : Nat) (h : d < 10) : digitChar d ∈ digitChars := by
  simp only [digitChars, List.mem_map, List.mem_range]
  exact ⟨d, h, rfl⟩

/-- the decimal text of a machine word scans as a name and reads back -/
theorem showNat_scan {F : EFormat} (hF : FormatOK F) (n : Nat) (rest : Str) (hst : Stop F rest) :
    F.scanName (showNat n ++ rest) = (showNat n, rest) := by
  apply scanName_app F _ rest _ _ hst
  · intro c hc
    obtain ⟨d, hd, rfl⟩ := showNat_chars n c hc
    exact hF.digits _ (digit_mem d hd)
  · intro s hs cop hcop
    -- `s` is a non-empty suffix of digits, `cop` is non-empty and does not start with a digit
    have hcop' : cop ∈ F.copulaTable.map (·.1) := by rw [← hF.copulas_eq]; exact hcop
    obtain ⟨hne, _, hhead⟩ := hF.copula hcop'
    have hsuf : ∀ (l : Str) (s : Str), s ∈ sufs l → ∃ c cs, s = c :: cs ∧ c ∈ l := by
      intro l
      induction l with
      | nil => intro s hs; simp [sufs] at hs
      | cons x xs ih =>
        intro s hs
        simp only [sufs, List.mem_cons] at hs
        rcases hs with rfl | hs
        · exact ⟨x, xs, rfl, by simp⟩
        · obtain ⟨c, cs, rfl, hc⟩ := ih s hs
          exact ⟨c, cs, rfl, by simp [hc]⟩
    obtain ⟨c, cs, rfl, hc⟩ := hsuf _ s hs
    obtain ⟨d, hd, rfl⟩ := showNat_chars n c hc
    cases cop with
    | nil => exact absurd rfl hne
    | cons y ys =>
      have hy : y ≠ digitChar d := by
        intro he
        subst he
        simp only [List.head?_cons, Option.all_some, Bool.not_eq_true', List.contains_eq_mem,
          decide_eq_false_iff_not] at hhead
        exact hhead (digit_mem d hd)
      simp [compat, isPre, strip, hy, Ne.symm hy]

/-- no opener is a prefix of an atom's text -/
theorem atom_not_opener {F : EFormat} (hF : FormatOK F) (t : Term) (ha : isAtomic t = true) (ht : wfT F t = true)
    (X : Str) : ∀ o ∈ openers F, isPre o (F.fmtTerm t ++ X) = false := by
  intro o ho
  obtain ⟨hne, hhead, hinc⟩ := hF.opener ho
  have viaPrefix : ∀ p ∈ prefixes6 F, ∀ Y, isPre o (p ++ Y) = false :=
    fun p hp Y => not_isPre_of_incompat (hinc p hp) Y
  cases t with
  | atom k n =>
    simp only [wfT] at ht
    by_cases hk : k = .word
    · subst hk
      obtain ⟨c, cs, rfl, hc⟩ := nameOK_head ht
      simp only [fmtTerm, atomPrefix, hF.preWord, List.nil_append, List.cons_append]
      apply not_isPre_head _ hne
      intro y hy heq
      subst heq
      cases o with
      | nil => exact absurd rfl hne
      | cons z zs => simp at hy hhead; subst hy; simp [hc] at hhead
    · simp only [fmtTerm, List.append_assoc]
      exact viaPrefix _ (atomPrefix_mem k hk) _
  | placeholder => simp only [fmtTerm]; exact viaPrefix _ (by simp [prefixes6]) _
  | interval n => simp only [fmtTerm, List.append_assoc]; exact viaPrefix _ (by simp [prefixes6]) _
  | _ => simp [isAtomic] at ha

theorem prefixes_pair {F : EFormat} (hF : FormatOK F) :
    pairwiseB incompat (prefixes6 F) = true := hF.split.2.2.2.2.2.2.1

theorem incompat_symm (a b : Str) : incompat a b = incompat b a := by
  simp [incompat, Bool.and_comm]

theorem skip_lit (len : Nat) (k r : Str) :
    ({ rest := k ++ r, over := 0, len := len } : Cur).skip k = { rest := r, over := 0, len := len } := by
  simp [Cur.skip, Cur.skipN]

/-- `parse_term` on an atom's own text returns that atom and stops exactly behind it -/
theorem parseTerm_atom {F : EFormat} (hF : FormatOK F) (t : Term) (ha : isAtomic t = true) (ht : wfT F t = true)
    (fuel len : Nat) (rest : Str) (hst : Stop F rest) :
    F.parseTerm (fuel + 1) (mk len (F.fmtTerm t ++ rest)) = .ok (t, mk len rest) := by
  have hno := atom_not_opener hF t ha ht rest
  have h1 := hno F.extSetL (by simp [openers])
  have h2 := hno F.intSetL (by simp [openers])
  have h3 := hno F.compL (by simp [openers])
  have h4 := hno F.stmtL (by simp [openers])
  unfold parseTerm
  simp only [mk_startsWith, h1, h2, h3, h4, Bool.false_eq_true, if_false]
  -- pairwise incompatibility of the six prefixes, unpacked
  have hp := prefixes_pair hF
  have pg := pairwiseB_get incompat (prefixes6 F) hp
  have h12 := pg 0 1 (by omega) _ _ rfl rfl
  have h13 := pg 0 2 (by omega) _ _ rfl rfl
  have h14 := pg 0 3 (by omega) _ _ rfl rfl
  have h15 := pg 0 4 (by omega) _ _ rfl rfl
  have h16 := pg 0 5 (by omega) _ _ rfl rfl
  have h23 := pg 1 2 (by omega) _ _ rfl rfl
  have h24 := pg 1 3 (by omega) _ _ rfl rfl
  have h25 := pg 1 4 (by omega) _ _ rfl rfl
  have h26 := pg 1 5 (by omega) _ _ rfl rfl
  have h34 := pg 2 3 (by omega) _ _ rfl rfl
  have h35 := pg 2 4 (by omega) _ _ rfl rfl
  have h36 := pg 2 5 (by omega) _ _ rfl rfl
  have h45 := pg 3 4 (by omega) _ _ rfl rfl
  have h46 := pg 3 5 (by omega) _ _ rfl rfl
  have h56 := pg 4 5 (by omega) _ _ rfl rfl
  have np : ∀ {a b : Str}, incompat a b = true → ∀ Y, isPre a (b ++ Y) = false :=
    fun h Y => not_isPre_of_incompat h Y
  have np' : ∀ {a b : Str}, incompat b a = true → ∀ Y, isPre a (b ++ Y) = false :=
    fun h Y => not_isPre_of_incompat (by rw [incompat_symm]; exact h) Y
  cases t with
  | atom k n =>
    simp only [wfT] at ht
    have hscan := nameOK_scan F n rest ht hst
    cases k with
    | word =>
      -- none of the six prefixes matches a well-formed name
      have hn : ∀ p ∈ prefixes6 F, isPre p (n ++ rest) = false := by
        intro p hp
        simp only [nameOK, Bool.and_eq_true, List.all_eq_true, Bool.not_eq_true'] at ht
        exact not_isPre_of_not_compat (ht.2 p hp) rest
      simp only [prefixes6, List.mem_cons, List.mem_nil_iff, or_false, forall_eq_or_imp, forall_eq] at hn
      obtain ⟨a1, a2, a3, a4, a5, a6⟩ := hn
      have a7 : isPre ([] : Str) (n ++ rest) = true := rfl
      simp only [fmtTerm, atomPrefix, hF.preWord, List.nil_append, parseAtom, atomHeads, List.find?, mk_startsWith,
        a1, a2, a3, a4, a5, a6, a7]
      have hne : n ≠ [] := by
        simp only [nameOK, Bool.and_eq_true, Bool.not_eq_true', List.isEmpty_eq_false_iff] at ht; exact ht.1.1.1
      simp [mk, Cur.skip, Cur.skipN, hscan, hne]
    | ivar =>
      simp only [fmtTerm, atomPrefix, List.append_assoc, parseAtom, atomHeads, List.find?, mk_startsWith,
        np h12 _, isPre_append]
      have hne : n ≠ [] := by
        simp only [nameOK, Bool.and_eq_true, Bool.not_eq_true', List.isEmpty_eq_false_iff] at ht; exact ht.1.1.1
      simp only [mk_skip]
      simp [mk, hscan, hne]
    | dvar =>
      simp only [fmtTerm, atomPrefix, List.append_assoc, parseAtom, atomHeads, List.find?, mk_startsWith,
        np h13 _, np h23 _, isPre_append]
      have hne : n ≠ [] := by
        simp only [nameOK, Bool.and_eq_true, Bool.not_eq_true', List.isEmpty_eq_false_iff] at ht; exact ht.1.1.1
      simp only [mk_skip]
      simp [mk, hscan, hne]
    | qvar =>
      simp only [fmtTerm, atomPrefix, List.append_assoc, parseAtom, atomHeads, List.find?, mk_startsWith,
        np h14 _, np h24 _, np h34 _, isPre_append]
      have hne : n ≠ [] := by
        simp only [nameOK, Bool.and_eq_true, Bool.not_eq_true', List.isEmpty_eq_false_iff] at ht; exact ht.1.1.1
      simp only [mk_skip]
      simp [mk, hscan, hne]
    | op =>
      simp only [fmtTerm, atomPrefix, List.append_assoc, parseAtom, atomHeads, List.find?, mk_startsWith,
        np h16 _, np h26 _, np h36 _, np h46 _, np h56 _, isPre_append]
      have hne : n ≠ [] := by
        simp only [nameOK, Bool.and_eq_true, Bool.not_eq_true', List.isEmpty_eq_false_iff] at ht; exact ht.1.1.1
      simp only [mk_skip]
      simp [mk, hscan, hne]
  | placeholder =>
    simp only [fmtTerm, parseAtom, atomHeads, List.find?, mk_startsWith, isPre_append]
    have : F.scanName rest = ([], rest) := hst
    simp only [mk_skip]
    simp [mk, this]
  | interval n =>
    simp only [wfT, decide_eq_true_eq] at ht
    have hscan := showNat_scan hF n rest hst
    simp only [fmtTerm, List.append_assoc, parseAtom, atomHeads, List.find?, mk_startsWith,
      np h15 _, np h25 _, np h35 _, np h45 _, isPre_append]
    obtain ⟨_, _, c, r, hs, _⟩ := showNat_spec n
    have hne : showNat n ≠ [] := by rw [hs]; simp
    simp only [mk_skip]
    simp [mk, hscan, hne, parseUsize_showNat n ht]
  | _ => simp [isAtomic] at ha

end Narsese
