/-
  Round-trip development, part 14: `parse (format v) = Ok v` for whole Narsese values.
-/
import Proofs.RT.Value
set_option autoImplicit false

namespace Narsese
open EFormat

section
variable {F : EFormat} (hI : ItemsOK F) (len : Nat)
include hI

/-- the term step of `consume_one` on `format_term t ++ rest` -/
theorem consumeOne_fmtTerm (m : Mid) (hm : m.term = none) (t : Term) (ht : wfT F t = true)
    (hb : m.budget.isSome = true ∨ topOK F t) (rest : Str) (hst : Stop F rest) :
    F.consumeOne (mk len (F.fmtTerm t ++ rest)) m = .ok (mk len rest, { m with term := some t }) := by
  have hns := starts_no_space hI.base (fmtTerm_starts hI.base t ht rest)
  refine consumeOne_term hI len m hm _ rest t hns ?_ ?_
  · rcases hb with hb | hb | hb
    · exact .inl hb
    · exact .inr (.inl (hb rest))
    · exact .inr (.inr (hb len rest))
  · exact parseTerm_fmtTerm hI.base len t ht rest hst _ (by simp [termFuel, mk]; omega)

/-- text of a sentence after its term -/
def sentTail (F : EFormat) (s : Sentence) : Str :=
  F.fmtPunct s.punct ++ (sepItem F (F.fmtStamp s.stamp) ++ sepItem F (F.fmtTruth s.truthOrEmpty))

theorem sentTail_stop (s : Sentence) : Stop F (sentTail F s) := by
  obtain ⟨hne, hh, _, _⟩ := hI.punct (fmtPunct_mem s.punct)
  exact stop_of_kw F _ _ hne hh

/-- `build_mid_result` over a printed sentence, from any state whose sentence slots are empty -/
theorem bm_sentence (m : Mid) (hm : m.term = none) (hp : m.punct = none) (hs : m.stamp = none)
    (htr : m.truth = none) (s : Sentence) (hwf : wfSentence F s = true)
    (hb : m.budget.isSome = true ∨ topOK F s.term) (c : Cur) (hL : Lands F len c (F.fmtSentence s)) :
    ∀ fuel, R (F.buildMid fuel c m)
      (mk len [], withTruth (withStamp { m with term := some s.term, punct := some s.punct } s.stamp) s.truthOrEmpty) := by
  simp only [wfSentence, Bool.and_eq_true] at hwf
  obtain ⟨⟨hwt, hwst⟩, hwtr⟩ := hwf
  have e : F.fmtSentence s = F.fmtTerm s.term ++ sentTail F s := fmtSentence_eq F s
  rw [e] at hL
  have h1 := consumeOne_fmtTerm hI len m hm s.term hwt hb (sentTail F s) (sentTail_stop hI s)
  refine bm_step len c _ m _ _ _ hL h1 ?_
  obtain ⟨hpne, _, hpsp, _⟩ := hI.punct (fmtPunct_mem s.punct)
  have h2 := consumeOne_punct hI len { m with term := some s.term } s.term rfl hp s.punct
    (sepItem F (F.fmtStamp s.stamp) ++ sepItem F (F.fmtTruth s.truthOrEmpty))
  refine bm_step len _ _ _ _ _ _ (lands_self len (sentTail F s) (not_isPre_of_incompat hpsp _) (by simp [sentTail, hpne])) h2 ?_
  exact bm_tail hI len { m with term := some s.term, punct := some s.punct } s.term s.punct rfl rfl hs htr
    s.stamp hwst s.truthOrEmpty hwtr

end

/-! ### the entry point -/

theorem toRes_ok {α : Type} (a : α) : (PRes.ok a).toRes = Res.ok a := rfl

/-- from the fuel-relative statement to the entry point's own fuel -/
theorem runState_of_R {F : EFormat} (hs : SaneAll F) (input : Str) (m : Mid) (v : Narsese) (m' : Mid)
    (hR : ∀ fuel, R (F.buildMid fuel (mk input.length input) {}) (mk input.length [], m))
    (ht : transformMid (mk input.length []) m = .ok (v, m')) :
    F.eparse input = .ok v := by
  have hc : Cur.ofEnv input = mk input.length input := rfl
  unfold eparse runState
  simp only [hc]
  rcases hR (midFuel (mk input.length input)) with h | h
  · exact absurd h ((buildMid_good F hs _ _ _).2 (by simp [midFuel, mk]))
  · simp only [h, ht, toRes_ok]

section
variable {F : EFormat} (hI : ItemsOK F)
include hI

/-- **whole-value round trip, term** -/
theorem eparse_fmt_term (t : Term) (ht : wfT F t = true) (htop : topOK F t) :
    F.eparse (F.fmtTerm t) = .ok (.term t) := by
  have h1 := consumeOne_fmtTerm hI (F.fmtTerm t).length {} rfl t ht (.inr htop) [] (stop_nil F)
  rw [List.append_nil] at h1
  have hns := starts_no_space hI.base (fmtTerm_starts hI.base t ht [])
  rw [List.append_nil] at hns
  refine runState_of_R hI.base.sane (F.fmtTerm t) { term := some t } (.term t) _ ?_ rfl
  exact bm_step _ _ _ _ _ _ _ (lands_self _ _ hns (fmtTerm_ne hI t ht)) h1 (bm_end _ _)

theorem transform_sentence (c : Cur) (ob : Option Budget) (s : Sentence) :
    ∃ m', transformMid c (withTruth (withStamp { budget := ob, term := some s.term, punct := some s.punct } s.stamp)
      s.truthOrEmpty) =
      .ok (match ob with
        | some b => .task { sentence := s, budget := b }
        | none => .sentence s, m') := by
  have key : ∀ (st : Stamp) (tr : Truth),
      transformMid c (withTruth (withStamp { budget := ob, term := some s.term, punct := some s.punct } st) tr) =
      .ok (match ob with
        | some b => .task { sentence := Sentence.fromPunctuation s.term s.punct st tr, budget := b }
        | none => .sentence (Sentence.fromPunctuation s.term s.punct st tr), {}) := by
    intro st tr
    by_cases h1 : st = .eternal <;> by_cases h2 : tr = .empty <;> cases ob <;>
      simp [transformMid, withTruth, withStamp, h1, h2]
  refine ⟨{}, ?_⟩
  rw [key, fromPunctuation_self]

/-- **whole-value round trip, sentence** -/
theorem eparse_fmt_sentence (s : Sentence) (hwf : wfSentence F s = true) (htop : topOK F s.term) :
    F.eparse (F.fmtSentence s) = .ok (.sentence s) := by
  have hwt : wfT F s.term = true := by
    simp only [wfSentence, Bool.and_eq_true] at hwf; exact hwf.1.1
  have hns : isPre F.spaceParse (F.fmtSentence s) = false := by
    rw [fmtSentence_eq]; exact starts_no_space hI.base (fmtTerm_starts hI.base s.term hwt _)
  have hne : F.fmtSentence s ≠ [] := by
    rw [fmtSentence_eq]; simp [fmtTerm_ne hI s.term hwt]
  obtain ⟨m', hm'⟩ := transform_sentence hI (mk (F.fmtSentence s).length []) none s
  refine runState_of_R hI.base.sane (F.fmtSentence s) _ (.sentence s) m' ?_ hm'
  exact bm_sentence hI _ {} rfl rfl rfl rfl s hwf (.inr htop) _ (lands_self _ _ hns hne)

/-- **whole-value round trip, task** -/
theorem eparse_fmt_task (k : Task) (hwf : wfTask F k = true) :
    F.eparse (F.fmtTask k) = .ok (.task k) := by
  simp only [wfTask, Bool.and_eq_true] at hwf
  obtain ⟨hws, hwb⟩ := hwf
  have hwt : wfT F k.sentence.term = true := by
    simp only [wfSentence, Bool.and_eq_true] at hws; exact hws.1.1
  have hns : isPre F.spaceParse (F.fmtSentence k.sentence) = false := by
    rw [fmtSentence_eq]; exact starts_no_space hI.base (fmtTerm_starts hI.base k.sentence.term hwt _)
  have hne : F.fmtSentence k.sentence ≠ [] := by
    rw [fmtSentence_eq]; simp [fmtTerm_ne hI k.sentence.term hwt]
  have e : F.fmtTask k = budgetTxt F k.budget.components ++ (F.spaceItems ++ F.fmtSentence k.sentence) := by
    simp [fmtTask, nonempty_isEmpty hne, fmtBudget_eq, List.append_assoc]
  obtain ⟨_, hbne, hbsp⟩ := hI.budgetList
  obtain ⟨m', hm'⟩ := transform_sentence hI (mk (F.fmtTask k).length []) (some k.budget) k.sentence
  refine runState_of_R hI.base.sane (F.fmtTask k) _ (.task k) m' ?_ hm'
  have h1 := consumeOne_budget hI (F.fmtTask k).length {} rfl k.budget hwb (F.spaceItems ++ F.fmtSentence k.sentence)
  have hL : Lands F (F.fmtTask k).length (mk (F.fmtTask k).length (F.fmtTask k))
      (budgetTxt F k.budget.components ++ (F.spaceItems ++ F.fmtSentence k.sentence)) := by
    rw [← e]
    refine lands_self _ _ ?_ ?_
    · rw [e]; simp only [budgetTxt, List.append_assoc]; exact not_isPre_of_incompat hbsp _
    · rw [e]; simp [budgetTxt, hbne]
  refine bm_step _ _ _ _ _ _ _ hL h1 ?_
  exact bm_sentence hI _ { budget := some k.budget } rfl rfl rfl rfl k.sentence hws (.inl rfl) _
    (lands_items hI _ _ hns hne)

end

end Narsese
