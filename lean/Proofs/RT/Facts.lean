/-
  Round-trip development, part 3: projections of `FormatOK` and the "how a term's text begins" lemmas.
-/
import Proofs.RT.Defs
set_option autoImplicit false

namespace Narsese
open EFormat

section
variable {F : EFormat} (hF : FormatOK F)
include hF

theorem FormatOK.split :
    saneAllB F = true ∧ (F.spaceTerms == F.spaceParse || F.spaceTerms == []) = true ∧ F.preWord.isEmpty = true ∧
    pairwiseB incompat (openers F) = true ∧
    (openers F).all (fun o => o.head?.all (fun c => !F.isName c) && (prefixes6 F).all (fun p => incompat o p)) = true ∧
    (prefixes6 F).all (fun p => !p.isEmpty) = true ∧ pairwiseB incompat (prefixes6 F) = true ∧
    ([F.spaceParse, F.separator] ++ closers F).all (terminatorOK F) = true ∧
    (closers F).all (fun r => incompat F.spaceParse r && incompat F.separator r) = true ∧
    incompat F.spaceParse F.separator = true ∧
    pairwiseB incompat (F.copulaTable.map (·.1)) = true ∧
    (F.copulaTable.map (·.1)).all (fun c => !c.isEmpty && incompat F.spaceParse c &&
      c.head?.all (fun x => !digitChars.contains x)) = true ∧
    (F.copulas == F.copulaTable.map (·.1)) = true ∧ digitChars.all F.isName = true ∧
    (F.connecters.map (·.1)).all (fun c => !c.isEmpty && incompat F.spaceParse c) = true ∧
    (List.range F.connecters.length).all (fun j =>
      (List.range j).all (fun i =>
        match F.connecters[i]?, F.connecters[j]? with
        | some e, some c => !compat e.1 (c.1 ++ F.separator)
        | _, _ => true)) = true := by
  have h := hF.ok
  simp only [formatOKB, Bool.and_eq_true] at h
  obtain ⟨⟨⟨⟨⟨⟨⟨⟨⟨⟨⟨⟨⟨⟨⟨h1, h2⟩, h3⟩, h4⟩, h5⟩, h6⟩, h7⟩, h8⟩, h9⟩, h10⟩, h11⟩, h12⟩, h13⟩, h14⟩, h15⟩, h16⟩ := h
  exact ⟨h1, h2, h3, h4, h5, h6, h7, h8, h9, h10, h11, h12, h13, h14, h15, h16⟩

theorem FormatOK.sane : SaneAll F := saneAll_of_bool F hF.split.1

theorem FormatOK.sp : spOK F := by
  have := hF.split.2.1
  simp only [Bool.or_eq_true, beq_iff_eq] at this
  exact this

theorem FormatOK.preWord : F.preWord = [] := by
  have := hF.split.2.2.1; simpa using this

theorem FormatOK.opener {o : Str} (ho : o ∈ openers F) :
    o ≠ [] ∧ o.head?.all (fun c => !F.isName c) = true ∧ ∀ p ∈ prefixes6 F, incompat o p = true := by
  have h := hF.split.2.2.2.2.1
  rw [List.all_eq_true] at h
  have := h o ho
  simp only [Bool.and_eq_true, List.all_eq_true] at this
  refine ⟨?_, this.1, this.2⟩
  have hs := hF.sane
  simp only [openers, List.mem_cons, List.mem_nil_iff, or_false] at ho
  rcases ho with rfl | rfl | rfl | rfl
  · exact hs.extSetL_ne
  · exact hs.intSetL_ne
  · exact hs.compL_ne
  · exact hs.stmtL_ne

theorem FormatOK.openers_pair :
    incompat F.extSetL F.intSetL = true ∧ incompat F.extSetL F.compL = true ∧ incompat F.extSetL F.stmtL = true ∧
    incompat F.intSetL F.compL = true ∧ incompat F.intSetL F.stmtL = true ∧ incompat F.compL F.stmtL = true := by
  have h := hF.split.2.2.2.1
  simp only [openers, pairwiseB, List.all_cons, List.all_nil, Bool.and_true, Bool.and_eq_true] at h
  exact ⟨h.1.1, h.1.2.1, h.1.2.2, h.2.1.1, h.2.1.2, h.2.2⟩

theorem FormatOK.prefix_ne {p : Str} (hp : p ∈ prefixes6 F) : p ≠ [] := by
  have h := hF.split.2.2.2.2.2.1
  rw [List.all_eq_true] at h
  have := h p hp
  intro he; subst he; simp at this

theorem FormatOK.terminator {x : Str} (hx : x ∈ [F.spaceParse, F.separator] ++ closers F) : terminatorOK F x = true := by
  have h := hF.split.2.2.2.2.2.2.2.1
  rw [List.all_eq_true] at h
  exact h x hx

theorem FormatOK.closer {r : Str} (hr : r ∈ closers F) :
    incompat F.spaceParse r = true ∧ incompat F.separator r = true := by
  have h := hF.split.2.2.2.2.2.2.2.2.1
  rw [List.all_eq_true] at h
  simpa using h r hr

theorem FormatOK.sp_sep : incompat F.spaceParse F.separator = true := hF.split.2.2.2.2.2.2.2.2.2.1

theorem FormatOK.copulas_eq : F.copulas = F.copulaTable.map (·.1) := by
  have := hF.split.2.2.2.2.2.2.2.2.2.2.2.2.1; simpa using this

theorem FormatOK.copula {c : Str} (hc : c ∈ F.copulaTable.map (·.1)) :
    c ≠ [] ∧ incompat F.spaceParse c = true ∧ c.head?.all (fun x => !digitChars.contains x) = true := by
  have h := hF.split.2.2.2.2.2.2.2.2.2.2.2.1
  rw [List.all_eq_true] at h
  have := h c hc
  simp only [Bool.and_eq_true, Bool.not_eq_true', List.isEmpty_eq_false_iff] at this
  exact ⟨this.1.1, this.1.2, this.2⟩

theorem FormatOK.digits : ∀ d ∈ digitChars, F.isName d = true := by
  have := hF.split.2.2.2.2.2.2.2.2.2.2.2.2.2.1
  rwa [List.all_eq_true] at this

theorem FormatOK.connecter {c : Str} (hc : c ∈ F.connecters.map (·.1)) :
    c ≠ [] ∧ incompat F.spaceParse c = true := by
  have h := hF.split.2.2.2.2.2.2.2.2.2.2.2.2.2.2.1
  rw [List.all_eq_true] at h
  have := h c hc
  simp only [Bool.and_eq_true, Bool.not_eq_true', List.isEmpty_eq_false_iff] at this
  exact this

end

/-! ### how the text of a term begins -/

/-- the text begins with an opener or an atom prefix, or with a name character -/
def Starts (F : EFormat) (s : Str) : Prop :=
  (∃ k ∈ starters F, isPre k s = true) ∨ (∃ c cs, s = c :: cs ∧ F.isName c = true)

/-- a terminator keyword is never a prefix of a text that starts a term -/
theorem terminator_not_pre {F : EFormat} {x s : Str} (hx : terminatorOK F x = true) (hs : Starts F s) :
    isPre x s = false := by
  simp only [terminatorOK, Bool.and_eq_true, Bool.not_eq_true', List.isEmpty_eq_false_iff, List.all_eq_true] at hx
  obtain ⟨⟨hne, hhead⟩, hinc⟩ := hx
  rcases hs with ⟨k, hk, hpre⟩ | ⟨c, cs, rfl, hc⟩
  · obtain ⟨r, rfl⟩ := (isPre_iff k s).mp hpre
    exact not_isPre_of_incompat (hinc k hk) r
  · apply not_isPre_head _ hne
    intro y hy heq
    subst heq
    have : x.head?.all (fun c => !F.isName c) = true := hhead
    cases x with
    | nil => exact absurd rfl hne
    | cons z zs => simp at hy this; subst hy; simp [hc] at this

theorem mem_starters_opener {F : EFormat} {k : Str} (h : k ∈ openers F) : k ∈ starters F := by
  simp [starters, h]
theorem mem_starters_prefix {F : EFormat} {k : Str} (h : k ∈ prefixes6 F) : k ∈ starters F := by
  simp [starters, h]

theorem atomPrefix_mem {F : EFormat} (k : AtomK) (hk : k ≠ .word) : F.atomPrefix k ∈ prefixes6 F := by
  cases k <;> simp_all [atomPrefix, prefixes6]

theorem nameOK_head {F : EFormat} {n : Str} (h : nameOK F n = true) : ∃ c cs, n = c :: cs ∧ F.isName c = true := by
  simp only [nameOK, Bool.and_eq_true, Bool.not_eq_true', List.isEmpty_eq_false_iff, List.all_eq_true] at h
  cases n with
  | nil => exact absurd rfl h.1.1.1
  | cons c cs => exact ⟨c, cs, rfl, h.1.1.2 c (by simp)⟩

/-- the text of every well-formed term starts like a term -/
theorem fmtTerm_starts {F : EFormat} (hF : FormatOK F) (t : Term) (ht : wfT F t = true) (X : Str) :
    Starts F (F.fmtTerm t ++ X) := by
  have pre : ∀ k ∈ starters F, ∀ Y, Starts F (k ++ Y) := fun k hk Y => .inl ⟨k, hk, isPre_append k Y⟩
  cases t with
  | atom k n =>
    simp only [wfT] at ht
    by_cases hk : k = .word
    · subst hk
      obtain ⟨c, cs, rfl, hc⟩ := nameOK_head ht
      simp only [fmtTerm, atomPrefix, hF.preWord, List.nil_append]
      exact .inr ⟨c, cs ++ X, rfl, hc⟩
    · simp only [fmtTerm, List.append_assoc]
      exact pre _ (mem_starters_prefix (atomPrefix_mem k hk)) _
  | placeholder => simp only [fmtTerm]; exact pre _ (mem_starters_prefix (by simp [prefixes6])) _
  | interval n =>
    simp only [fmtTerm, List.append_assoc]; exact pre _ (mem_starters_prefix (by simp [prefixes6])) _
  | setlike k ts =>
    cases k <;> simp only [fmtTerm, setBrackets, tplSet, tplCompound, List.append_assoc]
    · exact pre _ (mem_starters_opener (by simp [openers])) _
    · exact pre _ (mem_starters_opener (by simp [openers])) _
    all_goals exact pre _ (mem_starters_opener (by simp [openers])) _
  | seqlike k ts =>
    simp only [fmtTerm, tplCompound, List.append_assoc]; exact pre _ (mem_starters_opener (by simp [openers])) _
  | image k i ts =>
    simp only [fmtTerm, tplCompound, List.append_assoc]; exact pre _ (mem_starters_opener (by simp [openers])) _
  | neg t =>
    simp only [fmtTerm, tplCompound, List.append_assoc]; exact pre _ (mem_starters_opener (by simp [openers])) _
  | bin k a b =>
    simp only [fmtTerm]
    split
    · simp only [tplStatement, List.append_assoc]; exact pre _ (mem_starters_opener (by simp [openers])) _
    · simp only [tplCompound, List.append_assoc]; exact pre _ (mem_starters_opener (by simp [openers])) _

end Narsese
