/-
  Round-trip development, part 10: `consume_one` on each printed item.
-/
import Proofs.RT.Items
set_option autoImplicit false

namespace Narsese
open EFormat

theorem alt_skip {α : Type} (guard : Cur → Bool) (run : PRes α) (k : Cur → PRes α) (now : Cur)
    (h : guard now = false) : alt guard run k now = k now := by simp [alt, h]

theorem alt_hit {α : Type} (guard : Cur → Bool) (run : PRes α) (k : Cur → PRes α) (now : Cur) (r : α)
    (h : guard now = true) (hr : run = .ok r) : alt guard run k now = .ok r := by simp [alt, h, hr, orElse]

theorem alt_err {α : Type} (guard : Cur → Bool) (run : PRes α) (k : Cur → PRes α) (now e : Cur)
    (h : guard now = true) (hr : run = .err e) : alt guard run k now = k e := by simp [alt, h, hr, orElse]

section
variable {F : EFormat} (hI : ItemsOK F) (len : Nat)
include hI

theorem ItemsOK.split :
    (F.spaceItems == F.spaceParse) = true ∧ pairwiseB incompat (punctKws F) = true ∧
    (punctKws F).all (fun p => !p.isEmpty && p.head?.all (fun c => !F.isName c) && incompat F.spaceParse p &&
      incompat F.budgetL p) = true ∧
    pairwiseB incompat (stampKws F) = true ∧
    (stampKws F).all (fun k => !k.isEmpty && incompat F.spaceParse k && incompat F.budgetL (F.stampL ++ k) &&
      incompat k F.truthL) = true ∧
    (F.stampL.isEmpty || (incompat F.spaceParse F.stampL && incompat F.stampL F.truthL)) = true ∧
    headNotIn F.spaceParse signChars = true ∧
    (if F.stampR.isEmpty then headNotIn (F.spaceTerms ++ F.truthL) signChars
     else headNotIn F.stampR signChars && incompat F.spaceParse F.stampR) = true ∧
    [(F.truthL, F.truthSep, F.truthR), (F.budgetL, F.budgetSep, F.budgetR)].all (fun q =>
      !q.1.isEmpty && incompat F.spaceParse q.1 &&
      !q.2.1.isEmpty && incompat F.spaceParse q.2.1 && headNotIn q.2.1 numChars &&
      !q.2.2.isEmpty && incompat F.spaceParse q.2.2 && headNotIn q.2.2 numChars && incompat q.2.1 q.2.2) = true ∧
    headNotIn F.spaceParse numChars = true ∧ incompat F.budgetL F.truthL = true := by
  have h := hI.items
  simp only [itemsOKB, Bool.and_eq_true] at h
  obtain ⟨⟨⟨⟨⟨⟨⟨⟨⟨⟨h1, h2⟩, h3⟩, h4⟩, h5⟩, h6⟩, h7⟩, h8⟩, h9⟩, h10⟩, h11⟩ := h
  exact ⟨h1, h2, h3, h4, h5, h6, h7, h8, h9, h10, h11⟩

theorem ItemsOK.spaceItems : F.spaceItems = F.spaceParse := by simpa using hI.split.1

theorem ItemsOK.punct {p : Str} (hp : p ∈ punctKws F) :
    p ≠ [] ∧ p.head?.all (fun c => !F.isName c) = true ∧ incompat F.spaceParse p = true ∧ incompat F.budgetL p = true := by
  have h := hI.split.2.2.1
  rw [List.all_eq_true] at h
  have := h p hp
  simp only [Bool.and_eq_true, Bool.not_eq_true', List.isEmpty_eq_false_iff] at this
  exact ⟨this.1.1.1, this.1.1.2, this.1.2, this.2⟩

theorem ItemsOK.stampKw {k : Str} (hk : k ∈ stampKws F) :
    k ≠ [] ∧ incompat F.spaceParse k = true ∧ incompat F.budgetL (F.stampL ++ k) = true ∧ incompat k F.truthL = true := by
  have h := hI.split.2.2.2.2.1
  rw [List.all_eq_true] at h
  have := h k hk
  simp only [Bool.and_eq_true, Bool.not_eq_true', List.isEmpty_eq_false_iff] at this
  exact ⟨this.1.1.1, this.1.1.2, this.1.2, this.2⟩

theorem ItemsOK.truthList : ListOK F F.truthSep F.truthR ∧ F.truthL ≠ [] ∧ incompat F.spaceParse F.truthL = true := by
  have h := hI.split.2.2.2.2.2.2.2.2.1
  simp only [List.all_cons, List.all_nil, Bool.and_true, Bool.and_eq_true, Bool.not_eq_true',
    List.isEmpty_eq_false_iff] at h
  obtain ⟨⟨⟨⟨⟨⟨⟨⟨⟨a1, a2⟩, a3⟩, a4⟩, a5⟩, a6⟩, a7⟩, a8⟩, a9⟩, _⟩ := h
  exact ⟨⟨hI.base.sane.space_ne, hI.split.2.2.2.2.2.2.2.2.2.1, a3, a4, a5, a6, a7, a8, a9⟩, a1, a2⟩

theorem ItemsOK.budgetList : ListOK F F.budgetSep F.budgetR ∧ F.budgetL ≠ [] ∧ incompat F.spaceParse F.budgetL = true := by
  have h := hI.split.2.2.2.2.2.2.2.2.1
  simp only [List.all_cons, List.all_nil, Bool.and_true, Bool.and_eq_true, Bool.not_eq_true',
    List.isEmpty_eq_false_iff] at h
  obtain ⟨_, ⟨⟨⟨⟨⟨⟨⟨⟨a1, a2⟩, a3⟩, a4⟩, a5⟩, a6⟩, a7⟩, a8⟩, a9⟩⟩ := h
  exact ⟨⟨hI.base.sane.space_ne, hI.split.2.2.2.2.2.2.2.2.2.1, a3, a4, a5, a6, a7, a8, a9⟩, a1, a2⟩

/-- a text starting with a digit or '.' does not start with the parse space -/
theorem num_no_space (x : Num) (hx : x.ok = true) (Z : Str) : isPre F.spaceParse (x.text ++ Z) = false := by
  obtain ⟨hne, hch⟩ := num_chars x hx
  cases ht : x.text with
  | nil => exact absurd ht hne
  | cons c cs =>
    rw [ht] at hch
    exact numChar_not_pre _ hI.base.sane.space_ne hI.split.2.2.2.2.2.2.2.2.2.1 c _ (hch c (by simp))

/-! ### truth -/

/-- printed truth text (non-empty truth) -/
def truthTxt (F : EFormat) (xs : List Num) : Str := F.truthL ++ (numsTxt F.truthSep xs ++ F.truthR)
def budgetTxt (F : EFormat) (xs : List Num) : Str := F.budgetL ++ (numsTxt F.budgetSep xs ++ F.budgetR)

theorem numsTxt_no_space (sep : Str) (xs : List Num) (hne : xs ≠ []) (hok : ∀ x ∈ xs, x.ok = true) (Z : Str) :
    isPre F.spaceParse (numsTxt sep xs ++ Z) = false := by
  cases xs with
  | nil => exact absurd rfl hne
  | cons x r =>
    cases r with
    | nil => simpa [numsTxt, joinWith] using num_no_space hI x (hok x (by simp)) Z
    | cons y r' =>
      have := num_no_space hI x (hok x (by simp)) (sep ++ (numsTxt sep (y :: r') ++ Z))
      simpa [numsTxt, joinWith, List.append_assoc] using this

theorem consumeTruth_txt (xs : List Num) (hne : xs ≠ []) (hlen : xs.length ≤ 2) (hok : ∀ x ∈ xs, x.ok = true)
    (Y : Str) (tr : Truth) (htr : tr.components = xs) :
    F.consumeTruth (mk len (truthTxt F xs ++ Y)) = .ok (tr, mk len Y) := by
  obtain ⟨hL, hne', _⟩ := hI.truthList
  have hin : xs.all Num.in01 = true := by
    rw [List.all_eq_true]; intro x hx
    have := hok x hx
    simp only [Num.ok, Bool.and_eq_true] at this
    exact this.1.1.1
  unfold consumeTruth
  simp only [truthTxt, List.append_assoc]
  rw [skipAndSpaces_mk hI.base len F.truthL _ (numsTxt_no_space hI _ xs hne hok _)]
  simp only [mk_rest]
  rw [parseFloats_list len 2 F.truthSep F.truthR hL xs hne hok [] (by simpa using hlen) Y _ (Nat.le_refl _)]
  simp only [List.nil_append, hin, Bool.not_true, Bool.false_eq_true, if_false]
  have hrb : isPre F.spaceParse (F.truthR ++ Y) = false := not_isPre_of_incompat hL.rb_sp Y
  have vok : ∀ x ∈ xs, validate Num.in01 x = .ok x := by
    intro x hx
    rw [List.all_eq_true] at hin
    simp [validate, hin x hx]
  match xs, tr, htr, vok with
  | [f], .single g, h, vok =>
    simp only [Truth.components, List.cons.injEq, and_true] at h
    subst h
    simp [GTruth.newSingle, vok g (by simp), Res.bind, Res.map, liftRes, Truth.ofG,
      skipAfterSpaces_mk hI.base len F.truthR Y hrb]
  | [f, c], .double g d, h, vok =>
    simp only [Truth.components, List.cons.injEq, and_true] at h
    obtain ⟨h1, h2⟩ := h
    subst h1; subst h2
    simp [GTruth.newDouble, vok g (by simp), vok d (by simp), Res.bind, Res.map, liftRes, Truth.ofG,
      skipAfterSpaces_mk hI.base len F.truthR Y hrb]
  | [], _, _, _ => exact absurd rfl hne
  | [_], .empty, h, _ => simp [Truth.components] at h
  | [_], .double _ _, h, _ => simp [Truth.components] at h
  | [_, _], .empty, h, _ => simp [Truth.components] at h
  | [_, _], .single _, h, _ => simp [Truth.components] at h
  | _ :: _ :: _ :: _, _, _, _ => simp at hlen

theorem consumeBudget_txt (b : Budget) (hok : ∀ x ∈ b.components, x.ok = true) (Y : Str) :
    F.consumeBudget (mk len (budgetTxt F b.components ++ Y)) = .ok (b, mk len Y) := by
  obtain ⟨hL, hne', _⟩ := hI.budgetList
  have hin : b.components.all Num.in01 = true := by
    rw [List.all_eq_true]; intro x hx
    have := hok x hx
    simp only [Num.ok, Bool.and_eq_true] at this
    exact this.1.1.1
  have hrb : isPre F.spaceParse (F.budgetR ++ Y) = false := not_isPre_of_incompat hL.rb_sp Y
  have vok : ∀ x ∈ b.components, validate Num.in01 x = .ok x := by
    intro x hx
    rw [List.all_eq_true] at hin
    simp [validate, hin x hx]
  unfold consumeBudget
  simp only [budgetTxt, List.append_assoc]
  cases b with
  | empty =>
    simp only [Budget.components, numsTxt, List.map_nil, joinWith, List.nil_append]
    rw [skipAndSpaces_mk hI.base len F.budgetL _ hrb]
    simp only [mk_rest]
    rw [parseFloats_empty len 3 (by decide) F.budgetSep F.budgetR hL Y _]
    simp [liftRes, skipAfterSpaces_mk hI.base len F.budgetR Y hrb]
  | single p =>
    simp only [Budget.components] at hok vok hin ⊢
    rw [skipAndSpaces_mk hI.base len F.budgetL _ (numsTxt_no_space hI _ [p] (by simp) hok _)]
    simp only [mk_rest]
    rw [parseFloats_list len 3 F.budgetSep F.budgetR hL [p] (by simp) hok [] (by simp) Y _ (Nat.le_refl _)]
    simp [hin, GBudget.newSingle, vok p (by simp), Res.bind, Res.map, liftRes, Budget.ofG,
      skipAfterSpaces_mk hI.base len F.budgetR Y hrb]
  | double p d =>
    simp only [Budget.components] at hok vok hin ⊢
    rw [skipAndSpaces_mk hI.base len F.budgetL _ (numsTxt_no_space hI _ [p, d] (by simp) hok _)]
    simp only [mk_rest]
    rw [parseFloats_list len 3 F.budgetSep F.budgetR hL [p, d] (by simp) hok [] (by simp) Y _ (Nat.le_refl _)]
    simp [hin, GBudget.newDouble, vok p (by simp), vok d (by simp), Res.bind, Res.map, liftRes, Budget.ofG,
      skipAfterSpaces_mk hI.base len F.budgetR Y hrb]
  | triple p d q =>
    simp only [Budget.components] at hok vok hin ⊢
    rw [skipAndSpaces_mk hI.base len F.budgetL _ (numsTxt_no_space hI _ [p, d, q] (by simp) hok _)]
    simp only [mk_rest]
    rw [parseFloats_list len 3 F.budgetSep F.budgetR hL [p, d, q] (by simp) hok [] (by simp) Y _ (Nat.le_refl _)]
    simp [hin, GBudget.newTriple, vok p (by simp), vok d (by simp), vok q (by simp), Res.bind, Res.map, liftRes,
      Budget.ofG, skipAfterSpaces_mk hI.base len F.budgetR Y hrb]

end

end Narsese
