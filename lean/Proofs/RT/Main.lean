/-
  Round-trip development, part 7: the mutual induction over terms.
-/
import Proofs.RT.Term
import Props.C10a
set_option autoImplicit false

namespace Narsese
open EFormat

/-- component texts: the first one bare when `first`, every other preceded by `separator ++ space` -/
def compsTxt (F : EFormat) : Bool → Terms → Str
  | _, .nil => []
  | true, .cons t ts => F.fmtTerm t ++ compsTxt F false ts
  | false, .cons t ts => F.separator ++ F.spaceTerms ++ F.fmtTerm t ++ compsTxt F false ts

theorem compsTxt_false (F : EFormat) : ∀ ts : Terms, compsTxt F false ts = tailTxt F (F.fmtTerms ts)
  | .nil => rfl
  | .cons t ts => by simp [compsTxt, fmtTerms, tailTxt, compsTxt_false F ts]

theorem compsTxt_true (F : EFormat) (ts : Terms) (h : ts.isEmpty = false) :
    compsTxt F true ts = F.joinComponents (F.fmtTerms ts) := by
  cases ts with
  | nil => simp [Terms.isEmpty] at h
  | cons t ts => simp [compsTxt, fmtTerms, joinComponents_cons, compsTxt_false]

section
variable {F : EFormat} (hF : FormatOK F) (len : Nat)
include hF

theorem atom_R (t : Term) (ha : isAtomic t = true) (ht : wfT F t = true) (fuel : Nat) (rest : Str)
    (hst : Stop F rest) : R (F.parseTerm fuel (mk len (F.fmtTerm t ++ rest))) (t, mk len rest) := by
  cases fuel with
  | zero => exact R_fuel _
  | succ fuel => rw [parseTerm_atom hF t ha ht fuel len rest hst]; exact R_ok _

theorem compR_closer : F.compR ∈ closers F := by simp [closers]

/-- what follows a component stops the scanner (flag form) -/
theorem comps_stop (ts : Terms) {rb : Str} (hrb : rb ∈ closers F) (rest : Str) :
    Stop F (compsTxt F false ts ++ rb ++ rest) := by
  rw [compsTxt_false]; exact tail_stop hF _ hrb rest

theorem tplCompound_eq (conn : Str) (cs : List Str) (h : cs ≠ []) :
    F.tplCompound conn cs = F.compL ++ (conn ++ (tailTxt F cs ++ F.compR)) := by
  cases cs with
  | nil => exact absurd rfl h
  | cons s ss => simp only [tplCompound, joinComponents_cons, tailTxt, List.append_assoc]

/-- a connecter compound, given what the component loop returns and what the kind-specific tail builds -/
theorem comp_case (j : Nat) (e : Str × ConnK) (he : F.connecters[j]? = some e) (hop : e.2 ≠ .operatorUnsupported)
    (cs : List Str) (hcs : cs ≠ []) (ts : List Term) (hne : ts ≠ []) (out : Term) (rest : Str)
    (hloop : ∀ f, R (F.parseTerms f F.compR (mk len (tailTxt F cs ++ (F.compR ++ rest))) [])
      (ts, mk len (F.compR ++ rest)))
    (hfin : ∀ c3 : Cur, F.finishCompound e.2 ts c3 = .ok (out, F.skipAfterSpaces c3 F.compR)) (fuel : Nat) :
    R (F.parseTerm fuel (mk len (F.tplCompound e.1 cs ++ rest))) (out, mk len rest) := by
  cases fuel with
  | zero => exact R_fuel _
  | succ fuel =>
    have := compound_rt hF len j e he hop cs hcs rest ts hne out hloop hfin fuel
    rw [tplCompound_eq hF _ _ hcs]
    simp only [List.append_assoc]
    rw [dispatch_comp hF len]
    simpa [List.append_assoc] using this

theorem noPh_toList : ∀ ts : Terms, noPh ts = true → Props.C10.noPlaceholder ts.toList
  | .nil, _ => by intro t ht; simp [Terms.toList] at ht
  | .cons t ts, h => by
    simp only [noPh, Bool.and_eq_true] at h
    intro x hx
    simp only [Terms.toList, List.mem_cons] at hx
    rcases hx with rfl | hx
    · intro he; subst he; simp at h
    · exact noPh_toList ts h.2 x hx

theorem fmtImage_ne (idx : Nat) : ∀ (ts : Terms) (now : Nat), now ≤ idx → idx ≤ now + ts.length →
    F.fmtImage idx now ts ≠ []
  | .nil, now, h1, h2 => by
    simp only [Terms.length] at h2
    have : now = idx := by omega
    simp [fmtImage, this]
  | .cons t ts, now, h1, h2 => by
    simp only [fmtImage]
    split <;> simp

/-- one component at the front of a `tailTxt` list -/
theorem step_tail {rb : Str} (hrb : rb ∈ closers F) (txt : Str) (ss : List Str) (t : Term) (acc : List Term)
    (rest : Str) (res : List Term × Cur) (hstart : ∀ X, Starts F (txt ++ X))
    (hpt : ∀ fuel' X, Stop F X → R (F.parseTerm fuel' (mk len (txt ++ X))) (t, mk len X))
    (cont : ∀ fuel', R (F.parseTerms fuel' rb (mk len (tailTxt F ss ++ (rb ++ rest))) (acc ++ [t])) res)
    (fuel : Nat) :
    R (F.parseTerms fuel rb (mk len (tailTxt F (txt :: ss) ++ (rb ++ rest))) acc) res := by
  have e : tailTxt F (txt :: ss) ++ (rb ++ rest) =
      F.separator ++ F.spaceTerms ++ txt ++ (tailTxt F ss ++ (rb ++ rest)) := by
    simp [tailTxt, List.append_assoc]
  rw [e]
  exact loop_step hF len hrb txt _ t acc res (hstart _)
    (fun f => hpt f _ (by simpa [List.append_assoc] using tail_stop hF ss hrb rest)) cont fuel

end

mutual
  /-- **the term-level round trip** (unless the fuel runs out, which `parseTerm_good` excludes) -/
  theorem rt_term {F : EFormat} (hF : FormatOK F) (len : Nat) : ∀ (t : Term), wfT F t = true →
      ∀ (fuel : Nat) (rest : Str), Stop F rest →
      R (F.parseTerm fuel (mk len (F.fmtTerm t ++ rest))) (t, mk len rest)
    | .atom k n, ht, fuel, rest, hst => atom_R hF len _ rfl ht fuel rest hst
    | .placeholder, ht, fuel, rest, hst => atom_R hF len _ rfl ht fuel rest hst
    | .interval n, ht, fuel, rest, hst => atom_R hF len _ rfl ht fuel rest hst
    | .setlike k ts, ht, fuel, rest, _ => by
      simp only [wfT, Bool.and_eq_true, Bool.not_eq_true'] at ht
      obtain ⟨⟨hne, hwf⟩, hnd⟩ := ht
      have hset : mkSetSem ts.toList = ts.toList := mkSetSem_nodup_id _ hnd
      have hnel : ts.toList ≠ [] := by cases ts <;> simp_all [Terms.toList, Terms.isEmpty]
      -- bracket form
      have viaSet : ∀ (lb rb : Str), rb ∈ closers F → ∀ fuel,
          R (F.parseTermSet fuel k lb rb (mk len (lb ++ (F.joinComponents (F.fmtTerms ts) ++ rb ++ rest))))
            (.setlike k ts, mk len rest) := by
        intro lb rb hrb fuel
        have hl : ∀ f, R (F.parseTerms f rb (mk len (F.joinComponents (F.fmtTerms ts) ++ rb ++ rest)) [])
            (ts.toList, mk len (rb ++ rest)) := by
          intro f
          have := rt_comps hF len ts hwf true f rb rest [] hrb
          rw [compsTxt_true F ts hne] at this
          simpa using this
        have hst' : Starts F (F.joinComponents (F.fmtTerms ts) ++ rb ++ rest) := by
          cases ts with
          | nil => simp [Terms.isEmpty] at hne
          | cons t ts' =>
            simp only [wfTs, Bool.and_eq_true] at hwf
            simp only [fmtTerms, joinComponents_cons, List.append_assoc]
            exact fmtTerm_starts hF t hwf.1 _
        have := termSet_rt hF len k lb rb hrb _ rest ts.toList hnel hst' hl fuel
        rwa [hset, Terms.ofList_toList] at this
      -- connecter form
      have viaConn : ∀ (j : Nat), F.connecters[j]? = some (F.setConnecter k, ConnK.set k) → ∀ fuel,
          R (F.parseTerm fuel (mk len (F.tplCompound (F.setConnecter k) (F.fmtTerms ts) ++ rest)))
            (.setlike k ts, mk len rest) := by
        intro j he fuel
        have hcs : F.fmtTerms ts ≠ [] := by cases ts <;> simp_all [fmtTerms, Terms.isEmpty]
        refine comp_case hF len j _ he (by simp) _ hcs ts.toList hnel (.setlike k ts) rest (fun f => ?_) (fun c3 => ?_) fuel
        · have := rt_comps hF len ts hwf false f F.compR rest [] (compR_closer hF)
          rw [compsTxt_false] at this
          simpa [List.append_assoc] using this
        · simp [finishCompound, hset, Terms.ofList_toList]
      cases k with
      | extSet =>
        cases fuel with
        | zero => exact R_fuel _
        | succ fuel =>
          have := viaSet F.extSetL F.extSetR (by simp [closers]) fuel
          simpa [fmtTerm, setBrackets, tplSet, List.append_assoc, dispatch_extSet hF len] using this
      | intSet =>
        cases fuel with
        | zero => exact R_fuel _
        | succ fuel =>
          have := viaSet F.intSetL F.intSetR (by simp [closers]) fuel
          simpa [fmtTerm, setBrackets, tplSet, List.append_assoc, dispatch_intSet hF len] using this
      | extInt => simpa [fmtTerm, setBrackets] using viaConn 6 rfl fuel
      | intInt => simpa [fmtTerm, setBrackets] using viaConn 7 rfl fuel
      | conj => simpa [fmtTerm, setBrackets] using viaConn 1 rfl fuel
      | disj => simpa [fmtTerm, setBrackets] using viaConn 2 rfl fuel
      | parConj => simpa [fmtTerm, setBrackets] using viaConn 5 rfl fuel
    | .seqlike k ts, ht, fuel, rest, _ => by
      simp only [wfT, Bool.and_eq_true, Bool.not_eq_true'] at ht
      obtain ⟨hne, hwf⟩ := ht
      have hnel : ts.toList ≠ [] := by cases ts <;> simp_all [Terms.toList, Terms.isEmpty]
      have hcs : F.fmtTerms ts ≠ [] := by cases ts <;> simp_all [fmtTerms, Terms.isEmpty]
      have viaConn : ∀ (j : Nat), F.connecters[j]? = some (F.seqConnecter k, ConnK.seq k) →
          R (F.parseTerm fuel (mk len (F.tplCompound (F.seqConnecter k) (F.fmtTerms ts) ++ rest)))
            (.seqlike k ts, mk len rest) := by
        intro j he
        refine comp_case hF len j _ he (by simp) _ hcs ts.toList hnel (.seqlike k ts) rest (fun f => ?_) (fun c3 => ?_) fuel
        · have := rt_comps hF len ts hwf false f F.compR rest [] (compR_closer hF)
          rw [compsTxt_false] at this
          simpa [List.append_assoc] using this
        · simp [finishCompound, Terms.ofList_toList]
      cases k with
      | product => simpa [fmtTerm] using viaConn 10 rfl
      | seqConj => simpa [fmtTerm] using viaConn 4 rfl
    | .image k i ts, ht, fuel, rest, _ => by
      simp only [wfT, Bool.and_eq_true, decide_eq_true_eq] at ht
      obtain ⟨⟨hi, hwf⟩, hnp⟩ := ht
      have hil : i ≤ ts.toList.length := by rw [Terms.length_toList]; exact hi
      have hcs : F.fmtImage i 0 ts ≠ [] := fmtImage_ne hF i ts 0 (Nat.zero_le _) (by simpa using hi)
      have hiter : imageIter i 0 ts.toList = ts.toList.take i ++ .placeholder :: ts.toList.drop i := by
        rw [Props.C14.imageIterator_eq_insert i ts.toList hil]; simp
      have hnoph := noPh_toList hF ts hnp
      have hex : extractPlaceholder (imageIter i 0 ts.toList) = some (i, ts.toList) := by
        rw [hiter]
        have := Props.C10.image_index_enum (ts.toList.take i) (ts.toList.drop i)
          (fun x hx => hnoph x (List.mem_of_mem_take hx))
        rw [this]
        simp [List.length_take, Nat.min_eq_left hil]
      have viaConn : ∀ (j : Nat), F.connecters[j]? = some (F.imgConnecter k, ConnK.img k) →
          R (F.parseTerm fuel (mk len (F.tplCompound (F.imgConnecter k) (F.fmtImage i 0 ts) ++ rest)))
            (.image k i ts, mk len rest) := by
        intro j he
        refine comp_case hF len j _ he (by simp) _ hcs (imageIter i 0 ts.toList) (by rw [hiter]; simp)
          (.image k i ts) rest (fun f => ?_) (fun c3 => ?_) fuel
        · have := rt_image hF len ts hwf i 0 f rest []
          simpa [List.append_assoc] using this
        · simp [finishCompound, hex, Terms.ofList_toList]
      cases k with
      | ext => simpa [fmtTerm] using viaConn 11 rfl
      | int => simpa [fmtTerm] using viaConn 12 rfl
    | .neg t, ht, fuel, rest, _ => by
      simp only [wfT] at ht
      have := comp_case hF len 3 (F.cNeg, .neg) rfl (by simp) [F.fmtTerm t] (by simp) [t] (by simp) (.neg t) rest
        (fun f => step_tail hF len (compR_closer hF) (F.fmtTerm t) [] t [] rest _ (fmtTerm_starts hF t ht)
          (fun f' X hX => rt_term hF len t ht f' X hX)
          (fun f' => by simpa [tailTxt] using loop_end hF len (compR_closer hF) f' rest [t]) f)
        (fun c3 => by simp [finishCompound]) fuel
      simpa [fmtTerm] using this
    | .bin k a b, ht, fuel, rest, _ => by
      simp only [wfT, Bool.and_eq_true] at ht
      have hpa := fun f' X hX => rt_term hF len a ht.1 f' X hX
      have hpb := fun f' X hX => rt_term hF len b ht.2 f' X hX
      have hsa := fmtTerm_starts hF a ht.1
      have hsb := fmtTerm_starts hF b ht.2
      -- difference: a connecter compound with two components
      have viaDiff : ∀ (j : Nat) (conn : Str), F.connecters[j]? = some (conn, ConnK.diff k) →
          R (F.parseTerm fuel (mk len (F.tplCompound conn [F.fmtTerm a, F.fmtTerm b] ++ rest)))
            (.bin k a b, mk len rest) := by
        intro j conn he
        refine comp_case hF len j _ he (by simp) _ (by simp) [a, b] (by simp) (.bin k a b) rest (fun f => ?_)
          (fun c3 => by simp [finishCompound]) fuel
        exact step_tail hF len (compR_closer hF) (F.fmtTerm a) [F.fmtTerm b] a [] rest _ hsa hpa
          (fun f1 => step_tail hF len (compR_closer hF) (F.fmtTerm b) [] b ([] ++ [a]) rest _ hsb hpb
            (fun f2 => by simpa [tailTxt] using loop_end hF len (compR_closer hF) f2 rest [a, b]) f1) f
      -- statement
      have viaStmt : ∀ (j : Nat) (cop : Str), F.copulaTable[j]? = some (cop, CopK.plain k) →
          R (F.parseTerm fuel (mk len (F.tplStatement (F.fmtTerm a) cop (F.fmtTerm b) ++ rest)))
            (.bin k a b, mk len rest) := by
        intro j cop he
        cases fuel with
        | zero => exact R_fuel _
        | succ fuel =>
          have := statement_rt hF len j _ he (F.fmtTerm a) (F.fmtTerm b) rest a b hsa hsb hpa hpb fuel
          simp only [tplStatement, List.append_assoc]
          rw [dispatch_stmt hF len]
          simpa [CopK.build] using this
      cases k with
      | extDiff => simpa [fmtTerm, BinK.isStatement, binKeyword] using viaDiff 8 _ rfl
      | intDiff => simpa [fmtTerm, BinK.isStatement, binKeyword] using viaDiff 9 _ rfl
      | inh => simpa [fmtTerm, BinK.isStatement, binKeyword] using viaStmt 0 _ rfl
      | sim => simpa [fmtTerm, BinK.isStatement, binKeyword] using viaStmt 1 _ rfl
      | impl => simpa [fmtTerm, BinK.isStatement, binKeyword] using viaStmt 2 _ rfl
      | equiv => simpa [fmtTerm, BinK.isStatement, binKeyword] using viaStmt 3 _ rfl
      | implPred => simpa [fmtTerm, BinK.isStatement, binKeyword] using viaStmt 7 _ rfl
      | implConc => simpa [fmtTerm, BinK.isStatement, binKeyword] using viaStmt 8 _ rfl
      | implRetro => simpa [fmtTerm, BinK.isStatement, binKeyword] using viaStmt 9 _ rfl
      | equivPred => simpa [fmtTerm, BinK.isStatement, binKeyword] using viaStmt 10 _ rfl
      | equivConc => simpa [fmtTerm, BinK.isStatement, binKeyword] using viaStmt 11 _ rfl

  /-- the component loop on the components of a set / sequence -/
  theorem rt_comps {F : EFormat} (hF : FormatOK F) (len : Nat) : ∀ (ts : Terms), wfTs F ts = true →
      ∀ (first : Bool) (fuel : Nat) (rb rest : Str) (acc : List Term), rb ∈ closers F →
      R (F.parseTerms fuel rb (mk len (compsTxt F first ts ++ rb ++ rest)) acc)
        (acc ++ ts.toList, mk len (rb ++ rest))
    | .nil, _, first, fuel, rb, rest, acc, hrb => by
      cases first <;> simpa [compsTxt, Terms.toList] using loop_end hF len hrb fuel rest acc
    | .cons t ts, hwf, first, fuel, rb, rest, acc, hrb => by
      simp only [wfTs, Bool.and_eq_true] at hwf
      have hpt := fun f => rt_term hF len t hwf.1 f _ (comps_stop hF ts hrb rest)
      have cont : ∀ f, R (F.parseTerms f rb (mk len (compsTxt F false ts ++ rb ++ rest)) (acc ++ [t]))
          (acc ++ (Terms.cons t ts).toList, mk len (rb ++ rest)) := by
        intro f
        simpa [Terms.toList, List.append_assoc] using rt_comps hF len ts hwf.2 false f rb rest (acc ++ [t]) hrb
      cases first with
      | true =>
        have e : compsTxt F true (.cons t ts) ++ rb ++ rest = F.fmtTerm t ++ (compsTxt F false ts ++ rb ++ rest) := by
          simp [compsTxt, List.append_assoc]
        rw [e]
        exact loop_elem hF len hrb (F.fmtTerm t) _ t acc _ (fmtTerm_starts hF t hwf.1 _) hpt cont fuel
      | false =>
        have e : compsTxt F false (.cons t ts) ++ rb ++ rest =
            F.separator ++ F.spaceTerms ++ F.fmtTerm t ++ (compsTxt F false ts ++ rb ++ rest) := by
          simp [compsTxt, List.append_assoc]
        rw [e]
        exact loop_step hF len hrb (F.fmtTerm t) _ t acc _ (fmtTerm_starts hF t hwf.1 _) hpt cont fuel

  /-- the component loop on the components of an image, placeholder re-inserted at its index -/
  theorem rt_image {F : EFormat} (hF : FormatOK F) (len : Nat) : ∀ (ts : Terms), wfTs F ts = true →
      ∀ (idx now fuel : Nat) (rest : Str) (acc : List Term),
      R (F.parseTerms fuel F.compR (mk len (tailTxt F (F.fmtImage idx now ts) ++ (F.compR ++ rest))) acc)
        (acc ++ imageIter idx now ts.toList, mk len (F.compR ++ rest))
    | .nil, _, idx, now, fuel, rest, acc => by
      have hc := compR_closer hF
      simp only [fmtImage, Terms.toList, imageIter]
      split
      · -- the placeholder is the last component
        refine step_tail hF len hc F.prePlaceholder [] .placeholder acc rest _
          (fun X => fmtTerm_starts hF .placeholder rfl X)
          (fun f' X hX => atom_R hF len .placeholder rfl rfl f' X hX) (fun f' => ?_) fuel
        simpa [tailTxt] using loop_end hF len hc f' rest (acc ++ [.placeholder])
      · simpa [tailTxt] using loop_end hF len hc fuel rest acc
    | .cons t ts, hwf, idx, now, fuel, rest, acc => by
      have hc := compR_closer hF
      simp only [wfTs, Bool.and_eq_true] at hwf
      have hpt := fun f' X hX => rt_term hF len t hwf.1 f' X hX
      simp only [fmtImage, Terms.toList, imageIter]
      split
      · refine step_tail hF len hc F.prePlaceholder _ .placeholder acc rest _
          (fun X => fmtTerm_starts hF .placeholder rfl X)
          (fun f' X hX => atom_R hF len .placeholder rfl rfl f' X hX) (fun f1 => ?_) fuel
        refine step_tail hF len hc (F.fmtTerm t) _ t (acc ++ [.placeholder]) rest _ (fmtTerm_starts hF t hwf.1) hpt
          (fun f2 => ?_) f1
        have := rt_image hF len ts hwf.2 idx (now + 2) f2 rest (acc ++ [.placeholder] ++ [t])
        simp only [List.append_assoc, List.cons_append, List.nil_append] at this ⊢
        exact this
      · refine step_tail hF len hc (F.fmtTerm t) _ t acc rest _ (fmtTerm_starts hF t hwf.1) hpt (fun f2 => ?_) fuel
        have := rt_image hF len ts hwf.2 idx (now + 1) f2 rest (acc ++ [t])
        simp only [List.append_assoc, List.cons_append, List.nil_append] at this ⊢
        exact this
end

end Narsese
