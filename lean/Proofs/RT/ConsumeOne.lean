/-
  Round-trip development, part 12: which alternative of `consume_one` fires on each printed item.
-/
import Proofs.RT.Stamp
set_option autoImplicit false

namespace Narsese
open EFormat

section
variable {F : EFormat} (hI : ItemsOK F) (len : Nat)
include hI

/-- the budget is the first alternative -/
theorem consumeOne_budget (m : Mid) (hm : m.budget = none) (b : Budget) (hb : wfBudget b = true) (Y : Str) :
    F.consumeOne (mk len (budgetTxt F b.components ++ Y)) m = .ok (mk len Y, { m with budget := some b }) := by
  obtain ⟨_, hne, hsp⟩ := hI.budgetList
  have hok : ∀ x ∈ b.components, x.ok = true := by simpa [wfBudget, List.all_eq_true] using hb
  have hns : isPre F.spaceParse (budgetTxt F b.components ++ Y) = false := by
    simp only [budgetTxt, List.append_assoc]; exact not_isPre_of_incompat hsp _
  unfold consumeOne
  simp only [mk_startsWith, hns, Bool.false_eq_true, if_false]
  refine alt_hit _ _ _ _ _ ?_ ?_
  · simp [hm, budgetTxt, isPre_append]
  · rw [consumeBudget_txt hI len b hok Y]; rfl

/-- the term: second alternative; the budget reader either does not fire or backs off -/
theorem consumeOne_term (m : Mid) (hm : m.term = none) (T Y : Str) (t : Term)
    (hns : isPre F.spaceParse T = false)
    (hb : m.budget.isSome = true ∨ isPre F.budgetL T = false ∨ ∃ e, F.consumeBudget (mk len T) = .err e)
    (hterm : F.parseTerm (termFuel (mk len T)) (mk len T) = .ok (t, mk len Y)) :
    F.consumeOne (mk len T) m = .ok (mk len Y, { m with term := some t }) := by
  unfold consumeOne
  simp only [mk_startsWith, hns, Bool.false_eq_true, if_false]
  have hrun : ∀ now : Cur,
      alt (fun _ => m.term.isNone)
        (liftStep (F.parseTerm (termFuel (mk len T)) (mk len T)) (fun t => { m with term := some t }))
        (alt (fun _ => m.punct.isNone) (liftStep (F.consumePunct (mk len T)) (fun p => { m with punct := some p }))
          (alt (fun now => now.startsWith F.stampL && m.stamp.isNone)
            (liftStep (F.consumeStamp (mk len T)) (fun s => { m with stamp := some s }))
            (alt (fun now => now.startsWith F.truthL && m.truth.isNone)
              (liftStep (F.consumeTruth (mk len T)) (fun t => { m with truth := some t }))
              (fun now => raise now)))) now = .ok (mk len Y, { m with term := some t }) := by
    intro now
    refine alt_hit _ _ _ _ _ ?_ ?_
    · simp [hm]
    · rw [hterm]; rfl
  by_cases hg : ((mk len T).startsWith F.budgetL && m.budget.isNone) = true
  · rcases hb with hb | hb | ⟨e, hb⟩
    · cases hmb : m.budget with
      | none => simp [hmb] at hb
      | some _ => simp [hmb] at hg
    · simp [hb] at hg
    · refine (alt_err _ _ _ _ e hg ?_).trans (hrun e)
      rw [hb]; rfl
  · refine (alt_skip _ _ _ _ (Bool.eq_false_iff.mpr hg)).trans (hrun _)

/-- the punctuation: third alternative -/
theorem consumeOne_punct (m : Mid) (t : Term) (hm : m.term = some t) (hp : m.punct = none) (p : Punct) (Y : Str) :
    F.consumeOne (mk len (F.fmtPunct p ++ Y)) m = .ok (mk len Y, { m with punct := some p }) := by
  obtain ⟨_, _, hsp, hbl⟩ := hI.punct (fmtPunct_mem p)
  unfold consumeOne
  simp only [mk_startsWith, not_isPre_of_incompat hsp Y, Bool.false_eq_true, if_false]
  refine (alt_skip _ _ _ _ ?_).trans ?_
  · simp [not_isPre_of_incompat hbl Y]
  refine (alt_skip _ _ _ _ ?_).trans ?_
  · simp [hm]
  refine alt_hit _ _ _ _ _ ?_ ?_
  · simp [hp]
  · rw [consumePunct_txt hI len p Y]; rfl

/-- the stamp: fourth alternative -/
theorem consumeOne_stamp (m : Mid) (t : Term) (p : Punct) (hm : m.term = some t) (hp : m.punct = some p)
    (hs : m.stamp = none) (st : Stamp) (hst : st ≠ .eternal) (hwf : wfStamp st = true) (Y : Str)
    (hY : headNotIn (F.stampR ++ Y) signChars = true) :
    F.consumeOne (mk len (F.fmtStamp st ++ Y)) m = .ok (stampEnd F len Y, { m with stamp := some st }) := by
  obtain ⟨hkne, hksp, hkb, _⟩ := hI.stampKw (stampKw_mem st hst)
  have e : ∃ Z, F.fmtStamp st ++ Y = F.stampL ++ (stampKw F st ++ Z) := by
    cases st with
    | eternal => exact absurd rfl hst
    | past => exact ⟨F.stampR ++ Y, by simp [fmtStamp, stampKw]⟩
    | present => exact ⟨F.stampR ++ Y, by simp [fmtStamp, stampKw]⟩
    | future => exact ⟨F.stampR ++ Y, by simp [fmtStamp, stampKw]⟩
    | fixed t => exact ⟨showInt t ++ (F.stampR ++ Y), by simp [fmtStamp, stampKw]⟩
  obtain ⟨Z, e⟩ := e
  have hns : isPre F.spaceParse (F.fmtStamp st ++ Y) = false := by
    rw [e]
    by_cases hl : F.stampL = []
    · rw [hl]; exact not_isPre_of_incompat hksp Z
    · have := hI.split.2.2.2.2.2.1
      simp only [nonempty_isEmpty hl, Bool.false_or, Bool.and_eq_true] at this
      exact not_isPre_of_incompat this.1 _
  have hnb : isPre F.budgetL (F.fmtStamp st ++ Y) = false := by
    rw [e, ← List.append_assoc]; exact not_isPre_of_incompat hkb Z
  unfold consumeOne
  simp only [mk_startsWith, hns, Bool.false_eq_true, if_false]
  refine (alt_skip _ _ _ _ ?_).trans ?_
  · simp [hnb]
  refine (alt_skip _ _ _ _ ?_).trans ?_
  · simp [hm]
  refine (alt_skip _ _ _ _ ?_).trans ?_
  · simp [hp]
  refine alt_hit _ _ _ _ _ ?_ ?_
  · simp [hs, e, isPre_append]
  · rw [consumeStamp_txt hI len st hst hwf Y hY]; rfl

/-- with an empty stamp opener (Han) the stamp reader is tried on the truth and fails on the spot -/
theorem consumeStamp_on_truth (hl : F.stampL = []) (Z : Str) :
    F.consumeStamp (mk len (F.truthL ++ Z)) = .err (mk len (F.truthL ++ Z)) := by
  obtain ⟨_, _, hsp⟩ := hI.truthList
  have hk := fun k hk => (hI.stampKw (k := k) hk).2.2.2
  unfold consumeStamp
  have : F.skipAndSpaces (mk len (F.truthL ++ Z)) F.stampL = mk len (F.truthL ++ Z) := by
    have := skipAndSpaces_mk hI.base len [] (F.truthL ++ Z) (not_isPre_of_incompat hsp Z)
    simpa [hl] using this
  rw [this]
  simp only [mk_startsWith, not_isPre_of_incompat (hk F.stampFixed (by simp [stampKws])) Z,
    not_isPre_of_incompat (hk F.stampPast (by simp [stampKws])) Z,
    not_isPre_of_incompat (hk F.stampPresent (by simp [stampKws])) Z,
    not_isPre_of_incompat (hk F.stampFuture (by simp [stampKws])) Z, Bool.false_eq_true, if_false,
    Props.C04.raise_never_panics]

/-- the truth: last alternative -/
theorem consumeOne_truth (m : Mid) (t : Term) (p : Punct) (hm : m.term = some t) (hp : m.punct = some p)
    (htr : m.truth = none) (tr : Truth) (hne : tr ≠ .empty) (hwf : wfTruth tr = true) (Y : Str) :
    F.consumeOne (mk len (truthTxt F tr.components ++ Y)) m = .ok (mk len Y, { m with truth := some tr }) := by
  obtain ⟨_, hlne, hsp⟩ := hI.truthList
  have hok : ∀ x ∈ tr.components, x.ok = true := by simpa [wfTruth, List.all_eq_true] using hwf
  have hcne : tr.components ≠ [] := by cases tr <;> simp_all [Truth.components]
  have hclen : tr.components.length ≤ 2 := by cases tr <;> simp [Truth.components]
  have e : truthTxt F tr.components ++ Y = F.truthL ++ (numsTxt F.truthSep tr.components ++ F.truthR ++ Y) := by
    simp [truthTxt, List.append_assoc]
  have hns : isPre F.spaceParse (truthTxt F tr.components ++ Y) = false := by
    rw [e]; exact not_isPre_of_incompat hsp _
  have hnb : isPre F.budgetL (truthTxt F tr.components ++ Y) = false := by
    rw [e]; exact not_isPre_of_incompat hI.split.2.2.2.2.2.2.2.2.2.2 _
  have hfin : ∀ now : Cur, now = mk len (truthTxt F tr.components ++ Y) →
      alt (fun now => now.startsWith F.truthL && m.truth.isNone)
        (liftStep (F.consumeTruth (mk len (truthTxt F tr.components ++ Y))) (fun t => { m with truth := some t }))
        (fun now => raise now) now = .ok (mk len Y, { m with truth := some tr }) := by
    intro now hnow
    refine alt_hit _ _ _ _ _ ?_ ?_
    · simp [hnow, htr, e, isPre_append]
    · rw [consumeTruth_txt hI len tr.components hcne hclen hok Y tr rfl]; rfl
  unfold consumeOne
  simp only [mk_startsWith, hns, Bool.false_eq_true, if_false]
  refine (alt_skip _ _ _ _ ?_).trans ?_
  · simp [hnb]
  refine (alt_skip _ _ _ _ ?_).trans ?_
  · simp [hm]
  refine (alt_skip _ _ _ _ ?_).trans ?_
  · simp [hp]
  by_cases hg : ((mk len (truthTxt F tr.components ++ Y)).startsWith F.stampL && m.stamp.isNone) = true
  · -- only possible with an empty stamp opener
    have hl : F.stampL = [] := by
      by_cases hl : F.stampL = []
      · exact hl
      · have := hI.split.2.2.2.2.2.1
        simp only [nonempty_isEmpty hl, Bool.false_or, Bool.and_eq_true] at this
        simp [e, not_isPre_of_incompat this.2 _] at hg
    refine (alt_err _ _ _ _ (mk len (truthTxt F tr.components ++ Y)) hg ?_).trans (hfin _ rfl)
    rw [e, consumeStamp_on_truth hI len hl]; rfl
  · exact (alt_skip _ _ _ _ (Bool.eq_false_iff.mpr hg)).trans (hfin _ rfl)

end

end Narsese
