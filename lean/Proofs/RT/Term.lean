/-
  Round-trip development, part 6: `parse_term (format_term t ++ rest) = (t, rest)` for every well-formed
  term, any nesting depth, any format satisfying `FormatOK`.
-/
import Proofs.RT.Loop
import Props.C14
set_option autoImplicit false

namespace Narsese
open EFormat

section
variable {F : EFormat} (hF : FormatOK F) (len : Nat)
include hF

theorem skipAndSpaces_mk (k s : Str) (h : isPre F.spaceParse s = false) :
    F.skipAndSpaces (mk len (k ++ s)) k = mk len s := by
  simp only [skipAndSpaces, mk_skip, skipSpaces_noprefix F len s h]

theorem skipAfterSpaces_mk (k s : Str) (h : isPre F.spaceParse (k ++ s) = false) :
    F.skipAfterSpaces (mk len (k ++ s)) k = mk len s := by
  simp only [skipAfterSpaces, skipSpaces_noprefix F len _ h, mk_skip]

theorem closer_no_space {rb : Str} (hrb : rb ∈ closers F) (Y : Str) : isPre F.spaceParse (rb ++ Y) = false :=
  not_isPre_of_incompat (hF.closer hrb).1 Y

theorem starts_no_space {s : Str} (h : Starts F s) : isPre F.spaceParse s = false :=
  terminator_not_pre (hF.terminator (x := F.spaceParse) (by simp)) h

/-! ### dispatch of `parse_term` on the four openers -/

theorem dispatch_extSet (fuel : Nat) (Y : Str) :
    F.parseTerm (fuel + 1) (mk len (F.extSetL ++ Y)) =
      F.parseTermSet fuel .extSet F.extSetL F.extSetR (mk len (F.extSetL ++ Y)) := by
  rw [parseTerm]; simp only [mk_startsWith, isPre_append, if_true]

theorem dispatch_intSet (fuel : Nat) (Y : Str) :
    F.parseTerm (fuel + 1) (mk len (F.intSetL ++ Y)) =
      F.parseTermSet fuel .intSet F.intSetL F.intSetR (mk len (F.intSetL ++ Y)) := by
  rw [parseTerm]
  simp only [mk_startsWith, isPre_append, not_isPre_of_incompat hF.openers_pair.1 Y, Bool.false_eq_true, if_false, if_true]

theorem dispatch_comp (fuel : Nat) (Y : Str) :
    F.parseTerm (fuel + 1) (mk len (F.compL ++ Y)) = F.parseCompound fuel (mk len (F.compL ++ Y)) := by
  rw [parseTerm]
  simp only [mk_startsWith, isPre_append, not_isPre_of_incompat hF.openers_pair.2.1 Y,
    not_isPre_of_incompat hF.openers_pair.2.2.2.1 Y, Bool.false_eq_true, if_false, if_true]

theorem dispatch_stmt (fuel : Nat) (Y : Str) :
    F.parseTerm (fuel + 1) (mk len (F.stmtL ++ Y)) = F.parseStatement fuel (mk len (F.stmtL ++ Y)) := by
  rw [parseTerm]
  simp only [mk_startsWith, isPre_append, not_isPre_of_incompat hF.openers_pair.2.2.1 Y,
    not_isPre_of_incompat hF.openers_pair.2.2.2.2.1 Y, not_isPre_of_incompat hF.openers_pair.2.2.2.2.2 Y,
    Bool.false_eq_true, if_false, if_true]

/-! ### bracket sets -/

theorem termSet_rt (k : SetK) (lb rb : Str) (hrb : rb ∈ closers F) (body rest : Str) (ts : List Term)
    (hne : ts ≠ []) (hstart : Starts F (body ++ rb ++ rest))
    (hloop : ∀ fuel', R (F.parseTerms fuel' rb (mk len (body ++ rb ++ rest)) []) (ts, mk len (rb ++ rest)))
    (fuel : Nat) :
    R (F.parseTermSet fuel k lb rb (mk len (lb ++ (body ++ rb ++ rest))))
      (.setlike k (Terms.ofList (mkSetSem ts)), mk len rest) := by
  simp only [List.append_assoc] at hloop hstart ⊢
  cases fuel with
  | zero => exact R_fuel _
  | succ fuel =>
    rw [parseTermSet, skipAndSpaces_mk hF len lb _ (starts_no_space hF hstart)]
    rcases hloop fuel with h | h
    · simp [h, R]
    · simp only [h, skipAfterSpaces_mk hF len rb rest (closer_no_space hF hrb rest)]
      have : ts.isEmpty = false := by cases ts <;> simp_all
      simp only [this, Bool.false_eq_true, if_false]
      exact R_ok _

/-! ### connecter compounds -/

/-- the connecter written by the formatter is the first match of the parser's ordered table -/
theorem conn_find (j : Nat) (e : Str × ConnK) (he : F.connecters[j]? = some e) (Y : Str) :
    F.connecters.find? (fun p => (mk len (e.1 ++ F.separator ++ Y)).startsWith p.1) = some e := by
  apply find?_at _ _ j e he
  · simp only [mk_startsWith, List.append_assoc, isPre_append]
  · intro i hi y hy
    simp only [mk_startsWith]
    exact hF.conn_order i j hi y e hy he Y

theorem conn_mem (j : Nat) (e : Str × ConnK) (he : F.connecters[j]? = some e) : e.1 ∈ F.connecters.map (·.1) := by
  simp only [List.mem_map]
  exact ⟨e, List.mem_of_getElem? he, rfl⟩

/-- `parse_compound` on `( connecter sep sp c₁ sep sp c₂ … )`; `hfin` is what the kind-specific tail does -/
theorem compound_rt (j : Nat) (e : Str × ConnK) (he : F.connecters[j]? = some e)
    (hop : e.2 ≠ .operatorUnsupported)
    (ss : List Str) (hss : ss ≠ []) (rest : Str) (ts : List Term) (hne : ts ≠ []) (out : Term)
    (hloop : ∀ fuel', R (F.parseTerms fuel' F.compR (mk len (tailTxt F ss ++ (F.compR ++ rest))) [])
      (ts, mk len (F.compR ++ rest)))
    (hfin : ∀ c3 : Cur, F.finishCompound e.2 ts c3 = .ok (out, F.skipAfterSpaces c3 F.compR))
    (fuel : Nat) :
    R (F.parseCompound fuel (mk len (F.compL ++ (e.1 ++ (tailTxt F ss ++ (F.compR ++ rest))))))
      (out, mk len rest) := by
  cases fuel with
  | zero => exact R_fuel _
  | succ fuel =>
    obtain ⟨hcne, hcsp⟩ := hF.connecter (conn_mem hF j e he)
    -- the text after the connecter begins with the separator
    obtain ⟨s, ss', rfl⟩ : ∃ s ss', ss = s :: ss' := by
      cases ss with
      | nil => exact absurd rfl hss
      | cons s ss' => exact ⟨s, ss', rfl⟩
    have htxt : e.1 ++ (tailTxt F (s :: ss') ++ (F.compR ++ rest)) =
        e.1 ++ F.separator ++ (F.spaceTerms ++ s ++ tailTxt F ss' ++ (F.compR ++ rest)) := by
      simp [tailTxt, List.append_assoc]
    rw [parseCompound, skipAndSpaces_mk hF len F.compL _ (not_isPre_of_incompat hcsp _)]
    simp only
    rw [htxt, conn_find hF len j e he]
    simp only [hop, if_false]
    rw [← htxt, mk_skip]
    have hcompR : F.compR ∈ closers F := by simp [closers]
    rcases hloop fuel with h | h
    · simp [h, R]
    · simp only [h]
      have : ts.isEmpty = false := by cases ts <;> simp_all
      simp only [this, Bool.false_eq_true, if_false]
      rw [hfin, skipAfterSpaces_mk hF len F.compR rest (closer_no_space hF hcompR rest)]
      exact R_ok _

/-! ### statements -/

theorem copula_find (j : Nat) (e : Str × CopK) (he : F.copulaTable[j]? = some e) (Y : Str) :
    F.copulaTable.find? (fun p => (mk len (e.1 ++ Y)).startsWith p.1) = some e := by
  apply find?_at _ _ j e he
  · simp only [mk_startsWith, isPre_append]
  · intro i hi y hy
    simp only [mk_startsWith]
    have hp := hF.split.2.2.2.2.2.2.2.2.2.2.1
    have := pairwiseB_get incompat (F.copulaTable.map (·.1)) hp i j hi y.1 e.1 (by simp [hy]) (by simp [he])
    exact not_isPre_of_incompat this Y

theorem copula_mem (j : Nat) (e : Str × CopK) (he : F.copulaTable[j]? = some e) :
    e.1 ∈ F.copulaTable.map (·.1) := by
  simp only [List.mem_map]
  exact ⟨e, List.mem_of_getElem? he, rfl⟩

/-- what follows the subject of a statement stops the name scanner -/
theorem subject_stop (j : Nat) (e : Str × CopK) (he : F.copulaTable[j]? = some e) (Y : Str) :
    Stop F (F.spaceTerms ++ (e.1 ++ Y)) := by
  rcases hF.sp with hsp | hsp
  · rw [hsp]
    obtain ⟨hne, hh⟩ := terminator_parts hF (hF.terminator (x := F.spaceParse) (by simp))
    exact stop_of_kw F _ _ hne hh
  · rw [hsp]
    simp only [List.nil_append]
    have hm := copula_mem hF j e he
    exact stop_of_copula F e.1 Y (by rw [hF.copulas_eq]; exact hm) (hF.copula hm).1

theorem statement_rt (j : Nat) (e : Str × CopK) (he : F.copulaTable[j]? = some e)
    (fa fb rest : Str) (a b : Term)
    (hsa : ∀ X, Starts F (fa ++ X)) (hsb : ∀ X, Starts F (fb ++ X))
    (hpa : ∀ fuel' X, Stop F X → R (F.parseTerm fuel' (mk len (fa ++ X))) (a, mk len X))
    (hpb : ∀ fuel' X, Stop F X → R (F.parseTerm fuel' (mk len (fb ++ X))) (b, mk len X))
    (fuel : Nat) :
    R (F.parseStatement fuel (mk len (F.stmtL ++ (fa ++ (F.spaceTerms ++ (e.1 ++ (F.spaceTerms ++ (fb ++ (F.stmtR ++ rest)))))))))
      (e.2.build a b, mk len rest) := by
  cases fuel with
  | zero => exact R_fuel _
  | succ fuel =>
    have hstmtR : F.stmtR ∈ closers F := by simp [closers]
    obtain ⟨hcne, hcsp, _⟩ := hF.copula (copula_mem hF j e he)
    rw [parseStatement, skipAndSpaces_mk hF len F.stmtL _ (starts_no_space hF (hsa _))]
    rcases hpa fuel (F.spaceTerms ++ (e.1 ++ (F.spaceTerms ++ (fb ++ (F.stmtR ++ rest)))))
        (subject_stop hF j e he (F.spaceTerms ++ (fb ++ (F.stmtR ++ rest)))) with h | h
    · simp [h, R]
    · simp only [h]
      rw [skipSpaces_sp F hF.sp len (e.1 ++ (F.spaceTerms ++ (fb ++ (F.stmtR ++ rest))))
        (not_isPre_of_incompat hcsp _), copula_find hF len j e he]
      simp only
      rw [mk_skip, skipSpaces_sp F hF.sp len (fb ++ (F.stmtR ++ rest)) (starts_no_space hF (hsb _))]
      have hst : Stop F (F.stmtR ++ rest) := by
        obtain ⟨hne, hh⟩ := terminator_parts hF (closer_terminator hF hstmtR)
        exact stop_of_kw F _ _ hne hh
      rcases hpb fuel (F.stmtR ++ rest) hst with h2 | h2
      · simp [h2, R]
      · simp only [h2, skipAfterSpaces_mk hF len F.stmtR rest (closer_no_space hF hstmtR rest)]
        exact R_ok _

end

end Narsese
