/-
  Round-trip development, part 8: fuel discharged; the whole-value parser on a formatted TERM.
-/
import Proofs.RT.Main
set_option autoImplicit false

namespace Narsese
open EFormat

/-- **term-level round trip with the fuel discharged** -/
theorem parseTerm_fmtTerm {F : EFormat} (hF : FormatOK F) (len : Nat) (t : Term) (ht : wfT F t = true)
    (rest : Str) (hst : Stop F rest) (fuel : Nat) (hfuel : 3 * (F.fmtTerm t ++ rest).length + 2 ≤ fuel) :
    F.parseTerm fuel (mk len (F.fmtTerm t ++ rest)) = .ok (t, mk len rest) := by
  rcases rt_term hF len t ht fuel rest hst with h | h
  · exact absurd h ((parseTerm_good F hF.sane.toSane fuel (mk len (F.fmtTerm t ++ rest))).2.2 (by simpa [mk, Cur.n] using hfuel))
  · exact h

end Narsese
