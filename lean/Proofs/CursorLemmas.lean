/-
  Cursor arithmetic for the enum parser model.
-/
import NarseseModel.EParser
import Props.C04
set_option autoImplicit false

namespace Narsese
open EFormat

abbrev Cur.n (c : Cur) : Nat := c.rest.length

theorem strip_length : ∀ (k s r : Str), strip k s = some r → s.length = k.length + r.length
  | [], s, r, h => by simp [strip] at h; simp [h]
  | a :: k, [], r, h => by simp [strip] at h
  | a :: k, c :: cs, r, h => by
    simp only [strip] at h
    split at h
    · have := strip_length k cs r h; simp [this]; omega
    · simp at h

theorem isPre_length (k s : Str) (h : isPre k s = true) : k.length ≤ s.length := by
  unfold isPre at h
  cases hs : strip k s with
  | none => simp [hs] at h
  | some r => have := strip_length k s r hs; omega

theorem startsWith_length (c : Cur) (k : Str) (h : c.startsWith k = true) : k.length ≤ c.n ∧ c.over = 0 := by
  simp only [Cur.startsWith, Bool.and_eq_true, beq_iff_eq] at h
  exact ⟨isPre_length k c.rest h.2, h.1⟩

theorem skipN_n (c : Cur) (k : Nat) : (c.skipN k).n = c.n - k := by
  unfold Cur.skipN Cur.n
  split
  · simp
  · simp; omega

theorem skipN_len (c : Cur) (k : Nat) : (c.skipN k).len = c.len := by
  unfold Cur.skipN; split <;> rfl

theorem skip_n (c : Cur) (k : Str) : (c.skip k).n = c.n - k.length := skipN_n c _
theorem skip_len (c : Cur) (k : Str) : (c.skip k).len = c.len := skipN_len c _

theorem skipSpAux_length (sp : Str) : ∀ (n : Nat) (s : Str), (skipSpAux sp n s).length ≤ s.length
  | 0, s => by simp [skipSpAux]
  | n + 1, s => by
    simp only [skipSpAux]
    cases h : strip sp s with
    | none => simp
    | some r =>
      have h1 := strip_length sp s r h
      have h2 := skipSpAux_length sp n r
      simp only; omega

theorem skipSpaces_n (F : EFormat) (c : Cur) : (F.skipSpaces c).n ≤ c.n := by
  unfold skipSpaces Cur.n
  split
  · exact skipSpAux_length _ _ _
  · exact Nat.le_refl _

theorem skipSpaces_len (F : EFormat) (c : Cur) : (F.skipSpaces c).len = c.len := by
  unfold skipSpaces; split <;> rfl

theorem skipAndSpaces_n (F : EFormat) (c : Cur) (k : Str) : (F.skipAndSpaces c k).n ≤ c.n - k.length := by
  unfold skipAndSpaces
  have := skipSpaces_n F (c.skip k)
  rw [skip_n] at this; exact this

theorem skipAfterSpaces_n (F : EFormat) (c : Cur) (k : Str) : (F.skipAfterSpaces c k).n ≤ c.n := by
  unfold skipAfterSpaces
  rw [skip_n]
  have := skipSpaces_n F c
  omega

theorem scanName_length (F : EFormat) : ∀ s : Str, (F.scanName s).1.length + (F.scanName s).2.length = s.length
  | [] => by simp [scanName]
  | c :: cs => by
    simp only [scanName]
    split
    · simp
    · split
      · have := scanName_length F cs; simp; omega
      · simp

theorem spanSigned_length : ∀ s : Str, (spanSigned s).1.length + (spanSigned s).2.length = s.length
  | [] => by simp [spanSigned]
  | c :: cs => by
    simp only [spanSigned]
    split
    · have := spanSigned_length cs; simp; omega
    · simp

end Narsese
