/-
  Decimal printing / reading of `usize` and `isize` round-trips.
-/
import NarseseModel.Num
set_option autoImplicit false

namespace Narsese

theorem digit_facts : ∀ d : Fin 10, digitVal (digitChar d) = d ∧ isDigit (digitChar d) = true ∧
    digitChar d ≠ '+' ∧ digitChar d ≠ '-' := by decide +kernel

theorem digitsVal_cons (a : Nat) (c : Char) (cs : Str) : digitsVal a (c :: cs) = digitsVal (a * 10 + digitVal c) cs := rfl

theorem digitVal_digitChar (d : Nat) (h : d < 10) : digitVal (digitChar d) = d := (digit_facts ⟨d, h⟩).1
theorem isDigit_digitChar (d : Nat) (h : d < 10) : isDigit (digitChar d) = true := (digit_facts ⟨d, h⟩).2.1

/-- the digit loop: value, digit-ness and non-emptiness, for any accumulator -/
theorem natDigitsAux_spec : ∀ (fuel n : Nat) (acc : Str), n < fuel →
    (∀ a, ∃ m, digitsVal a (natDigitsAux fuel n acc) = digitsVal (a * 10 ^ m + n) acc) ∧
    (allDigits (natDigitsAux fuel n acc) = allDigits acc) ∧
    (∃ c r, natDigitsAux fuel n acc = c :: r ∧ isDigit c = true)
  | 0, n, acc, h => by omega
  | fuel + 1, n, acc, h => by
    simp only [natDigitsAux]
    split
    · next hlt =>
      refine ⟨fun a => ⟨1, by rw [digitsVal_cons, digitVal_digitChar n hlt, Nat.pow_one]⟩, ?_, ⟨_, _, rfl, isDigit_digitChar n hlt⟩⟩
      simp [allDigits, isDigit_digitChar n hlt]
    · next hge =>
      have hlt : n % 10 < 10 := Nat.mod_lt _ (by decide)
      have hn : n / 10 < fuel := by omega
      obtain ⟨h1, h2, h3⟩ := natDigitsAux_spec fuel (n / 10) (digitChar (n % 10) :: acc) hn
      refine ⟨fun a => ?_, ?_, h3⟩
      · obtain ⟨m, hm⟩ := h1 a
        refine ⟨m + 1, ?_⟩
        rw [hm]
        rw [digitsVal_cons, digitVal_digitChar _ hlt]
        congr 1
        rw [Nat.pow_succ]
        have := Nat.div_add_mod n 10
        calc (a * 10 ^ m + n / 10) * 10 + n % 10 = a * (10 ^ m * 10) + (10 * (n / 10) + n % 10) := by
              rw [Nat.add_mul, Nat.mul_assoc, Nat.mul_comm (n / 10) 10, Nat.add_assoc]
          _ = a * (10 ^ m * 10) + n := by rw [this]
      · rw [h2]; simp [allDigits, isDigit_digitChar _ hlt]

theorem natDigitsAux_chars : ∀ (fuel n : Nat) (acc : Str), n < fuel →
    ∀ c ∈ natDigitsAux fuel n acc, c ∈ acc ∨ ∃ d, d < 10 ∧ c = digitChar d
  | 0, n, acc, h, _, _ => by omega
  | fuel + 1, n, acc, h, c, hc => by
    simp only [natDigitsAux] at hc
    split at hc
    · next hlt =>
      simp only [List.mem_cons] at hc
      rcases hc with hc | hc
      · exact .inr ⟨n, hlt, hc⟩
      · exact .inl hc
    · have hlt : n % 10 < 10 := Nat.mod_lt _ (by decide)
      rcases natDigitsAux_chars fuel (n / 10) _ (by omega) c hc with h' | h'
      · simp only [List.mem_cons] at h'
        rcases h' with h' | h'
        · exact .inr ⟨n % 10, hlt, h'⟩
        · exact .inl h'
      · exact .inr h'

theorem showNat_chars (n : Nat) : ∀ c ∈ showNat n, ∃ d, d < 10 ∧ c = digitChar d := by
  intro c hc
  rcases natDigitsAux_chars (n + 1) n [] (by omega) c hc with h | h
  · simp at h
  · exact h

theorem showNat_spec (n : Nat) :
    digitsVal 0 (showNat n) = n ∧ allDigits (showNat n) = true ∧ ∃ c r, showNat n = c :: r ∧ isDigit c = true := by
  obtain ⟨h1, h2, h3⟩ := natDigitsAux_spec (n + 1) n [] (by omega)
  obtain ⟨m, hm⟩ := h1 0
  exact ⟨by simpa [showNat, digitsVal] using hm, by simpa [showNat, allDigits] using h2, h3⟩

theorem parseUsize_of_digits (s : Str) (c : Char) (r : Str) (hs : s = c :: r) (hc : isDigit c = true)
    (hd : allDigits s = true) :
    parseUsize s = if digitsVal 0 s < 2 ^ usizeBits then some (digitsVal 0 s) else none := by
  unfold parseUsize
  split
  · next r' => injection hs with h1 _; subst h1; simp [isDigit] at hc
  · subst hs; simp [hd]

/-- `usize::to_string` then `str::parse::<usize>` is the identity on machine words -/
theorem parseUsize_showNat (n : Nat) (h : n < 2 ^ 64) : parseUsize (showNat n) = some n := by
  obtain ⟨hv, hd, c, r, hs, hc⟩ := showNat_spec n
  rw [parseUsize_of_digits _ c r hs hc hd, hv]
  simp [usizeBits, h]

theorem parseIsize_of_digits (s : Str) (c : Char) (r : Str) (hs : s = c :: r) (hc : isDigit c = true)
    (hd : allDigits s = true) :
    parseIsize s = if digitsVal 0 s < 2 ^ (usizeBits - 1) then some (Int.ofNat (digitsVal 0 s)) else none := by
  unfold parseIsize
  split
  · next ds => injection hs with h1 _; subst h1; simp [isDigit] at hc
  · split
    · next r' => injection hs with h1 _; subst h1; simp [isDigit] at hc
    · subst hs; simp [hd]

theorem parseIsize_neg (ds : Str) (hne : ds.isEmpty = false) (hd : allDigits ds = true) :
    parseIsize ('-' :: ds) = if digitsVal 0 ds ≤ 2 ^ (usizeBits - 1) then some (- Int.ofNat (digitsVal 0 ds)) else none := by
  simp [parseIsize, hne, hd]

/-- `isize::to_string` then `str::parse::<isize>` is the identity on `[-2^63, 2^63)` -/
theorem parseIsize_showInt (i : Int) (h1 : -(2 ^ 63 : Int) ≤ i) (h2 : i < 2 ^ 63) : parseIsize (showInt i) = some i := by
  cases i with
  | ofNat n =>
    obtain ⟨hv, hd, c, r, hs, hc⟩ := showNat_spec n
    have hn : n < 2 ^ 63 := by
      have : (n : Int) < 2 ^ 63 := h2
      exact_mod_cast this
    simp only [showInt]
    rw [parseIsize_of_digits _ c r hs hc hd, hv]
    simp [usizeBits, hn]
  | negSucc n =>
    obtain ⟨hv, hd, c, r, hs, hc⟩ := showNat_spec (n + 1)
    have hn : n + 1 ≤ 2 ^ 63 := by
      have : -(2 ^ 63 : Int) ≤ Int.negSucc n := h1
      rw [Int.negSucc_eq] at this
      have : ((n : Int) + 1) ≤ 2 ^ 63 := by omega
      exact_mod_cast this
    simp only [showInt]
    rw [parseIsize_neg _ (by rw [hs]; rfl) hd, hv]
    have hn' : n + 1 ≤ 2 ^ (usizeBits - 1) := by simpa [usizeBits] using hn
    rw [if_pos hn', Int.negSucc_eq]
    simp

end Narsese
