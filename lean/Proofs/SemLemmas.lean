/-
  `sem` is an equivalence relation (helper lemmas for C06 / C07).
  The `induction` tactic does not accept mutual inductives: proofs are structurally recursive theorems.
-/
import NarseseModel.Sem
set_option autoImplicit false

namespace Narsese

inductive All2 {α β : Type} (R : α → β → Prop) : List α → List β → Prop where
  | nil : All2 R [] []
  | cons {a b as bs} : R a b → All2 R as bs → All2 R (a :: as) (b :: bs)

theorem subL_iff : ∀ (as : Terms) (bs : List Term), subL as bs = true ↔ ∀ a ∈ as.toList, ∃ b ∈ bs, sem a b = true
  | .nil, bs => by simp [subL, Terms.toList]
  | .cons a as, bs => by simp [subL, Terms.toList, subL_iff as bs]

theorem anyL_iff : ∀ (as : Terms) (b : Term), anyL as b = true ↔ ∃ a ∈ as.toList, sem a b = true
  | .nil, b => by simp [anyL, Terms.toList]
  | .cons a as, b => by simp [anyL, Terms.toList, anyL_iff as b]

theorem zipL_iff : ∀ (as : Terms) (bs : List Term), zipL as bs = true ↔ All2 (fun a b => sem a b = true) as.toList bs
  | .nil, [] => by simp [zipL, Terms.toList]; exact .nil
  | .nil, _ :: _ => by simp [zipL, Terms.toList]; intro h; cases h
  | .cons _ _, [] => by simp [zipL, Terms.toList]; intro h; cases h
  | .cons a as, b :: bs => by
      simp only [zipL, Terms.toList, Bool.and_eq_true, zipL_iff as bs]
      constructor
      · rintro ⟨h1, h2⟩; exact .cons h1 h2
      · intro h; cases h with | cons h1 h2 => exact ⟨h1, h2⟩

/-- set part of `sem`: same kind and mutual inclusion -/
theorem sem_set_iff (k k' : SetK) (as bs : Terms) : sem (.setlike k as) (.setlike k' bs) = true ↔
    k = k' ∧ (∀ a ∈ as.toList, ∃ b ∈ bs.toList, sem a b = true) ∧ (∀ b ∈ bs.toList, ∃ a ∈ as.toList, sem a b = true) := by
  simp [sem, subL_iff, anyL_iff]

theorem sem_seq_iff (k k' : SeqK) (as bs : Terms) : sem (.seqlike k as) (.seqlike k' bs) = true ↔
    k = k' ∧ All2 (fun a b => sem a b = true) as.toList bs.toList := by
  simp [sem, zipL_iff]

theorem sem_img_iff (k k' : ImgK) (i j : Nat) (as bs : Terms) : sem (.image k i as) (.image k' j bs) = true ↔
    k = k' ∧ i = j ∧ All2 (fun a b => sem a b = true) as.toList bs.toList := by
  simp [sem, zipL_iff]

theorem All2.flip_of {α β : Type} {R : α → β → Prop} {S : β → α → Prop} :
    ∀ {as : List α} {bs : List β}, (∀ a ∈ as, ∀ b, R a b → S b a) → All2 R as bs → All2 S bs as
  | _, _, _, .nil => .nil
  | _, _, h, .cons r rest => .cons (h _ (by simp) _ r) (All2.flip_of (fun a ha b => h a (by simp [ha]) b) rest)

theorem All2.flip_of' {α β : Type} {R : α → β → Prop} {S : β → α → Prop} :
    ∀ {as : List α} {bs : List β}, (∀ a ∈ as, ∀ b, S b a → R a b) → All2 S bs as → All2 R as bs
  | _, _, _, .nil => .nil
  | _, _, h, .cons r rest => .cons (h _ (by simp) _ r) (All2.flip_of' (fun a ha b => h a (by simp [ha]) b) rest)

theorem All2.trans_of {α : Type} {R : α → α → Prop} :
    ∀ {as bs cs : List α}, (∀ a ∈ as, ∀ b c, R a b → R b c → R a c) → All2 R as bs → All2 R bs cs → All2 R as cs
  | _, _, _, _, .nil, .nil => .nil
  | _, _, _, h, .cons r1 rest1, .cons r2 rest2 =>
      .cons (h _ (by simp) _ _ r1 r2) (All2.trans_of (fun a ha b c => h a (by simp [ha]) b c) rest1 rest2)

theorem All2.length_eq {α β : Type} {R : α → β → Prop} : ∀ {as : List α} {bs : List β}, All2 R as bs → as.length = bs.length
  | _, _, .nil => rfl
  | _, _, .cons _ rest => by simp [All2.length_eq rest]

mutual
  theorem sem_refl : ∀ t : Term, sem t t = true
    | .atom k n => by simp [sem]
    | .placeholder => by simp [sem]
    | .interval n => by simp [sem]
    | .setlike k ts => by
        rw [sem_set_iff]
        exact ⟨rfl, fun a ha => ⟨a, ha, sems_refl ts a ha⟩, fun a ha => ⟨a, ha, sems_refl ts a ha⟩⟩
    | .seqlike k ts => by rw [sem_seq_iff]; exact ⟨rfl, seq_refl ts⟩
    | .image k i ts => by rw [sem_img_iff]; exact ⟨rfl, rfl, seq_refl ts⟩
    | .neg t => by simp [sem, sem_refl t]
    | .bin k a b => by cases hk : k.symmetric <;> simp [sem, hk, sem_refl a, sem_refl b]
  theorem sems_refl : ∀ (ts : Terms) (a : Term), a ∈ ts.toList → sem a a = true
    | .nil, a, h => by simp [Terms.toList] at h
    | .cons t ts, a, h => by
        simp only [Terms.toList, List.mem_cons] at h
        rcases h with h | h
        · rw [h]; exact sem_refl t
        · exact sems_refl ts a h
  theorem seq_refl : ∀ (ts : Terms), All2 (fun a b => sem a b = true) ts.toList ts.toList
    | .nil => by simp only [Terms.toList]; exact .nil
    | .cons t ts => by simp only [Terms.toList]; exact .cons (sem_refl t) (seq_refl ts)
end

mutual
  theorem sem_symm : ∀ (a b : Term), sem a b = sem b a
    | .atom k n, b => by
        cases b <;> simp [sem]
        next k' n' =>
          apply Bool.eq_iff_iff.mpr
          simp only [Bool.and_eq_true, beq_iff_eq]
          constructor <;> (rintro ⟨h1, h2⟩; exact ⟨h1.symm, h2.symm⟩)
    | .placeholder, b => by cases b <;> simp [sem]
    | .interval n, b => by
        cases b <;> simp [sem]
        next m => exact Bool.eq_iff_iff.mpr ⟨fun h => by simpa using (beq_iff_eq.mp h).symm, fun h => by simpa using (beq_iff_eq.mp h).symm⟩
    | .setlike k as, b => by
        cases b with
        | setlike k' bs =>
          apply Bool.eq_iff_iff.mpr
          rw [sem_set_iff, sem_set_iff]
          have ih := sems_symm as
          constructor
          · rintro ⟨hk, h1, h2⟩
            exact ⟨hk.symm, fun b hb => let ⟨a, ha, hab⟩ := h2 b hb; ⟨a, ha, by rw [← ih a ha b]; exact hab⟩,
                   fun a ha => let ⟨b, hb, hab⟩ := h1 a ha; ⟨b, hb, by rw [← ih a ha b]; exact hab⟩⟩
          · rintro ⟨hk, h1, h2⟩
            exact ⟨hk.symm, fun a ha => let ⟨b, hb, hba⟩ := h2 a ha; ⟨b, hb, by rw [ih a ha b]; exact hba⟩,
                   fun b hb => let ⟨a, ha, hba⟩ := h1 b hb; ⟨a, ha, by rw [ih a ha b]; exact hba⟩⟩
        | _ => simp [sem]
    | .seqlike k as, b => by
        cases b with
        | seqlike k' bs =>
          apply Bool.eq_iff_iff.mpr
          rw [sem_seq_iff, sem_seq_iff]
          have ih := sems_symm as
          constructor
          · rintro ⟨hk, h⟩; exact ⟨hk.symm, All2.flip_of (fun a ha b h => by rw [← ih a ha b]; exact h) h⟩
          · rintro ⟨hk, h⟩; exact ⟨hk.symm, All2.flip_of' (fun a ha b h => by rw [ih a ha b]; exact h) h⟩
        | _ => simp [sem]
    | .image k i as, b => by
        cases b with
        | image k' j bs =>
          apply Bool.eq_iff_iff.mpr
          rw [sem_img_iff, sem_img_iff]
          have ih := sems_symm as
          constructor
          · rintro ⟨hk, hi, h⟩; exact ⟨hk.symm, hi.symm, All2.flip_of (fun a ha b h => by rw [← ih a ha b]; exact h) h⟩
          · rintro ⟨hk, hi, h⟩; exact ⟨hk.symm, hi.symm, All2.flip_of' (fun a ha b h => by rw [ih a ha b]; exact h) h⟩
        | _ => simp [sem]
    | .neg a, b => by
        cases b with
        | neg b => simp only [sem]; exact sem_symm a b
        | _ => simp [sem]
    | .bin k a b, c => by
        cases c with
        | bin k' c d =>
          by_cases hk : k = k'
          · subst hk
            cases hs : k.symmetric
            · simp only [sem, hs, beq_self_eq_true, Bool.true_and, Bool.false_eq_true, if_false, sem_symm a c, sem_symm b d]
            · simp only [sem, hs, beq_self_eq_true, Bool.true_and, if_true, sem_symm a c, sem_symm b d, sem_symm a d, sem_symm b c]
              cases sem c a <;> cases sem d b <;> cases sem d a <;> cases sem c b <;> rfl
          · have hk' : ¬ k' = k := fun h => hk h.symm
            have e1 : (k == k') = false := by simpa using hk
            have e2 : (k' == k) = false := by simpa using hk'
            simp only [sem, e1, e2, Bool.false_and]
        | _ => simp [sem]
  theorem sems_symm : ∀ (as : Terms) (a : Term), a ∈ as.toList → ∀ b, sem a b = sem b a
    | .nil, a, h, _ => by simp [Terms.toList] at h
    | .cons t ts, a, h, b => by
        simp only [Terms.toList, List.mem_cons] at h
        rcases h with h | h
        · rw [h]; exact sem_symm t b
        · exact sems_symm ts a h b
end

mutual
  theorem sem_trans : ∀ (a b c : Term), sem a b = true → sem b c = true → sem a c = true
    | .atom k n, b, c, h1, h2 => by
        cases b <;> simp [sem] at h1
        cases c <;> simp [sem] at h2
        simp [sem, h1.1, h1.2, h2.1, h2.2]
    | .placeholder, b, c, h1, h2 => by
        cases b <;> simp [sem] at h1
        cases c <;> simp [sem] at h2
        simp [sem]
    | .interval n, b, c, h1, h2 => by
        cases b <;> simp [sem] at h1
        cases c <;> simp [sem] at h2
        simp [sem, h1, h2]
    | .setlike k as, b, c, h1, h2 => by
        cases b with
        | setlike k' bs =>
          cases c with
          | setlike k'' cs =>
            rw [sem_set_iff] at h1 h2 ⊢
            have ih := sems_trans as
            refine ⟨h1.1.trans h2.1, fun a ha => ?_, fun c hc => ?_⟩
            · obtain ⟨b, hb, hab⟩ := h1.2.1 a ha
              obtain ⟨c, hc, hbc⟩ := h2.2.1 b hb
              exact ⟨c, hc, ih a ha b c hab hbc⟩
            · obtain ⟨b, hb, hbc⟩ := h2.2.2 c hc
              obtain ⟨a, ha, hab⟩ := h1.2.2 b hb
              exact ⟨a, ha, ih a ha b c hab hbc⟩
          | _ => simp [sem] at h2
        | _ => simp [sem] at h1
    | .seqlike k as, b, c, h1, h2 => by
        cases b with
        | seqlike k' bs =>
          cases c with
          | seqlike k'' cs =>
            rw [sem_seq_iff] at h1 h2 ⊢
            exact ⟨h1.1.trans h2.1, All2.trans_of (fun a ha b c => sems_trans as a ha b c) h1.2 h2.2⟩
          | _ => simp [sem] at h2
        | _ => simp [sem] at h1
    | .image k i as, b, c, h1, h2 => by
        cases b with
        | image k' j bs =>
          cases c with
          | image k'' l cs =>
            rw [sem_img_iff] at h1 h2 ⊢
            exact ⟨h1.1.trans h2.1, h1.2.1.trans h2.2.1, All2.trans_of (fun a ha b c => sems_trans as a ha b c) h1.2.2 h2.2.2⟩
          | _ => simp [sem] at h2
        | _ => simp [sem] at h1
    | .neg a, b, c, h1, h2 => by
        cases b with
        | neg b =>
          cases c with
          | neg c => simp only [sem] at h1 h2 ⊢; exact sem_trans a b c h1 h2
          | _ => simp [sem] at h2
        | _ => simp [sem] at h1
    | .bin k a b, x, y, h1, h2 => by
        cases x with
        | bin k' c d =>
          cases y with
          | bin k'' e f =>
            simp only [sem, Bool.and_eq_true, beq_iff_eq] at h1 h2
            obtain ⟨hk1, h1⟩ := h1
            obtain ⟨hk2, h2⟩ := h2
            subst hk1; subst hk2
            cases hs : k.symmetric
            · simp only [hs, Bool.false_eq_true, if_false, Bool.and_eq_true] at h1 h2
              simp only [sem, hs, beq_self_eq_true, Bool.true_and, Bool.false_eq_true, if_false, Bool.and_eq_true]
              exact ⟨sem_trans a c e h1.1 h2.1, sem_trans b d f h1.2 h2.2⟩
            · simp only [hs, if_true, Bool.or_eq_true, Bool.and_eq_true] at h1 h2
              simp only [sem, hs, beq_self_eq_true, Bool.true_and, if_true, Bool.or_eq_true, Bool.and_eq_true]
              rcases h1 with ⟨h1, h1'⟩ | ⟨h1, h1'⟩ <;> rcases h2 with ⟨h2, h2'⟩ | ⟨h2, h2'⟩
              · exact .inl ⟨sem_trans a c e h1 h2, sem_trans b d f h1' h2'⟩
              · exact .inr ⟨sem_trans a c f h1 h2, sem_trans b d e h1' h2'⟩
              · exact .inr ⟨sem_trans a d f h1 h2', sem_trans b c e h1' h2⟩
              · exact .inl ⟨sem_trans a d e h1 h2', sem_trans b c f h1' h2⟩
          | _ => simp [sem] at h2
        | _ => simp [sem] at h1
  theorem sems_trans : ∀ (as : Terms) (a : Term), a ∈ as.toList → ∀ b c, sem a b = true → sem b c = true → sem a c = true
    | .nil, a, h, _, _, _, _ => by simp [Terms.toList] at h
    | .cons t ts, a, h, b, c, h1, h2 => by
        simp only [Terms.toList, List.mem_cons] at h
        rcases h with h | h
        · rw [h] at h1 ⊢; exact sem_trans t b c h1 h2
        · exact sems_trans ts a h b c h1 h2
end

end Narsese
