/-
  Every `Ok` of the enum parser model is well-formed (C12), for EVERY input string and format record:
  atom names non-empty, no empty compound or set, image index within its components, truth / budget
  numbers in [0,1]. (Arity of negation and of the two differences is structural in the model.)
-/
import Proofs.SetBuild
import Proofs.EParseTotal
set_option autoImplicit false

namespace Narsese
open EFormat

mutual
  def wfOut : Term → Bool
    | .atom _ n => !n.isEmpty
    | .placeholder => true
    | .interval _ => true
    | .setlike _ ts => !ts.isEmpty && wfOuts ts
    | .seqlike _ ts => !ts.isEmpty && wfOuts ts
    | .image _ i ts => decide (i ≤ ts.length) && wfOuts ts
    | .neg t => wfOut t
    | .bin _ a b => wfOut a && wfOut b
  def wfOuts : Terms → Bool
    | .nil => true
    | .cons t ts => wfOut t && wfOuts ts
end

theorem wfOuts_ofList (l : List Term) : wfOuts (Terms.ofList l) = l.all wfOut := by
  induction l with
  | nil => rfl
  | cons t ts ih => simp [Terms.ofList, wfOuts, ih]

theorem isEmpty_ofList (l : List Term) : (Terms.ofList l).isEmpty = l.isEmpty := by
  cases l <;> rfl

theorem length_ofList (l : List Term) : (Terms.ofList l).length = l.length := by
  rw [← Terms.length_toList, Terms.toList_ofList]

theorem mkSetSem_nonempty (ts : List Term) (h : ts ≠ []) : mkSetSem ts ≠ [] := by
  cases ts with
  | nil => exact absurd rfl h
  | cons x xs =>
    obtain ⟨y, hy, _⟩ := dedupSem_covers (x :: xs) [] x (.inr (by simp))
    intro he
    rw [mkSetSem] at he
    rw [he] at hy
    simp at hy

theorem mkSetSem_all' (p : Term → Bool) (ts : List Term) (h : ts.all p = true) : (mkSetSem ts).all p = true := by
  rw [List.all_eq_true] at h ⊢
  intro x hx
  rcases dedupSem_sub ts [] x hx with h' | h'
  · simp at h'
  · exact h x h'

theorem extractPlaceholder_spec : ∀ (ts : List Term) (i : Nat) (ts' : List Term),
    extractPlaceholder ts = some (i, ts') → i ≤ ts'.length ∧ ∀ x ∈ ts', x ∈ ts
  | [], _, _, h => by simp [extractPlaceholder] at h
  | t :: ts, i, ts', h => by
    simp only [extractPlaceholder] at h
    split at h
    · simp only [Option.some.injEq, Prod.mk.injEq] at h
      obtain ⟨h1, h2⟩ := h
      subst h1; subst h2
      exact ⟨Nat.zero_le _, fun x hx => by simp [hx]⟩
    · cases hr : extractPlaceholder ts with
      | none => simp [hr] at h
      | some p =>
        obtain ⟨j, us⟩ := p
        simp only [hr, Option.map_some, Option.some.injEq, Prod.mk.injEq] at h
        obtain ⟨h1, h2⟩ := h
        subst h1; subst h2
        have ih := extractPlaceholder_spec ts j us hr
        refine ⟨by simp; exact ih.1, ?_⟩
        intro x hx
        simp only [List.mem_cons] at hx ⊢
        rcases hx with hx | hx
        · exact .inl hx
        · exact .inr (ih.2 x hx)

theorem parseAtom_wf (F : EFormat) (c : Cur) (t : Term) (c' : Cur) (h : F.parseAtom c = .ok (t, c')) :
    wfOut t = true := by
  unfold parseAtom at h
  split at h
  · simp [raise] at h; split at h <;> simp at h
  · next pre hd _ =>
    simp only at h
    generalize F.scanName (c.skip pre).rest = sn at h
    obtain ⟨name, rest'⟩ := sn
    cases hd with
    | placeholder => simp at h; rw [← h.1]; rfl
    | interval =>
      simp only at h
      split at h
      · simp [raise] at h; split at h <;> simp at h
      · split at h
        · simp at h; rw [← h.1]; rfl
        · simp [raise] at h; split at h <;> simp at h
    | named k =>
      simp only at h
      split at h
      · simp [raise] at h; split at h <;> simp at h
      · next hne => simp at h; rw [← h.1]; simpa [wfOut] using hne

theorem raise_not_ok {α : Type} (c : Cur) (a : α) : (raise c : PRes α) ≠ .ok a := by
  simp [Props.C04.raise_never_panics]

theorem copBuild_wf (ck : CopK) (s p : Term) (hs : wfOut s = true) (hp : wfOut p = true) :
    wfOut (ck.build s p) = true := by
  cases ck <;> simp [CopK.build, wfOut, wfOuts, Terms.isEmpty, hs, hp]

theorem finishCompound_wf (F : EFormat) (ck : ConnK) (ts : List Term) (c3 : Cur) (t : Term) (c' : Cur)
    (hne : ts ≠ []) (hts : ts.all wfOut = true) (h : F.finishCompound ck ts c3 = .ok (t, c')) : wfOut t = true := by
  unfold finishCompound at h
  cases ck with
  | operatorUnsupported => exact absurd h (raise_not_ok _ _)
  | set k =>
    simp at h; rw [← h.1]
    simp only [wfOut, isEmpty_ofList, wfOuts_ofList, Bool.and_eq_true, Bool.not_eq_true',
      List.isEmpty_eq_false_iff]
    exact ⟨mkSetSem_nonempty ts hne, mkSetSem_all' wfOut ts hts⟩
  | seq k =>
    simp at h; rw [← h.1]
    simp only [wfOut, isEmpty_ofList, wfOuts_ofList, Bool.and_eq_true, Bool.not_eq_true',
      List.isEmpty_eq_false_iff]
    exact ⟨hne, hts⟩
  | img k =>
    simp only at h
    split at h
    · next i ts' hex =>
      simp at h; rw [← h.1]
      have sp := extractPlaceholder_spec ts i ts' hex
      simp only [wfOut, length_ofList, wfOuts_ofList, Bool.and_eq_true, decide_eq_true_eq]
      refine ⟨sp.1, ?_⟩
      rw [List.all_eq_true] at hts ⊢
      exact fun x hx => hts x (sp.2 x hx)
    · exact absurd h (raise_not_ok _ _)
  | neg =>
    simp only at h
    split at h
    · simp at h; rw [← h.1]; simpa [wfOut] using hts
    · exact absurd h (raise_not_ok _ _)
  | diff k =>
    simp only at h
    split at h
    · simp at h; rw [← h.1]; simpa [wfOut] using hts
    · exact absurd h (raise_not_ok _ _)

mutual
  theorem parseTerm_wf (F : EFormat) : ∀ (fuel : Nat) (c : Cur) (t : Term) (c' : Cur),
      F.parseTerm fuel c = .ok (t, c') → wfOut t = true
    | 0, c, t, c', h => by simp [parseTerm] at h
    | fuel + 1, c, t, c', h => by
      unfold parseTerm at h
      split at h
      · exact parseTermSet_wf F fuel _ _ _ c t c' h
      · split at h
        · exact parseTermSet_wf F fuel _ _ _ c t c' h
        · split at h
          · exact parseCompound_wf F fuel c t c' h
          · split at h
            · exact parseStatement_wf F fuel c t c' h
            · exact parseAtom_wf F c t c' h

  theorem parseTerms_wf (F : EFormat) : ∀ (fuel : Nat) (rb : Str) (c : Cur) (acc ts : List Term) (c' : Cur),
      acc.all wfOut = true → F.parseTerms fuel rb c acc = .ok (ts, c') → ts.all wfOut = true
    | 0, rb, c, acc, ts, c', _, h => by simp [parseTerms] at h
    | fuel + 1, rb, c, acc, ts, c', hacc, h => by
      unfold parseTerms at h
      split at h
      · simp at h; rw [← h.1]; exact hacc
      · split at h
        · exact parseTerms_wf F fuel rb _ acc ts c' hacc h
        · split at h
          · exact parseTerms_wf F fuel rb _ acc ts c' hacc h
          · split at h
            · simp at h; rw [← h.1]; exact hacc
            · cases hr : F.parseTerm fuel c with
              | ok p =>
                obtain ⟨t, c1⟩ := p
                rw [hr] at h
                have ht := parseTerm_wf F fuel c t c1 hr
                exact parseTerms_wf F fuel rb c1 (acc ++ [t]) ts c' (by simp [hacc, ht]) h
              | err e => rw [hr] at h; simp at h
              | panic => rw [hr] at h; simp at h
              | fuel => rw [hr] at h; simp at h

  theorem parseTermSet_wf (F : EFormat) : ∀ (fuel : Nat) (k : SetK) (lb rb : Str) (c : Cur) (t : Term) (c' : Cur),
      F.parseTermSet fuel k lb rb c = .ok (t, c') → wfOut t = true
    | 0, k, lb, rb, c, t, c', h => by simp [parseTermSet] at h
    | fuel + 1, k, lb, rb, c, t, c', h => by
      unfold parseTermSet at h
      cases hr : F.parseTerms fuel rb (F.skipAndSpaces c lb) [] with
      | ok p =>
        obtain ⟨ts, c1⟩ := p
        rw [hr] at h
        have hts := parseTerms_wf F fuel rb _ [] ts c1 (by simp) hr
        simp only at h
        split at h
        · exact absurd h (raise_not_ok _ _)
        · next hne =>
          simp at h; rw [← h.1]
          have hne' : ts ≠ [] := by intro he; simp [he] at hne
          simp only [wfOut, isEmpty_ofList, wfOuts_ofList, Bool.and_eq_true, Bool.not_eq_true',
            List.isEmpty_eq_false_iff]
          exact ⟨mkSetSem_nonempty ts hne', mkSetSem_all' wfOut ts hts⟩
      | err e => rw [hr] at h; simp at h
      | panic => rw [hr] at h; simp at h
      | fuel => rw [hr] at h; simp at h

  theorem parseCompound_wf (F : EFormat) : ∀ (fuel : Nat) (c : Cur) (t : Term) (c' : Cur),
      F.parseCompound fuel c = .ok (t, c') → wfOut t = true
    | 0, c, t, c', h => by simp [parseCompound] at h
    | fuel + 1, c, t, c', h => by
      unfold parseCompound at h
      simp only at h
      split at h
      · exact absurd h (raise_not_ok _ _)
      · next kw ck _ =>
        split at h
        · exact absurd h (raise_not_ok _ _)
        · cases hr : F.parseTerms fuel F.compR ((F.skipAndSpaces c F.compL).skip kw) [] with
          | ok p =>
            obtain ⟨ts, c3⟩ := p
            rw [hr] at h
            have hts := parseTerms_wf F fuel F.compR _ [] ts c3 (by simp) hr
            simp only at h
            split at h
            · exact absurd h (raise_not_ok _ _)
            · next hne =>
              have hne' : ts ≠ [] := by intro he; simp [he] at hne
              exact finishCompound_wf F ck ts c3 t c' hne' hts h
          | err e => rw [hr] at h; simp at h
          | panic => rw [hr] at h; simp at h
          | fuel => rw [hr] at h; simp at h

  theorem parseStatement_wf (F : EFormat) : ∀ (fuel : Nat) (c : Cur) (t : Term) (c' : Cur),
      F.parseStatement fuel c = .ok (t, c') → wfOut t = true
    | 0, c, t, c', h => by simp [parseStatement] at h
    | fuel + 1, c, t, c', h => by
      unfold parseStatement at h
      cases hr : F.parseTerm fuel (F.skipAndSpaces c F.stmtL) with
      | ok p =>
        obtain ⟨subj, c1⟩ := p
        rw [hr] at h
        have hs := parseTerm_wf F fuel _ subj c1 hr
        simp only at h
        split at h
        · exact absurd h (raise_not_ok _ _)
        · next kw ck _ =>
          cases hr2 : F.parseTerm fuel (F.skipSpaces ((F.skipSpaces c1).skip kw)) with
          | ok p2 =>
            obtain ⟨pred, c3⟩ := p2
            rw [hr2] at h
            have hp := parseTerm_wf F fuel _ pred c3 hr2
            simp at h; rw [← h.1]
            exact copBuild_wf ck subj pred hs hp
          | err e => rw [hr2] at h; simp at h
          | panic => rw [hr2] at h; simp at h
          | fuel => rw [hr2] at h; simp at h
      | err e => rw [hr] at h; simp at h
      | panic => rw [hr] at h; simp at h
      | fuel => rw [hr] at h; simp at h
end


/-! ### items and whole values -/

def truthOK (t : Truth) : Bool := t.components.all Num.in01
def budgetOK (b : Budget) : Bool := b.components.all Num.in01

theorem consumeTruth_range (F : EFormat) (c : Cur) (t : Truth) (c' : Cur) (h : F.consumeTruth c = .ok (t, c')) :
    truthOK t = true := by
  unfold consumeTruth at h
  simp only at h
  cases hr : F.parseFloats 2 F.truthSep F.truthR ((F.skipAndSpaces c F.truthL).rest.length + 1) (F.skipAndSpaces c F.truthL) [] [] with
  | ok p =>
    obtain ⟨xs, c2⟩ := p
    rw [hr] at h
    simp only at h
    split at h
    · exact absurd h (raise_not_ok _ _)
    · next hin =>
      simp only [Bool.not_eq_true, Bool.not_eq_false'] at hin
      have hall : ∀ x ∈ xs, x.in01 = true := by simpa using hin
      rcases xs with _ | ⟨f, _ | ⟨cc, rest⟩⟩
      · simp [liftRes] at h; rw [← h.1]; rfl
      · simp [GTruth.newSingle, validate_ok _ f (hall f (by simp)), Res.bind, Res.map, liftRes] at h
        rw [← h.1]; simp [truthOK, Truth.ofG, Truth.components, hall f (by simp)]
      · simp [GTruth.newDouble, validate_ok _ f (hall f (by simp)), validate_ok _ cc (hall cc (by simp)),
          Res.bind, Res.map, liftRes] at h
        rw [← h.1]; simp [truthOK, Truth.ofG, Truth.components, hall f (by simp), hall cc (by simp)]
  | err e => rw [hr] at h; simp at h
  | panic => rw [hr] at h; simp at h
  | fuel => rw [hr] at h; simp at h

theorem consumeBudget_range (F : EFormat) (c : Cur) (b : Budget) (c' : Cur) (h : F.consumeBudget c = .ok (b, c')) :
    budgetOK b = true := by
  unfold consumeBudget at h
  simp only at h
  cases hr : F.parseFloats 3 F.budgetSep F.budgetR ((F.skipAndSpaces c F.budgetL).rest.length + 1) (F.skipAndSpaces c F.budgetL) [] [] with
  | ok p =>
    obtain ⟨xs, c2⟩ := p
    rw [hr] at h
    simp only at h
    split at h
    · exact absurd h (raise_not_ok _ _)
    · next hin =>
      simp only [Bool.not_eq_true, Bool.not_eq_false'] at hin
      have hall : ∀ x ∈ xs, x.in01 = true := by simpa using hin
      rcases xs with _ | ⟨p, _ | ⟨d, _ | ⟨q, rest⟩⟩⟩
      · simp [liftRes] at h; rw [← h.1]; rfl
      · simp [GBudget.newSingle, validate_ok _ p (hall p (by simp)), Res.bind, Res.map, liftRes] at h
        rw [← h.1]; simp [budgetOK, Budget.ofG, Budget.components, hall p (by simp)]
      · simp [GBudget.newDouble, validate_ok _ p (hall p (by simp)), validate_ok _ d (hall d (by simp)),
          Res.bind, Res.map, liftRes] at h
        rw [← h.1]; simp [budgetOK, Budget.ofG, Budget.components, hall p (by simp), hall d (by simp)]
      · simp [GBudget.newTriple, validate_ok _ p (hall p (by simp)), validate_ok _ d (hall d (by simp)),
          validate_ok _ q (hall q (by simp)), Res.bind, Res.map, liftRes] at h
        rw [← h.1]; simp [budgetOK, Budget.ofG, Budget.components, hall p (by simp), hall d (by simp), hall q (by simp)]
  | err e => rw [hr] at h; simp at h
  | panic => rw [hr] at h; simp at h
  | fuel => rw [hr] at h; simp at h

/-- the slots filled so far hold well-formed items -/
def MidWF (m : Mid) : Prop :=
  (∀ t, m.term = some t → wfOut t = true) ∧ (∀ x, m.truth = some x → truthOK x = true) ∧
  (∀ b, m.budget = some b → budgetOK b = true)

theorem alt_ok {α : Type} (guard : Cur → Bool) (run : PRes α) (k : Cur → PRes α) (now : Cur) (r : α)
    (h : alt guard run k now = .ok r) : run = .ok r ∨ ∃ x, k x = .ok r := by
  unfold alt at h
  split at h
  · unfold orElse at h
    cases run with
    | ok a => exact .inl h
    | err e => exact .inr ⟨e, h⟩
    | panic => simp at h
    | fuel => simp at h
  · exact .inr ⟨now, h⟩

theorem liftStep_ok {α : Type} (r : PRes (α × Cur)) (f : α → Mid) (c' : Cur) (m' : Mid)
    (h : liftStep r f = .ok (c', m')) : ∃ a, r = .ok (a, c') ∧ m' = f a := by
  unfold liftStep at h
  cases r with
  | ok p => obtain ⟨a, c1⟩ := p; simp at h; exact ⟨a, by rw [h.1], h.2.symm⟩
  | err e => simp at h
  | panic => simp at h
  | fuel => simp at h

theorem consumeOne_wf (F : EFormat) (c : Cur) (m : Mid) (c' : Cur) (m' : Mid) (hm : MidWF m)
    (h : F.consumeOne c m = .ok (c', m')) : MidWF m' := by
  unfold consumeOne at h
  split at h
  · simp at h; rw [← h.2]; exact hm
  · simp only at h
    rcases alt_ok _ _ _ _ _ h with h | ⟨x1, h⟩
    · obtain ⟨b, hb, hm'⟩ := liftStep_ok _ _ _ _ h
      subst hm'
      exact ⟨hm.1, hm.2.1, fun b' hb' => by simp at hb'; subst hb'; exact consumeBudget_range F c b c' hb⟩
    · rcases alt_ok _ _ _ _ _ h with h | ⟨x2, h⟩
      · obtain ⟨t, ht, hm'⟩ := liftStep_ok _ _ _ _ h
        subst hm'
        exact ⟨fun t' ht' => by simp at ht'; subst ht'; exact parseTerm_wf F _ c t c' ht, hm.2.1, hm.2.2⟩
      · rcases alt_ok _ _ _ _ _ h with h | ⟨x3, h⟩
        · obtain ⟨p, _, hm'⟩ := liftStep_ok _ _ _ _ h
          subst hm'; exact hm
        · rcases alt_ok _ _ _ _ _ h with h | ⟨x4, h⟩
          · obtain ⟨s, _, hm'⟩ := liftStep_ok _ _ _ _ h
            subst hm'; exact hm
          · rcases alt_ok _ _ _ _ _ h with h | ⟨x5, h⟩
            · obtain ⟨t, ht, hm'⟩ := liftStep_ok _ _ _ _ h
              subst hm'
              exact ⟨hm.1, fun t' ht' => by simp at ht'; subst ht'; exact consumeTruth_range F c t c' ht, hm.2.2⟩
            · exact absurd h (raise_not_ok _ _)

theorem buildMid_wf (F : EFormat) : ∀ (fuel : Nat) (c : Cur) (m : Mid) (c' : Cur) (m' : Mid),
    MidWF m → F.buildMid fuel c m = .ok (c', m') → MidWF m'
  | 0, c, m, c', m', _, h => by simp [buildMid] at h
  | fuel + 1, c, m, c', m', hm, h => by
    unfold buildMid at h
    split at h
    · simp at h; rw [← h.2]; exact hm
    · simp only at h
      split at h
      · simp at h; rw [← h.2]; exact hm
      · cases hr : F.consumeOne (F.skipSpaces c) m with
        | ok p =>
          obtain ⟨c2, m2⟩ := p
          rw [hr] at h
          exact buildMid_wf F fuel c2 m2 c' m' (consumeOne_wf F _ m c2 m2 hm hr) h
        | err e => rw [hr] at h; simp at h
        | panic => rw [hr] at h; simp at h
        | fuel => rw [hr] at h; simp at h

/-- well-formedness of a parsed value -/
def sentenceWF (s : Sentence) : Bool := wfOut s.term && truthOK s.truthOrEmpty
def narseseWF : Narsese → Bool
  | .term t => wfOut t
  | .sentence s => sentenceWF s
  | .task k => sentenceWF k.sentence && budgetOK k.budget

theorem fromPunctuation_wf (t : Term) (p : Punct) (st : Stamp) (tr : Truth) (ht : wfOut t = true)
    (htr : truthOK tr = true) : sentenceWF (Sentence.fromPunctuation t p st tr) = true := by
  cases p <;> simp only [Sentence.fromPunctuation, sentenceWF, Sentence.term, Sentence.truthOrEmpty, ht, htr,
    Bool.and_self]
  all_goals rfl

theorem transformMid_wf (c : Cur) (m : Mid) (v : Narsese) (m' : Mid) (hm : MidWF m)
    (h : transformMid c m = .ok (v, m')) : narseseWF v = true := by
  unfold transformMid at h
  cases ht : m.term with
  | none => rw [ht] at h; exact absurd h (raise_not_ok _ _)
  | some t =>
    rw [ht] at h
    have hwt := hm.1 t ht
    simp only at h
    have htr : truthOK (m.truth.getD .empty) = true := by
      cases hx : m.truth with
      | none => rfl
      | some x => exact hm.2.1 x hx
    cases hp : m.punct with
    | none => rw [hp] at h; simp at h; rw [← h.1]; exact hwt
    | some p =>
      rw [hp] at h
      simp only at h
      cases hb : m.budget with
      | none =>
        rw [hb] at h; simp at h; rw [← h.1]
        exact fromPunctuation_wf t p _ _ hwt htr
      | some b =>
        rw [hb] at h; simp at h; rw [← h.1]
        simp [narseseWF, fromPunctuation_wf t p _ _ hwt htr, hm.2.2 b hb]

/-- **`eparse_wf`**: for EVERY input string and EVERY format record, an `Ok` is well-formed -/
theorem eparse_wf (F : EFormat) (input : Str) (v : Narsese) (h : F.eparse input = .ok v) : narseseWF v = true := by
  unfold eparse runState at h
  cases hr : F.buildMid (midFuel (Cur.ofEnv input)) (Cur.ofEnv input) {} with
  | ok p =>
    obtain ⟨c, m⟩ := p
    rw [hr] at h
    have hm : MidWF m := buildMid_wf F _ _ {} c m ⟨by simp, by simp, by simp⟩ hr
    simp only at h
    cases ht : transformMid c m with
    | ok q =>
      obtain ⟨v', m'⟩ := q
      rw [ht] at h
      simp [PRes.toRes] at h
      subst h
      exact transformMid_wf c m v' m' hm ht
    | err e => rw [ht] at h; simp [PRes.toRes] at h
    | panic => rw [ht] at h; simp [PRes.toRes] at h
    | fuel => rw [ht] at h; simp [PRes.toRes] at h
  | err e => rw [hr] at h; simp [PRes.toRes] at h
  | panic => rw [hr] at h; simp [PRes.toRes] at h
  | fuel => rw [hr] at h; simp [PRes.toRes] at h

end Narsese
