/-
  C11, part 2a: the character classes of the README grammar (tables regenerated from the Unicode data the
  generator reads) and their disjointness, decided on the whole tables.
-/
import Proofs.Peg.Sound
import NarseseModel.PegWF
set_option autoImplicit false

namespace Narsese.Peg

/-! ### the character classes -/

theorem cls_punct : RG.cls? "PUNCTUATION" = some Gen.clsPunct := by decide +kernel
theorem cls_symbol : RG.cls? "SYMBOL" = some Gen.clsSymbol := by decide +kernel
theorem cls_letter : RG.cls? "LETTER" = some Gen.clsLetter := by decide +kernel
theorem cls_number : RG.cls? "NUMBER" = some Gen.clsNumber := by decide +kernel
theorem cls_white : RG.cls? "WHITE_SPACE" = some Gen.clsWhite := by decide +kernel
theorem cls_digit : RG.cls? "ASCII_DIGIT" = some [(48, 57)] := by decide +kernel
theorem cls_any : RG.cls? "ANY" = some [(0, 1114111)] := by decide +kernel

/-- two range tables share no character -/
def disjointB (t1 t2 : List (Nat × Nat)) : Bool :=
  t1.all (fun x => t2.all (fun y => decide (x.2 < y.1) || decide (y.2 < x.1)))

theorem inRanges_mem {tbl : List (Nat × Nat)} {c : Char} (h : inRanges tbl c = true) :
    ∃ x ∈ tbl, x.1 ≤ c.toNat ∧ c.toNat ≤ x.2 := by
  induction tbl with
  | nil => simp [inRanges] at h
  | cons x rest ih =>
    obtain ⟨lo, hi⟩ := x
    simp only [inRanges] at h
    by_cases h1 : c.toNat < lo
    · simp [h1] at h
    · by_cases h2 : c.toNat ≤ hi
      · exact ⟨(lo, hi), by simp, by simp only; omega, h2⟩
      · simp only [h1, h2, if_false] at h
        obtain ⟨x, hx, hb⟩ := ih h
        exact ⟨x, by simp [hx], hb⟩

theorem disjoint_ranges {t1 t2 : List (Nat × Nat)} (hd : disjointB t1 t2 = true) {c : Char}
    (h1 : inRanges t1 c = true) : inRanges t2 c = false := by
  cases h2 : inRanges t2 c with
  | false => rfl
  | true =>
    exfalso
    obtain ⟨x, hx, hx1, hx2⟩ := inRanges_mem h1
    obtain ⟨y, hy, hy1, hy2⟩ := inRanges_mem h2
    have := (List.all_eq_true.mp ((List.all_eq_true.mp hd) x hx)) y hy
    simp only [Bool.or_eq_true, decide_eq_true_eq] at this
    omega

theorem letter_punct : disjointB Gen.clsLetter Gen.clsPunct = true := by decide +kernel
theorem letter_symbol : disjointB Gen.clsLetter Gen.clsSymbol = true := by decide +kernel
theorem number_punct : disjointB Gen.clsNumber Gen.clsPunct = true := by decide +kernel
theorem number_symbol : disjointB Gen.clsNumber Gen.clsSymbol = true := by decide +kernel
theorem letter_white : disjointB Gen.clsLetter Gen.clsWhite = true := by decide +kernel
theorem number_white : disjointB Gen.clsNumber Gen.clsWhite = true := by decide +kernel
theorem punct_white : disjointB Gen.clsPunct Gen.clsWhite = true := by decide +kernel
theorem symbol_white : disjointB Gen.clsSymbol Gen.clsWhite = true := by decide +kernel

/-- letters and numbers are neither punctuation nor symbols -/
theorem ln_not_ps {c : Char} (h : lnB c = true) : psB c = false := by
  simp only [lnB, Bool.or_eq_true] at h
  simp only [psB, Bool.or_eq_false_iff]
  rcases h with h | h
  · exact ⟨disjoint_ranges letter_punct h, disjoint_ranges letter_symbol h⟩
  · exact ⟨disjoint_ranges number_punct h, disjoint_ranges number_symbol h⟩

theorem ln_not_ws {c : Char} (h : lnB c = true) : wsB c = false := by
  simp only [lnB, Bool.or_eq_true] at h
  rcases h with h | h
  · exact disjoint_ranges letter_white h
  · exact disjoint_ranges number_white h

theorem ps_not_ws {c : Char} (h : psB c = true) : wsB c = false := by
  simp only [psB, Bool.or_eq_true] at h
  rcases h with h | h
  · exact disjoint_ranges punct_white h
  · exact disjoint_ranges symbol_white h

theorem ac_not_ws {c : Char} (h : acB c = true) : wsB c = false := by
  simp only [acB, Bool.or_eq_true, beq_iff_eq] at h
  rcases h with (h | h) | h
  · exact ln_not_ws h
  · subst h; decide +kernel
  · subst h; decide +kernel

end Narsese.Peg
