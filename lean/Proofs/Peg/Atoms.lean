/-
  C11, part 3: the lexical rules of the README grammar — `punct_sym`, `atom_char`, `copula`, `connecter`,
  `atom_prefix`, `atom_content`, `atom` — characterised on arbitrary input (what they match, where they stop).
-/
import Proofs.Peg.Basic
set_option autoImplicit false

namespace Narsese.Peg

/-! ### one-character matchers -/

/-- `p` consumes exactly one character satisfying `f` (inside an atomic rule, contributing no token) -/
structure Single (p : Peg) (f : Char → Bool) : Prop where
  cons : ∀ c cs, Ev RG true p (c :: cs) (if f c then some (cs, []) else none)
  nil : Ev RG true p [] none

theorem Single.congr {p : Peg} {f g : Char → Bool} (h : Single p f) (e : ∀ c, f c = g c) : Single p g :=
  ⟨fun c cs => by rw [← e c]; exact h.cons c cs, h.nil⟩

theorem single_lit (k : Char) : Single (.lit [k]) (fun c => k == c) :=
  ⟨fun c cs => by
    have := ev_lit1_cons (G := RG) true k c cs
    by_cases h : k = c
    · simpa [h] using this
    · simpa [h] using this, ev_lit1_nil true k⟩

theorem single_cls (n : String) (tbl : List (Nat × Nat)) (h : RG.cls? n = some tbl) : Single (.cls n) (inRanges tbl) :=
  ⟨fun c cs => ev_cls_cons true n tbl h c cs, Ev.cls_eof true n⟩

theorem single_alt {p q : Peg} {f g : Char → Bool} (hp : Single p f) (hq : Single q g) :
    Single (.alt p q) (fun c => f c || g c) :=
  ⟨fun c cs => by
    have := ev_alt (hp.cons c cs) (hq.cons c cs)
    by_cases h1 : f c = true
    · simpa [h1] using this
    · by_cases h2 : g c = true
      · simpa [h1, h2] using this
      · simpa [h1, h2] using this,
   by simpa using ev_alt hp.nil hq.nil⟩

theorem single_ref {n : String} {r : Rule} {f : Char → Bool} (hr : RG.rule? n = some r) (hm : r.mod ≠ .silent)
    (hb : Single r.body f) : Single (.ref n) f :=
  ⟨fun c cs => by
    have := ev_ref_inA hr hm (hb.cons c cs)
    by_cases h : f c = true
    · simpa [h] using this
    · simpa [h] using this,
   by simpa using ev_ref_inA hr hm hb.nil⟩

theorem rule_punct_sym : RG.rule? "punct_sym" =
    some { name := "punct_sym", mod := .normal, body := .alt (.cls "PUNCTUATION") (.cls "SYMBOL") } := by decide +kernel

theorem single_punct_sym : Single (.ref "punct_sym") psB :=
  (single_ref rule_punct_sym (by decide) (single_alt (single_cls _ _ cls_punct) (single_cls _ _ cls_symbol))).congr
    (fun _ => rfl)

def atomCharBody : Peg := .alt (.alt (.alt (.cls "LETTER") (.cls "NUMBER")) (.lit ['_'])) (.lit ['-'])

theorem rule_atom_char : RG.rule? "atom_char" = some { name := "atom_char", mod := .normal, body := atomCharBody } := by
  decide +kernel

theorem single_atom_char : Single (.ref "atom_char") acB :=
  (single_ref rule_atom_char (by decide)
    (single_alt (single_alt (single_alt (single_cls _ _ cls_letter) (single_cls _ _ cls_number)) (single_lit '_'))
      (single_lit '-'))).congr
    (fun c => by
      simp only [acB, lnB]
      have e1 : ('_' == c) = (c == '_') := by
        by_cases h : c = '_'
        · subst h; rfl
        · have h' : ¬ '_' = c := fun e => h e.symm
          rw [beq_eq_false_iff_ne.mpr h', beq_eq_false_iff_ne.mpr h]
      have e2 : ('-' == c) = (c == '-') := by
        by_cases h : c = '-'
        · subst h; rfl
        · have h' : ¬ '-' = c := fun e => h e.symm
          rw [beq_eq_false_iff_ne.mpr h', beq_eq_false_iff_ne.mpr h]
      rw [e1, e2])

/-- what a one-character matcher does on any input -/
theorem Single.ev {p : Peg} {f : Char → Bool} (h : Single p f) (s : Str) :
    Ev RG true p s (match s with | c :: cs => if f c then some (cs, []) else none | [] => none) := by
  cases s with
  | nil => exact h.nil
  | cons c cs => exact h.cons c cs

theorem Single.hit {p : Peg} {f : Char → Bool} (h : Single p f) {c : Char} (cs : Str) (hc : f c = true) :
    Ev RG true p (c :: cs) (some (cs, [])) := by
  simpa [hc] using h.cons c cs

theorem Single.miss {p : Peg} {f : Char → Bool} (h : Single p f) {s : Str} (hs : ∀ c ∈ s.head?, f c = false) :
    Ev RG true p s none := by
  cases s with
  | nil => exact h.nil
  | cons c cs => simpa [hs c (by simp)] using h.cons c cs

/-! ### three one-character matchers in a row -/

def m3 (fx fy fz : Char → Bool) : Str → Option (Str × List PTree)
  | a :: b :: c :: r => if fx a && fy b && fz c then some (r, []) else none
  | _ => none

theorem single3 {X Y Z : Peg} {fx fy fz : Char → Bool} (hX : Single X fx) (hY : Single Y fy) (hZ : Single Z fz)
    (s : Str) : Ev RG true (.seq (.seq X Y) Z) s (m3 fx fy fz s) := by
  cases s with
  | nil => exact Ev.seq_fail _ _ _ _ (Ev.seq_fail _ _ _ _ hX.nil)
  | cons a s =>
    by_cases ha : fx a = true
    · have h1 := hX.hit s ha
      cases s with
      | nil => exact Ev.seq_fail _ _ _ _ (ev_seqA_no h1 hY.nil)
      | cons b s =>
        by_cases hb : fy b = true
        · have h2 := ev_seqA_ok h1 (hY.hit s hb)
          cases s with
          | nil => exact ev_seqA_no h2 hZ.nil
          | cons c s =>
            by_cases hc : fz c = true
            · simpa [m3, ha, hb, hc] using ev_seqA_ok h2 (hZ.hit s hc)
            · have : Ev RG true Z (c :: s) none := hZ.miss (by simpa using hc)
              simpa [m3, ha, hb, hc] using ev_seqA_no h2 this
        · have : Ev RG true Y (b :: s) none := hY.miss (by simpa using hb)
          have h2 := ev_seqA_no h1 this
          cases s with
          | nil => exact Ev.seq_fail _ _ _ _ h2
          | cons c s => simpa [m3, ha, hb] using Ev.seq_fail true _ Z _ h2
    · have h1 : Ev RG true X (a :: s) none := hX.miss (by simpa using ha)
      have h2 := Ev.seq_fail true _ Z _ (Ev.seq_fail true _ Y _ h1)
      cases s with
      | nil => exact h2
      | cons b s =>
        cases s with
        | nil => exact h2
        | cons c s => simpa [m3, ha] using h2

/-! ### `copula` -/

def copulaBody : Peg :=
  .alt (.alt (.alt (.seq (.seq (.ref "punct_sym") (.lit ['-'])) (.ref "punct_sym"))
                   (.seq (.seq (.ref "punct_sym") (.lit ['='])) (.ref "punct_sym")))
             (.seq (.seq (.lit ['=']) (.ref "punct_sym")) (.lit ['>'])))
       (.seq (.seq (.lit ['<']) (.ref "punct_sym")) (.lit ['>']))

theorem rule_copula : RG.rule? "copula" = some { name := "copula", mod := .atomic, body := copulaBody } := by
  decide +kernel

theorem ev_copula_body (s : Str) :
    Ev RG true copulaBody s (if gcopB s then some (s.drop 3, []) else none) := by
  have h := ev_alt (ev_alt (ev_alt
    (single3 single_punct_sym (single_lit '-') single_punct_sym s)
    (single3 single_punct_sym (single_lit '=') single_punct_sym s))
    (single3 (single_lit '=') single_punct_sym (single_lit '>') s))
    (single3 (single_lit '<') single_punct_sym (single_lit '>') s)
  have e : ((((m3 psB (fun c => '-' == c) psB s).orElse fun _ => m3 psB (fun c => '=' == c) psB s).orElse
      fun _ => m3 (fun c => '=' == c) psB (fun c => '>' == c) s).orElse
      fun _ => m3 (fun c => '<' == c) psB (fun c => '>' == c) s) =
      (if gcopB s then some (s.drop 3, []) else none) := by
    match s with
    | [] => simp [m3, gcopB]
    | [_] => simp [m3, gcopB]
    | [_, _] => simp [m3, gcopB]
    | a :: b :: c :: r =>
      simp only [m3, gcopB, List.drop_succ_cons, List.drop_zero]
      by_cases h1 : (psB a && '-' == b && psB c) = true
      · simp [h1]
      · by_cases h2 : (psB a && '=' == b && psB c) = true
        · simp [h1, h2]
        · by_cases h3 : ('=' == a && psB b && '>' == c) = true
          · simp [h1, h2, h3]
          · by_cases h4 : ('<' == a && psB b && '>' == c) = true
            · simp [h1, h2, h3, h4]
            · simp [h1, h2, h3, h4]
  rw [e] at h
  exact h

/-- `copula` inside an atomic rule (the look-ahead of `atom_content`) -/
theorem ev_copula_inA (s : Str) :
    Ev RG true (.ref "copula") s (if gcopB s then some (s.drop 3, []) else none) := by
  have := ev_ref_inA rule_copula (by decide) (ev_copula_body s)
  by_cases h : gcopB s = true
  · simpa [h] using this
  · simpa [h] using this

theorem gcopB_len {s : Str} (h : gcopB s = true) : ∃ a b c r, s = a :: b :: c :: r := by
  match s, h with
  | a :: b :: c :: r, _ => exact ⟨a, b, c, r, rfl⟩

/-- `copula` as a token of `statement` -/
theorem ev_copula_tok (cop rest : Str) (hl : cop.length = 3) (h : gcopB cop = true) :
    Ev RG false (.ref "copula") (cop ++ rest) (some (rest, [.node "copula" cop []])) := by
  obtain ⟨a, b, c, r, e⟩ := gcopB_len h
  subst e
  have hr : r = [] := by simpa using hl
  subst hr
  refine ev_ref_tokA rule_copula rfl (kids := []) ?_
  have := ev_copula_body (a :: b :: c :: rest)
  have hg : gcopB (a :: b :: c :: rest) = true := by simpa [gcopB] using h
  rw [hg] at this
  simpa using this

/-! ### greedy runs of one-character matchers -/

/-- `(p)*` continued inside an atomic rule over a run of characters satisfying `f` -/
theorem many_run {p : Peg} {f : Char → Bool} (hp : Single p f) (cs s : Str) (acc : List PTree)
    (hcs : cs.all f = true) (hs : ∀ c ∈ s.head?, f c = false) : Many RG true p (cs ++ s) acc (s, acc) := by
  induction cs with
  | nil => exact Many.stop_fail true p s s acc (Skip.atomic s) (hp.miss hs)
  | cons c cs ih =>
    simp only [List.all_cons, Bool.and_eq_true] at hcs
    have := Many.step true p (c :: cs ++ s) (c :: cs ++ s) (cs ++ s) [] acc (s, acc) (Skip.atomic _)
      (hp.hit _ hcs.1) (by simp) (by simpa using ih hcs.2)
    exact this

/-! ### `connecter`, `atom_prefix` -/

def connecterBody : Peg := .seq (.ref "punct_sym") (.star (.seq (.neg (.lit [','])) (.ref "punct_sym")))

theorem rule_connecter : RG.rule? "connecter" = some { name := "connecter", mod := .atomic, body := connecterBody } := by
  decide +kernel

/-- `!"," ~ punct_sym` as a one-character matcher -/
theorem single_conn_tail : Single (.seq (.neg (.lit [','])) (.ref "punct_sym")) (fun c => !(',' == c) && psB c) :=
  ⟨fun c cs => by
    by_cases hc : ',' = c
    · subst hc
      have : Ev RG true (.neg (.lit [','])) (',' :: cs) none := Ev.neg_some _ _ _ _ (ev_lit1_hit true ',' cs)
      simpa using Ev.seq_fail true _ (.ref "punct_sym") _ this
    · have h1 : Ev RG true (.neg (.lit [','])) (c :: cs) (some (c :: cs, [])) :=
        Ev.neg_none _ _ _ (ev_lit1_miss true ',' c cs hc)
      have h2 := single_punct_sym.cons c cs
      by_cases hp : psB c = true
      · simp only [hp, if_true] at h2
        simpa [hc, hp] using ev_seqA_ok h1 h2
      · simp only [hp, Bool.false_eq_true, if_false] at h2
        simpa [hc, hp] using ev_seqA_no h1 h2,
   by
    have h1 : Ev RG true (.neg (.lit [','])) [] (some ([], [])) := Ev.neg_none _ _ _ (ev_lit1_nil true ',')
    exact ev_seqA_no h1 single_punct_sym.nil⟩

theorem ev_connecter (conn rest : Str) (h : gConnB conn = true) :
    Ev RG false (.ref "connecter") (conn ++ ',' :: rest) (some (',' :: rest, [.node "connecter" conn []])) := by
  cases conn with
  | nil => simp [gConnB] at h
  | cons c cs =>
    simp only [gConnB, List.isEmpty_cons, Bool.not_false, List.all_cons, Bool.true_and, Bool.and_eq_true] at h
    refine ev_ref_tokA rule_connecter rfl (kids := [] ++ []) ?_
    refine ev_seqA_ok (r1 := cs ++ ',' :: rest) (single_punct_sym.hit _ h.1.1) (Ev.star _ _ _ _ ?_)
    refine many_run single_conn_tail cs (',' :: rest) [] ?_ (by simp)
    rw [List.all_eq_true] at h ⊢
    intro x hx
    have := h.2 x hx
    simp only [Bool.and_eq_true] at this ⊢
    exact ⟨this.2, this.1⟩

theorem rule_atom_prefix :
    RG.rule? "atom_prefix" = some { name := "atom_prefix", mod := .atomic, body := .plus (.ref "punct_sym") } := by
  decide +kernel

theorem ev_atom_prefix (pre s : Str) (hne : pre ≠ []) (hp : pre.all psB = true) (hs : ∀ c ∈ s.head?, psB c = false) :
    Ev RG false (.ref "atom_prefix") (pre ++ s) (some (s, [.node "atom_prefix" pre []])) := by
  cases pre with
  | nil => exact absurd rfl hne
  | cons c cs =>
    simp only [List.all_cons, Bool.and_eq_true] at hp
    refine ev_ref_tokA rule_atom_prefix rfl (kids := []) ?_
    exact Ev.plus true _ _ (cs ++ s) [] _ (single_punct_sym.hit _ hp.1) (many_run single_punct_sym cs s [] hp.2 hs)

theorem ev_atom_prefix_fail (s : Str) (hs : ∀ c ∈ s.head?, psB c = false) :
    Ev RG false (.ref "atom_prefix") s none :=
  ev_ref_no rule_atom_prefix (Ev.plus_fail true _ _ (single_punct_sym.miss hs))

/-! ### `atom_content` -/

def atomContentBody : Peg := .seq (.ref "atom_char") (.star (.seq (.neg (.ref "copula")) (.ref "atom_char")))

theorem rule_atom_content :
    RG.rule? "atom_content" = some { name := "atom_content", mod := .atomic, body := atomContentBody } := by
  decide +kernel

/-- what may follow a term in the ASCII formatter's output: nothing; a closer, separator or punctuation mark;
or one blank and then something that is neither blank nor `_` -/
def stopGB : Str → Bool
  | [] => true
  | c :: cs =>
    if c == ' ' then (match cs with | d :: _ => !wsB d && !(d == '_') | [] => false)
    else !acB c && !(c == '=') && !wsB c

theorem ac_eq : acB '=' = false := by decide +kernel
theorem ac_lt : acB '<' = false := by decide +kernel
theorem ac_sp : acB ' ' = false := by decide +kernel

theorem stopG_head {rest : Str} (h : stopGB rest = true) : ∀ c ∈ rest.head?, acB c = false ∧ c ≠ '=' := by
  cases rest with
  | nil => simp
  | cons c cs =>
    intro d hd
    simp only [List.head?_cons, Option.mem_def, Option.some.injEq] at hd
    subst hd
    simp only [stopGB] at h
    by_cases hc : c = ' '
    · subst hc; exact ⟨ac_sp, by decide⟩
    · simp only [beq_iff_eq, hc, if_false, Bool.and_eq_true, Bool.not_eq_true', beq_eq_false_iff_ne] at h
      exact ⟨h.1.1, h.1.2⟩

theorem tailOK_cons {x : Char} {v : Str} (h : tailOKB (x :: v) = true) (hv : v ≠ []) : tailOKB v = true := by
  simp only [tailOKB, List.all_cons, noCopIn, Bool.and_eq_true, Bool.not_eq_true'] at h ⊢
  refine ⟨⟨h.1.1.2, h.1.2.2⟩, ?_⟩
  have : (x :: v).getLast? = v.getLast? := by
    cases v with
    | nil => exact absurd rfl hv
    | cons y v => simp [List.getLast?_cons_cons]
  rw [← this]; exact h.2

/-- no grammar copula begins at a character of the name's tail -/
theorem gcop_in_name {x : Char} {v rest : Str} (h : tailOKB (x :: v) = true) (hr : stopGB rest = true) :
    gcopB (x :: v ++ rest) = false := by
  have hx : acB x = true := by
    simp only [tailOKB, List.all_cons, Bool.and_eq_true] at h; exact h.1.1.1
  have hxe : ('=' == x) = false := by
    rw [beq_eq_false_iff_ne]; intro e; rw [← e, ac_eq] at hx; exact absurd hx (by decide)
  have hxl : ('<' == x) = false := by
    rw [beq_eq_false_iff_ne]; intro e; rw [← e, ac_lt] at hx; exact absurd hx (by decide)
  have hstop := stopG_head hr
  match v, h with
  | [], h =>
    -- `x` is the last character: what follows is neither `-` nor `=`
    match rest, hstop with
    | [], _ => simp [gcopB]
    | [_], _ => simp [gcopB]
    | b :: c :: r, hstop =>
      have hb := hstop b (by simp)
      have hb1 : ('-' == b) = false := by
        rw [beq_eq_false_iff_ne]; intro e; rw [← e] at hb; exact absurd hb.1 (by decide +kernel)
      have hb2 : ('=' == b) = false := by
        rw [beq_eq_false_iff_ne]; intro e; exact hb.2 e.symm
      simp [gcopB, hxe, hxl, hb1, hb2]
  | [y], h =>
    have hy : acB y = true := by
      simp only [tailOKB, List.all_cons, Bool.and_eq_true] at h; exact h.1.1.2.1
    have hy1 : ('-' == y) = false := by
      simp only [tailOKB, Bool.and_eq_true, Bool.not_eq_true'] at h
      have := h.2
      rw [beq_eq_false_iff_ne]; intro e; subst e; simp at this
    have hy2 : ('=' == y) = false := by
      rw [beq_eq_false_iff_ne]; intro e; rw [← e, ac_eq] at hy; exact absurd hy (by decide)
    match rest with
    | [] => simp [gcopB]
    | c :: r => simp [gcopB, hxe, hxl, hy1, hy2]
  | y :: z :: t, h =>
    have hy : acB y = true := by
      simp only [tailOKB, List.all_cons, Bool.and_eq_true] at h; exact h.1.1.2.1
    have hy2 : ('=' == y) = false := by
      rw [beq_eq_false_iff_ne]; intro e; rw [← e, ac_eq] at hy; exact absurd hy (by decide)
    have h1 : cop1B (x :: y :: z :: t) = false := by
      simp only [tailOKB, noCopIn, Bool.and_eq_true, Bool.not_eq_true'] at h; exact h.1.2.1
    simp only [cop1B] at h1
    simp [gcopB, hxe, hxl, hy2, h1]

/-- the loop of `atom_content` runs to the end of the name and stops there -/
theorem many_content (v rest : Str) (acc : List PTree) (hv : v = [] ∨ tailOKB v = true) (hr : stopGB rest = true) :
    Many RG true (.seq (.neg (.ref "copula")) (.ref "atom_char")) (v ++ rest) acc (rest, acc) := by
  induction v with
  | nil =>
    -- at `rest`: either a copula begins (look-ahead fails) or the next character is not a name character
    refine Many.stop_fail true _ rest rest acc (Skip.atomic _) ?_
    have hc := ev_copula_inA rest
    by_cases hg : gcopB rest = true
    · simp only [hg, if_true] at hc
      exact Ev.seq_fail _ _ _ _ (Ev.neg_some _ _ _ _ hc)
    · simp only [hg, Bool.false_eq_true, if_false] at hc
      refine ev_seqA_no (Ev.neg_none _ _ _ hc) (single_atom_char.miss ?_)
      intro c hc'; exact (stopG_head hr c hc').1
  | cons x v ih =>
    have hxv : tailOKB (x :: v) = true := by
      rcases hv with h | h
      · exact absurd h (by simp)
      · exact h
    have hg := gcop_in_name hxv hr
    have hc := ev_copula_inA (x :: v ++ rest)
    simp only [hg, Bool.false_eq_true, if_false] at hc
    have hx : acB x = true := by
      simp only [tailOKB, List.all_cons, Bool.and_eq_true] at hxv; exact hxv.1.1.1
    have hstep := ev_seqA_ok (Ev.neg_none _ _ _ hc) (single_atom_char.hit (v ++ rest) hx)
    have hv' : v = [] ∨ tailOKB v = true := by
      by_cases e : v = []
      · exact Or.inl e
      · exact Or.inr (tailOK_cons hxv e)
    exact Many.step true _ (x :: v ++ rest) (x :: v ++ rest) (v ++ rest) ([] ++ []) acc (rest, acc) (Skip.atomic _)
      hstep (by simp) (by simpa using ih hv')

theorem ev_atom_content (name rest : Str) (h : gNameOKB name = true) (hr : stopGB rest = true) :
    Ev RG false (.ref "atom_content") (name ++ rest) (some (rest, [.node "atom_content" name []])) := by
  cases name with
  | nil => simp [gNameOKB] at h
  | cons c v =>
    simp only [gNameOKB, Bool.and_eq_true] at h
    have hc : acB c = true := by simp [acB, h.1]
    refine ev_ref_tokA rule_atom_content rfl (kids := [] ++ []) ?_
    refine ev_seqA_ok (single_atom_char.hit (v ++ rest) hc) (Ev.star _ _ _ _ ?_)
    refine many_content v rest [] ?_ hr
    by_cases e : v = []
    · exact Or.inl e
    · exact Or.inr (tailOK_cons h.2 e)

theorem ev_atom_content_fail (s : Str) (hs : ∀ c ∈ s.head?, acB c = false) :
    Ev RG false (.ref "atom_content") s none :=
  ev_ref_no rule_atom_content (Ev.seq_fail _ _ _ _ (single_atom_char.miss hs))

end Narsese.Peg
