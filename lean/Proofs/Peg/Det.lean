/-
  C11, part 10: the declarative PEG semantics is deterministic — an expression evaluated on an input has at most
  one result. Hence the grammar's reading of a string is unique (`reads_unique`), and what the sound interpreter
  computes is THE result (`referenceS_complete`): a string the interpreter rejects has no reading at all.
-/
import Proofs.Peg.Sound
set_option autoImplicit false

namespace Narsese.Peg

variable {G : Grammar}

mutual
  theorem ev_det : ∀ {a : Bool} {p : Peg} {s : Str} {r1 r2 : Option (Str × List PTree)},
      Ev G a p s r1 → Ev G a p s r2 → r1 = r2
    | _, _, _, _, _, .lit _ _ _, h2 => by cases h2; rfl
    | _, _, _, _, _, .cls_ok _ _ tbl _ _ h1 h1', h2 => by
      cases h2 with
      | cls_ok _ _ tbl2 _ _ g1 g2 => rfl
      | cls_no _ _ tbl2 _ _ g1 g2 =>
        have : tbl = tbl2 := Option.some.inj (h1.symm.trans g1)
        subst this; rw [h1'] at g2; exact absurd g2 (by decide)
      | cls_unknown _ _ _ g => rw [h1] at g; exact absurd g (by simp)
    | _, _, _, _, _, .cls_no _ _ tbl _ _ h1 h1', h2 => by
      cases h2 with
      | cls_ok _ _ tbl2 _ _ g1 g2 =>
        have : tbl = tbl2 := Option.some.inj (h1.symm.trans g1)
        subst this; rw [h1'] at g2; exact absurd g2 (by decide)
      | cls_no _ _ tbl2 _ _ g1 g2 => rfl
      | cls_unknown _ _ _ g => rfl
    | _, _, _, _, _, .cls_eof _ _, h2 => by
      cases h2 with
      | cls_eof _ _ => rfl
      | cls_unknown _ _ _ g => rfl
    | _, _, _, _, _, .cls_unknown _ _ _ h1, h2 => by
      cases h2 with
      | cls_ok _ _ tbl2 _ _ g1 g2 => rw [h1] at g1; exact absurd g1 (by simp)
      | cls_no _ _ tbl2 _ _ g1 g2 => rfl
      | cls_eof _ _ => rfl
      | cls_unknown _ _ _ g => rfl
    | _, _, _, _, _, .ref _ _ r _ _ hr hb, h2 => by
      cases h2 with
      | ref _ _ r' _ res' hr' hb' =>
        have : r = r' := Option.some.inj (hr.symm.trans hr')
        subst this
        rw [ev_det hb hb']
      | ref_unknown _ _ _ g => rw [hr] at g; exact absurd g (by simp)
    | _, _, _, _, _, .ref_unknown _ _ _ hr, h2 => by
      cases h2 with
      | ref _ _ r' _ res' hr' hb' => rw [hr] at hr'; exact absurd hr' (by simp)
      | ref_unknown _ _ _ g => rfl
    | _, _, _, _, _, .seq_fail _ _ _ _ hp, h2 => by
      cases h2 with
      | seq_fail _ _ _ _ hp' => rfl
      | seq _ _ _ _ _ _ _ _ hp' hs' hq' => exact absurd (ev_det hp hp') (by simp)
    | _, _, _, _, _, .seq _ _ _ _ _ _ _ _ hp hs hq, h2 => by
      cases h2 with
      | seq_fail _ _ _ _ hp' => exact absurd (ev_det hp hp') (by simp)
      | seq _ _ _ _ _ _ _ _ hp' hs' hq' =>
        have e := ev_det hp hp'
        simp only [Option.some.injEq, Prod.mk.injEq] at e
        obtain ⟨e1, e2⟩ := e
        subst e1 e2
        have e3 := skip_det hs hs'
        subst e3
        rw [ev_det hq hq']
    | _, _, _, _, _, .alt_l _ _ _ _ _ hp, h2 => by
      cases h2 with
      | alt_l _ _ _ _ _ hp' => exact ev_det hp hp'
      | alt_r _ _ _ _ _ hp' hq' => exact absurd (ev_det hp hp') (by simp)
    | _, _, _, _, _, .alt_r _ _ _ _ _ hp hq, h2 => by
      cases h2 with
      | alt_l _ _ _ _ _ hp' => exact absurd (ev_det hp hp') (by simp)
      | alt_r _ _ _ _ _ hp' hq' => exact ev_det hq hq'
    | _, _, _, _, _, .opt_some _ _ _ _ hp, h2 => by
      cases h2 with
      | opt_some _ _ _ _ hp' => exact ev_det hp hp'
      | opt_none _ _ _ hp' => exact absurd (ev_det hp hp') (by simp)
    | _, _, _, _, _, .opt_none _ _ _ hp, h2 => by
      cases h2 with
      | opt_some _ _ _ _ hp' => exact absurd (ev_det hp hp') (by simp)
      | opt_none _ _ _ hp' => rfl
    | _, _, _, _, _, .neg_some _ _ _ _ hp, h2 => by
      cases h2 with
      | neg_some _ _ _ _ hp' => rfl
      | neg_none _ _ _ hp' => exact absurd (ev_det hp hp') (by simp)
    | _, _, _, _, _, .neg_none _ _ _ hp, h2 => by
      cases h2 with
      | neg_some _ _ _ _ hp' => exact absurd (ev_det hp hp') (by simp)
      | neg_none _ _ _ hp' => rfl
    | _, _, _, _, _, .star _ _ _ _ hm, h2 => by
      cases h2 with
      | star _ _ _ _ hm' => rw [many_det hm hm']
    | _, _, _, _, _, .plus_fail _ _ _ hp, h2 => by
      cases h2 with
      | plus_fail _ _ _ hp' => rfl
      | plus _ _ _ _ _ _ hp' hm' => exact absurd (ev_det hp hp') (by simp)
    | _, _, _, _, _, .plus _ _ _ _ _ _ hp hm, h2 => by
      cases h2 with
      | plus_fail _ _ _ hp' => exact absurd (ev_det hp hp') (by simp)
      | plus _ _ _ _ _ _ hp' hm' =>
        have e := ev_det hp hp'
        simp only [Option.some.injEq, Prod.mk.injEq] at e
        obtain ⟨e1, e2⟩ := e
        subst e1 e2
        rw [many_det hm hm']

  theorem many_det : ∀ {a : Bool} {p : Peg} {s : Str} {acc : List PTree} {o1 o2 : Str × List PTree},
      Many G a p s acc o1 → Many G a p s acc o2 → o1 = o2
    | _, _, _, _, _, _, .stop_fail _ _ _ _ _ hs hp, h2 => by
      cases h2 with
      | stop_fail _ _ _ _ _ hs' hp' => rfl
      | stop_stuck _ _ _ _ _ _ _ hs' hp' hl' => rfl
      | step _ _ _ _ _ _ _ _ hs' hp' hl' hm' =>
        have e := skip_det hs hs'
        subst e
        exact absurd (ev_det hp hp') (by simp)
    | _, _, _, _, _, _, .stop_stuck _ _ _ _ _ _ _ hs hp hl, h2 => by
      cases h2 with
      | stop_fail _ _ _ _ _ hs' hp' => rfl
      | stop_stuck _ _ _ _ _ _ _ hs' hp' hl' => rfl
      | step _ _ _ _ _ _ _ _ hs' hp' hl' hm' =>
        have e := skip_det hs hs'
        subst e
        have e2 := ev_det hp hp'
        simp only [Option.some.injEq, Prod.mk.injEq] at e2
        obtain ⟨e3, _⟩ := e2
        subst e3
        exact absurd hl' hl
    | _, _, _, _, _, _, .step _ _ _ _ _ _ _ _ hs hp hl hm, h2 => by
      cases h2 with
      | stop_fail _ _ _ _ _ hs' hp' =>
        have e := skip_det hs hs'
        subst e
        exact absurd (ev_det hp hp') (by simp)
      | stop_stuck _ _ _ _ _ _ _ hs' hp' hl' =>
        have e := skip_det hs hs'
        subst e
        have e2 := ev_det hp hp'
        simp only [Option.some.injEq, Prod.mk.injEq] at e2
        obtain ⟨e3, _⟩ := e2
        subst e3
        exact absurd hl hl'
      | step _ _ _ _ _ _ _ _ hs' hp' hl' hm' =>
        have e := skip_det hs hs'
        subst e
        have e2 := ev_det hp hp'
        simp only [Option.some.injEq, Prod.mk.injEq] at e2
        obtain ⟨e3, e4⟩ := e2
        subst e3 e4
        exact many_det hm hm'

  theorem skip_det : ∀ {a : Bool} {s s1 s2 : Str}, Skip G a s s1 → Skip G a s s2 → s1 = s2
    | _, _, _, _, .atomic _, h2 => by cases h2; rfl
    | _, _, _, _, .no_rule _ hr, h2 => by
      cases h2 with
      | no_rule _ _ => rfl
      | stop _ _ _ _ => rfl
      | stuck _ _ _ _ _ _ _ => rfl
      | step _ _ _ _ _ hr' _ _ _ => rw [hr] at hr'; exact absurd hr' (by simp)
    | _, _, _, _, .stop _ r hr he, h2 => by
      cases h2 with
      | no_rule _ _ => rfl
      | stop _ _ _ _ => rfl
      | stuck _ _ _ _ _ _ _ => rfl
      | step _ _ _ r' _ hr' he' _ _ =>
        have : r = r' := Option.some.inj (hr.symm.trans hr')
        subst this
        exact absurd (ev_det he he') (by simp)
    | _, _, _, _, .stuck _ _ r _ hr he hl, h2 => by
      cases h2 with
      | no_rule _ _ => rfl
      | stop _ _ _ _ => rfl
      | stuck _ _ _ _ _ _ _ => rfl
      | step _ _ _ r' _ hr' he' hl' _ =>
        have : r = r' := Option.some.inj (hr.symm.trans hr')
        subst this
        have e2 := ev_det he he'
        simp only [Option.some.injEq, Prod.mk.injEq] at e2
        obtain ⟨e3, _⟩ := e2
        subst e3
        exact absurd hl' hl
    | _, _, _, _, .step _ _ _ r _ hr he hl hs, h2 => by
      cases h2 with
      | no_rule _ hr' => rw [hr] at hr'; exact absurd hr' (by simp)
      | stop _ r' hr' he' =>
        have : r = r' := Option.some.inj (hr.symm.trans hr')
        subst this
        exact absurd (ev_det he he') (by simp)
      | stuck _ _ r' _ hr' he' hl' =>
        have : r = r' := Option.some.inj (hr.symm.trans hr')
        subst this
        have e2 := ev_det he he'
        simp only [Option.some.injEq, Prod.mk.injEq] at e2
        obtain ⟨e3, _⟩ := e2
        subst e3
        exact absurd hl hl'
      | step _ _ _ r' _ hr' he' hl' hs' =>
        have : r = r' := Option.some.inj (hr.symm.trans hr')
        subst this
        have e2 := ev_det he he'
        simp only [Option.some.injEq, Prod.mk.injEq] at e2
        obtain ⟨e3, _⟩ := e2
        subst e3
        exact skip_det hs hs'
end

/-- the grammar reads a string in at most one way -/
theorem reads_unique {s : Str} {v w : LNarsese} (h1 : Reads G s v) (h2 : Reads G s w) : v = w := by
  obtain ⟨t1, d1, r1⟩ := h1
  obtain ⟨t2, d2, r2⟩ := h2
  have e := ev_det d1 d2
  simp only [Option.some.injEq, Prod.mk.injEq, List.cons.injEq, and_true, true_and] at e
  subst e
  rw [r1] at r2
  exact Option.some.inj r2

/-- the interpreter did not run out of fuel -/
def PR.answered : PR → Bool
  | .out => false
  | _ => true

/-- when the interpreter answers (its fuel sufficed), its answer is the only reading: in particular a string on
which it answers "no value" has no reading -/
theorem referenceS_none (s : Str)
    (hrun : (runS G (40 * s.length + 400) false (.ref "narsese") s).answered = true)
    (h : referenceS G s = none) : ∀ v, ¬ Reads G s v := by
  intro v ⟨t, d, rt⟩
  unfold referenceS parseAllS at h
  cases hr : runS G (40 * s.length + 400) false (.ref "narsese") s with
  | out => rw [hr] at hrun; exact absurd hrun (by decide)
  | fail =>
    have := (runS_sound G _ false _ s).2 hr
    exact absurd (ev_det d this) (by simp)
  | ok rest kids =>
    rw [hr] at h
    have := (runS_sound G _ false _ s).1 rest kids hr
    have e := ev_det d this
    simp only [Option.some.injEq, Prod.mk.injEq] at e
    obtain ⟨e1, e2⟩ := e
    subst e1 e2
    simp only [Option.bind_some] at h
    rw [rt] at h
    exact absurd h (by simp)

end Narsese.Peg
