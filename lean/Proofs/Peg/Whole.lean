/-
  C11, part 6: `sentence`, `task`, `narsese` — the whole formatted value is derived from the start rule,
  as the kind it is; the earlier alternatives of `narsese` fail on it.
-/
import Proofs.Peg.Items
set_option autoImplicit false

namespace Narsese.Peg
open LFormat

/-! ### well-formedness of the items (grammar side) -/

/-- blank-separated optional item -/
def optSp (x : Str) : Str := if x.isEmpty then [] else ' ' :: x

/-- the truth as printed (nothing for an empty truth) -/
def ttOf (tr : List Str) : Str := if tr.isEmpty then [] else truthTxt tr

def stampToks (st : Str) : List PTree := if st.isEmpty then [] else [.node "stamp" st []]
def truthToks (tr : List Str) : List PTree := if tr.isEmpty then [] else [.node "truth" (truthTxt tr) (tr.map tbtTok)]

def sentTree (L : LFormat) (s : LSentence) : PTree :=
  .node "sentence" (L.fmtSentence s)
    (termTree L s.term :: .node "punctuation" s.punct [] :: (stampToks s.stamp ++ truthToks s.truth))

def taskTree (L : LFormat) (k : LTask) : PTree :=
  .node "task" (L.fmtTask k) [budgetTree k.budget, sentTree L k.sentence]

theorem joinLest_sp3 (a b c : Str) : joinLest [' '] [a, b, c] = a ++ (optSp b ++ optSp c) := by
  simp only [joinLest, List.filter, optSp]
  cases b <;> cases c <;> simp

section
variable {L : LFormat} (hL : GLayout L)
include hL

theorem fmtTruth_eq (tr : List Str) : L.fmtTruth tr = ttOf tr := by
  simp only [fmtTruth, ttOf, truthTxt, hL.truthL, hL.truthR, hL.truthSep, semi]
  split <;> simp

theorem gtxt_sentence (s : LSentence) :
    L.fmtSentence s = L.fmtTerm s.term ++ (s.punct ++ (optSp s.stamp ++ optSp (ttOf s.truth))) := by
  simp only [fmtSentence, hL.spaceItems, joinLest_sp3, fmtTruth_eq hL]

theorem fmtBudget_eq (b : List Str) : L.fmtBudget b = budgetTxt b := by
  simp only [fmtBudget, budgetTxt, hL.budgetL, hL.budgetR, hL.budgetSep, semi, List.cons_append, List.nil_append]

end

/-! ### the optional items -/

theorem tt_head (tr : List Str) : ∀ c ∈ (ttOf tr).head?, c = '%' := by
  simp only [ttOf]
  split
  · simp
  · simp [truthTxt]

theorem ws_pct : wsB '%' = false := by decide +kernel
theorem ws_colon : wsB ':' = false := by decide +kernel

theorem noWs_tt (tr : List Str) : NoWs (ttOf tr) := by
  intro c hc; rw [tt_head tr c hc]; exact ws_pct

theorem skip_optSp {x : Str} (h : NoWs x) : Skip RG false (optSp x) x := by
  simp only [optSp]
  split
  · rename_i he
    have : x = [] := by simpa using he
    subst this; exact skip_none false noWs_nil
  · exact skip_space h

theorem gStamp_cases {st : Str} (h : gStampB st = true) :
    st = [] ∨ ∃ mid, st = stampTxt mid ∧ mid ≠ [] ∧ mid.all stampCh = true := by
  simp only [gStampB, Bool.or_eq_true, Bool.and_eq_true, beq_iff_eq, Bool.not_eq_true'] at h
  rcases h with h | h
  · exact Or.inl (by simpa using h)
  · exact Or.inr ⟨stampMidOf st, h.1.1, by simpa using h.1.2, h.2⟩

/-- `stamp?` between the punctuation and the truth -/
theorem ev_opt_stamp (st : Str) (hst : gStampB st = true) (tr : List Str) :
    ∃ Q1 Q2, Skip RG false (optSp st ++ optSp (ttOf tr)) Q1 ∧
      Ev RG false (.opt (.ref "stamp")) Q1 (some (Q2, stampToks st)) ∧ Skip RG false Q2 (ttOf tr) := by
  rcases gStamp_cases hst with h0 | ⟨mid, e, hne, hm⟩
  · subst h0
    refine ⟨ttOf tr, ttOf tr, by simpa [optSp] using skip_optSp (noWs_tt tr), ?_, skip_none false (noWs_tt tr)⟩
    have hf : Ev RG false (.ref "stamp") (ttOf tr) none :=
      stamp_fail _ (fun c hc => by rw [tt_head tr c hc]; decide)
    simpa [stampToks] using Ev.opt_none false _ _ hf
  · subst e
    have hne' : (stampTxt mid).isEmpty = false := by simp [stampTxt]
    refine ⟨stampTxt mid ++ optSp (ttOf tr), optSp (ttOf tr), ?_, ?_, skip_optSp (noWs_tt tr)⟩
    · simp only [optSp, hne', Bool.false_eq_true, if_false, List.cons_append]
      exact skip_space (by simp only [stampTxt, List.cons_append]; exact noWs_cons ws_colon)
    · simpa [stampToks, hne'] using Ev.opt_some false _ _ _ (ev_stamp mid (optSp (ttOf tr)) hne hm)

/-- `truth?` at the end of the input -/
theorem ev_opt_truth (tr : List Str) (htr : tr.all gNumB = true) :
    Ev RG false (.opt (.ref "truth")) (ttOf tr) (some ([], truthToks tr)) := by
  cases tr with
  | nil => simpa [ttOf, truthToks] using Ev.opt_none false _ _ (truth_fail [] (by simp))
  | cons x xs =>
    have := ev_truth x xs [] (by simpa [List.all_eq_true] using htr)
    simpa [ttOf, truthToks] using Ev.opt_some false _ _ _ this

/-! ### `sentence` -/

def sentenceBody : Peg :=
  .seq (.seq (.seq (.ref "term") (.ref "punctuation")) (.opt (.ref "stamp"))) (.opt (.ref "truth"))

theorem rule_sentence : RG.rule? "sentence" = some { name := "sentence", mod := .normal, body := sentenceBody } := by
  decide +kernel

theorem gPunct_cases {p : Str} (h : gPunctB p = true) :
    ∃ c, p = [c] ∧ psB c = true ∧ acB c = false ∧ c ≠ '=' := by
  match p, h with
  | [c], h =>
    simp only [gPunctB, Bool.and_eq_true, Bool.not_eq_true', beq_eq_false_iff_ne] at h
    exact ⟨c, rfl, h.1.1, h.1.2, h.2⟩

def taskBody : Peg := .seq (.ref "budget") (.ref "sentence")

theorem rule_task : RG.rule? "task" = some { name := "task", mod := .normal, body := taskBody } := by decide +kernel

section
variable {L : LFormat} (hL : GLayout L)
include hL

theorem ev_sentence (s : LSentence) (h : gSentOKB s = true) :
    Ev RG false (.ref "sentence") (L.fmtSentence s) (some ([], [sentTree L s])) := by
  simp only [gSentOKB, Bool.and_eq_true] at h
  obtain ⟨⟨⟨ht, hp⟩, hst⟩, htr⟩ := h
  obtain ⟨pc, epc, hps, hac, hne⟩ := gPunct_cases hp
  have hws : wsB pc = false := ps_not_ws hps
  have hsp : pc ≠ ' ' := by intro e; subst e; rw [ws_space] at hws; exact absurd hws (by decide)
  have hbody : Ev RG false sentenceBody (L.fmtSentence s ++ [])
      (some ([], termTree L s.term :: .node "punctuation" s.punct [] :: (stampToks s.stamp ++ truthToks s.truth))) := by
    rw [List.append_nil, gtxt_sentence hL, epc]
    have hstop : stopGB ([pc] ++ (optSp s.stamp ++ optSp (ttOf s.truth))) = true :=
      stopG_char _ (by simp [hsp, hac, hne, hws])
    have h1 := ev_term hL s.term ht _ hstop
    have h2 := ev_punct pc (optSp s.stamp ++ optSp (ttOf s.truth)) hps
    have h12 := ev_seq_ok h1 (skip_none false (noWs_cons hws)) h2
    obtain ⟨Q1, Q2, sk1, h3, sk2⟩ := ev_opt_stamp s.stamp hst s.truth
    have h123 := ev_seq_ok h12 sk1 h3
    have := ev_seq_ok h123 sk2 (ev_opt_truth s.truth htr)
    simpa [sentenceBody] using this
  have := ev_ref_tok rule_sentence rfl hbody
  simpa [sentTree] using this

/-- `sentence` fails on the text of a bare term (no punctuation follows) -/
theorem sentence_fail_term (t : LTerm) (h : gTermOKB t = true) :
    Ev RG false (.ref "sentence") (L.fmtTerm t) none := by
  have h1 := ev_term hL t h [] (by simp [stopGB])
  rw [List.append_nil] at h1
  exact ev_ref_no rule_sentence
    (Ev.seq_fail _ _ _ _ (Ev.seq_fail _ _ _ _ (ev_seq_no h1 (skip_none false noWs_nil) punct_nil)))

/-! ### `task` -/

theorem sentence_ne (s : LSentence) (h : gSentOKB s = true) : ∃ c cs, L.fmtSentence s = c :: cs ∧ wsB c = false := by
  simp only [gSentOKB, Bool.and_eq_true] at h
  obtain ⟨c, cs, e, hw⟩ := term_head hL s.term h.1.1.1
  exact ⟨c, cs ++ _, by rw [gtxt_sentence hL, e]; rfl, hw⟩

theorem gtxt_task (k : LTask) (h : gSentOKB k.sentence = true) :
    L.fmtTask k = budgetTxt k.budget ++ ' ' :: L.fmtSentence k.sentence := by
  obtain ⟨c, cs, e, _⟩ := sentence_ne hL k.sentence h
  simp only [fmtTask, fmtBudget_eq hL, hL.spaceItems, e, List.isEmpty_cons, Bool.false_eq_true, if_false,
    List.append_assoc, List.cons_append, List.nil_append]

theorem ev_task (k : LTask) (h : gTaskOKB k = true) :
    Ev RG false (.ref "task") (L.fmtTask k) (some ([], [taskTree L k])) := by
  simp only [gTaskOKB, Bool.and_eq_true] at h
  have hbody : Ev RG false taskBody (L.fmtTask k ++ []) (some ([], [budgetTree k.budget, sentTree L k.sentence])) := by
    rw [List.append_nil, gtxt_task hL k h.2]
    obtain ⟨c, cs, e, hw⟩ := sentence_ne hL k.sentence h.2
    have h1 := ev_budget k.budget (' ' :: L.fmtSentence k.sentence) (by simpa [List.all_eq_true] using h.1)
    have h2 := ev_sentence hL k.sentence h.2
    have := ev_seq_ok h1 (skip_space (by rw [e]; exact noWs_cons hw)) h2
    simpa [taskBody] using this
  have := ev_ref_tok rule_task rfl hbody
  simpa [taskTree] using this

end

/-! ### `task` fails on what is not a task -/

/-- on anything that does not begin with `$` -/
theorem task_fail_head (s : Str) (h : ∀ c ∈ s.head?, '$' ≠ c) : Ev RG false (.ref "task") s none :=
  ev_ref_no rule_task (Ev.seq_fail _ _ _ _
    (ev_ref_no rule_budget (Ev.seq_fail _ _ _ _ (Ev.seq_fail _ _ _ _ (ev_lit1_fail false '$' s h)))))

/-! #### evaluation is defined on every input for the budget's sub-expressions -/

theorem skip_total (s : Str) : ∃ s', Skip RG false s s' ∧ s' <:+ s := by
  induction s with
  | nil => exact ⟨[], skip_none false noWs_nil, List.suffix_refl _⟩
  | cons c cs ih =>
    by_cases hc : wsB c = true
    · obtain ⟨s', hs, hsuf⟩ := ih
      have hev : Ev RG true (.cls "WHITE_SPACE") (c :: cs) (some (cs, [])) := by
        have hc' : inRanges Gen.clsWhite c = true := hc
        simpa [hc'] using ev_cls_cons (G := RG) true "WHITE_SPACE" _ cls_white c cs
      exact ⟨s', Skip.step (c :: cs) cs s' _ [] rule_ws hev (by simp) hs, hsuf.trans (List.suffix_cons c cs)⟩
    · exact ⟨c :: cs, skip_none false (noWs_cons (by simpa using hc)), List.suffix_refl _⟩

theorem tbt_total (s : Str) : ∃ res, Ev RG false (.ref "truth_budget_term") s res ∧
    ∀ r k, res = some (r, k) → r <:+ s ∧ r.length < s.length := by
  by_cases hh : ∀ c ∈ s.head?, ddB c = false
  · exact ⟨none, ev_tbt_fail s hh, by simp⟩
  · have hx : gNumB (s.takeWhile ddB) = true := by
      cases s with
      | nil => simp at hh
      | cons c cs =>
        have hc : ddB c = true := by simpa using hh
        simp [gNumB, List.takeWhile_cons, hc, List.all_takeWhile]
    have hr : ∀ c ∈ (s.dropWhile ddB).head?, ddB c = false := by
      intro c hc
      have := List.head?_dropWhile_not ddB s
      rw [Option.mem_def.mp hc] at this
      exact this
    have := ev_tbt (s.takeWhile ddB) (s.dropWhile ddB) hx hr
    rw [List.takeWhile_append_dropWhile] at this
    refine ⟨_, this, ?_⟩
    intro r k e
    simp only [Option.some.injEq, Prod.mk.injEq] at e
    rw [← e.1]
    refine ⟨⟨s.takeWhile ddB, List.takeWhile_append_dropWhile⟩, ?_⟩
    obtain ⟨c, cs, ex, _⟩ := gNum_head hx
    have hl : (s.takeWhile ddB ++ s.dropWhile ddB).length = s.length := by rw [List.takeWhile_append_dropWhile]
    rw [ex] at hl
    simp only [List.length_append, List.length_cons] at hl
    omega

theorem many_semi_total : ∀ (n : Nat) (s : Str) (acc : List PTree), s.length ≤ n →
    ∃ out, Many RG false semiTbt s acc out ∧ out.1 <:+ s
  | n, s, acc, hn => by
    obtain ⟨s', hsk, hsuf⟩ := skip_total s
    by_cases hh : ∀ c ∈ s'.head?, ';' ≠ c
    · exact ⟨(s, acc), Many.stop_fail false _ s s' acc hsk (Ev.seq_fail _ _ _ _ (ev_lit1_fail false ';' s' hh)),
        List.suffix_refl _⟩
    · cases s' with
      | nil => simp at hh
      | cons c s2 =>
        have hc : ';' = c := by simpa using hh
        subst hc
        obtain ⟨s3, hsk2, hsuf2⟩ := skip_total s2
        obtain ⟨res, hev, hres⟩ := tbt_total s3
        have h1 := ev_lit1_hit (G := RG) false ';' s2
        cases res with
        | none =>
          exact ⟨(s, acc), Many.stop_fail false _ s (';' :: s2) acc hsk (ev_seq_no h1 hsk2 hev), List.suffix_refl _⟩
        | some x =>
          obtain ⟨s4, k⟩ := x
          obtain ⟨hs4, hl4⟩ := hres s4 k rfl
          have hlen : s4.length < s.length := by
            have a1 := hsuf2.length_le
            have a2 := hsuf.length_le
            simp only [List.length_cons] at a2
            omega
          cases n with
          | zero => omega
          | succ n =>
            obtain ⟨out, hm, hout⟩ := many_semi_total n s4 (acc ++ ([] ++ k)) (by omega)
            refine ⟨out, Many.step false _ s (';' :: s2) s4 ([] ++ k) acc out hsk (ev_seq_ok h1 hsk2 hev) hlen hm, ?_⟩
            exact hout.trans (hs4.trans (hsuf2.trans ((List.suffix_cons ';' s2).trans hsuf)))

theorem many_lit_total : ∀ (n : Nat) (s : Str) (acc : List PTree), s.length ≤ n →
    ∃ out, Many RG false (.lit [';']) s acc out ∧ out.1 <:+ s
  | n, s, acc, hn => by
    obtain ⟨s', hsk, hsuf⟩ := skip_total s
    by_cases hh : ∀ c ∈ s'.head?, ';' ≠ c
    · exact ⟨(s, acc), Many.stop_fail false _ s s' acc hsk (ev_lit1_fail false ';' s' hh), List.suffix_refl _⟩
    · cases s' with
      | nil => simp at hh
      | cons c s2 =>
        have hc : ';' = c := by simpa using hh
        subst hc
        have hlen : s2.length < s.length := by
          have a2 := hsuf.length_le
          simp only [List.length_cons] at a2
          omega
        cases n with
        | zero => omega
        | succ n =>
          obtain ⟨out, hm, hout⟩ := many_lit_total n s2 (acc ++ []) (by omega)
          refine ⟨out, Many.step false _ s (';' :: s2) s2 [] acc out hsk (ev_lit1_hit false ';' s2) hlen hm, ?_⟩
          exact hout.trans ((List.suffix_cons ';' s2).trans hsuf)

theorem nums_total (s : Str) : ∃ res, Ev RG false numsBody s res ∧ ∀ r k, res = some (r, k) → r <:+ s := by
  obtain ⟨res, hev, hres⟩ := tbt_total s
  cases res with
  | none => exact ⟨none, Ev.seq_fail _ _ _ _ (Ev.seq_fail _ _ _ _ hev), by simp⟩
  | some x =>
    obtain ⟨s1, k1⟩ := x
    obtain ⟨hs1, _⟩ := hres s1 k1 rfl
    obtain ⟨s1', hsk1, hsuf1⟩ := skip_total s1
    obtain ⟨out2', hm2', hout2'⟩ := many_semi_total s1'.length s1' [] (Nat.le_refl _)
    obtain ⟨s2', k2'⟩ := out2'
    obtain ⟨s2'', hsk2, hsuf2⟩ := skip_total s2'
    obtain ⟨out3', hm3', hout3'⟩ := many_lit_total s2''.length s2'' [] (Nat.le_refl _)
    obtain ⟨s3', k3'⟩ := out3'
    have h12 := ev_seq_ok hev hsk1 (Ev.star false semiTbt s1' _ hm2')
    have h123 := ev_seq_ok h12 hsk2 (Ev.star false (.lit [';']) s2'' _ hm3')
    refine ⟨_, h123, ?_⟩
    intro r k e
    simp only [Option.some.injEq, Prod.mk.injEq] at e
    rw [← e.1]
    exact hout3'.trans (hsuf2.trans (hout2'.trans (hsuf1.trans hs1)))

theorem bc_total (s : Str) : ∃ r k, Ev RG false (.ref "budget_content") s (some (r, k)) ∧ r <:+ s := by
  obtain ⟨res, hev, hres⟩ := nums_total s
  cases res with
  | none =>
    have hb : Ev RG false bcBody ([] ++ s) (some (s, [])) := Ev.alt_r false _ _ _ _ hev (ev_lit_empty false s)
    exact ⟨s, _, ev_ref_tok rule_bc rfl hb, List.suffix_refl _⟩
  | some x =>
    obtain ⟨r, k⟩ := x
    obtain ⟨X, eX⟩ := hres r k rfl
    subst eX
    have hb : Ev RG false bcBody (X ++ r) (some (r, k)) := Ev.alt_l false _ _ _ _ hev
    exact ⟨r, _, ev_ref_tok rule_bc rfl hb, ⟨X, rfl⟩⟩

/-- `budget` (hence `task`) fails on `$…` when no second `$` follows -/
theorem task_fail_dollar (w : Str) (hw : '$' ∉ w) : Ev RG false (.ref "task") ('$' :: w) none := by
  obtain ⟨w1, hsk1, hsuf1⟩ := skip_total w
  obtain ⟨r, k, hbc, hr⟩ := bc_total w1
  obtain ⟨r', hsk2, hsuf2⟩ := skip_total r
  have hf : Ev RG false (.lit ['$']) r' none := by
    refine ev_lit1_fail false '$' r' ?_
    intro c hc e
    subst e
    exact hw ((hsuf2.trans (hr.trans hsuf1)).subset (List.mem_of_mem_head? hc))
  have h12 := ev_seq_ok (ev_lit1_hit (G := RG) false '$' w) hsk1 hbc
  have hbud : Ev RG false budgetBody ('$' :: w) none := ev_seq_no h12 hsk2 hf
  exact ev_ref_no rule_task (Ev.seq_fail _ _ _ _ (ev_ref_no rule_budget hbud))

theorem task_fail (txt : Str) (h : dollarOKB txt = true) : Ev RG false (.ref "task") txt none := by
  cases txt with
  | nil => exact task_fail_head [] (by simp)
  | cons c w =>
    simp only [dollarOKB, Bool.or_eq_true, Bool.not_eq_true', beq_eq_false_iff_ne] at h
    by_cases hc : c = '$'
    · subst hc
      rcases h with h | h
      · exact absurd rfl h
      · exact task_fail_dollar w (by simpa using h)
    · exact task_fail_head _ (by simpa using fun e => hc e.symm)

/-! ### `narsese` -/

def narseseBody : Peg := .alt (.alt (.ref "task") (.ref "sentence")) (.ref "term")

theorem rule_narsese : RG.rule? "narsese" = some { name := "narsese", mod := .normal, body := narseseBody } := by
  decide +kernel

def valTree (L : LFormat) : LNarsese → PTree
  | .term t => .node "narsese" (L.fmtTerm t) [termTree L t]
  | .sentence s => .node "narsese" (L.fmtSentence s) [sentTree L s]
  | .task k => .node "narsese" (L.fmtTask k) [taskTree L k]

section
variable {L : LFormat} (hL : GLayout L)
include hL

/-- **derivation of the whole string from the start rule** -/
theorem derives_value (v : LNarsese) (h : gValOKB L v = true) :
    DerivesAll RG "narsese" (L.fmtNarsese v) (valTree L v) := by
  unfold DerivesAll
  cases v with
  | term t =>
    simp only [gValOKB, Bool.and_eq_true] at h
    have h1 := task_fail _ h.2
    have h2 := sentence_fail_term hL t h.1
    have h3 := ev_term hL t h.1 [] (by simp [stopGB])
    have hb : Ev RG false narseseBody (L.fmtTerm t ++ []) (some ([], [termTree L t])) :=
      Ev.alt_r false _ _ _ _ (Ev.alt_r false _ _ _ _ (by simpa using h1) (by simpa using h2)) h3
    simpa [fmtNarsese, valTree] using ev_ref_tok rule_narsese rfl hb
  | sentence s =>
    simp only [gValOKB, Bool.and_eq_true] at h
    have h1 := task_fail _ h.2
    have h2 := ev_sentence hL s h.1
    have hb : Ev RG false narseseBody (L.fmtSentence s ++ []) (some ([], [sentTree L s])) :=
      Ev.alt_l false _ (.ref "term") _ _ (Ev.alt_r false _ _ _ _ (by simpa using h1) (by simpa using h2))
    simpa [fmtNarsese, valTree] using ev_ref_tok rule_narsese rfl hb
  | task k =>
    simp only [gValOKB] at h
    have h1 := ev_task hL k h
    have hb : Ev RG false narseseBody (L.fmtTask k ++ []) (some ([], [taskTree L k])) :=
      Ev.alt_l false _ (.ref "term") _ _ (Ev.alt_l false _ (.ref "sentence") _ _ (by simpa using h1))
    simpa [fmtNarsese, valTree] using ev_ref_tok rule_narsese rfl hb

end

end Narsese.Peg
