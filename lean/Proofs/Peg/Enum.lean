/-
  C11, part 8: the enum ASCII formatter prints, character for character, what the lexical formatter prints
  for the lexical image of the value (when the two formatting blanks coincide, as they do in ASCII) — so the
  conformance of the lexical formatter's output covers the enum formatter's output.
-/
import Proofs.C03.Text
set_option autoImplicit false

namespace Narsese
open EFormat

section
variable {F : EFormat} {L : LFormat} (hA : Agree F L) (hsp : F.spaceTerms = F.spaceItems)
include hA hsp

theorem efmtSentence_eq (s : Sentence) : F.fmtSentence s = L.fmtSentence (toLexSentence F s) := by
  unfold EFormat.fmtSentence LFormat.fmtSentence
  rw [joinLest_eqE, joinLest_eq]
  simp only [toLexSentence, fmt_toLex hA, fmtTruth_toLex hA, hA.spaceItems, hsp]

theorem efmt_eq_lfmt (v : Narsese) : F.fmtNarsese v = L.fmtNarsese (toLexN F v) := by
  cases v with
  | term t => simp only [EFormat.fmtNarsese, LFormat.fmtNarsese, toLexN, fmt_toLex hA]
  | sentence s => exact efmtSentence_eq hA hsp s
  | task k =>
    simp only [EFormat.fmtNarsese, LFormat.fmtNarsese, toLexN, EFormat.fmtTask, LFormat.fmtTask]
    rw [efmtSentence_eq hA hsp k.sentence, fmtBudget_toLex hA, hA.spaceItems]

end

end Narsese
