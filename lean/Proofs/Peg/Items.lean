/-
  C11, part 5: the items around the term — `truth_budget_term`, the number lists of `truth` and
  `budget_content`, `budget`, `stamp`, `punctuation`.
-/
import Proofs.Peg.Term
set_option autoImplicit false

namespace Narsese.Peg
open LFormat

/-! ### `truth_budget_term` -/

def tbtBody : Peg := .plus (.alt (.cls "ASCII_DIGIT") (.lit ['.']))

theorem rule_tbt :
    RG.rule? "truth_budget_term" = some { name := "truth_budget_term", mod := .atomic, body := tbtBody } := by
  decide +kernel

theorem single_dd : Single (.alt (.cls "ASCII_DIGIT") (.lit ['.'])) ddB :=
  (single_alt (single_cls _ _ cls_digit) (single_lit '.')).congr (fun c => by
    simp only [ddB]
    have e : ('.' == c) = (c == '.') := by
      by_cases h : c = '.'
      · subst h; rfl
      · have h' : ¬ '.' = c := fun e => h e.symm
        rw [beq_eq_false_iff_ne.mpr h', beq_eq_false_iff_ne.mpr h]
    rw [e])

def tbtTok (x : Str) : PTree := .node "truth_budget_term" x []

theorem ev_tbt (x rest : Str) (hx : gNumB x = true) (hr : ∀ c ∈ rest.head?, ddB c = false) :
    Ev RG false (.ref "truth_budget_term") (x ++ rest) (some (rest, [tbtTok x])) := by
  cases x with
  | nil => simp [gNumB] at hx
  | cons c cs =>
    simp only [gNumB, List.isEmpty_cons, Bool.not_false, Bool.true_and, List.all_cons, Bool.and_eq_true] at hx
    refine ev_ref_tokA rule_tbt rfl (kids := []) ?_
    exact Ev.plus true _ _ (cs ++ rest) [] _ (single_dd.hit _ hx.1) (many_run single_dd cs rest [] hx.2 hr)

theorem ev_tbt_fail (s : Str) (hs : ∀ c ∈ s.head?, ddB c = false) : Ev RG false (.ref "truth_budget_term") s none :=
  ev_ref_no rule_tbt (Ev.plus_fail true _ _ (single_dd.miss hs))

theorem digit_white : disjointB [(48, 57)] Gen.clsWhite = true := by decide +kernel

theorem dd_not_ws {c : Char} (h : ddB c = true) : wsB c = false := by
  simp only [ddB, Bool.or_eq_true, beq_iff_eq] at h
  rcases h with h | h
  · exact disjoint_ranges digit_white h
  · subst h; decide +kernel

theorem gNum_head {x : Str} (h : gNumB x = true) : ∃ c cs, x = c :: cs ∧ ddB c = true := by
  cases x with
  | nil => simp [gNumB] at h
  | cons c cs =>
    simp only [gNumB, List.isEmpty_cons, Bool.not_false, Bool.true_and, List.all_cons, Bool.and_eq_true] at h
    exact ⟨c, cs, rfl, h.1⟩

/-! ### number lists: `tbt ~ (";" ~ tbt)* ~ ";"*` -/

def semiTbt : Peg := .seq (.lit [';']) (.ref "truth_budget_term")
def numsBody : Peg := .seq (.seq (.ref "truth_budget_term") (.star semiTbt)) (.star (.lit [';']))

def semi : Str := [';']

/-- what closes a number list: `%` or `$` -/
def closeNumB (rest : Str) : Bool :=
  match rest with
  | c :: _ => !ddB c && !wsB c && !(c == ';')
  | [] => false

theorem closeNum_facts {rest : Str} (h : closeNumB rest = true) :
    NoWs rest ∧ (∀ c ∈ rest.head?, ddB c = false) ∧ (∀ c ∈ rest.head?, ';' ≠ c) := by
  cases rest with
  | nil => simp [closeNumB] at h
  | cons c cs =>
    simp only [closeNumB, Bool.and_eq_true, Bool.not_eq_true', beq_eq_false_iff_ne] at h
    exact ⟨noWs_cons h.1.2, by simpa using h.1.1, by simpa using fun e => h.2 e.symm⟩

theorem dd_semi : ddB ';' = false := by decide +kernel
theorem ws_semi : wsB ';' = false := by decide +kernel

theorem tail_semi_head (xs : List Str) {rest : Str} (h : closeNumB rest = true) :
    NoWs (tailL semi xs ++ rest) ∧ ∀ c ∈ (tailL semi xs ++ rest).head?, ddB c = false := by
  cases xs with
  | nil => simpa [tailL] using ⟨(closeNum_facts h).1, (closeNum_facts h).2.1⟩
  | cons x xs =>
    simp only [tailL, semi, List.cons_append, List.nil_append, List.append_assoc]
    exact ⟨noWs_cons ws_semi, by simpa using dd_semi⟩

theorem many_semi (xs : List Str) (rest : Str) (hxs : ∀ x ∈ xs, gNumB x = true) (hr : closeNumB rest = true)
    (acc : List PTree) : Many RG false semiTbt (tailL semi xs ++ rest) acc (rest, acc ++ xs.map tbtTok) := by
  induction xs generalizing acc with
  | nil =>
    have hf := closeNum_facts hr
    have := Many.stop_fail false semiTbt rest rest acc (skip_none false hf.1)
      (Ev.seq_fail _ _ _ _ (ev_lit1_fail false ';' rest hf.2.2))
    simpa [tailL] using this
  | cons x xs ih =>
    have hx := hxs x (by simp)
    obtain ⟨c, cs, ex, hc⟩ := gNum_head hx
    have e : tailL semi (x :: xs) ++ rest = ';' :: (x ++ (tailL semi xs ++ rest)) := by
      simp only [tailL, semi, List.append_assoc, List.cons_append, List.nil_append]
    rw [e]
    have h1 := ev_lit1_hit (G := RG) false ';' (x ++ (tailL semi xs ++ rest))
    have hnw : NoWs (x ++ (tailL semi xs ++ rest)) := by rw [ex]; exact noWs_cons (dd_not_ws hc)
    have h2 := ev_tbt x (tailL semi xs ++ rest) hx (tail_semi_head xs hr).2
    have h12 : Ev RG false semiTbt (';' :: (x ++ (tailL semi xs ++ rest))) (some (tailL semi xs ++ rest, [] ++ [tbtTok x])) :=
      ev_seq_ok h1 (skip_none false hnw) h2
    have := Many.step false semiTbt _ _ _ _ acc _ (skip_none false (noWs_cons ws_semi)) h12
      (by simp only [List.length_cons, List.length_append]; omega)
      (ih (fun y hy => hxs y (by simp [hy])) (acc ++ ([] ++ [tbtTok x])))
    simpa using this

theorem ev_nums (x : Str) (xs : List Str) (rest : Str) (hxs : ∀ y ∈ x :: xs, gNumB y = true) (hr : closeNumB rest = true) :
    Ev RG false numsBody (joinWith semi (x :: xs) ++ rest) (some (rest, (x :: xs).map tbtTok)) := by
  rw [joinWith_cons_tail, List.append_assoc]
  have hf := closeNum_facts hr
  have h1 := ev_tbt x (tailL semi xs ++ rest) (hxs x (by simp)) (tail_semi_head xs hr).2
  have h2 := Ev.star false semiTbt _ _ (many_semi xs rest (fun y hy => hxs y (by simp [hy])) hr [])
  have h12 := ev_seq_ok h1 (skip_none false (tail_semi_head xs hr).1) h2
  have h3 : Ev RG false (.star (.lit [';'])) rest (some (rest, [])) :=
    Ev.star _ _ _ _ (Many.stop_fail false _ rest rest [] (skip_none false hf.1) (ev_lit1_fail false ';' rest hf.2.2))
  have := ev_seq_ok h12 (skip_none false hf.1) h3
  simpa [numsBody] using this

theorem nums_fail (s : Str) (hs : ∀ c ∈ s.head?, ddB c = false) : Ev RG false numsBody s none :=
  Ev.seq_fail _ _ _ _ (Ev.seq_fail _ _ _ _ (ev_tbt_fail s hs))

/-! ### `truth` -/

def truthBody : Peg := .seq (.seq (.lit ['%']) numsBody) (.lit ['%'])

theorem rule_truth : RG.rule? "truth" = some { name := "truth", mod := .normal, body := truthBody } := by decide +kernel

def truthTxt (xs : List Str) : Str := '%' :: (joinWith semi xs ++ ['%'])

theorem ev_truth (x : Str) (xs : List Str) (rest : Str) (hxs : ∀ y ∈ x :: xs, gNumB y = true) :
    Ev RG false (.ref "truth") (truthTxt (x :: xs) ++ rest)
      (some (rest, [.node "truth" (truthTxt (x :: xs)) ((x :: xs).map tbtTok)])) := by
  refine ev_ref_tok rule_truth rfl ?_
  have hcl : closeNumB ('%' :: rest) = true := by simp only [closeNumB]; decide +kernel
  have e : truthTxt (x :: xs) ++ rest = '%' :: (joinWith semi (x :: xs) ++ '%' :: rest) := by
    simp only [truthTxt, List.cons_append, List.append_assoc, List.nil_append]
  rw [e]
  obtain ⟨c, cs, ex, hc⟩ := gNum_head (hxs x (by simp))
  have hnw : NoWs (joinWith semi (x :: xs) ++ '%' :: rest) := by
    rw [joinWith_cons_tail, ex]; exact noWs_cons (dd_not_ws hc)
  have h1 := ev_lit1_hit (G := RG) false '%' (joinWith semi (x :: xs) ++ '%' :: rest)
  have h2 := ev_nums x xs ('%' :: rest) hxs hcl
  have h12 := ev_seq_ok h1 (skip_none false hnw) h2
  have := ev_seq_ok h12 (skip_none false (closeNum_facts hcl).1) (ev_lit1_hit (G := RG) false '%' rest)
  simpa [truthBody] using this

theorem truth_fail (s : Str) (h : ∀ c ∈ s.head?, '%' ≠ c) : Ev RG false (.ref "truth") s none :=
  ev_ref_no rule_truth (Ev.seq_fail _ _ _ _ (Ev.seq_fail _ _ _ _ (ev_lit1_fail false '%' s h)))

/-! ### `budget` -/

def bcBody : Peg := .alt numsBody (.lit [])

theorem rule_bc : RG.rule? "budget_content" = some { name := "budget_content", mod := .normal, body := bcBody } := by
  decide +kernel

def budgetBody : Peg := .seq (.seq (.lit ['$']) (.ref "budget_content")) (.lit ['$'])

theorem rule_budget : RG.rule? "budget" = some { name := "budget", mod := .normal, body := budgetBody } := by
  decide +kernel

def budgetTxt (b : List Str) : Str := '$' :: (joinWith semi b ++ ['$'])

def budgetTree (b : List Str) : PTree :=
  .node "budget" (budgetTxt b) [.node "budget_content" (joinWith semi b) (b.map tbtTok)]

theorem ev_budget (b : List Str) (rest : Str) (hb : ∀ y ∈ b, gNumB y = true) :
    Ev RG false (.ref "budget") (budgetTxt b ++ rest) (some (rest, [budgetTree b])) := by
  refine ev_ref_tok rule_budget rfl ?_
  have hcl : closeNumB ('$' :: rest) = true := by simp only [closeNumB]; decide +kernel
  have e : budgetTxt b ++ rest = '$' :: (joinWith semi b ++ '$' :: rest) := by
    simp only [budgetTxt, List.cons_append, List.append_assoc, List.nil_append]
  rw [e]
  have h1 := ev_lit1_hit (G := RG) false '$' (joinWith semi b ++ '$' :: rest)
  have hbc : Ev RG false (.ref "budget_content") (joinWith semi b ++ '$' :: rest)
      (some ('$' :: rest, [.node "budget_content" (joinWith semi b) (b.map tbtTok)])) := by
    refine ev_ref_tok rule_bc rfl ?_
    cases b with
    | nil =>
      have hf := nums_fail ('$' :: rest) (by simp only [List.head?_cons, Option.mem_def, Option.some.injEq]; intro c hc; subst hc; decide +kernel)
      simpa [joinWith, bcBody] using Ev.alt_r false _ _ _ _ hf (ev_lit_empty false ('$' :: rest))
    | cons x xs => exact Ev.alt_l false _ _ _ _ (ev_nums x xs ('$' :: rest) hb hcl)
  have hnw : NoWs (joinWith semi b ++ '$' :: rest) := by
    cases b with
    | nil => exact noWs_cons (by decide +kernel)
    | cons x xs =>
      obtain ⟨c, cs, ex, hc⟩ := gNum_head (hb x (by simp))
      rw [joinWith_cons_tail, ex]; exact noWs_cons (dd_not_ws hc)
  have h12 := ev_seq_ok h1 (skip_none false hnw) hbc
  have := ev_seq_ok h12 (skip_none false (closeNum_facts hcl).1) (ev_lit1_hit (G := RG) false '$' rest)
  simpa [budgetBody, budgetTree] using this

/-! ### `stamp` -/

def stampStep : Peg := .seq (.neg (.lit [':'])) (.cls "ANY")
def stampBody : Peg := .seq (.seq (.lit [':']) (.plus stampStep)) (.lit [':'])

theorem rule_stamp : RG.rule? "stamp" = some { name := "stamp", mod := .normal, body := stampBody } := by decide +kernel

theorem any_char (c : Char) : inRanges [(0, 1114111)] c = true := by
  have h := c.valid
  have : c.toNat < 1114112 := by
    rcases h with h | h
    · have : c.val.toNat < 55296 := h
      show c.val.toNat < 1114112
      omega
    · have : c.val.toNat < 1114112 := h.2
      exact this
  simp only [inRanges]
  have h1 : c.toNat ≤ 1114111 := by omega
  simp [h1]

theorem ev_stampStep {c : Char} (s : Str) (hc : stampCh c = true) :
    Ev RG false stampStep (c :: s) (some (s, [])) := by
  simp only [stampCh, Bool.and_eq_true, Bool.not_eq_true', beq_eq_false_iff_ne] at hc
  have h1 : Ev RG false (.neg (.lit [':'])) (c :: s) (some (c :: s, [])) :=
    Ev.neg_none _ _ _ (ev_lit1_miss false ':' c s (fun e => hc.1.1 e.symm))
  have h2 : Ev RG false (.cls "ANY") (c :: s) (some (s, [])) := by
    simpa [any_char c] using ev_cls_cons (G := RG) false "ANY" _ cls_any c s
  simpa [stampStep] using ev_seq_ok h1 (skip_none false (noWs_cons hc.1.2)) h2

theorem many_stamp (mid rest : Str) (hm : mid.all stampCh = true) (acc : List PTree) :
    Many RG false stampStep (mid ++ ':' :: rest) acc (':' :: rest, acc) := by
  induction mid with
  | nil =>
    refine Many.stop_fail false _ _ (':' :: rest) acc (skip_none false (noWs_cons (by decide +kernel))) ?_
    exact Ev.seq_fail _ _ _ _ (Ev.neg_some _ _ _ _ (ev_lit1_hit false ':' rest))
  | cons c cs ih =>
    simp only [List.all_cons, Bool.and_eq_true] at hm
    have hc := hm.1
    have hws : wsB c = false := by
      simp only [stampCh, Bool.and_eq_true, Bool.not_eq_true'] at hc; exact hc.1.2
    have := Many.step false stampStep (c :: cs ++ ':' :: rest) (c :: cs ++ ':' :: rest) (cs ++ ':' :: rest) [] acc _
      (skip_none false (noWs_cons hws)) (ev_stampStep _ hc) (by simp) (by simpa using ih hm.2)
    exact this

theorem ev_stamp (mid rest : Str) (hne : mid ≠ []) (hm : mid.all stampCh = true) :
    Ev RG false (.ref "stamp") (stampTxt mid ++ rest) (some (rest, [.node "stamp" (stampTxt mid) []])) := by
  refine ev_ref_tok rule_stamp rfl ?_
  have e : stampTxt mid ++ rest = ':' :: (mid ++ ':' :: rest) := by
    simp only [stampTxt, List.cons_append, List.append_assoc, List.nil_append]
  rw [e]
  cases mid with
  | nil => exact absurd rfl hne
  | cons c cs =>
    simp only [List.all_cons, Bool.and_eq_true] at hm
    have hws : wsB c = false := by
      have := hm.1; simp only [stampCh, Bool.and_eq_true, Bool.not_eq_true'] at this; exact this.1.2
    have h1 := ev_lit1_hit (G := RG) false ':' (c :: cs ++ ':' :: rest)
    have h2 : Ev RG false (.plus stampStep) (c :: cs ++ ':' :: rest) (some (':' :: rest, [])) :=
      Ev.plus false _ _ _ [] _ (ev_stampStep _ hm.1) (many_stamp cs rest hm.2 [])
    have h12 := ev_seq_ok h1 (skip_none false (noWs_cons hws)) h2
    have := ev_seq_ok h12 (skip_none false (noWs_cons (by decide +kernel))) (ev_lit1_hit (G := RG) false ':' rest)
    simpa [stampBody] using this

theorem stamp_fail (s : Str) (h : ∀ c ∈ s.head?, ':' ≠ c) : Ev RG false (.ref "stamp") s none :=
  ev_ref_no rule_stamp (Ev.seq_fail _ _ _ _ (Ev.seq_fail _ _ _ _ (ev_lit1_fail false ':' s h)))

/-! ### `punctuation` -/

theorem rule_punctuation : RG.rule? "punctuation" =
    some { name := "punctuation", mod := .normal, body := .alt (.cls "PUNCTUATION") (.cls "SYMBOL") } := by decide +kernel

theorem ev_punct (c : Char) (rest : Str) (hc : psB c = true) :
    Ev RG false (.ref "punctuation") ([c] ++ rest) (some (rest, [.node "punctuation" [c] []])) := by
  refine ev_ref_tok rule_punctuation rfl ?_
  have h1 := ev_cls_cons (G := RG) false "PUNCTUATION" _ cls_punct c rest
  have h2 := ev_cls_cons (G := RG) false "SYMBOL" _ cls_symbol c rest
  have := ev_alt h1 h2
  simp only [psB, Bool.or_eq_true] at hc
  by_cases hp : inRanges Gen.clsPunct c = true
  · simpa [hp] using this
  · have hs : inRanges Gen.clsSymbol c = true := by rcases hc with h | h; exact absurd h hp; exact h
    simpa [hp, hs] using this

theorem punct_nil : Ev RG false (.ref "punctuation") [] none :=
  ev_ref_no rule_punctuation (Ev.alt_r _ _ _ _ _ (Ev.cls_eof _ _) (Ev.cls_eof _ _))

end Narsese.Peg
