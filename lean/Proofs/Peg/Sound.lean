/-
  C11, part 1: the fuel-honest PEG interpreter is sound for the declarative semantics — whenever it answers
  (`ok` or `fail`, i.e. the fuel was not exhausted) the relation `Ev` holds. So what the check computes with
  `referenceS` on a concrete string IS the published grammar's reading of that string.
-/
import NarseseModel.PegSem
set_option autoImplicit false

namespace Narsese.Peg

variable (G : Grammar)

theorem wrapRefS_ok (a : Bool) (r : Rule) (n : String) (s : Str) (res : PR) (rest : Str) (k : List PTree)
    (h : wrapRefS a r n s res = .ok rest k) :
    ∃ rest' k', res = .ok rest' k' ∧ wrapRef a r n s (some (rest', k')) = some (rest, k) := by
  cases res with
  | ok rest' k' =>
    refine ⟨rest', k', rfl, ?_⟩
    simp only [wrapRefS] at h
    simp only [wrapRef]
    by_cases h1 : (r.mod == Modifier.silent) = true
    · simp only [h1, if_true, PR.ok.injEq] at h ⊢; simp [h.1, h.2]
    · by_cases h2 : a = true
      · simp only [h1, h2, if_true, Bool.false_eq_true, if_false, PR.ok.injEq] at h ⊢; simp [h.1, h.2]
      · by_cases h3 : (r.mod == Modifier.atomic) = true
        · simp only [h1, h2, h3, if_true, Bool.false_eq_true, if_false, PR.ok.injEq] at h ⊢
          obtain ⟨e1, e2⟩ := h; subst e1; simp [e2]
        · simp only [h1, h2, h3, Bool.false_eq_true, if_false, PR.ok.injEq] at h ⊢
          obtain ⟨e1, e2⟩ := h; subst e1; simp [e2]
  | fail => simp [wrapRefS] at h
  | out => simp [wrapRefS] at h

theorem wrapRefS_fail (a : Bool) (r : Rule) (n : String) (s : Str) (res : PR) (h : wrapRefS a r n s res = .fail) :
    res = .fail := by
  cases res with
  | ok rest' k' =>
    exfalso
    simp only [wrapRefS] at h
    by_cases h1 : (r.mod == Modifier.silent) = true
    · simp [h1] at h
    · by_cases h2 : a = true
      · simp [h1, h2] at h
      · by_cases h3 : (r.mod == Modifier.atomic) = true
        · simp [h1, h2, h3] at h
        · simp [h1, h2, h3] at h
  | fail => rfl
  | out => simp [wrapRefS] at h

mutual
  theorem runS_sound : ∀ (fuel : Nat) (a : Bool) (p : Peg) (s : Str),
      (∀ r k, runS G fuel a p s = .ok r k → Ev G a p s (some (r, k))) ∧ (runS G fuel a p s = .fail → Ev G a p s none)
    | 0, a, p, s => by simp [runS]
    | fuel + 1, a, p, s => by
      cases p with
      | lit kw =>
        simp only [runS]
        cases hs : strip kw s with
        | none =>
          refine ⟨by simp, fun _ => ?_⟩
          have := Ev.lit (G := G) a kw s
          rwa [hs] at this
        | some r0 =>
          refine ⟨fun r k h => ?_, by simp⟩
          simp only [PR.ok.injEq] at h
          have := Ev.lit (G := G) a kw s
          rw [hs] at this
          rw [← h.1, ← h.2]; exact this
      | cls n =>
        simp only [runS]
        cases hc : G.cls? n with
        | none => exact ⟨by simp, fun _ => Ev.cls_unknown a n s hc⟩
        | some tbl =>
          cases s with
          | nil => exact ⟨by simp, fun _ => Ev.cls_eof a n⟩
          | cons c cs =>
            simp only
            by_cases hin : inRanges tbl c = true
            · simp only [hin, if_true]
              refine ⟨fun r k h => ?_, by simp⟩
              simp only [PR.ok.injEq] at h
              rw [← h.1, ← h.2]; exact Ev.cls_ok a n tbl c cs hc hin
            · simp only [hin, Bool.false_eq_true, if_false]
              exact ⟨by simp, fun _ => Ev.cls_no a n tbl c cs hc (by simpa using hin)⟩
      | ref n =>
        simp only [runS]
        cases hr : G.rule? n with
        | none => exact ⟨by simp, fun _ => Ev.ref_unknown a n s hr⟩
        | some r0 =>
          simp only
          have ih := runS_sound fuel (a || r0.mod == .atomic) r0.body s
          refine ⟨fun r k h => ?_, fun h => ?_⟩
          · obtain ⟨rest', k', e1, e2⟩ := wrapRefS_ok a r0 n s _ r k h
            have := Ev.ref a n r0 s _ hr (ih.1 rest' k' e1)
            rwa [e2] at this
          · have e := wrapRefS_fail a r0 n s _ h
            have := Ev.ref a n r0 s _ hr (ih.2 e)
            simpa [wrapRef] using this
      | seq p q =>
        simp only [runS]
        have ih1 := runS_sound fuel a p s
        cases h1 : runS G fuel a p s with
        | ok r1 k1 =>
          simp only
          cases hsk : skipS G fuel a r1 with
          | ok r1' =>
            have hs := skipS_sound fuel a r1 r1' hsk
            have ih2 := runS_sound fuel a q r1'
            simp only
            cases h2 : runS G fuel a q r1' with
            | ok r2 k2 =>
              refine ⟨fun r k h => ?_, by simp⟩
              simp only [PR.ok.injEq] at h
              have := Ev.seq a p q s r1 r1' k1 _ (ih1.1 r1 k1 h1) hs (ih2.1 r2 k2 h2)
              rw [← h.1, ← h.2]; simpa using this
            | fail =>
              refine ⟨by simp, fun _ => ?_⟩
              have := Ev.seq a p q s r1 r1' k1 _ (ih1.1 r1 k1 h1) hs (ih2.2 h2)
              simpa using this
            | out => simp
          | out => simp
        | fail => exact ⟨by simp, fun _ => Ev.seq_fail a p q s (ih1.2 h1)⟩
        | out => simp
      | alt p q =>
        simp only [runS]
        have ih1 := runS_sound fuel a p s
        cases h1 : runS G fuel a p s with
        | ok r1 k1 =>
          refine ⟨fun r k h => ?_, by simp⟩
          simp only [PR.ok.injEq] at h
          rw [← h.1, ← h.2]; exact Ev.alt_l a p q s _ (ih1.1 r1 k1 h1)
        | fail =>
          have ih2 := runS_sound fuel a q s
          exact ⟨fun r k h => Ev.alt_r a p q s _ (ih1.2 h1) (ih2.1 r k h), fun h => Ev.alt_r a p q s _ (ih1.2 h1) (ih2.2 h)⟩
        | out => simp
      | opt p =>
        simp only [runS]
        have ih1 := runS_sound fuel a p s
        cases h1 : runS G fuel a p s with
        | ok r1 k1 =>
          refine ⟨fun r k h => ?_, by simp⟩
          simp only [PR.ok.injEq] at h
          rw [← h.1, ← h.2]; exact Ev.opt_some a p s _ (ih1.1 r1 k1 h1)
        | fail =>
          refine ⟨fun r k h => ?_, by simp⟩
          simp only [PR.ok.injEq] at h
          rw [← h.1, ← h.2]; exact Ev.opt_none a p s (ih1.2 h1)
        | out => simp
      | neg p =>
        simp only [runS]
        have ih1 := runS_sound fuel a p s
        cases h1 : runS G fuel a p s with
        | ok r1 k1 => exact ⟨by simp, fun _ => Ev.neg_some a p s _ (ih1.1 r1 k1 h1)⟩
        | fail =>
          refine ⟨fun r k h => ?_, by simp⟩
          simp only [PR.ok.injEq] at h
          rw [← h.1, ← h.2]; exact Ev.neg_none a p s (ih1.2 h1)
        | out => simp
      | star p =>
        simp only [runS]
        refine ⟨fun r k h => Ev.star a p s _ (manyS_sound fuel a p s [] r k h), fun h => ?_⟩
        exact absurd h (manyS_not_fail fuel a p s [])
      | plus p =>
        simp only [runS]
        have ih1 := runS_sound fuel a p s
        cases h1 : runS G fuel a p s with
        | ok r1 k1 =>
          simp only
          refine ⟨fun r k h => Ev.plus a p s r1 k1 _ (ih1.1 r1 k1 h1) (manyS_sound fuel a p r1 k1 r k h), fun h => ?_⟩
          exact absurd h (manyS_not_fail fuel a p r1 k1)
        | fail => exact ⟨by simp, fun _ => Ev.plus_fail a p s (ih1.2 h1)⟩
        | out => simp

  theorem manyS_not_fail : ∀ (fuel : Nat) (a : Bool) (p : Peg) (s : Str) (acc : List PTree),
      manyS G fuel a p s acc ≠ .fail
    | 0, _, _, _, _ => by simp [manyS]
    | fuel + 1, a, p, s, acc => by
      simp only [manyS]
      cases skipS G fuel a s with
      | ok s' =>
        simp only
        cases runS G fuel a p s' with
        | ok r k =>
          simp only
          split
          · exact manyS_not_fail fuel a p r (acc ++ k)
          · simp
        | fail => simp
        | out => simp
      | out => simp

  theorem manyS_sound : ∀ (fuel : Nat) (a : Bool) (p : Peg) (s : Str) (acc : List PTree) (r : Str) (k : List PTree),
      manyS G fuel a p s acc = .ok r k → Many G a p s acc (r, k)
    | 0, _, _, _, _, _, _, h => by simp [manyS] at h
    | fuel + 1, a, p, s, acc, r, k, h => by
      simp only [manyS] at h
      cases hsk : skipS G fuel a s with
      | ok s' =>
        have hs := skipS_sound fuel a s s' hsk
        simp only [hsk] at h
        have ih := runS_sound fuel a p s'
        cases h1 : runS G fuel a p s' with
        | ok r1 k1 =>
          simp only [h1] at h
          by_cases hl : r1.length < s.length
          · simp only [hl, if_true] at h
            exact Many.step a p s s' r1 k1 acc _ hs (ih.1 r1 k1 h1) hl (manyS_sound fuel a p r1 (acc ++ k1) r k h)
          · simp only [hl, if_false, PR.ok.injEq] at h
            rw [← h.1, ← h.2]
            exact Many.stop_stuck a p s s' r1 k1 acc hs (ih.1 r1 k1 h1) hl
        | fail =>
          simp only [h1, PR.ok.injEq] at h
          rw [← h.1, ← h.2]
          exact Many.stop_fail a p s s' acc hs (ih.2 h1)
        | out => simp [h1] at h
      | out => simp [hsk] at h

  theorem skipS_sound : ∀ (fuel : Nat) (a : Bool) (s s' : Str), skipS G fuel a s = .ok s' → Skip G a s s'
    | 0, _, _, _, h => by simp [skipS] at h
    | fuel + 1, a, s, s', h => by
      simp only [skipS] at h
      cases a with
      | true =>
        simp only [if_true, SR.ok.injEq] at h
        rw [← h]; exact Skip.atomic s
      | false =>
        simp only [Bool.false_eq_true, if_false] at h
        cases hr : G.rule? "WHITESPACE" with
        | none =>
          simp only [hr, SR.ok.injEq] at h
          rw [← h]; exact Skip.no_rule s hr
        | some r0 =>
          simp only [hr] at h
          have ih := runS_sound fuel true r0.body s
          cases h1 : runS G fuel true r0.body s with
          | ok rest k =>
            simp only [h1] at h
            by_cases hl : rest.length < s.length
            · simp only [hl, if_true] at h
              exact Skip.step s rest s' r0 k hr (ih.1 rest k h1) hl (skipS_sound fuel false rest s' h)
            · simp only [hl, if_false, SR.ok.injEq] at h
              rw [← h]; exact Skip.stuck s rest r0 k hr (ih.1 rest k h1) hl
          | fail =>
            simp only [h1, SR.ok.injEq] at h
            rw [← h]; exact Skip.stop s r0 hr (ih.2 h1)
          | out => simp [h1] at h
end

/-- **soundness of the executable reference**: what `referenceS` returns is a reading by the grammar -/
theorem referenceS_sound (s : Str) (v : LNarsese) (h : referenceS G s = some v) : Reads G s v := by
  unfold referenceS parseAllS at h
  cases hr : runS G (40 * s.length + 400) false (.ref "narsese") s with
  | ok rest kids =>
    rw [hr] at h
    match rest, kids, h with
    | [], [t], h =>
      simp only [Option.bind_some] at h
      exact ⟨t, (runS_sound G _ false _ s).1 [] [t] hr, h⟩
  | fail => simp [hr] at h
  | out => simp [hr] at h

end Narsese.Peg
