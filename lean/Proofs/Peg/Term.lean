/-
  C11, part 4: `atom`, `statement`, `compound`, `term` — every term of the grammar-side well-formedness
  `gTermOKB`, printed with the ASCII layout, is derived by the README grammar's `term` rule, whatever follows
  (`stopGB`), and the tree has the expected shape.
-/
import Proofs.Peg.Atoms
import Proofs.LRT.Main
set_option autoImplicit false

namespace Narsese.Peg
open LFormat

/-! ### skipping after a term -/

theorem ws_us : wsB '_' = false := by decide +kernel
theorem ac_us : acB '_' = true := by decide +kernel
theorem ln_us : lnB '_' = false := by decide +kernel

theorem stopG_char {c : Char} (cs : Str) (h : (!(c == ' ') && !acB c && !(c == '=') && !wsB c) = true) :
    stopGB (c :: cs) = true := by
  simp only [Bool.and_eq_true, Bool.not_eq_true', beq_eq_false_iff_ne] at h
  have : (c == ' ') = false := beq_eq_false_iff_ne.mpr h.1.1.1
  simp only [stopGB, this, Bool.false_eq_true, if_false, Bool.and_eq_true, Bool.not_eq_true', beq_eq_false_iff_ne]
  exact ⟨⟨h.1.1.2, h.1.2⟩, h.2⟩

theorem stopG_skip {rest : Str} (h : stopGB rest = true) :
    ∃ rest', Skip RG false rest rest' ∧ ∀ c ∈ rest'.head?, c ≠ '_' := by
  cases rest with
  | nil => exact ⟨[], skip_none false noWs_nil, by simp⟩
  | cons c cs =>
    simp only [stopGB] at h
    by_cases hc : c = ' '
    · subst hc
      cases cs with
      | nil => simp at h
      | cons d ds =>
        simp only [beq_self_eq_true, if_true, Bool.and_eq_true, Bool.not_eq_true', beq_eq_false_iff_ne] at h
        exact ⟨d :: ds, skip_space (noWs_cons h.1), by simpa using h.2⟩
    · simp only [beq_iff_eq, hc, if_false, Bool.and_eq_true, Bool.not_eq_true', beq_eq_false_iff_ne] at h
      refine ⟨c :: cs, skip_none false (noWs_cons h.2), ?_⟩
      intro d hd
      simp only [List.head?_cons, Option.mem_def, Option.some.injEq] at hd
      subst hd
      intro e; subst e
      rw [ac_us] at h; exact absurd h.1.1 (by decide)

/-! ### `atom` -/

def atomBody : Peg :=
  .alt (.alt (.plus (.lit ['_'])) (.seq (.ref "atom_prefix") (.ref "atom_content"))) (.ref "atom_content")

theorem rule_atom : RG.rule? "atom" = some { name := "atom", mod := .normal, body := atomBody } := by decide +kernel

def contentTok (name : Str) : PTree := .node "atom_content" name []

def atomKids (pre name : Str) : List PTree :=
  if pre == ['_'] then [] else if pre.isEmpty then [contentTok name] else [.node "atom_prefix" pre [], contentTok name]

theorem gName_head {name : Str} (h : gNameOKB name = true) : ∃ c v, name = c :: v ∧ lnB c = true := by
  cases name with
  | nil => simp [gNameOKB] at h
  | cons c v =>
    simp only [gNameOKB, Bool.and_eq_true] at h
    exact ⟨c, v, rfl, h.1⟩

theorem ev_atom (pre name rest : Str) (h : gAtomOKB pre name = true) (hr : stopGB rest = true) :
    Ev RG false (.ref "atom") (pre ++ name ++ rest) (some (rest, [.node "atom" (pre ++ name) (atomKids pre name)])) := by
  refine ev_ref_tok rule_atom rfl ?_
  unfold atomBody
  by_cases hp : pre = ['_']
  · -- the placeholder
    subst hp
    have hn : name = [] := by simpa [gAtomOKB] using h
    subst hn
    obtain ⟨rest', hsk, hne⟩ := stopG_skip hr
    have hm : Many RG false (.lit ['_']) rest [] (rest, []) :=
      Many.stop_fail false _ rest rest' [] hsk (ev_lit1_fail false '_' rest' (fun c hc e => hne c hc e.symm))
    have := Ev.plus false (.lit ['_']) ('_' :: rest) rest [] _ (ev_lit1_hit false '_' rest) hm
    simpa [atomKids] using Ev.alt_l false _ (.ref "atom_content") _ _ (Ev.alt_l false _ _ _ _ this)
  · have hp' : (pre == ['_']) = false := by simpa using hp
    simp only [gAtomOKB, hp', Bool.false_eq_true, if_false, Bool.and_eq_true] at h
    obtain ⟨⟨hps, hhead⟩, hname⟩ := h
    obtain ⟨c, v, hcv, hc⟩ := gName_head hname
    have hcps : psB c = false := ln_not_ps hc
    have hcac : acB c = true := by simp [acB, hc]
    cases pre with
    | nil =>
      -- a word: `"_"+` and `atom_prefix` fail on the first character of the name
      have hcu : '_' ≠ c := by intro e; rw [← e, ln_us] at hc; exact absurd hc (by decide)
      have h1 : Ev RG false (.plus (.lit ['_'])) ([] ++ name ++ rest) none := by
        subst hcv; exact Ev.plus_fail _ _ _ (ev_lit1_miss false '_' c _ hcu)
      have h2 : Ev RG false (.seq (.ref "atom_prefix") (.ref "atom_content")) ([] ++ name ++ rest) none := by
        subst hcv
        exact Ev.seq_fail _ _ _ _ (ev_atom_prefix_fail _ (by simpa using hcps))
      have h3 := ev_atom_content name rest hname hr
      have := Ev.alt_r false _ _ _ _ (Ev.alt_r false _ _ _ _ h1 h2) (by simpa using h3)
      simpa [atomKids, contentTok] using this
    | cons p ps =>
      simp only [Bool.and_eq_true, Bool.not_eq_true', beq_eq_false_iff_ne] at hhead
      have h1 : Ev RG false (.plus (.lit ['_'])) ((p :: ps) ++ name ++ rest) none :=
        Ev.plus_fail _ _ _ (ev_lit1_miss false '_' p _ (fun e => hhead.1 e.symm))
      have h2 := ev_atom_prefix (p :: ps) (name ++ rest) (by simp) hps (by subst hcv; simpa using hcps)
      have hsk : Skip RG false (name ++ rest) (name ++ rest) := by
        subst hcv; exact skip_none false (noWs_cons (ac_not_ws hcac))
      have h3 := ev_atom_content name rest hname hr
      have h23 := ev_seq_ok h2 hsk h3
      have := Ev.alt_l false _ (.ref "atom_content") _ _ (Ev.alt_r false _ _ _ _ h1 (by simpa using h23))
      have e : ((p :: ps) == ['_']) = false := hp'
      simpa [atomKids, contentTok, e] using this

/-- the first character of an atom's text -/
theorem atom_head {pre name : Str} (h : gAtomOKB pre name = true) :
    ∃ c cs, pre ++ name = c :: cs ∧ wsB c = false ∧ openerB c = false := by
  by_cases hp : pre = ['_']
  · subst hp; exact ⟨'_', name, rfl, ws_us, by decide⟩
  · have hp' : (pre == ['_']) = false := by simpa using hp
    simp only [gAtomOKB, hp', Bool.false_eq_true, if_false, Bool.and_eq_true] at h
    obtain ⟨⟨hps, hhead⟩, hname⟩ := h
    cases pre with
    | nil =>
      obtain ⟨c, v, hcv, hc⟩ := gName_head hname
      refine ⟨c, v, by simpa using hcv, ln_not_ws hc, ?_⟩
      have hcps := ln_not_ps hc
      simp only [openerB, Bool.or_eq_false_iff, beq_eq_false_iff_ne]
      refine ⟨⟨⟨?_, ?_⟩, ?_⟩, ?_⟩ <;> (intro e; subst e; revert hcps; decide +kernel)
    | cons p ps =>
      simp only [List.all_cons, Bool.and_eq_true, Bool.not_eq_true'] at hps hhead
      exact ⟨p, ps ++ name, rfl, ps_not_ws hps.1, hhead.2⟩

/-! ### layout, well-formedness, trees -/

/-- the fixed characters of the grammar, as the formatter lays them out -/
structure GLayout (L : LFormat) : Prop where
  compL : L.compL = ['(']
  compR : L.compR = [')']
  separator : L.separator = [',']
  stmtL : L.stmtL = ['<']
  stmtR : L.stmtR = ['>']
  spaceTerms : L.spaceTerms = [' ']
  spaceItems : L.spaceItems = [' ']
  truthL : L.truthL = ['%']
  truthR : L.truthR = ['%']
  truthSep : L.truthSep = [';']
  budgetL : L.budgetL = ['$']
  budgetR : L.budgetR = ['$']
  budgetSep : L.budgetSep = [';']


mutual
  /-- the tree the grammar derives for a term -/
  def termTree (L : LFormat) : LTerm → PTree
    | .atom pre name => .node "term" (pre ++ name) [.node "atom" (pre ++ name) (atomKids pre name)]
    | .compound conn ts =>
      .node "term" (L.fmtTerm (.compound conn ts))
        [.node "compound" (L.fmtTerm (.compound conn ts)) (.node "connecter" conn [] :: termTrees L ts)]
    | .set l ts r =>
      .node "term" (L.fmtTerm (.set l ts r)) [.node "compound" (L.fmtTerm (.set l ts r)) (termTrees L ts)]
    | .stmt cop s p =>
      .node "term" (L.fmtTerm (.stmt cop s p))
        [.node "statement" (L.fmtTerm (.stmt cop s p)) [termTree L s, .node "copula" cop [], termTree L p]]
  def termTrees (L : LFormat) : LTerms → List PTree
    | .nil => []
    | .cons t ts => termTree L t :: termTrees L ts
end

def sepSp : Str := [',', ' ']

section
variable {L : LFormat} (hL : GLayout L)
include hL

theorem gtxt_compound (conn : Str) (t : LTerm) (ts : LTerms) (rest : Str) :
    L.fmtTerm (.compound conn (.cons t ts)) ++ rest =
      '(' :: (conn ++ ',' :: ' ' :: (L.fmtTerm t ++ (tailL sepSp (fmtTerms L ts) ++ ')' :: rest))) := by
  simp only [fmtTerm, fmtTerms, joinComponents, joinWith_cons_tail, hL.compL, hL.compR, hL.separator, hL.spaceTerms,
    sepSp, List.append_assoc, List.cons_append, List.nil_append]

theorem gtxt_set (l r : Str) (t : LTerm) (ts : LTerms) (rest : Str) :
    L.fmtTerm (.set l (.cons t ts) r) ++ rest =
      l ++ (L.fmtTerm t ++ (tailL sepSp (fmtTerms L ts) ++ (r ++ rest))) := by
  simp only [fmtTerm, fmtTerms, joinComponents, joinWith_cons_tail, hL.separator, hL.spaceTerms,
    sepSp, List.append_assoc, List.cons_append, List.nil_append]

theorem gtxt_stmt (cop : Str) (s p : LTerm) (rest : Str) :
    L.fmtTerm (.stmt cop s p) ++ rest =
      '<' :: (L.fmtTerm s ++ ' ' :: (cop ++ ' ' :: (L.fmtTerm p ++ '>' :: rest))) := by
  simp only [fmtTerm, hL.stmtL, hL.stmtR, hL.spaceTerms, List.append_assoc, List.cons_append, List.nil_append]

/-- the first character of a term's text: not a blank -/
theorem term_head : ∀ (t : LTerm), gTermOKB t = true → ∃ c cs, L.fmtTerm t = c :: cs ∧ wsB c = false
  | .atom pre name, h => by
    obtain ⟨c, cs, e, hw, _⟩ := atom_head (by simpa [gTermOKB] using h)
    exact ⟨c, cs, by simpa [fmtTerm] using e, hw⟩
  | .compound conn ts, _ => ⟨'(', _, by simp only [fmtTerm, hL.compL, List.cons_append, List.nil_append]; rfl, by decide +kernel⟩
  | .set l ts r, h => by
    simp only [gTermOKB, Bool.and_eq_true, Bool.or_eq_true, beq_iff_eq] at h
    rcases h.1.1 with ⟨e1, _⟩ | ⟨e1, _⟩
    · exact ⟨'{', _, by simp only [fmtTerm, e1, List.cons_append, List.nil_append]; rfl, by decide +kernel⟩
    · exact ⟨'[', _, by simp only [fmtTerm, e1, List.cons_append, List.nil_append]; rfl, by decide +kernel⟩
  | .stmt cop s p, _ => ⟨'<', _, by simp only [fmtTerm, hL.stmtL, List.cons_append, List.nil_append]; rfl, by decide +kernel⟩

theorem term_noWs (t : LTerm) (h : gTermOKB t = true) (rest : Str) : NoWs (L.fmtTerm t ++ rest) := by
  obtain ⟨c, cs, e, hw⟩ := term_head hL t h
  rw [e]; exact noWs_cons hw

end

/-! ### the rules -/

def statementBody : Peg :=
  .seq (.seq (.seq (.seq (.lit ['<']) (.ref "term")) (.ref "copula")) (.ref "term")) (.lit ['>'])

theorem rule_statement :
    RG.rule? "statement" = some { name := "statement", mod := .normal, body := statementBody } := by decide +kernel

def tailBody : Peg := .star (.seq (.lit [',']) (.ref "term"))

def compoundBody : Peg :=
  .alt (.alt (.seq (.seq (.seq (.seq (.seq (.lit ['(']) (.ref "connecter")) (.lit [','])) (.ref "term")) tailBody) (.lit [')']))
             (.seq (.seq (.seq (.lit ['{']) (.ref "term")) tailBody) (.lit ['}'])))
       (.seq (.seq (.seq (.lit ['[']) (.ref "term")) tailBody) (.lit [']']))

theorem rule_compound :
    RG.rule? "compound" = some { name := "compound", mod := .normal, body := compoundBody } := by decide +kernel

def termBody : Peg := .alt (.alt (.ref "statement") (.ref "compound")) (.ref "atom")

theorem rule_term : RG.rule? "term" = some { name := "term", mod := .normal, body := termBody } := by decide +kernel

/-- `statement` fails on anything that does not begin with `<` -/
theorem statement_fail (s : Str) (h : ∀ c ∈ s.head?, '<' ≠ c) : Ev RG false (.ref "statement") s none :=
  ev_ref_no rule_statement
    (Ev.seq_fail _ _ _ _ (Ev.seq_fail _ _ _ _ (Ev.seq_fail _ _ _ _ (Ev.seq_fail _ _ _ _ (ev_lit1_fail false '<' s h)))))

/-- `compound` fails on anything that does not begin with `(`, `{` or `[` -/
theorem compound_fail (s : Str) (h : ∀ c ∈ s.head?, '(' ≠ c ∧ '{' ≠ c ∧ '[' ≠ c) : Ev RG false (.ref "compound") s none := by
  refine ev_ref_no rule_compound ?_
  refine Ev.alt_r _ _ _ _ _ (Ev.alt_r _ _ _ _ _ ?_ ?_) ?_
  · exact Ev.seq_fail _ _ _ _ (Ev.seq_fail _ _ _ _ (Ev.seq_fail _ _ _ _ (Ev.seq_fail _ _ _ _ (Ev.seq_fail _ _ _ _
      (ev_lit1_fail false '(' s (fun c hc => (h c hc).1))))))
  · exact Ev.seq_fail _ _ _ _ (Ev.seq_fail _ _ _ _ (Ev.seq_fail _ _ _ _ (ev_lit1_fail false '{' s (fun c hc => (h c hc).2.1))))
  · exact Ev.seq_fail _ _ _ _ (Ev.seq_fail _ _ _ _ (Ev.seq_fail _ _ _ _ (ev_lit1_fail false '[' s (fun c hc => (h c hc).2.2))))

/-- what closes a component list -/
def closeB (rest : Str) : Bool :=
  match rest with
  | c :: _ => c == ')' || c == '}' || c == ']'
  | [] => false

theorem close_facts {rest : Str} (h : closeB rest = true) :
    NoWs rest ∧ stopGB rest = true ∧ (∀ c ∈ rest.head?, ',' ≠ c) := by
  cases rest with
  | nil => simp [closeB] at h
  | cons c cs =>
    simp only [closeB, Bool.or_eq_true, beq_iff_eq] at h
    rcases h with (h | h) | h <;> subst h <;>
      exact ⟨noWs_cons (by decide +kernel), stopG_char _ (by decide +kernel), by simp⟩

theorem stopG_tail (xs : List Str) {rest : Str} (h : closeB rest = true) : stopGB (tailL sepSp xs ++ rest) = true := by
  cases xs with
  | nil => simpa [tailL] using (close_facts h).2.1
  | cons x xs =>
    simp only [tailL, sepSp, List.cons_append, List.nil_append, List.append_assoc]
    exact stopG_char _ (by decide +kernel)

theorem noWs_tail (xs : List Str) {rest : Str} (h : closeB rest = true) : NoWs (tailL sepSp xs ++ rest) := by
  cases xs with
  | nil => simpa [tailL] using (close_facts h).1
  | cons x xs =>
    simp only [tailL, sepSp, List.cons_append, List.nil_append, List.append_assoc]
    exact noWs_cons (by decide +kernel)

theorem stopG_gt (rest : Str) : stopGB ('>' :: rest) = true := stopG_char _ (by decide +kernel)

theorem stopG_cop {cop : Str} (h : gCopOKB cop = true) (rest : Str) : stopGB (' ' :: (cop ++ rest)) = true := by
  cases cop with
  | nil => simp [gCopOKB] at h
  | cons d ds =>
    simp only [gCopOKB, Bool.and_eq_true] at h
    simpa [stopGB] using h.2

theorem noWs_cop {cop : Str} (h : gCopOKB cop = true) (rest : Str) : NoWs (cop ++ rest) := by
  cases cop with
  | nil => simp [gCopOKB] at h
  | cons d ds =>
    simp only [gCopOKB, Bool.and_eq_true, Bool.not_eq_true'] at h
    exact noWs_cons h.2.1

section
variable {L : LFormat} (hL : GLayout L)
include hL

mutual
  /-- **terms**: the grammar's `term` rule derives the formatter's text of every well-formed term -/
  theorem ev_term : ∀ (t : LTerm), gTermOKB t = true → ∀ (rest : Str), stopGB rest = true →
      Ev RG false (.ref "term") (L.fmtTerm t ++ rest) (some (rest, [termTree L t]))
    | .atom pre name, h, rest, hr => by
      have ha : gAtomOKB pre name = true := by simpa [gTermOKB] using h
      obtain ⟨c, cs, e, _, hop⟩ := atom_head ha
      have hhead : ∀ d ∈ (pre ++ name ++ rest).head?, d = c := by
        intro d hd; rw [e] at hd; simpa using hd.symm
      simp only [openerB, Bool.or_eq_false_iff, beq_eq_false_iff_ne] at hop
      have h1 := statement_fail (pre ++ name ++ rest) (fun d hd => by rw [hhead d hd]; exact fun e => hop.1.1.1 e.symm)
      have h2 := compound_fail (pre ++ name ++ rest) (fun d hd => by
        rw [hhead d hd]; exact ⟨fun e => hop.1.1.2 e.symm, fun e => hop.1.2 e.symm, fun e => hop.2 e.symm⟩)
      have h3 := ev_atom pre name rest ha hr
      have := ev_ref_tok (X := pre ++ name) rule_term rfl (Ev.alt_r false _ _ _ _ (Ev.alt_r false _ _ _ _ h1 h2) h3)
      simpa [fmtTerm, termTree] using this
    | .compound conn .nil, h, _, _ => by simp [gTermOKB, isNil] at h
    | .compound conn (.cons t ts), h, rest, hr => by
      simp only [gTermOKB, gTermsOKB, isNil, Bool.and_eq_true] at h
      obtain ⟨⟨hconn, _⟩, ht, hts⟩ := h
      have hcl : closeB (')' :: rest) = true := by simp [closeB]
      -- the pieces of the text
      have hconn_nows : NoWs (conn ++ ',' :: ' ' :: (L.fmtTerm t ++ (tailL sepSp (fmtTerms L ts) ++ ')' :: rest))) := by
        cases conn with
        | nil => simp [gConnB] at hconn
        | cons c cs =>
          simp only [gConnB, List.all_cons, Bool.and_eq_true] at hconn
          exact noWs_cons (ps_not_ws hconn.2.1.1)
      have h1 := ev_lit1_hit (G := RG) false '('
        (conn ++ ',' :: ' ' :: (L.fmtTerm t ++ (tailL sepSp (fmtTerms L ts) ++ ')' :: rest)))
      have h2 := ev_connecter conn (' ' :: (L.fmtTerm t ++ (tailL sepSp (fmtTerms L ts) ++ ')' :: rest))) hconn
      have h12 := ev_seq_ok h1 (skip_none false hconn_nows) h2
      have h3 := ev_lit1_hit (G := RG) false ',' (' ' :: (L.fmtTerm t ++ (tailL sepSp (fmtTerms L ts) ++ ')' :: rest)))
      have h123 := ev_seq_ok h12 (skip_none false (noWs_cons (by decide +kernel))) h3
      have h4 := ev_term t ht (tailL sepSp (fmtTerms L ts) ++ ')' :: rest) (stopG_tail _ hcl)
      have h1234 := ev_seq_ok h123 (skip_space (term_noWs hL t ht _)) h4
      have h5 := Ev.star false _ _ _ (ev_tail ts hts (')' :: rest) hcl [])
      have h12345 := ev_seq_ok h1234 (skip_none false (noWs_tail _ hcl)) h5
      have h6 := ev_lit1_hit (G := RG) false ')' rest
      have hall := ev_seq_ok h12345 (skip_none false (close_facts hcl).1) h6
      have hc : Ev RG false compoundBody (L.fmtTerm (.compound conn (.cons t ts)) ++ rest)
          (some (rest, .node "connecter" conn [] :: termTree L t :: termTrees L ts)) := by
        rw [gtxt_compound hL]
        have := Ev.alt_l false _ (.seq (.seq (.seq (.lit ['[']) (.ref "term")) tailBody) (.lit [']'])) _ _
          (Ev.alt_l false _ (.seq (.seq (.seq (.lit ['{']) (.ref "term")) tailBody) (.lit ['}'])) _ _ hall)
        simpa [compoundBody, tailBody] using this
      have hcomp := ev_ref_tok rule_compound rfl hc
      have hst := statement_fail (L.fmtTerm (.compound conn (.cons t ts)) ++ rest) (by rw [gtxt_compound hL]; simp)
      have := ev_ref_tok rule_term rfl (Ev.alt_l false _ (.ref "atom") _ _ (Ev.alt_r false _ _ _ _ hst hcomp))
      simpa [termTree, termTrees] using this
    | .set l .nil r, h, _, _ => by simp [gTermOKB, isNil] at h
    | .set l (.cons t ts) r, h, rest, hr => by
      simp only [gTermOKB, gTermsOKB, isNil, Bool.and_eq_true, Bool.or_eq_true, beq_iff_eq] at h
      obtain ⟨⟨hlr, _⟩, ht, hts⟩ := h
      rcases hlr with ⟨el, er⟩ | ⟨el, er⟩
      · subst el er
        have hcl : closeB ('}' :: rest) = true := by simp [closeB]
        have h1 := ev_lit1_hit (G := RG) false '{' (L.fmtTerm t ++ (tailL sepSp (fmtTerms L ts) ++ '}' :: rest))
        have h2 := ev_term t ht (tailL sepSp (fmtTerms L ts) ++ '}' :: rest) (stopG_tail _ hcl)
        have h12 := ev_seq_ok h1 (skip_none false (term_noWs hL t ht _)) h2
        have h3 := Ev.star false _ _ _ (ev_tail ts hts ('}' :: rest) hcl [])
        have h123 := ev_seq_ok h12 (skip_none false (noWs_tail _ hcl)) h3
        have hall := ev_seq_ok h123 (skip_none false (close_facts hcl).1) (ev_lit1_hit (G := RG) false '}' rest)
        have hc : Ev RG false compoundBody (L.fmtTerm (.set ['{'] (.cons t ts) ['}']) ++ rest)
            (some (rest, termTree L t :: termTrees L ts)) := by
          rw [gtxt_set hL]
          have hf : Ev RG false (.seq (.seq (.seq (.seq (.seq (.lit ['(']) (.ref "connecter")) (.lit [','])) (.ref "term")) tailBody) (.lit [')']))
              ('{' :: (L.fmtTerm t ++ (tailL sepSp (fmtTerms L ts) ++ '}' :: rest))) none :=
            Ev.seq_fail _ _ _ _ (Ev.seq_fail _ _ _ _ (Ev.seq_fail _ _ _ _ (Ev.seq_fail _ _ _ _ (Ev.seq_fail _ _ _ _
              (ev_lit1_miss false '(' '{' _ (by decide))))))
          have := Ev.alt_l false _ (.seq (.seq (.seq (.lit ['[']) (.ref "term")) tailBody) (.lit [']'])) _ _
            (Ev.alt_r false _ _ _ _ hf hall)
          simpa [compoundBody, tailBody] using this
        have hcomp := ev_ref_tok rule_compound rfl hc
        have hst := statement_fail (L.fmtTerm (.set ['{'] (.cons t ts) ['}']) ++ rest) (by rw [gtxt_set hL]; simp)
        have := ev_ref_tok rule_term rfl (Ev.alt_l false _ (.ref "atom") _ _ (Ev.alt_r false _ _ _ _ hst hcomp))
        simpa [termTree, termTrees] using this
      · subst el er
        have hcl : closeB (']' :: rest) = true := by simp [closeB]
        have h1 := ev_lit1_hit (G := RG) false '[' (L.fmtTerm t ++ (tailL sepSp (fmtTerms L ts) ++ ']' :: rest))
        have h2 := ev_term t ht (tailL sepSp (fmtTerms L ts) ++ ']' :: rest) (stopG_tail _ hcl)
        have h12 := ev_seq_ok h1 (skip_none false (term_noWs hL t ht _)) h2
        have h3 := Ev.star false _ _ _ (ev_tail ts hts (']' :: rest) hcl [])
        have h123 := ev_seq_ok h12 (skip_none false (noWs_tail _ hcl)) h3
        have hall := ev_seq_ok h123 (skip_none false (close_facts hcl).1) (ev_lit1_hit (G := RG) false ']' rest)
        have hc : Ev RG false compoundBody (L.fmtTerm (.set ['['] (.cons t ts) [']']) ++ rest)
            (some (rest, termTree L t :: termTrees L ts)) := by
          rw [gtxt_set hL]
          have hf1 : Ev RG false (.seq (.seq (.seq (.seq (.seq (.lit ['(']) (.ref "connecter")) (.lit [','])) (.ref "term")) tailBody) (.lit [')']))
              ('[' :: (L.fmtTerm t ++ (tailL sepSp (fmtTerms L ts) ++ ']' :: rest))) none :=
            Ev.seq_fail _ _ _ _ (Ev.seq_fail _ _ _ _ (Ev.seq_fail _ _ _ _ (Ev.seq_fail _ _ _ _ (Ev.seq_fail _ _ _ _
              (ev_lit1_miss false '(' '[' _ (by decide))))))
          have hf2 : Ev RG false (.seq (.seq (.seq (.lit ['{']) (.ref "term")) tailBody) (.lit ['}']))
              ('[' :: (L.fmtTerm t ++ (tailL sepSp (fmtTerms L ts) ++ ']' :: rest))) none :=
            Ev.seq_fail _ _ _ _ (Ev.seq_fail _ _ _ _ (Ev.seq_fail _ _ _ _ (ev_lit1_miss false '{' '[' _ (by decide))))
          have := Ev.alt_r false _ _ _ _ (Ev.alt_r false _ _ _ _ hf1 hf2) hall
          simpa [compoundBody, tailBody] using this
        have hcomp := ev_ref_tok rule_compound rfl hc
        have hst := statement_fail (L.fmtTerm (.set ['['] (.cons t ts) [']']) ++ rest) (by rw [gtxt_set hL]; simp)
        have := ev_ref_tok rule_term rfl (Ev.alt_l false _ (.ref "atom") _ _ (Ev.alt_r false _ _ _ _ hst hcomp))
        simpa [termTree, termTrees] using this
    | .stmt cop s p, h, rest, hr => by
      simp only [gTermOKB, Bool.and_eq_true] at h
      obtain ⟨⟨hcop, hs⟩, hp⟩ := h
      have hcl : cop.length = 3 := by simp only [gCopOKB, Bool.and_eq_true, beq_iff_eq] at hcop; exact hcop.1.1
      have hcg : gcopB cop = true := by simp only [gCopOKB, Bool.and_eq_true] at hcop; exact hcop.1.2
      have h1 := ev_lit1_hit (G := RG) false '<' (L.fmtTerm s ++ ' ' :: (cop ++ ' ' :: (L.fmtTerm p ++ '>' :: rest)))
      have h2 := ev_term s hs (' ' :: (cop ++ ' ' :: (L.fmtTerm p ++ '>' :: rest))) (stopG_cop hcop _)
      have h12 := ev_seq_ok h1 (skip_none false (term_noWs hL s hs _)) h2
      have h3 := ev_copula_tok cop (' ' :: (L.fmtTerm p ++ '>' :: rest)) hcl hcg
      have h123 := ev_seq_ok h12 (skip_space (noWs_cop hcop _)) h3
      have h4 := ev_term p hp ('>' :: rest) (stopG_gt rest)
      have h1234 := ev_seq_ok h123 (skip_space (term_noWs hL p hp _)) h4
      have hall := ev_seq_ok h1234 (skip_none false (noWs_cons (by decide +kernel))) (ev_lit1_hit (G := RG) false '>' rest)
      have hc : Ev RG false statementBody (L.fmtTerm (.stmt cop s p) ++ rest)
          (some (rest, [termTree L s, .node "copula" cop [], termTree L p])) := by
        rw [gtxt_stmt hL]
        simpa [statementBody] using hall
      have hstmt := ev_ref_tok rule_statement rfl hc
      have := ev_ref_tok rule_term rfl (Ev.alt_l false _ (.ref "atom") _ _ (Ev.alt_l false _ (.ref "compound") _ _ hstmt))
      simpa [termTree] using this

  /-- the `("," ~ term)*` loop over the remaining components -/
  theorem ev_tail : ∀ (ts : LTerms), gTermsOKB ts = true → ∀ (rest : Str), closeB rest = true → ∀ (acc : List PTree),
      Many RG false (.seq (.lit [',']) (.ref "term")) (tailL sepSp (fmtTerms L ts) ++ rest) acc
        (rest, acc ++ termTrees L ts)
    | .nil, _, rest, hcl, acc => by
      have hf := close_facts hcl
      have := Many.stop_fail false (.seq (.lit [',']) (.ref "term")) rest rest acc (skip_none false hf.1)
        (Ev.seq_fail _ _ _ _ (ev_lit1_fail false ',' rest hf.2.2))
      simpa [fmtTerms, tailL, termTrees] using this
    | .cons t ts, h, rest, hcl, acc => by
      simp only [gTermsOKB, Bool.and_eq_true] at h
      have e : tailL sepSp (fmtTerms L (.cons t ts)) ++ rest =
          ',' :: ' ' :: (L.fmtTerm t ++ (tailL sepSp (fmtTerms L ts) ++ rest)) := by
        simp only [fmtTerms, tailL, sepSp, List.append_assoc, List.cons_append, List.nil_append]
      rw [e]
      have h1 := ev_lit1_hit (G := RG) false ',' (' ' :: (L.fmtTerm t ++ (tailL sepSp (fmtTerms L ts) ++ rest)))
      have h2 := ev_term t h.1 (tailL sepSp (fmtTerms L ts) ++ rest) (stopG_tail _ hcl)
      have h12 := ev_seq_ok h1 (skip_space (term_noWs hL t h.1 _)) h2
      have ih := ev_tail ts h.2 rest hcl (acc ++ ([] ++ [termTree L t]))
      have := Many.step false _ _ _ _ _ acc _ (skip_none false (noWs_cons (by decide +kernel))) h12
        (by simp only [List.length_cons, List.length_append]; omega) ih
      simpa [termTrees] using this
end

end

end Narsese.Peg
