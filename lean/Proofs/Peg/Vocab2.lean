/-
  C11, part 11: the remaining grammar-side conditions follow from the lexical well-formedness of C02 as well —
  the stamp shape (`gStampB`, from `stampOKB` and the format's stamp brackets) and the `$` condition
  (`dollarOKB`). What is left as a hypothesis on the value is only the restriction on NAMES (`gNamesB`).
-/
import Proofs.Peg.Vocab
set_option autoImplicit false

namespace Narsese.Peg
open LFormat

/-! ### stamps -/

/-- one stamp bracket pair of the format, as the grammar's `stamp` rule needs it -/
def stampBracketB (p : Str × Str) : Bool :=
  if p.1.isEmpty then gStampB p.2 && !p.2.isEmpty
  else p.1.head? == some ':' && (p.1.drop 1).all stampCh && !(p.1.drop 1).isEmpty && p.2.getLast? == some ':' &&
    p.2.dropLast.all stampCh

def stampFactsB (L : LFormat) : Bool :=
  L.stampBrackets.all stampBracketB && disjointB L.isStampTbl [(58, 58)] && disjointB L.isStampTbl [(36, 36)] &&
  disjointB L.isStampTbl Gen.clsWhite

theorem stampCh_of_tbl {L : LFormat} (h : stampFactsB L = true) {c : Char} (hc : inRanges L.isStampTbl c = true) :
    stampCh c = true := by
  simp only [stampFactsB, Bool.and_eq_true] at h
  obtain ⟨⟨⟨_, h1⟩, h2⟩, h3⟩ := h
  have a1 := disjoint_ranges h1 hc
  have a2 := disjoint_ranges h2 hc
  have a3 : wsB c = false := disjoint_ranges h3 hc
  simp only [stampCh, Bool.and_eq_true, Bool.not_eq_true', beq_eq_false_iff_ne]
  refine ⟨⟨?_, a3⟩, ?_⟩
  · intro e; subst e; revert a1; decide
  · intro e; subst e; revert a2; decide

theorem gStamp_mk (mid : Str) (hne : mid ≠ []) (hm : mid.all stampCh = true) : gStampB (stampTxt mid) = true := by
  have e : stampMidOf (stampTxt mid) = mid := by
    simp only [stampMidOf, stampTxt, List.drop_succ_cons, List.drop_zero, List.dropLast_concat]
  simp only [gStampB, e, Bool.or_eq_true, Bool.and_eq_true, beq_iff_eq, Bool.not_eq_true']
  exact Or.inr ⟨⟨trivial, by simpa using hne⟩, hm⟩

theorem gStamp_of_ok {L : LFormat} (h : stampFactsB L = true) {st : Str} (hs : StampOK L st) : gStampB st = true := by
  obtain ⟨j, l, r, content, hj, hst, _, hcont, hl0, _⟩ := hs
  have hb : stampBracketB (l, r) = true := by
    have h' := h
    simp only [stampFactsB, Bool.and_eq_true, List.all_eq_true] at h'
    exact h'.1.1.1 (l, r) (List.mem_of_getElem? hj)
  simp only [stampBracketB] at hb
  by_cases hl : l = []
  · subst hl
    have hc := hl0 rfl
    subst hc
    simp only [List.isEmpty_nil, if_true, Bool.and_eq_true] at hb
    simpa [hst] using hb.1
  · have hl' : l.isEmpty = false := by simpa using hl
    simp only [hl', Bool.false_eq_true, if_false, Bool.and_eq_true, beq_iff_eq, Bool.not_eq_true'] at hb
    obtain ⟨⟨⟨⟨h1, h2⟩, h3⟩, h4⟩, h5⟩ := hb
    obtain ⟨lt, elt⟩ := List.head?_eq_some_iff.mp h1
    obtain ⟨r', er⟩ := List.getLast?_eq_some_iff.mp h4
    subst elt er
    simp only [List.drop_succ_cons, List.drop_zero] at h2 h3
    simp only [List.dropLast_concat] at h5
    have e : st = stampTxt (lt ++ content ++ r') := by
      simp only [hst, stampTxt, List.cons_append, List.append_assoc]
    rw [e]
    refine gStamp_mk _ ?_ ?_
    · intro e0
      have : lt = [] := by
        cases lt with
        | nil => rfl
        | cons a b => simp at e0
      exact absurd this (by simpa using h3)
    · simp only [List.all_append, Bool.and_eq_true]
      refine ⟨⟨h2, ?_⟩, h5⟩
      rw [List.all_eq_true]
      intro c hc
      exact stampCh_of_tbl h (hcont c hc)

/-! ### `$` -/

theorem dollar_of {txt : Str} (h : ∀ c w, txt = c :: w → c = '$' → '$' ∉ w) : dollarOKB txt = true := by
  cases txt with
  | nil => rfl
  | cons c w =>
    simp only [dollarOKB, Bool.or_eq_true, Bool.not_eq_true', beq_eq_false_iff_ne]
    by_cases hc : c = '$'
    · exact Or.inr (by simpa using h c w rfl hc)
    · exact Or.inl hc

theorem mem_joinWith {sep : Str} {c : Char} : ∀ {xs : List Str}, c ∈ joinWith sep xs → c ∈ sep ∨ ∃ x ∈ xs, c ∈ x
  | [], h => by simp [joinWith] at h
  | [x], h => Or.inr ⟨x, by simp, by simpa [joinWith] using h⟩
  | x :: y :: ys, h => by
    simp only [joinWith, List.mem_append] at h
    rcases h with (h | h) | h
    · exact Or.inr ⟨x, by simp, h⟩
    · exact Or.inl h
    · rcases mem_joinWith h with h' | ⟨z, hz, hc⟩
      · exact Or.inl h'
      · exact Or.inr ⟨z, by simp [hz], hc⟩

theorem dd_dollar : ddB '$' = false := by decide +kernel
theorem ac_dollar : acB '$' = false := by decide +kernel
theorem ln_dollar : lnB '$' = false := by decide +kernel

theorem no_dollar_num {x : Str} (h : gNumB x = true) : '$' ∉ x := by
  intro hm
  simp only [gNumB, Bool.and_eq_true, List.all_eq_true] at h
  have := h.2 _ hm
  rw [dd_dollar] at this; exact absurd this (by decide)

theorem no_dollar_tt {tr : List Str} (h : tr.all gNumB = true) : '$' ∉ ttOf tr := by
  intro hm
  simp only [ttOf] at hm
  split at hm
  · simp at hm
  · simp only [truthTxt, List.mem_cons, List.mem_append, List.mem_nil_iff, or_false] at hm
    rcases hm with hm | hm | hm
    · exact absurd hm (by decide)
    · rcases mem_joinWith hm with h' | ⟨x, hx, hc⟩
      · simp only [semi, List.mem_cons, List.mem_nil_iff, or_false] at h'; exact absurd h' (by decide)
      · exact no_dollar_num (List.all_eq_true.mp h x hx) hc
    · exact absurd hm (by decide)

theorem no_dollar_stamp {st : Str} (h : gStampB st = true) : '$' ∉ st := by
  rcases gStamp_cases h with h0 | ⟨mid, e, _, hm⟩
  · subst h0; simp
  · subst e
    intro hd
    simp only [stampTxt, List.mem_cons, List.mem_append, List.mem_nil_iff, or_false] at hd
    rcases hd with hd | hd | hd
    · exact absurd hd (by decide)
    · have := List.all_eq_true.mp hm _ hd
      simp [stampCh] at this
    · exact absurd hd (by decide)

theorem no_dollar_optSp {x : Str} (h : '$' ∉ x) : '$' ∉ optSp x := by
  simp only [optSp]
  split
  · simp
  · intro hm
    simp only [List.mem_cons] at hm
    rcases hm with hm | hm
    · exact absurd hm (by decide)
    · exact h hm

/-- prefixes and punctuation marks of the format contain no `$` beyond a leading one -/
def dollarFactsB (L : LFormat) : Bool :=
  L.atomPrefixes.all (fun p => !(p.drop 1).contains '$') && L.punctuations.all (fun p => !p.contains '$')

/-- the first character of a term's text is `$` only for an atom whose prefix begins with `$` -/
theorem term_dollar {L : LFormat} (hL : GLayout L) (hD : dollarFactsB L = true) (t : LTerm) (hw : wfLT L t = true)
    (hg : gTermOKB t = true) (rest : Str) (hrest : '$' ∉ rest) :
    dollarOKB (L.fmtTerm t ++ rest) = true := by
  refine dollar_of ?_
  intro c w e hc
  subst hc
  cases t with
  | atom pre name =>
    simp only [fmtTerm] at e
    have ha : gAtomOKB pre name = true := by simpa [gTermOKB] using hg
    simp only [wfLT, lAtomOK, Bool.and_eq_true, List.any_eq_true, List.mem_range, beq_iff_eq] at hw
    obtain ⟨j, _, hj, _⟩ := hw.1.1.1
    have hmem := List.mem_of_getElem? hj
    simp only [dollarFactsB, Bool.and_eq_true, List.all_eq_true, Bool.not_eq_true'] at hD
    have hpd := hD.1 pre hmem
    by_cases hp : pre = ['_']
    · subst hp; simp at e
    · have hp' : (pre == ['_']) = false := by simpa using hp
      simp only [gAtomOKB, hp', Bool.false_eq_true, if_false, Bool.and_eq_true] at ha
      obtain ⟨_, hname⟩ := ha
      have hnm : '$' ∉ name := by
        intro hm
        simp only [gNameOKB, tailOKB, Bool.and_eq_true, List.all_eq_true] at hname
        have := hname.2.1.1 _ hm
        rw [ac_dollar] at this; exact absurd this (by decide)
      cases pre with
      | nil =>
        obtain ⟨d, v, hdv, hd⟩ := gName_head hname
        subst hdv
        simp only [List.nil_append, List.cons_append, List.cons.injEq] at e
        rw [e.1, ln_dollar] at hd; exact absurd hd (by decide)
      | cons p ps =>
        simp only [List.cons_append, List.cons.injEq] at e
        obtain ⟨_, e2⟩ := e
        rw [← e2]
        simp only [List.drop_succ_cons, List.drop_zero, List.contains_eq_mem, decide_eq_false_iff_not] at hpd
        simp only [List.mem_append, not_or]
        exact ⟨⟨hpd, hnm⟩, hrest⟩
  | compound conn ts =>
    simp only [fmtTerm, hL.compL, List.cons_append, List.nil_append, List.append_assoc, List.cons.injEq] at e
    exact absurd e.1 (by decide)
  | set l ts r =>
    simp only [gTermOKB, Bool.and_eq_true, Bool.or_eq_true, beq_iff_eq] at hg
    rcases hg.1.1 with ⟨el, _⟩ | ⟨el, _⟩ <;> subst el <;>
      (simp only [fmtTerm, List.cons_append, List.nil_append, List.append_assoc, List.cons.injEq] at e
       exact absurd e.1 (by decide))
  | stmt cop s p =>
    simp only [fmtTerm, hL.stmtL, List.cons_append, List.nil_append, List.append_assoc, List.cons.injEq] at e
    exact absurd e.1 (by decide)

/-! ### from the hypotheses of C02 and the names alone -/

def vocabFacts2B (L : LFormat) : Bool := vocabFactsB L && stampFactsB L && dollarFactsB L

/-- the names of the value's term -/
def gNamesN : LNarsese → Bool
  | .term t => gNamesB t
  | .sentence s => gNamesB s.term
  | .task k => gNamesB k.sentence.term

section
variable {L : LFormat} (hL : GLayout L) (hV : vocabFacts2B L = true)
include hL hV

theorem sent_stamp (s : LSentence) (hw : sentOKB L s = true) : gStampB s.stamp = true := by
  have hS : stampFactsB L = true := by simp only [vocabFacts2B, Bool.and_eq_true] at hV; exact hV.1.2
  rcases (sentOK_of_bool hw).2.2.1 with h0 | h
  · rw [h0]; rfl
  · exact gStamp_of_ok hS h

theorem gExtra_of_names (v : LNarsese) (hw : wfLNB L v = true) (hn : gNamesN v = true) : gExtraB L v = true := by
  have hV1 : vocabFactsB L = true := by simp only [vocabFacts2B, Bool.and_eq_true] at hV; exact hV.1.1
  have hD : dollarFactsB L = true := by simp only [vocabFacts2B, Bool.and_eq_true] at hV; exact hV.2
  cases v with
  | term t =>
    simp only [wfLNB, Bool.and_eq_true] at hw
    simp only [gNamesN] at hn
    have hg := gTerm_of_wf hV1 t hw.1.1.1.1 hn
    have := term_dollar hL hD t hw.1.1.1.1 hg [] (by simp)
    simp only [gExtraB, Bool.and_eq_true]
    exact ⟨hn, by simpa using this⟩
  | sentence s =>
    simp only [wfLNB, Bool.and_eq_true] at hw
    simp only [gNamesN] at hn
    have hst := sent_stamp hL hV s hw.1
    have hgs := gSent_of_wf hV1 s hw.1 hn hst
    have hgs' := hgs
    simp only [gSentOKB, Bool.and_eq_true] at hgs'
    obtain ⟨⟨⟨hgt, hp⟩, _⟩, htr⟩ := hgs'
    have hwt : wfLT L s.term = true := by
      have := hw.1; simp only [sentOKB, Bool.and_eq_true] at this; exact this.1.1.1
    have hpm : s.punct ∈ L.punctuations := (sentOK_of_bool hw.1).2.1
    have hpd : '$' ∉ s.punct := by
      simp only [dollarFactsB, Bool.and_eq_true, List.all_eq_true, Bool.not_eq_true', List.contains_eq_mem,
        decide_eq_false_iff_not] at hD
      exact hD.2 _ hpm
    have hrest : '$' ∉ s.punct ++ (optSp s.stamp ++ optSp (ttOf s.truth)) := by
      simp only [List.mem_append, not_or]
      exact ⟨hpd, no_dollar_optSp (no_dollar_stamp hst), no_dollar_optSp (no_dollar_tt htr)⟩
    have := term_dollar hL hD s.term hwt hgt _ hrest
    rw [← gtxt_sentence hL] at this
    simp only [gExtraB, Bool.and_eq_true]
    exact ⟨⟨hn, hst⟩, this⟩
  | task k =>
    simp only [wfLNB, Bool.and_eq_true] at hw
    simp only [gNamesN] at hn
    simp only [gExtraB, Bool.and_eq_true]
    exact ⟨hn, sent_stamp hL hV k.sentence hw.1⟩

end

end Narsese.Peg
