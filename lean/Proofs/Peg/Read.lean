/-
  C11, part 7: reading the derived tree back — `toNarsese (valTree v) = some v`: the tree the grammar derives
  for the formatter's output denotes the value that was printed (same kind, same prefix and name, connecter
  and component order, brackets, copula and operands, punctuation, stamp text, truth and budget entries).
-/
import Proofs.Peg.Whole
set_option autoImplicit false

namespace Narsese.Peg
open LFormat

mutual
  /-- the recursion depth `toTerm` needs on the tree of a term -/
  def need : LTerm → Nat
    | .atom _ _ => 2
    | .compound _ ts => 2 + needs ts
    | .set _ ts _ => 2 + needs ts
    | .stmt _ s p => 2 + max (need s) (need p)
  def needs : LTerms → Nat
    | .nil => 1
    | .cons t ts => 1 + max (need t) (needs ts)
end

section
variable {L : LFormat} (hL : GLayout L)
include hL

mutual
  theorem toTerm_tree : ∀ (t : LTerm), gTermOKB t = true → ∀ (f : Nat), need t ≤ f → toTerm f (termTree L t) = some t
    | .atom pre name, h, f, hf => by
      simp only [need] at hf
      obtain ⟨f, rfl⟩ : ∃ g, f = g + 2 := ⟨f - 2, by omega⟩
      have ha : gAtomOKB pre name = true := by simpa [gTermOKB] using h
      by_cases hp : pre = ['_']
      · subst hp
        have hn : name = [] := by simpa [gAtomOKB] using ha
        subst hn
        simp [termTree, atomKids, toTerm, PTree.rule, PTree.kids, PTree.text]
      · have hp' : (pre == ['_']) = false := by simpa using hp
        cases pre with
        | nil => simp [termTree, atomKids, contentTok, toTerm, PTree.rule, PTree.kids, PTree.text]
        | cons p ps =>
          simp [termTree, atomKids, contentTok, hp', toTerm, PTree.rule, PTree.kids, PTree.text]
    | .compound conn ts, h, f, hf => by
      simp only [need] at hf
      obtain ⟨f, rfl⟩ : ∃ g, f = g + 2 := ⟨f - 2, by omega⟩
      simp only [gTermOKB, Bool.and_eq_true] at h
      have hts := toTerms_trees ts h.2 f (by omega)
      have htx : L.fmtTerm (.compound conn ts) = '(' :: (conn ++ L.separator ++ L.spaceTerms ++
          L.joinComponents (fmtTerms L ts) ++ L.compR) := by
        simp only [fmtTerm, hL.compL, List.cons_append, List.nil_append, List.append_assoc]
      simp [termTree, toTerm, PTree.rule, PTree.kids, PTree.text, htx, hts, LTerms.ofList_toList]
    | .set l ts r, h, f, hf => by
      simp only [need] at hf
      obtain ⟨f, rfl⟩ : ∃ g, f = g + 2 := ⟨f - 2, by omega⟩
      simp only [gTermOKB, Bool.and_eq_true, Bool.or_eq_true, beq_iff_eq] at h
      have hts := toTerms_trees ts h.2 f (by omega)
      rcases h.1.1 with ⟨el, er⟩ | ⟨el, er⟩
      · subst el er
        have htx : L.fmtTerm (.set ['{'] ts ['}']) = '{' :: (L.joinComponents (fmtTerms L ts) ++ ['}']) := by
          simp only [fmtTerm, List.cons_append, List.nil_append]
        simp [termTree, toTerm, PTree.rule, PTree.kids, PTree.text, htx, hts, LTerms.ofList_toList]
      · subst el er
        have htx : L.fmtTerm (.set ['['] ts [']']) = '[' :: (L.joinComponents (fmtTerms L ts) ++ [']']) := by
          simp only [fmtTerm, List.cons_append, List.nil_append]
        simp [termTree, toTerm, PTree.rule, PTree.kids, PTree.text, htx, hts, LTerms.ofList_toList]
    | .stmt cop s p, h, f, hf => by
      simp only [need] at hf
      obtain ⟨f, rfl⟩ : ∃ g, f = g + 2 := ⟨f - 2, by omega⟩
      simp only [gTermOKB, Bool.and_eq_true] at h
      have hs := toTerm_tree s h.1.2 f (by omega)
      have hp := toTerm_tree p h.2 f (by omega)
      simp [termTree, toTerm, PTree.rule, PTree.kids, PTree.text, hs, hp]
  theorem toTerms_trees : ∀ (ts : LTerms), gTermsOKB ts = true → ∀ (f : Nat), needs ts ≤ f →
      toTerms f (termTrees L ts) = some ts.toList
    | .nil, _, f, hf => by
      simp only [needs] at hf
      obtain ⟨f, rfl⟩ : ∃ g, f = g + 1 := ⟨f - 1, by omega⟩
      simp [termTrees, toTerms, LTerms.toList]
    | .cons t ts, h, f, hf => by
      simp only [needs] at hf
      obtain ⟨f, rfl⟩ : ∃ g, f = g + 1 := ⟨f - 1, by omega⟩
      simp only [gTermsOKB, Bool.and_eq_true] at h
      have h1 := toTerm_tree t h.1 f (by omega)
      have h2 := toTerms_trees ts h.2 f (by omega)
      simp [termTrees, toTerms, LTerms.toList, h1, h2]
end

end

/-! ### the depth is bounded by the length of the text -/

theorem term_len_pos (L : LFormat) : ∀ (t : LTerm), gTermOKB t = true → 1 ≤ (L.fmtTerm t).length
  | .atom pre name, h => by
    obtain ⟨c, cs, e, _⟩ := atom_head (by simpa [gTermOKB] using h)
    simp only [fmtTerm, e, List.length_cons]; omega
  | .compound conn ts, h => by
    simp only [gTermOKB, Bool.and_eq_true] at h
    have : 1 ≤ conn.length := by
      cases conn with
      | nil => simp [gConnB] at h
      | cons c cs => simp
    simp only [fmtTerm, List.length_append]; omega
  | .set l ts r, h => by
    simp only [gTermOKB, Bool.and_eq_true, Bool.or_eq_true, beq_iff_eq] at h
    rcases h.1.1 with ⟨el, er⟩ | ⟨el, er⟩ <;> subst el er <;>
      simp only [fmtTerm, List.length_append, List.length_cons] <;> omega
  | .stmt cop s p, h => by
    simp only [gTermOKB, Bool.and_eq_true] at h
    have := term_len_pos L s h.1.2
    simp only [fmtTerm, List.length_append]; omega

section
variable {L : LFormat} (hL : GLayout L)
include hL

mutual
  theorem need_le : ∀ (t : LTerm), gTermOKB t = true → need t ≤ 2 * (L.fmtTerm t).length + 2
    | .atom pre name, h => by
      have := term_len_pos L _ h
      simp only [need]; omega
    | .compound conn .nil, h => by simp [gTermOKB, isNil] at h
    | .compound conn (.cons t ts), h => by
      simp only [gTermOKB, gTermsOKB, Bool.and_eq_true] at h
      have h1 := need_le t h.2.1
      have h2 := tail_le ts h.2.2
      have h3 := term_len_pos L t h.2.1
      have e := congrArg List.length (gtxt_compound hL conn t ts [])
      simp only [List.append_nil, List.length_cons, List.length_append] at e
      simp only [need, needs]
      omega
    | .set l .nil r, h => by simp [gTermOKB, isNil] at h
    | .set l (.cons t ts) r, h => by
      simp only [gTermOKB, gTermsOKB, Bool.and_eq_true] at h
      have h1 := need_le t h.2.1
      have h2 := tail_le ts h.2.2
      have h3 := term_len_pos L t h.2.1
      have hlr : 1 ≤ l.length ∧ 1 ≤ r.length := by
        have := h.1.1
        simp only [Bool.or_eq_true, Bool.and_eq_true, beq_iff_eq] at this
        rcases this with ⟨el, er⟩ | ⟨el, er⟩ <;> subst el er <;> simp
      have e := congrArg List.length (gtxt_set hL l r t ts [])
      simp only [List.append_nil, List.length_append] at e
      simp only [need, needs]
      omega
    | .stmt cop s p, h => by
      simp only [gTermOKB, Bool.and_eq_true] at h
      have h1 := need_le s h.1.2
      have h2 := need_le p h.2
      have h3 := term_len_pos L s h.1.2
      have h4 := term_len_pos L p h.2
      have e := congrArg List.length (gtxt_stmt hL cop s p [])
      simp only [List.append_nil, List.length_cons, List.length_append] at e
      simp only [need]
      omega
  theorem tail_le : ∀ (ts : LTerms), gTermsOKB ts = true →
      needs ts ≤ 2 * (tailL sepSp (fmtTerms L ts)).length + 3
    | .nil, _ => by simp [needs]
    | .cons t ts, h => by
      simp only [gTermsOKB, Bool.and_eq_true] at h
      have h1 := need_le t h.1
      have h2 := tail_le ts h.2
      have h3 := term_len_pos L t h.1
      simp only [needs, fmtTerms, tailL, List.length_append]
      omega
end

end

/-! ### items, sentence, task, value -/

theorem text_node (r : String) (x : Str) (k : List PTree) : (PTree.node r x k).text = x := rfl
theorem rule_node (r : String) (x : Str) (k : List PTree) : (PTree.node r x k).rule = r := rfl
theorem kids_node (r : String) (x : Str) (k : List PTree) : (PTree.node r x k).kids = k := rfl

theorem leafTexts_tbt (xs : List Str) : leafTexts "truth_budget_term" (xs.map tbtTok) = xs := by
  induction xs with
  | nil => simp [leafTexts]
  | cons x xs ih =>
    simp only [leafTexts, List.map_cons, List.filter, tbtTok, rule_node] at ih ⊢
    simp [text_node, ih]

theorem termTree_text (L : LFormat) (t : LTerm) : (termTree L t).text = L.fmtTerm t := by
  cases t <;> simp [termTree, text_node, fmtTerm]

theorem termTree_rule (L : LFormat) (t : LTerm) : (termTree L t).rule = "term" := by
  cases t <;> simp [termTree, rule_node]

theorem termTree_kids (L : LFormat) (t : LTerm) : ∃ k, (termTree L t).kids = [k] := by
  cases t <;> simp [termTree, kids_node]

section
variable {L : LFormat} (hL : GLayout L)
include hL

theorem toTerm_top (t : LTerm) (h : gTermOKB t = true) :
    toTerm (2 * (termTree L t).text.length + 4) (termTree L t) = some t := by
  rw [termTree_text]
  exact toTerm_tree hL t h _ (by have := need_le hL t h; omega)

theorem toSentence_tree (s : LSentence) (h : gSentOKB s = true) : toSentence (sentTree L s) = some s := by
  simp only [gSentOKB, Bool.and_eq_true] at h
  have ht := toTerm_top hL s.term h.1.1.1
  obtain ⟨st, tr⟩ : ∃ st tr, st = s.stamp ∧ tr = s.truth := ⟨_, _, rfl, rfl⟩
  cases hst : s.stamp with
  | nil =>
    cases htr : s.truth with
    | nil =>
      simp [toSentence, sentTree, rule_node, kids_node, text_node, ht, stampToks, truthToks, hst, htr]
      cases s; simp_all
    | cons x xs =>
      simp [toSentence, sentTree, rule_node, kids_node, text_node, ht, stampToks, truthToks, hst, htr]
      have := leafTexts_tbt (x :: xs)
      simp only [List.map_cons] at this
      rw [this]
      cases s; simp_all
  | cons c cs =>
    cases htr : s.truth with
    | nil =>
      simp [toSentence, sentTree, rule_node, kids_node, text_node, ht, stampToks, truthToks, hst, htr]
      cases s; simp_all
    | cons x xs =>
      simp [toSentence, sentTree, rule_node, kids_node, text_node, ht, stampToks, truthToks, hst, htr]
      have := leafTexts_tbt (x :: xs)
      simp only [List.map_cons] at this
      rw [this]
      cases s; simp_all

/-- **the derived tree denotes the printed value** -/
theorem toNarsese_tree (v : LNarsese) (h : gValOKB L v = true) : toNarsese (valTree L v) = some v := by
  cases v with
  | term t =>
    simp only [gValOKB, Bool.and_eq_true] at h
    have ht := toTerm_top hL t h.1
    obtain ⟨k, hk⟩ := termTree_kids L t
    simp [toNarsese, valTree, rule_node, kids_node, termTree_rule, ht]
  | sentence s =>
    simp only [gValOKB, Bool.and_eq_true] at h
    have hs := toSentence_tree hL s h.1
    have hr : (sentTree L s).rule = "sentence" := rfl
    simp [toNarsese, valTree, rule_node, kids_node, hr, hs]
  | task k =>
    simp only [gValOKB, gTaskOKB, Bool.and_eq_true] at h
    have hs := toSentence_tree hL k.sentence h.2
    simp [toNarsese, valTree, taskTree, budgetTree, rule_node, kids_node, hs, leafTexts_tbt]

end

end Narsese.Peg
