/-
  C11, part 12: the K3 class, as a theorem. A word whose name contains the README grammar's first copula
  alternative (`punct_sym "-" punct_sym`, e.g. `_-_`) is NOT a sentence of the grammar: `atom_content` stops at
  the first such place, the remainder is at best taken for a punctuation mark, and the start rule never reaches
  the end of the input — by determinism of the semantics there is then no derivation of the whole string at all.
  So the exclusion `noCopIn` in `gNameOKB` is necessary, not an artefact of the proof.
-/
import Proofs.Peg.Whole
import Proofs.Peg.Det
set_option autoImplicit false

namespace Narsese.Peg

/-- between name characters only the first copula alternative can match -/
theorem gcop_ac {a b : Char} (c : Char) (r : Str) (ha : acB a = true) (hb : acB b = true) :
    gcopB (a :: b :: c :: r) = cop1B (a :: b :: c :: r) := by
  have hae : ('=' == a) = false := by
    rw [beq_eq_false_iff_ne]; intro e; rw [← e, ac_eq] at ha; exact absurd ha (by decide)
  have hal : ('<' == a) = false := by
    rw [beq_eq_false_iff_ne]; intro e; rw [← e, ac_lt] at ha; exact absurd ha (by decide)
  have hbe : ('=' == b) = false := by
    rw [beq_eq_false_iff_ne]; intro e; rw [← e, ac_eq] at hb; exact absurd hb (by decide)
  simp [gcopB, cop1B, hae, hal, hbe]

/-- the loop of `atom_content` stops where a grammar copula begins inside the name -/
theorem many_content_k3 (v1 p : Str) (acc : List PTree) (hv : v1.all acB = true) (hp : gcopB p = true)
    (hfirst : ∀ s, s ≠ [] → s <:+ v1 → gcopB (s ++ p) = false) :
    Many RG true (.seq (.neg (.ref "copula")) (.ref "atom_char")) (v1 ++ p) acc (p, acc) := by
  induction v1 with
  | nil =>
    refine Many.stop_fail true _ p p acc (Skip.atomic _) ?_
    have hc := ev_copula_inA p
    simp only [hp, if_true] at hc
    exact Ev.seq_fail _ _ _ _ (Ev.neg_some _ _ _ _ hc)
  | cons a v ih =>
    simp only [List.all_cons, Bool.and_eq_true] at hv
    have hg := hfirst (a :: v) (by simp) (List.suffix_refl _)
    have hc := ev_copula_inA (a :: v ++ p)
    simp only [hg, Bool.false_eq_true, if_false] at hc
    have hstep := ev_seqA_ok (Ev.neg_none _ _ _ hc) (single_atom_char.hit (v ++ p) hv.1)
    have ih' := ih hv.2 (fun s hs hsuf => hfirst s hs (hsuf.trans (List.suffix_cons a v)))
    exact Many.step true _ (a :: v ++ p) (a :: v ++ p) (v ++ p) ([] ++ []) acc (p, acc) (Skip.atomic _)
      hstep (by simp) (by simpa using ih')

theorem ln_not_opener {c : Char} (hc : lnB c = true) : '<' ≠ c ∧ '(' ≠ c ∧ '{' ≠ c ∧ '[' ≠ c := by
  have hcps := ln_not_ps hc
  refine ⟨?_, ?_, ?_, ?_⟩ <;> (intro e; subst e; revert hcps; decide +kernel)

theorem ws_dash : wsB '-' = false := by decide +kernel

/-- **K3, the class**: `c v1 x - z w` where `c` is a letter / number, `v1` name characters, `x` and `z`
punctuation / symbol characters (inside a name: `_` or `-`), and this is the first place where a grammar copula
begins — no derivation of the whole string from `narsese` exists -/
theorem k3_class (c x z : Char) (v1 w : Str) (hc : lnB c = true) (hv : v1.all acB = true)
    (hx : psB x = true) (hz : psB z = true)
    (hfirst : ∀ s, s ≠ [] → s <:+ v1 → gcopB (s ++ x :: '-' :: z :: w) = false) :
    ∀ val, ¬ Reads RG (c :: v1 ++ x :: '-' :: z :: w) val := by
  have hp : gcopB (x :: '-' :: z :: w) = true := by simp [gcopB, hx, hz]
  have hcac : acB c = true := by simp [acB, hc]
  have hcps : psB c = false := ln_not_ps hc
  obtain ⟨o1, o2, o3, o4⟩ := ln_not_opener hc
  -- `atom_content` = `c v1`, what is left is `x - z w`
  have hcontent : Ev RG false (.ref "atom_content") ((c :: v1) ++ x :: '-' :: z :: w)
      (some (x :: '-' :: z :: w, [.node "atom_content" (c :: v1) []])) := by
    refine ev_ref_tokA rule_atom_content rfl (kids := [] ++ []) ?_
    exact ev_seqA_ok (single_atom_char.hit _ hcac) (Ev.star _ _ _ _ (many_content_k3 v1 _ [] hv hp hfirst))
  have hcu : '_' ≠ c := by intro e; rw [← e, ln_us] at hc; exact absurd hc (by decide)
  have hatom : Ev RG false (.ref "atom") ((c :: v1) ++ x :: '-' :: z :: w)
      (some (x :: '-' :: z :: w, [.node "atom" (c :: v1) [.node "atom_content" (c :: v1) []]])) := by
    refine ev_ref_tok rule_atom rfl ?_
    have h1 : Ev RG false (.plus (.lit ['_'])) ((c :: v1) ++ x :: '-' :: z :: w) none :=
      Ev.plus_fail _ _ _ (ev_lit1_miss false '_' c _ hcu)
    have h2 : Ev RG false (.seq (.ref "atom_prefix") (.ref "atom_content")) ((c :: v1) ++ x :: '-' :: z :: w) none :=
      Ev.seq_fail _ _ _ _ (ev_atom_prefix_fail _ (by simpa using hcps))
    exact Ev.alt_r false _ _ _ _ (Ev.alt_r false _ _ _ _ h1 h2) hcontent
  have hterm : Ev RG false (.ref "term") ((c :: v1) ++ x :: '-' :: z :: w)
      (some (x :: '-' :: z :: w, [.node "term" (c :: v1) [.node "atom" (c :: v1) [.node "atom_content" (c :: v1) []]]])) := by
    refine ev_ref_tok rule_term rfl ?_
    have h1 := statement_fail ((c :: v1) ++ x :: '-' :: z :: w) (by simpa using o1)
    have h2 := compound_fail ((c :: v1) ++ x :: '-' :: z :: w) (by simpa using ⟨o2, o3, o4⟩)
    exact Ev.alt_r false _ _ _ _ (Ev.alt_r false _ _ _ _ h1 h2) hatom
  -- the sentence alternative takes `x` for the punctuation and stops before `- z w`
  have hsent : ∃ k, Ev RG false (.ref "sentence") ((c :: v1 ++ [x]) ++ '-' :: z :: w) (some ('-' :: z :: w, k)) := by
    have hpun := ev_punct x ('-' :: z :: w) hx
    have h12 := ev_seq_ok hterm (skip_none false (noWs_cons (ps_not_ws hx))) hpun
    have hnw : NoWs ('-' :: z :: w) := noWs_cons ws_dash
    have h3 : Ev RG false (.opt (.ref "stamp")) ('-' :: z :: w) (some ('-' :: z :: w, [])) :=
      Ev.opt_none _ _ _ (stamp_fail _ (by simp))
    have h123 := ev_seq_ok h12 (skip_none false hnw) h3
    have h4 : Ev RG false (.opt (.ref "truth")) ('-' :: z :: w) (some ('-' :: z :: w, [])) :=
      Ev.opt_none _ _ _ (truth_fail _ (by simp))
    have hall := ev_seq_ok h123 (skip_none false hnw) h4
    have hbody : Ev RG false sentenceBody ((c :: v1 ++ [x]) ++ '-' :: z :: w)
        (some ('-' :: z :: w,
          [.node "term" (c :: v1) [.node "atom" (c :: v1) [.node "atom_content" (c :: v1) []]],
           .node "punctuation" [x] []])) := by
      simpa [sentenceBody] using hall
    exact ⟨_, ev_ref_tok rule_sentence rfl hbody⟩
  obtain ⟨k, hs⟩ := hsent
  have htask := task_fail_head ((c :: v1 ++ [x]) ++ '-' :: z :: w) (by
    intro d hd; simp at hd; subst hd
    intro e; rw [← e] at hc; revert hc; decide +kernel)
  have hnar : ∃ k', Ev RG false (.ref "narsese") ((c :: v1 ++ [x]) ++ '-' :: z :: w) (some ('-' :: z :: w, k')) :=
    ⟨_, ev_ref_tok rule_narsese rfl (Ev.alt_l false _ (.ref "term") _ _ (Ev.alt_r false _ _ _ _ htask hs))⟩
  obtain ⟨k', hn⟩ := hnar
  intro val ⟨t, d, _⟩
  have e : c :: v1 ++ x :: '-' :: z :: w = (c :: v1 ++ [x]) ++ '-' :: z :: w := by simp
  unfold DerivesAll at d
  rw [e] at d
  have := ev_det d hn
  simp at this

end Narsese.Peg
