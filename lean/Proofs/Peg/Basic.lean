/-
  C11, part 2: building derivations of the declarative PEG semantics — generic combinators, the character
  classes of the README grammar, implicit whitespace.
-/
import Proofs.Peg.Classes
import Proofs.RT.Strings
set_option autoImplicit false

namespace Narsese.Peg

section generic
variable {G : Grammar}

theorem ev_lit1_cons (a : Bool) (k c : Char) (cs : Str) :
    Ev G a (.lit [k]) (c :: cs) (if k = c then some (cs, []) else none) := by
  have := Ev.lit (G := G) a [k] (c :: cs)
  by_cases h : k = c
  · simpa [strip, h] using this
  · simpa [strip, h] using this

theorem ev_lit1_hit (a : Bool) (k : Char) (cs : Str) : Ev G a (.lit [k]) (k :: cs) (some (cs, [])) := by
  simpa using ev_lit1_cons (G := G) a k k cs

theorem ev_lit1_miss (a : Bool) (k c : Char) (cs : Str) (h : k ≠ c) : Ev G a (.lit [k]) (c :: cs) none := by
  simpa [h] using ev_lit1_cons (G := G) a k c cs

theorem ev_lit1_nil (a : Bool) (k : Char) : Ev G a (.lit [k]) [] none := by
  simpa [strip] using Ev.lit (G := G) a [k] []

/-- a one-character literal fails on anything that does not begin with it -/
theorem ev_lit1_fail (a : Bool) (k : Char) (s : Str) (h : ∀ c ∈ s.head?, k ≠ c) : Ev G a (.lit [k]) s none := by
  cases s with
  | nil => exact ev_lit1_nil a k
  | cons c cs => exact ev_lit1_miss a k c cs (h c (by simp))

theorem ev_lit_empty (a : Bool) (s : Str) : Ev G a (.lit []) s (some (s, [])) := by
  simpa [strip] using Ev.lit (G := G) a [] s

theorem ev_cls_cons (a : Bool) (n : String) (tbl : List (Nat × Nat)) (h : G.cls? n = some tbl) (c : Char) (cs : Str) :
    Ev G a (.cls n) (c :: cs) (if inRanges tbl c then some (cs, []) else none) := by
  by_cases hc : inRanges tbl c = true
  · simpa [hc] using Ev.cls_ok a n tbl c cs h hc
  · have hc' : inRanges tbl c = false := by simpa using hc
    simpa [hc'] using Ev.cls_no a n tbl c cs h hc'

theorem ev_seq_ok {a : Bool} {p q : Peg} {s r1 r1' r2 : Str} {k1 k2 : List PTree}
    (h1 : Ev G a p s (some (r1, k1))) (hs : Skip G a r1 r1') (h2 : Ev G a q r1' (some (r2, k2))) :
    Ev G a (.seq p q) s (some (r2, k1 ++ k2)) := by
  simpa using Ev.seq a p q s r1 r1' k1 _ h1 hs h2

theorem ev_seq_no {a : Bool} {p q : Peg} {s r1 r1' : Str} {k1 : List PTree}
    (h1 : Ev G a p s (some (r1, k1))) (hs : Skip G a r1 r1') (h2 : Ev G a q r1' none) :
    Ev G a (.seq p q) s none := by
  simpa using Ev.seq a p q s r1 r1' k1 _ h1 hs h2

/-- sequences inside atomic rules: no implicit whitespace -/
theorem ev_seqA_ok {p q : Peg} {s r1 r2 : Str} {k1 k2 : List PTree}
    (h1 : Ev G true p s (some (r1, k1))) (h2 : Ev G true q r1 (some (r2, k2))) :
    Ev G true (.seq p q) s (some (r2, k1 ++ k2)) := ev_seq_ok h1 (Skip.atomic r1) h2

theorem ev_seqA_no {p q : Peg} {s r1 : Str} {k1 : List PTree}
    (h1 : Ev G true p s (some (r1, k1))) (h2 : Ev G true q r1 none) :
    Ev G true (.seq p q) s none := ev_seq_no h1 (Skip.atomic r1) h2

/-- a rule reference, with the token it contributes spelled out -/
theorem ev_ref_ok {a : Bool} {n : String} {r : Rule} {s rest : Str} {kids : List PTree}
    (hr : G.rule? n = some r) (h : Ev G (a || r.mod == .atomic) r.body s (some (rest, kids))) :
    Ev G a (.ref n) s (wrapRef a r n s (some (rest, kids))) := Ev.ref a n r s _ hr h

theorem ev_ref_no {a : Bool} {n : String} {r : Rule} {s : Str}
    (hr : G.rule? n = some r) (h : Ev G (a || r.mod == .atomic) r.body s none) :
    Ev G a (.ref n) s none := by
  simpa [wrapRef] using Ev.ref a n r s _ hr h

theorem take_text (X rest : Str) : (X ++ rest).take ((X ++ rest).length - rest.length) = X := by
  simp

/-- a normal rule matched outside atomic context: one node with the kids -/
theorem ev_ref_tok {n : String} {r : Rule} {X rest : Str} {kids : List PTree}
    (hr : G.rule? n = some r) (hm : r.mod = .normal) (h : Ev G false r.body (X ++ rest) (some (rest, kids))) :
    Ev G false (.ref n) (X ++ rest) (some (rest, [.node n X kids])) := by
  have e : (Modifier.normal == Modifier.atomic) = false := by decide
  have := Ev.ref false n r (X ++ rest) _ hr (by simpa [hm, e] using h)
  have e2 : (Modifier.normal == Modifier.silent) = false := by decide
  simpa [wrapRef, hm, take_text, e, e2] using this

/-- an atomic rule matched outside atomic context: one leaf -/
theorem ev_ref_tokA {n : String} {r : Rule} {X rest : Str} {kids : List PTree}
    (hr : G.rule? n = some r) (hm : r.mod = .atomic) (h : Ev G true r.body (X ++ rest) (some (rest, kids))) :
    Ev G false (.ref n) (X ++ rest) (some (rest, [.node n X []])) := by
  have e : (Modifier.atomic == Modifier.atomic) = true := by decide
  have := Ev.ref false n r (X ++ rest) _ hr (by simpa [hm, e] using h)
  have e2 : (Modifier.atomic == Modifier.silent) = false := by decide
  simpa [wrapRef, hm, take_text, e, e2] using this

/-- any non-silent rule matched inside an atomic rule: no token -/
theorem ev_ref_inA {n : String} {r : Rule} {s : Str} {res : Option (Str × List PTree)}
    (hr : G.rule? n = some r) (hm : r.mod ≠ .silent) (h : Ev G true r.body s res) :
    Ev G true (.ref n) s (res.map (fun x => (x.1, []))) := by
  have := Ev.ref true n r s _ hr (by simpa using h)
  cases res with
  | none => simpa [wrapRef] using this
  | some x =>
    obtain ⟨rest, kids⟩ := x
    have hm' : (r.mod == Modifier.silent) = false := by
      cases hmm : r.mod <;> simp_all
    simpa [wrapRef, hm'] using this

/-- ordered choice with both branches evaluated -/
theorem ev_alt {a : Bool} {p q : Peg} {s : Str} {r1 r2 : Option (Str × List PTree)}
    (h1 : Ev G a p s r1) (h2 : Ev G a q s r2) : Ev G a (.alt p q) s (r1.orElse fun _ => r2) := by
  cases r1 with
  | none => simpa using Ev.alt_r a p q s _ h1 h2
  | some x => simpa using Ev.alt_l a p q s x h1

end generic

/-! ### implicit whitespace -/

theorem rule_ws : RG.rule? "WHITESPACE" = some { name := "WHITESPACE", mod := .silent, body := .cls "WHITE_SPACE" } := by
  decide +kernel

/-- nothing to skip: end of input or a non-blank character -/
def NoWs (s : Str) : Prop := ∀ c ∈ s.head?, wsB c = false

theorem noWs_nil : NoWs [] := by simp [NoWs]
theorem noWs_cons {c : Char} {cs : Str} (h : wsB c = false) : NoWs (c :: cs) := by
  intro d hd; simp only [List.head?_cons, Option.mem_def, Option.some.injEq] at hd; subst hd; exact h

theorem skip_none (a : Bool) {s : Str} (h : NoWs s) : Skip RG a s s := by
  cases a with
  | true => exact Skip.atomic s
  | false =>
    refine Skip.stop s _ rule_ws ?_
    cases s with
    | nil => exact Ev.cls_eof true _
    | cons c cs =>
      have := ev_cls_cons (G := RG) true "WHITE_SPACE" _ cls_white c cs
      have hc : inRanges Gen.clsWhite c = false := h c (by simp)
      simpa [hc] using this

/-- one blank, then something else -/
theorem skip_one {c : Char} {s : Str} (hc : wsB c = true) (h : NoWs s) : Skip RG false (c :: s) s := by
  refine Skip.step (c :: s) s s _ [] rule_ws ?_ (by simp) (skip_none false h)
  have := ev_cls_cons (G := RG) true "WHITE_SPACE" _ cls_white c s
  have hc' : inRanges Gen.clsWhite c = true := hc
  simpa [hc'] using this

theorem ws_space : wsB ' ' = true := by decide +kernel

theorem skip_space {s : Str} (h : NoWs s) : Skip RG false (' ' :: s) s := skip_one ws_space h

end Narsese.Peg
