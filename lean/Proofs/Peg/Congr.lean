/-
  C11, part 13: the semantics depends on a grammar only through its rule and class lookups — two grammars with
  the same lookups derive the same things. Used to transfer the conformance theorem from the grammar block of
  README.md to the block of README.en.md (same rules under the same names, in whatever order).
-/
import NarseseModel.PegSem
set_option autoImplicit false

namespace Narsese.Peg

variable {G G' : Grammar}

mutual
  theorem ev_congr (hr : ∀ n, G.rule? n = G'.rule? n) (hc : ∀ n, G.cls? n = G'.cls? n) :
      ∀ {a : Bool} {p : Peg} {s : Str} {r : Option (Str × List PTree)}, Ev G a p s r → Ev G' a p s r
    | _, _, _, _, .lit a k s => .lit a k s
    | _, _, _, _, .cls_ok a n tbl c cs h1 h2 => .cls_ok a n tbl c cs (by rw [← hc]; exact h1) h2
    | _, _, _, _, .cls_no a n tbl c cs h1 h2 => .cls_no a n tbl c cs (by rw [← hc]; exact h1) h2
    | _, _, _, _, .cls_eof a n => .cls_eof a n
    | _, _, _, _, .cls_unknown a n s h => .cls_unknown a n s (by rw [← hc]; exact h)
    | _, _, _, _, .ref a n r s res h hb => .ref a n r s res (by rw [← hr]; exact h) (ev_congr hr hc hb)
    | _, _, _, _, .ref_unknown a n s h => .ref_unknown a n s (by rw [← hr]; exact h)
    | _, _, _, _, .seq_fail a p q s hp => .seq_fail a p q s (ev_congr hr hc hp)
    | _, _, _, _, .seq a p q s r1 r1' k1 res hp hs hq =>
      .seq a p q s r1 r1' k1 res (ev_congr hr hc hp) (skip_congr hr hc hs) (ev_congr hr hc hq)
    | _, _, _, _, .alt_l a p q s r hp => .alt_l a p q s r (ev_congr hr hc hp)
    | _, _, _, _, .alt_r a p q s res hp hq => .alt_r a p q s res (ev_congr hr hc hp) (ev_congr hr hc hq)
    | _, _, _, _, .opt_some a p s r hp => .opt_some a p s r (ev_congr hr hc hp)
    | _, _, _, _, .opt_none a p s hp => .opt_none a p s (ev_congr hr hc hp)
    | _, _, _, _, .neg_some a p s r hp => .neg_some a p s r (ev_congr hr hc hp)
    | _, _, _, _, .neg_none a p s hp => .neg_none a p s (ev_congr hr hc hp)
    | _, _, _, _, .star a p s out hm => .star a p s out (many_congr hr hc hm)
    | _, _, _, _, .plus_fail a p s hp => .plus_fail a p s (ev_congr hr hc hp)
    | _, _, _, _, .plus a p s r1 k1 out hp hm => .plus a p s r1 k1 out (ev_congr hr hc hp) (many_congr hr hc hm)

  theorem many_congr (hr : ∀ n, G.rule? n = G'.rule? n) (hc : ∀ n, G.cls? n = G'.cls? n) :
      ∀ {a : Bool} {p : Peg} {s : Str} {acc : List PTree} {o : Str × List PTree}, Many G a p s acc o → Many G' a p s acc o
    | _, _, _, _, _, .stop_fail a p s s' acc hs hp => .stop_fail a p s s' acc (skip_congr hr hc hs) (ev_congr hr hc hp)
    | _, _, _, _, _, .stop_stuck a p s s' r k acc hs hp hl =>
      .stop_stuck a p s s' r k acc (skip_congr hr hc hs) (ev_congr hr hc hp) hl
    | _, _, _, _, _, .step a p s s' r k acc out hs hp hl hm =>
      .step a p s s' r k acc out (skip_congr hr hc hs) (ev_congr hr hc hp) hl (many_congr hr hc hm)

  theorem skip_congr (hr : ∀ n, G.rule? n = G'.rule? n) (hc : ∀ n, G.cls? n = G'.cls? n) :
      ∀ {a : Bool} {s s' : Str}, Skip G a s s' → Skip G' a s s'
    | _, _, _, .atomic s => .atomic s
    | _, _, _, .no_rule s h => .no_rule s (by rw [← hr]; exact h)
    | _, _, _, .stop s r h he => .stop s r (by rw [← hr]; exact h) (ev_congr hr hc he)
    | _, _, _, .stuck s rest r k h he hl => .stuck s rest r k (by rw [← hr]; exact h) (ev_congr hr hc he) hl
    | _, _, _, .step s rest s' r k h he hl hs =>
      .step s rest s' r k (by rw [← hr]; exact h) (ev_congr hr hc he) hl (skip_congr hr hc hs)
end

theorem reads_congr (hr : ∀ n, G.rule? n = G'.rule? n) (hc : ∀ n, G.cls? n = G'.cls? n) {s : Str} {v : LNarsese}
    (h : Reads G s v) : Reads G' s v := by
  obtain ⟨t, d, e⟩ := h
  exact ⟨t, ev_congr hr hc d, e⟩

/-- every rule of each list is found under its name in the other ⇒ the lookups coincide -/
theorem rule_lookup_eq (h1 : ∀ r ∈ G.rules, G'.rule? r.name = some r) (h2 : ∀ r ∈ G'.rules, G.rule? r.name = some r)
    (n : String) : G.rule? n = G'.rule? n := by
  cases e : G.rule? n with
  | some r =>
    have hm : r ∈ G.rules := List.mem_of_find?_eq_some e
    have hn : r.name = n := by
      have := List.find?_some e
      simpa using this
    rw [← hn]; exact (h1 r hm).symm
  | none =>
    cases e' : G'.rule? n with
    | none => rfl
    | some r' =>
      have hm : r' ∈ G'.rules := List.mem_of_find?_eq_some e'
      have hn : r'.name = n := by
        have := List.find?_some e'
        simpa using this
      have := h2 r' hm
      rw [hn, e] at this
      exact absurd this (by simp)

end Narsese.Peg
