/-
  C11, part 9: from the lexical well-formedness of C02 (`wfLT`, `sentOKB`, `wfLNB`: keywords drawn from the
  format's dictionaries) to the grammar-side well-formedness — given that every keyword of the format
  satisfies the grammar-side predicates (`vocabFactsB`, decided on the regenerated ASCII table) and that the
  atom names are grammar names (`gNamesB`: the property's restriction on names, made precise).
-/
import Proofs.Peg.Read
import Proofs.LRT.Bool
set_option autoImplicit false

namespace Narsese.Peg
open LFormat

def prefixOKB (p : Str) : Bool :=
  p == ['_'] || (p.all psB && (match p with | c :: _ => !(c == '_') && !openerB c | [] => true))

/-- every keyword of the format is one the README grammar's rules read whole -/
def vocabFactsB (L : LFormat) : Bool :=
  L.connecters.all gConnB && L.copulas.all gCopOKB && L.punctuations.all gPunctB &&
  L.setBrackets.all (fun p => (p.1 == ['{'] && p.2 == ['}']) || (p.1 == ['['] && p.2 == [']'])) &&
  L.atomPrefixes.all prefixOKB


theorem isNumCh_dd (c : Char) : isNumCh c = ddB c := by
  simp only [isNumCh, ddB, isDigit, inRanges]
  have e0 : '0'.toNat = 48 := by decide
  have e9 : '9'.toNat = 57 := by decide
  rw [e0, e9]
  by_cases h1 : c.toNat < 48
  · have : ¬ 48 ≤ c.toNat := by omega
    simp [h1, this]
  · have : 48 ≤ c.toNat := by omega
    by_cases h2 : c.toNat ≤ 57
    · simp [h1, h2, this]
    · simp [h1, h2, this]

theorem numStr_gNum {x : Str} (h : numStrB x = true) : gNumB x = true := by
  simp only [numStrB, gNumB, Bool.and_eq_true, List.all_eq_true] at h ⊢
  exact ⟨h.1, fun c hc => by rw [← isNumCh_dd]; exact h.2 c hc⟩

section
variable {L : LFormat} (hV : vocabFactsB L = true)
include hV

theorem vocab_split :
    (∀ c ∈ L.connecters, gConnB c = true) ∧ (∀ c ∈ L.copulas, gCopOKB c = true) ∧
    (∀ p ∈ L.punctuations, gPunctB p = true) ∧
    (∀ p ∈ L.setBrackets, (p.1 = ['{'] ∧ p.2 = ['}']) ∨ (p.1 = ['['] ∧ p.2 = [']'])) ∧
    (∀ p ∈ L.atomPrefixes, prefixOKB p = true) := by
  simp only [vocabFactsB, Bool.and_eq_true, List.all_eq_true, Bool.or_eq_true, beq_iff_eq] at hV
  obtain ⟨⟨⟨⟨h1, h2⟩, h3⟩, h4⟩, h5⟩ := hV
  exact ⟨h1, h2, h3, h4, h5⟩

mutual
  theorem gTerm_of_wf : ∀ (t : LTerm), wfLT L t = true → gNamesB t = true → gTermOKB t = true
    | .atom pre name, hw, hn => by
      obtain ⟨_, _, _, _, hpre⟩ := vocab_split hV
      simp only [wfLT, lAtomOK, Bool.and_eq_true, List.any_eq_true, List.mem_range, beq_iff_eq] at hw
      obtain ⟨j, _, hj, _⟩ := hw.1.1.1
      have hp := hpre pre (List.mem_of_getElem? hj)
      simp only [gNamesB] at hn
      simp only [gTermOKB, gAtomOKB]
      by_cases e : pre = ['_']
      · subst e; simpa using hn
      · have e' : (pre == ['_']) = false := by simpa using e
        simp only [e', Bool.false_eq_true, if_false] at hn ⊢
        simp only [prefixOKB, e', Bool.false_or, Bool.and_eq_true] at hp
        simp only [Bool.and_eq_true]
        exact ⟨hp, hn⟩
    | .compound conn ts, hw, hn => by
      obtain ⟨hconn, _⟩ := vocab_split hV
      simp only [wfLT, Bool.and_eq_true, List.contains_eq_mem, decide_eq_true_eq] at hw
      simp only [gNamesB] at hn
      simp only [gTermOKB, Bool.and_eq_true]
      refine ⟨⟨hconn conn hw.1.1, ?_⟩, gTerms_of_wf ts hw.2 hn⟩
      cases ts <;> simp_all [isNil]
    | .set l ts r, hw, hn => by
      obtain ⟨_, _, _, hset, _⟩ := vocab_split hV
      simp only [wfLT, Bool.and_eq_true, List.contains_eq_mem, decide_eq_true_eq] at hw
      simp only [gNamesB] at hn
      simp only [gTermOKB, Bool.and_eq_true, Bool.or_eq_true, beq_iff_eq]
      refine ⟨⟨hset (l, r) hw.1.1, ?_⟩, gTerms_of_wf ts hw.2 hn⟩
      cases ts <;> simp_all [isNil]
    | .stmt cop s p, hw, hn => by
      obtain ⟨_, hcop, _⟩ := vocab_split hV
      simp only [wfLT, Bool.and_eq_true, List.contains_eq_mem, decide_eq_true_eq] at hw
      simp only [gNamesB, Bool.and_eq_true] at hn
      simp only [gTermOKB, Bool.and_eq_true]
      exact ⟨⟨hcop cop hw.1.1, gTerm_of_wf s hw.1.2 hn.1⟩, gTerm_of_wf p hw.2 hn.2⟩
  theorem gTerms_of_wf : ∀ (ts : LTerms), wfLTs L ts = true → gNamesBs ts = true → gTermsOKB ts = true
    | .nil, _, _ => by simp [gTermsOKB]
    | .cons t ts, hw, hn => by
      simp only [wfLTs, Bool.and_eq_true] at hw
      simp only [gNamesBs, Bool.and_eq_true] at hn
      simp only [gTermsOKB, Bool.and_eq_true]
      exact ⟨gTerm_of_wf t hw.1 hn.1, gTerms_of_wf ts hw.2 hn.2⟩
end

theorem gSent_of_wf (s : LSentence) (hw : sentOKB L s = true) (hn : gNamesB s.term = true)
    (hst : gStampB s.stamp = true) : gSentOKB s = true := by
  obtain ⟨_, _, hp, _⟩ := vocab_split hV
  simp only [sentOKB, Bool.and_eq_true, List.contains_eq_mem, decide_eq_true_eq, List.all_eq_true] at hw
  simp only [gSentOKB, Bool.and_eq_true, List.all_eq_true]
  exact ⟨⟨⟨gTerm_of_wf hV s.term hw.1.1.1 hn, hp _ hw.1.1.2⟩, hst⟩, fun x hx => numStr_gNum (hw.2 x hx)⟩

theorem gVal_of_wf (v : LNarsese) (hw : wfLNB L v = true) (hx : gExtraB L v = true) : gValOKB L v = true := by
  cases v with
  | term t =>
    simp only [wfLNB, Bool.and_eq_true] at hw
    simp only [gExtraB, Bool.and_eq_true] at hx
    simp only [gValOKB, Bool.and_eq_true]
    exact ⟨gTerm_of_wf hV t hw.1.1.1.1 hx.1, hx.2⟩
  | sentence s =>
    simp only [wfLNB, Bool.and_eq_true] at hw
    simp only [gExtraB, Bool.and_eq_true] at hx
    simp only [gValOKB, Bool.and_eq_true]
    exact ⟨gSent_of_wf hV s hw.1 hx.1.1 hx.1.2, hx.2⟩
  | task k =>
    simp only [wfLNB, Bool.and_eq_true, List.all_eq_true] at hw
    simp only [gExtraB, Bool.and_eq_true] at hx
    simp only [gValOKB, gTaskOKB, Bool.and_eq_true, List.all_eq_true]
    exact ⟨fun x hx' => numStr_gNum (hw.2 x hx'), gSent_of_wf hV k.sentence hw.1 hx.1 hx.2⟩

end

end Narsese.Peg
