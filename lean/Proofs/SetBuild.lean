/-
  Building unordered containers: `HashSet` insertion as the code performs it (lookup by hash + `==`)
  coincides with de-duplication modulo `sem`; the result does not depend on insertion order or duplicates.
-/
import Proofs.EqHash
import NarseseModel.EParser
set_option autoImplicit false

namespace Narsese

theorem NoDupR_snoc {α : Type} (r : α → α → Bool) (rsymm : ∀ x y, r x y = r y x) :
    ∀ (l : List α) (x : α), NoDupR r l → (∀ y ∈ l, r y x = false) → NoDupR r (l ++ [x])
  | [], x, _, _ => by simp [NoDupR]
  | a :: l, x, h, hx => by
    simp only [List.cons_append, NoDupR] at h ⊢
    refine ⟨?_, NoDupR_snoc r rsymm l x h.2 (fun y hy => hx y (by simp [hy]))⟩
    intro b hb
    simp only [List.mem_append, List.mem_singleton] at hb
    rcases hb with hb | hb
    · exact h.1 b hb
    · subst hb; exact hx a (by simp)

/-- the result of sequential insertion is duplicate-free modulo `sem` -/
theorem dedupSem_nodup : ∀ (xs acc : List Term), NoDupR sem acc → NoDupR sem (dedupSem acc xs)
  | [], acc, h => by simpa [dedupSem] using h
  | x :: xs, acc, h => by
    simp only [dedupSem]
    split
    · exact dedupSem_nodup xs acc h
    · next hn =>
      apply dedupSem_nodup xs (acc ++ [x])
      apply NoDupR_snoc sem sem_symm acc x h
      intro y hy
      simp only [List.any_eq_true, not_exists, not_and, Bool.not_eq_true] at hn
      exact hn y hy

/-- nothing is lost: every inserted element has a `sem`-equal representative in the result -/
theorem dedupSem_covers : ∀ (xs acc : List Term) (x : Term), x ∈ acc ∨ x ∈ xs →
    ∃ y ∈ dedupSem acc xs, sem y x = true
  | [], acc, x, h => by
    rcases h with h | h
    · exact ⟨x, by simpa [dedupSem] using h, sem_refl x⟩
    · simp at h
  | z :: zs, acc, x, h => by
    simp only [dedupSem]
    split
    · next hy =>
      rcases h with h | h
      · exact dedupSem_covers zs acc x (.inl h)
      · simp only [List.mem_cons] at h
        rcases h with h | h
        · subst h
          simp only [List.any_eq_true] at hy
          obtain ⟨y, hy, hyx⟩ := hy
          obtain ⟨w, hw, hwy⟩ := dedupSem_covers zs acc y (.inl hy)
          exact ⟨w, hw, sem_trans w y x hwy hyx⟩
        · exact dedupSem_covers zs acc x (.inr h)
    · rcases h with h | h
      · exact dedupSem_covers zs (acc ++ [z]) x (.inl (by simp [h]))
      · simp only [List.mem_cons] at h
        rcases h with h | h
        · subst h; exact dedupSem_covers zs (acc ++ [x]) x (.inl (by simp))
        · exact dedupSem_covers zs (acc ++ [z]) x (.inr h)

theorem dedupSem_sub : ∀ (xs acc : List Term) (x : Term), x ∈ dedupSem acc xs → x ∈ acc ∨ x ∈ xs
  | [], acc, x, h => by simp [dedupSem] at h; exact .inl h
  | y :: ys, acc, x, h => by
    simp only [dedupSem] at h
    split at h
    · rcases dedupSem_sub ys acc x h with h | h
      · exact .inl h
      · exact .inr (by simp [h])
    · rcases dedupSem_sub ys (acc ++ [y]) x h with h | h
      · simp at h; rcases h with h | h
        · exact .inl h
        · exact .inr (by simp [h])
      · exact .inr (by simp [h])

/-- **insertion order and duplicates do not matter**: two component lists that denote the same set
(mutual inclusion modulo `sem`) build `sem`-equal set terms -/
theorem mkSet_order_dup_irrelevant (k : SetK) (xs ys : List Term)
    (h1 : ∀ x ∈ xs, ∃ y ∈ ys, sem x y = true) (h2 : ∀ y ∈ ys, ∃ x ∈ xs, sem x y = true) :
    sem (.setlike k (Terms.ofList (mkSetSem xs))) (.setlike k (Terms.ofList (mkSetSem ys))) = true := by
  rw [sem_set_iff]
  simp only [Terms.toList_ofList, mkSetSem, true_and]
  constructor
  · intro a ha
    rcases dedupSem_sub xs [] a ha with h | h
    · simp at h
    · obtain ⟨y, hy, hay⟩ := h1 a h
      obtain ⟨w, hw, hwy⟩ := dedupSem_covers ys [] y (.inr hy)
      exact ⟨w, hw, sem_trans a y w hay (by rw [sem_symm]; exact hwy)⟩
  · intro b hb
    rcases dedupSem_sub ys [] b hb with h | h
    · simp at h
    · obtain ⟨x, hx, hxb⟩ := h2 b h
      obtain ⟨w, hw, hwx⟩ := dedupSem_covers xs [] x (.inr hx)
      exact ⟨w, hw, sem_trans w x b hwx hxb⟩

/-- the hash-based insertion of the code equals de-duplication modulo `sem` (on built elements) -/
theorem extendSet_eq_dedupSem (h0 : List Tok → Nat) : ∀ (xs s : List Term),
    (∀ y ∈ s, built y = true) → (∀ x ∈ xs, built x = true) → extendSet h0 s xs = dedupSem s xs
  | [], s, _, _ => rfl
  | x :: xs, s, hs, hx => by
    have hxb : built x = true := hx x (by simp)
    simp only [extendSet, List.foldl_cons, dedupSem, insertSet, lookupSet_eq h0 s x hs hxb]
    split
    · exact extendSet_eq_dedupSem h0 xs s hs (fun y hy => hx y (by simp [hy]))
    · exact extendSet_eq_dedupSem h0 xs (s ++ [x])
        (fun y hy => by simp at hy; rcases hy with hy | hy; exact hs y hy; subst hy; exact hxb)
        (fun y hy => hx y (by simp [hy]))

theorem mkSet_eq_mkSetSem (h0 : List Tok → Nat) (xs : List Term) (hx : ∀ x ∈ xs, built x = true) :
    mkSet h0 xs = mkSetSem xs :=
  extendSet_eq_dedupSem h0 xs [] (by simp) hx

theorem builts_ofList (l : List Term) : builts (Terms.ofList l) = l.all built := by
  induction l with
  | nil => rfl
  | cons t ts ih => simp [Terms.ofList, builts, ih]

/-- a set term built from built components is built -/
theorem mkSet_built (k : SetK) (xs : List Term) (hx : ∀ x ∈ xs, built x = true) :
    built (.setlike k (Terms.ofList (mkSetSem xs))) = true := by
  simp only [built, Bool.and_eq_true, builts_ofList, Terms.toList_ofList, List.all_eq_true]
  refine ⟨fun x hxm => ?_, (nodupSem_iff _).mpr (dedupSem_nodup xs [] (by simp [NoDupR]))⟩
  rcases dedupSem_sub xs [] x hxm with h | h
  · simp at h
  · exact hx x h

end Narsese
