/-
  The whole enum parser model is total: `eparse`, `parseMulti` and the four side doors return
  `Ok`/`Err` for every input — no panic, no fuel exhaustion.
-/
import Proofs.EParserTotal
set_option autoImplicit false

namespace Narsese
open EFormat

structure SaneAll (F : EFormat) : Prop extends Sane F where
  truthL_ne : F.truthL ≠ []
  truthSep_ne : F.truthSep ≠ []
  budgetL_ne : F.budgetL ≠ []
  budgetSep_ne : F.budgetSep ≠ []
  pJ_ne : F.pJudgement ≠ []
  pG_ne : F.pGoal ≠ []
  pQ_ne : F.pQuestion ≠ []
  pU_ne : F.pQuest ≠ []
  sFixed_ne : F.stampFixed ≠ []
  sPast_ne : F.stampPast ≠ []
  sPresent_ne : F.stampPresent ≠ []
  sFuture_ne : F.stampFuture ≠ []

/-- `parse_separated_floats`: no panic, cursor never moves left, `|rest| + 1` fuel suffices -/
theorem parseFloats_good (F : EFormat) (hsp : F.spaceParse ≠ []) (N : Nat) (sep rb : Str) (hsep : sep ≠ []) :
    ∀ (fuel : Nat) (c : Cur) (buf : Str) (acc : List Num),
      Good c (F.parseFloats N sep rb fuel c buf acc) false (c.n + 1) fuel
  | 0, c, buf, acc => by simp [parseFloats, Good]
  | fuel + 1, c, buf, acc => by
    unfold parseFloats
    split
    · refine ⟨by simp, ?_, by simp⟩
      intro a c' h; simp only [PRes.ok.injEq, Prod.mk.injEq] at h; simp [← h.2]
    · cases hrest : c.rest with
      | nil =>
        simp only
        refine ⟨by simp, ?_, by simp⟩
        intro a c' h; simp only [PRes.ok.injEq, Prod.mk.injEq] at h; simp [← h.2]
      | cons ch cs =>
        simp only
        have hn : 1 ≤ c.n := by simp [Cur.n, hrest]
        -- one step to a cursor with strictly fewer chars
        have step : ∀ (c1 : Cur) (b : Str) (a : List Num), c1.n + 1 ≤ c.n →
            Good c (F.parseFloats N sep rb fuel c1 b a) false (c.n + 1) (fuel + 1) := by
          intro c1 b a h1
          have ih := parseFloats_good F hsp N sep rb hsep fuel c1 b a
          refine ⟨ih.1, ?_, fun hb => ih.2.2 (by omega)⟩
          intro x c' h
          have := ih.2.1 x c' h
          simp only [Bool.false_eq_true, if_false] at this ⊢
          omega
        split
        · next hsw => exact step _ _ _ (skip_lt c F.spaceParse hsp hsw)
        · split
          · exact step _ _ _ (by rw [skipN_n]; omega)
          · split
            · next hsw =>
              split
              · exact step _ _ _ (skip_lt c sep hsep hsw)
              · exact good_raise _ _ _ _ _
            · split
              · split
                · refine ⟨by simp, ?_, by simp⟩
                  intro a c' h; simp only [PRes.ok.injEq, Prod.mk.injEq] at h; simp [← h.2]
                · refine ⟨by simp, ?_, by simp⟩
                  intro a c' h; simp only [PRes.ok.injEq, Prod.mk.injEq] at h; simp [← h.2]
              · exact good_raise _ _ _ _ _

theorem validate_ok {α : Type} (valid : α → Bool) (x : α) (h : valid x = true) : validate valid x = .ok x := by
  simp [validate, h]

/-- a keyword skipped UNCHECKED from a cursor with at least one char left still makes progress -/
theorem skipAndSpaces_lt' (F : EFormat) (c : Cur) (k : Str) (hk : k ≠ []) (hc : 1 ≤ c.n) :
    (F.skipAndSpaces c k).n + 1 ≤ c.n := by
  have h1 := skipAndSpaces_n F c k
  have h3 := ne_nil_length hk
  omega

/-- what a number-list item reader guarantees: no panic, no fuel exhaustion, and the cursor ends at
or after the (unchecked) skip of its opening bracket -/
def ItemSpec {α : Type} (c : Cur) (kw : Str) (r : PRes (α × Cur)) : Prop :=
  r ≠ .panic ∧ r ≠ .fuel ∧ ∀ a c', r = .ok (a, c') → c'.n ≤ c.n - kw.length

theorem consumeTruth_spec (F : EFormat) (hs : SaneAll F) (c : Cur) : ItemSpec c F.truthL (F.consumeTruth c) := by
  unfold consumeTruth
  have hle := skipAndSpaces_n F c F.truthL
  have pf := parseFloats_good F hs.space_ne 2 F.truthSep F.truthR hs.truthSep_ne
    ((F.skipAndSpaces c F.truthL).rest.length + 1) (F.skipAndSpaces c F.truthL) [] []
  simp only
  cases hr : F.parseFloats 2 F.truthSep F.truthR ((F.skipAndSpaces c F.truthL).rest.length + 1) (F.skipAndSpaces c F.truthL) [] [] with
  | ok p =>
    obtain ⟨xs, c2⟩ := p
    have h2 := pf.2.1 xs c2 hr
    simp only [Bool.false_eq_true, if_false] at h2
    simp only
    split
    · simp [ItemSpec, Props.C04.raise_never_panics]
    · next hin =>
      simp only [Bool.not_eq_true, Bool.not_eq_false'] at hin
      have hall : ∀ x ∈ xs, x.in01 = true := by simpa using hin
      have fin : ∀ t : Truth, ItemSpec c F.truthL (PRes.ok (t, F.skipAfterSpaces c2 F.truthR)) := by
        intro t
        refine ⟨by simp, by simp, ?_⟩
        intro a c' h
        simp only [PRes.ok.injEq, Prod.mk.injEq] at h
        have := skipAfterSpaces_n F c2 F.truthR
        rw [← h.2]
        omega
      -- the panicking constructors are only reached with validated components
      rcases xs with _ | ⟨f, _ | ⟨cc, rest⟩⟩
      · simp only [liftRes]; exact fin _
      · simp only [GTruth.newSingle, validate_ok _ f (hall f (by simp)), Res.bind, Res.map, liftRes]; exact fin _
      · simp only [GTruth.newDouble, validate_ok _ f (hall f (by simp)), validate_ok _ cc (hall cc (by simp)),
          Res.bind, Res.map, liftRes]; exact fin _
  | err h => simp [ItemSpec]
  | panic => exact absurd hr pf.1
  | fuel => exact absurd hr (pf.2.2 (Nat.le_refl _))

theorem consumeBudget_spec (F : EFormat) (hs : SaneAll F) (c : Cur) : ItemSpec c F.budgetL (F.consumeBudget c) := by
  unfold consumeBudget
  have hle := skipAndSpaces_n F c F.budgetL
  have pf := parseFloats_good F hs.space_ne 3 F.budgetSep F.budgetR hs.budgetSep_ne
    ((F.skipAndSpaces c F.budgetL).rest.length + 1) (F.skipAndSpaces c F.budgetL) [] []
  simp only
  cases hr : F.parseFloats 3 F.budgetSep F.budgetR ((F.skipAndSpaces c F.budgetL).rest.length + 1) (F.skipAndSpaces c F.budgetL) [] [] with
  | ok p =>
    obtain ⟨xs, c2⟩ := p
    have h2 := pf.2.1 xs c2 hr
    simp only [Bool.false_eq_true, if_false] at h2
    simp only
    split
    · simp [ItemSpec, Props.C04.raise_never_panics]
    · next hin =>
      simp only [Bool.not_eq_true, Bool.not_eq_false'] at hin
      have hall : ∀ x ∈ xs, x.in01 = true := by simpa using hin
      have fin : ∀ t : Budget, ItemSpec c F.budgetL (PRes.ok (t, F.skipAfterSpaces c2 F.budgetR)) := by
        intro t
        refine ⟨by simp, by simp, ?_⟩
        intro a c' h
        simp only [PRes.ok.injEq, Prod.mk.injEq] at h
        have := skipAfterSpaces_n F c2 F.budgetR
        rw [← h.2]
        omega
      rcases xs with _ | ⟨p, _ | ⟨d, _ | ⟨q, rest⟩⟩⟩
      · simp only [liftRes]; exact fin _
      · simp only [GBudget.newSingle, validate_ok _ p (hall p (by simp)), Res.bind, Res.map, liftRes]; exact fin _
      · simp only [GBudget.newDouble, validate_ok _ p (hall p (by simp)), validate_ok _ d (hall d (by simp)),
          Res.bind, Res.map, liftRes]; exact fin _
      · simp only [GBudget.newTriple, validate_ok _ p (hall p (by simp)), validate_ok _ d (hall d (by simp)),
          validate_ok _ q (hall q (by simp)), Res.bind, Res.map, liftRes]; exact fin _
  | err h => simp [ItemSpec]
  | panic => exact absurd hr pf.1
  | fuel => exact absurd hr (pf.2.2 (Nat.le_refl _))

theorem itemSpec_good {α : Type} (c : Cur) (kw : Str) (r : PRes (α × Cur)) (hk : kw ≠ []) (hc : 1 ≤ c.n)
    (h : ItemSpec c kw r) (bound fuel : Nat) : Good c r true bound fuel := by
  refine ⟨h.1, ?_, fun _ => h.2.1⟩
  intro a c' hr
  have := h.2.2 a c' hr
  have := ne_nil_length hk
  simp only [if_true]; omega

theorem consumeTruth_good (F : EFormat) (hs : SaneAll F) (c : Cur) (hc : 1 ≤ c.n) (bound fuel : Nat) :
    Good c (F.consumeTruth c) true bound fuel :=
  itemSpec_good c _ _ hs.truthL_ne hc (consumeTruth_spec F hs c) bound fuel

theorem consumeBudget_good (F : EFormat) (hs : SaneAll F) (c : Cur) (hc : 1 ≤ c.n) (bound fuel : Nat) :
    Good c (F.consumeBudget c) true bound fuel :=
  itemSpec_good c _ _ hs.budgetL_ne hc (consumeBudget_spec F hs c) bound fuel

theorem consumePunct_good (F : EFormat) (hs : SaneAll F) (c : Cur) (bound fuel : Nat) :
    Good c (F.consumePunct c) true bound fuel := by
  unfold consumePunct
  have fin : ∀ (p : Punct) (k : Str), k ≠ [] → c.startsWith k = true →
      Good c (PRes.ok (p, c.skip k)) true bound fuel := by
    intro p k hk hsw
    refine ⟨by simp, ?_, by simp⟩
    intro a c' h
    simp only [PRes.ok.injEq, Prod.mk.injEq] at h
    have := skip_lt c k hk hsw
    simp only [if_true, ← h.2]; omega
  split
  · next h => exact fin _ _ hs.pJ_ne h
  · split
    · next h => exact fin _ _ hs.pG_ne h
    · split
      · next h => exact fin _ _ hs.pQ_ne h
      · split
        · next h => exact fin _ _ hs.pU_ne h
        · exact good_raise _ _ _ _ _

theorem parseIsizeAt_good (c : Cur) (bound fuel : Nat) : Good c (parseIsizeAt c) false bound fuel := by
  unfold parseIsizeAt
  have hl := spanSigned_length c.rest
  generalize spanSigned c.rest = sp at hl
  obtain ⟨buf, rest'⟩ := sp
  show Good c (if buf.isEmpty = true then raise { c with rest := rest' } else
    match parseIsize buf with
    | some v => PRes.ok (v, { c with rest := rest' })
    | none => raise { c with rest := rest' }) false bound fuel
  split
  · exact good_raise _ _ _ _ _
  · split
    · refine ⟨by simp, ?_, by simp⟩
      intro a c' h
      simp only [PRes.ok.injEq, Prod.mk.injEq] at h
      simp only [Bool.false_eq_true, if_false, ← h.2, Cur.n]
      simp only [Cur.n] at hl; omega
    · exact good_raise _ _ _ _ _

theorem consumeStamp_good (F : EFormat) (hs : SaneAll F) (c : Cur) (bound fuel : Nat) :
    Good c (F.consumeStamp c) true bound fuel := by
  unfold consumeStamp
  have h1 := skipAndSpaces_n F c F.stampL
  have fin : ∀ (s : Stamp) (c2 : Cur), c2.n + 1 ≤ c.n →
      Good c (PRes.ok (s, F.skipAfterSpaces c2 F.stampR)) true bound fuel := by
    intro s c2 h2
    refine ⟨by simp, ?_, by simp⟩
    intro a c' h
    simp only [PRes.ok.injEq, Prod.mk.injEq] at h
    have := skipAfterSpaces_n F c2 F.stampR
    simp only [if_true, ← h.2]; omega
  simp only
  split
  · next hsw =>
    have hlt := skipAndSpaces_lt F _ F.stampFixed hs.sFixed_ne hsw
    have pi := parseIsizeAt_good (F.skipAndSpaces (F.skipAndSpaces c F.stampL) F.stampFixed) 0 0
    cases hr : parseIsizeAt (F.skipAndSpaces (F.skipAndSpaces c F.stampL) F.stampFixed) with
    | ok p =>
      obtain ⟨t, c2⟩ := p
      have h2 := pi.2.1 t c2 hr
      simp only [Bool.false_eq_true, if_false] at h2
      exact fin _ c2 (by omega)
    | err h => simp [Good]
    | panic => exact absurd hr pi.1
    | fuel => exact absurd hr (pi.2.2 (Nat.le_refl _))
  · split
    · next hsw => exact fin _ _ (by have := skip_lt _ F.stampPast hs.sPast_ne hsw; omega)
    · split
      · next hsw => exact fin _ _ (by have := skip_lt _ F.stampPresent hs.sPresent_ne hsw; omega)
      · split
        · next hsw => exact fin _ _ (by have := skip_lt _ F.stampFuture hs.sFuture_ne hsw; omega)
        · exact good_raise _ _ _ _ _

/-- a consume result lifted to the `(cursor, slots)` pair `consume_one` returns -/
def GoodStep (c : Cur) (r : PRes (Cur × Mid)) : Prop :=
  r ≠ .panic ∧ r ≠ .fuel ∧ ∀ c' m', r = .ok (c', m') → c'.n < c.n

theorem goodStep_of {α : Type} (c : Cur) (r : PRes (α × Cur)) (f : α → Mid)
    (h : Good c r true 0 0) :
    GoodStep c (liftStep r f) := by
  unfold liftStep
  cases r with
  | ok p =>
    obtain ⟨a, c'⟩ := p
    have := h.2.1 a c' rfl
    simp only [if_true] at this
    exact ⟨by simp, by simp, by intro c'' m' heq; simp at heq; rw [← heq.1]; exact this⟩
  | err e => exact ⟨by simp, by simp, by simp⟩
  | panic => exact absurd rfl h.1
  | fuel => exact absurd rfl (h.2.2 (Nat.le_refl _))

theorem alt_good (c : Cur) (guard : Cur → Bool) (run : PRes (Cur × Mid)) (k : Cur → PRes (Cur × Mid)) (now : Cur)
    (hr : GoodStep c run) (hk : ∀ x, GoodStep c (k x)) : GoodStep c (alt guard run k now) := by
  unfold alt
  split
  · unfold orElse
    cases run with
    | ok a => exact hr
    | err h => exact hk h
    | panic => exact absurd rfl hr.1
    | fuel => exact absurd rfl hr.2.1
  · exact hk now

theorem consumeOne_good (F : EFormat) (hs : SaneAll F) (c : Cur) (m : Mid) (hc : 1 ≤ c.n) :
    GoodStep c (F.consumeOne c m) := by
  unfold consumeOne
  split
  · next hsw =>
    refine ⟨by simp, by simp, ?_⟩
    intro c' m' h
    simp only [PRes.ok.injEq, Prod.mk.injEq] at h
    have := skip_lt c F.spaceParse hs.space_ne hsw
    rw [← h.1]; omega
  · simp only
    apply alt_good
    · exact goodStep_of c _ _ (consumeBudget_good F hs c hc 0 0)
    · intro x1
      apply alt_good
      · have := parseTerm_good F hs.toSane (termFuel c) c
        exact goodStep_of c _ _ ⟨this.1, this.2.1, fun _ => this.2.2 (by simp [termFuel, Cur.n]; omega)⟩
      · intro x2
        apply alt_good
        · exact goodStep_of c _ _ (consumePunct_good F hs c 0 0)
        · intro x3
          apply alt_good
          · exact goodStep_of c _ _ (consumeStamp_good F hs c 0 0)
          · intro x4
            apply alt_good
            · exact goodStep_of c _ _ (consumeTruth_good F hs c hc 0 0)
            · intro x5
              exact ⟨by simp [Props.C04.raise_never_panics], by simp [Props.C04.raise_never_panics],
                by simp [Props.C04.raise_never_panics]⟩

/-- `build_mid_result`: never panics, and `|rest| + 2` fuel suffices -/
theorem buildMid_good (F : EFormat) (hs : SaneAll F) : ∀ (fuel : Nat) (c : Cur) (m : Mid),
    F.buildMid fuel c m ≠ .panic ∧ (c.n + 2 ≤ fuel → F.buildMid fuel c m ≠ .fuel)
  | 0, c, m => by simp [buildMid]
  | fuel + 1, c, m => by
    unfold buildMid
    split
    · simp
    · simp only
      split
      · simp
      · next h1 h2 =>
        have hc : 1 ≤ (F.skipSpaces c).n := by
          simp only [Cur.canConsume, Bool.not_eq_true', Bool.not_eq_false'] at h2
          cases hr : (F.skipSpaces c).rest with
          | nil => simp [hr] at h2
          | cons x xs => simp [Cur.n, hr]
        have g := consumeOne_good F hs (F.skipSpaces c) m hc
        have hle := skipSpaces_n F c
        cases hr : F.consumeOne (F.skipSpaces c) m with
        | ok p =>
          obtain ⟨c2, m2⟩ := p
          have hlt := g.2.2 c2 m2 hr
          have ih := buildMid_good F hs fuel c2 m2
          simp only
          exact ⟨ih.1, fun hb => ih.2 (by omega)⟩
        | err h => simp
        | panic => exact absurd hr g.1
        | fuel => exact absurd hr g.2.1

theorem transformMid_safe (c : Cur) (m : Mid) : transformMid c m ≠ .panic ∧ transformMid c m ≠ .fuel := by
  unfold transformMid
  simp only [Props.C04.raise_never_panics]
  repeat' split
  all_goals simp

/-- **`eparse_total`**: for every input, the whole-value parser returns `Ok` or `Err` -/
theorem eparse_total (F : EFormat) (hs : SaneAll F) (input : Str) : (F.eparse input).total = true := by
  unfold eparse runState
  have g := buildMid_good F hs (midFuel (Cur.ofEnv input)) (Cur.ofEnv input) {}
  cases hr : F.buildMid (midFuel (Cur.ofEnv input)) (Cur.ofEnv input) {} with
  | ok p =>
    obtain ⟨c, m⟩ := p
    have t := transformMid_safe c m
    simp only
    cases ht : transformMid c m with
    | ok q => obtain ⟨v, m'⟩ := q; simp [PRes.toRes, Res.total]
    | err h => simp [PRes.toRes, Res.total]
    | panic => exact absurd ht t.1
    | fuel => exact absurd ht t.2
  | err h => simp [PRes.toRes, Res.total]
  | panic => exact absurd hr g.1
  | fuel => exact absurd hr (g.2 (by simp [midFuel, Cur.n]))

/-- `parse_multi` is total element-wise (it is `map eparse`, C08) -/
theorem parseMulti_total (F : EFormat) (hs : SaneAll F) : ∀ (s : PState) (inputs : List Str),
    ∀ r ∈ F.parseMultiAux s inputs, r.total = true
  | _, [], r, h => by simp [parseMultiAux] at h
  | s, i :: is, r, h => by
    simp only [parseMultiAux, List.mem_cons] at h
    rcases h with h | h
    · rw [h]; exact eparse_total F hs i
    · exact parseMulti_total F hs _ is r h

theorem truthDoor_total (F : EFormat) (hs : SaneAll F) (input : Str) : (F.parseTruthDoor input).total = true := by
  unfold parseTruthDoor
  have g := consumeTruth_spec F hs (Cur.ofEnv input)
  cases hr : F.consumeTruth (Cur.ofEnv input) with
  | ok p => obtain ⟨t, c⟩ := p; simp [Props.C04.eagerErr_ok, PRes.toRes, Res.total]
  | err h => simp [PRes.toRes, Res.total]
  | panic => exact absurd hr g.1
  | fuel => exact absurd hr g.2.1

theorem budgetDoor_total (F : EFormat) (hs : SaneAll F) (input : Str) : (F.parseBudgetDoor input).total = true := by
  unfold parseBudgetDoor
  have g := consumeBudget_spec F hs (Cur.ofEnv input)
  cases hr : F.consumeBudget (Cur.ofEnv input) with
  | ok p => obtain ⟨t, c⟩ := p; simp [Props.C04.eagerErr_ok, PRes.toRes, Res.total]
  | err h => simp [PRes.toRes, Res.total]
  | panic => exact absurd hr g.1
  | fuel => exact absurd hr g.2.1

/-- decidable form of `SaneAll` -/
def saneAllB (F : EFormat) : Bool :=
  [F.spaceParse, F.separator, F.extSetL, F.intSetL, F.compL, F.stmtL, F.prePlaceholder, F.truthL, F.truthSep,
   F.budgetL, F.budgetSep, F.pJudgement, F.pGoal, F.pQuestion, F.pQuest, F.stampFixed, F.stampPast, F.stampPresent,
   F.stampFuture].all (fun k => !k.isEmpty)

theorem saneAll_of_bool (F : EFormat) (h : saneAllB F = true) : SaneAll F := by
  simp only [saneAllB, List.all_cons, List.all_nil, Bool.and_true, Bool.and_eq_true, Bool.not_eq_true',
    List.isEmpty_eq_false_iff] at h
  obtain ⟨h1, h2, h3, h4, h5, h6, h7, h8, h9, h10, h11, h12, h13, h14, h15, h16, h17, h18, h19⟩ := h
  exact { space_ne := h1, sep_ne := h2, extSetL_ne := h3, intSetL_ne := h4, compL_ne := h5, stmtL_ne := h6,
          ph_ne := h7, truthL_ne := h8, truthSep_ne := h9, budgetL_ne := h10, budgetSep_ne := h11, pJ_ne := h12,
          pG_ne := h13, pQ_ne := h14, pU_ne := h15, sFixed_ne := h16, sPast_ne := h17, sPresent_ne := h18,
          sFuture_ne := h19 }

end Narsese
