/-
  Typst injectivity, part 8: `decode (ser t ++ rest) = (t, rest)`.
-/
import Proofs.Typst.Main
set_option autoImplicit false

namespace Narsese
open TypstConsts EFormat

section
variable {C : TypstConsts} (hT : TypstOK C)
include hT

/-- the decoder on a text that begins with one of the four openers goes to the bracketed forms -/
theorem dec_dispatch (i : Nat) (hi : 6 ≤ i) (K : Str) (hK : (tyStarters C)[i]? = some K) (r : List Str) (f : Nat) :
    decT C (f + 1) (C.words K ++ r) = decOpeners C (decT C f) (decL C f) (C.words K ++ r) := by
  obtain ⟨tok, rest0, e, hn⟩ := starter_not_name hT K (List.mem_of_getElem? hK) r
  have hat := atoms_miss_opener hT i hi K hK r
  generalize C.words K ++ r = toks at e hat ⊢
  subst e
  rw [decT]
  simp only [hn, Bool.false_eq_true, if_false, hat]

theorem dec_extSet (r : List Str) (f : Nat) :
    decT C (f + 1) (C.words C.brExtSet.1 ++ r) = wrapSet .extSet (decL C f r (C.words C.brExtSet.2)) := by
  rw [dec_dispatch hT 6 (by omega) _ rfl, decOpeners, stripT_append]

theorem dec_intSet (r : List Str) (f : Nat) :
    decT C (f + 1) (C.words C.brIntSet.1 ++ r) = wrapSet .intSet (decL C f r (C.words C.brIntSet.2)) := by
  rw [dec_dispatch hT 7 (by omega) _ rfl, decOpeners, starter_miss hT 7 6 (by omega) _ _ rfl rfl, stripT_append]

theorem dec_stmt (r : List Str) (f : Nat) :
    decT C (f + 1) (C.words C.brStatement.1 ++ r) = decStmtTail C (decT C f) r := by
  rw [dec_dispatch hT 8 (by omega) _ rfl, decOpeners, starter_miss hT 8 6 (by omega) _ _ rfl rfl,
    starter_miss hT 8 7 (by omega) _ _ rfl rfl, stripT_append]

theorem dec_comp (r : List Str) (f : Nat) :
    decT C (f + 1) (C.words C.brCompound.1 ++ r) = decCompTail C (decT C f) (decL C f) r := by
  rw [dec_dispatch hT 9 (by omega) _ rfl, decOpeners, starter_miss hT 9 6 (by omega) _ _ rfl rfl,
    starter_miss hT 9 7 (by omega) _ _ rfl rfl, starter_miss hT 9 8 (by omega) _ _ rfl rfl, stripT_append]

/-- atoms with a prefix -/
theorem dec_atom (e : Str × AtomHead) (he : e ∈ C.tyAtoms) (n : Str) (hn : tyNameOK C n = true) (rest : List Str)
    (f : Nat) :
    decT C (f + 1) (C.words e.1 ++ (C.dbg n :: rest)) = (buildAtomT e.2 n).map (·, rest) := by
  have hmem : e.1 ∈ tyStarters C := by
    simp only [tyAtoms, List.mem_cons, List.not_mem_nil, or_false] at he
    rcases he with rfl | rfl | rfl | rfl | rfl | rfl <;> simp [tyStarters]
  obtain ⟨tok, rest0, e0, hnn⟩ := starter_not_name hT e.1 hmem (C.dbg n :: rest)
  have hat := atoms_hit hT e he (C.dbg n :: rest)
  obtain ⟨hq, _⟩ := words_dbg hT.layout n hn
  have hname : isNameTok (C.dbg n) = true := by rw [hq]; rfl
  have hunq : unq (C.dbg n) = n := by rw [hq]; exact unq_quoted n
  generalize C.words e.1 ++ (C.dbg n :: rest) = toks at e0 hat ⊢
  subst e0
  rw [decT]
  simp only [hnn, Bool.false_eq_true, if_false, hat, decAtomTail, hname, if_true, hunq]

/-- a word atom -/
theorem dec_word (n : Str) (hn : tyNameOK C n = true) (rest : List Str) (f : Nat) :
    decT C (f + 1) (C.dbg n :: rest) = some (.atom .word n, rest) := by
  obtain ⟨hq, _⟩ := words_dbg hT.layout n hn
  have hname : isNameTok (C.dbg n) = true := by rw [hq]; rfl
  have hunq : unq (C.dbg n) = n := by rw [hq]; exact unq_quoted n
  rw [decT]
  simp only [hname, if_true, hunq]

/-- a compound in prefix or infix form, given decodable components -/
theorem dec_compound (conn : Str) (ck : ConnK) (hmem : (conn, ck) ∈ C.tyConns)
    (comps : List (Term × List Str)) (hne : comps ≠ [])
    (hwf : ∀ c ∈ comps, (∃ tok r, c.2 = tok :: r ∧ isNameTok tok = true) ∨ (∃ K ∈ tyStarters C, ∃ r, c.2 = C.words K ++ r))
    (hc : ∀ c ∈ comps, ∀ f rest, tb c.1 ≤ f → decT C f (c.2 ++ rest) = some (c.1, rest))
    (f : Nat) (rest : List Str) (hf : costL comps ≤ f) :
    decT C (f + 1) (serCompound C C.brCompound conn (comps.map (·.2)) ++ rest) =
      (buildT ck (comps.map (·.1))).map (·, rest) := by
  obtain ⟨_, _, _, hpc, hcs, _⟩ := tok_split hT
  have hcne : conn.isEmpty = false := by
    obtain ⟨t, ht, _⟩ := (hcs _ hmem).1
    cases conn with
    | nil => simp [hdTok, words_nil] at ht
    | cons a as => rfl
  have hcloser : C.brCompound.2 ∈ tyClosers C := by simp [tyClosers]
  unfold serCompound
  simp only [hcne, Bool.false_eq_true, if_false, List.length_map, List.append_assoc]
  rw [dec_comp hT]
  by_cases h2 : comps.length = 2
  · -- infix form
    obtain ⟨a, b, rfl⟩ : ∃ a b, comps = [a, b] := by
      match comps, h2 with
      | [a, b], _ => exact ⟨a, b, rfl⟩
    simp only [List.length_cons, List.length_nil, if_true, List.map_cons, List.map_nil, joinToks, List.append_assoc]
    have hmiss : findStrip C.words C.tyConns (a.2 ++ (C.words conn ++ (b.2 ++ (C.words C.brCompound.2 ++ rest)))) = none := by
      rcases hwf a (by simp) with ⟨tok, r', e, hn⟩ | ⟨K, hK, r', e⟩
      · rw [e]; exact conns_miss_name hT tok hn _
      · rw [e, List.append_assoc]; exact conns_miss_starter hT K hK _
    simp only [costL] at hf
    simp only [decCompTail, hmiss, hc a (by simp) f _ (by omega), findStrip_hit C _ hpc (conn, ck) hmem,
      hc b (by simp) f _ (by omega), stripT_append]
  · simp only [h2, if_false, List.append_assoc]
    simp only [decCompTail, findStrip_hit C _ hpc (conn, ck) hmem, stripT_append,
      decL_comps hT hcloser comps hne hc f rest hf]

/-- a bracketed set -/
theorem dec_bracketSet (ext : Bool) (comps : List (Term × List Str)) (hne : comps ≠ [])
    (hc : ∀ c ∈ comps, ∀ f rest, tb c.1 ≤ f → decT C f (c.2 ++ rest) = some (c.1, rest))
    (f : Nat) (rest : List Str) (hf : costL comps ≤ f) :
    decT C (f + 1) (serCompound C (if ext then C.brExtSet else C.brIntSet) [] (comps.map (·.2)) ++ rest) =
      some (.setlike (if ext then .extSet else .intSet) (Terms.ofList (comps.map (·.1))), rest) := by
  unfold serCompound
  simp only [List.isEmpty_nil, if_true, List.append_assoc]
  cases ext
  · simp only [Bool.false_eq_true, if_false]
    rw [dec_intSet hT, decL_comps hT (by simp [tyClosers]) comps hne hc f rest hf]
    rfl
  · simp only [if_true]
    rw [dec_extSet hT, decL_comps hT (by simp [tyClosers]) comps hne hc f rest hf]
    rfl

/-- a statement -/
theorem dec_statement (cop : Str) (k : BinK) (hmem : (cop, k) ∈ C.tyCops) (a b : Term) (sa sb : List Str)
    (f : Nat) (rest : List Str)
    (ha : ∀ rest, decT C f (sa ++ rest) = some (a, rest)) (hb : ∀ rest, decT C f (sb ++ rest) = some (b, rest)) :
    decT C (f + 1) (C.words C.brStatement.1 ++ (sa ++ (C.words cop ++ (sb ++ C.words C.brStatement.2))) ++ rest) =
      some (.bin k a b, rest) := by
  obtain ⟨_, _, _, _, _, hpk, _⟩ := tok_split hT
  simp only [List.append_assoc]
  rw [dec_stmt hT]
  simp only [decStmtTail, ha, findStrip_hit C _ hpk (cop, k) hmem, hb, stripT_append, Option.map_some]

end

end Narsese
