/-
  Typst injectivity, part 4: a decoder for token serializations, and `decode (ser t ++ rest) = (t, rest)`.
  Hence `ser` (and with it the rendering) is injective.
-/
import Proofs.Typst.SerSpec
set_option autoImplicit false

namespace Narsese
open TypstConsts

/-- strip a list of tokens from the front -/
def stripT : List Str → List Str → Option (List Str)
  | [], s => some s
  | _ :: _, [] => none
  | k :: ks, c :: cs => if k = c then stripT ks cs else none

theorem stripT_append (k r : List Str) : stripT k (k ++ r) = some r := by
  induction k with
  | nil => rfl
  | cons a as ih => simp [stripT, ih]

/-- a keyword whose first token differs from the first token of the text does not match -/
theorem stripT_head_ne {k s : List Str} (hk : k ≠ []) (h : ∀ a ∈ k.head?, ∀ b ∈ s.head?, a ≠ b) : stripT k s = none := by
  cases k with
  | nil => exact absurd rfl hk
  | cons a as =>
    cases s with
    | nil => rfl
    | cons b bs =>
      have := h a (by simp) b (by simp)
      simp [stripT, this]

def isNameTok (s : Str) : Bool := s.head? == some '"'
/-- remove the surrounding quotes -/
def unq (s : Str) : Str := (s.drop 1).dropLast

theorem unq_quoted (n : Str) : unq ('"' :: (n ++ ['"'])) = n := by
  simp [unq]

/-- first entry of a keyword table whose tokens are a prefix of the text -/
def findStrip {β : Type} (W : Str → List Str) : List (Str × β) → List Str → Option (β × List Str)
  | [], _ => none
  | (k, b) :: es, toks =>
    match stripT (W k) toks with
    | some r => some (b, r)
    | none => findStrip W es toks

namespace TypstConsts

def tyConns (C : TypstConsts) : List (Str × EFormat.ConnK) :=
  [ (C.cExtInt, .set .extInt), (C.cIntInt, .set .intInt), (C.cExtDiff, .diff .extDiff), (C.cIntDiff, .diff .intDiff),
    (C.cProduct, .seq .product), (C.cExtImg, .img .ext), (C.cIntImg, .img .int), (C.cConj, .set .conj),
    (C.cDisj, .set .disj), (C.cNeg, .neg), (C.cSeqConj, .seq .seqConj), (C.cParConj, .set .parConj) ]

def tyCops (C : TypstConsts) : List (Str × BinK) :=
  [ (C.copInh, .inh), (C.copSim, .sim), (C.copImpl, .impl), (C.copEquiv, .equiv), (C.copImplPred, .implPred),
    (C.copImplConc, .implConc), (C.copImplRetro, .implRetro), (C.copEquivPred, .equivPred), (C.copEquivConc, .equivConc) ]

def tyAtoms (C : TypstConsts) : List (Str × EFormat.AtomHead) :=
  [ (C.prePlaceholder, .placeholder), (C.preIVar, .named .ivar), (C.preDVar, .named .dvar), (C.preQVar, .named .qvar),
    (C.preInterval, .interval), (C.preOperator, .named .op) ]

end TypstConsts

/-- what a connecter class builds from its components (no de-duplication: the decoder returns the printed order) -/
def buildT (ck : EFormat.ConnK) (ts : List Term) : Option Term :=
  match ck with
  | .neg =>
    match ts with
    | [t] => some (.neg t)
    | _ => none
  | .diff k =>
    match ts with
    | [a, b] => some (.bin k a b)
    | _ => none
  | .img k =>
    match extractPlaceholder ts with
    | some (i, ts') => some (.image k i (Terms.ofList ts'))
    | none => none
  | .seq k => some (.seqlike k (Terms.ofList ts))
  | .set k => some (.setlike k (Terms.ofList ts))
  | .operatorUnsupported => none

def buildAtomT : EFormat.AtomHead → Str → Option Term
  | .named k, name => some (.atom k name)
  | .placeholder, _ => some .placeholder
  | .interval, name => (parseUsize name).map .interval

/-- after an atom prefix: the quoted name -/
def decAtomTail (hd : EFormat.AtomHead) (r : List Str) : Option (Term × List Str) :=
  match r with
  | tok2 :: rest => if isNameTok tok2 then (buildAtomT hd (unq tok2)).map (·, rest) else none
  | [] => none

def wrapSet (k : SetK) (x : Option (List Term × List Str)) : Option (Term × List Str) :=
  x.map (fun p => (.setlike k (Terms.ofList p.1), p.2))

/-- inside statement brackets: subject, copula, predicate, closer -/
def decStmtTail (C : TypstConsts) (recT : List Str → Option (Term × List Str)) (r : List Str) :
    Option (Term × List Str) :=
  match recT r with
  | some (a, r1) =>
    match findStrip C.words C.tyCops r1 with
    | some (k, r2) =>
      match recT r2 with
      | some (b, r3) => (stripT (C.words C.brStatement.2) r3).map (fun rest => (.bin k a b, rest))
      | none => none
    | none => none
  | none => none

/-- inside compound brackets: prefix form (connecter first) or infix form (two components) -/
def decCompTail (C : TypstConsts) (recT : List Str → Option (Term × List Str))
    (recL : List Str → List Str → Option (List Term × List Str)) (r : List Str) : Option (Term × List Str) :=
  match findStrip C.words C.tyConns r with
  | some (ck, r1) =>
    match stripT (C.words C.sepCompound) r1 with
    | some r2 =>
      match recL r2 (C.words C.brCompound.2) with
      | some (l, rest) => (buildT ck l).map (·, rest)
      | none => none
    | none => none
  | none =>
    match recT r with
    | some (a, r1) =>
      match findStrip C.words C.tyConns r1 with
      | some (ck, r2) =>
        match recT r2 with
        | some (b, r3) =>
          match stripT (C.words C.brCompound.2) r3 with
          | some rest => (buildT ck [a, b]).map (·, rest)
          | none => none
        | none => none
      | none => none
    | none => none

/-- the four bracketed forms -/
def decOpeners (C : TypstConsts) (recT : List Str → Option (Term × List Str))
    (recL : List Str → List Str → Option (List Term × List Str)) (toks : List Str) : Option (Term × List Str) :=
  match stripT (C.words C.brExtSet.1) toks with
  | some r => wrapSet .extSet (recL r (C.words C.brExtSet.2))
  | none =>
    match stripT (C.words C.brIntSet.1) toks with
    | some r => wrapSet .intSet (recL r (C.words C.brIntSet.2))
    | none =>
      match stripT (C.words C.brStatement.1) toks with
      | some r => decStmtTail C recT r
      | none =>
        match stripT (C.words C.brCompound.1) toks with
        | some r => decCompTail C recT recL r
        | none => none

/-- one element of a component list, then the closer or the separator -/
def decLStep (C : TypstConsts) (recL : List Str → List Str → Option (List Term × List Str)) (close : List Str)
    (t : Term) (r1 : List Str) : Option (List Term × List Str) :=
  match stripT close r1 with
  | some rest => some ([t], rest)
  | none =>
    match stripT (C.words C.sepCompound) r1 with
    | some r2 => (recL r2 close).map (fun p => (t :: p.1, p.2))
    | none => none

mutual
  /-- decode one term from the front of a token list -/
  def decT (C : TypstConsts) : Nat → List Str → Option (Term × List Str)
    | 0, _ => none
    | f + 1, toks =>
      match toks with
      | [] => none
      | tok :: rest0 =>
        if isNameTok tok then some (.atom .word (unq tok), rest0)
        else
          match findStrip C.words C.tyAtoms (tok :: rest0) with
          | some (hd, r) => decAtomTail hd r
          | none => decOpeners C (decT C f) (decL C f) (tok :: rest0)
  /-- decode components separated by the separator up to the closing tokens -/
  def decL (C : TypstConsts) : Nat → List Str → List Str → Option (List Term × List Str)
    | 0, _, _ => none
    | f + 1, toks, close =>
      match decT C f toks with
      | some (t, r1) => decLStep C (decL C f) close t r1
      | none => none
end

end Narsese
