/-
  Typst injectivity, part 9: the decoder inverts the serialization of every well-formed term; the rendering
  of terms is injective.
-/
import Proofs.Typst.Round
import Props.C14
import Props.C10a
import Proofs.C03.Fold
set_option autoImplicit false

namespace Narsese
open TypstConsts EFormat

/-- the components of a list with their serializations -/
def compsOf (C : TypstConsts) : Terms → List (Term × List Str)
  | .nil => []
  | .cons t ts => (t, ser C t) :: compsOf C ts

/-- the components of an image (placeholder inserted) with their serializations -/
def compsImg (C : TypstConsts) (idx : Nat) : Nat → Terms → List (Term × List Str)
  | now, .nil => if now = idx then [(.placeholder, ser C .placeholder)] else []
  | now, .cons t ts =>
    if now = idx then (.placeholder, ser C .placeholder) :: (t, ser C t) :: compsImg C idx (now + 2) ts
    else (t, ser C t) :: compsImg C idx (now + 1) ts

theorem compsOf_fst (C : TypstConsts) : ∀ ts : Terms, (compsOf C ts).map (·.1) = ts.toList
  | .nil => rfl
  | .cons t ts => by simp [compsOf, Terms.toList, compsOf_fst C ts]
theorem compsOf_snd (C : TypstConsts) : ∀ ts : Terms, (compsOf C ts).map (·.2) = sers C ts
  | .nil => rfl
  | .cons t ts => by simp [compsOf, sers, compsOf_snd C ts]
theorem compsOf_cost (C : TypstConsts) : ∀ ts : Terms, costL (compsOf C ts) = lb ts
  | .nil => rfl
  | .cons t ts => by simp [compsOf, costL, lb, compsOf_cost C ts]
theorem compsOf_ne (C : TypstConsts) (ts : Terms) (h : ts.isEmpty = false) : compsOf C ts ≠ [] := by
  cases ts <;> simp_all [compsOf, Terms.isEmpty]

theorem compsImg_fst (C : TypstConsts) (idx : Nat) : ∀ (now : Nat) (ts : Terms),
    (compsImg C idx now ts).map (·.1) = imageIter idx now ts.toList
  | now, .nil => by simp only [compsImg, imageIter, Terms.toList]; split <;> rfl
  | now, .cons t ts => by
    simp only [compsImg, imageIter, Terms.toList]
    split
    · simp [compsImg_fst C idx (now + 2) ts]
    · simp [compsImg_fst C idx (now + 1) ts]
theorem compsImg_snd (C : TypstConsts) (idx : Nat) : ∀ (now : Nat) (ts : Terms),
    (compsImg C idx now ts).map (·.2) = serImage C idx now ts
  | now, .nil => by simp only [compsImg, serImage]; split <;> simp [ser]
  | now, .cons t ts => by
    simp only [compsImg, serImage]
    split
    · simp [ser, compsImg_snd C idx (now + 2) ts]
    · simp [compsImg_snd C idx (now + 1) ts]
theorem compsImg_after (C : TypstConsts) (idx : Nat) : ∀ (now : Nat) (ts : Terms), idx < now →
    compsImg C idx now ts = compsOf C ts
  | now, .nil, h => by simp [compsImg, compsOf, Nat.ne_of_gt h]
  | now, .cons t ts, h => by
    simp only [compsImg, compsOf, Nat.ne_of_gt h, if_false]
    rw [compsImg_after C idx (now + 1) ts (by omega)]
theorem compsImg_cost (C : TypstConsts) (idx : Nat) : ∀ (now : Nat) (ts : Terms),
    costL (compsImg C idx now ts) ≤ lb ts + 2
  | now, .nil => by simp only [compsImg]; split <;> simp [costL, tb, lb]
  | now, .cons t ts => by
    simp only [compsImg]
    split
    · next h =>
      rw [compsImg_after C idx (now + 2) ts (by omega)]
      simp only [costL, tb, lb, compsOf_cost]; omega
    · have := compsImg_cost C idx (now + 1) ts
      simp only [costL, lb]; omega
theorem compsImg_ne (C : TypstConsts) (idx : Nat) (ts : Terms) (h : idx ≤ ts.length) : ∀ (now : Nat), now ≤ idx →
    idx ≤ now + ts.length → compsImg C idx now ts ≠ [] := by
  intro now h1 h2
  cases ts with
  | nil =>
    simp only [Terms.length] at h2
    have : now = idx := by omega
    simp [compsImg, this]
  | cons t ts => simp only [compsImg]; split <;> simp

section
variable {C : TypstConsts} (hT : TypstOK C)
include hT

def CompOK (C : TypstConsts) (c : Term × List Str) : Prop :=
  ((∃ tok r, c.2 = tok :: r ∧ isNameTok tok = true) ∨ (∃ K ∈ tyStarters C, ∃ r, c.2 = C.words K ++ r)) ∧
  ∀ f rest, tb c.1 ≤ f → decT C f (c.2 ++ rest) = some (c.1, rest)

theorem extract_imageIter (i : Nat) (ts : Terms) (hi : i ≤ ts.length) (hnp : noPh ts = true) :
    extractPlaceholder (imageIter i 0 ts.toList) = some (i, ts.toList) := by
  have hil : i ≤ ts.toList.length := by simpa [Terms.length_toList] using hi
  have hiter : imageIter i 0 ts.toList = ts.toList.take i ++ .placeholder :: ts.toList.drop i := by
    rw [Props.C14.imageIterator_eq_insert i ts.toList hil]; simp
  have := Props.C10.image_index_enum (ts.toList.take i) (ts.toList.drop i)
    (fun t ht => noPh_toList' ts hnp t (List.mem_of_mem_take ht))
  rw [hiter, this]
  simp [hil]

theorem dec_placeholder (f : Nat) (rest : List Str) (hf : tb .placeholder ≤ f) :
    decT C f (ser C .placeholder ++ rest) = some (.placeholder, rest) := by
  obtain ⟨f, rfl⟩ : ∃ f', f = f' + 1 := ⟨f - 1, by simp only [tb] at hf; omega⟩
  have := dec_atom hT (C.prePlaceholder, .placeholder) (by simp [tyAtoms]) [] rfl rest f
  simpa [ser, buildAtomT, List.append_assoc] using this

mutual
  theorem dec_ser : ∀ (t : Term), wfTy C t = true → ∀ (f : Nat) (rest : List Str), tb t ≤ f →
      decT C f (ser C t ++ rest) = some (t, rest)
    | .atom k n, ht, f, rest, hf => by
      simp only [wfTy] at ht
      obtain ⟨f, rfl⟩ : ∃ f', f = f' + 1 := ⟨f - 1, by simp only [tb] at hf; omega⟩
      obtain ⟨hpw, _⟩ := tok_split hT
      cases k with
      | word =>
        simp only [ser, atomFeature, hpw, words_nil, List.nil_append, List.singleton_append]
        exact dec_word hT n ht rest f
      | ivar =>
        have := dec_atom hT (C.preIVar, .named .ivar) (by simp [tyAtoms]) n ht rest f
        simpa [ser, atomFeature, buildAtomT, List.append_assoc] using this
      | dvar =>
        have := dec_atom hT (C.preDVar, .named .dvar) (by simp [tyAtoms]) n ht rest f
        simpa [ser, atomFeature, buildAtomT, List.append_assoc] using this
      | qvar =>
        have := dec_atom hT (C.preQVar, .named .qvar) (by simp [tyAtoms]) n ht rest f
        simpa [ser, atomFeature, buildAtomT, List.append_assoc] using this
      | op =>
        have := dec_atom hT (C.preOperator, .named .op) (by simp [tyAtoms]) n ht rest f
        simpa [ser, atomFeature, buildAtomT, List.append_assoc] using this
    | .placeholder, _, f, rest, hf => dec_placeholder hT f rest hf
    | .interval n, ht, f, rest, hf => by
      simp only [wfTy, decide_eq_true_eq] at ht
      obtain ⟨f, rfl⟩ : ∃ f', f = f' + 1 := ⟨f - 1, by simp only [tb] at hf; omega⟩
      have := dec_atom hT (C.preInterval, .interval) (by simp [tyAtoms]) (showNat n) (digits_ok hT.layout hT.digits n) rest f
      simpa [ser, buildAtomT, parseUsize_showNat n ht, List.append_assoc] using this
    | .setlike k ts, ht, f, rest, hf => by
      simp only [wfTy, Bool.and_eq_true, Bool.not_eq_true'] at ht
      simp only [tb] at hf
      obtain ⟨f, rfl⟩ : ∃ f', f = f' + 1 := ⟨f - 1, by omega⟩
      have hall := dec_comps ts ht.2
      have hne := compsOf_ne C ts ht.1
      have hcost : costL (compsOf C ts) ≤ f := by rw [compsOf_cost]; omega
      have hconn : ∀ conn, (conn, ConnK.set k) ∈ C.tyConns →
          decT C (f + 1) (serCompound C C.brCompound conn (sers C ts) ++ rest) = some (.setlike k ts, rest) := by
        intro conn hmem
        have := dec_compound hT conn (.set k) hmem (compsOf C ts) hne (fun c hc => (hall c hc).1)
          (fun c hc => (hall c hc).2) f rest hcost
        rw [compsOf_snd, compsOf_fst] at this
        simpa [buildT, Terms.ofList_toList] using this
      cases k with
      | extSet =>
        have := dec_bracketSet hT true (compsOf C ts) hne (fun c hc => (hall c hc).2) f rest hcost
        rw [compsOf_snd, compsOf_fst] at this
        simpa [ser, TypstConsts.setBrackets, setFeature, Terms.ofList_toList] using this
      | intSet =>
        have := dec_bracketSet hT false (compsOf C ts) hne (fun c hc => (hall c hc).2) f rest hcost
        rw [compsOf_snd, compsOf_fst] at this
        simpa [ser, TypstConsts.setBrackets, setFeature, Terms.ofList_toList] using this
      | extInt => simpa [ser, TypstConsts.setBrackets, setFeature] using hconn C.cExtInt (by simp [tyConns])
      | intInt => simpa [ser, TypstConsts.setBrackets, setFeature] using hconn C.cIntInt (by simp [tyConns])
      | conj => simpa [ser, TypstConsts.setBrackets, setFeature] using hconn C.cConj (by simp [tyConns])
      | disj => simpa [ser, TypstConsts.setBrackets, setFeature] using hconn C.cDisj (by simp [tyConns])
      | parConj => simpa [ser, TypstConsts.setBrackets, setFeature] using hconn C.cParConj (by simp [tyConns])
    | .seqlike k ts, ht, f, rest, hf => by
      simp only [wfTy, Bool.and_eq_true, Bool.not_eq_true'] at ht
      simp only [tb] at hf
      obtain ⟨f, rfl⟩ : ∃ f', f = f' + 1 := ⟨f - 1, by omega⟩
      have hall := dec_comps ts ht.2
      have hne := compsOf_ne C ts ht.1
      have hcost : costL (compsOf C ts) ≤ f := by rw [compsOf_cost]; omega
      have hconn : ∀ conn, (conn, ConnK.seq k) ∈ C.tyConns →
          decT C (f + 1) (serCompound C C.brCompound conn (sers C ts) ++ rest) = some (.seqlike k ts, rest) := by
        intro conn hmem
        have := dec_compound hT conn (.seq k) hmem (compsOf C ts) hne (fun c hc => (hall c hc).1)
          (fun c hc => (hall c hc).2) f rest hcost
        rw [compsOf_snd, compsOf_fst] at this
        simpa [buildT, Terms.ofList_toList] using this
      cases k with
      | product => simpa [ser] using hconn C.cProduct (by simp [tyConns])
      | seqConj => simpa [ser] using hconn C.cSeqConj (by simp [tyConns])
    | .image k i ts, ht, f, rest, hf => by
      simp only [wfTy, Bool.and_eq_true, decide_eq_true_eq] at ht
      obtain ⟨⟨hi, hwf⟩, hnp⟩ := ht
      simp only [tb] at hf
      obtain ⟨f, rfl⟩ : ∃ f', f = f' + 1 := ⟨f - 1, by omega⟩
      have hall := dec_compsImg i 0 ts hwf
      have hne := compsImg_ne C i ts hi 0 (Nat.zero_le _) (by omega)
      have hcost : costL (compsImg C i 0 ts) ≤ f := by have := compsImg_cost C i 0 ts; omega
      have hconn : ∀ conn, (conn, ConnK.img k) ∈ C.tyConns →
          decT C (f + 1) (serCompound C C.brCompound conn (serImage C i 0 ts) ++ rest) = some (.image k i ts, rest) := by
        intro conn hmem
        have := dec_compound hT conn (.img k) hmem (compsImg C i 0 ts) hne (fun c hc => (hall c hc).1)
          (fun c hc => (hall c hc).2) f rest hcost
        rw [compsImg_snd, compsImg_fst] at this
        simpa [buildT, extract_imageIter hT i ts hi hnp, Terms.ofList_toList] using this
      cases k with
      | ext => simpa [ser] using hconn C.cExtImg (by simp [tyConns])
      | int => simpa [ser] using hconn C.cIntImg (by simp [tyConns])
    | .neg t, ht, f, rest, hf => by
      simp only [wfTy] at ht
      simp only [tb] at hf
      obtain ⟨f, rfl⟩ : ∃ f', f = f' + 1 := ⟨f - 1, by omega⟩
      have h1 : CompOK C (t, ser C t) := ⟨ser_starts hT t ht, fun f' rest' hf' => dec_ser t ht f' rest' hf'⟩
      have := dec_compound hT C.cNeg .neg (by simp [tyConns]) [(t, ser C t)] (by simp)
        (fun c hc => by simp at hc; subst hc; exact h1.1) (fun c hc => by simp at hc; subst hc; exact h1.2)
        f rest (by simp only [costL]; omega)
      simpa [ser, buildT] using this
    | .bin k a b, ht, f, rest, hf => by
      simp only [wfTy, Bool.and_eq_true] at ht
      simp only [tb] at hf
      obtain ⟨f, rfl⟩ : ∃ f', f = f' + 1 := ⟨f - 1, by omega⟩
      have ha : CompOK C (a, ser C a) := ⟨ser_starts hT a ht.1, fun f' rest' hf' => dec_ser a ht.1 f' rest' hf'⟩
      have hb : CompOK C (b, ser C b) := ⟨ser_starts hT b ht.2, fun f' rest' hf' => dec_ser b ht.2 f' rest' hf'⟩
      have diff : ∀ conn, (conn, ConnK.diff k) ∈ C.tyConns →
          decT C (f + 1) (serCompound C C.brCompound conn [ser C a, ser C b] ++ rest) = some (.bin k a b, rest) := by
        intro conn hmem
        have := dec_compound hT conn (.diff k) hmem [(a, ser C a), (b, ser C b)] (by simp)
          (fun c hc => by simp at hc; rcases hc with rfl | rfl; exact ha.1; exact hb.1)
          (fun c hc => by simp at hc; rcases hc with rfl | rfl; exact ha.2; exact hb.2)
          f rest (by simp only [costL]; omega)
        simpa [buildT] using this
      have stmt : ∀ cop, (cop, k) ∈ C.tyCops →
          decT C (f + 1) (C.words C.brStatement.1 ++ (ser C a ++ (C.words cop ++ (ser C b ++ C.words C.brStatement.2))) ++ rest)
            = some (.bin k a b, rest) := by
        intro cop hmem
        exact dec_statement hT cop k hmem a b _ _ f rest (fun r => ha.2 f r (by show tb a ≤ f; omega)) (fun r => hb.2 f r (by show tb b ≤ f; omega))
      cases k with
      | extDiff => simpa [ser, BinK.isStatement, binFeature] using diff C.cExtDiff (by simp [tyConns])
      | intDiff => simpa [ser, BinK.isStatement, binFeature] using diff C.cIntDiff (by simp [tyConns])
      | inh => simpa [ser, BinK.isStatement, binFeature] using stmt C.copInh (by simp [tyCops])
      | sim => simpa [ser, BinK.isStatement, binFeature] using stmt C.copSim (by simp [tyCops])
      | impl => simpa [ser, BinK.isStatement, binFeature] using stmt C.copImpl (by simp [tyCops])
      | equiv => simpa [ser, BinK.isStatement, binFeature] using stmt C.copEquiv (by simp [tyCops])
      | implPred => simpa [ser, BinK.isStatement, binFeature] using stmt C.copImplPred (by simp [tyCops])
      | implConc => simpa [ser, BinK.isStatement, binFeature] using stmt C.copImplConc (by simp [tyCops])
      | implRetro => simpa [ser, BinK.isStatement, binFeature] using stmt C.copImplRetro (by simp [tyCops])
      | equivPred => simpa [ser, BinK.isStatement, binFeature] using stmt C.copEquivPred (by simp [tyCops])
      | equivConc => simpa [ser, BinK.isStatement, binFeature] using stmt C.copEquivConc (by simp [tyCops])
  theorem dec_comps : ∀ (ts : Terms), wfTys C ts = true → ∀ c ∈ compsOf C ts, CompOK C c
    | .nil, _, c, hc => by simp [compsOf] at hc
    | .cons t ts, h, c, hc => by
      simp only [wfTys, Bool.and_eq_true] at h
      simp only [compsOf, List.mem_cons] at hc
      rcases hc with hc | hc
      · rw [hc]
        exact ⟨ser_starts hT t h.1, fun f rest hf => dec_ser t h.1 f rest hf⟩
      · exact dec_comps ts h.2 c hc
  theorem dec_compsImg (idx : Nat) : ∀ (now : Nat) (ts : Terms), wfTys C ts = true →
      ∀ c ∈ compsImg C idx now ts, CompOK C c
    | now, .nil, _, c, hc => by
      simp only [compsImg] at hc
      split at hc
      · simp only [List.mem_singleton] at hc
        rw [hc]
        exact ⟨ser_starts hT .placeholder rfl, fun f rest hf => dec_placeholder hT f rest hf⟩
      · simp at hc
    | now, .cons t ts, h, c, hc => by
      simp only [wfTys, Bool.and_eq_true] at h
      simp only [compsImg] at hc
      split at hc
      · simp only [List.mem_cons] at hc
        rcases hc with hc | hc | hc
        · rw [hc]
          exact ⟨ser_starts hT .placeholder rfl, fun f rest hf => dec_placeholder hT f rest hf⟩
        · rw [hc]
          exact ⟨ser_starts hT t h.1, fun f rest hf => dec_ser t h.1 f rest hf⟩
        · exact dec_compsImg idx (now + 2) ts h.2 c hc
      · simp only [List.mem_cons] at hc
        rcases hc with hc | hc
        · rw [hc]
          exact ⟨ser_starts hT t h.1, fun f rest hf => dec_ser t h.1 f rest hf⟩
        · exact dec_compsImg idx (now + 1) ts h.2 c hc
end

/-- the token serialization is injective -/
theorem ser_injective (t u : Term) (ht : wfTy C t = true) (hu : wfTy C u = true) (h : ser C t = ser C u) : t = u := by
  have h1 := dec_ser hT t ht (tb t + tb u) [] (by omega)
  have h2 := dec_ser hT u hu (tb t + tb u) [] (by omega)
  rw [h, h2] at h1
  simp only [Option.some.injEq, Prod.mk.injEq] at h1
  exact h1.1.symm

/-- **the Typst rendering of terms is injective** -/
theorem typstTerm_injective (t u : Term) (ht : wfTy C t = true) (hu : wfTy C u = true)
    (h : C.typstTerm t = C.typstTerm u) : t = u := by
  apply ser_injective hT t u ht hu
  have := congrArg C.words h
  simp only [typstTerm, words_post] at this
  rwa [words_raw hT.layout hT.digits t ht, words_raw hT.layout hT.digits u hu] at this

end

end Narsese
