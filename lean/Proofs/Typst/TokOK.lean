/-
  Typst injectivity, part 5: the decidable condition on the markup constants under which the token
  serialization is uniquely decodable, and the dispatch facts derived from it.
-/
import Proofs.Typst.Decode
set_option autoImplicit false

namespace Narsese
open TypstConsts

/-- first token of a constant -/
def hdTok (C : TypstConsts) (k : Str) : Option Str := (C.words k).head?

/-- constants a term's serialization can begin with (besides a quoted name) -/
def tyStarters (C : TypstConsts) : List Str :=
  [C.prePlaceholder, C.preIVar, C.preDVar, C.preQVar, C.preInterval, C.preOperator,
   C.brExtSet.1, C.brIntSet.1, C.brStatement.1, C.brCompound.1]

def tyClosers (C : TypstConsts) : List Str := [C.brExtSet.2, C.brIntSet.2, C.brCompound.2, C.brStatement.2]

def optNe (a b : Option Str) : Bool := a.isSome && b.isSome && !(a == b)

/-- decidable: first tokens tell everything apart -/
def typstTokOKB (C : TypstConsts) : Bool :=
  C.preWord.isEmpty &&
  -- starters: pairwise different first tokens, none looks like a quoted name
  pairwiseB optNe ((tyStarters C).map (hdTok C)) &&
  (tyStarters C).all (fun k => (hdTok C k).any (fun t => !isNameTok t)) &&
  -- connecters: pairwise different first tokens, different from every starter, not a quoted name
  pairwiseB optNe (C.tyConns.map (fun e => hdTok C e.1)) &&
  C.tyConns.all (fun e => (hdTok C e.1).any (fun t => !isNameTok t) &&
    (tyStarters C).all (fun k => optNe (hdTok C e.1) (hdTok C k))) &&
  -- copulas
  pairwiseB optNe (C.tyCops.map (fun e => hdTok C e.1)) &&
  -- separator vs closers
  (tyClosers C).all (fun k => optNe (hdTok C k) (hdTok C C.sepCompound))

structure TypstOK (C : TypstConsts) : Prop where
  layout : typstLayoutB C = true
  digits : (List.range 10).all (fun d => tyNameOK C [digitChar d]) = true
  tok : typstTokOKB C = true

theorem optNe_spec {a b : Option Str} (h : optNe a b = true) : ∃ x y, a = some x ∧ b = some y ∧ x ≠ y := by
  cases a <;> cases b <;> simp_all [optNe]

/-- a keyword does not match a text whose first token differs from the keyword's first token -/
theorem stripT_optNe {C : TypstConsts} {k : Str} {s : List Str} {h : Option Str} (hs : s.head? = h)
    (hne : optNe (hdTok C k) h = true) : stripT (C.words k) s = none := by
  obtain ⟨x, y, hx, hy, hxy⟩ := optNe_spec hne
  apply stripT_head_ne
  · intro h0; simp [hdTok, h0] at hx
  · intro a ha b hb
    simp only [hdTok] at hx
    rw [hx] at ha; rw [hs, hy] at hb
    simp only [Option.mem_def, Option.some.injEq] at ha hb
    subst ha; subst hb; exact hxy

/-- in a table with pairwise different first tokens the written entry is found -/
theorem findStrip_hit {β : Type} (C : TypstConsts) : ∀ (tbl : List (Str × β)),
    pairwiseB optNe (tbl.map (fun e => hdTok C e.1)) = true → ∀ (e : Str × β), e ∈ tbl → ∀ r,
    findStrip C.words tbl (C.words e.1 ++ r) = some (e.2, r)
  | [], _, e, he, _ => by simp at he
  | x :: xs, hp, e, he, r => by
    obtain ⟨k, b⟩ := x
    simp only [List.map_cons, pairwiseB, Bool.and_eq_true, List.all_eq_true] at hp
    simp only [List.mem_cons] at he
    rcases he with rfl | he
    · simp [findStrip, stripT_append]
    · have hne := hp.1 (hdTok C e.1) (List.mem_map.mpr ⟨e, he, rfl⟩)
      obtain ⟨x', y', hx, hy, hxy⟩ := optNe_spec hne
      have hhead : (C.words e.1 ++ r).head? = hdTok C e.1 := by
        simp only [hdTok] at hy ⊢
        cases hw : C.words e.1 with
        | nil => simp [hw] at hy
        | cons a as => simp
      have := stripT_optNe (C := C) (k := k) hhead hne
      simp only [findStrip, this]
      exact findStrip_hit C xs hp.2 e he r

/-- no entry matches a text whose first token differs from all first tokens of the table -/
theorem findStrip_miss {β : Type} (C : TypstConsts) : ∀ (tbl : List (Str × β)) (s : List Str) (h : Option Str),
    s.head? = h → (∀ e ∈ tbl, optNe (hdTok C e.1) h = true) → findStrip C.words tbl s = none
  | [], _, _, _, _ => rfl
  | (k, b) :: xs, s, h, hs, hall => by
    have := stripT_optNe (C := C) (k := k) hs (hall (k, b) (by simp))
    simp only [findStrip, this]
    exact findStrip_miss C xs s h hs (fun e he => hall e (by simp [he]))

end Narsese
