/-
  Typst injectivity, part 1: the words of a string (maximal runs of non-whitespace characters);
  `post_process_whitespace` does not change them.
-/
import NarseseModel.Typst
set_option autoImplicit false

namespace Narsese
open TypstConsts

namespace TypstConsts

/-- split at whitespace, dropping empty pieces; `cur` is the (reversed) word being read -/
def wordsAux (C : TypstConsts) : Str → Str → List Str
  | cur, [] => if cur.isEmpty then [] else [cur.reverse]
  | cur, c :: cs =>
    if C.isWs c then (if cur.isEmpty then wordsAux C [] cs else cur.reverse :: wordsAux C [] cs)
    else wordsAux C (c :: cur) cs

def words (C : TypstConsts) (s : Str) : List Str := C.wordsAux [] s

end TypstConsts

variable (C : TypstConsts)

/-- the pending word, if any -/
def pend (cur : Str) : List Str := if cur.isEmpty then [] else [cur.reverse]

theorem wordsAux_nil (cur : Str) : C.wordsAux cur [] = pend cur := rfl

/-- a string beginning with whitespace closes the pending word -/
theorem wordsAux_ws (cur : Str) (c : Char) (cs : Str) (h : C.isWs c = true) :
    C.wordsAux cur (c :: cs) = pend cur ++ C.words cs := by
  unfold wordsAux pend words
  by_cases hc : cur.isEmpty = true <;> simp [h, hc]

theorem wordsAux_nws (cur : Str) (c : Char) (cs : Str) (h : C.isWs c = false) :
    C.wordsAux cur (c :: cs) = C.wordsAux (c :: cur) cs := by
  rw [wordsAux]; simp [h]

/-- appending something that starts with whitespace (or nothing) -/
theorem wordsAux_append_ws : ∀ (a cur b : Str), (∀ x ∈ b.head?, C.isWs x = true) →
    C.wordsAux cur (a ++ b) = C.wordsAux cur a ++ C.words b
  | [], cur, b, hb => by
    cases b with
    | nil => simp [wordsAux_nil, words, wordsAux, pend]
    | cons x xs =>
      have hx := hb x (by simp)
      rw [List.nil_append, wordsAux_ws C cur x xs hx, wordsAux_nil]
      have : C.words (x :: xs) = C.words xs := by
        rw [words, wordsAux_ws C [] x xs hx]; simp [pend]
      rw [this]
  | c :: a, cur, b, hb => by
    simp only [List.cons_append]
    by_cases hc : C.isWs c = true
    · rw [wordsAux_ws C cur c _ hc, wordsAux_ws C cur c a hc, words, wordsAux_append_ws a [] b hb, List.append_assoc]
      rfl
    · have hc' : C.isWs c = false := by simpa using hc
      rw [wordsAux_nws C cur c _ hc', wordsAux_nws C cur c a hc']
      exact wordsAux_append_ws a (c :: cur) b hb

theorem words_append_ws (a b : Str) (hb : ∀ x ∈ b.head?, C.isWs x = true) :
    C.words (a ++ b) = C.words a ++ C.words b := wordsAux_append_ws C a [] b hb

/-- after a string ending in whitespace nothing is pending -/
theorem wordsAux_end_ws : ∀ (a cur b : Str), (∃ x, a.getLast? = some x ∧ C.isWs x = true) →
    C.wordsAux cur (a ++ b) = C.wordsAux cur a ++ C.words b
  | [], _, _, h => by obtain ⟨x, hx, _⟩ := h; simp at hx
  | [c], cur, b, h => by
    obtain ⟨x, hx, hw⟩ := h
    simp only [List.getLast?_singleton, Option.some.injEq] at hx
    subst hx
    rw [List.singleton_append, wordsAux_ws C cur c b hw, wordsAux_ws C cur c [] hw]
    simp [words, wordsAux]
  | c :: c' :: a, cur, b, h => by
    have h' : ∃ x, (c' :: a).getLast? = some x ∧ C.isWs x = true := by
      obtain ⟨x, hx, hw⟩ := h
      exact ⟨x, by simpa [List.getLast?_cons_cons] using hx, hw⟩
    simp only [List.cons_append]
    by_cases hc : C.isWs c = true
    · have e1 := wordsAux_ws C cur c (c' :: (a ++ b)) hc
      have e2 := wordsAux_ws C cur c (c' :: a) hc
      have ih := wordsAux_end_ws (c' :: a) [] b h'
      simp only [List.cons_append] at ih
      rw [e1, e2, words, ih, List.append_assoc]; rfl
    · have hc' : C.isWs c = false := by simpa using hc
      have ih := wordsAux_end_ws (c' :: a) (c :: cur) b h'
      simp only [List.cons_append] at ih
      rw [wordsAux_nws C cur c _ hc', wordsAux_nws C cur c (c' :: a) hc']
      exact ih

theorem words_end_ws (a b : Str) (ha : ∃ x, a.getLast? = some x ∧ C.isWs x = true) :
    C.words (a ++ b) = C.words a ++ C.words b := wordsAux_end_ws C a [] b ha

theorem words_nil : C.words [] = [] := rfl

/-- a non-empty string without whitespace is one word -/
theorem wordsAux_noWs : ∀ (s cur : Str), (∀ c ∈ s, C.isWs c = false) → C.wordsAux cur s = pend (s.reverse ++ cur)
  | [], cur, _ => by simp [wordsAux_nil]
  | c :: cs, cur, h => by
    rw [wordsAux]
    simp only [h c (by simp), Bool.false_eq_true, if_false]
    rw [wordsAux_noWs cs (c :: cur) (fun x hx => h x (by simp [hx]))]
    simp

theorem words_noWs (s : Str) (hne : s ≠ []) (h : ∀ c ∈ s, C.isWs c = false) : C.words s = [s] := by
  rw [words, wordsAux_noWs C s [] h]
  simp [pend, hne]

/-! ### `post_process_whitespace` keeps the words -/

theorem words_dropWs : ∀ s : Str, C.words (C.dropWs s) = C.words s
  | [] => rfl
  | c :: cs => by
    unfold dropWs
    split
    · next h =>
      rw [words_dropWs cs, words, words, wordsAux_ws C [] c cs h]
      simp [pend, words]
    · rfl

/-- dropping trailing whitespace -/
theorem wordsAux_dropTrailing : ∀ (s cur : Str), C.wordsAux cur (C.dropWs s.reverse).reverse = C.wordsAux cur s := by
  intro s
  -- induction on the reversed string: `s = t.reverse`
  have key : ∀ (t cur : Str), C.wordsAux cur (C.dropWs t).reverse = C.wordsAux cur t.reverse := by
    intro t
    induction t with
    | nil => intro cur; rfl
    | cons c t ih =>
      intro cur
      unfold dropWs
      split
      · next h =>
        rw [ih cur, List.reverse_cons]
        have := wordsAux_end_ws C [c] cur [] ⟨c, by simp, h⟩
        have e := wordsAux_append_ws C t.reverse cur [c] (by intro x hx; simp at hx; subst hx; exact h)
        rw [e]
        have : C.words [c] = [] := by rw [words, wordsAux_ws C [] c [] h]; rfl
        rw [this, List.append_nil]
      · rfl
  intro cur
  have := key s.reverse cur
  simpa using this

theorem words_trim (s : Str) : C.words (C.trim s) = C.words s := by
  unfold trim
  rw [words, wordsAux_dropTrailing C (C.dropWs s) [], ← words, words_dropWs]

theorem wordsAux_squeeze : ∀ (cs : Str) (prev : Char) (cur : Str), (C.isWs prev = true → cur = []) →
    C.wordsAux cur (C.squeeze prev cs) = C.wordsAux cur cs
  | [], _, _, _ => rfl
  | c :: cs, prev, cur, h => by
    unfold squeeze
    split
    · next hb =>
      simp only [Bool.and_eq_true] at hb
      have hcur := h hb.1
      subst hcur
      rw [wordsAux_squeeze cs c [] (fun _ => rfl), wordsAux_ws C [] c cs hb.2]
      simp [pend, words]
    · by_cases hc : C.isWs c = true
      · rw [wordsAux_ws C cur c _ hc, wordsAux_ws C cur c cs hc, words, wordsAux_squeeze cs c [] (fun _ => rfl)]
        rfl
      · have hc' : C.isWs c = false := by simpa using hc
        rw [wordsAux_nws C cur c _ hc', wordsAux_nws C cur c cs hc']
        exact wordsAux_squeeze cs c (c :: cur) (fun hw => by rw [hw] at hc'; exact absurd hc' (by simp))

/-- **`post_process_whitespace` does not change the words** -/
theorem words_post (s : Str) : C.words (C.post s) = C.words s := by
  unfold post
  rw [← words_trim C s]
  cases ht : C.trim s with
  | nil => rfl
  | cons c cs =>
    show C.wordsAux [] (c :: C.squeeze c cs) = C.wordsAux [] (c :: cs)
    by_cases hc : C.isWs c = true
    · rw [wordsAux_ws C [] c _ hc, wordsAux_ws C [] c cs hc, words, wordsAux_squeeze C cs c [] (fun _ => rfl)]
      rfl
    · have hc' : C.isWs c = false := by simpa using hc
      rw [wordsAux_nws C [] c _ hc', wordsAux_nws C [] c cs hc']
      exact wordsAux_squeeze C cs c [c] (fun hw => by rw [hw] at hc'; exact absurd hc' (by simp))

end Narsese
