/-
  Typst injectivity, part 2: the word list of a rendering, as a structurally recursive token serialization.
-/
import Proofs.Typst.Words
import Proofs.RT.Defs
set_option autoImplicit false

namespace Narsese
open TypstConsts

/-- starts and ends with whitespace (hence non-empty) -/
def spacedB (C : TypstConsts) (k : Str) : Bool :=
  k.head?.any C.isWs && k.getLast?.any C.isWs
/-- empty, or ends with whitespace -/
def endsWsB (C : TypstConsts) (k : Str) : Bool := k.isEmpty || k.getLast?.any C.isWs

def typstSpacedList (C : TypstConsts) : List Str :=
  [C.brCompound.1, C.brCompound.2, C.brExtSet.1, C.brExtSet.2, C.brIntSet.1, C.brIntSet.2,
   C.brStatement.1, C.brStatement.2, C.sepCompound,
   C.cExtInt, C.cIntInt, C.cExtDiff, C.cIntDiff, C.cProduct, C.cExtImg, C.cIntImg, C.cConj, C.cDisj, C.cNeg,
   C.cSeqConj, C.cParConj,
   C.copInh, C.copSim, C.copImpl, C.copEquiv, C.copImplPred, C.copImplConc, C.copImplRetro, C.copEquivPred,
   C.copEquivConc]

def typstPrefixList (C : TypstConsts) : List Str :=
  [C.preWord, C.prePlaceholder, C.preIVar, C.preDVar, C.preQVar, C.preInterval, C.preOperator]

/-- decidable: the layout facts about the markup constants the word-level analysis needs -/
def typstLayoutB (C : TypstConsts) : Bool :=
  (typstSpacedList C).all (spacedB C) && (typstPrefixList C).all (endsWsB C) && !C.isWs '"' && C.sepStatement.isEmpty

/-- a name whose `Debug` form is the name in double quotes, without whitespace -/
def tyNameOK (C : TypstConsts) (n : Str) : Bool := n.all (fun c => inRanges C.dbgIdentTbl c && !C.isWs c)

mutual
  /-- terms whose names are plain (what the enum parsers can produce) and whose compounds are non-empty -/
  def wfTy (C : TypstConsts) : Term → Bool
    | .atom _ n => tyNameOK C n
    | .placeholder => true
    | .interval n => decide (n < 2 ^ 64)
    | .setlike _ ts => !ts.isEmpty && wfTys C ts
    | .seqlike _ ts => !ts.isEmpty && wfTys C ts
    | .image _ i ts => decide (i ≤ ts.length) && wfTys C ts && noPh ts
    | .neg t => wfTy C t
    | .bin _ a b => wfTy C a && wfTy C b
  def wfTys (C : TypstConsts) : Terms → Bool
    | .nil => true
    | .cons t ts => wfTy C t && wfTys C ts
end

/-- intercalate a token list between token lists -/
def joinToks (sep : List Str) : List (List Str) → List Str
  | [] => []
  | [x] => x
  | x :: xs => x ++ sep ++ joinToks sep xs

/-- word list of `template_compound` given the word lists of the components -/
def serCompound (C : TypstConsts) (br : Str × Str) (conn : Str) (comps : List (List Str)) : List Str :=
  C.words br.1 ++
  ((if conn.isEmpty then joinToks (C.words C.sepCompound) comps
    else if comps.length = 2 then joinToks (C.words conn) comps
    else C.words conn ++ (C.words C.sepCompound ++ joinToks (C.words C.sepCompound) comps)) ++
  C.words br.2)

mutual
  def ser (C : TypstConsts) : Term → List Str
    | .atom k n => C.words (C.atomFeature k) ++ [C.dbg n]
    | .placeholder => C.words C.prePlaceholder ++ [C.dbg []]
    | .interval n => C.words C.preInterval ++ [C.dbg (showNat n)]
    | .setlike k ts => serCompound C (C.setBrackets k) (C.setFeature k) (sers C ts)
    | .seqlike k ts =>
        serCompound C C.brCompound (match k with | .product => C.cProduct | .seqConj => C.cSeqConj) (sers C ts)
    | .image k i ts =>
        serCompound C C.brCompound (match k with | .ext => C.cExtImg | .int => C.cIntImg) (serImage C i 0 ts)
    | .neg t => serCompound C C.brCompound C.cNeg [ser C t]
    | .bin k a b =>
        if k.isStatement then
          C.words C.brStatement.1 ++ (ser C a ++ (C.words (C.binFeature k) ++ (ser C b ++ C.words C.brStatement.2)))
        else serCompound C C.brCompound (C.binFeature k) [ser C a, ser C b]
  def sers (C : TypstConsts) : Terms → List (List Str)
    | .nil => []
    | .cons t ts => ser C t :: sers C ts
  def serImage (C : TypstConsts) (idx : Nat) : Nat → Terms → List (List Str)
    | now, .nil => if now = idx then [C.words C.prePlaceholder ++ [C.dbg []]] else []
    | now, .cons t ts =>
      if now = idx then (C.words C.prePlaceholder ++ [C.dbg []]) :: ser C t :: serImage C idx (now + 2) ts
      else ser C t :: serImage C idx (now + 1) ts
end

section
variable {C : TypstConsts} (hC : typstLayoutB C = true)
include hC

theorem layout_split :
    (∀ k ∈ typstSpacedList C, spacedB C k = true) ∧ (∀ k ∈ typstPrefixList C, endsWsB C k = true) ∧
    C.isWs '"' = false ∧ C.sepStatement = [] := by
  simp only [typstLayoutB, Bool.and_eq_true, List.all_eq_true, Bool.not_eq_true', List.isEmpty_iff] at hC
  exact ⟨hC.1.1.1, hC.1.1.2, hC.1.2, hC.2⟩

omit hC in
theorem spaced_facts {k : Str} (h : spacedB C k = true) :
    (∀ x ∈ k.head?, C.isWs x = true) ∧ (∃ x, k.getLast? = some x ∧ C.isWs x = true) := by
  simp only [spacedB, Bool.and_eq_true, Option.any_eq_true] at h
  obtain ⟨⟨a, ha, hwa⟩, ⟨b, hb, hwb⟩⟩ := h
  refine ⟨?_, b, hb, hwb⟩
  intro x hx
  rw [ha] at hx
  simp only [Option.mem_def, Option.some.injEq] at hx
  subst hx; exact hwa

/-- `words (k ++ x)` for a spaced constant in front -/
theorem words_spaced_left {k : Str} (h : spacedB C k = true) (x : Str) :
    C.words (k ++ x) = C.words k ++ C.words x := words_end_ws C k x (spaced_facts h).2

theorem words_spaced_right {k : Str} (h : spacedB C k = true) (x : Str) :
    C.words (x ++ k) = C.words x ++ C.words k := words_append_ws C x k (spaced_facts h).1

theorem words_join_spaced {sep : Str} (h : spacedB C sep = true) : ∀ (strings : List Str),
    C.words (joinWith sep strings) = joinToks (C.words sep) (strings.map C.words)
  | [] => rfl
  | [x] => rfl
  | x :: y :: r => by
    have ih := words_join_spaced h (y :: r)
    simp only [joinWith, List.map_cons, joinToks] at ih ⊢
    rw [List.append_assoc, words_append_ws C x _ (by
        intro c hc
        have := (spaced_facts h).1
        cases hs : sep with
        | nil => simp [spacedB, hs] at h
        | cons a as => rw [hs] at this hc; simp at hc; exact this c (by simp [hc])),
      words_spaced_left hC h, ih]
    simp [List.append_assoc]

/-- the debug form of a plain name is one word -/
theorem words_dbg (n : Str) (hn : tyNameOK C n = true) : C.dbg n = '"' :: (n ++ ['"']) ∧ C.words (C.dbg n) = [C.dbg n] := by
  obtain ⟨_, _, hq, _⟩ := layout_split hC
  simp only [tyNameOK, List.all_eq_true, Bool.and_eq_true, Bool.not_eq_true'] at hn
  have hflat : n.flatMap C.dbgChar = n := by
    induction n with
    | nil => rfl
    | cons c cs ih =>
      have hc := hn c (by simp)
      simp only [List.flatMap_cons, dbgChar, hc.1, if_true, List.singleton_append]
      rw [ih (fun x hx => hn x (by simp [hx]))]
  have e : C.dbg n = '"' :: (n ++ ['"']) := by simp [dbg, hflat]
  refine ⟨e, ?_⟩
  apply words_noWs C _ (by simp [dbg])
  intro c hc
  rw [e] at hc
  simp only [List.mem_cons, List.mem_append, List.mem_singleton, List.not_mem_nil, or_false] at hc
  rcases hc with rfl | hc | rfl
  · exact hq
  · exact (hn c hc).2
  · exact hq

/-- a prefix followed by a quoted name -/
theorem words_prefixed {p : Str} (hp : p ∈ typstPrefixList C) (n : Str) (hn : tyNameOK C n = true) :
    C.words (p ++ C.dbg n) = C.words p ++ [C.dbg n] := by
  obtain ⟨_, hpre, _, _⟩ := layout_split hC
  have h := hpre p hp
  simp only [endsWsB, Bool.or_eq_true, List.isEmpty_iff, Option.any_eq_true] at h
  rcases h with h | ⟨x, hx, hw⟩
  · subst h; simp [words_nil, (words_dbg hC n hn).2]
  · rw [words_end_ws C p _ ⟨x, hx, hw⟩, (words_dbg hC n hn).2]

theorem tyNameOK_nil : tyNameOK C [] = true := rfl

theorem tyNameOK_showNat (n : Nat) (hd : ∀ d, d < 10 → tyNameOK C [digitChar d] = true) : tyNameOK C (showNat n) = true := by
  simp only [tyNameOK, List.all_eq_true]
  intro c hc
  obtain ⟨d, hd', rfl⟩ := showNat_chars n c hc
  have := hd d hd'
  simpa [tyNameOK] using this

end

end Narsese
