/-
  Typst injectivity, part 11: whole values — two well-formed values with the same Typst text are equal.
-/
import Proofs.Typst.Value
set_option autoImplicit false

namespace Narsese
open TypstConsts EFormat

theorem num_ext {x y : Num} (hx : x.ok = true) (hy : y.ok = true) (h : x.text = y.text) : x = y := by
  simp only [Num.ok, Bool.and_eq_true, beq_iff_eq] at hx hy
  have hb : x.bits = y.bits := by
    have h1 := hx.2; have h2 := hy.2
    rw [h] at h1; rw [h1] at h2; exact Option.some.inj h2
  cases x; cases y; simp_all

theorem numStr_of_ok {x : Num} (hx : x.ok = true) : numStrB x.text = true := by
  obtain ⟨hne, hch⟩ := num_chars x hx
  simp only [numStrB, Bool.and_eq_true, Bool.not_eq_true', List.isEmpty_eq_false_iff, List.all_eq_true, isNumCh,
    Bool.or_eq_true, beq_iff_eq]
  exact ⟨hne, hch⟩

/-- a printed number list determines the numbers -/
theorem numsTok_inj (sep : Str) (hne : sep ≠ []) (hsep : ∀ c ∈ sep.head?, isNumCh c = false) (xs ys : List Num)
    (hx : xs ≠ []) (hy : ys ≠ []) (hxo : ∀ x ∈ xs, x.ok = true) (hyo : ∀ y ∈ ys, y.ok = true)
    (h : numsTok sep xs = numsTok sep ys) : xs = ys := by
  have e1 := splitOn_join sep hsep hne (xs.map (·.text)) (by simpa using hx)
    (by intro t ht; obtain ⟨x, hx', rfl⟩ := List.mem_map.mp ht; exact numStr_of_ok (hxo x hx'))
  have e2 := splitOn_join sep hsep hne (ys.map (·.text)) (by simpa using hy)
    (by intro t ht; obtain ⟨y, hy', rfl⟩ := List.mem_map.mp ht; exact numStr_of_ok (hyo y hy'))
  simp only [numsTok] at h
  rw [h, e2] at e1
  -- equal texts, position by position
  have key : ∀ (as bs : List Num), (∀ x ∈ as, x.ok = true) → (∀ y ∈ bs, y.ok = true) →
      bs.map (·.text) = as.map (·.text) → as = bs := by
    intro as
    induction as with
    | nil => intro bs _ _ h; cases bs <;> simp_all
    | cons a as ih =>
      intro bs ha hb h
      cases bs with
      | nil => simp at h
      | cons b bs =>
        simp only [List.map_cons, List.cons.injEq] at h
        have := num_ext (ha a (by simp)) (hb b (by simp)) h.1.symm
        rw [this, ih bs (fun x hx => ha x (by simp [hx])) (fun y hy => hb y (by simp [hy])) h.2]
  exact key xs ys hxo hyo e1

/-- a token that is the text of a number list consists of number and separator characters -/
theorem numsTok_chars (sep : Str) : ∀ (xs : List Num), (∀ x ∈ xs, x.ok = true) →
    (numsTok sep xs).all (fun c => isNumCh c || sep.contains c) = true := by
  intro xs hok
  rw [List.all_eq_true]
  intro c hc
  have := content_chars sep (xs.map (·.text))
    (by intro t ht; obtain ⟨x, hx', rfl⟩ := List.mem_map.mp ht; exact numStr_of_ok (hok x hx')) c
    (by simpa [numsTok] using hc)
  rcases this with h | h
  · simp [h]
  · simp [h]

section
variable {C : TypstConsts} (hV : TypstItemsOK C)
include hV

/-- a term in front is read off uniquely -/
theorem ser_prefix (t u : Term) (ht : wfTy C t = true) (hu : wfTy C u = true) (r1 r2 : List Str)
    (h : ser C t ++ r1 = ser C u ++ r2) : t = u ∧ r1 = r2 := by
  have h1 := dec_ser hV.base t ht (tb t + tb u) r1 (by omega)
  have h2 := dec_ser hV.base u hu (tb t + tb u) r2 (by omega)
  rw [h, h2] at h1
  simp only [Option.some.injEq, Prod.mk.injEq] at h1
  exact ⟨h1.1.symm, h1.2.symm⟩

theorem tok_of {k : Str} (hk : k ∈ [C.pJudgement, C.pGoal, C.pQuestion, C.pQuest, C.stampPast, C.stampPresent,
    C.stampFuture, C.stampFixed, C.sepItem, C.brTruth.1, C.brTruth.2, C.brBudget.1, C.brBudget.2]) :
    ∃ t, C.words k = [t] ∧ hdTok C k = some t := by
  obtain ⟨t, ht⟩ := ((items_split hV).1 k hk).2
  exact ⟨t, ht, by simp [hdTok, ht]⟩

theorem punct_inj (p q : Punct) (X Y : List Str) (h : serPunct C p ++ X = serPunct C q ++ Y) : p = q ∧ X = Y := by
  obtain ⟨_, _, hp, _⟩ := items_split hV
  obtain ⟨t1, w1, h1⟩ := tok_of hV (k := C.pJudgement) (by simp)
  obtain ⟨t2, w2, h2⟩ := tok_of hV (k := C.pGoal) (by simp)
  obtain ⟨t3, w3, h3⟩ := tok_of hV (k := C.pQuestion) (by simp)
  obtain ⟨t4, w4, h4⟩ := tok_of hV (k := C.pQuest) (by simp)
  simp only [List.map_cons, List.map_nil, h1, h2, h3, h4, pairwiseB, List.all_cons, List.all_nil, Bool.and_true,
    Bool.and_eq_true, optNe, Option.isSome_some, Bool.true_and, Bool.not_eq_true', beq_eq_false_iff_ne, ne_eq,
    Option.some.injEq] at hp
  obtain ⟨⟨n12, n13, n14⟩, ⟨n23, n24⟩, n34⟩ := hp
  cases p <;> cases q <;> simp only [serPunct, rawPunct, w1, w2, w3, w4, List.singleton_append, List.cons.injEq] at h <;>
    first
    | exact ⟨rfl, h.2⟩
    | exact absurd h.1 ‹_›
    | exact absurd h.1.symm ‹_›

theorem showInt_inj (a b : Int) (ha : wfStamp (.fixed a) = true) (hb : wfStamp (.fixed b) = true)
    (h : showInt a = showInt b) : a = b := by
  simp only [wfStamp, Bool.and_eq_true, decide_eq_true_eq] at ha hb
  have e1 := parseIsize_showInt a ha.1 ha.2
  have e2 := parseIsize_showInt b hb.1 hb.2
  rw [h, e2] at e1
  exact (Option.some.inj e1).symm

theorem stamp_inj (s1 s2 : Stamp) (hw1 : wfStamp s1 = true) (hw2 : wfStamp s2 = true) (X Y : List Str)
    (h : serStamp C s1 ++ (C.words C.sepItem ++ X) = serStamp C s2 ++ (C.words C.sepItem ++ Y)) : s1 = s2 ∧ X = Y := by
  obtain ⟨_, _, _, hp, _⟩ := items_split hV
  obtain ⟨t1, w1, h1⟩ := tok_of hV (k := C.stampPast) (by simp)
  obtain ⟨t2, w2, h2⟩ := tok_of hV (k := C.stampPresent) (by simp)
  obtain ⟨t3, w3, h3⟩ := tok_of hV (k := C.stampFuture) (by simp)
  obtain ⟨t4, w4, h4⟩ := tok_of hV (k := C.stampFixed) (by simp)
  obtain ⟨t5, w5, h5⟩ := tok_of hV (k := C.sepItem) (by simp)
  simp only [List.map_cons, List.map_nil, h1, h2, h3, h4, h5, pairwiseB, List.all_cons, List.all_nil, Bool.and_true,
    Bool.and_eq_true, optNe, Option.isSome_some, Bool.true_and, Bool.not_eq_true', beq_eq_false_iff_ne, ne_eq,
    Option.some.injEq] at hp
  obtain ⟨⟨n12, n13, n14, n15⟩, ⟨n23, n24, n25⟩, ⟨n34, n35⟩, n45⟩ := hp
  cases s1 <;> cases s2 <;>
    simp only [serStamp, w1, w2, w3, w4, w5, List.nil_append, List.singleton_append, List.cons_append,
      List.cons.injEq, true_and] at h <;>
    first
    | exact ⟨rfl, h⟩
    | exact absurd h.1 ‹_›
    | exact absurd h.1.symm ‹_›
    | skip
  -- both fixed
  rename_i a b
  exact ⟨by rw [showInt_inj hV a b hw1 hw2 h.1], h.2⟩

theorem truth_inj (a b : Truth) (ha : wfTruth a = true) (hb : wfTruth b = true) (h : serTruth C a = serTruth C b) :
    a = b := by
  obtain ⟨_, _, _, _, _, hne, _, hsep, _⟩ := items_split hV
  obtain ⟨o, wo, _⟩ := tok_of hV (k := C.brTruth.1) (by simp)
  obtain ⟨c, wc, _⟩ := tok_of hV (k := C.brTruth.2) (by simp)
  have hoa : ∀ x ∈ a.components, x.ok = true := by simpa [wfTruth, List.all_eq_true] using ha
  have hob : ∀ x ∈ b.components, x.ok = true := by simpa [wfTruth, List.all_eq_true] using hb
  have comps : ∀ (x y : Truth), x ≠ .empty → y ≠ .empty → x.components = y.components → x = y := by
    intro x y hx hy h
    cases x <;> cases y <;> simp_all [Truth.components]
  cases a with
  | empty =>
    cases b with
    | empty => rfl
    | single _ => simp [serTruth, wo] at h
    | double _ _ => simp [serTruth, wo] at h
  | single f =>
    cases b with
    | empty => simp [serTruth, wo] at h
    | single g =>
      simp only [serTruth, wo, wc, List.singleton_append, List.cons.injEq, and_true, true_and] at h
      exact comps _ _ (by simp) (by simp) (numsTok_inj C.sepTruth hne hsep _ _ (by simp [Truth.components])
        (by simp [Truth.components]) hoa hob h)
    | double g d =>
      simp only [serTruth, wo, wc, List.singleton_append, List.cons.injEq, and_true, true_and] at h
      exact comps _ _ (by simp) (by simp) (numsTok_inj C.sepTruth hne hsep _ _ (by simp [Truth.components])
        (by simp [Truth.components]) hoa hob h)
  | double f e =>
    cases b with
    | empty => simp [serTruth, wo] at h
    | single g =>
      simp only [serTruth, wo, wc, List.singleton_append, List.cons.injEq, and_true, true_and] at h
      exact comps _ _ (by simp) (by simp) (numsTok_inj C.sepTruth hne hsep _ _ (by simp [Truth.components])
        (by simp [Truth.components]) hoa hob h)
    | double g d =>
      simp only [serTruth, wo, wc, List.singleton_append, List.cons.injEq, and_true, true_and] at h
      exact comps _ _ (by simp) (by simp) (numsTok_inj C.sepTruth hne hsep _ _ (by simp [Truth.components])
        (by simp [Truth.components]) hoa hob h)

theorem budget_inj (a b : Budget) (ha : wfBudget a = true) (hb : wfBudget b = true) (X Y : List Str)
    (h : serBudget C a ++ X = serBudget C b ++ Y) : a = b ∧ X = Y := by
  obtain ⟨_, _, _, _, _, _, hne, _, hsep, hclose, _⟩ := items_split hV
  obtain ⟨o, wo, _⟩ := tok_of hV (k := C.brBudget.1) (by simp)
  obtain ⟨c, wc, _⟩ := tok_of hV (k := C.brBudget.2) (by simp)
  have hoa : ∀ x ∈ a.components, x.ok = true := by simpa [wfBudget, List.all_eq_true] using ha
  have hob : ∀ x ∈ b.components, x.ok = true := by simpa [wfBudget, List.all_eq_true] using hb
  have hcl : (c.all (fun ch => isNumCh ch || C.sepBudget.contains ch)) = false := hclose c (by simp [wc])
  have comps : ∀ (x y : Budget), x.components = y.components → x = y := by
    intro x y h
    cases x <;> cases y <;> simp_all [Budget.components]
  by_cases ea : a.components = [] <;> by_cases eb : b.components = []
  · simp only [serBudget, wo, wc, ea, eb, List.isEmpty_nil, if_true, List.nil_append, List.singleton_append,
      List.cons_append, List.cons.injEq, true_and] at h
    exact ⟨comps a b (by rw [ea, eb]), h⟩
  · exfalso
    simp only [serBudget, wo, wc, ea, List.isEmpty_nil, if_true, nonempty_isEmpty eb, Bool.false_eq_true, if_false,
      List.nil_append, List.singleton_append, List.cons_append, List.cons.injEq, true_and] at h
    have := numsTok_chars C.sepBudget b.components hob
    rw [← h.1, hcl] at this
    exact absurd this (by simp)
  · exfalso
    simp only [serBudget, wo, wc, eb, List.isEmpty_nil, if_true, nonempty_isEmpty ea, Bool.false_eq_true, if_false,
      List.nil_append, List.singleton_append, List.cons_append, List.cons.injEq, true_and] at h
    have := numsTok_chars C.sepBudget a.components hoa
    rw [h.1, hcl] at this
    exact absurd this (by simp)
  · simp only [serBudget, wo, wc, nonempty_isEmpty ea, nonempty_isEmpty eb, Bool.false_eq_true, if_false,
      List.nil_append, List.singleton_append, List.cons_append, List.cons.injEq, true_and] at h
    exact ⟨comps a b (numsTok_inj C.sepBudget hne hsep _ _ ea eb hoa hob h.1), h.2⟩

/-- the rest of a sentence line after the term -/
theorem sentence_tail_inj (p q : Punct) (s1 s2 : Stamp) (a b : Truth) (hw1 : wfStamp s1 = true)
    (hw2 : wfStamp s2 = true) (ha : wfTruth a = true) (hb : wfTruth b = true)
    (h : serPunct C p ++ (serStamp C s1 ++ (C.words C.sepItem ++ serTruth C a)) =
         serPunct C q ++ (serStamp C s2 ++ (C.words C.sepItem ++ serTruth C b))) : p = q ∧ s1 = s2 ∧ a = b := by
  obtain ⟨hp, h1⟩ := punct_inj hV p q _ _ h
  obtain ⟨hs, h2⟩ := stamp_inj hV s1 s2 hw1 hw2 _ _ h1
  exact ⟨hp, hs, truth_inj hV a b ha hb h2⟩

omit hV in
theorem sentence_ext (s1 s2 : Sentence) (ht : s1.term = s2.term) (hp : s1.punct = s2.punct)
    (hs : s1.stamp = s2.stamp) (htr : s1.truthOrEmpty = s2.truthOrEmpty) : s1 = s2 := by
  rw [← fromPunctuation_self s1, ← fromPunctuation_self s2, ht, hp, hs, htr]

theorem sentence_inj (s1 s2 : Sentence) (h1 : wfTyS C s1 = true) (h2 : wfTyS C s2 = true) (X Y : List Str)
    (hX : X = [] ∧ Y = [])
    (h : serSentence C s1 ++ X = serSentence C s2 ++ Y) : s1 = s2 := by
  simp only [wfTyS, Bool.and_eq_true] at h1 h2
  obtain ⟨rfl, rfl⟩ := hX
  simp only [serSentence, List.append_nil] at h
  obtain ⟨ht, hr⟩ := ser_prefix hV _ _ h1.1.1 h2.1.1 _ _ h
  obtain ⟨hp, hs, htr⟩ := sentence_tail_inj hV _ _ _ _ _ _ h1.1.2 h2.1.2 h1.2 h2.2 hr
  exact sentence_ext s1 s2 ht hp hs htr

end

end Narsese

namespace Narsese
open TypstConsts EFormat

section
variable {C : TypstConsts} (hV : TypstItemsOK C)
include hV

theorem strip_sep (A B : List Str) (h : C.words C.sepItem ++ A = C.words C.sepItem ++ B) : A = B :=
  List.append_cancel_left h

theorem task_inj (k1 k2 : Task) (h1 : wfTyS C k1.sentence = true) (h2 : wfTyS C k2.sentence = true)
    (b1 : wfBudget k1.budget = true) (b2 : wfBudget k2.budget = true) (h : serTask C k1 = serTask C k2) : k1 = k2 := by
  simp only [wfTyS, Bool.and_eq_true] at h1 h2
  simp only [serTask] at h
  obtain ⟨hb, r1⟩ := budget_inj hV _ _ b1 b2 _ _ h
  have r2 := strip_sep hV _ _ r1
  obtain ⟨ht, r3⟩ := ser_prefix hV _ _ h1.1.1 h2.1.1 _ _ r2
  obtain ⟨hp, r4⟩ := punct_inj hV _ _ _ _ r3
  have r5 := strip_sep hV _ _ r4
  obtain ⟨hs, r6⟩ := stamp_inj hV _ _ h1.1.2 h2.1.2 _ _ r5
  have htr := truth_inj hV _ _ h1.2 h2.2 r6
  have hsent := sentence_ext k1.sentence k2.sentence ht hp hs htr
  cases k1; cases k2; simp_all

/-- a term's serialization never begins like a budget -/
theorem ser_not_budget (t : Term) (ht : wfTy C t = true) (X Y : List Str) (b : Budget) :
    ser C t ++ X ≠ serBudget C b ++ Y := by
  obtain ⟨_, _, _, _, _, _, _, _, _, _, _, hst, ⟨tb', htb, hnb⟩⟩ := items_split hV
  obtain ⟨o, wo, ho⟩ := tok_of hV (k := C.brBudget.1) (by simp)
  intro h
  have hhead : (serBudget C b ++ Y).head? = some o := by simp [serBudget, wo]
  rw [ho] at htb
  have hoo : o = tb' := Option.some.inj htb
  rcases ser_starts hV.base t ht with ⟨tok, r, e, hn⟩ | ⟨K, hK, r, e⟩
  · rw [e] at h
    rw [← h] at hhead
    simp only [List.cons_append, List.head?_cons, Option.some.injEq] at hhead
    rw [hhead, hoo, hnb] at hn
    exact absurd hn (by simp)
  · obtain ⟨x, y, hx, hy, hxy⟩ := optNe_spec (hst K hK)
    rw [ho] at hx
    have : (ser C t ++ X).head? = some y := by rw [e, List.append_assoc]; exact head_words hy _
    rw [h, hhead] at this
    exact hxy (by rw [← Option.some.inj hx, Option.some.inj this])

/-- **two well-formed values with the same token serialization are equal** -/
theorem serN_injective (v w : Narsese) (hv : wfTyN C v = true) (hw : wfTyN C w = true) (h : serN C v = serN C w) :
    v = w := by
  have punct_ne : ∀ (p : Punct) (X : List Str), serPunct C p ++ X ≠ [] := by
    intro p X
    obtain ⟨t, wt, _⟩ : ∃ t, C.words (C.rawPunct p) = [t] ∧ True := by
      cases p
      · obtain ⟨t, w, _⟩ := tok_of hV (k := C.pJudgement) (by simp); exact ⟨t, w, trivial⟩
      · obtain ⟨t, w, _⟩ := tok_of hV (k := C.pGoal) (by simp); exact ⟨t, w, trivial⟩
      · obtain ⟨t, w, _⟩ := tok_of hV (k := C.pQuestion) (by simp); exact ⟨t, w, trivial⟩
      · obtain ⟨t, w, _⟩ := tok_of hV (k := C.pQuest) (by simp); exact ⟨t, w, trivial⟩
    simp [serPunct, wt]
  cases v with
  | term t =>
    cases w with
    | term u => simp only [serN] at h; rw [ser_injective hV.base t u hv hw h]
    | sentence s =>
      exfalso
      simp only [wfTyN, wfTyS, Bool.and_eq_true] at hw
      simp only [serN, serSentence] at h
      have := ser_prefix hV t s.term hv hw.1.1 [] _ (by simpa using h)
      exact punct_ne _ _ this.2.symm
    | task k =>
      exfalso
      simp only [serN, serTask] at h
      exact ser_not_budget hV t hv [] _ k.budget (by simpa using h)
  | sentence s =>
    simp only [wfTyN] at hv
    cases w with
    | term u =>
      exfalso
      simp only [wfTyS, Bool.and_eq_true] at hv
      simp only [serN, serSentence] at h
      have := ser_prefix hV s.term u hv.1.1 hw _ [] (by simpa using h)
      exact punct_ne _ _ this.2
    | sentence s' =>
      simp only [wfTyN] at hw
      simp only [serN] at h
      rw [sentence_inj hV s s' hv hw [] [] ⟨rfl, rfl⟩ (by simpa using h)]
    | task k =>
      exfalso
      simp only [wfTyS, Bool.and_eq_true] at hv
      simp only [serN, serSentence, serTask] at h
      exact ser_not_budget hV s.term hv.1.1 _ _ k.budget h
  | task k =>
    simp only [wfTyN, Bool.and_eq_true] at hv
    cases w with
    | term u =>
      exfalso
      simp only [serN, serTask] at h
      exact ser_not_budget hV u hw [] _ k.budget (by simpa using h.symm)
    | sentence s =>
      exfalso
      simp only [wfTyN, wfTyS, Bool.and_eq_true] at hw
      simp only [serN, serSentence, serTask] at h
      exact ser_not_budget hV s.term hw.1.1 _ _ k.budget h.symm
    | task k' =>
      simp only [wfTyN, Bool.and_eq_true] at hw
      simp only [serN] at h
      rw [task_inj hV k k' hv.1 hw.1 hv.2 hw.2 h]

/-- **the Typst rendering of whole values is injective** -/
theorem typstN_injective (v w : Narsese) (hv : wfTyN C v = true) (hw : wfTyN C w = true)
    (h : typstN C v = typstN C w) : v = w := by
  apply serN_injective hV v w hv hw
  have := congrArg C.words h
  rwa [words_typstN hV v hv, words_typstN hV w hw] at this

end

end Narsese
