/-
  Typst injectivity, part 10: sentences, tasks and whole values — the words of their renderings.
-/
import Proofs.Typst.Final
import Proofs.RT.Stamp
import Proofs.LRT.Lists
set_option autoImplicit false

namespace Narsese
open TypstConsts EFormat

def typstN (C : TypstConsts) : Narsese → Str
  | .term t => C.typstTerm t
  | .sentence s => C.typstSentence s
  | .task k => C.typstTask k

/-- a single-token constant -/
def oneTok (C : TypstConsts) (k : Str) : Bool := (C.words k).length == 1

/-- decidable: layout of the sentence-level constants -/
def typstItemsB (C : TypstConsts) : Bool :=
  [C.pJudgement, C.pGoal, C.pQuestion, C.pQuest, C.stampPast, C.stampPresent, C.stampFuture, C.stampFixed, C.sepItem,
   C.brTruth.1, C.brTruth.2, C.brBudget.1, C.brBudget.2].all (fun k => spacedB C k && oneTok C k) &&
  C.stampEternal.isEmpty &&
  -- the four punctuation tokens are different
  pairwiseB optNe ([C.pJudgement, C.pGoal, C.pQuestion, C.pQuest].map (hdTok C)) &&
  -- the stamp tokens and the item separator are different
  pairwiseB optNe ([C.stampPast, C.stampPresent, C.stampFuture, C.stampFixed, C.sepItem].map (hdTok C)) &&
  -- number lists: separators without whitespace, not beginning with a digit or dot; digits, dot, minus are not whitespace
  (C.sepTruth ++ C.sepBudget ++ digitChars ++ ['.', '-']).all (fun c => !C.isWs c) &&
  !C.sepTruth.isEmpty && !C.sepBudget.isEmpty &&
  C.sepTruth.head?.all (fun c => !isNumCh c) && C.sepBudget.head?.all (fun c => !isNumCh c) &&
  -- the budget's closing token is not a number list, its opening token does not start a term
  (C.words C.brBudget.2).all (fun t => !t.all (fun c => isNumCh c || C.sepBudget.contains c)) &&
  (C.words C.brTruth.2).all (fun t => !t.all (fun c => isNumCh c || C.sepTruth.contains c)) &&
  (tyStarters C).all (fun k => optNe (hdTok C C.brBudget.1) (hdTok C k)) &&
  (hdTok C C.brBudget.1).any (fun t => !isNameTok t)

structure TypstItemsOK (C : TypstConsts) : Prop where
  base : TypstOK C
  items : typstItemsB C = true

def serPunct (C : TypstConsts) (p : Punct) : List Str := C.words (C.rawPunct p)

def serStamp (C : TypstConsts) : Stamp → List Str
  | .eternal => []
  | .past => C.words C.stampPast
  | .present => C.words C.stampPresent
  | .future => C.words C.stampFuture
  | .fixed t => C.words C.stampFixed ++ [showInt t]

/-- the single word a non-empty number list is printed as -/
def numsTok (sep : Str) (xs : List Num) : Str := joinWith sep (xs.map (·.text))

def serTruth (C : TypstConsts) (tr : Truth) : List Str :=
  match tr with
  | .empty => []
  | t => C.words C.brTruth.1 ++ ([numsTok C.sepTruth t.components] ++ C.words C.brTruth.2)

def serBudget (C : TypstConsts) (b : Budget) : List Str :=
  C.words C.brBudget.1 ++ ((if b.components.isEmpty then [] else [numsTok C.sepBudget b.components]) ++
    C.words C.brBudget.2)

def serSentence (C : TypstConsts) (s : Sentence) : List Str :=
  ser C s.term ++ (serPunct C s.punct ++ (serStamp C s.stamp ++ (C.words C.sepItem ++ serTruth C s.truthOrEmpty)))

def serTask (C : TypstConsts) (k : Task) : List Str :=
  serBudget C k.budget ++ (C.words C.sepItem ++ (ser C k.sentence.term ++ (serPunct C k.sentence.punct ++
    (C.words C.sepItem ++ (serStamp C k.sentence.stamp ++ (C.words C.sepItem ++ serTruth C k.sentence.truthOrEmpty))))))

def serN (C : TypstConsts) : Narsese → List Str
  | .term t => ser C t
  | .sentence s => serSentence C s
  | .task k => serTask C k

/-- well-formed values for the Typst renderer -/
def wfTyS (C : TypstConsts) (s : Sentence) : Bool := wfTy C s.term && wfStamp s.stamp && wfTruth s.truthOrEmpty
def wfTyN (C : TypstConsts) : Narsese → Bool
  | .term t => wfTy C t
  | .sentence s => wfTyS C s
  | .task k => wfTyS C k.sentence && wfBudget k.budget

section
variable {C : TypstConsts} (hV : TypstItemsOK C)
include hV

theorem items_split :
    (∀ k ∈ [C.pJudgement, C.pGoal, C.pQuestion, C.pQuest, C.stampPast, C.stampPresent, C.stampFuture, C.stampFixed,
        C.sepItem, C.brTruth.1, C.brTruth.2, C.brBudget.1, C.brBudget.2], spacedB C k = true ∧ ∃ t, C.words k = [t]) ∧
    C.stampEternal = [] ∧
    pairwiseB optNe ([C.pJudgement, C.pGoal, C.pQuestion, C.pQuest].map (hdTok C)) = true ∧
    pairwiseB optNe ([C.stampPast, C.stampPresent, C.stampFuture, C.stampFixed, C.sepItem].map (hdTok C)) = true ∧
    (∀ c ∈ C.sepTruth ++ C.sepBudget ++ digitChars ++ ['.', '-'], C.isWs c = false) ∧
    C.sepTruth ≠ [] ∧ C.sepBudget ≠ [] ∧
    (∀ c ∈ C.sepTruth.head?, isNumCh c = false) ∧ (∀ c ∈ C.sepBudget.head?, isNumCh c = false) ∧
    (∀ t ∈ C.words C.brBudget.2, (t.all (fun c => isNumCh c || C.sepBudget.contains c)) = false) ∧
    (∀ t ∈ C.words C.brTruth.2, (t.all (fun c => isNumCh c || C.sepTruth.contains c)) = false) ∧
    (∀ k ∈ tyStarters C, optNe (hdTok C C.brBudget.1) (hdTok C k) = true) ∧
    (∃ t, hdTok C C.brBudget.1 = some t ∧ isNameTok t = false) := by
  have h := hV.items
  simp only [typstItemsB, Bool.and_eq_true, List.all_eq_true, Bool.not_eq_true', List.isEmpty_iff,
    List.isEmpty_eq_false_iff, option_all_iff, Option.any_eq_true] at h
  obtain ⟨⟨⟨⟨⟨⟨⟨⟨⟨⟨⟨⟨h1, h2⟩, h3⟩, h4⟩, h5⟩, h6⟩, h7⟩, h8⟩, h9⟩, h10⟩, h11⟩, h12⟩, h13⟩ := h
  refine ⟨?_, h2, h3, h4, h5, h6, h7, h8, h9, h10, h11, h12, h13⟩
  intro k hk
  obtain ⟨ha, hb⟩ := h1 k hk
  refine ⟨ha, ?_⟩
  simp only [oneTok, beq_iff_eq] at hb
  match hw : C.words k, hb with
  | [t], _ => exact ⟨t, rfl⟩

theorem words_showInt (t : Int) : C.words (showInt t) = [showInt t] := by
  obtain ⟨_, _, _, _, hws, _⟩ := items_split hV
  obtain ⟨hne, hch⟩ := showInt_chars t
  apply words_noWs C _ hne
  intro c hc
  have := hch c hc
  simp only [Bool.or_eq_true, decide_eq_true_eq] at this
  apply hws
  simp only [List.mem_append, List.mem_cons, List.not_mem_nil, or_false]
  rcases this with (h | h) | h
  · exact .inl (.inr (isDigit_digitChars c h))
  · -- '+' never occurs in the decimal text of an integer; kept for completeness of the alphabet
    exfalso
    subst h
    cases t with
    | ofNat n =>
      obtain ⟨d, _, hd⟩ := showNat_chars n '+' (by simpa [showInt] using hc)
      have : isDigit '+' = true := by rw [hd]; exact isDigit_digitChar d ‹_›
      exact absurd this (by decide)
    | negSucc n =>
      simp only [showInt, List.mem_cons] at hc
      rcases hc with hc | hc
      · exact absurd hc (by decide)
      · obtain ⟨d, _, hd⟩ := showNat_chars (n + 1) '+' hc
        have : isDigit '+' = true := by rw [hd]; exact isDigit_digitChar d ‹_›
        exact absurd this (by decide)
  · exact .inr (.inr h)

theorem words_stamp (st : Stamp) : C.words (C.rawStamp st) = serStamp C st := by
  obtain ⟨hk, he, _⟩ := items_split hV
  cases st with
  | eternal => simp [rawStamp, serStamp, he, words_nil]
  | past => rfl
  | present => rfl
  | future => rfl
  | fixed t =>
    simp only [rawStamp, serStamp]
    rw [words_spaced_left hV.base.layout (hk C.stampFixed (by simp)).1, words_showInt hV]

/-- the text of a number list is one word -/
theorem words_numsTok (sep : Str) (hsep : ∀ c ∈ sep, C.isWs c = false) (xs : List Num) (hne : xs ≠ [])
    (hok : ∀ x ∈ xs, x.ok = true) : C.words (numsTok sep xs) = [numsTok sep xs] := by
  obtain ⟨_, _, _, _, hws, _⟩ := items_split hV
  have hnum : ∀ x ∈ xs, ∀ c ∈ x.text, C.isWs c = false := by
    intro x hx c hc
    obtain ⟨_, hch⟩ := num_chars x (hok x hx)
    apply hws
    simp only [List.mem_append, List.mem_cons, List.not_mem_nil, or_false]
    rcases hch c hc with h | h
    · exact .inl (.inr (isDigit_digitChars c h))
    · exact .inr (.inl h)
  have hall : ∀ (ys : List Num), (∀ y ∈ ys, y ∈ xs) → ∀ c ∈ joinWith sep (ys.map (·.text)), C.isWs c = false := by
    intro ys
    induction ys with
    | nil => intro _ c hc; simp [joinWith] at hc
    | cons y r ih =>
      intro hsub c hc
      cases r with
      | nil =>
        simp only [List.map_cons, List.map_nil, joinWith] at hc
        exact hnum y (hsub y (by simp)) c hc
      | cons z r' =>
        simp only [List.map_cons, joinWith, List.mem_append] at hc
        rcases hc with (hc | hc) | hc
        · exact hnum y (hsub y (by simp)) c hc
        · exact hsep c hc
        · exact ih (fun w hw => hsub w (by simp [hw])) c (by simpa [joinWith] using hc)
  apply words_noWs C _ ?_ (hall xs (fun _ h => h))
  obtain ⟨x, r, rfl⟩ : ∃ x r, xs = x :: r := by
    cases xs with
    | nil => exact absurd rfl hne
    | cons x r => exact ⟨x, r, rfl⟩
  have hx := (num_chars x (hok x (by simp))).1
  cases r <;> simp [numsTok, joinWith, hx]

theorem words_truth (tr : Truth) (hwf : wfTruth tr = true) : C.words (C.rawTruth tr) = serTruth C tr := by
  obtain ⟨hk, _, _, _, hws, _⟩ := items_split hV
  have hok : ∀ x ∈ tr.components, x.ok = true := by simpa [wfTruth, List.all_eq_true] using hwf
  have hsep : ∀ c ∈ C.sepTruth, C.isWs c = false := fun c hc => hws c (by simp [hc])
  cases tr with
  | empty => simp [rawTruth, serTruth, words_nil]
  | single f =>
    simp only [rawTruth, rawFloats, serTruth]
    rw [List.append_assoc, words_spaced_left hV.base.layout (hk C.brTruth.1 (by simp)).1,
      words_spaced_right hV.base.layout (hk C.brTruth.2 (by simp)).1]
    have := words_numsTok hV C.sepTruth hsep (Truth.single f).components (by simp [Truth.components]) hok
    simp only [numsTok] at this ⊢
    rw [this]
  | double f c =>
    simp only [rawTruth, rawFloats, serTruth]
    rw [List.append_assoc, words_spaced_left hV.base.layout (hk C.brTruth.1 (by simp)).1,
      words_spaced_right hV.base.layout (hk C.brTruth.2 (by simp)).1]
    have := words_numsTok hV C.sepTruth hsep (Truth.double f c).components (by simp [Truth.components]) hok
    simp only [numsTok] at this ⊢
    rw [this]

theorem words_budget (b : Budget) (hwf : wfBudget b = true) : C.words (C.rawBudget b) = serBudget C b := by
  obtain ⟨hk, _, _, _, hws, _⟩ := items_split hV
  have hok : ∀ x ∈ b.components, x.ok = true := by simpa [wfBudget, List.all_eq_true] using hwf
  have hsep : ∀ c ∈ C.sepBudget, C.isWs c = false := fun c hc => hws c (by simp [hc])
  simp only [rawBudget, rawFloats, serBudget]
  rw [List.append_assoc, words_spaced_left hV.base.layout (hk C.brBudget.1 (by simp)).1,
    words_spaced_right hV.base.layout (hk C.brBudget.2 (by simp)).1]
  by_cases he : b.components = []
  · simp [he, joinWith, words_nil]
  · have := words_numsTok hV C.sepBudget hsep b.components he hok
    simp only [numsTok] at this
    simp only [nonempty_isEmpty he, Bool.false_eq_true, if_false, numsTok, this]

theorem words_sentence (s : Sentence) (hwf : wfTyS C s = true) :
    C.words (C.typstSentence s) = serSentence C s := by
  obtain ⟨hk, _⟩ := items_split hV
  simp only [wfTyS, Bool.and_eq_true] at hwf
  have hp : spacedB C (C.rawPunct s.punct) = true := by
    cases s.punct <;> exact (hk _ (by simp [rawPunct])).1
  have hsi := (hk C.sepItem (by simp)).1
  simp only [typstSentence, words_post, serSentence, List.append_assoc]
  rw [words_mid hV.base.layout hp, words_raw hV.base.layout hV.base.digits s.term hwf.1.1,
    words_mid hV.base.layout hsi, words_stamp hV, words_truth hV _ hwf.2]
  rfl

theorem words_task (k : Task) (hwf : wfTyS C k.sentence = true) (hwb : wfBudget k.budget = true) :
    C.words (C.typstTask k) = serTask C k := by
  obtain ⟨hk, _⟩ := items_split hV
  simp only [wfTyS, Bool.and_eq_true] at hwf
  have hp : spacedB C (C.rawPunct k.sentence.punct) = true := by
    cases k.sentence.punct <;> exact (hk _ (by simp [rawPunct])).1
  have hsi := (hk C.sepItem (by simp)).1
  simp only [typstTask, words_post, serTask, List.append_assoc]
  rw [words_mid hV.base.layout hsi, words_budget hV _ hwb, words_mid hV.base.layout hp,
    words_raw hV.base.layout hV.base.digits _ hwf.1.1, words_spaced_left hV.base.layout hsi,
    words_mid hV.base.layout hsi, words_stamp hV, words_truth hV _ hwf.2]
  rfl

/-- **the words of any rendering are its token serialization** -/
theorem words_typstN (v : Narsese) (hwf : wfTyN C v = true) : C.words (typstN C v) = serN C v := by
  cases v with
  | term t =>
    simp only [typstN, serN, typstTerm, words_post]
    exact words_raw hV.base.layout hV.base.digits t hwf
  | sentence s => exact words_sentence hV s hwf
  | task k =>
    simp only [wfTyN, Bool.and_eq_true] at hwf
    exact words_task hV k hwf.1 hwf.2

end

end Narsese
