/-
  Typst injectivity, part 7: the decoder inverts the serialization.
-/
import Proofs.Typst.Inj
set_option autoImplicit false

namespace Narsese
open TypstConsts EFormat

/-- fuel needed for a component list -/
def costL : List (Term × List Str) → Nat
  | [] => 0
  | c :: cs => 1 + (tb c.1 + costL cs)

section
variable {C : TypstConsts} (hT : TypstOK C)
include hT

theorem closer_mem_facts {K : Str} (hK : K ∈ tyClosers C) (r : List Str) :
    stripT (C.words K) (C.words C.sepCompound ++ r) = none := by
  obtain ⟨_, _, _, _, _, _, hcl⟩ := tok_split hT
  have h := hcl K hK
  obtain ⟨x, y, hx, hy, hxy⟩ := optNe_spec h
  exact stripT_optNe (by rw [head_words hy r, ← hy]) h

/-- the component loop of the decoder on a serialized component list -/
theorem decL_comps {K : Str} (hK : K ∈ tyClosers C) :
    ∀ (comps : List (Term × List Str)), comps ≠ [] →
      (∀ c ∈ comps, ∀ f rest, tb c.1 ≤ f → decT C f (c.2 ++ rest) = some (c.1, rest)) →
      ∀ (f : Nat) (rest : List Str), costL comps ≤ f →
      decL C f (joinToks (C.words C.sepCompound) (comps.map (·.2)) ++ (C.words K ++ rest)) (C.words K) =
        some (comps.map (·.1), rest)
  | [], h, _, _, _, _ => absurd rfl h
  | [c], _, hc, f, rest, hf => by
    cases f with
    | zero => simp [costL] at hf
    | succ f =>
      simp only [costL] at hf
      simp only [List.map_cons, List.map_nil, joinToks]
      rw [decL, hc c (by simp) f _ (by omega)]
      simp [decLStep, stripT_append]
  | c :: c2 :: cs, _, hc, f, rest, hf => by
    cases f with
    | zero => simp [costL] at hf
    | succ f =>
      simp only [costL] at hf
      have ih := decL_comps hK (c2 :: cs) (by simp) (fun x hx => hc x (by simp [hx])) f rest (by simp only [costL]; omega)
      simp only [List.map_cons, joinToks, List.append_assoc] at ih ⊢
      rw [decL, hc c (by simp) f _ (by omega)]
      simp only [decLStep, closer_mem_facts hT hK, stripT_append, ih, Option.map_some]

/-- how the serialization of a well-formed term begins -/
theorem ser_starts (t : Term) (ht : wfTy C t = true) :
    (∃ tok r, ser C t = tok :: r ∧ isNameTok tok = true) ∨ (∃ K ∈ tyStarters C, ∃ r, ser C t = C.words K ++ r) := by
  obtain ⟨hpw, _⟩ := tok_split hT
  cases t with
  | atom k n =>
    simp only [wfTy] at ht
    cases k with
    | word =>
      left
      refine ⟨C.dbg n, [], ?_, ?_⟩
      · simp [ser, atomFeature, hpw, words_nil]
      · rw [(words_dbg hT.layout n ht).1]; rfl
    | ivar => right; exact ⟨C.preIVar, by simp [tyStarters], [C.dbg n], by simp only [ser, atomFeature]⟩
    | dvar => right; exact ⟨C.preDVar, by simp [tyStarters], [C.dbg n], by simp only [ser, atomFeature]⟩
    | qvar => right; exact ⟨C.preQVar, by simp [tyStarters], [C.dbg n], by simp only [ser, atomFeature]⟩
    | op => right; exact ⟨C.preOperator, by simp [tyStarters], [C.dbg n], by simp only [ser, atomFeature]⟩
  | placeholder => right; exact ⟨C.prePlaceholder, by simp [tyStarters], [C.dbg []], by simp only [ser]⟩
  | interval n => right; exact ⟨C.preInterval, by simp [tyStarters], [C.dbg (showNat n)], by simp only [ser]⟩
  | setlike k ts =>
    right
    cases k
    · exact ⟨C.brExtSet.1, by simp [tyStarters], _, by simp only [ser, serCompound, TypstConsts.setBrackets]; rfl⟩
    · exact ⟨C.brIntSet.1, by simp [tyStarters], _, by simp only [ser, serCompound, TypstConsts.setBrackets]; rfl⟩
    all_goals exact ⟨C.brCompound.1, by simp [tyStarters], _, by simp only [ser, serCompound, TypstConsts.setBrackets]; rfl⟩
  | seqlike k ts => right; exact ⟨C.brCompound.1, by simp [tyStarters], _, by simp only [ser, serCompound]; rfl⟩
  | image k i ts => right; exact ⟨C.brCompound.1, by simp [tyStarters], _, by simp only [ser, serCompound]; rfl⟩
  | neg t => right; exact ⟨C.brCompound.1, by simp [tyStarters], _, by simp only [ser, serCompound]; rfl⟩
  | bin k a b =>
    right
    simp only [ser]
    split
    · exact ⟨C.brStatement.1, by simp [tyStarters], _, rfl⟩
    · exact ⟨C.brCompound.1, by simp [tyStarters], _, by simp only [serCompound]; rfl⟩

/-- no connecter matches where a term begins -/
theorem conns_miss_term (t : Term) (ht : wfTy C t = true) (r : List Str) :
    findStrip C.words C.tyConns (ser C t ++ r) = none := by
  rcases ser_starts hT t ht with ⟨tok, r', e, hn⟩ | ⟨K, hK, r', e⟩
  · rw [e]; exact conns_miss_name hT tok hn _
  · rw [e, List.append_assoc]; exact conns_miss_starter hT K hK _

end

end Narsese
