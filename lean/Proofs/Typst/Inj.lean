/-
  Typst injectivity, part 6: `decode (ser t ++ rest) = (t, rest)` for every well-formed term, hence the
  Typst rendering of terms is injective.
-/
import Proofs.Typst.TokOK
set_option autoImplicit false

namespace Narsese
open TypstConsts EFormat

theorem optNe_of {a b : Option Str} {x y : Str} (ha : a = some x) (hb : b = some y) (h : x ≠ y) : optNe a b = true := by
  subst ha; subst hb
  simp [optNe, h]

theorem optNe_symm' {a b : Option Str} (h : optNe a b = true) : optNe b a = true := by
  obtain ⟨x, y, hx, hy, hxy⟩ := optNe_spec h
  exact optNe_of hy hx (Ne.symm hxy)

/-- entries of a pairwise-different list at different positions differ -/
theorem pairwise_optNe (l : List (Option Str)) (hp : pairwiseB optNe l = true) (i j : Nat) (hij : i ≠ j)
    (a b : Option Str) (ha : l[i]? = some a) (hb : l[j]? = some b) : optNe a b = true := by
  rcases Nat.lt_or_gt_of_ne hij with h | h
  · exact pairwiseB_get optNe l hp i j h a b ha hb
  · exact optNe_symm' (pairwiseB_get optNe l hp j i h b a hb ha)

/-! ### fuel bounds -/

mutual
  def tb : Term → Nat
    | .atom _ _ | .placeholder | .interval _ => 1
    | .setlike _ ts => 1 + lb ts
    | .seqlike _ ts => 1 + lb ts
    | .image _ _ ts => 3 + lb ts
    | .neg t => 2 + tb t
    | .bin _ a b => 3 + (tb a + tb b)
  def lb : Terms → Nat
    | .nil => 0
    | .cons t ts => 1 + (tb t + lb ts)
end

section
variable {C : TypstConsts} (hT : TypstOK C)
include hT

theorem tok_split :
    C.preWord = [] ∧ pairwiseB optNe ((tyStarters C).map (hdTok C)) = true ∧
    (∀ k ∈ tyStarters C, ∃ t, hdTok C k = some t ∧ isNameTok t = false) ∧
    pairwiseB optNe (C.tyConns.map (fun e => hdTok C e.1)) = true ∧
    (∀ e ∈ C.tyConns, (∃ t, hdTok C e.1 = some t ∧ isNameTok t = false) ∧
      ∀ k ∈ tyStarters C, optNe (hdTok C e.1) (hdTok C k) = true) ∧
    pairwiseB optNe (C.tyCops.map (fun e => hdTok C e.1)) = true ∧
    (∀ k ∈ tyClosers C, optNe (hdTok C k) (hdTok C C.sepCompound) = true) := by
  have h := hT.tok
  simp only [typstTokOKB, Bool.and_eq_true, List.isEmpty_iff, List.all_eq_true, Option.any_eq_true,
    Bool.not_eq_true'] at h
  obtain ⟨⟨⟨⟨⟨⟨h1, h2⟩, h3⟩, h4⟩, h5⟩, h6⟩, h7⟩ := h
  exact ⟨h1, h2, h3, h4, fun e he => ⟨(h5 e he).1, (h5 e he).2⟩, h6, h7⟩

omit hT in
/-- head of `W k ++ r` for a constant with at least one token -/
theorem head_words {k : Str} {t : Str} (h : hdTok C k = some t) (r : List Str) : (C.words k ++ r).head? = some t := by
  simp only [hdTok] at h
  cases hw : C.words k with
  | nil => simp [hw] at h
  | cons a as => rw [hw] at h; simpa using h

/-- two different starters: the one does not match a text beginning with the other -/
theorem starter_miss (i j : Nat) (hij : i ≠ j) (K K' : Str) (hi : (tyStarters C)[i]? = some K)
    (hj : (tyStarters C)[j]? = some K') (r : List Str) : stripT (C.words K') (C.words K ++ r) = none := by
  obtain ⟨_, hp, hs, _⟩ := tok_split hT
  obtain ⟨t, ht, _⟩ := hs K (List.mem_of_getElem? hi)
  have := pairwise_optNe _ hp j i (Ne.symm hij) (hdTok C K') (hdTok C K) (by simp [hj]) (by simp [hi])
  exact stripT_optNe (by rw [head_words ht r, ← ht]) this

/-- a text beginning with a starter does not begin with a quoted name -/
theorem starter_not_name (K : Str) (hK : K ∈ tyStarters C) (r : List Str) :
    ∃ tok rest, C.words K ++ r = tok :: rest ∧ isNameTok tok = false := by
  obtain ⟨_, _, hs, _⟩ := tok_split hT
  obtain ⟨t, ht, hn⟩ := hs K hK
  have := head_words ht r
  cases hw : C.words K ++ r with
  | nil => rw [hw] at this; simp at this
  | cons a as => rw [hw] at this; simp at this; exact ⟨a, as, rfl, by rw [this]; exact hn⟩

/-- no connecter matches a text beginning with a starter or with a quoted name -/
theorem conns_miss_starter (K : Str) (hK : K ∈ tyStarters C) (r : List Str) :
    findStrip C.words C.tyConns (C.words K ++ r) = none := by
  obtain ⟨_, _, hs, _, hc, _⟩ := tok_split hT
  obtain ⟨t, ht, _⟩ := hs K hK
  exact findStrip_miss C _ _ _ (head_words ht r) (fun e he => by rw [← ht]; exact (hc e he).2 K hK)

theorem conns_miss_name (tok : Str) (hn : isNameTok tok = true) (r : List Str) :
    findStrip C.words C.tyConns (tok :: r) = none := by
  obtain ⟨_, _, _, _, hc, _⟩ := tok_split hT
  apply findStrip_miss C _ _ (some tok) rfl
  intro e he
  obtain ⟨t, ht, hnt⟩ := (hc e he).1
  exact optNe_of ht rfl (by intro h; rw [h] at hnt; rw [hn] at hnt; exact absurd hnt (by simp))

/-- the atom table on a text beginning with an opener: no entry matches -/
theorem atoms_miss_opener (i : Nat) (hi : 6 ≤ i) (K : Str) (hK : (tyStarters C)[i]? = some K) (r : List Str) :
    findStrip C.words C.tyAtoms (C.words K ++ r) = none := by
  obtain ⟨_, hp, hs, _⟩ := tok_split hT
  obtain ⟨t, ht, _⟩ := hs K (List.mem_of_getElem? hK)
  apply findStrip_miss C _ _ _ (head_words ht r)
  intro e he
  -- `e` is one of the first six starters
  have : ∃ j, j < 6 ∧ (tyStarters C)[j]? = some e.1 := by
    simp only [tyAtoms, List.mem_cons, List.not_mem_nil, or_false] at he
    rcases he with rfl | rfl | rfl | rfl | rfl | rfl
    · exact ⟨0, by omega, rfl⟩
    · exact ⟨1, by omega, rfl⟩
    · exact ⟨2, by omega, rfl⟩
    · exact ⟨3, by omega, rfl⟩
    · exact ⟨4, by omega, rfl⟩
    · exact ⟨5, by omega, rfl⟩
  obtain ⟨j, hj, hje⟩ := this
  rw [← ht]
  exact pairwise_optNe _ hp j i (by omega) _ _ (by simp [hje]) (by simp [hK])

/-- the atom table finds the written prefix -/
theorem atoms_hit (e : Str × AtomHead) (he : e ∈ C.tyAtoms) (r : List Str) :
    findStrip C.words C.tyAtoms (C.words e.1 ++ r) = some (e.2, r) := by
  obtain ⟨_, hp, _⟩ := tok_split hT
  apply findStrip_hit C _ _ e he r
  -- the atom prefixes are the first six starters
  have : (C.tyAtoms.map (fun e => hdTok C e.1)) = ((tyStarters C).map (hdTok C)).take 6 := by
    simp [tyAtoms, tyStarters]
  rw [this]
  -- a prefix of a pairwise-different list is pairwise different
  have take_pw : ∀ (l : List (Option Str)) (n : Nat), pairwiseB optNe l = true → pairwiseB optNe (l.take n) = true := by
    intro l
    induction l with
    | nil => intro n _; simp [pairwiseB]
    | cons x xs ih =>
      intro n h
      cases n with
      | zero => simp [pairwiseB]
      | succ n =>
        simp only [pairwiseB, Bool.and_eq_true, List.all_eq_true] at h
        simp only [List.take_succ_cons, pairwiseB, Bool.and_eq_true, List.all_eq_true]
        exact ⟨fun y hy => h.1 y (List.mem_of_mem_take hy), ih n h.2⟩
  exact take_pw _ 6 hp

end

end Narsese
