/-
  Typst injectivity, part 3: the words of the rendering of a term ARE its token serialization.
-/
import Proofs.Typst.Ser
set_option autoImplicit false

namespace Narsese
open TypstConsts

section
variable {C : TypstConsts} (hC : typstLayoutB C = true)
include hC

theorem words_tplCompound (br : Str × Str) (conn : Str) (strings : List Str)
    (hb1 : spacedB C br.1 = true) (hb2 : spacedB C br.2 = true)
    (hconn : conn = [] ∨ spacedB C conn = true) :
    C.words (tplCompound br conn strings C.sepCompound) = serCompound C br conn (strings.map C.words) := by
  obtain ⟨hsp, _, _, _⟩ := layout_split hC
  have hsep : spacedB C C.sepCompound = true := hsp _ (by simp [typstSpacedList])
  unfold tplCompound serCompound
  rw [List.append_assoc, words_spaced_left hC hb1, words_spaced_right hC hb2]
  congr 1
  congr 1
  rcases hconn with hc | hc
  · subst hc
    simp only [List.isEmpty_nil, if_true]
    exact words_join_spaced hC hsep strings
  · have hne : conn.isEmpty = false := by
      cases conn with
      | nil => simp [spacedB] at hc
      | cons a as => rfl
    simp only [hne, Bool.false_eq_true, if_false, List.length_map]
    split
    · exact words_join_spaced hC hc strings
    · rw [List.append_assoc, words_spaced_left hC hc, words_spaced_left hC hsep, words_join_spaced hC hsep strings]

theorem words_mid {k : Str} (h : spacedB C k = true) (x y : Str) :
    C.words (x ++ (k ++ y)) = C.words x ++ (C.words k ++ C.words y) := by
  rw [words_append_ws C x (k ++ y) (by
    intro c hc
    cases hk : k with
    | nil => simp [spacedB, hk] at h
    | cons a as =>
      rw [hk] at hc
      simp only [List.cons_append, List.head?_cons, Option.mem_def, Option.some.injEq] at hc
      subst hc
      have := (spaced_facts h).1
      rw [hk] at this
      exact this a (by simp)), words_spaced_left hC h]

theorem digits_ok (hd : (List.range 10).all (fun d => tyNameOK C [digitChar d]) = true) (n : Nat) :
    tyNameOK C (showNat n) = true := by
  apply tyNameOK_showNat hC n
  intro d hlt
  rw [List.all_eq_true] at hd
  exact hd d (List.mem_range.mpr hlt)

variable (hd : (List.range 10).all (fun d => tyNameOK C [digitChar d]) = true)
include hd

mutual
  theorem words_raw : ∀ t : Term, wfTy C t = true → C.words (C.rawTerm t) = ser C t
    | .atom k n, h => by
      simp only [wfTy] at h
      simp only [rawTerm, ser]
      apply words_prefixed hC _ n h
      cases k <;> simp [atomFeature, typstPrefixList]
    | .placeholder, _ => by
      simp only [rawTerm, ser]
      exact words_prefixed hC (by simp [typstPrefixList]) [] rfl
    | .interval n, _ => by
      simp only [rawTerm, ser]
      exact words_prefixed hC (by simp [typstPrefixList]) _ (digits_ok hC hd n)
    | .setlike k ts, h => by
      simp only [wfTy, Bool.and_eq_true] at h
      obtain ⟨hsp, _, _, _⟩ := layout_split hC
      simp only [rawTerm, ser]
      rw [words_tplCompound hC _ _ _ ?_ ?_ ?_, words_terms ts h.2]
      · cases k <;> exact hsp _ (by simp [typstSpacedList, setBrackets])
      · cases k <;> exact hsp _ (by simp [typstSpacedList, setBrackets])
      · cases k
        · exact .inl rfl
        · exact .inl rfl
        all_goals exact .inr (hsp _ (by simp [typstSpacedList, setFeature]))
    | .seqlike k ts, h => by
      simp only [wfTy, Bool.and_eq_true] at h
      obtain ⟨hsp, _, _, _⟩ := layout_split hC
      cases k <;>
      · simp only [rawTerm, ser]
        rw [words_tplCompound hC _ _ _ (hsp _ (by simp [typstSpacedList])) (hsp _ (by simp [typstSpacedList]))
          (.inr (hsp _ (by simp [typstSpacedList]))), words_terms ts h.2]
    | .image k i ts, h => by
      simp only [wfTy, Bool.and_eq_true] at h
      obtain ⟨hsp, _, _, _⟩ := layout_split hC
      cases k <;>
      · simp only [rawTerm, ser]
        rw [words_tplCompound hC _ _ _ (hsp _ (by simp [typstSpacedList])) (hsp _ (by simp [typstSpacedList]))
          (.inr (hsp _ (by simp [typstSpacedList]))), words_image i 0 ts h.1.2]
    | .neg t, h => by
      simp only [wfTy] at h
      obtain ⟨hsp, _, _, _⟩ := layout_split hC
      simp only [rawTerm, ser]
      rw [words_tplCompound hC _ _ _ (hsp _ (by simp [typstSpacedList])) (hsp _ (by simp [typstSpacedList]))
        (.inr (hsp _ (by simp [typstSpacedList])))]
      simp only [List.map_cons, List.map_nil, words_post, words_raw t h]
    | .bin k a b, h => by
      simp only [wfTy, Bool.and_eq_true] at h
      obtain ⟨hsp, _, _, hss⟩ := layout_split hC
      simp only [rawTerm, ser]
      split
      · have hcop : spacedB C (C.binFeature k) = true := by
          cases k <;> first | exact hsp _ (by simp [typstSpacedList, binFeature]) | simp_all [BinK.isStatement]
        have hl := hsp C.brStatement.1 (by simp [typstSpacedList])
        have hr := hsp C.brStatement.2 (by simp [typstSpacedList])
        simp only [hss, List.append_nil, List.append_assoc]
        rw [words_spaced_left hC hl, words_mid hC hcop, words_spaced_right hC hr, words_post, words_post,
          words_raw a h.1, words_raw b h.2]
      · have hconn : spacedB C (C.binFeature k) = true := by
          cases k <;> first | exact hsp _ (by simp [typstSpacedList, binFeature]) | simp_all [BinK.isStatement]
        rw [words_tplCompound hC _ _ _ (hsp _ (by simp [typstSpacedList])) (hsp _ (by simp [typstSpacedList]))
          (.inr hconn)]
        simp only [List.map_cons, List.map_nil, words_post, words_raw a h.1, words_raw b h.2]
  theorem words_terms : ∀ ts : Terms, wfTys C ts = true → (C.typstTerms ts).map C.words = sers C ts
    | .nil, _ => rfl
    | .cons t ts, h => by
      simp only [wfTys, Bool.and_eq_true] at h
      simp only [typstTerms, sers, List.map_cons, words_post, words_raw t h.1, words_terms ts h.2]
  theorem words_image (idx : Nat) : ∀ (now : Nat) (ts : Terms), wfTys C ts = true →
      (C.typstImage idx now ts).map C.words = serImage C idx now ts
    | now, .nil, _ => by
      simp only [typstImage, serImage]
      split
      · simp only [List.map_cons, List.map_nil, words_post]
        rw [words_prefixed hC (by simp [typstPrefixList]) [] rfl]
      · rfl
    | now, .cons t ts, h => by
      simp only [wfTys, Bool.and_eq_true] at h
      simp only [typstImage, serImage]
      split
      · simp only [List.map_cons, words_post, words_raw t h.1, words_image idx (now + 2) ts h.2]
        rw [words_prefixed hC (by simp [typstPrefixList]) [] rfl]
      · simp only [List.map_cons, words_post, words_raw t h.1, words_image idx (now + 1) ts h.2]
end

end

end Narsese
