/-
  Line-protocol codec of the driver: the same serialisation the Rust harness uses (`harness/src/ser.rs`).
-/
import NarseseModel
import NarseseModel.Gen.Formats
import NarseseModel.Gen.ReadmeGrammar
set_option autoImplicit false

namespace Narsese.Driver
open Narsese

/-! ### strings as dotted hex -/

def hexVal (c : Char) : Option Nat :=
  if '0' ≤ c ∧ c ≤ '9' then some (c.toNat - '0'.toNat)
  else if 'a' ≤ c ∧ c ≤ 'f' then some (c.toNat - 'a'.toNat + 10)
  else if 'A' ≤ c ∧ c ≤ 'F' then some (c.toNat - 'A'.toNat + 10)
  else none

def parseHex (s : String) : Option Nat :=
  if s.isEmpty then none else
  s.toList.foldl (fun acc c => match acc, hexVal c with
    | some a, some v => some (a * 16 + v)
    | _, _ => none) (some 0)

def unhs (s : String) : Except String Str :=
  if s == "-" then .ok [] else
  (s.splitOn ".").foldr (fun p acc => do
    let rest ← acc
    match parseHex p with
    | some n => .ok (Char.ofNat n :: rest)
    | none => .error s!"bad hex {p}") (.ok [])

def hexOf (n : Nat) : String := String.ofList (TypstConsts.hexAux 20 n [])

def hs (s : Str) : String :=
  if s.isEmpty then "-" else ".".intercalate (s.map (fun c => hexOf c.toNat))

/-! ### printer -/

inductive Mode where
  | raw | canon
  deriving DecidableEq

def sortStrings (xs : List String) : List String := (xs.toArray.qsort (· < ·)).toList

def paren (tag : String) (items : List String) : String :=
  if items.isEmpty then s!"( {tag} )" else s!"( {tag} {" ".intercalate items} )"

mutual
  def showTerm (m : Mode) : Term → String
    | .atom k n => s!"( {k.name} {hs n} )"
    | .placeholder => "( Placeholder )"
    | .interval n => s!"( Interval {n} )"
    | .setlike k ts =>
      let items := showTerms m ts
      paren k.name (if m == .canon then sortStrings items else items)
    | .seqlike k ts => paren k.name (showTerms m ts)
    | .image k i ts => paren s!"{k.name} {i}" (showTerms m ts)
    | .neg t => s!"( Negation {showTerm m t} )"
    | .bin k a b =>
      let x := showTerm m a
      let y := showTerm m b
      if m == .canon && k.symmetric && y < x then s!"( {k.name} {y} {x} )" else s!"( {k.name} {x} {y} )"
  def showTerms (m : Mode) : Terms → List String
    | .nil => []
    | .cons t ts => showTerm m t :: showTerms m ts
end

def showNum (m : Mode) (x : Num) : String :=
  match m with
  | .raw => s!"{hexOf x.bits}:{hs x.text}"
  | .canon => hexOf x.bits

def showTruth (m : Mode) (t : Truth) : String := paren "Truth" (t.components.map (showNum m))
def showBudget (m : Mode) (b : Budget) : String := paren "Budget" (b.components.map (showNum m))
def showStamp : Stamp → String
  | .eternal => "( Eternal )" | .past => "( Past )" | .present => "( Present )" | .future => "( Future )"
  | .fixed t => s!"( Fixed {t} )"
def showPunct : Punct → String
  | .judgement => "Judgement" | .goal => "Goal" | .question => "Question" | .quest => "Quest"
def showSentence (m : Mode) (s : Sentence) : String :=
  s!"( Sentence {showPunct s.punct} {showTerm m s.term} {showTruth m s.truthOrEmpty} {showStamp s.stamp} )"
def showTask (m : Mode) (k : Task) : String := s!"( Task {showBudget m k.budget} {showSentence m k.sentence} )"
def showNarsese (m : Mode) : Narsese → String
  | .term t => s!"( NTerm {showTerm m t} )"
  | .sentence s => s!"( NSentence {showSentence m s} )"
  | .task k => s!"( NTask {showTask m k} )"

mutual
  def showLTerm : LTerm → String
    | .atom p n => s!"( LAtom {hs p} {hs n} )"
    | .compound c ts => paren s!"LCompound {hs c}" (showLTerms ts)
    | .set l ts r => paren s!"LSet {hs l} {hs r}" (showLTerms ts)
    | .stmt c s p => s!"( LStatement {hs c} {showLTerm s} {showLTerm p} )"
  def showLTerms : LTerms → List String
    | .nil => []
    | .cons t ts => showLTerm t :: showLTerms ts
end
def showLSentence (s : LSentence) : String :=
  s!"( LSentence {showLTerm s.term} {hs s.punct} {hs s.stamp} {paren "LT" (s.truth.map hs)} )"
def showLTask (k : LTask) : String := s!"( LTask {paren "LB" (k.budget.map hs)} {showLSentence k.sentence} )"
def showLNarsese : LNarsese → String
  | .term t => s!"( LNTerm {showLTerm t} )"
  | .sentence s => s!"( LNSentence {showLSentence s} )"
  | .task k => s!"( LNTask {showLTask k} )"

/-! ### reader (tokens are space-separated) -/

abbrev Rd := StateT (List String) (Except String)

def next : Rd String := do
  match (← get) with
  | [] => throw "unexpected end"
  | t :: ts => set ts; pure t

def peek : Rd (Option String) := do
  match (← get) with
  | [] => pure none
  | t :: _ => pure (some t)

def expect (t : String) : Rd Unit := do
  let x ← next
  if x == t then pure () else throw s!"expected {t}, got {x}"

def atEnd : Rd Bool := do pure (← get).isEmpty

def rdStr : Rd Str := do
  match unhs (← next) with
  | .ok s => pure s
  | .error e => throw e

def rdNat : Rd Nat := do
  let t ← next
  match t.toNat? with
  | some n => pure n
  | none => throw s!"bad nat {t}"

def rdInt : Rd Int := do
  let t ← next
  match t.toInt? with
  | some n => pure n
  | none => throw s!"bad int {t}"

def rdNum : Rd Num := do
  let t ← next
  match t.splitOn ":" with
  | [b, tx] =>
    match parseHex b, unhs tx with
    | some bits, .ok text => pure { bits := bits, text := text }
    | _, _ => throw s!"bad float {t}"
  | [b] =>
    match parseHex b with
    | some bits => pure { bits := bits, text := [] }
    | none => throw s!"bad float {t}"
  | _ => throw s!"bad float {t}"

def atomKOf : String → Option AtomK
  | "Word" => some .word | "VariableIndependent" => some .ivar | "VariableDependent" => some .dvar
  | "VariableQuery" => some .qvar | "Operator" => some .op | _ => none
def setKOf (s : String) : Option SetK := SetK.all.find? (fun k => k.name == s)
def seqKOf (s : String) : Option SeqK := SeqK.all.find? (fun k => k.name == s)
def imgKOf (s : String) : Option ImgK := ImgK.all.find? (fun k => k.name == s)
def binKOf (s : String) : Option BinK := BinK.all.find? (fun k => k.name == s)

/-- fuel-bounded recursive descent (fuel = number of tokens) -/
partial def rdTerm : Rd Term := do
  expect "("
  let tag ← next
  let rec many (acc : List Term) : Rd (List Term) := do
    if (← peek) == some ")" then
      let _ ← next
      pure acc.reverse
    else
      let t ← rdTerm
      many (t :: acc)
  if tag == "Placeholder" then
    expect ")"; pure .placeholder
  else if tag == "Interval" then
    let n ← rdNat; expect ")"; pure (.interval n)
  else if tag == "Negation" then
    let t ← rdTerm; expect ")"; pure (.neg t)
  else match atomKOf tag with
  | some k => let n ← rdStr; expect ")"; pure (.atom k n)
  | none =>
  match setKOf tag with
  | some k => let ts ← many []; pure (.setlike k (Terms.ofList ts))
  | none =>
  match seqKOf tag with
  | some k => let ts ← many []; pure (.seqlike k (Terms.ofList ts))
  | none =>
  match imgKOf tag with
  | some k => let i ← rdNat; let ts ← many []; pure (.image k i (Terms.ofList ts))
  | none =>
  match binKOf tag with
  | some k => let a ← rdTerm; let b ← rdTerm; expect ")"; pure (.bin k a b)
  | none => throw s!"unknown term tag {tag}"

partial def rdNums (acc : List Num) : Rd (List Num) := do
  if (← peek) == some ")" then
    let _ ← next
    pure acc.reverse
  else
    let x ← rdNum
    rdNums (x :: acc)

def rdTruth : Rd Truth := do
  expect "("; expect "Truth"
  match (← rdNums []) with
  | [] => pure .empty
  | [f] => pure (.single f)
  | [f, c] => pure (.double f c)
  | _ => throw "truth arity"

def rdBudget : Rd Budget := do
  expect "("; expect "Budget"
  match (← rdNums []) with
  | [] => pure .empty
  | [p] => pure (.single p)
  | [p, d] => pure (.double p d)
  | [p, d, q] => pure (.triple p d q)
  | _ => throw "budget arity"

def rdStamp : Rd Stamp := do
  expect "("
  let tag ← next
  let s ← match tag with
    | "Eternal" => pure Stamp.eternal
    | "Past" => pure Stamp.past
    | "Present" => pure Stamp.present
    | "Future" => pure Stamp.future
    | "Fixed" => do let t ← rdInt; pure (Stamp.fixed t)
    | _ => throw s!"unknown stamp {tag}"
  expect ")"
  pure s

def rdPunct : Rd Punct := do
  match (← next) with
  | "Judgement" => pure .judgement
  | "Goal" => pure .goal
  | "Question" => pure .question
  | "Quest" => pure .quest
  | x => throw s!"unknown punctuation {x}"

def rdSentence : Rd Sentence := do
  expect "("; expect "Sentence"
  let p ← rdPunct
  let t ← rdTerm
  let tr ← rdTruth
  let st ← rdStamp
  expect ")"
  pure (Sentence.fromPunctuation t p st tr)

def rdTask : Rd Task := do
  expect "("; expect "Task"
  let b ← rdBudget
  let s ← rdSentence
  expect ")"
  pure { sentence := s, budget := b }

def rdNarsese : Rd Narsese := do
  expect "("
  let tag ← next
  let v ← match tag with
    | "NTerm" => do let t ← rdTerm; pure (NValue.term t)
    | "NSentence" => do let s ← rdSentence; pure (NValue.sentence s)
    | "NTask" => do let k ← rdTask; pure (NValue.task k)
    | _ => throw s!"unknown narsese tag {tag}"
  expect ")"
  pure v

partial def rdLTerm : Rd LTerm := do
  expect "("
  let tag ← next
  let rec many (acc : List LTerm) : Rd (List LTerm) := do
    if (← peek) == some ")" then
      let _ ← next
      pure acc.reverse
    else
      let t ← rdLTerm
      many (t :: acc)
  match tag with
  | "LAtom" => do let p ← rdStr; let n ← rdStr; expect ")"; pure (.atom p n)
  | "LCompound" => do let c ← rdStr; let ts ← many []; pure (.compound c (LTerms.ofList ts))
  | "LSet" => do let l ← rdStr; let r ← rdStr; let ts ← many []; pure (.set l (LTerms.ofList ts) r)
  | "LStatement" => do let c ← rdStr; let s ← rdLTerm; let p ← rdLTerm; expect ")"; pure (.stmt c s p)
  | _ => throw s!"unknown lexical term tag {tag}"

partial def rdStrsUntilClose (acc : List Str) : Rd (List Str) := do
  if (← peek) == some ")" then
    let _ ← next
    pure acc.reverse
  else
    let x ← rdStr
    rdStrsUntilClose (x :: acc)

def rdStrs (tag : String) : Rd (List Str) := do
  expect "("; expect tag
  rdStrsUntilClose []

def rdLSentence : Rd LSentence := do
  expect "("; expect "LSentence"
  let t ← rdLTerm
  let p ← rdStr
  let s ← rdStr
  let tr ← rdStrs "LT"
  expect ")"
  pure { term := t, punct := p, stamp := s, truth := tr }

def rdLTask : Rd LTask := do
  expect "("; expect "LTask"
  let b ← rdStrs "LB"
  let s ← rdLSentence
  expect ")"
  pure { budget := b, sentence := s }

def rdLNarsese : Rd LNarsese := do
  expect "("
  let tag ← next
  let v ← match tag with
    | "LNTerm" => do let t ← rdLTerm; pure (NValue.term t)
    | "LNSentence" => do let s ← rdLSentence; pure (NValue.sentence s)
    | "LNTask" => do let k ← rdLTask; pure (NValue.task k)
    | _ => throw s!"unknown lexical narsese tag {tag}"
  expect ")"
  pure v

def tokens (payload : String) : List String := (payload.splitOn " ").filter (fun t => !t.isEmpty)

end Narsese.Driver
